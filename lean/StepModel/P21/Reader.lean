import StepModel.P21.Dict
import StepModel.AttrNull
import StepModel.Generated.P21PcdGen
/-!
# `P21.Reader` — the two-pass Part 21 reader of stepcode over the `IStream` model

Transliteration (statement by statement, including the stream-state idiom) of

* `src/clstepcore/read_func.cc`   `ReadComment` → `readComment`, `ReadTokenSeparator` → `readTokenSeparator`,
  `FoundEndSecKywd` → `foundEndSec`, `SkipInstance` → `skipInstance`, `FindStartOfInstance` → `findStartOfInstance`,
  `ReadStdKeyword` → `readStdKeyword`, `SkipSimpleRecord`/`PushPastImbedAggr` → `skipSimpleRecord`
* `src/clstepcore/STEPundefined.cc` `SCLundefined::STEPread` → `undefRead`
* `src/clstepcore/sdaiSelect.cc`  `SDAI_Select::STEPread` + generated `STEPread_content` (`src/exp2cxx/selects.c`) → `selectRead`
* `src/clstepcore/STEPaggregate.cc`, `STEPaggrEntity.cc`, `STEPaggrSelect.cc` `ReadValue` + the node readers → `aggrRead`, `elemRead`
* `src/clstepcore/STEPattribute.cc` `STEPattribute::STEPread` → `attrSTEPread` (simple kinds: `P21.Lex.attrRead`)
* `src/clstepcore/sdaiApplication_instance.cc` `SDAI_Application_instance::STEPread` + recovery scan → `instSTEPread`
* `src/clstepcore/STEPcomplex.cc` `STEPcomplex::STEPread` → `complexSTEPread`
* `src/cleditor/STEPfile.cc` `CreateInstance`/`CreateSubSuperInstance` → `createInstance`, `ReadData1` → `readData1`,
  `ReadInstance` → `readInstance`, `ReadData2` → `readData2`, `AppendEntityErrorMsg`, `AppendFile` tail → `readDataSection`
* `src/test/p21read/p21read.cc` exit rule → `exitStatus`

Not modelled (explicit `Stop.unmodelled`, or noted): `&SCOPE` records, user-defined (`!`) entities, print-control
directives (`\N\`), comments longer than `MAX_COMMENT_LENGTH`, lenient-mode filler values for a missing *required*
INTEGER/REAL/NUMBER/STRING (property C15's subject), selects whose member is an aggregate or a select, untyped
non-reference values of a select attribute, more than `_maxErrorCount` errors, the header section (see `P21.Header`).
Loops that the C++ bounds only by the input are run with fuel `right.length + k`; running out is `Stop.outOfFuel`.
-/
namespace StepModel.P21

open StepModel IStream

inductive Stop where
  | outOfFuel
  | unmodelled (why : String)
  | overflow
deriving Repr, DecidableEq

abbrev M := Except Stop

/-- what differs between source versions at reader/writer level (regenerated into `Generated.rwCfg`) -/
structure RWCfg where
  /-- `StringNode::STEPwrite(std::string&)` appends to the scratch string the aggregate writer shares between nodes -/
  stringNodeAppends : Bool
  /-- the aggregate element loops skip token separators (comments) before an element -/
  aggrSkipsComments : Bool
  /-- `STEPcomplex::STEPread` merges the severity of every part into its result -/
  complexMergesParts : Bool
  /-- `strict` received by the parts of a complex instance (`none`: the caller's flag) -/
  complexPartStrict : Option Bool
  /-- the recovery scan of `SDAI_Application_instance::STEPread` leaves the `;` for `ReadInstance` -/
  recoveryKeepsSemicolon : Bool
  /-- `SkipInstance` steps over comments (a `;` or apostrophe inside a comment does not end the instance) -/
  skipInstanceSkipsComments : Bool
  /-- `ReadInstance` reports an instance that is not followed by `;` (or ENDSEC) instead of swallowing the next character -/
  missingSemicolonReported : Bool
  /-- lenient mode substitutes a filler only for an explicit `$`, not for a parameter that is missing altogether -/
  fillerOnlyForDollar : Bool
  /-- `ReadInstance` hands the severity of a complex instance to `AppendEntityErrorMsg` (as it does for simple ones) -/
  complexReportsError : Bool
  /-- `ReadInstance` remembers where a record starts (`tellg`) and, when `STEPread` returns WARNING or worse, finds the
      end of the record from there with `SkipInstance`, the way pass 1 found it, instead of trusting the position the
      failed read left behind -/
  errorResyncsFromStart : Bool := false
  /-- `STEPcomplex::STEPread` merges what the *attributes* of every part other than the first report (severity at or below
      USERMSG, attributes flagged derived excepted) into its result; complaints of a part's parameter list that are not tied
      to an attribute stay unreported -/
  complexMergesAttrErrors : Bool := false
  /-- `ReadComment` reads a comment of any length (in chunks of MAX_COMMENT_LENGTH while the stream is good, fixes/C01-9).
      `readComment` below has no length bound: it is the code's reader in this shape only; in the other one a comment of more
      than 8192 characters is abandoned with `SkipInstance` and every "any comment" clause holds below that length only -/
  commentsOfAnyLength : Bool := false
  /-- `PushPastImbedAggr` and `SCLundefined::STEPread` end at a `;` outside a string literal (the raw text of an element of
      an aggregate of aggregates, and the parameter lists `SkipSimpleRecord` steps over, do not leave the record) -/
  rawValueStaysInRecord : Bool := false
  /-- … only at a `;` outside a string literal, apostrophes counted from where the scan starts (the shape between C05-14 and
      C05-19); otherwise at the first `;` -/
  recoveryCountsQuotes : Bool := false
  /-- the look-ahead for missing trailing values after an early `)` advances twice per round (examines every second
      remaining attribute; source before 2b21a5dc) -/
  missingCheckEverySecond : Bool := false
  /-- the recovery scan of `SDAI_Application_instance::STEPread` ends at a `;` outside a string literal (it does not run
      past the record when there is no `);`) -/
  recoveryStopsAtSemicolon : Bool := false
  /-- the lenient-mode filler for an explicit `$` keeps what `CheckRemainingInput` reported behind the `$` (`$1`): the
      severity is the worse of that and the filler's USERMSG; otherwise USERMSG overwrites it -/
  fillerKeepsError : Bool := false
  /-- the elements of an aggregate of NUMBER are read with `ReadNumber` (`RealAggregate::ReadValue` looks at the element
      type); otherwise with `ReadReal`, as the elements of an aggregate of REAL are -/
  numberElemReadsNumber : Bool := false
  /-- the element loops of `STEPaggregate::ReadValue` report a delimiter that stands where an element must stand -/
  aggrReportsMissingElement : Bool := false
deriving Repr, DecidableEq, Inhabited

/-- `in >> c` into a variable that keeps its value when nothing is extracted -/
def shiftInto (c : Byte) (s : IStream) : Byte × IStream :=
  match s.getChar with
  | (some x, s') => (x, s')
  | (none, s') => (c, s')

/-! ## token separators -/

/-- body of a comment after `/*`: up to and including the first `*/` -/
def cmtBody : List Byte → List Byte → Option (List Byte × List Byte)
  | l, 42 :: 47 :: r => some (47 :: 42 :: l, r)
  | l, c :: r => cmtBody (c :: l) r
  | _, [] => none

/-- `ReadComment( in, s )` (the text is not kept) -/
def readComment (s : IStream) : IStream :=
  let s1 := s.ws
  let (c, s2) := shiftInto 0 s1
  if c == 47 then
    let (c2, s3) := getInto c s2
    if c2 == 42 then
      let s4 := s3.ws
      if s4.good then
        match cmtBody s4.left s4.right with
        | some (l, r) => { s4 with left := l, right := r }
        | none => { s4 with left := s4.right.reverse ++ s4.left, right := [], eof := true, fail := true }
      else { s4 with fail := true }
    else s3.putback c2
  else s2.putback c

/-- `ReadPcd( in )`: an explicit print control directive `\N\` / `\F\` (Part 21 edition 1).  The unrepaired function ends
    with one more `in.get( c )` after the closing backslash: the character that follows the directive is lost
    (`Generated.pcdEatsNextChar`, regenerated from `read_func.cc` by `tools/extract.d/p21rw.py`). -/
def readPcd (s : IStream) : IStream :=
  let (c, s1) := getInto 0 s
  if c == 92 then
    let (c2, s2) := getInto c s1
    if c2 == 70 || c2 == 78 then
      let (c3, s3) := getInto c2 s2
      if c3 == 92 then (if Generated.pcdEatsNextChar then (getInto c3 s3).2 else s3)
      else s3
    else s2
  else s1

def readTokenSeparatorAux : Nat → IStream → IStream
  | 0, s => s
  | fuel + 1, s =>
    if s.failed then s
    else
      let s1 := s.ws
      let (c, s2) := s1.peekC
      if c == 47 then readTokenSeparatorAux fuel (readComment s2)
      else if c == 92 then readTokenSeparatorAux fuel (readPcd s2)
      else s2

/-- `ReadTokenSeparator( in )`; every round that continues consumes the `/`, so `right.length + 2` rounds suffice -/
def readTokenSeparator (s : IStream) : IStream :=
  if s.eof then s else readTokenSeparatorAux (s.right.length + 2) s

/-! ## keyword scanners -/

def matchWord : List Byte → Byte → IStream → Bool × Byte × IStream
  | [], c, s => (true, c, s)
  | k :: ks, c, s =>
    let (c', s') := getInto c s
    if c' == k then matchWord ks c' s' else (false, c', s'.putback c')

/-- `FoundEndSecKywd( in )` -/
def foundEndSec (s : IStream) : Bool × IStream :=
  let s0 := s.ws
  let (ok, c, s1) := matchWord [69, 78, 68, 83, 69, 67] 0 s0
  if ok then
    let s2 := s1.ws
    let (c2, s3) := getInto c s2
    if c2 == 59 then (true, s3) else (false, s3.putback c2)
  else (false, s1)

/-- `SkipInstance` / `FindStartOfInstance`: scan to `stop` (`;` consumed, `#` put back), stepping over strings and —
    in the repaired `SkipInstance` — over comments -/
def scanTo (stop : Byte) (putBack : Bool) (skipCmt : Bool) : Nat → Byte → IStream → M IStream
  | 0, _, _ => throw .outOfFuel
  | fuel + 1, c, s =>
    if !s.good then pure s
    else
      let (c1, s1) := shiftInto c s
      if c1 == stop then pure (if putBack then s1.putback c1 else s1)
      else if c1 == 47 && skipCmt then
        let (p, s2) := s1.peekC
        if p == 42 then scanTo stop putBack skipCmt fuel c1 (readComment (s2.putback c1))
        else scanTo stop putBack skipCmt fuel c1 s2
      else if c1 == 39 then
        let (_, s2, _) := stringRead (s1.putback c1) .null
        scanTo stop putBack skipCmt fuel c1 s2
      else if c1 == 0 then pure s1
      else scanTo stop putBack skipCmt fuel c1 s1

def skipInstance (cfg : RWCfg) (s : IStream) : M IStream :=
  scanTo 59 false cfg.skipInstanceSkipsComments (s.right.length + 2) 0 s
def findStartOfInstance (s : IStream) : M IStream := scanTo 35 true false (s.right.length + 2) 0 s

/-- `while( in.get( c ) && ( isalnum( c ) || c == '_' ) ) buf += c;` on a good stream -/
def kwLoop : List Byte → Byte → List Byte → List Byte → List Byte × Byte × List Byte × List Byte × Bool
  | buf, c, l, [] => (buf, c, l, [], true)
  | buf, _, l, x :: r =>
    if isAlnum x || x == 95 then kwLoop (x :: buf) x (x :: l) r else (buf, x, x :: l, r, false)

/-- `ReadStdKeyword( in, buf, 1 )` -/
def readStdKeyword (s : IStream) : List Byte × IStream :=
  let s1 := s.ws
  if s1.good then
    let (buf, c, l, r, hitEnd) := kwLoop [] 0 s1.left s1.right
    let s2 : IStream := { s1 with left := l, right := r, eof := hitEnd, fail := hitEnd }
    (buf.reverse, s2.putback c)
  else
    let s2 : IStream := { s1 with fail := true }
    (([] : List Byte), if s2.eof then s2.putback 0 else s2)

def upperBytes (l : List Byte) : List Byte := l.map toUpper
def bytesToString (l : List Byte) : String := String.ofList (l.map (fun b => Char.ofNat b))
def stringToBytes (s : String) : List Byte := s.toList.map Char.toNat

/-! ## SCLundefined -/

/-- `PushPastImbedAggr`: after the opening paren has been seen at `right`; copies the balanced record (strings are
    stepped over with `GetLiteralStr`).  Returns the text appended and the stream. -/
def pushPastAggr (stop : Bool) : Nat → IStream → Sev → M (List Byte × IStream × Sev)
  | 0, _, _ => throw .outOfFuel
  | fuel + 1, s, err =>
    let s1 := s.ws
    let (c, s2) := getInto 0 s1
    if c == 40 && !s2.failed then
      let rec body : Nat → List Byte → Byte → IStream → Sev → M (List Byte × IStream × Sev)
        | 0, _, _, _, _ => throw .outOfFuel
        | f + 1, acc, c, s, err =>
          if s.good && c != 41 then
            if c == 40 then do
              let (t, s', err') ← pushPastAggr stop fuel (s.putback c) err
              let (c', s'') := getInto c s'
              body f (acc ++ t) c' s'' err'
            else if c == 39 then
              let (t, s', err') := getLiteralStr (s.putback c) err
              let (c', s'') := getInto c s'
              body f (acc ++ t) c' s'' err'
            else if stop && c == 59 then
              -- outside a string literal the record ends here: the aggregate is not closed in it (`stop`, fixes/C05-16)
              pure (acc ++ [41], s.putback c, err.greater .inputError)
            else
              let (c', s') := getInto c s
              body f (acc ++ [c]) c' s' err
          -- `if( depth > 0 ) err->GreaterSeverity( SEVERITY_INPUT_ERROR )`: the loop was left without the closing `)`
          else pure (acc ++ [41], s, if s.good then err else err.greater .inputError)
      let (c1, s3) := getInto c s2
      body (s3.right.length + 3) [40] c1 s3 err
    else pure ([], s2, err)

/-- main loop of `SCLundefined::STEPread`: text up to the next `,`/`)` at nesting depth 0 - or, in the source that keeps
    the value inside the record (`stop`, fixes/C05-17), up to a `;` outside a string literal -/
def undefLoop (stop : Bool) : Nat → List Byte → IStream → M (List Byte × IStream)
  | 0, _, _ => throw .outOfFuel
  | fuel + 1, acc, s =>
    let (c, s1) := getInto 0 s
    if !s1.good then pure (acc, s1)
    else if c == 40 then do
      let (t, s2, _) ← pushPastAggr stop (s1.right.length + 3) (s1.putback c) .null
      if !s2.good then pure (acc ++ t, s2) else undefLoop stop fuel (acc ++ t) s2
    else if c == 39 then
      let (t, s2, _) := getLiteralStr (s1.putback c) .null
      if !s2.good then pure (acc ++ t, s2) else undefLoop stop fuel (acc ++ t) s2
    else if c == 44 || c == 41 then pure (acc, s1.putback c)
    else if stop && c == 59 then pure (acc, s1.putback c)
    else if c == 0 then pure (acc, s1)
    else undefLoop stop fuel (acc ++ [c]) s1

/-- `SCLundefined::STEPread` (the severity it reports is always NULL; `$` is followed by `CheckRemainingInput`) -/
def undefRead (lex : LexCfg) (stop : Bool) (s : IStream) : M (List Byte × IStream × Sev) := do
  let s1 := s.ws
  let (c, s2) := shiftInto 0 s1
  let (s3, e) := if c == 36 then checkRemainingInput lex (some attrDelims) s2 .null else (s2.putback c, .null)
  let (t, s4) ← undefLoop stop (s3.right.length + 3) [] s3
  pure (t, s4, e)

/-! ## scalars, selects, aggregates -/

/-- what the reader knows about an instance id: the entity keywords it answers to (`IsA` closure of every part) -/
abbrev Lookup := Int → Option (List String)

def refLookup (lk : Lookup) (target : String) (id : Int) : RefLookup :=
  match lk id with
  | none => .missing
  | some names => if names.contains target then .found else .wrongType

def ElemTy.kind? : ElemTy → Option Kind
  | .integer => some .integer | .real => some .real | .number => some .number | .string => some .string
  | .binary => some .binary | .boolean => some .boolean | .logical => some .logical
  | .enum items => some (.enumeration items) | .entity _ => some .ref
  | .select _ => none | .generic => none

def valueToAtom {F} : Value F → Atom F
  | .unset => .unset | .int v => .int v | .real v => .real v | .str t => .str t | .bin t => .bin t
  | .enum i => .enum i | .ref i => .ref i

def liftOutcome {α} : Outcome α → M α
  | .ok a => pure a
  | .overflow => throw .overflow

structure Env (F : Type) where
  ops : FloatOps F
  lex : LexCfg
  cfg : RWCfg
  dict : Dict
  lookup : Lookup

/-- one aggregate element of a non-select, non-generic type, *without* the `CheckRemainingInput` the element loop adds:
    `IntNode/RealNode/StringNode/BinaryNode/EnumNode/EntityNode::STEPread` -/
def scalarNodeRead {F} (env : Env F) (ty : ElemTy) (s : IStream) : M (Sev × Atom F × IStream) :=
  let d := some attrDelims
  match ty with
  | .integer =>
    let (v, s1, e) := readInteger env.lex d s .null
    pure (e, valueToAtom (intValue v : Value F), s1)
  | .real | .number => do
    let (v, s1, e) ← liftOutcome (readReal env.ops env.lex d s .null)
    pure (e, valueToAtom (realValue env.ops v), s1)
  | .string =>
    let (t, s1, e) := stringRead s .null
    pure (e, if t.isEmpty then .unset else .str t, s1)
  | .binary =>
    let (t, s1, e) := readBinary env.lex true s .null
    pure (e, if t.isEmpty then .unset else .bin t, s1)
  | .boolean =>
    let (v, s1, e) := enumRead env.lex .boolean false s .null
    pure (e, valueToAtom (enumValue .boolean v : Value F), s1)
  | .logical =>
    let (v, s1, e) := enumRead env.lex .logical false s .null
    pure (e, valueToAtom (enumValue .logical v : Value F), s1)
  | .enum items =>
    let (v, s1, e) := enumRead env.lex (.enum items) false s .null
    pure (e, valueToAtom (enumValue (.enum items) v : Value F), s1)
  | .entity target =>
    let (v, s1, e) := readEntityRef env.lex (refLookup env.lookup target) d s .null
    pure (e, match v with | some id => .ref id | none => .unset, s1)
  | .select _ => throw (.unmodelled "scalarNodeRead on select")
  | .generic => throw (.unmodelled "scalarNodeRead on generic")

/-- the look-up `SDAI_Select::STEPread` does on a reference: any instance of the file is found (its type is judged later) -/
def existsLookup (lk : Lookup) : Int → RefLookup :=
  fun id => match lk id with | some _ => .found | none => .missing

/-- an entity type (in a select list: a member that is written as a bare reference) -/
def ElemTy.isEntity : ElemTy → Bool
  | .entity _ => true
  | _ => false

/-- an entity type one of whose names the instance answers to -/
def ElemTy.entityIn (names : List String) : ElemTy → Bool
  | .entity t => names.contains t
  | _ => false

/-- the type-name loop of `SDAI_Select::STEPread` case B:
    `while( c != '(' && in.good() ) { if( !eot && !( eot = isspace( c ) ) ) tmp += c; in >> c; }` -/
def selNameLoop : Nat → List Byte → Bool → Byte → IStream → M (List Byte × IStream)
  | 0, _, _, _, _ => throw .outOfFuel
  | fuel + 1, tmp, eot, c, s =>
    if c != 40 && s.good then
      let eot' := eot || isSpace c
      let tmp' := if eot' then tmp else tmp ++ [c]
      let (c', s') := shiftInto c s
      selNameLoop fuel tmp' eot' c' s'
    else pure (tmp, s)

/-- generated `STEPread_content` for the member set as underlying type; uses the select's own error descriptor -/
def selContentRead {F} (env : Env F) (m : SelMember) (s : IStream) : M (Sev × Atom F × IStream) :=
  match m.ty with
  | .integer | .real | .number | .string | .binary | .boolean | .logical | .enum _ =>
    scalarNodeRead env (if m.ty == .number then .real else m.ty) s
  | .entity target =>
    -- `ReadEntityRef` then `CanBe( _app_inst->eDesc )`; a mismatch only sets SEVERITY_USERMSG and nullifies
    let (v, s1, e) := readEntityRef env.lex (existsLookup env.lookup)
      (some attrDelims) s .null
    match v with
    | some id =>
      if refLookup env.lookup target id == .found then pure (e, .ref id, s1) else pure (.usermsg, .unset, s1)
    | none => pure (.usermsg, .unset, s1)
  | .select _ => throw (.unmodelled "select member that is a select")
  | .generic => throw (.unmodelled "select member that is an aggregate")

/-- first entity member an instance can be assigned to (`AssignEntity` generated by exp2cxx) -/
def assignEntity {F} (env : Env F) (sd : SelectD) (id : Int) : Option SelMember :=
  match env.lookup id with
  | none => none
  | some names => sd.members.find? (fun m => m.ty.entityIn names)

/-- `SDAI_Select::STEPread( in, err, instances, 0, addFileId, currSch )`: the Severity it *returns* (callers overwrite
    their descriptor with it), the value, the stream -/
def selectRead {F} (env : Env F) (sd : SelectD) (s : IStream) : M (Sev × Elem F × IStream) := do
  let s1 := s.ws
  let (c, s2) := shiftInto 0 s1
  if isAlpha c then
    let (tmp, s3) ← selNameLoop (s2.right.length + 3) [] false c s2
    let nm := bytesToString (upperBytes tmp)
    match sd.members.find? (fun m => m.name == nm && !m.ty.isEntity) with
    | some m =>
      let s4 := s3.ws
      let (e, a, s5) ← selContentRead env m s4
      let (c2, s6) := shiftInto c s5.ws
      if c2 != 41 then pure (.warning, .sel m.name a, s6.putback c2)
      else pure (e, .sel m.name a, s6)
    | none =>
      if !s3.good then pure (.inputError, .atom .unset, s3) else pure (.warning, .atom .unset, s3)
  else if c == 36 then pure (.incomplete, .atom .unset, s2)
  else if c == 44 || c == 0 then pure (.warning, .atom .unset, s2.putback c)
  else if c == 35 then
    let s3 := s2.putback c
    let (v, s4, _) := readEntityRef env.lex (existsLookup env.lookup)
      (some attrDelims) s3 .null
    match v with
    | some id =>
      match assignEntity env sd id with
      | some m => pure (.null, .sel m.name (.ref id), s4)
      | none => pure (.warning, .atom .unset, s4)
    | none => pure (.warning, .atom .unset, s4)
  else
    -- case A, a value without its type keyword: invalid since the Technical Corrigendum; "read what you can" with WARNING
    let want : Option (ElemTy → Bool) :=
      if c == 46 then some (fun t => match t with | .enum _ => true | _ => false)
      else if c == 39 then some (· == .string)
      else if c == 34 then some (· == .binary)
      else if isDigit c || c == 45 then
        some (if sd.members.any (·.ty == .real) then (· == .real) else (· == .integer))
      else if c == 40 then some (fun _ => false)
      else none
    match want with
    | none => pure (.warning, .atom .unset, s2.putback c)
    | some p =>
      let s3 := s2.putback c
      match sd.members.find? (fun m => p m.ty) with
      | some m =>
        let (_, a, s4) ← selContentRead env m s3
        pure (.warning, .sel m.name a, s4)
      | none => pure (.warning, .atom .unset, s3)

/-- one element of an aggregate including the `CheckRemainingInput` of the element loop -/
def elemReadCore {F} (env : Env F) (ty : ElemTy) (s0 : IStream) : M (Sev × Elem F × IStream) := do
  match ty with
  | .select n =>
    match env.dict.select? n with
    | none => throw (.unmodelled "unknown select type")
    | some sd =>
      let (r, v, s1) ← selectRead env sd s0
      let (s2, e) := checkRemainingInput env.lex (some attrDelims) s1 r          -- SelectNode::STEPread
      let (s3, e2) := checkRemainingInput env.lex (some attrDelims) s2 e         -- element loop
      pure (e2, v, s3)
  | .generic =>
    let (t, s1, e) ← undefRead env.lex env.cfg.rawValueStaysInRecord s0
    let (s2, e2) := checkRemainingInput env.lex (some attrDelims) s1 e
    pure (e2, .atom (if t.isEmpty then .unset else .undef t), s2)
  | .number =>
    if env.cfg.numberElemReadsNumber then
      let (v, s1, e) := readNumber env.ops env.lex (some attrDelims) s0 .null
      let (s2, e2) := checkRemainingInput env.lex (some attrDelims) s1 e
      pure (e2, .atom (valueToAtom (realValue env.ops v)), s2)
    else
      let (e, a, s1) ← scalarNodeRead env ty s0
      let (s2, e2) := checkRemainingInput env.lex (some attrDelims) s1 e
      pure (e2, .atom a, s2)
  | _ =>
    let (e, a, s1) ← scalarNodeRead env ty s0
    let (s2, e2) := checkRemainingInput env.lex (some attrDelims) s1 e
    pure (e2, .atom a, s2)

/-- `const int next = in.peek(); missing = next == ',' || next == ')'` of the repaired element loops -/
def elemMissing (cfg : RWCfg) (s : IStream) : Bool × IStream :=
  if cfg.aggrReportsMissingElement then
    let (c, s1) := s.peekC
    (c == 44 || c == 41, s1)
  else (false, s)

/-- one round of the element loop up to and including its `CheckRemainingInput` and the "missing element" verdict -/
def elemRead {F} (env : Env F) (ty : ElemTy) (s : IStream) : M (Sev × Elem F × IStream) := do
  let sA := if env.cfg.aggrSkipsComments then readTokenSeparator s else s
  let (miss, s0) := elemMissing env.cfg sA
  let (e, v, sZ) ← elemReadCore env ty s0
  pure (if miss then e.greater .warning else e, v, sZ)

/-- element loop of `STEPaggregate::ReadValue` after the first peek: `c` is the last character looked at -/
def aggrLoop {F} (env : Env F) (ty : ElemTy) : Nat → Sev → List (Elem F) → Byte → IStream →
    M (Sev × Option (List (Elem F)) × IStream)
  | 0, _, _, _, _ => throw .outOfFuel
  | fuel + 1, err, acc, c, s =>
    if s.good && c != 41 then do
      let (e, v, s1) ← elemRead env ty s
      let err1 := if e.toInt < Sev.incomplete.toInt then err.greater e else err
      let s2 := s1.ws
      let (c2, s3) := getInto c s2
      if c2 != 44 && c2 != 41 then pure (err1.greater .inputError, some (acc ++ [v]), s3)
      else aggrLoop env ty fuel err1 (acc ++ [v]) c2 s3
    else if c == 41 then pure (err, some acc, s)
    else pure (err.greater .inputError, if acc.isEmpty then none else some acc, s)

/-- `STEPaggregate::ReadValue( in, err, elem_type, insts, addFileId, 1, 1 )`; `none` = `_null` stays set -/
def aggrRead {F} (env : Env F) (ty : ElemTy) (s : IStream) : M (Sev × Option (List (Elem F)) × IStream) := do
  let s1 := s.ws
  let (c, s2) := s1.peekC
  if s2.eof || c == 36 then pure (.incomplete, none, s2)
  else if c != 40 then pure (.inputError, none, s2)
  else
    let (_, s3) := getInto c s2
    let s4 := if env.cfg.aggrSkipsComments then readTokenSeparator s3 else s3.ws
    let (c2, s5) := s4.peekC
    let (c3, s6) := if c2 == 41 then getInto c2 s5 else (c2, s5)
    aggrLoop env ty (s6.right.length + 2) .null [] c3 s6

/-! ## STEPattribute::STEPread -/

def nullOf {F} (a : AttrD) : MVal F :=
  if a.derived then .derived else
  match a.ty with
  | .one _ => .one (.atom .unset)
  | .aggr _ => .aggrNull

def sevOfShared : StepModel.Sev → Sev
  | .bug => .bug | .inputError => .inputError | .warning => .warning | .incomplete => .incomplete
  | .usermsg => .usermsg | .null => .null
  | _ => .bug      -- EXIT/DUMP/MAX never come out of the filler branch (`C15_fillers_known`)

/-- the lenient-mode filler for a missing required INTEGER/REAL/NUMBER/STRING: property C15's model
    (`AttrNull.attrRead`, driven by the regenerated filler table) supplies severity and token -/
def fillerValue {F} (ops : FloatOps F) (k : AttrNull.Kind) (s : IStream) : Sev × MVal F × IStream :=
  let (sv, v) := AttrNull.attrRead false { kind := k, optional := false } (.missing true)
  let atom : Atom F := match v with
    | .tok t =>
      (match k with
       | .integer => (match t.toInt? with | some i => .int i | none => .unset)
       | .string => .str (stringToBytes t)
       | _ => (match ops.conv (stringToBytes t) with | .ok x => .real x | _ => .unset))
    | _ => .unset
  (sevOfShared sv, .one (.atom atom), s)

/-- `STEPattribute::STEPread( in, instances, addFileId, currSch, strict )` for a non-redefining attribute -/
def attrSTEPread {F} (env : Env F) (strict : Bool) (a : AttrD) (s : IStream) : M (Sev × MVal F × IStream) := do
  let s1 := s.ws
  let (c, s2) := s1.peekC
  if a.derived then
    let (s3, e) : IStream × Sev := if c == 42 then ((getInto c s2).2, .null) else (s2, .warning)
    let (s4, e2) := checkRemainingInput env.lex (some attrDelims) s3 e
    pure (e2, .derived, s4)
  else if c == 36 || c == 44 || c == 41 then
    let (s3, e) : IStream × Sev :=
      if c == 36 then checkRemainingInput env.lex (some attrDelims) s2.ignore1 .null else (s2, .null)
    if a.optional then pure (if env.lex.dollarKeepsError then e else .null, nullOf a, s3)
    else if strict || (env.cfg.fillerOnlyForDollar && c != 36) then pure (.incomplete, nullOf a, s3)
    else
      let keep (r : Sev × MVal F × IStream) : Sev × MVal F × IStream :=
        if env.cfg.fillerKeepsError && r.1 == .usermsg then (e.greater r.1, r.2.1, r.2.2) else r
      match a.ty with
      | .one .integer => pure (keep (fillerValue env.ops .integer s3))
      | .one .real => pure (keep (fillerValue env.ops .real s3))
      | .one .number => pure (keep (fillerValue env.ops .number s3))
      | .one .string => pure (keep (fillerValue env.ops .string s3))
      | _ => pure (.incomplete, nullOf a, s3)
  else
    match a.ty with
    | .aggr ety =>
      let (e, v, s3) ← aggrRead env ety s2
      let mv : MVal F := match v with | some es => .aggr es | none => .aggrNull
      if e.toInt < Sev.warning.toInt then pure (e, mv, s3)
      else
        let (s4, e2) := checkRemainingInput env.lex (some attrDelims) s3 e
        pure (e2, mv, s4)
    | .one (.select n) =>
      match env.dict.select? n with
      | none => throw (.unmodelled "unknown select type")
      | some sd =>
        let (r, v, s3) ← selectRead env sd s2
        let (s4, e2) := checkRemainingInput env.lex (some attrDelims) s3 r
        pure (e2, .one v, s4)
    | .one .generic => throw (.unmodelled "attribute of generic type")
    | .one ety =>
      let (e, av, s3) ← scalarNodeReadAttr env ety a.optional s2
      pure (e, .one (.atom av), s3)
where
  /-- the scalar cases of `STEPattribute::STEPread` with `cri` in place of `CheckRemainingInput` -/
  scalarNodeReadAttr {F} (env : Env F) (ety : ElemTy) (optional : Bool) (s : IStream) : M (Sev × Atom F × IStream) := do
    match ety with
    | .boolean | .logical | .enum _ =>
      let k : EnumKind := match ety with | .boolean => .boolean | .logical => .logical | .enum it => .enum it | _ => .boolean
      let (v, s1, e) := enumRead env.lex k optional s .null
      let (s2, e2) := checkRemainingInput env.lex (some attrDelims) s1 e
      pure (e2, valueToAtom (enumValue k v : Value F), s2)
    -- ReadInteger / ReadReal / ReadNumber / ReadEntityRef end with their own CheckRemainingInput; no second one here.
    -- The three numeric readers with the in-band-null test of the repaired source (C09's `read…S` wrappers: a value that
    -- *is* S_INT_NULL / S_REAL_NULL / S_NUMBER_NULL is not stored but reported, switches `…NullReported`).
    | .number =>
      let (v, s1, e) := readNumberS env.ops env.lex (some attrDelims) s .null
      pure (e, valueToAtom (realValue env.ops v), s1)
    | .integer =>
      let (v, s1, e) := readIntegerS env.lex (some attrDelims) s .null
      pure (e, valueToAtom (intValue v : Value F), s1)
    | .real => do
      let (v, s1, e) ← liftOutcome (readRealS env.ops env.lex (some attrDelims) s .null)
      pure (e, valueToAtom (realValue env.ops v), s1)
    | .entity _ => scalarNodeRead env ety s
    | _ =>
      let (e, av, s1) ← scalarNodeRead env ety s
      let (s2, e2) := checkRemainingInput env.lex (some attrDelims) s1 e
      pure (e2, av, s2)

/-! ## SDAI_Application_instance::STEPread -/

/-- the "Missing attribute value[s]" scan after a `)`: `while( i < n - 1 ) { i++; if( attributes[i] is not redefining ) report;
    [ i++; ] }` - every remaining attribute, or (source before 2b21a5dc, `everySecond`) every second one -/
def missingCheck (everySecond : Bool) : List AttrD → Bool
  | [] => false
  | a :: rest => if !a.redefining then true else
    if everySecond then
      match rest with
      | [] => false
      | _ :: rest' => missingCheck everySecond rest'
    else missingCheck everySecond rest

def defaults {F} (as : List AttrD) : List (MVal F) := (as.filter (!·.redefining)).map nullOf

/-- the recovery scan to `);`.  `stop` (regenerated `recoveryStopsAtSemicolon`): the scan does not leave the record - it ends
    at a `;` whatever stands before it; with `quotes` (`recoveryCountsQuotes`, the shape between C05-14 and C05-19) only at a
    `;` outside a string literal (`q`: inside a string literal; apostrophes toggle it), without it at the first `;` -/
def recoverScan (stop quotes : Bool) : Nat → Bool → Byte → IStream → M IStream
  | 0, _, _, _ => throw .outOfFuel
  | fuel + 1, q, c, s =>
    if !s.good then pure s
    else if c != 41 then
      let (c', s') := getInto c s
      if stop && quotes && s'.good && c' == 39 then recoverScan stop quotes fuel (!q) c' s'
      else if stop && s'.good && c' == 59 && !q then pure s'
      else recoverScan stop quotes fuel q c' s'
    else
      let s1 := s.ws
      let (c', s2) := getInto c s1
      if c' == 59 then pure s2
      else if stop && quotes && s2.good && c' == 39 then recoverScan stop quotes fuel (!q) c' s2
      else recoverScan stop quotes fuel q c' s2

structure IR (F : Type) where
  sev : Sev
  vals : List (MVal F)
  s : IStream
  /-- what the *attributes* report (their own error descriptors after the read, merged): severities at or below USERMSG of
      the attributes not flagged derived.  `STEPcomplex::STEPread` merges this - not `sev`, which also holds the complaints
      of the parameter list itself - for the parts other than the first. -/
  asev : Sev

/-- the contribution of one attribute to `IR.asev` -/
def attrSev (a : AttrD) (sev rest : Sev) : Sev :=
  if a.derived then rest else if sev.toInt ≤ Sev.usermsg.toInt then rest.greater sev else rest

def readAttrs {F} (env : Env F) (strict : Bool) : List AttrD → Sev → Byte → IStream → M (IR F)
  | [], err, c, s => do
    -- STEPread_error( c, n, … ): "No more attributes were expected", then the scan to `);`
    let err1 := err.greater .inputError
    let s1 ← recoverScan env.cfg.recoveryStopsAtSemicolon env.cfg.recoveryCountsQuotes (s.right.length + 3) false c s.clear
    let s2 := if env.cfg.recoveryKeepsSemicolon && s1.good then s1.putback 59 else s1
    pure ⟨err1, [], s2, .null⟩
  | a :: rest, err, c, s => do
    let s1 := readTokenSeparator s
    if a.redefining then
      let s2 := s1.ws
      let (c2, s3) := s2.peekC
      let (c3, s4) := if c2 == 41 then shiftInto c2 s3 else (c2, s3)
      if c3 == 41 then
        pure ⟨if missingCheck env.cfg.missingCheckEverySecond rest then err.greater .warning else err, defaults rest, s4, .null⟩
      else readAttrs env strict rest err c3 s4
    else
      let (sev, v, s2) ← attrSTEPread env strict a s1
      let (c2, s3) := shiftInto c s2
      let err1 := if sev.toInt ≤ Sev.usermsg.toInt then err.greater sev else err
      if !(c2 == 44 || c2 == 41) then
        let (s4, err2) := checkRemainingInput env.lex (some attrDelims) s3 err1
        if !s4.good then pure ⟨err2, v :: defaults rest, s4, attrSev a sev .null⟩
        else if err2.toInt ≤ Sev.inputError.toInt then pure ⟨err2, v :: defaults rest, s4, attrSev a sev .null⟩
        else
          let r ← readAttrs env strict rest err2 c2 s4
          pure { r with vals := v :: r.vals, asev := attrSev a sev r.asev }
      else if c2 == 41 then
        pure ⟨if missingCheck env.cfg.missingCheckEverySecond rest then err1.greater .warning else err1, v :: defaults rest, s3, attrSev a sev .null⟩
      else
        let r ← readAttrs env strict rest err1 c2 s3
        pure { r with vals := v :: r.vals, asev := attrSev a sev r.asev }

/-- `SDAI_Application_instance::STEPread` -/
def instSTEPread {F} (env : Env F) (strict : Bool) (attrs : List AttrD) (s : IStream) : M (IR F) := do
  let s1 := s.ws
  let (c, s2) := shiftInto 0 s1
  let s3 := if c != 40 then s2.putback c else s2
  let s4 := readTokenSeparator s3
  if attrs.isEmpty then
    let (c2, s5) := shiftInto c s4
    if c2 == 41 then pure ⟨.null, [], s5, .null⟩
    else readAttrs env strict [] .null c2 s5
  else readAttrs env strict attrs .null c s4

/-! ## STEPcomplex::STEPread -/

structure CR (F : Type) where
  sev : Sev
  parts : List (MPart F)
  s : IStream

def setPart {F} (ps : List (MPart F)) (name : String) (vals : List (MVal F)) : List (MPart F) :=
  ps.map (fun p => if p.name == name then { p with vals := vals } else p)

/-- the part loop.  `err` is `this->_error` (`this` = the part named `head`); reading the head part starts with
    `ClearError`, so it *replaces* `err`; what the other parts report lands in their own descriptors and reaches the
    result only in the repaired source (`complexMergesParts`: all of it; `complexMergesAttrErrors`: what the part's attributes
    report; collected in `perr`). -/
def complexLoop {F} (env : Env F) (strict : Bool) (head : String) : Nat → Sev → Sev → List (MPart F) → IStream → M (CR F)
  | 0, _, _, _, _ => throw .outOfFuel
  | fuel + 1, err, perr, ps, s =>
    let fin (e : Sev) : Sev := if env.cfg.complexMergesParts || env.cfg.complexMergesAttrErrors then e.greater perr else e
    let (c, s0) := s.peekC
    if c == 41 then pure ⟨fin err, ps, (getInto c s0).2⟩
    else do
      let (nmB, s1) := readStdKeyword s0.ws
      let nm := bytesToString (upperBytes nmB)
      let s2 := s1.ws
      let (c2, s3) := s2.peekC
      -- STEPread_error( c, 0, … ): WARNING when the head part has attributes, INPUT_ERROR otherwise; both are merged
      -- (these two early `return _error.severity()` come before `_error.AppendFromErrorArg( &partErrors )`: `perr` is not merged)
      if c2 != 40 then pure ⟨(err.greater .inputError).greater .warning, ps, s3⟩
      else
        match ps.find? (·.name == nm), env.dict.entity? nm with
        | some _, some ed =>
          let r ← instSTEPread env strict ed.ownAttrs s3
          if nm == head then complexLoop env strict head fuel r.sev perr (setPart ps nm r.vals) r.s.ws
          else
            let psev := if env.cfg.complexMergesParts then r.sev else r.asev
            complexLoop env strict head fuel err (perr.greater psev) (setPart ps nm r.vals) r.s.ws
        | _, _ => pure ⟨(err.greater .inputError).greater .warning, ps, s3⟩

/-- `STEPcomplex::STEPread` -/
def complexSTEPread {F} (env : Env F) (strict : Bool) (ps : List (MPart F)) (s : IStream) : M (CR F) := do
  let s1 := s.ws
  let (c, s2) := getInto 0 s1
  if c == 40 then
    let head := match ps with | p :: _ => p.name | [] => ""
    complexLoop env strict head (s2.right.length + 3) .null .null ps s2.ws
  else pure ⟨.inputError, ps, s2⟩

/-! ## pass 1 -/

/-- the loop of `SkipSimpleRecord` behind the `(`:
    `while( in.get( c ) && ( c != ')' ) && ( err->severity() > SEVERITY_INPUT_ERROR ) )` - strings are stepped over with
    `GetLiteralStr`, nested aggregates with `PushPastImbedAggr`, everything else (a `;` too) is copied -/
def skipRecLoop (stop : Bool) : Nat → Sev → IStream → M (IStream × Sev)
  | 0, _, _ => throw .outOfFuel
  | fuel + 1, err, s =>
    let (c, s1) := getInto 0 s
    if s1.failed then pure (s1, err)
    else if c == 41 then pure (s1, err)
    else if err.toInt ≤ Sev.inputError.toInt then pure (s1, err)
    else if c == 39 then
      let (_, s2, err2) := getLiteralStr (s1.putback c) err
      skipRecLoop stop fuel err2 s2
    else if c == 40 then do
      let (_, s2, err2) ← pushPastAggr stop (s1.right.length + 3) (s1.putback c) err
      skipRecLoop stop fuel err2 s2
    else skipRecLoop stop fuel err s1

/-- skip one `( … )` record of an externally mapped instance: `SkipSimpleRecord`; `err` is the descriptor
    `CreateSubSuperInstance` shares between the parts (once it holds INPUT_ERROR every later loop ends at once) -/
def skipSimpleRecord (stop : Bool) (s : IStream) (err : Sev) : M (IStream × Sev) := do
  let s1 := s.ws
  let (c, s2) := getInto 0 s1
  if c == 40 && !s2.failed then
    let (s3, err3) ← skipRecLoop stop (s2.right.length + 3) err s2
    pure (s3, if !s3.good then err3.greater .inputError else err3)
  else pure (s2.putback c, err)

/-- names of the parts of a subtype/supertype record: `CreateSubSuperInstance` up to the closing paren -/
def complexNames (stop : Bool) : Nat → List String → Sev → Byte → IStream → M (List String × IStream)
  | 0, _, _, _, _ => throw .outOfFuel
  | fuel + 1, acc, err, c, s =>
    if s.good && c != 41 then do
      let (nmB, s1) := readStdKeyword s
      let (acc', s2, err') ← if nmB.isEmpty then pure (acc, s1, err) else do
        let (s', e') ← skipSimpleRecord stop s1 err
        pure (acc ++ [bytesToString (upperBytes nmB)], s', e')
      let s3 := s2.ws
      let (c2, s4) := s3.peekC
      -- skip anything that is neither `)` nor a letter
      let rec junk : Nat → Byte → IStream → M (Byte × IStream)
        | 0, _, _ => throw .outOfFuel
        | f + 1, c, s =>
          if s.good && c != 41 && !isAlpha c then
            let (_, s') := shiftInto c s
            let (c', s'') := s'.peekC
            junk f c' s''
          else pure (c, s)
      let (c3, s5) ← junk (s4.right.length + 2) c2 s4
      complexNames stop fuel acc' err' c3 s5
    else pure (acc, s)

def insertSorted (n : String) : List String → List String
  | [] => [n]
  | x :: xs => if n ≤ x then n :: x :: xs else x :: insertSorted n xs
def sortNames (l : List String) : List String := l.foldr insertSorted []

/-- `IsA` closure of an instance's parts -/
def answersTo (d : Dict) (names : List String) : List String :=
  names.flatMap (fun n => match d.entity? n with | some e => e.ancestors | none => [n])

structure Mgr (F : Type) where
  insts : List (MInst F) := []
deriving Repr, Inhabited

def Mgr.find? {F} (m : Mgr F) (id : Int) : Option (MInst F) := m.insts.find? (·.id == id)
def Mgr.lookup {F} (d : Dict) (m : Mgr F) : Lookup :=
  fun id => (m.find? id).map (fun i => answersTo d (i.parts.map (·.name)))
def Mgr.update {F} (m : Mgr F) (i : MInst F) : Mgr F :=
  { insts := m.insts.map (fun x => if x.id == i.id then i else x) }

/-- `CreateInstance` after the `#`: the instance created (`none` = ENTITY_NULL) and the stream -/
def createInstance {F} (cfg : RWCfg) (d : Dict) (m : Mgr F) (s : IStream) : M (Option (MInst F) × IStream) := do
  let s1 := readTokenSeparator s
  let (oi, s2) := s1.extractInt32
  let fileid := oi.getD (-1)
  if (m.find? fileid).isSome then
    let s3 ← skipInstance cfg s2
    pure (none, s3)
  else
    let s3 := readTokenSeparator s2
    let (c, s4) := getInto 0 s3
    if c != 61 then
      let s5 ← skipInstance cfg s4
      pure (none, s5)
    else
      let s5 := readTokenSeparator s4
      let (c2, s6) := s5.peekC
      if c2 == 38 then throw (.unmodelled "&SCOPE")
      else if c2 == 40 then
        -- CreateSubSuperInstance
        let s7 := s6.ws
        let (c3, s8) := getInto c2 s7
        let (c4, s9) := s8.peekC
        let _ := c3
        let (names, s10) ← complexNames cfg.rawValueStaysInRecord (s9.right.length + 3) [] .null c4 s9
        -- `STEPcomplex::Initialize` splices out the names the registry does not know
        let sorted := sortNames (names.filter (fun n => (d.entity? n).isSome))
        let s11 ← skipInstance cfg s10
        if d.complexSets.contains sorted then
          let parts : List (MPart F) := sorted.map (fun n =>
            { name := n, vals := match d.entity? n with | some e => defaults e.ownAttrs | none => [] })
          pure (some { id := fileid, parts := parts, complex := true }, readTokenSeparator s11)
        else pure (none, s11)
      else if c2 == 33 then throw (.unmodelled "user-defined entity")
      else
        let (nmB, s7) := readStdKeyword s6
        let nm := bytesToString (upperBytes nmB)
        let s8 ← skipInstance cfg s7
        match d.entity? nm with
        | some e =>
          if e.abstract then pure (none, s8)
          else pure (some { id := fileid, parts := [{ name := nm, vals := defaults e.attrs }] }, readTokenSeparator s8)
        | none => pure (none, s8)

structure P1 (F : Type) where
  mgr : Mgr F
  count : Nat
  notCreated : Nat
  s : IStream

/-- the recovery loop `while( c != '#' && in.good() && !( endsec = FoundEndSecKywd( in ) ) )` -/
def resync : Nat → Byte → IStream → M (Byte × Bool × IStream)
  | 0, _, _ => throw .outOfFuel
  | fuel + 1, c, s =>
    if c != 35 && s.good then
      let (es, s1) := foundEndSec s
      if es then pure (c, true, s1)
      else do
        let s2 ← findStartOfInstance s1
        let (c', s3) := shiftInto c s2
        resync fuel c' (readTokenSeparator s3)
    else pure (c, false, s)

def readData1Loop {F} (cfg : RWCfg) (d : Dict) : Nat → P1 F → Bool → M (P1 F)
  | 0, _, _ => throw .outOfFuel
  | fuel + 1, st, endsec =>
    if st.s.good && !endsec then do
      let s1 := readTokenSeparator st.s
      let (c, s2) := shiftInto 0 s1
      let (_, endsec1, s3) ← if c != 35 then resync (s2.right.length + 3) c (s2.putback c) else pure (c, false, s2)
      if endsec1 then readData1Loop cfg d fuel { st with s := s3 } true
      else
        let (oi, s4) ← createInstance cfg d st.mgr s3
        let st1 : P1 F := match oi with
          | some i => { st with mgr := { insts := st.mgr.insts ++ [i] }, count := st.count + 1, s := s4 }
          | none => { st with notCreated := st.notCreated + 1, s := s4 }
        let (es, s5) := foundEndSec st1.s
        readData1Loop cfg d fuel { st1 with s := s5 } es
    else pure st

/-- `ReadData1`, entered right after `DATA;` -/
def readData1 {F} (cfg : RWCfg) (d : Dict) (s : IStream) : M (P1 F) := do
  let (es, s1) := foundEndSec s
  readData1Loop cfg d (s1.right.length + 3) { mgr := {}, count := 0, notCreated := 0, s := s1 } es

/-! ## pass 2 -/

def stateOf : Sev → NState
  | .null | .usermsg => .complete
  | _ => .incomplete

structure P2 (F : Type) where
  mgr : Mgr F
  fileErr : Sev
  total : Nat
  valid : Nat
  invalid : Nat
  incomplete : Nat
  warnings : Nat
  s : IStream
  /-- ghost: every severity handed to `AppendEntityErrorMsg`, most recent first (not read by the model) -/
  reported : List Sev := []

/-- what `ReadInstance` did: the stream, the instance as read (`none` = ENTITY_NULL returned), the severity handed to
    `AppendEntityErrorMsg`, the severity left on the object for `ReadData2`'s counters -/
structure IOut (F : Type) where
  s : IStream
  inst : Option (MInst F) := none
  reported : Option Sev := none
  left : Option Sev := none

/-- `AppendEntityErrorMsg` on the file's error descriptor -/
def appendEntityError (fileErr sev : Sev) : Sev :=
  if sev == .null then fileErr
  else fileErr.greater (if sev.toInt < Sev.warning.toInt then .warning else sev)

/-- `std::streampos recStart = in.tellg();` in the repaired `ReadInstance`: (stream, a position was obtained).  The
    sentry of `tellg` sets failbit on a stream that is not good, and -1 is returned. -/
def markStart (cfg : RWCfg) (s : IStream) : IStream × Bool :=
  if cfg.errorResyncsFromStart then (if s.good then (s, true) else ({ s with fail := true }, false))
  else (s, false)

/-- `ReadInstance` after the `#`: new state, and whether an object was returned (with the severity left on it) -/
def readInstance {F} (ops : FloatOps F) (lex : LexCfg) (cfg : RWCfg) (d : Dict) (strict : Bool) (st : P2 F) :
    M (IOut F) := do
  let s0 := readComment st.s
  let (oi, s1) := s0.extractInt32
  let fileid := oi.getD (-1)
  match st.mgr.find? fileid with
  | none =>
    let s2 ← skipInstance cfg s1
    pure { s := s2 }
  | some inst =>
    if inst.state != .new then
      let s2 ← skipInstance cfg s1
      pure { s := s2 }
    else
      let s2 := readTokenSeparator s1
      let (c, s3) := getInto 0 s2
      if c != 61 then
        let s4 ← skipInstance cfg s3
        pure { s := s4 }
      else
        let s4a := readTokenSeparator s3
        -- `recStart = in.tellg()`: the sentry of `tellg` sets failbit on a stream that is not good and yields -1
        let (s4, recOk) := markStart cfg s4a
        let (c2, s5) := s4.peekC
        if c2 == 38 then throw (.unmodelled "&SCOPE")
        let env : Env F := { ops := ops, lex := lex, cfg := cfg, dict := d, lookup := Mgr.lookup d st.mgr }
        -- `obj->STEPread( … )` is virtual: the object made in pass 1 decides how the record is read, whatever it looks like
        let rd (s : IStream) : M (Sev × List (MPart F) × IStream) := do
          if inst.complex then
            let r ← complexSTEPread env (cfg.complexPartStrict.getD strict) inst.parts s
            pure (r.sev, r.parts, r.s)
          else
            let attrs := match inst.parts with
              | p :: _ => (match d.entity? p.name with | some e => e.attrs | none => [])
              | [] => []
            let r ← instSTEPread env strict attrs s
            let parts' := match inst.parts with
              | p :: ps => { p with vals := r.vals } :: ps
              | [] => []
            pure (r.sev, parts', r.s)
        -- "check for semicolon or keyword 'ENDSEC'"
        let semi (sev : Sev) (s : IStream) : Sev × IStream :=
          let (c, s') := s.peekC
          if cfg.missingSemicolonReported then
            if c == 59 then (sev, (shiftInto c s').2)
            else if c != 69 then (sev.greater .warning, s')
            else (sev, s')
          else (sev, if c != 69 then (shiftInto c s').2 else s')
        -- the end of the record: `ReadTokenSeparator`, `peek`, then either the resynchronisation from the record's
        -- start (`clear`, `seekg( recStart )`, `SkipInstance`; the format flag `skipws` is not restored) or the `;` test
        let fin (sev0 : Sev) (sR : IStream) : M (Sev × IStream) :=
          let s6 := readTokenSeparator sR
          if recOk && sev0.toInt ≤ Sev.warning.toInt then do
            let s7 ← skipInstance cfg { s4 with eof := false, fail := false, bad := false, skipws := s6.skipws }
            pure (sev0, s7)
          else pure (semi sev0 s6)
        if c2 == 40 then
          let (sev0, parts', sR) ← rd s5
          let (sev, s8) ← fin sev0 sR
          let inst' := { inst with parts := parts', state := stateOf sev }
          if cfg.complexReportsError then
            pure { s := s8, inst := some inst', reported := some sev, left := some .null }
          else pure { s := s8, inst := some inst', left := some sev }
        else
          let s6 := readTokenSeparator s5
          let (c3, s7) := s6.peekC
          if c3 == 33 then throw (.unmodelled "user-defined entity")
          let (_, s8) := readStdKeyword s7
          let s9 := readTokenSeparator s8
          let (sev0, parts', sR) ← rd s9
          let (sev, s12) ← fin sev0 sR
          let inst' := { inst with parts := parts', state := stateOf sev }
          pure { s := s12, inst := some inst', reported := some sev, left := some .null }

/-- what `ReadInstance`'s tail and `ReadData2` do with the outcome: node update, `AppendEntityErrorMsg`, counters -/
def applyOutcome {F} (st : P2 F) (o : IOut F) : P2 F :=
  let st1 : P2 F := { st with
    mgr := match o.inst with | some i => st.mgr.update i | none => st.mgr
    fileErr := match o.reported with | some sv => appendEntityError st.fileErr sv | none => st.fileErr
    reported := match o.reported with | some sv => sv :: st.reported | none => st.reported
    s := o.s }
  match o.left with
  | some sev =>
    let st1 := { st1 with total := st1.total + 1 }
    if sev.toInt < Sev.incomplete.toInt then { st1 with invalid := st1.invalid + 1 }
    else if sev == .incomplete then { st1 with incomplete := st1.incomplete + 1, invalid := st1.invalid + 1 }
    else if sev == .usermsg then { st1 with warnings := st1.warnings + 1 }
    else { st1 with valid := st1.valid + 1 }
  | none => { st1 with invalid := st1.invalid + 1 }

def readData2Loop {F} (ops : FloatOps F) (lex : LexCfg) (cfg : RWCfg) (d : Dict) (strict : Bool) :
    Nat → P2 F → Bool → M (P2 F)
  | 0, _, _ => throw .outOfFuel
  | fuel + 1, st, endsec =>
    if st.s.good && !endsec then do
      let s1 := readTokenSeparator st.s
      let (c, s2) := shiftInto 0 s1
      let (_, endsec1, s3) ← if c != 35 then resync (s2.right.length + 3) c (s2.putback c) else pure (c, false, s2)
      if endsec1 then readData2Loop ops lex cfg d strict fuel { st with s := s3 } true
      else
        let o ← readInstance ops lex cfg d strict { st with s := s3 }
        let st2 := applyOutcome st o
        let (es, s5) := foundEndSec st2.s
        readData2Loop ops lex cfg d strict fuel { st2 with s := s5 } es
    else pure st

structure FileResult (F : Type) where
  mgr : Mgr F
  /-- `STEPfile::Error().severity()` -/
  sev : Sev
  /-- severity returned by `ReadExchangeFile` -/
  ret : Sev
  created : Nat
  notCreated : Nat
  valid : Nat
  invalid : Nat
  incomplete : Nat
  /-- ghost: the severities handed to `AppendEntityErrorMsg` during pass 2 -/
  reported : List Sev := []

/-- p21read's exit status after reading -/
def exitStatus (e : Sev) : Nat := if e.toInt ≤ Sev.incomplete.toInt then 1 else 0

/-- `GetKeyword( in, ";", err )`: (an invalid character was met, stream) -/
def getKeyword : Nat → Bool → Byte → IStream → Bool → Bool × IStream
  | 0, _, _, s, bad => (bad, s)
  | fuel + 1, first, c0, s, bad =>
    let (c, s1) := if first then getInto c0 s else (c0, s)
    if isSpace c || c == 59 || c == 0 then (bad, s1.putback c)
    else if !(isUpper c || isDigit c || c == 95 || c == 45 || (c == 33 && first)) then (true, s1.putback c)
    else if !s1.good then (bad, s1.putback c)
    else
      let (c', s2) := getInto c s1
      getKeyword fuel false c' s2 bad

/-- the tail of `AppendFile`: (file severity, returned severity) from the severity after pass 2, "total != valid",
    "an invalid character in the end keyword", "stream not good after the end keyword" -/
def finalVerdict (e2 : Sev) (mismatch kwBad endBad : Bool) : Sev × Sev :=
  if mismatch then (e2.greater .warning, e2.greater .warning)
  else
    let e3 := if kwBad then e2.greater .warning else e2
    if endBad then (e3.greater .warning, e3.greater .warning) else (e3, .null)

/-- both passes over the text following `DATA;` (each pass gets its own stream; `skipws` as the header left it) -/
def readDataSection {F} (ops : FloatOps F) (lex : LexCfg) (cfg : RWCfg) (d : Dict) (strict : Bool) (skipws : Bool)
    (bytes : List Byte) : M (FileResult F) := do
  let s0 : IStream := { right := bytes, skipws := skipws }
  let p1 ← readData1 (F := F) cfg d s0
  let e1 : Sev := if p1.notCreated > 0 then .warning else .null
  let (es, s1) := foundEndSec s0
  let st0 : P2 F := { mgr := p1.mgr, fileErr := e1, total := 0, valid := 0, invalid := 0, incomplete := 0, warnings := 0, s := s1 }
  let p2 ← readData2Loop ops lex cfg d strict (s1.right.length + 3) st0 es
  let e2 := if p2.invalid > 0 then p2.fileErr.greater .warning else p2.fileErr
  let mk (sev ret : Sev) : FileResult F :=
    { mgr := p2.mgr, sev := sev, ret := ret, created := p1.count, notCreated := p1.notCreated, valid := p2.valid,
      invalid := p2.invalid, incomplete := p2.incomplete, reported := p2.reported }
  let s2 := readTokenSeparator p2.s
  -- `END-ISO-10303-21;`: the keyword itself is not compared (see the notes); what counts is the stream state
  let (kwBad, s3) : Bool × IStream :=
    if s2.good then
      let (bad, s') := getKeyword (s2.right.length + 3) true 0 (readTokenSeparator s2) false
      (bad, (getInto 0 s').2)
    else (false, s2)
  let v := finalVerdict e2 (p1.count != p2.valid) kwBad (!s3.good)
  pure (mk v.1 v.2)

end StepModel.P21

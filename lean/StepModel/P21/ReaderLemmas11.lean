import StepModel.P21.ReaderLemmas10
/-! Externally mapped (subtype/supertype) records, pass 2: `STEPcomplex::STEPread` on `( PART ( … ) PART ( … ) … )`. -/
namespace StepModel.P21.RLemmas
open StepModel StepModel.IStream StepModel.P21 StepModel.P21.Lemmas StepModel.P21.Grammar

variable {F : Type}

/-- one part of an externally mapped record: keyword, blanks, `(` … `)` (the text `body` ends with the `)`), blanks -/
structure CPart (F : Type) where
  n0 : Byte
  ns : List Byte
  sA : List Byte
  body : List Byte
  sB : List Byte
  vals : List (MVal F)

def CPart.name (c : CPart F) : String := bytesToString (upperBytes (c.n0 :: c.ns))
def CPart.text (c : CPart F) : List Byte := c.n0 :: (c.ns ++ (c.sA ++ 40 :: (c.body ++ c.sB)))

def renderCParts : List (CPart F) → List Byte
  | [] => []
  | c :: cs => c.text ++ renderCParts cs

/-- the part's parameter list is read by `SDAI_Application_instance::STEPread` (own attributes of the part's entity)
    without a message, wherever it stands -/
def CPartOK (env : Env F) (strict : Bool) (c : CPart F) : Prop :=
  isAlpha c.n0 = true ∧ c.ns.all kwc = true ∧ c.sA.all isSpace = true ∧ c.sB.all isSpace = true ∧
  ∃ ed, env.dict.entity? c.name = some ed ∧
    ∀ (l : List Byte) (sk : Bool) (rest : List Byte),
      ∃ sk', instSTEPread env strict ed.ownAttrs (G l (40 :: (c.body ++ rest)) sk) =
        .ok ⟨.null, c.vals, G ((40 :: c.body).reverse ++ l) rest sk', .null⟩

theorem setPart_names (ps : List (MPart F)) (n : String) (v : List (MVal F)) :
    (setPart ps n v).map (·.name) = ps.map (·.name) := by
  unfold setPart
  rw [List.map_map]
  apply List.map_congr_left
  intro p _
  show (if (p.name == n) = true then { p with vals := v } else p).name = p.name
  split <;> rfl

theorem find?_name_isSome (ps : List (MPart F)) (nm : String) (h : nm ∈ ps.map (·.name)) :
    ∃ p, ps.find? (·.name == nm) = some p := by
  obtain ⟨p, hp, rfl⟩ := List.mem_map.mp h
  cases hf : ps.find? (·.name == p.name) with
  | some q => exact ⟨q, rfl⟩
  | none =>
    rw [List.find?_eq_none] at hf
    exact absurd (by simp) (hf p hp)

/-- the part loop of `STEPcomplex::STEPread` over parts each of which is read without a message -/
theorem complexLoop_parts (env : Env F) (strict : Bool) (head : String) (cs : List (CPart F)) (hok : ∀ c ∈ cs, CPartOK env strict c) :
    ∀ (fuel : Nat) (ps : List (MPart F)) (l : List Byte) (sk : Bool) (rest : List Byte),
      cs.length + 1 ≤ fuel → (∀ c ∈ cs, c.name ∈ ps.map (·.name)) →
      ∃ l' sk', complexLoop env strict head fuel .null .null ps (G l (renderCParts cs ++ 41 :: rest) sk) =
        .ok ⟨.null, cs.foldl (fun ps c => setPart ps c.name c.vals) ps, G l' rest sk'⟩ := by
  induction cs with
  | nil =>
    intro fuel ps l sk rest hf _
    match fuel, hf with
    | n + 1, _ =>
      refine ⟨41 :: l, sk, ?_⟩
      unfold complexLoop
      simp only [renderCParts, List.nil_append, peekC_good, beq_self_eq_true, if_true, getInto_good, pure, Except.pure]
      cases env.cfg.complexMergesParts <;> cases env.cfg.complexMergesAttrErrors <;> rfl
  | cons c cs ih =>
    intro fuel ps l sk rest hf hnames
    obtain ⟨hn0, hns, hsA, hsB, ed, hent, hrd⟩ := hok c (by simp)
    obtain ⟨hn0s, _, _, _, _, _, _, hn0k, _⟩ := alpha_facts hn0
    have hn041 : (c.n0 == 41) = false := by
      have : c.n0 ≠ 41 := by intro h; rw [h] at hn0; exact absurd hn0 (by decide)
      simpa using this
    match fuel, hf with
    | n + 1, hf =>
      obtain ⟨y, yr, hYe, hyk⟩ : ∃ y yr, c.sA ++ 40 :: (c.body ++ c.sB ++ (renderCParts cs ++ 41 :: rest)) = y :: yr ∧ kwc y = false :=
        seps_then c.sA (Seps.blanks _ hsA) 40 _ (fun c => kwc c = false) (fun c h => space_not_kwc h) (by decide) (by decide)
      have hkw : (c.n0 :: c.ns).all kwc = true := by simp only [List.all_cons, hn0k, Bool.true_and]; exact hns
      obtain ⟨p0, hp0⟩ := find?_name_isSome ps c.name (hnames c (by simp))
      obtain ⟨sk1, hr⟩ := hrd (c.sA.reverse ++ ((c.n0 :: c.ns).reverse ++ l)) sk (c.sB ++ (renderCParts cs ++ 41 :: rest))
      -- the stream after the part and the blanks behind it starts the next part or is at the closing parenthesis
      obtain ⟨z, zr, hZ, hzs⟩ : ∃ z zr, renderCParts cs ++ 41 :: rest = z :: zr ∧ isSpace z = false := by
        cases cs with
        | nil => exact ⟨41, rest, rfl, by decide⟩
        | cons c2 cs2 =>
          obtain ⟨h2, _⟩ := hok c2 (by simp)
          exact ⟨c2.n0, _, rfl, (alpha_facts h2).1⟩
      obtain ⟨l', sk', hrec⟩ := ih (fun x hx => hok x (by simp [hx])) n (setPart ps c.name c.vals)
        (c.sB.reverse ++ ((40 :: c.body).reverse ++ (c.sA.reverse ++ ((c.n0 :: c.ns).reverse ++ l)))) sk1 rest
        (by simp only [List.length_cons] at hf; omega)
        (by intro x hx; rw [setPart_names]; exact hnames x (by simp [hx]))
      refine ⟨l', sk', ?_⟩
      have etext : renderCParts (c :: cs) ++ 41 :: rest =
          c.n0 :: (c.ns ++ (c.sA ++ 40 :: (c.body ++ c.sB ++ (renderCParts cs ++ 41 :: rest)))) := by
        simp [renderCParts, CPart.text]
      rw [etext]
      unfold complexLoop
      simp only [peekC_good, hn041, Bool.false_eq_true, if_false, bind, Except.bind, pure, Except.pure]
      rw [show (G l (c.n0 :: (c.ns ++ (c.sA ++ 40 :: (c.body ++ c.sB ++ (renderCParts cs ++ 41 :: rest))))) sk).ws = _
        from ws_good0 l c.n0 _ sk hn0s]
      have ekw : readStdKeyword (G l (c.n0 :: (c.ns ++ (c.sA ++ 40 :: (c.body ++ c.sB ++ (renderCParts cs ++ 41 :: rest))))) sk) =
          (c.n0 :: c.ns, G ((c.n0 :: c.ns).reverse ++ l) (c.sA ++ 40 :: (c.body ++ c.sB ++ (renderCParts cs ++ 41 :: rest))) sk) := by
        rw [hYe]; exact readStdKeyword_spec c.n0 c.ns hkw hn0s y hyk l yr sk
      rw [ekw]
      simp only
      rw [show (G ((c.n0 :: c.ns).reverse ++ l) (c.sA ++ 40 :: (c.body ++ c.sB ++ (renderCParts cs ++ 41 :: rest))) sk).ws =
        G (c.sA.reverse ++ ((c.n0 :: c.ns).reverse ++ l)) (40 :: (c.body ++ c.sB ++ (renderCParts cs ++ 41 :: rest))) sk
        from ws_good _ c.sA 40 _ sk hsA (by decide)]
      rw [peekC_good]
      simp only [bne_self_eq_false, Bool.false_eq_true, if_false]
      rw [show bytesToString (upperBytes (c.n0 :: c.ns)) = c.name from rfl, hp0, hent]
      simp only
      have e2 : c.body ++ c.sB ++ (renderCParts cs ++ 41 :: rest) = c.body ++ (c.sB ++ (renderCParts cs ++ 41 :: rest)) := by simp
      rw [e2, hr]
      simp only
      rw [hZ, show (G ((40 :: c.body).reverse ++ (c.sA.reverse ++ ((c.n0 :: c.ns).reverse ++ l))) (c.sB ++ z :: zr) sk1).ws =
        G (c.sB.reverse ++ ((40 :: c.body).reverse ++ (c.sA.reverse ++ ((c.n0 :: c.ns).reverse ++ l)))) (z :: zr) sk1
        from ws_good _ c.sB z zr sk1 hsB hzs, ← hZ]
      by_cases hh : (c.name == head) = true
      · simp only [hh, if_true, hrec, List.foldl_cons]
      · have hh' : (c.name == head) = false := by simpa using hh
        simp only [hh', Bool.false_eq_true, if_false, List.foldl_cons]
        rw [show Sev.null.greater (if env.cfg.complexMergesParts = true then Sev.null else Sev.null) = Sev.null from by
          cases env.cfg.complexMergesParts <;> rfl, hrec]

theorem renderCParts_length (cs : List (CPart F)) : cs.length ≤ (renderCParts cs).length := by
  induction cs with
  | nil => simp [renderCParts]
  | cons c cs ih =>
    simp only [renderCParts, CPart.text, List.length_cons, List.length_append] at ih ⊢
    omega

/-- `STEPcomplex::STEPread` on `( blanks PART(…) blanks PART(…) … )`: every part's values are set, no message -/
theorem complexSTEPread_parts (env : Env F) (strict : Bool) (ps : List (MPart F)) (cs : List (CPart F))
    (hok : ∀ c ∈ cs, CPartOK env strict c) (hnames : ∀ c ∈ cs, c.name ∈ ps.map (·.name))
    (sp0 : List Byte) (hsp0 : sp0.all isSpace = true) (l : List Byte) (sk : Bool) (rest : List Byte) :
    ∃ l' sk', complexSTEPread env strict ps (G l (40 :: (sp0 ++ (renderCParts cs ++ 41 :: rest))) sk) =
      .ok ⟨.null, cs.foldl (fun ps c => setPart ps c.name c.vals) ps, G l' rest sk'⟩ := by
  obtain ⟨z, zr, hZ, hzs⟩ : ∃ z zr, renderCParts cs ++ 41 :: rest = z :: zr ∧ isSpace z = false := by
    cases cs with
    | nil => exact ⟨41, rest, rfl, by decide⟩
    | cons c2 cs2 =>
      obtain ⟨h2, _⟩ := hok c2 (by simp)
      exact ⟨c2.n0, _, rfl, (alpha_facts h2).1⟩
  have hws : (G (40 :: l) (sp0 ++ (renderCParts cs ++ 41 :: rest)) sk).ws =
      G (sp0.reverse ++ 40 :: l) (renderCParts cs ++ 41 :: rest) sk := by
    rw [hZ]; exact ws_good _ sp0 z zr sk hsp0 hzs
  have hfuel : cs.length + 1 ≤ (G (40 :: l) (sp0 ++ (renderCParts cs ++ 41 :: rest)) sk).right.length + 3 := by
    have := renderCParts_length cs
    show cs.length + 1 ≤ (sp0 ++ (renderCParts cs ++ 41 :: rest)).length + 3
    simp only [List.length_append, List.length_cons]; omega
  unfold complexSTEPread
  rw [show (G l (40 :: (sp0 ++ (renderCParts cs ++ 41 :: rest))) sk).ws = _ from ws_good0 l 40 _ sk (by decide)]
  simp only [bind, Except.bind, pure, Except.pure, getInto_good, beq_self_eq_true, if_true]
  rw [hws]
  exact complexLoop_parts env strict _ cs hok _ ps _ sk rest hfuel hnames

end StepModel.P21.RLemmas

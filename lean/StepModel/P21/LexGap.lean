import StepModel.P21.LexNumber
/-! Delimiter contexts with comments (`Gap`): `CheckRemainingInput` passes exactly the blanks and comments and stops at the
delimiter; what the first character of a context can be. -/
namespace StepModel.P21.Lemmas
open StepModel StepModel.IStream StepModel.P21 StepModel.P21.Grammar

theorem ExactLayout.of_blanks {sp : List Byte} (h : sp.all isSpace = true) : ExactLayout sp := by
  induction sp with
  | nil => exact .nil
  | cons a t ih =>
    simp only [List.all_cons, Bool.and_eq_true] at h
    exact .blank h.1 (ih h.2)

theorem Gap.of_blanks (cfg : LexCfg) {sp : List Byte} (h : sp.all isSpace = true) : Gap cfg sp := by
  unfold Gap; split
  · exact ExactLayout.of_blanks h
  · exact h

/-- a comment body without `*/` is consumed up to and including the closing `*/` -/
theorem commentBody_exact (prev : Byte) (l body m : List Byte) (h : noClose prev body = true) :
    commentBody prev l (body ++ 42 :: 47 :: m) = some (47 :: 42 :: (body.reverse ++ l), m) := by
  induction body generalizing prev l with
  | nil =>
    have h1 : (prev == 42 && (42 : Byte) == 47) = false := by simp
    simp [commentBody, h1]
  | cons c t ih =>
    simp only [noClose, Bool.and_eq_true, Bool.not_eq_true'] at h
    simp only [List.cons_append, commentBody, h.1, Bool.false_eq_true, if_false]
    rw [ih c (c :: l) h.2]; simp

/-- the first character of a delimiter context -/
theorem gap_head (cfg : LexCfg) (sp rest : List Byte) (d : Byte) (h : Gap cfg sp) :
    ∃ c t, sp ++ d :: rest = c :: t ∧ (isSpace c = true ∨ c = 47 ∨ c = d) := by
  have hx : ExactLayout sp := by
    unfold Gap at h; split at h
    · exact h
    · exact ExactLayout.of_blanks h
  cases hx with
  | nil => exact ⟨d, rest, rfl, Or.inr (Or.inr rfl)⟩
  | blank hc _ => exact ⟨_, _, rfl, Or.inl hc⟩
  | comment _ _ => exact ⟨47, _, rfl, Or.inr (Or.inl rfl)⟩

/-- the separator skipper on a delimiter context: it consumes the context and stops at the delimiter -/
theorem skipSeps_exact (n : Nat) (l sp rest : List Byte) (d : Byte) (hx : ExactLayout sp) (hn : (sp ++ d :: rest).length < n)
    (hdn : isSpace d = false) (hd47 : d ≠ 47) :
    skipSeps n l (sp ++ d :: rest) = (sp.reverse ++ l, d :: rest, false, false) := by
  induction hx generalizing n l with
  | nil =>
    cases n with
    | zero => simp at hn
    | succ n =>
      simp only [List.nil_append, skipSeps, dropSpaces_nonspace _ _ _ hdn]
      split
      · rename_i heq; cases heq
      · rename_i heq; simp at heq; exact absurd heq.1 hd47
      · simp
  | @blank c m hc hm ih =>
    -- blanks in front: gather the maximal run of blanks, then continue on what follows
    cases n with
    | zero => simp at hn
    | succ n =>
      -- one more blank does not change the result of a step: unfold one step on both sides via dropSpaces
      have hstep : ∀ (l : List Byte) (r : List Byte), skipSeps (n + 1) l (c :: r) = skipSeps (n + 1) (c :: l) r := by
        intro l r
        simp only [skipSeps, dropSpaces, hc, if_true]
      rw [List.cons_append, hstep]
      have := ih (n + 1) (c :: l) (by simp at hn ⊢; omega)
      rw [this]; simp
  | @comment body m hb hm ih =>
    cases n with
    | zero => simp at hn
    | succ n =>
      have hds : dropSpaces l (47 :: 42 :: (body ++ 42 :: 47 :: m) ++ d :: rest) =
          (l, 47 :: 42 :: (body ++ 42 :: 47 :: (m ++ d :: rest))) := by
        simpa using dropSpaces_nonspace l (42 :: (body ++ 42 :: 47 :: (m ++ d :: rest))) 47 (by decide)
      simp only [skipSeps, hds]
      have hcb := commentBody_exact 0 (42 :: 47 :: l) body (m ++ d :: rest) hb
      simp only [hcb]
      have := ih n (47 :: 42 :: (body.reverse ++ 42 :: 47 :: l)) (by simp at hn ⊢; omega)
      rw [this]; simp

theorem sepSkip_gap (cfg : LexCfg) (l sp rest : List Byte) (d : Byte) (sk : Bool) (hg : Gap cfg sp)
    (hdn : isSpace d = false) (hd47 : d ≠ 47) :
    sepSkip cfg { left := l, right := sp ++ d :: rest, eof := false, fail := false, bad := false, skipws := sk } =
      { left := sp.reverse ++ l, right := d :: rest, eof := false, fail := false, bad := false, skipws := sk } := by
  cases hc : cfg.criSkipsComments with
  | false =>
    have : sp.all isSpace = true := by simpa [Gap, hc] using hg
    exact sepSkip_stop cfg l sp d rest sk this hdn hd47
  | true =>
    have hx : ExactLayout sp := by simpa [Gap, hc] using hg
    simp only [sepSkip, hc, if_true, skipSeps_exact _ l sp rest d hx (Nat.lt_succ_self _) hdn hd47]

/-- a value followed by a delimiter context: `CheckRemainingInput` passes the blanks and comments, stops *at* the delimiter
    and reports nothing -/
theorem cri_gap_delim (cfg : LexCfg) (l sp rest : List Byte) (d : Byte) (f sk : Bool) (e : Sev)
    (hg : Gap cfg sp) (hd : isDelim attrDelims d = true) (hdn : isSpace d = false) :
    checkRemainingInput cfg (some attrDelims)
        { left := l, right := sp ++ d :: rest, eof := false, fail := f, bad := false, skipws := sk } e
      = ({ left := sp.reverse ++ l, right := d :: rest, eof := false, fail := false, bad := false, skipws := sk }, e) := by
  have hd47 : d ≠ 47 := by
    intro h; subst h; revert hd; decide
  simp only [checkRemainingInput, IStream.clear, Bool.false_eq_true, if_false,
    sepSkip_gap cfg l sp rest d sk hg hdn hd47, peekC_good, delimAt_of_isDelim cfg _ _ hd, if_true]

/-- what the first character of a delimiter context (`,`/`)`) can not be -/
theorem gap_cont (cfg : LexCfg) (sp rest : List Byte) (d : Byte) (hg : Gap cfg sp) (hd : d = 44 ∨ d = 41) :
    ∃ c t, sp ++ d :: rest = c :: t ∧ isDigit c = false ∧ c ≠ 101 ∧ c ≠ 69 ∧ c ≠ 46 ∧ c ≠ 39 := by
  obtain ⟨c, t, h, hc⟩ := gap_head cfg sp rest d hg
  refine ⟨c, t, h, ?_⟩
  rcases hc with hs | rfl | rfl
  · refine ⟨space_not_digit hs, ?_, ?_, ?_, ?_⟩ <;> (simp [isSpace] at hs; bomega)
  · decide
  · rcases hd with rfl | rfl <;> decide

theorem gap_nonempty (sp rest : List Byte) (d : Byte) : (sp ++ d :: rest).isEmpty = false := by
  cases sp <;> rfl

end StepModel.P21.Lemmas

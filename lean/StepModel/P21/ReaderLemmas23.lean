import StepModel.P21.ReaderLemmas19
/-! An externally mapped record whose parts' parameter lists are read with known severities: the severity
`STEPcomplex::STEPread` returns, the resynchronisation of `ReadInstance`, the record's outcome - record level. -/
namespace StepModel.P21.RLemmas
open StepModel StepModel.IStream StepModel.P21 StepModel.P21.Lemmas StepModel.P21.Grammar

variable {F : Type}

/-- the part's parameter list is read by `SDAI_Application_instance::STEPread` (own attributes of the part's entity) with
    severity `sev` (`asev`: what the attributes themselves report) wherever it stands; `skipws` is kept or cleared -/
def CPartRdS (env : Env F) (strict : Bool) (c : CPart F) (sev asev : Sev) : Prop :=
  isAlpha c.n0 = true ∧ c.ns.all kwc = true ∧ c.sA.all isSpace = true ∧ c.sB.all isSpace = true ∧
  ∃ ed, env.dict.entity? c.name = some ed ∧
    ∀ (l : List Byte) (sk : Bool) (rest : List Byte),
      ∃ sk', (sk' = sk ∨ sk' = false) ∧ instSTEPread env strict ed.ownAttrs (G l (40 :: (c.body ++ rest)) sk) =
        .ok ⟨sev, c.vals, G ((40 :: c.body).reverse ++ l) rest sk', asev⟩

/-- the two severities `STEPcomplex::STEPread` carries through its part loop: the head part's result replaces `err`, what
    the other parts report is collected in `perr` -/
def cxFold (cfg : RWCfg) (head : String) (sv : CPart F → Sev × Sev) : Sev → Sev → List (CPart F) → Sev × Sev
  | err, perr, [] => (err, perr)
  | err, perr, c :: t =>
    cxFold cfg head sv (if (c.name == head) = true then (sv c).1 else err)
      (if (c.name == head) = true then perr else perr.greater (if cfg.complexMergesParts = true then (sv c).1 else (sv c).2)) t

/-- … and their merge at the closing parenthesis -/
def cxFin (cfg : RWCfg) (e perr : Sev) : Sev :=
  if (cfg.complexMergesParts || cfg.complexMergesAttrErrors) = true then e.greater perr else e

/-- the severity `STEPcomplex::STEPread` returns for parts read with the severities `sv` -/
def cxSev (cfg : RWCfg) (head : String) (sv : CPart F → Sev × Sev) (cs : List (CPart F)) : Sev :=
  cxFin cfg (cxFold cfg head sv .null .null cs).1 (cxFold cfg head sv .null .null cs).2

theorem complexLoop_parts_sev (env : Env F) (strict : Bool) (head : String) (sv : CPart F → Sev × Sev) (cs : List (CPart F))
    (hok : ∀ c ∈ cs, CPartRdS env strict c (sv c).1 (sv c).2) :
    ∀ (fuel : Nat) (err perr : Sev) (ps : List (MPart F)) (l : List Byte) (sk : Bool) (rest : List Byte),
      cs.length + 1 ≤ fuel → (∀ c ∈ cs, c.name ∈ ps.map (·.name)) →
      ∃ l' sk', (sk' = sk ∨ sk' = false) ∧ complexLoop env strict head fuel err perr ps (G l (renderCParts cs ++ 41 :: rest) sk) =
        .ok ⟨cxFin env.cfg (cxFold env.cfg head sv err perr cs).1 (cxFold env.cfg head sv err perr cs).2, cs.foldl (fun ps c => setPart ps c.name c.vals) ps, G l' rest sk'⟩ := by
  induction cs with
  | nil =>
    intro fuel err perr ps l sk rest hf _
    match fuel, hf with
    | n + 1, _ =>
      refine ⟨41 :: l, sk, Or.inl rfl, ?_⟩
      unfold complexLoop
      simp only [renderCParts, List.nil_append, peekC_good, beq_self_eq_true, if_true, getInto_good, pure, Except.pure]
      rfl
  | cons c cs ih =>
    intro fuel err perr ps l sk rest hf hnames
    obtain ⟨hn0, hns, hsA, hsB, ed, hent, hrd⟩ := hok c (by simp)
    obtain ⟨hn0s, _, _, _, _, _, _, hn0k, _⟩ := alpha_facts hn0
    have hn041 : (c.n0 == 41) = false := by
      have : c.n0 ≠ 41 := by intro h; rw [h] at hn0; exact absurd hn0 (by decide)
      simpa using this
    match fuel, hf with
    | n + 1, hf =>
      obtain ⟨y, yr, hYe, hyk⟩ : ∃ y yr, c.sA ++ 40 :: (c.body ++ c.sB ++ (renderCParts cs ++ 41 :: rest)) = y :: yr ∧ kwc y = false :=
        seps_then c.sA (Seps.blanks _ hsA) 40 _ (fun c => kwc c = false) (fun c h => space_not_kwc h) (by decide) (by decide)
      have hkw : (c.n0 :: c.ns).all kwc = true := by simp only [List.all_cons, hn0k, Bool.true_and]; exact hns
      obtain ⟨p0, hp0⟩ := find?_name_isSome ps c.name (hnames c (by simp))
      obtain ⟨sk1, hsk1, hr⟩ := hrd (c.sA.reverse ++ ((c.n0 :: c.ns).reverse ++ l)) sk (c.sB ++ (renderCParts cs ++ 41 :: rest))
      -- the stream after the part and the blanks behind it starts the next part or is at the closing parenthesis
      obtain ⟨z, zr, hZ, hzs⟩ : ∃ z zr, renderCParts cs ++ 41 :: rest = z :: zr ∧ isSpace z = false := by
        cases cs with
        | nil => exact ⟨41, rest, rfl, by decide⟩
        | cons c2 cs2 =>
          obtain ⟨h2, _⟩ := hok c2 (by simp)
          exact ⟨c2.n0, _, rfl, (alpha_facts h2).1⟩
      obtain ⟨l', sk', hsk', hrec⟩ := ih (fun x hx => hok x (by simp [hx])) n
        (if (c.name == head) = true then (sv c).1 else err)
        (if (c.name == head) = true then perr else perr.greater (if env.cfg.complexMergesParts = true then (sv c).1 else (sv c).2))
        (setPart ps c.name c.vals)
        (c.sB.reverse ++ ((40 :: c.body).reverse ++ (c.sA.reverse ++ ((c.n0 :: c.ns).reverse ++ l)))) sk1 rest
        (by simp only [List.length_cons] at hf; omega)
        (by intro x hx; rw [setPart_names]; exact hnames x (by simp [hx]))
      refine ⟨l', sk', (by
        rcases hsk' with h | h
        · rcases hsk1 with h1 | h1
          · exact Or.inl (h.trans h1)
          · exact Or.inr (h.trans h1)
        · exact Or.inr h), ?_⟩
      have etext : renderCParts (c :: cs) ++ 41 :: rest =
          c.n0 :: (c.ns ++ (c.sA ++ 40 :: (c.body ++ c.sB ++ (renderCParts cs ++ 41 :: rest)))) := by
        simp [renderCParts, CPart.text]
      rw [etext]
      unfold complexLoop
      simp only [peekC_good, hn041, Bool.false_eq_true, if_false, bind, Except.bind, pure, Except.pure]
      rw [show (G l (c.n0 :: (c.ns ++ (c.sA ++ 40 :: (c.body ++ c.sB ++ (renderCParts cs ++ 41 :: rest))))) sk).ws = _
        from ws_good0 l c.n0 _ sk hn0s]
      have ekw : readStdKeyword (G l (c.n0 :: (c.ns ++ (c.sA ++ 40 :: (c.body ++ c.sB ++ (renderCParts cs ++ 41 :: rest))))) sk) =
          (c.n0 :: c.ns, G ((c.n0 :: c.ns).reverse ++ l) (c.sA ++ 40 :: (c.body ++ c.sB ++ (renderCParts cs ++ 41 :: rest))) sk) := by
        rw [hYe]; exact readStdKeyword_spec c.n0 c.ns hkw hn0s y hyk l yr sk
      rw [ekw]
      simp only
      rw [show (G ((c.n0 :: c.ns).reverse ++ l) (c.sA ++ 40 :: (c.body ++ c.sB ++ (renderCParts cs ++ 41 :: rest))) sk).ws =
        G (c.sA.reverse ++ ((c.n0 :: c.ns).reverse ++ l)) (40 :: (c.body ++ c.sB ++ (renderCParts cs ++ 41 :: rest))) sk
        from ws_good _ c.sA 40 _ sk hsA (by decide)]
      rw [peekC_good]
      simp only [bne_self_eq_false, Bool.false_eq_true, if_false]
      rw [show bytesToString (upperBytes (c.n0 :: c.ns)) = c.name from rfl, hp0, hent]
      simp only
      have e2 : c.body ++ c.sB ++ (renderCParts cs ++ 41 :: rest) = c.body ++ (c.sB ++ (renderCParts cs ++ 41 :: rest)) := by simp
      rw [e2, hr]
      simp only
      rw [hZ, show (G ((40 :: c.body).reverse ++ (c.sA.reverse ++ ((c.n0 :: c.ns).reverse ++ l))) (c.sB ++ z :: zr) sk1).ws =
        G (c.sB.reverse ++ ((40 :: c.body).reverse ++ (c.sA.reverse ++ ((c.n0 :: c.ns).reverse ++ l)))) (z :: zr) sk1
        from ws_good _ c.sB z zr sk1 hsB hzs, ← hZ]
      by_cases hh : (c.name == head) = true
      · simp only [hh, if_true] at hrec
        simp only [hh, if_true, List.foldl_cons, cxFold]
        exact hrec
      · have hh' : (c.name == head) = false := by simpa using hh
        simp only [hh', Bool.false_eq_true, if_false] at hrec
        simp only [hh', Bool.false_eq_true, if_false, List.foldl_cons, cxFold]
        exact hrec

/-- `STEPcomplex::STEPread` on `( blanks PART(…) blanks PART(…) … )`: every part's values are set, the severity is the merge `cxSev` -/
theorem complexSTEPread_parts_sev (env : Env F) (strict : Bool) (ps : List (MPart F)) (sv : CPart F → Sev × Sev) (cs : List (CPart F))
    (hok : ∀ c ∈ cs, CPartRdS env strict c (sv c).1 (sv c).2) (hnames : ∀ c ∈ cs, c.name ∈ ps.map (·.name))
    (sp0 : List Byte) (hsp0 : sp0.all isSpace = true) (l : List Byte) (sk : Bool) (rest : List Byte) :
    ∃ l' sk', (sk' = sk ∨ sk' = false) ∧ complexSTEPread env strict ps (G l (40 :: (sp0 ++ (renderCParts cs ++ 41 :: rest))) sk) =
      .ok ⟨cxSev env.cfg (match ps with | p :: _ => p.name | [] => "") sv cs, cs.foldl (fun ps c => setPart ps c.name c.vals) ps, G l' rest sk'⟩ := by
  obtain ⟨z, zr, hZ, hzs⟩ : ∃ z zr, renderCParts cs ++ 41 :: rest = z :: zr ∧ isSpace z = false := by
    cases cs with
    | nil => exact ⟨41, rest, rfl, by decide⟩
    | cons c2 cs2 =>
      obtain ⟨h2, _⟩ := hok c2 (by simp)
      exact ⟨c2.n0, _, rfl, (alpha_facts h2).1⟩
  have hws : (G (40 :: l) (sp0 ++ (renderCParts cs ++ 41 :: rest)) sk).ws =
      G (sp0.reverse ++ 40 :: l) (renderCParts cs ++ 41 :: rest) sk := by
    rw [hZ]; exact ws_good _ sp0 z zr sk hsp0 hzs
  have hfuel : cs.length + 1 ≤ (G (40 :: l) (sp0 ++ (renderCParts cs ++ 41 :: rest)) sk).right.length + 3 := by
    have := renderCParts_length cs
    show cs.length + 1 ≤ (sp0 ++ (renderCParts cs ++ 41 :: rest)).length + 3
    simp only [List.length_append, List.length_cons]; omega
  unfold complexSTEPread
  rw [show (G l (40 :: (sp0 ++ (renderCParts cs ++ 41 :: rest))) sk).ws = _ from ws_good0 l 40 _ sk (by decide)]
  simp only [bind, Except.bind, pure, Except.pure, getInto_good, beq_self_eq_true, if_true]
  rw [hws]
  exact complexLoop_parts_sev env strict _ sv cs hok _ .null .null ps _ sk rest hfuel hnames


/-- `SkipInstance` gets over a part of an externally mapped record -/
theorem cpart_passes (c : CPart F) (h : CPartScan c) : Passes c.text := by
  obtain ⟨hn0, hns, hsA, hsB, inner, hbody, hbal⟩ := h
  obtain ⟨_, _, _, _, _, _, _, hn0k, _⟩ := alpha_facts hn0
  have hkw : (c.n0 :: c.ns).all kwc = true := by simp only [List.all_cons, hn0k, Bool.true_and]; exact hns
  have h41 : Passes (41 :: c.sB) := Passes.append (a := [41]) (Passes.plain 41 (by decide)) (Passes.seps (Seps.blanks _ hsB))
  have hin : Passes (inner ++ 41 :: c.sB) := PassesS.append_cons hbal.passesS h41 (by decide)
  have : c.text = (c.n0 :: c.ns) ++ (c.sA ++ ([40] ++ (inner ++ 41 :: c.sB))) := by
    simp [CPart.text, hbody]
  rw [this]
  exact Passes.append (Passes.all_plain _ (all_imp (fun c => kwc_plain) _ hkw))
    (Passes.append (Passes.seps (Seps.blanks _ hsA)) (Passes.append (Passes.plain 40 (by decide)) hin))

theorem renderCParts_passes (cs : List (CPart F)) (h : ∀ c ∈ cs, CPartScan c) : Passes (renderCParts cs) := by
  induction cs with
  | nil => exact Passes.nil
  | cons c cs ih =>
    exact Passes.append (cpart_passes c (h c (by simp))) (ih (fun x hx => h x (by simp [hx])))

/-- … and over the whole parenthesised part list of the record up to its `;` -/
theorem crec_passes (r : CRec F) (hlex : r.Lex) (rest : List Byte) :
    ∃ T, Passes T ∧ 40 :: (renderCParts r.parts ++ 41 :: (r.s4 ++ 59 :: rest)) = T ++ 59 :: rest := by
  refine ⟨[40] ++ (renderCParts r.parts ++ ([41] ++ r.s4)), ?_, by simp⟩
  exact Passes.append (Passes.plain 40 (by decide)) (Passes.append (renderCParts_passes r.parts hlex.parts)
    (Passes.append (Passes.plain 41 (by decide)) (Passes.seps hlex.h4)))

/-- **an externally mapped record whose parts are read with known severities**: `ReadInstance` stores every part's values,
    reports the merged severity `cxSev`, and leaves the stream right behind the record's `;` - through the
    resynchronisation from the record's start when the severity is WARNING or worse, through the `;` test otherwise -/
theorem readInstance_crec_sev (ops : FloatOps F) (lex : LexCfg) (cfg : RWCfg) (d : Dict) (strict : Bool) (st : P2 F)
    (hrep : cfg.complexReportsError = true) (hrs : cfg.errorResyncsFromStart = true)
    (hskip : cfg.skipInstanceSkipsComments = true)
    (r : CRec F) (hlex : r.Lex) (l rest : List Byte) (hs : st.s = G l (r.text rest) false)
    (inst : MInst F) (hfind : st.mgr.find? r.id = some inst) (hnew : inst.state = .new) (hcx : inst.complex = true)
    (sv : CPart F → Sev × Sev)
    (hok : ∀ c ∈ r.parts, CPartRdS { ops := ops, lex := lex, cfg := cfg, dict := d, lookup := Mgr.lookup d st.mgr }
        (cfg.complexPartStrict.getD strict) c (sv c).1 (sv c).2)
    (hnames : ∀ c ∈ r.parts, c.name ∈ inst.parts.map (·.name)) :
    ∃ l', readInstance ops lex cfg d strict st =
      .ok { s := G l' rest false,
            inst := some { inst with parts := r.parts.foldl (fun ps c => setPart ps c.name c.vals) inst.parts,
                                     state := stateOf (cxSev cfg (match inst.parts with | p :: _ => p.name | [] => "") sv r.parts) },
            reported := some (cxSev cfg (match inst.parts with | p :: _ => p.name | [] => "") sv r.parts), left := some .null } := by
  have hpass := crec_passes r hlex
  obtain ⟨dne, ddig, dhi, h1, h2, h4, pne, hparts⟩ := hlex
  obtain ⟨c, u, hcu⟩ : ∃ c u, r.ds = c :: u := by
    cases hd : r.ds with
    | nil => exact absurd hd dne
    | cons c u => exact ⟨c, u, rfl⟩
  have hcd : isDigit c = true := by rw [hcu] at ddig; simp at ddig; exact ddig.1
  have hc47 : c ≠ 47 := by intro h; rw [h] at hcd; exact absurd hcd (by decide)
  let T1 := r.s1 ++ 61 :: (r.s2 ++ 40 :: (renderCParts r.parts ++ 41 :: (r.s4 ++ 59 :: rest)))
  obtain ⟨x, xr, hXe, hxd⟩ : ∃ x xr, T1 = x :: xr ∧ isDigit x = false :=
    seps_then r.s1 h1 61 _ (fun c => isDigit c = false) (fun c h => space_not_digit h) (by decide) (by decide)
  have e0 : readComment (G l (r.text rest) false) = G l (r.text rest) false := by
    unfold CRec.text; rw [hcu]; exact readComment_none l c _ false (digit_not_space hcd) hc47
  have e1 : (G l (r.text rest) false).extractInt32 = (some r.id, G (r.ds.reverse ++ l) T1 false) := by
    unfold CRec.text; show (G l (r.ds ++ T1) false).extractInt32 = _
    rw [hXe]; exact extractInt32_digits r.ds dne ddig dhi l x xr false hxd
  have e2 : readTokenSeparator (G (r.ds.reverse ++ l) T1 false) =
      G (r.s1.reverse ++ (r.ds.reverse ++ l)) (61 :: (r.s2 ++ 40 :: (renderCParts r.parts ++ 41 :: (r.s4 ++ 59 :: rest)))) false :=
    readTokenSeparator_seps r.s1 h1 (r.ds.reverse ++ l) 61 _ false (by decide) (by decide)
  have e3 : readTokenSeparator (G (61 :: (r.s1.reverse ++ (r.ds.reverse ++ l))) (r.s2 ++ 40 :: (renderCParts r.parts ++ 41 :: (r.s4 ++ 59 :: rest))) false) =
      G (r.s2.reverse ++ 61 :: (r.s1.reverse ++ (r.ds.reverse ++ l))) (40 :: (renderCParts r.parts ++ 41 :: (r.s4 ++ 59 :: rest))) false :=
    readTokenSeparator_seps r.s2 h2 _ 40 _ false (by decide) (by decide)
  obtain ⟨l1, sk1, hsk1, hrd⟩ := complexSTEPread_parts_sev _ (cfg.complexPartStrict.getD strict) inst.parts sv r.parts hok hnames [] (by simp)
    (r.s2.reverse ++ 61 :: (r.s1.reverse ++ (r.ds.reverse ++ l))) false (r.s4 ++ 59 :: rest)
  have hsk1' : sk1 = false := by rcases hsk1 with h | h <;> exact h
  subst hsk1'
  simp only [List.nil_append] at hrd
  unfold readInstance
  rw [hs, e0]
  simp only [e1, Option.getD_some, hfind, hnew, bne_self_eq_false, Bool.false_eq_true, if_false]
  rw [e2, getInto_good 0 _ 61 _ false]
  simp only [bne_self_eq_false, Bool.false_eq_true, if_false]
  rw [e3, markStart_G]
  simp only
  rw [peekC_good]
  have e38 : ((40 : Byte) == 38) = false := by decide
  simp only [e38, Bool.false_eq_true, if_false, beq_self_eq_true, if_true, bind, Except.bind, pure, Except.pure, hcx, hrd]
  have e5 : readTokenSeparator (G l1 (r.s4 ++ 59 :: rest) false) = G (r.s4.reverse ++ l1) (59 :: rest) false :=
    readTokenSeparator_seps r.s4 h4 l1 59 rest false (by decide) (by decide)
  rw [e5]
  generalize cxSev cfg (match inst.parts with | p :: _ => p.name | [] => "") sv r.parts = S
  by_cases hw : S.toInt ≤ Sev.warning.toInt
  · have hdec : decide (S.toInt ≤ Sev.warning.toInt) = true := by simpa using hw
    simp only [hrs, hdec, Bool.and_self, if_true, bind, Except.bind, pure, Except.pure]
    obtain ⟨T, hT, eT⟩ := hpass rest
    have hsi := skipInstance_passes cfg hskip _ hT (r.s2.reverse ++ 61 :: (r.s1.reverse ++ (r.ds.reverse ++ l))) rest
    rw [← eT] at hsi
    have hsi' : skipInstance cfg
        { left := r.s2.reverse ++ 61 :: (r.s1.reverse ++ (r.ds.reverse ++ l)),
          right := 40 :: (renderCParts r.parts ++ 41 :: (r.s4 ++ 59 :: rest)),
          eof := false, fail := false, bad := false, skipws := false } = _ := hsi
    rw [hsi']
    simp only [hrep, if_true]
    exact ⟨_, rfl⟩
  · have hdec : decide (S.toInt ≤ Sev.warning.toInt) = false := by simpa using hw
    rw [peekC_good]
    have e69 : ((59 : Byte) != 69) = true := by decide
    cases hm : cfg.missingSemicolonReported <;>
      simp only [Bool.false_eq_true, if_false, if_true, beq_self_eq_true, e69, hdec, Bool.and_false,
        shiftInto_good _ _ 59 rest false (by decide), hrep] <;>
      exact ⟨_, rfl⟩

end StepModel.P21.RLemmas

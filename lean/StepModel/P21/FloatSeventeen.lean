import StepModel.P21.FloatBin
/-! **Seventeen significant digits determine a binary64** — for the float model's own `Dbl.sigDigits` (what `%.17G` prints) and
`Dbl.ofDecimal` (what `strtod` returns): `sigDigitsReadBack_17`.  With `dbl_fmtG_readsBack` (`FloatRead.lean`) this makes
"`%.17G` of a finite double converts back to it" a theorem of the model, no hypothesis left. (C09, final proof round) -/
namespace StepModel.P21.Lemmas
open StepModel

set_option exponentiation.threshold 2000

theorem two1024_lt : (2 : Nat) ^ 1024 < 10 ^ 309 := by decide +kernel
theorem two1074_le : (2 : Nat) ^ 1074 ≤ 10 ^ 324 := by decide +kernel

theorem zp2_1024_lt : zp 2 1024 < zp 10 309 := by
  have h1 : zp 2 1024 = ((2 ^ 1024 : Nat) : Rat) := zp_nat 2 1024
  have h2 : zp 10 309 = ((10 ^ 309 : Nat) : Rat) := zp_nat 10 309
  have : ((2 ^ 1024 : Nat) : Rat) < ((10 ^ 309 : Nat) : Rat) := by exact_mod_cast two1024_lt
  rw [h1, h2]; exact this

theorem zp10_neg324_le : zp 10 (-324) ≤ zp 2 (-1074) := by
  have h1 : zp 2 1074 = ((2 ^ 1074 : Nat) : Rat) := zp_nat 2 1074
  have h2 : zp 10 324 = ((10 ^ 324 : Nat) : Rat) := zp_nat 10 324
  have hA : zp 2 1074 ≤ zp 10 324 := by
    have : ((2 ^ 1074 : Nat) : Rat) ≤ ((10 ^ 324 : Nat) : Rat) := by exact_mod_cast two1074_le
    rw [h1, h2]; exact this
  have ia := zp_neg_mul 2 (by decide) 1074
  have ib := zp_neg_mul 10 (by decide) 324
  have pa := zp_pos 2 (by decide) (-1074)
  have pb := zp_pos 10 (by decide) (-324)
  have s1 := Rat.mul_le_mul_of_nonneg_left hA (Rat.le_of_lt pb)
  have s2 := Rat.mul_le_mul_of_nonneg_left s1 (Rat.le_of_lt pa)
  have e1 : zp 2 (-1074) * (zp 10 (-324) * zp 2 1074) = zp 10 (-324) * (zp 2 (-1074) * zp 2 1074) := by grind
  have e2 : zp 2 (-1074) * (zp 10 (-324) * zp 10 324) = zp 2 (-1074) * (zp 10 (-324) * zp 10 324) := rfl
  rw [e1, ia, ib] at s2
  grind

theorem zp10_16 : zp 10 16 = (10000000000000000 : Rat) := by
  have := zp_nat 10 16; simp at this; exact this

/-- significand and exponent of a finite non-zero bit pattern: ranges, and how the pattern is put together from them -/
theorem mant_exp_facts (bits : Nat) (hlt : bits < 2 ^ 64)
    (hfin : (bits / Dbl.pow2 52 % 2048 == 2047) = false)
    (hnz : (bits / Dbl.pow2 52 % 2048 == 0 && bits % Dbl.pow2 52 == 0) = false) :
    0 < mantOf bits ∧ mantOf bits < 2 ^ 53 ∧ -1074 ≤ expOf bits ∧ expOf bits + 1075 < 2047 ∧
    (mantOf bits < 2 ^ 52 → expOf bits = -1074) ∧
    bits = (if mantOf bits < 2 ^ 52 then mantOf bits else (expOf bits + 1075).toNat * 2 ^ 52 + (mantOf bits - 2 ^ 52)) +
      (if (bits / Dbl.signBit % 2 == 1) = true then Dbl.signBit else 0) := by
  unfold mantOf expOf
  simp only [Dbl.pow2, Dbl.signBit] at *
  have hfin' : bits / 2 ^ 52 % 2048 ≠ 2047 := by simpa using hfin
  by_cases hbe : bits / 2 ^ 52 % 2048 = 0
  · have hfr : bits % 2 ^ 52 ≠ 0 := by simpa [hbe] using hnz
    simp only [hbe, beq_self_eq_true, if_true]
    have h1 : bits % 2 ^ 52 < 2 ^ 52 := Nat.mod_lt _ (by decide)
    refine ⟨by omega, by omega, by omega, by omega, fun _ => trivial, ?_⟩
    rw [if_pos h1]
    by_cases hs : bits / 2 ^ 63 % 2 = 1
    · simp only [hs, beq_self_eq_true, if_true]; omega
    · have : (bits / 2 ^ 63 % 2 == 1) = false := by simp [hs]
      simp only [this, Bool.false_eq_true, if_false]; omega
  · have hbe' : (bits / 2 ^ 52 % 2048 == 0) = false := by simp [hbe]
    simp only [hbe', Bool.false_eq_true, if_false]
    have h1 : bits % 2 ^ 52 < 2 ^ 52 := Nat.mod_lt _ (by decide)
    have h2 : ¬ bits % 2 ^ 52 + 2 ^ 52 < 2 ^ 52 := by omega
    refine ⟨by omega, by omega, by omega, by omega, fun h => absurd h h2, ?_⟩
    rw [if_neg h2]
    have e1 : ((bits / 2 ^ 52 % 2048 : Nat) : Int) - 1075 + 1075 = ((bits / 2 ^ 52 % 2048 : Nat) : Int) := by omega
    rw [e1, Int.toNat_natCast]
    by_cases hs : bits / 2 ^ 63 % 2 = 1
    · simp only [hs, beq_self_eq_true, if_true]; omega
    · have : (bits / 2 ^ 63 % 2 == 1) = false := by simp [hs]
      simp only [this, Bool.false_eq_true, if_false]; omega

theorem zp2_971_1024 (e : Int) (he : e + 1075 < 2047) : (9007199254740992 : Rat) * zp 2 e ≤ zp 2 1024 := by
  have h1 : zp 2 1024 = zp 2 53 * zp 2 971 := by rw [← zp_add 2 (by decide)]; rfl
  have h2 := zp_mono 2 (by decide) e 971 (by omega)
  rw [h1, zp2_53]
  have := Rat.mul_le_mul_of_nonneg_left h2 (show (0 : Rat) ≤ 9007199254740992 by decide)
  exact this

/-- **17 significant digits determine a binary64**, for the float model: the digits `Dbl.sigDigits 17` computes for a finite
    non-zero double, with any number of trailing zeros removed, are rounded back to the same bit pattern by `Dbl.ofDecimal` -/
theorem sigDigitsReadBack_17 (bits : Nat) (hlt : bits < 2 ^ 64)
    (hfin : (bits / Dbl.pow2 52 % 2048 == 2047) = false)
    (hnz : (bits / Dbl.pow2 52 % 2048 == 0 && bits % Dbl.pow2 52 == 0) = false) : SigDigitsReadBack 17 bits := by
  obtain ⟨hm0, hm53, he1, he2, hsub, henc⟩ := mant_exp_facts bits hlt hfin hnz
  intro M k hq
  generalize mantOf bits = m at *
  generalize expOf bits = e at *
  have hz := zp_pos 2 (by decide) e
  unfold finSig at hq ⊢
  have hnpos : 0 < (if e ≥ 0 then m * Dbl.pow2 e.toNat else m) := by
    split
    · exact Nat.mul_pos hm0 (Nat.pow_pos (by decide))
    · exact hm0
  have hdpos : 0 < (if e ≥ 0 then 1 else Dbl.pow2 (-e).toNat) := by
    split
    · decide
    · exact Nat.pow_pos (by decide)
  have hv : (m : Rat) * zp 2 e * (((if e ≥ 0 then 1 else Dbl.pow2 (-e).toNat) : Nat) : Rat) =
      (((if e ≥ 0 then m * Dbl.pow2 e.toNat else m) : Nat) : Rat) := by
    by_cases h0 : e ≥ 0
    · simp only [h0, if_true]
      rw [zp_toNat 2 e h0]; unfold Dbl.pow2; push_cast; grind
    · simp only [h0, if_false]
      have := zp_neg_toNat 2 (by decide) e h0
      unfold Dbl.pow2
      calc (m : Rat) * zp 2 e * ((2 ^ (-e).toNat : Nat) : Rat) = (m : Rat) * (zp 2 e * ((2 ^ (-e).toNat : Nat) : Rat)) := by grind
        _ = (m : Rat) := by rw [this]; simp
  generalize (if e ≥ 0 then m * Dbl.pow2 e.toNat else m) = n at *
  generalize (if e ≥ 0 then 1 else Dbl.pow2 (-e).toNat) = d at *
  obtain ⟨x, x1, x2, s1, s2, s3⟩ := sigDigits_spec 17 n d (by decide) hnpos hdpos _ hv
  have hlen := sigDigits_digits 17 n d (by decide) hnpos hdpos
  generalize Dbl.sigDigits 17 n d = r at *
  obtain ⟨q, x'⟩ := r
  simp only at hq s1 s2 s3 hlen ⊢
  have e16 : ((17 : Nat) : Int) - 1 = 16 := by omega
  rw [e16] at s1 s2 ⊢
  -- the value range
  have hmR : (m : Rat) + 1 ≤ 9007199254740992 := by
    have : m + 1 ≤ 9007199254740992 := by omega
    exact_mod_cast this
  have hm1 : (1 : Rat) ≤ (m : Rat) := by exact_mod_cast hm0
  have hvlt : (m : Rat) * zp 2 e < zp 2 1024 := by
    have a := zp2_971_1024 e he2
    have b := Rat.mul_le_mul_of_nonneg_left hmR (Rat.le_of_lt hz)
    grind
  have hvge : zp 10 (-324) ≤ (m : Rat) * zp 2 e := by
    have a := zp10_neg324_le
    have b := zp_mono 2 (by decide) (-1074) e he1
    have c := Rat.mul_le_mul_of_nonneg_left hm1 (Rat.le_of_lt hz)
    grind
  have hx309 : x < 309 := zp_lt_imp 10 (by decide) _ _ (by have := zp2_1024_lt; grind)
  have hx324 : -324 < x + 1 := zp_lt_imp 10 (by decide) _ _ (by grind)
  -- the digits
  have hq0 : 0 < q := by
    by_cases h : q = 0
    · rw [h] at hlen; exact absurd hlen (by decide)
    · omega
  obtain ⟨qb1, qb2, _⟩ := digits_bounds q hq0
  rw [hlen] at qb1 qb2
  have hMpos : 0 < M := by
    by_cases h : M = 0
    · rw [h] at hq; simp at hq; omega
    · omega
  have hk17 : k < 17 := by
    by_cases h : k < 17
    · exact h
    · exfalso
      have h1 : 10 ^ 17 ≤ 10 ^ k := Nat.pow_le_pow_right (by decide) (by omega)
      have h2 : 10 ^ k ≤ M * 10 ^ k := Nat.le_mul_of_pos_left _ hMpos
      omega
  obtain ⟨mb1, mb2, mb3⟩ := digits_bounds M hMpos
  have hnd : 17 ≤ (Nat.toDigits 10 M).length + k := by
    by_cases h : 17 ≤ (Nat.toDigits 10 M).length + k
    · exact h
    · exfalso
      have h1 : 10 ^ ((Nat.toDigits 10 M).length + k) ≤ 10 ^ 16 := Nat.pow_le_pow_right (by decide) (by omega)
      have h2 : M * 10 ^ k < 10 ^ (Nat.toDigits 10 M).length * 10 ^ k := Nat.mul_lt_mul_of_pos_right mb2 (Nat.pow_pos (by decide))
      rw [← Nat.pow_add] at h2
      have : (17 : Nat) - 1 = 16 := rfl
      rw [this] at qb1
      omega
  -- the decimal handed to `ofDecimal`
  have hD : (M : Rat) * zp 10 (x' - 16 + (k : Int)) = (q : Rat) * zp 10 (x' - 16) := by
    rw [zp_add 10 (by decide), zp_nat 10 k, hq]; push_cast; grind
  -- closeness: u = 10^(x-16) is below the last place of the double
  have hu16 : zp 10 x = zp 10 (x - 16) * 10000000000000000 := by
    have : x = (x - 16) + 16 := by omega
    conv => lhs; rw [this]
    rw [zp_add 10 (by decide), zp10_16]
  have hupos := zp_pos 10 (by decide) (x - 16)
  have hmz := Rat.mul_le_mul_of_nonneg_left hmR (Rat.le_of_lt hz)
  have K1 : zp 10 (x - 16) < zp 2 e := by grind
  have K2 : m = 2 ^ 52 → 2 * zp 10 (x - 16) < zp 2 e := by
    intro h
    have : (m : Rat) = 4503599627370496 := by rw [h]; simp
    rw [this] at x1
    grind
  -- the conversion back, for any numerator/denominator presenting the decimal
  have hround : ∀ N Dd : Nat, 0 < N → 0 < Dd → (M : Rat) * zp 10 (x' - 16 + (k : Int)) * (Dd : Rat) = (N : Rat) →
      Dbl.ofRatio N Dd = some (if m < 2 ^ 52 then m else (e + 1075).toNat * 2 ^ 52 + (m - 2 ^ 52)) := by
    intro N Dd hN hDd hDv
    apply ofRatio_round N Dd hN hDd _ hDv m e he1 he2 hm53 hsub
    · rw [hD]; grind
    · rw [hD]; grind
    · intro h52 _
      have k2 := K2 h52
      rw [hD]; grind
  -- `ofDecimal`: the magnitude guards do not fire
  have hM0 : (M == 0) = false := by simp; omega
  have hE310 : ¬ (x' - 16 + (k : Int) > 310) := by omega
  have hnd330 : ¬ (((Nat.toDigits 10 M).length : Int) + (x' - 16 + (k : Int)) < -330) := by omega
  unfold Dbl.ofDecimal
  simp only [hM0, Bool.false_eq_true, if_false, hE310, hnd330]
  have hfinal : ∀ N Dd : Nat, 0 < N → 0 < Dd → (M : Rat) * zp 10 (x' - 16 + (k : Int)) * (Dd : Rat) = (N : Rat) →
      Option.map (fun x => x + if (bits / Dbl.signBit % 2 == 1) = true then Dbl.signBit else 0) (Dbl.ofRatio N Dd) = some bits := by
    intro N Dd hN hDd hDv
    rw [hround N Dd hN hDd hDv]
    simp only [Option.map_some]
    exact congrArg some henc.symm
  by_cases hE : x' - 16 + (k : Int) ≥ 0
  · simp only [hE, if_true]
    apply hfinal _ 1 (Nat.mul_pos hMpos (Nat.pow_pos (by decide))) (by decide)
    rw [zp_toNat 10 _ hE]; push_cast; grind
  · simp only [hE, if_false]
    apply hfinal _ _ hMpos (Nat.pow_pos (by decide))
    have := zp_neg_toNat 10 (by decide) _ hE
    calc (M : Rat) * zp 10 (x' - 16 + (k : Int)) * ((10 ^ (-(x' - 16 + (k : Int))).toNat : Nat) : Rat)
        = (M : Rat) * (zp 10 (x' - 16 + (k : Int)) * ((10 ^ (-(x' - 16 + (k : Int))).toNat : Nat) : Rat)) := by grind
      _ = (M : Rat) := by rw [this]; simp

end StepModel.P21.Lemmas

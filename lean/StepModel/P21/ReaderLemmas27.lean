import StepModel.P21.ReaderLemmas26
/-! An unterminated record - `#id = NAME ( … )` with its `;` missing, the next record's `#` behind it: record level. -/
namespace StepModel.P21.RLemmas
open StepModel StepModel.IStream StepModel.P21 StepModel.P21.Lemmas StepModel.P21.Grammar

variable {F : Type}

/-- the record's text without its `;`, followed by the `#` of the next record and whatever comes behind that -/
def Rec.u4 (r : Rec F) (k : List Byte) : List Byte := r.s4 ++ 35 :: k
def Rec.u3 (r : Rec F) (k : List Byte) : List Byte := r.s3 ++ 40 :: (renderParams r.ps ++ r.u4 k)
def Rec.u2 (r : Rec F) (k : List Byte) : List Byte := r.s2 ++ r.n0 :: (r.ns ++ r.u3 k)
def Rec.u1 (r : Rec F) (k : List Byte) : List Byte := r.s1 ++ 61 :: r.u2 k
def Rec.textU (r : Rec F) (k : List Byte) : List Byte := r.ds ++ r.u1 k

/-- **pass 2 on a record whose `;` is missing** (source with the report of C03-2, `missingSemicolonReported`): the
    parameters are read as they stand; where the `;` must stand `ReadInstance` finds the next record's `#`, reports WARNING
    on top of what the parameters reported, and leaves the stream at that `#` -/
theorem readInstance_nosemi (ops : FloatOps F) (lex : LexCfg) (cfg : RWCfg) (d : Dict) (strict : Bool) (st : P2 F)
    (r : Rec F) (hlex : r.Lex) (hmsr : cfg.missingSemicolonReported = true) (l k : List Byte) (sk : Bool) (hs : st.s = G l (r.textU k) sk)
    (inst : MInst F) (hfind : st.mgr.find? r.id = some inst) (hnew : inst.state = .new) (hcx : inst.complex = false)
    (p : MPart F) (hparts : inst.parts = [p]) (e : EntityD) (hent : d.entity? p.name = some e)
    (sev0 : Sev) (vals : List (MVal F)) (asev0 : Sev)
    (hrd : ∀ L, instSTEPread { ops := ops, lex := lex, cfg := cfg, dict := d, lookup := Mgr.lookup d st.mgr } strict
        e.attrs (G L (40 :: (renderParams r.ps ++ r.u4 k)) sk) =
          .ok ⟨sev0, vals, G ((40 :: renderParams r.ps).reverse ++ L) (r.u4 k) false, asev0⟩)
    (hno : (cfg.errorResyncsFromStart && decide (sev0.toInt ≤ Sev.warning.toInt)) = false) :
    ∃ l', readInstance ops lex cfg d strict st =
      .ok { s := G l' (35 :: k) false,
            inst := some { inst with parts := [{ p with vals := vals }], state := stateOf (sev0.greater .warning) },
            reported := some (sev0.greater .warning), left := some .null } := by
  obtain ⟨dne, ddig, dhi, h1, h2, h3, h4, hn0, hns, pne⟩ := hlex
  obtain ⟨hn0s, hn047, hn038, hn040, hn033, hn035, hn0d, hn0k, hn092⟩ := alpha_facts hn0
  obtain ⟨c, u, hcu⟩ : ∃ c u, r.ds = c :: u := by
    cases hd : r.ds with
    | nil => exact absurd hd dne
    | cons c u => exact ⟨c, u, rfl⟩
  have hcd : isDigit c = true := by rw [hcu] at ddig; simp at ddig; exact ddig.1
  have hc47 : c ≠ 47 := by intro h; rw [h] at hcd; exact absurd hcd (by decide)
  obtain ⟨x, xr, hXe, hxd⟩ : ∃ x xr, r.u1 k = x :: xr ∧ isDigit x = false :=
    seps_then r.s1 h1 61 _ (fun c => isDigit c = false) (fun c h => space_not_digit h) (by decide) (by decide)
  have e0 : readComment (G l (r.textU k) sk) = G l (r.textU k) sk := by
    unfold Rec.textU; rw [hcu]; exact readComment_none l c _ sk (digit_not_space hcd) hc47
  have e1 : (G l (r.textU k) sk).extractInt32 = (some r.id, G (r.ds.reverse ++ l) (r.u1 k) sk) := by
    unfold Rec.textU; rw [hXe]; exact extractInt32_digits r.ds dne ddig dhi l x xr sk hxd
  have e2 : readTokenSeparator (G (r.ds.reverse ++ l) (r.u1 k) sk) = G (r.s1.reverse ++ (r.ds.reverse ++ l)) (61 :: r.u2 k) sk :=
    readTokenSeparator_seps r.s1 h1 (r.ds.reverse ++ l) 61 _ sk (by decide) (by decide)
  have e3 : readTokenSeparator (G (61 :: (r.s1.reverse ++ (r.ds.reverse ++ l))) (r.u2 k) sk) =
      G (r.s2.reverse ++ 61 :: (r.s1.reverse ++ (r.ds.reverse ++ l))) (r.n0 :: (r.ns ++ r.u3 k)) sk :=
    readTokenSeparator_seps r.s2 h2 _ r.n0 _ sk hn0s hn047 hn092
  unfold readInstance
  rw [hs, e0]
  simp only [e1, Option.getD_some, hfind, hnew, bne_self_eq_false, Bool.false_eq_true, if_false]
  rw [e2, getInto_good 0 _ 61 _ sk]
  simp only [bne_self_eq_false, Bool.false_eq_true, if_false]
  rw [e3, markStart_G]
  simp only
  rw [peekC_good]
  have e38 : (r.n0 == 38) = false := by simp [hn038]
  have e40 : (r.n0 == 40) = false := by simp [hn040]
  have e33 : (r.n0 == 33) = false := by simp [hn033]
  simp only [e38, e40, Bool.false_eq_true, if_false, bind, Except.bind, pure, Except.pure]
  rw [readTokenSeparator_none _ r.n0 _ sk hn0s hn047 hn092, peekC_good]
  simp only [e33, Bool.false_eq_true, if_false]
  obtain ⟨y, yr, hYe, hyk⟩ : ∃ y yr, r.u3 k = y :: yr ∧ kwc y = false :=
    seps_then r.s3 h3 40 _ (fun c => kwc c = false) (fun c h => space_not_kwc h) (by decide) (by decide)
  have hkw : (r.n0 :: r.ns).all kwc = true := by simp only [List.all_cons, hn0k, Bool.true_and]; exact hns
  have ekw : readStdKeyword (G (r.s2.reverse ++ 61 :: (r.s1.reverse ++ (r.ds.reverse ++ l))) (r.n0 :: (r.ns ++ r.u3 k)) sk) =
      (r.n0 :: r.ns, G ((r.n0 :: r.ns).reverse ++ (r.s2.reverse ++ 61 :: (r.s1.reverse ++ (r.ds.reverse ++ l)))) (r.u3 k) sk) := by
    rw [hYe]
    exact readStdKeyword_spec r.n0 r.ns hkw hn0s y hyk _ yr sk
  rw [ekw]
  simp only
  have e4 : readTokenSeparator (G ((r.n0 :: r.ns).reverse ++ (r.s2.reverse ++ 61 :: (r.s1.reverse ++ (r.ds.reverse ++ l)))) (r.u3 k) sk) =
      G (r.s3.reverse ++ ((r.n0 :: r.ns).reverse ++ (r.s2.reverse ++ 61 :: (r.s1.reverse ++ (r.ds.reverse ++ l)))))
        (40 :: (renderParams r.ps ++ r.u4 k)) sk :=
    readTokenSeparator_seps r.s3 h3 _ 40 _ sk (by decide) (by decide)
  rw [e4]
  have hrd' := hrd (r.s3.reverse ++ ((r.n0 :: r.ns).reverse ++ (r.s2.reverse ++ 61 :: (r.s1.reverse ++ (r.ds.reverse ++ l)))))
  simp only [hcx, Bool.false_eq_true, if_false, hparts, hent]
  rw [hrd']
  simp only
  have e5 : ∀ L, readTokenSeparator (G L (r.u4 k) false) = G (r.s4.reverse ++ L) (35 :: k) false :=
    fun L => readTokenSeparator_seps r.s4 h4 L 35 k false (by decide) (by decide)
  rw [e5, peekC_good]
  have e59 : ((35 : Byte) == 59) = false := by decide
  have e69 : ((35 : Byte) != 69) = true := by decide
  have hno' : (cfg.errorResyncsFromStart && decide (sev0.toInt ≤ Sev.warning.toInt)) = false := hno
  simp only [hmsr, if_true, e59, e69, hno', Bool.false_eq_true, if_false]
  exact ⟨_, rfl⟩

theorem keptI_append (a b : List (Item F × Bool)) : keptI (a ++ b) = keptI a ++ keptI b := by simp [keptI]
theorem nskipI_append (a b : List (Item F × Bool)) : nskipI (a ++ b) = nskipI a + nskipI b := by simp [nskipI]
theorem renderItems_append (a b : List (Item F)) (fin : List Byte) :
    renderItems (a ++ b) fin = renderItems a (renderItems b fin) := by
  induction a with
  | nil => rfl
  | cons x t ih => simp [renderItems, ih]
theorem errAfterI_append (e : Sev) (a b : List (Item F)) : errAfterI e (a ++ b) = errAfterI (errAfterI e a) b := by
  simp [errAfterI]

/-- **both passes over a data section the two passes divide into records differently**: pass 1 sees the records `zs1`, pass 2
    sees `pre2 ++ suf2` over the same text (an unterminated record is one record with its successor for pass 1, two records
    for pass 2), both make the same instances in the same order; for the records of `pre2` the pass-2 fact is needed only
    in front of a further record (`Item2OKH`; `suf2` is not empty). -/
theorem readDataSection_twoviews (ops : FloatOps F) (lex : LexCfg) (cfg : RWCfg)
    (d : Dict) (strict : Bool) (sp tail : List Byte) (hsp : sp.all isSpace = true) (htail : TailOK tail)
    (zs1 pre2 suf2 : List (Item F × Bool)) (g0 : List Byte) (hg0 : Seps g0) (hsuf : suf2 ≠ [])
    (htext : renderItems (zs1.map (·.1)) (endsec sp tail) = renderItems ((pre2 ++ suf2).map (·.1)) (endsec sp tail))
    (hmk : (keptI zs1).map (·.mkI) = (keptI (pre2 ++ suf2)).map (·.mkI))
    (hnd1 : (zs1.map (·.1.id)).Nodup) (hnd2 : ((pre2 ++ suf2).map (·.1.id)).Nodup)
    (h1 : ∀ x ∈ zs1, if x.2 then Item1OK cfg d x.1 else ItemSkip1 cfg d x.1)
    (h2p : ∀ x ∈ pre2, if x.2 then Item2OKH ops lex cfg d strict
            (Mgr.lookup d ({ insts := (keptI zs1).map (·.mkI) } : Mgr F)) x.1 else ItemSkip2 ops lex cfg d strict x.1)
    (h2s : ∀ x ∈ suf2, if x.2 then Item2OKF ops lex cfg d strict
            (Mgr.lookup d ({ insts := (keptI zs1).map (·.mkI) } : Mgr F)) x.1 else ItemSkip2 ops lex cfg d strict x.1) :
    ∃ res, readDataSection ops lex cfg d strict false (g0 ++ renderItems (zs1.map (·.1)) (endsec sp tail)) = .ok res ∧
      res.mgr.insts = (keptI (pre2 ++ suf2)).map (·.out) ∧
      res.sev = (if nskipI (pre2 ++ suf2) > 0
                 then (errAfterI (if nskipI zs1 > 0 then .warning else .null) (keptI (pre2 ++ suf2))).greater .warning
                 else errAfterI (if nskipI zs1 > 0 then .warning else .null) (keptI (pre2 ++ suf2))) ∧
      res.created = (keptI zs1).length ∧ res.notCreated = nskipI zs1 ∧ res.valid = (keptI (pre2 ++ suf2)).length ∧
      res.invalid = nskipI (pre2 ++ suf2) ∧ res.reported = ((keptI (pre2 ++ suf2)).map (·.sev)).reverse := by
  have hne1 : zs1 ≠ [] := by
    intro h
    rw [h] at htext
    obtain ⟨c0, t0, hs2⟩ : ∃ c0 t0, suf2 = c0 :: t0 := by
      cases suf2 with
      | nil => exact absurd rfl hsuf
      | cons c0 t0 => exact ⟨c0, t0, rfl⟩
    rw [hs2, List.map_append, renderItems_append] at htext
    obtain ⟨k', hk'⟩ := renderItems_head35 (pre2.map (·.1)) (c0.1.body ++ (c0.1.g ++ renderItems (t0.map (·.1)) (endsec sp tail)))
    simp only [List.map_cons, renderItems, List.map_nil] at htext hk'
    rw [hk'] at htext
    exact absurd htext (by simp [endsec])
  -- pass 1
  have hp1 : ∃ l', readData1 (F := F) cfg d { right := g0 ++ renderItems (zs1.map (·.1)) (endsec sp tail), skipws := false } =
      .ok { mgr := { insts := (keptI zs1).map (·.mkI) }, count := (keptI zs1).length, notCreated := nskipI zs1,
            s := G l' tail false } := by
    unfold readData1
    rcases foundEndSec_gapI g0 hg0 (zs1.map (·.1)) sp tail hsp [] false with ⟨hnil, l2, hfe⟩ | ⟨l2, t, ht, hfe⟩
    · exact absurd (List.map_eq_nil_iff.mp hnil) hne1
    · have hfe' : foundEndSec { right := g0 ++ renderItems (zs1.map (·.1)) (endsec sp tail), skipws := false } =
          (false, G l2 (t ++ renderItems (zs1.map (·.1)) (endsec sp tail)) false) := hfe
      rw [hfe']
      simp only
      obtain ⟨l3, h⟩ := readData1Loop_itemsX cfg d sp tail hsp zs1
        (⟨{}, 0, 0, G l2 (t ++ renderItems (zs1.map (·.1)) (endsec sp tail)) false⟩ : P1 F) t l2
        ((t ++ renderItems (zs1.map (·.1)) (endsec sp tail)).length + 3) ht rfl
        (by have := renderItems_length (zs1.map (·.1)) (endsec sp tail); rw [List.length_map] at this; simp only [List.length_append]; omega)
        h1 hnd1 (by intro i hi; simp at hi)
      refine ⟨l3, ?_⟩
      simpa using h
  obtain ⟨l1, hp1⟩ := hp1
  rw [readDataSection_eq]
  simp only [bind, Except.bind, hp1, gt_iff_lt, pure, Except.pure]
  -- pass 2, over the other division of the same text
  obtain ⟨k, hk⟩ : ∃ k, renderItems (suf2.map (·.1)) (endsec sp tail) = 35 :: k := by
    cases suf2 with
    | nil => exact absurd rfl hsuf
    | cons c0 t0 => exact ⟨_, rfl⟩
  have htext2 : renderItems (zs1.map (·.1)) (endsec sp tail) = renderItems (pre2.map (·.1)) (35 :: k) := by
    rw [htext, List.map_append, renderItems_append, hk]
  have hnd2p : (pre2.map (·.1.id)).Nodup := by
    rw [List.map_append] at hnd2; exact (List.nodup_append.mp hnd2).1
  have hnd2s : (suf2.map (·.1.id)).Nodup := by
    rw [List.map_append] at hnd2; exact (List.nodup_append.mp hnd2).2.1
  have hdisj : ∀ x ∈ pre2, ∀ y ∈ suf2, x.1.id ≠ y.1.id := by
    intro x hx y hy
    rw [List.map_append] at hnd2
    exact (List.nodup_append.mp hnd2).2.2 _ (List.mem_map_of_mem (f := fun z : Item F × Bool => z.1.id) hx) _
      (List.mem_map_of_mem (f := fun z : Item F × Bool => z.1.id) hy)
  have key : ∃ st', readData2Loop ops lex cfg d strict
      ((foundEndSec { right := g0 ++ renderItems (zs1.map (·.1)) (endsec sp tail), skipws := false }).2.right.length + 3)
      { mgr := { insts := (keptI zs1).map (·.mkI) }, fileErr := (if 0 < nskipI zs1 then .warning else .null),
        total := 0, valid := 0, invalid := 0, incomplete := 0,
        warnings := 0, s := (foundEndSec { right := g0 ++ renderItems (zs1.map (·.1)) (endsec sp tail), skipws := false }).2 }
      (foundEndSec { right := g0 ++ renderItems (zs1.map (·.1)) (endsec sp tail), skipws := false }).1 = .ok st' ∧
      st'.mgr.insts = (keptI (pre2 ++ suf2)).map (·.out) ∧
      st'.fileErr = errAfterI (if 0 < nskipI zs1 then .warning else .null) (keptI (pre2 ++ suf2)) ∧
      st'.valid = (keptI (pre2 ++ suf2)).length ∧ st'.invalid = nskipI (pre2 ++ suf2) ∧
      (∃ l' sk', st'.s = G l' tail sk') ∧ st'.reported = ((keptI (pre2 ++ suf2)).map (·.sev)).reverse := by
    rcases foundEndSec_gapI g0 hg0 (zs1.map (·.1)) sp tail hsp [] false with ⟨hnil, l2, hfe⟩ | ⟨l2, t, ht, hfe⟩
    · exact absurd (List.map_eq_nil_iff.mp hnil) hne1
    · have hfe' : foundEndSec { right := g0 ++ renderItems (zs1.map (·.1)) (endsec sp tail), skipws := false } =
          (false, G l2 (t ++ renderItems (zs1.map (·.1)) (endsec sp tail)) false) := hfe
      rw [hfe']
      simp only
      have hlen : pre2.length + suf2.length ≤ (renderItems (zs1.map (·.1)) (endsec sp tail)).length := by
        rw [htext]
        have := renderItems_length ((pre2 ++ suf2).map (·.1)) (endsec sp tail)
        simpa [List.length_map, List.length_append] using this
      obtain ⟨n, hn, hn2⟩ : ∃ n, (t ++ renderItems (zs1.map (·.1)) (endsec sp tail)).length + 3 = n + pre2.length ∧
          suf2.length + 2 ≤ n :=
        ⟨(t ++ renderItems (zs1.map (·.1)) (endsec sp tail)).length + 3 - pre2.length,
          by simp only [List.length_append]; omega, by simp only [List.length_append]; omega⟩
      rw [hn]
      obtain ⟨st1, hpre, hlk1, hcont⟩ := readData2Loop_prefixX ops lex cfg d strict
        (Mgr.lookup d ({ insts := (keptI zs1).map (·.mkI) } : Mgr F)) k pre2
        ({ mgr := { insts := (keptI zs1).map (·.mkI) }, fileErr := (if 0 < nskipI zs1 then .warning else .null),
           total := 0, valid := 0, invalid := 0, incomplete := 0,
           warnings := 0, s := G l2 (t ++ renderItems (zs1.map (·.1)) (endsec sp tail)) false } : P2 F)
        [] ((keptI suf2).map (·.mkI)) t l2 n ht (by rw [htext2])
        (by simp only [List.nil_append]; rw [hmk, keptI_append, List.map_append])
        (by intro i hi; simp at hi)
        (by
          intro i hi x hx
          obtain ⟨y, hy, rfl⟩ := List.mem_map.mp hi
          have hy' : (y, true) ∈ suf2 := mem_keptI suf2 y hy
          obtain ⟨_, hymk, _⟩ : Item2OKF ops lex cfg d strict _ y := by simpa using h2s (y, true) hy'
          rw [hymk]
          exact fun h => hdisj x hx (y, true) hy' h.symm)
        hnd2p rfl h2p
      obtain ⟨l3, t3, ht3, hs1⟩ := hpre.s
      obtain ⟨st', hrun, hdone⟩ := readData2Loop_itemsX ops lex cfg d strict
        (Mgr.lookup d ({ insts := (keptI zs1).map (·.mkI) } : Mgr F)) sp tail hsp suf2 st1
        ((keptI pre2).map (·.out)) t3 l3 n ht3 (by rw [hs1, hk]) hn2
        (by simpa using hpre.mgr)
        (by
          intro i hi y hy
          obtain ⟨x, hx, rfl⟩ := List.mem_map.mp hi
          have hx' : (x, true) ∈ pre2 := mem_keptI pre2 x hx
          obtain ⟨_, _, hxo, _⟩ : Item2OKH ops lex cfg d strict _ x := by simpa using h2p (x, true) hx'
          rw [hxo]
          exact hdisj (x, true) hx' y hy)
        hnd2s hlk1 h2s
      refine ⟨st', hcont _ hrun, ?_, ?_, ?_, ?_, hdone.s, ?_⟩
      · rw [hdone.mgr, keptI_append, List.map_append]
      · rw [hdone.err, hpre.err, keptI_append, errAfterI_append]
      · rw [hdone.valid, hpre.valid, keptI_append, List.length_append]; simp
      · rw [hdone.invalid, hpre.invalid, nskipI_append]; simp
      · rw [hdone.rep, hpre.rep, keptI_append]; simp
  obtain ⟨st', hrun, hm, herr, hv, hinv, hs, hrep⟩ := key
  rw [hrun]
  simp only
  obtain ⟨f1, f2, f3, f4, f5, f6, f7⟩ := finish_counts2
    ({ mgr := { insts := (keptI zs1).map (·.mkI) }, count := (keptI zs1).length, notCreated := nskipI zs1,
       s := G l1 tail false } : P1 F) st' tail htail hs
    (by rw [hv]; show (keptI (pre2 ++ suf2)).length = (keptI zs1).length
        have := congrArg List.length hmk; simpa [List.length_map] using this.symm)
  refine ⟨_, rfl, ?_, ?_, f3, f4, ?_, ?_, ?_⟩
  · rw [f2, hm]
  · rw [f1, herr, hinv]
  · rw [f5, hv]
  · rw [f6, hinv]
  · rw [f7, hrep]

end StepModel.P21.RLemmas

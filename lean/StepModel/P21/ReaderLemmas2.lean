import StepModel.P21.ReaderLemmas
/-! Attribute- and record-level lemmas for `Props/C01.lean`: `STEPattribute::STEPread` on `$`, `*`, INTEGER tokens and
entity references standing anywhere in a file, followed by any layout of blanks and comments and a delimiter; and the
composition over a parameter list (`SDAI_Application_instance::STEPread`). -/
namespace StepModel.P21.RLemmas
open StepModel StepModel.IStream StepModel.P21 StepModel.P21.Lemmas StepModel.P21.Grammar

variable {F : Type}

/-- `$` for an OPTIONAL attribute of any type -/
theorem attr_dollar (env : Env F) (strict : Bool) (a : AttrD) (hopt : a.optional = true) (hder : a.derived = false)
    (hcfg : env.lex.criSkipsComments = true) (l : List Byte) (sk : Bool) (seps : List Byte) (hs : Seps seps)
    (d : Byte) (rest : List Byte) (hd : d = 44 ∨ d = 41) :
    attrSTEPread env strict a (G l (36 :: (seps ++ d :: rest)) sk) =
      .ok (.null, nullOf a, G (seps.reverse ++ 36 :: l) (d :: rest) sk) := by
  unfold attrSTEPread
  rw [show (G l (36 :: (seps ++ d :: rest)) sk).ws = G l (36 :: (seps ++ d :: rest)) sk from ws_good0 l 36 _ sk (by decide)]
  simp only [bind, Except.bind, pure, Except.pure]
  rw [show (G l (36 :: (seps ++ d :: rest)) sk).peekC = (36, G l (36 :: (seps ++ d :: rest)) sk) from peekC_good l 36 _ sk]
  simp only [hder, Bool.false_eq_true, if_false, beq_self_eq_true, Bool.true_or, if_true]
  rw [show (G l (36 :: (seps ++ d :: rest)) sk).ignore1 = G (36 :: l) (seps ++ d :: rest) sk from ignore1_good l 36 _ sk]
  rw [cri_seps env.lex hcfg seps hs (36 :: l) rest d false sk .null hd]
  simp [hopt]

/-- `*` for a derived attribute -/
theorem attr_star (env : Env F) (strict : Bool) (a : AttrD) (hder : a.derived = true)
    (hcfg : env.lex.criSkipsComments = true) (l : List Byte) (sk : Bool) (seps : List Byte) (hs : Seps seps)
    (d : Byte) (rest : List Byte) (hd : d = 44 ∨ d = 41) :
    attrSTEPread env strict a (G l (42 :: (seps ++ d :: rest)) sk) =
      .ok (.null, .derived, G (seps.reverse ++ 42 :: l) (d :: rest) sk) := by
  unfold attrSTEPread
  rw [show (G l (42 :: (seps ++ d :: rest)) sk).ws = G l (42 :: (seps ++ d :: rest)) sk from ws_good0 l 42 _ sk (by decide)]
  simp only [bind, Except.bind, pure, Except.pure]
  rw [show (G l (42 :: (seps ++ d :: rest)) sk).peekC = (42, G l (42 :: (seps ++ d :: rest)) sk) from peekC_good l 42 _ sk]
  simp only [hder, if_true, beq_self_eq_true]
  rw [show getInto 42 (G l (42 :: (seps ++ d :: rest)) sk) = (42, G (42 :: l) (seps ++ d :: rest) sk) from getInto_good 42 l 42 _ sk]
  simp only
  rw [cri_seps env.lex hcfg seps hs (42 :: l) rest d false sk .null hd]

theorem extractLong_G (l : List Byte) (c : Byte) (t : List Byte) (sk : Bool) (hc : isSpace c = false) :
    IStream.extractLong (G l (c :: t) sk) =
      (some (scanInt longMin longMax l (c :: t)).1.value,
       { left := (scanInt longMin longMax l (c :: t)).2.1, right := (scanInt longMin longMax l (c :: t)).2.2,
         eof := (scanInt longMin longMax l (c :: t)).2.2.isEmpty, fail := (scanInt longMin longMax l (c :: t)).1.fail,
         bad := false, skipws := sk }) := by
  cases sk <;> simp [IStream.extractLong, IStream.sentry, IStream.good, dropSpaces_nonspace _ _ _ hc]

/-- the first byte of a separator sequence followed by a delimiter is never a digit -/
theorem seps_head_not_digit (seps : List Byte) (hs : Seps seps) (d : Byte) (rest : List Byte) (hd : d = 44 ∨ d = 41) :
    ∃ c u, seps ++ d :: rest = c :: u ∧ isDigit c = false := by
  cases hs with
  | blanks _ hsp =>
    cases seps with
    | nil => exact ⟨d, rest, rfl, by rcases hd with rfl | rfl <;> decide⟩
    | cons x sp' =>
      have : isSpace x = true := by simp at hsp; exact hsp.1
      exact ⟨x, sp' ++ d :: rest, rfl, space_not_digit this⟩
  | comment sp body t hsp hb ht =>
    cases sp with
    | nil => exact ⟨47, _, rfl, by decide⟩
    | cons x sp' =>
      have : isSpace x = true := by simp at hsp; exact hsp.1
      exact ⟨x, _, rfl, space_not_digit this⟩

/-- the sentinel test of the repaired `ReadInteger` changes nothing unless the extracted value is `S_INT_NULL` -/
theorem readIntegerS_of (cfg : LexCfg) (d : Option (List Byte)) (s : IStream) (e : Sev)
    (h : intSentinel cfg (readInteger cfg d s e).1 = false) : readIntegerS cfg d s e = readInteger cfg d s e := by
  unfold readIntegerS
  generalize readInteger cfg d s e = r at h ⊢
  obtain ⟨v, s1, e1⟩ := r
  simp only at h ⊢
  simp [h]

theorem intSentinel_none (cfg : LexCfg) : intSentinel cfg none = false := by simp [intSentinel]
theorem intSentinel_some (cfg : LexCfg) (v : Int) (h : v ≠ IStream.longMax) : intSentinel cfg (some v) = false := by
  simp [intSentinel, h]

/-- likewise `ReadReal` / `ReadNumber` unless the converted value is `S_REAL_NULL` / `S_NUMBER_NULL` -/
theorem readRealS_of (ops : FloatOps F) (cfg : LexCfg) (d : Option (List Byte)) (s : IStream) (e : Sev)
    (v : Option F) (s1 : IStream) (e1 : Sev) (hr : readReal ops cfg d s e = .ok (v, s1, e1)) (h : realSentinel ops v = false) :
    readRealS ops cfg d s e = .ok (v, s1, e1) := by
  simp [readRealS, hr, h]

theorem readNumberS_of (ops : FloatOps F) (cfg : LexCfg) (d : Option (List Byte)) (s : IStream) (e : Sev)
    (h : realSentinel ops (readNumber ops cfg d s e).1 = false) : readNumberS ops cfg d s e = readNumber ops cfg d s e := by
  unfold readNumberS
  generalize readNumber ops cfg d s e = r at h ⊢
  obtain ⟨v, s1, e1⟩ := r
  simp only at h ⊢
  simp [h]

theorem realSentinel_none (ops : FloatOps F) : realSentinel ops none = false := rfl
theorem realSentinel_some (ops : FloatOps F) (v : F) (h : ops.isRealNull v = false) : realSentinel ops (some v) = false := h

theorem scalarNodeReadAttr_integer (env : Env F) (opt : Bool) (s : IStream) :
    attrSTEPread.scalarNodeReadAttr env .integer opt s =
      .ok ((readIntegerS env.lex (some attrDelims) s .null).2.2,
           valueToAtom (intValue (readIntegerS env.lex (some attrDelims) s .null).1 : Value F),
           (readIntegerS env.lex (some attrDelims) s .null).2.1) := by
  unfold attrSTEPread.scalarNodeReadAttr
  rfl

theorem scalarNodeRead_integer (env : Env F) (s : IStream) :
    scalarNodeRead env .integer s =
      .ok ((readInteger env.lex (some attrDelims) s .null).2.2,
           valueToAtom (intValue (readInteger env.lex (some attrDelims) s .null).1 : Value F),
           (readInteger env.lex (some attrDelims) s .null).2.1) := by
  unfold scalarNodeRead
  rfl

/-- `ReadInteger` on a token of the grammar (fits `long`) followed by any layout and a delimiter -/
theorem readInteger_tok (lex : LexCfg) (hcfg : lex.criSkipsComments = true) (tok : List Byte) (htok : isInteger tok = true)
    (hlo : longMin ≤ denoteInteger tok) (hhi : denoteInteger tok ≤ longMax)
    (l : List Byte) (sk : Bool) (seps : List Byte) (hs : Seps seps) (d : Byte) (rest : List Byte) (hd : d = 44 ∨ d = 41) :
    readInteger lex (some attrDelims) (G l (tok ++ (seps ++ d :: rest)) sk) .null =
      (some (denoteInteger tok), G (seps.reverse ++ (tok.reverse ++ l)) (d :: rest) sk, .null) := by
  have hnd := seps_head_not_digit seps hs d rest hd
  have hscan := scanInt_token longMin longMax l tok (seps ++ d :: rest) htok (Or.inr hnd)
  obtain ⟨c, u, rfl, hcs, _, _, _⟩ := isInteger_head tok htok
  simp only [List.cons_append] at hscan ⊢
  simp only [readInteger]
  rw [show (G l (c :: (u ++ (seps ++ d :: rest))) sk).ws = G l (c :: (u ++ (seps ++ d :: rest))) sk from ws_good0 l c _ sk hcs]
  rw [extractLong_G l c _ sk hcs, hscan]
  have h1 : ¬ denoteInteger (c :: u) < longMin := by omega
  have h2 : ¬ denoteInteger (c :: u) > longMax := by omega
  have hne : (seps ++ d :: rest).isEmpty = false := by
    obtain ⟨x, y, hxy, _⟩ := hnd
    rw [hxy]; rfl
  have hcri := cri_seps lex hcfg seps hs ((c :: u).reverse ++ l) rest d false sk Sev.null hd
  simp only [List.reverse_cons, List.append_assoc, List.singleton_append] at hcri
  simp [h1, h2, hne, IStream.failed, Sev.warnIf, hcri]

/-- … and with the sentinel test of the repaired reader, for a value other than `S_INT_NULL` -/
theorem readIntegerS_tok (lex : LexCfg) (hcfg : lex.criSkipsComments = true) (tok : List Byte) (htok : isInteger tok = true)
    (hlo : longMin ≤ denoteInteger tok) (hhi : denoteInteger tok < longMax)
    (l : List Byte) (sk : Bool) (seps : List Byte) (hs : Seps seps) (d : Byte) (rest : List Byte) (hd : d = 44 ∨ d = 41) :
    readIntegerS lex (some attrDelims) (G l (tok ++ (seps ++ d :: rest)) sk) .null =
      (some (denoteInteger tok), G (seps.reverse ++ (tok.reverse ++ l)) (d :: rest) sk, .null) := by
  have h := readInteger_tok lex hcfg tok htok hlo (by omega) l sk seps hs d rest hd
  rw [readIntegerS_of, h]
  rw [h]
  exact intSentinel_some lex _ (by omega)

/-- an INTEGER token of the grammar whose value fits `long` and is not the in-band null: read to the value it denotes,
    no error, the stream rests at the delimiter -/
theorem attr_integer (env : Env F) (strict : Bool) (a : AttrD) (hty : a.ty = .one .integer) (hder : a.derived = false)
    (hcfg : env.lex.criSkipsComments = true) (tok : List Byte) (htok : isInteger tok = true)
    (hlo : longMin ≤ denoteInteger tok) (hhi : denoteInteger tok < longMax)
    (l : List Byte) (sk : Bool) (seps : List Byte) (hs : Seps seps)
    (d : Byte) (rest : List Byte) (hd : d = 44 ∨ d = 41) :
    attrSTEPread env strict a (G l (tok ++ (seps ++ d :: rest)) sk) =
      .ok (.null, .one (.atom (.int (denoteInteger tok))), G (seps.reverse ++ (tok.reverse ++ l)) (d :: rest) sk) := by
  have hnd := seps_head_not_digit seps hs d rest hd
  have hscan := scanInt_token longMin longMax l tok (seps ++ d :: rest) htok (Or.inr hnd)
  obtain ⟨c, u, rfl, hcs, h36, h44, h41⟩ := isInteger_head tok htok
  unfold attrSTEPread
  simp only [List.cons_append] at hscan ⊢
  rw [show (G l (c :: (u ++ (seps ++ d :: rest))) sk).ws = G l (c :: (u ++ (seps ++ d :: rest))) sk from ws_good0 l c _ sk hcs]
  simp only [bind, Except.bind, pure, Except.pure]
  rw [show (G l (c :: (u ++ (seps ++ d :: rest))) sk).peekC = (c, G l (c :: (u ++ (seps ++ d :: rest))) sk) from peekC_good l c _ sk]
  have e36 : (c == 36) = false := by simpa using h36
  have e44 : (c == 44) = false := by simpa using h44
  have e41 : (c == 41) = false := by simpa using h41
  simp only [hder, Bool.false_eq_true, if_false, e36, e44, e41, Bool.or_self, hty]
  rw [scalarNodeReadAttr_integer]
  have hr := readIntegerS_tok env.lex hcfg (c :: u) htok hlo hhi l sk seps hs d rest hd
  simp only [List.cons_append] at hr
  rw [hr]
  have h3 : (denoteInteger (c :: u) == longMax) = false := by simp; omega
  simp [intValue, h3, valueToAtom]

theorem extractInt32_G (l : List Byte) (c : Byte) (t : List Byte) (sk : Bool) (hc : isSpace c = false)
    (v : Int) (l' r' : List Byte) (hscan : scanInt longMin longMax l (c :: t) = (⟨v, false⟩, l', r'))
    (hlo : ¬ v < intMin) (hhi : ¬ v > intMax) :
    IStream.extractInt32 (G l (c :: t) sk) =
      (some v, { left := l', right := r', eof := r'.isEmpty, fail := false, bad := false, skipws := sk }) := by
  cases sk <;>
    simp [IStream.extractInt32, IStream.sentry, IStream.good, dropSpaces_nonspace _ _ _ hc, hscan, hlo, hhi]

theorem getChar_G (l : List Byte) (c : Byte) (t : List Byte) (sk : Bool) (hc : isSpace c = false) :
    IStream.getChar (G l (c :: t) sk) = (some c, G (c :: l) t sk) := by
  cases sk <;> simp [IStream.getChar, IStream.sentry, IStream.good, dropSpaces_nonspace _ _ _ hc]

theorem scalarNodeReadAttr_entity (env : Env F) (tg : String) (opt : Bool) (s : IStream) :
    attrSTEPread.scalarNodeReadAttr env (.entity tg) opt s = scalarNodeRead env (.entity tg) s := by
  unfold attrSTEPread.scalarNodeReadAttr
  rfl

theorem scalarNodeRead_entity (env : Env F) (tg : String) (s : IStream) :
    scalarNodeRead env (.entity tg) s =
      .ok ((readEntityRef env.lex (refLookup env.lookup tg) (some attrDelims) s .null).2.2,
           (match (readEntityRef env.lex (refLookup env.lookup tg) (some attrDelims) s .null).1 with
            | some id => Atom.ref id | none => Atom.unset),
           (readEntityRef env.lex (refLookup env.lookup tg) (some attrDelims) s .null).2.1) := by
  unfold scalarNodeRead
  rfl

/-- an entity reference `#digits` to an instance the manager knows and whose type conforms: read to that id, no
    error, the stream rests at the delimiter -/
theorem attr_ref (env : Env F) (strict : Bool) (a : AttrD) (tg : String) (hty : a.ty = .one (.entity tg)) (hder : a.derived = false)
    (hcfg : env.lex.criSkipsComments = true) (ds : List Byte) (hne : ds ≠ []) (hds : ds.all isDigit = true)
    (hhi : ((digitsVal ds 0 : Nat) : Int) ≤ intMax)
    (hfound : refLookup env.lookup tg ((digitsVal ds 0 : Nat) : Int) = .found)
    (l : List Byte) (sk : Bool) (seps : List Byte) (hs : Seps seps)
    (d : Byte) (rest : List Byte) (hd : d = 44 ∨ d = 41) :
    attrSTEPread env strict a (G l (35 :: (ds ++ (seps ++ d :: rest))) sk) =
      .ok (.null, .one (.atom (.ref ((digitsVal ds 0 : Nat) : Int))),
           G (seps.reverse ++ (ds.reverse ++ 35 :: l)) (d :: rest) sk) := by
  have hnd := seps_head_not_digit seps hs d rest hd
  have hint : isInteger ds = true := isInteger_unsigned ds hne hds
  have hscan := scanInt_token longMin longMax (35 :: l) ds (seps ++ d :: rest) hint (Or.inr hnd)
  have hss : splitSign ds = (false, ds) := splitSign_digits ds hne hds
  have hden : denoteInteger ds = ((digitsVal ds 0 : Nat) : Int) := by simp [denoteInteger, hss]
  obtain ⟨c, u, hcu⟩ : ∃ c u, ds = c :: u := by
    cases ds with
    | nil => exact absurd rfl hne
    | cons c u => exact ⟨c, u, rfl⟩
  have hcd : isDigit c = true := by rw [hcu] at hds; simp at hds; exact hds.1
  have hcs : isSpace c = false := digit_not_space hcd
  unfold attrSTEPread
  rw [show (G l (35 :: (ds ++ (seps ++ d :: rest))) sk).ws = G l (35 :: (ds ++ (seps ++ d :: rest))) sk from ws_good0 l 35 _ sk (by decide)]
  simp only [bind, Except.bind, pure, Except.pure]
  rw [show (G l (35 :: (ds ++ (seps ++ d :: rest))) sk).peekC = (35, G l (35 :: (ds ++ (seps ++ d :: rest))) sk) from peekC_good l 35 _ sk]
  have e36 : ((35 : Byte) == 36) = false := by decide
  have e44 : ((35 : Byte) == 44) = false := by decide
  have e41 : ((35 : Byte) == 41) = false := by decide
  simp only [hder, Bool.false_eq_true, if_false, e36, e44, e41, Bool.or_self, hty]
  rw [scalarNodeReadAttr_entity, scalarNodeRead_entity]
  simp only [readEntityRef, refTail]
  rw [show (G l (35 :: (ds ++ (seps ++ d :: rest))) sk).ws = G l (35 :: (ds ++ (seps ++ d :: rest))) sk from ws_good0 l 35 _ sk (by decide)]
  rw [getChar_G l 35 _ sk (by decide)]
  have hstream : G (35 :: l) (ds ++ (seps ++ d :: rest)) sk = G (35 :: l) (c :: (u ++ (seps ++ d :: rest))) sk := by rw [hcu]; rfl
  simp only [Option.getD_some, beq_self_eq_true, Bool.true_or, Option.isSome_some, Bool.and_self, if_true]
  have hscan' : scanInt longMin longMax (35 :: l) (c :: (u ++ (seps ++ d :: rest))) =
      (⟨((digitsVal ds 0 : Nat) : Int), false⟩, ds.reverse ++ 35 :: l, seps ++ d :: rest) := by
    have := hscan
    rw [hcu] at this
    simp only [List.cons_append] at this
    rw [this, ← hcu, hss, hden]
    have h2 : ¬ ((digitsVal ds 0 : Nat) : Int) > longMax := by
      have : intMax ≤ longMax := by decide
      omega
    simp [h2]
  have hnn : ¬ ((digitsVal ds 0 : Nat) : Int) < intMin := by
    have : intMin ≤ 0 := by decide
    omega
  have hnh : ¬ ((digitsVal ds 0 : Nat) : Int) > intMax := by omega
  rw [hstream, extractInt32_G (35 :: l) c _ sk hcs _ _ _ hscan' hnn hnh]
  have hne2 : (seps ++ d :: rest).isEmpty = false := by
    obtain ⟨x, y, hxy, _⟩ := hnd
    rw [hxy]; rfl
  have hcri := cri_seps env.lex hcfg seps hs (ds.reverse ++ 35 :: l) rest d false sk Sev.null hd
  simp [hne2, IStream.failed, hcri, hfound]

/-! ### aggregates of INTEGER -/

/-- one element of an aggregate as it stands in a file -/
structure ElemP where
  tok : List Byte
  before : List Byte
  after : List Byte

def ElemOK (e : ElemP) : Prop :=
  isInteger e.tok = true ∧ longMin ≤ denoteInteger e.tok ∧ denoteInteger e.tok < longMax ∧ Seps e.before ∧ Seps e.after

/-- the element list after the opening parenthesis, closing parenthesis included -/
def renderElems : List ElemP → List Byte
  | [] => []
  | [e] => e.before ++ (e.tok ++ (e.after ++ [41]))
  | e :: f :: es => e.before ++ (e.tok ++ (e.after ++ 44 :: renderElems (f :: es)))

def elemVal (e : ElemP) : Elem F := .atom (.int (denoteInteger e.tok))

theorem isInteger_head47 (t : List Byte) (h : isInteger t = true) : ∃ c u, t = c :: u ∧ isSpace c = false ∧ c ≠ 47 ∧ c ≠ 41 ∧ c ≠ 92 := by
  obtain ⟨c, u, hcu, hcs, _, _, h41⟩ := isInteger_head t h
  refine ⟨c, u, hcu, hcs, ?_, h41, ?_⟩
  · intro h47; subst h47
    rw [hcu] at h
    revert h
    simp [isInteger, splitSign, allDigits, isDigit]
  · intro h92; subst h92
    rw [hcu] at h
    revert h
    simp [isInteger, splitSign, allDigits, isDigit]

/-- no "missing element" verdict where a token stands -/
theorem elemMissing_tok (cfg : RWCfg) (l : List Byte) (c : Byte) (t : List Byte) (sk : Bool) (h44 : c ≠ 44) (h41 : c ≠ 41) :
    elemMissing cfg (G l (c :: t) sk) = (false, G l (c :: t) sk) := by
  unfold elemMissing
  cases cfg.aggrReportsMissingElement
  · rfl
  · have e1 : (c == 44) = false := by simpa using h44
    have e2 : (c == 41) = false := by simpa using h41
    simp [peekC_good, e1, e2]

theorem elemReadCore_integer (env : Env F) (s : IStream) :
    elemReadCore env .integer s = (do
      let (e, a, s1) ← scalarNodeRead env .integer s
      let (s2, e2) := checkRemainingInput env.lex (some attrDelims) s1 e
      pure (e2, .atom a, s2)) := rfl

theorem elemRead_int (env : Env F) (hcfg : env.lex.criSkipsComments = true) (hagg : env.cfg.aggrSkipsComments = true)
    (e : ElemP) (he : ElemOK e) (l : List Byte) (sk : Bool) (d : Byte) (rest : List Byte) (hd : d = 44 ∨ d = 41) :
    elemRead env .integer (G l (e.before ++ (e.tok ++ (e.after ++ d :: rest))) sk) =
      .ok (.null, elemVal e, G (e.after.reverse ++ (e.tok.reverse ++ (e.before.reverse ++ l))) (d :: rest) sk) := by
  obtain ⟨htok, hlo, hhi, hb, ha⟩ := he
  obtain ⟨c, u, hcu, hcs, h47, h41, h92⟩ := isInteger_head47 e.tok htok
  have h44 : c ≠ 44 := by
    obtain ⟨c', u', hcu', _, _, h44', _⟩ := isInteger_head e.tok htok
    rw [hcu] at hcu'
    cases hcu'
    exact h44'
  unfold elemRead
  simp only [hagg, if_true, bind, Except.bind, pure, Except.pure]
  have e1 : e.before ++ (e.tok ++ (e.after ++ d :: rest)) = e.before ++ c :: (u ++ (e.after ++ d :: rest)) := by rw [hcu]; simp
  rw [e1, readTokenSeparator_seps e.before hb l c _ sk hcs h47 h92, elemMissing_tok env.cfg _ c _ sk h44 h41]
  simp only [Bool.false_eq_true, if_false]
  have e2 : c :: (u ++ (e.after ++ d :: rest)) = e.tok ++ (e.after ++ d :: rest) := by rw [hcu]; simp
  rw [e2, elemReadCore_integer]
  simp only [bind, Except.bind, pure, Except.pure]
  rw [scalarNodeRead_integer]
  rw [readInteger_tok env.lex hcfg e.tok htok hlo (by omega) (e.before.reverse ++ l) sk e.after ha d rest hd]
  have h3 : (denoteInteger e.tok == longMax) = false := by simp; omega
  have hcri := cri_seps env.lex hcfg [] (Seps.blanks [] (by simp)) (e.after.reverse ++ (e.tok.reverse ++ (e.before.reverse ++ l))) rest d false sk Sev.null hd
  simp only [List.nil_append, List.reverse_nil] at hcri
  simp [intValue, h3, valueToAtom, elemVal, hcri]

theorem aggrLoop_done (env : Env F) (n : Nat) (err : Sev) (acc : List (Elem F)) (s : IStream) :
    aggrLoop env .integer (n + 1) err acc 41 s = .ok (err, some acc, s) := by
  unfold aggrLoop
  simp [pure, Except.pure]

theorem G_good (l r : List Byte) (sk : Bool) : (G l r sk).good = true := rfl

theorem aggrLoop_ints (env : Env F) (hcfg : env.lex.criSkipsComments = true) (hagg : env.cfg.aggrSkipsComments = true)
    (es : List ElemP) (hne : es ≠ []) (hok : ∀ e ∈ es, ElemOK e) :
    ∀ (fuel : Nat) (acc : List (Elem F)) (c : Byte) (l : List Byte) (sk : Bool) (rest : List Byte),
      es.length + 1 ≤ fuel → c ≠ 41 →
      aggrLoop env .integer fuel .null acc c (G l (renderElems es ++ rest) sk) =
        .ok (.null, some (acc ++ es.map elemVal), G ((renderElems es).reverse ++ l) rest sk) := by
  induction es with
  | nil => exact absurd rfl hne
  | cons e fs ih =>
    intro fuel acc c l sk rest hf hc
    have he := hok e (by simp)
    have hc' : (c != 41) = true := by simpa using hc
    cases fuel with
    | zero => omega
    | succ n =>
      cases fs with
      | nil =>
        cases n with
        | zero => simp at hf
        | succ m =>
          unfold aggrLoop
          simp only [G_good, hc', Bool.and_self, if_true, bind, Except.bind, pure, Except.pure, renderElems]
          have e1 : e.before ++ (e.tok ++ (e.after ++ [41])) ++ rest = e.before ++ (e.tok ++ (e.after ++ 41 :: rest)) := by simp
          rw [e1, elemRead_int env hcfg hagg e he l sk 41 rest (Or.inr rfl)]
          simp only
          rw [show (G (e.after.reverse ++ (e.tok.reverse ++ (e.before.reverse ++ l))) (41 :: rest) sk).ws =
            G (e.after.reverse ++ (e.tok.reverse ++ (e.before.reverse ++ l))) (41 :: rest) sk from ws_good0 _ 41 rest sk (by decide)]
          rw [show getInto c (G (e.after.reverse ++ (e.tok.reverse ++ (e.before.reverse ++ l))) (41 :: rest) sk) =
            (41, G (41 :: (e.after.reverse ++ (e.tok.reverse ++ (e.before.reverse ++ l)))) rest sk) from getInto_good c _ 41 rest sk]
          have hx : (Sev.null.toInt < Sev.incomplete.toInt) = False := by decide
          simp only [hx, if_false, bne_self_eq_false, Bool.and_false, Bool.false_and, Bool.false_eq_true]
          rw [aggrLoop_done]
          simp
      | cons f gs =>
        have hlen : (f :: gs).length + 1 ≤ n := by simp only [List.length_cons] at hf ⊢; omega
        unfold aggrLoop
        simp only [G_good, hc', Bool.and_self, if_true, bind, Except.bind, pure, Except.pure, renderElems]
        have e1 : e.before ++ (e.tok ++ (e.after ++ 44 :: renderElems (f :: gs))) ++ rest =
            e.before ++ (e.tok ++ (e.after ++ 44 :: (renderElems (f :: gs) ++ rest))) := by simp
        rw [e1, elemRead_int env hcfg hagg e he l sk 44 _ (Or.inl rfl)]
        simp only
        rw [show (G (e.after.reverse ++ (e.tok.reverse ++ (e.before.reverse ++ l))) (44 :: (renderElems (f :: gs) ++ rest)) sk).ws =
          G (e.after.reverse ++ (e.tok.reverse ++ (e.before.reverse ++ l))) (44 :: (renderElems (f :: gs) ++ rest)) sk
          from ws_good0 _ 44 _ sk (by decide)]
        rw [show getInto c (G (e.after.reverse ++ (e.tok.reverse ++ (e.before.reverse ++ l))) (44 :: (renderElems (f :: gs) ++ rest)) sk) =
          (44, G (44 :: (e.after.reverse ++ (e.tok.reverse ++ (e.before.reverse ++ l)))) (renderElems (f :: gs) ++ rest) sk)
          from getInto_good c _ 44 _ sk]
        have hx : (Sev.null.toInt < Sev.incomplete.toInt) = False := by decide
        have h44 : ((44 : Byte) != 44) = false := by decide
        simp only [hx, if_false, h44, Bool.false_and, Bool.false_eq_true]
        rw [ih (by simp) (fun x hx => hok x (by simp [hx])) n (acc ++ [elemVal e]) 44 _ sk rest hlen (by decide)]
        simp

theorem renderElems_cons (e : ElemP) (fs : List ElemP) :
    renderElems (e :: fs) = e.before ++ renderElems ({ e with before := [] } :: fs) := by
  cases fs <;> simp [renderElems]

theorem renderElems_length (es : List ElemP) (hok : ∀ e ∈ es, ElemOK e) : es.length ≤ (renderElems es).length := by
  induction es with
  | nil => simp
  | cons e fs ih =>
    have htok : 1 ≤ e.tok.length := by
      obtain ⟨c, u, hcu, _⟩ := isInteger_head e.tok (hok e (by simp)).1
      rw [hcu]; simp
    have := ih (fun x hx => hok x (by simp [hx]))
    cases fs with
    | nil => simp only [renderElems, List.length_append, List.length_cons, List.length_nil]; omega
    | cons f gs => simp only [renderElems, List.length_append, List.length_cons] at this ⊢; omega

/-- `STEPaggregate::ReadValue` on `( e₁ , … , eₙ )`, n ≥ 1, INTEGER elements, any layout around every element -/
theorem aggrRead_ints (env : Env F) (hcfg : env.lex.criSkipsComments = true) (hagg : env.cfg.aggrSkipsComments = true)
    (es : List ElemP) (hne : es ≠ []) (hok : ∀ e ∈ es, ElemOK e) (l : List Byte) (sk : Bool) (rest : List Byte) :
    aggrRead env .integer (G l (40 :: (renderElems es ++ rest)) sk) =
      .ok (.null, some (es.map elemVal), G ((40 :: renderElems es).reverse ++ l) rest sk) := by
  cases es with
  | nil => exact absurd rfl hne
  | cons e fs =>
    obtain ⟨htok, hlo, hhi, hb, ha⟩ := hok e (by simp)
    obtain ⟨c0, u0, hcu, hcs, h47, h41, h92⟩ := isInteger_head47 e.tok htok
    let e' : ElemP := { e with before := [] }
    have hok' : ∀ x ∈ e' :: fs, ElemOK x := by
      intro x hx
      rcases List.mem_cons.mp hx with rfl | hx
      · exact ⟨htok, hlo, hhi, Seps.blanks [] (by simp), ha⟩
      · exact hok x (by simp [hx])
    have hhead : ∃ u1, renderElems (e' :: fs) ++ rest = c0 :: u1 := by
      cases fs with
      | nil => exact ⟨u0 ++ (e.after ++ 41 :: rest), by simp [renderElems, e', hcu]⟩
      | cons f gs => exact ⟨u0 ++ (e.after ++ 44 :: (renderElems (f :: gs) ++ rest)), by simp [renderElems, e', hcu]⟩
    obtain ⟨u1, h1⟩ := hhead
    unfold aggrRead
    rw [show (G l (40 :: (renderElems (e :: fs) ++ rest)) sk).ws = G l (40 :: (renderElems (e :: fs) ++ rest)) sk
      from ws_good0 l 40 _ sk (by decide)]
    simp only [bind, Except.bind, pure, Except.pure]
    rw [show (G l (40 :: (renderElems (e :: fs) ++ rest)) sk).peekC = (40, G l (40 :: (renderElems (e :: fs) ++ rest)) sk)
      from peekC_good l 40 _ sk]
    have x1 : ((40 : Byte) == 36) = false := by decide
    have x2 : ((40 : Byte) != 40) = false := by decide
    simp only [x1, Bool.or_false, x2, Bool.false_eq_true, if_false]
    rw [show getInto 40 (G l (40 :: (renderElems (e :: fs) ++ rest)) sk) = (40, G (40 :: l) (renderElems (e :: fs) ++ rest) sk)
      from getInto_good 40 l 40 _ sk]
    simp only [hagg, if_true]
    have e1 : renderElems (e :: fs) ++ rest = e.before ++ c0 :: u1 := by
      rw [renderElems_cons, List.append_assoc, h1]
    rw [e1, readTokenSeparator_seps e.before hb (40 :: l) c0 u1 sk hcs h47 h92]
    rw [show (G (e.before.reverse ++ 40 :: l) (c0 :: u1) sk).peekC = (c0, G (e.before.reverse ++ 40 :: l) (c0 :: u1) sk)
      from peekC_good _ c0 u1 sk]
    have x3 : (c0 == 41) = false := by simpa using h41
    simp only [x3, Bool.false_eq_true, if_false]
    rw [← h1]
    have hlen := renderElems_length (e' :: fs) hok'
    rw [aggrLoop_ints env hcfg hagg (e' :: fs) (by simp) hok' _ [] c0 (e.before.reverse ++ 40 :: l) sk rest
      (by simp only [List.length_append] at hlen ⊢; omega) h41]
    simp [renderElems_cons e fs, e']
    rfl

/-- `STEPaggregate::ReadValue` on the empty aggregate `( seps )` -/
theorem aggrRead_empty (env : Env F) (hagg : env.cfg.aggrSkipsComments = true)
    (seps : List Byte) (hs : Seps seps) (l : List Byte) (sk : Bool) (rest : List Byte) :
    aggrRead env .integer (G l (40 :: (seps ++ 41 :: rest)) sk) =
      .ok (.null, some [], G (41 :: (seps.reverse ++ 40 :: l)) rest sk) := by
  unfold aggrRead
  rw [show (G l (40 :: (seps ++ 41 :: rest)) sk).ws = G l (40 :: (seps ++ 41 :: rest)) sk from ws_good0 l 40 _ sk (by decide)]
  simp only [bind, Except.bind, pure, Except.pure]
  rw [show (G l (40 :: (seps ++ 41 :: rest)) sk).peekC = (40, G l (40 :: (seps ++ 41 :: rest)) sk) from peekC_good l 40 _ sk]
  have x1 : ((40 : Byte) == 36) = false := by decide
  have x2 : ((40 : Byte) != 40) = false := by decide
  have heof : (G l (40 :: (seps ++ 41 :: rest)) sk).eof = false := rfl
  simp only [x1, Bool.or_false, x2, Bool.false_eq_true, if_false, heof]
  rw [show getInto 40 (G l (40 :: (seps ++ 41 :: rest)) sk) = (40, G (40 :: l) (seps ++ 41 :: rest) sk) from getInto_good 40 l 40 _ sk]
  simp only [hagg, if_true]
  rw [readTokenSeparator_seps seps hs (40 :: l) 41 rest sk (by decide) (by decide)]
  rw [show (G (seps.reverse ++ 40 :: l) (41 :: rest) sk).peekC = (41, G (seps.reverse ++ 40 :: l) (41 :: rest) sk) from peekC_good _ 41 rest sk]
  simp only [beq_self_eq_true, if_true]
  rw [show getInto 41 (G (seps.reverse ++ 40 :: l) (41 :: rest) sk) = (41, G (41 :: (seps.reverse ++ 40 :: l)) rest sk)
    from getInto_good 41 _ 41 rest sk]
  simp only
  rw [show (G (41 :: (seps.reverse ++ 40 :: l)) rest sk).right.length + 2 = (rest.length + 1) + 1 from rfl, aggrLoop_done]

/-- the text of an aggregate of INTEGER: `( e₁ , … , eₙ )` or `( seps )` -/
def aggrText (es : List ElemP) (inner : List Byte) : List Byte :=
  match es with
  | [] => 40 :: (inner ++ [41])
  | _ => 40 :: renderElems es

/-- an aggregate-of-INTEGER attribute: every element read to its value, any layout inside and after -/
theorem attr_aggr_int (env : Env F) (strict : Bool) (a : AttrD) (hty : a.ty = .aggr .integer) (hder : a.derived = false)
    (hcfg : env.lex.criSkipsComments = true) (hagg : env.cfg.aggrSkipsComments = true)
    (es : List ElemP) (inner : List Byte) (hok : ∀ e ∈ es, ElemOK e) (hin : Seps inner)
    (l : List Byte) (sk : Bool) (seps : List Byte) (hs : Seps seps) (d : Byte) (rest : List Byte) (hd : d = 44 ∨ d = 41) :
    attrSTEPread env strict a (G l (aggrText es inner ++ (seps ++ d :: rest)) sk) =
      .ok (.null, .aggr (es.map elemVal), G (seps.reverse ++ ((aggrText es inner).reverse ++ l)) (d :: rest) sk) := by
  have hread : aggrRead env .integer (G l (aggrText es inner ++ (seps ++ d :: rest)) sk) =
      .ok (.null, some (es.map elemVal), G ((aggrText es inner).reverse ++ l) (seps ++ d :: rest) sk) := by
    cases es with
    | nil =>
      have := aggrRead_empty env hagg inner hin l sk (seps ++ d :: rest)
      simp only [aggrText, List.cons_append, List.append_assoc, List.singleton_append, List.nil_append] at this ⊢
      rw [this]
      simp
    | cons e fs =>
      have := aggrRead_ints env hcfg hagg (e :: fs) (by simp) hok l sk (seps ++ d :: rest)
      simp only [aggrText, List.cons_append] at this ⊢
      rw [this]
  have hhead : ∃ u, aggrText es inner ++ (seps ++ d :: rest) = 40 :: u := by
    cases es <;> exact ⟨_, rfl⟩
  obtain ⟨u, hu⟩ := hhead
  unfold attrSTEPread
  rw [hu, show (G l (40 :: u) sk).ws = G l (40 :: u) sk from ws_good0 l 40 u sk (by decide)]
  simp only [bind, Except.bind, pure, Except.pure]
  rw [show (G l (40 :: u) sk).peekC = (40, G l (40 :: u) sk) from peekC_good l 40 u sk]
  have e36 : ((40 : Byte) == 36) = false := by decide
  have e44 : ((40 : Byte) == 44) = false := by decide
  have e41 : ((40 : Byte) == 41) = false := by decide
  simp only [hder, Bool.false_eq_true, if_false, e36, e44, e41, Bool.or_self, hty]
  rw [← hu, hread]
  have hx : (Sev.null.toInt < Sev.warning.toInt) = False := by decide
  simp only [hx, if_false]
  rw [cri_seps env.lex hcfg seps hs _ rest d false sk .null hd]

/-! ### STRING -/

theorem seps_head_not_apos (seps : List Byte) (hs : Seps seps) (d : Byte) (rest : List Byte) (hd : d = 44 ∨ d = 41) :
    ∃ c u, seps ++ d :: rest = c :: u ∧ c ≠ 39 := by
  obtain ⟨c, u, h, hc⟩ : ∃ c u, seps ++ d :: rest = c :: u ∧ (isSpace c = true ∨ c = 47 ∨ c = 44 ∨ c = 41) := by
    cases hs with
    | blanks _ hsp =>
      cases seps with
      | nil => exact ⟨d, rest, rfl, by rcases hd with rfl | rfl <;> simp⟩
      | cons x sp' => exact ⟨x, sp' ++ d :: rest, rfl, Or.inl (by simp at hsp; exact hsp.1)⟩
    | comment sp body t hsp hb ht =>
      cases sp with
      | nil => exact ⟨47, _, rfl, Or.inr (Or.inl rfl)⟩
      | cons x sp' => exact ⟨x, _, rfl, Or.inl (by simp at hsp; exact hsp.1)⟩
  refine ⟨c, u, h, ?_⟩
  intro e; subst e
  rcases hc with h1 | h1 | h1 | h1 <;> revert h1 <;> decide

theorem scalarNodeRead_string (env : Env F) (s : IStream) :
    scalarNodeRead env .string s =
      .ok ((stringRead s .null).2.2, (if (stringRead s .null).1.isEmpty then Atom.unset else Atom.str (stringRead s .null).1),
           (stringRead s .null).2.1) := by
  unfold scalarNodeRead
  rfl

/-- `SDAI_String::STEPread` on a literal of the string grammar standing anywhere: the literal itself (encoded form), no
    error; the stream's `skipws` flag is left switched off -/
theorem stringRead_tok (b : List Byte) (hb : StringBody b) (l : List Byte) (sk : Bool) (c : Byte) (u : List Byte) (hc : c ≠ 39) :
    stringRead (G l (39 :: (b ++ 39 :: c :: u)) sk) .null =
      (39 :: (b ++ [39]), G (39 :: (b.reverse ++ 39 :: l)) (c :: u) false, .null) := by
  obtain ⟨e1, e2⟩ := litLoop_body b hb [39] (39 :: c :: u) rfl
  have hll : litLoop [39] true (b ++ 39 :: c :: u) = (39 :: (b.reverse ++ [39]), c :: u, false, false) := by
    rw [e1, litLoop_quote, e2]
    simp only [Bool.false_eq_true, if_false, Bool.not_true]
    have : (c == 39) = false := by simpa using hc
    simp [litLoop, this]
  simp only [stringRead, IStream.setSkipws, getLiteralStr, ws_good0 _ _ _ _ (show isSpace 39 = false from by decide),
    IStream.good, Bool.not_false, Bool.and_self, Bool.not_true, beq_self_eq_true, if_true, hll, Bool.false_eq_true, if_false]
  simp

/-- a STRING attribute: any literal of the string grammar (every control directive, in any position) -/
theorem attr_string (env : Env F) (strict : Bool) (a : AttrD) (hty : a.ty = .one .string) (hder : a.derived = false)
    (hcfg : env.lex.criSkipsComments = true) (b : List Byte) (hb : StringBody b)
    (l : List Byte) (sk : Bool) (seps : List Byte) (hs : Seps seps) (d : Byte) (rest : List Byte) (hd : d = 44 ∨ d = 41) :
    attrSTEPread env strict a (G l (39 :: (b ++ [39]) ++ (seps ++ d :: rest)) sk) =
      .ok (.null, .one (.atom (.str (39 :: (b ++ [39])))),
           G (seps.reverse ++ ((39 :: (b ++ [39])).reverse ++ l)) (d :: rest) false) := by
  obtain ⟨c, u, hcu, hc39⟩ := seps_head_not_apos seps hs d rest hd
  have hshape : 39 :: (b ++ [39]) ++ (seps ++ d :: rest) = 39 :: (b ++ 39 :: c :: u) := by rw [← hcu]; simp
  unfold attrSTEPread
  rw [hshape, show (G l (39 :: (b ++ 39 :: c :: u)) sk).ws = G l (39 :: (b ++ 39 :: c :: u)) sk from ws_good0 l 39 _ sk (by decide)]
  simp only [bind, Except.bind, pure, Except.pure]
  rw [show (G l (39 :: (b ++ 39 :: c :: u)) sk).peekC = (39, G l (39 :: (b ++ 39 :: c :: u)) sk) from peekC_good l 39 _ sk]
  have e36 : ((39 : Byte) == 36) = false := by decide
  have e44 : ((39 : Byte) == 44) = false := by decide
  have e41 : ((39 : Byte) == 41) = false := by decide
  simp only [hder, Bool.false_eq_true, if_false, e36, e44, e41, Bool.or_self, hty]
  unfold attrSTEPread.scalarNodeReadAttr
  simp only [bind, Except.bind, pure, Except.pure]
  rw [scalarNodeRead_string, stringRead_tok b hb l sk c u hc39]
  simp only
  have hcri := cri_seps env.lex hcfg seps hs (39 :: (b.reverse ++ 39 :: l)) rest d false false .null hd
  rw [← hcu, hcri]
  simp

/-! ### ENUMERATION / BOOLEAN / LOGICAL -/

/-- `SDAI_Enum::STEPread` on `.` word `.` standing anywhere, the upper-cased word being item `i` of the kind's table (not
    the unset slot), followed by a character that is not a word character: item `i`, no error -/
theorem enumRead_tok (lex : LexCfg) (k : EnumKind) (optional : Bool) (name : List Byte) (i : Nat)
    (hne : name ≠ []) (hname : name.all pw = true) (hfind : findName k.table (name.map toUpper) = some i)
    (hset : k.isUnsetIdx i = false) (l : List Byte) (sk : Bool) (R : List Byte) :
    enumRead lex k optional (G l (46 :: (name ++ 46 :: R)) sk) .null =
      (some i, G (46 :: (name.reverse ++ 46 :: l)) R sk, .null) := by
  obtain ⟨n0, nu, rfl⟩ : ∃ n0 nu, name = n0 :: nu := by
    cases name with
    | nil => exact absurd rfl hne
    | cons n0 nu => exact ⟨n0, nu, rfl⟩
  obtain ⟨w, rst, h1, h2, h3⟩ := enumWord_spec n0 (46 :: l) (nu ++ 46 :: R) sk
  have hsplit : (n0 :: nu) ++ (46 :: R) = w ++ rst := by simpa using h1
  have hrst : rst = [] ∨ ∃ c t, rst = c :: t ∧ pw c = false := by
    rcases h3 with ⟨hw, hp, _⟩ | ⟨_, hr, _⟩ | ⟨_, u, hr, _⟩ | ⟨_, x, u, hr, _, hx, _⟩
    · subst hw; simp at h1; exact Or.inr ⟨n0, _, h1.symm, hp⟩
    · exact Or.inl hr
    · exact Or.inr ⟨46, u, hr, pw_not_dot⟩
    · exact Or.inr ⟨x, u, hr, hx⟩
  obtain ⟨ew, er⟩ := prefix_unique pw (n0 :: nu) w (46 :: R) rst hsplit hname h2
    (Or.inr ⟨46, _, rfl, pw_not_dot⟩) hrst
  subst ew er
  have hsw : enumWord n0 { left := n0 :: 46 :: l, right := nu ++ 46 :: R, eof := false, fail := false, bad := false, skipws := sk } =
      (n0 :: nu, 46, { left := 46 :: ((n0 :: nu).reverse ++ 46 :: l), right := R, eof := false, fail := false, bad := false, skipws := sk }) := by
    rcases h3 with ⟨hw, _, _⟩ | ⟨_, hr, _⟩ | ⟨_, u, hr, he⟩ | ⟨_, x, u, hr, hxq, _, _⟩
    · cases hw
    · cases hr
    · simp only [List.cons.injEq, true_and] at hr; subst hr; exact he
    · simp only [List.cons.injEq] at hr; exact absurd hr.1.symm hxq
  have hfin : enumFinish lex k true false (n0 :: nu) 46 Sev.null = (some i, Sev.null) := by
    simp only [List.map_cons] at hfind
    simp [enumFinish, hfind, hset, Sev.warnIf]
  simp only [enumRead, readEnum, List.cons_append, ws_good0 _ _ _ _ (show isSpace 46 = false from by decide), IStream.good,
    Bool.not_false, Bool.and_self, Bool.not_true, Bool.false_eq_true, if_false, getInto_good, beq_self_eq_true, Bool.true_or,
    if_true, hsw, List.isEmpty_cons, hfin]
  simp

def enumKindOf : ElemTy → EnumKind
  | .boolean => .boolean
  | .logical => .logical
  | .enum items => .enum items
  | _ => .boolean

def EnumTy (ty : ElemTy) : Prop := ty = .boolean ∨ ty = .logical ∨ ∃ items, ty = .enum items

theorem scalarNodeReadAttr_enum (env : Env F) (ty : ElemTy) (hty : EnumTy ty) (opt : Bool) (s : IStream) :
    attrSTEPread.scalarNodeReadAttr env ty opt s =
      .ok ((checkRemainingInput env.lex (some attrDelims) (enumRead env.lex (enumKindOf ty) opt s .null).2.1
              (enumRead env.lex (enumKindOf ty) opt s .null).2.2).2,
           valueToAtom (enumValue (enumKindOf ty) (enumRead env.lex (enumKindOf ty) opt s .null).1 : Value F),
           (checkRemainingInput env.lex (some attrDelims) (enumRead env.lex (enumKindOf ty) opt s .null).2.1
              (enumRead env.lex (enumKindOf ty) opt s .null).2.2).1) := by
  rcases hty with rfl | rfl | ⟨items, rfl⟩ <;> (unfold attrSTEPread.scalarNodeReadAttr; rfl)

/-- an ENUMERATION / BOOLEAN / LOGICAL attribute: `.` item `.` for a declared item -/
theorem attr_enum (env : Env F) (strict : Bool) (a : AttrD) (ty : ElemTy) (hty : a.ty = .one ty) (het : EnumTy ty)
    (hder : a.derived = false) (hcfg : env.lex.criSkipsComments = true)
    (name : List Byte) (i : Nat) (hne : name ≠ []) (hname : name.all pw = true)
    (hfind : findName (enumKindOf ty).table (name.map toUpper) = some i) (hset : (enumKindOf ty).isUnsetIdx i = false)
    (l : List Byte) (sk : Bool) (seps : List Byte) (hs : Seps seps) (d : Byte) (rest : List Byte) (hd : d = 44 ∨ d = 41) :
    attrSTEPread env strict a (G l (46 :: (name ++ [46]) ++ (seps ++ d :: rest)) sk) =
      .ok (.null, .one (.atom (.enum i)), G (seps.reverse ++ ((46 :: (name ++ [46])).reverse ++ l)) (d :: rest) sk) := by
  have hshape : 46 :: (name ++ [46]) ++ (seps ++ d :: rest) = 46 :: (name ++ 46 :: (seps ++ d :: rest)) := by simp
  unfold attrSTEPread
  rw [hshape, show (G l (46 :: (name ++ 46 :: (seps ++ d :: rest))) sk).ws = G l (46 :: (name ++ 46 :: (seps ++ d :: rest))) sk
    from ws_good0 l 46 _ sk (by decide)]
  simp only [bind, Except.bind, pure, Except.pure]
  rw [show (G l (46 :: (name ++ 46 :: (seps ++ d :: rest))) sk).peekC = (46, G l (46 :: (name ++ 46 :: (seps ++ d :: rest))) sk)
    from peekC_good l 46 _ sk]
  have e36 : ((46 : Byte) == 36) = false := by decide
  have e44 : ((46 : Byte) == 44) = false := by decide
  have e41 : ((46 : Byte) == 41) = false := by decide
  simp only [hder, Bool.false_eq_true, if_false, e36, e44, e41, Bool.or_self, hty]
  have hns : (match ty with | .select n => (none : Option Unit) | _ => some ()) = some () := by
    rcases het with rfl | rfl | ⟨items, rfl⟩ <;> rfl
  have hmain : attrSTEPread.scalarNodeReadAttr env ty a.optional (G l (46 :: (name ++ 46 :: (seps ++ d :: rest))) sk) =
      .ok (.null, .enum i, G (seps.reverse ++ (46 :: (name.reverse ++ 46 :: l))) (d :: rest) sk) := by
    rw [scalarNodeReadAttr_enum env ty het, enumRead_tok env.lex (enumKindOf ty) a.optional name i hne hname hfind hset l sk _]
    simp only
    rw [cri_seps env.lex hcfg seps hs _ rest d false sk .null hd]
    simp [enumValue, hset, valueToAtom]
  rcases het with rfl | rfl | ⟨items, rfl⟩ <;> (simp only [] ; rw [hmain]; simp)

/-! ### BINARY -/

theorem readBinary_tok (lex : LexCfg) (hex : List Byte) (hne : hex ≠ []) (hhex : hex.all isXDigit = true)
    (l : List Byte) (sk : Bool) (R : List Byte) :
    readBinary lex true (G l (34 :: (hex ++ 34 :: R)) sk) .null = (hex, G (34 :: (hex.reverse ++ 34 :: l)) R sk, .null) := by
  obtain ⟨h0, hu, rfl⟩ : ∃ h0 hu, hex = h0 :: hu := by
    cases hex with
    | nil => exact absurd rfl hne
    | cons h0 hu => exact ⟨h0, hu, rfl⟩
  obtain ⟨w, rst, h1, h2, h3⟩ := scanWord_spec isXDigit 34 h0 (34 :: l) (hu ++ 34 :: R) sk
  have hsplit : (h0 :: hu) ++ (34 :: R) = w ++ rst := by simpa using h1
  have hrst : rst = [] ∨ ∃ c t, rst = c :: t ∧ isXDigit c = false := by
    rcases h3 with ⟨hw, hp, _⟩ | ⟨_, hr, _⟩ | ⟨_, u, hr, hq, _⟩ | ⟨_, x, u, hr, _, hx, _⟩
    · subst hw; simp at h1; exact Or.inr ⟨h0, _, h1.symm, hp⟩
    · exact Or.inl hr
    · exact Or.inr ⟨34, u, hr, hq⟩
    · exact Or.inr ⟨x, u, hr, hx⟩
  obtain ⟨ew, er⟩ := prefix_unique isXDigit (h0 :: hu) w (34 :: R) rst hsplit hhex h2
    (Or.inr ⟨34, _, rfl, by decide⟩) hrst
  subst ew er
  have hsw : scanWord isXDigit 34 h0 { left := h0 :: 34 :: l, right := hu ++ 34 :: R, eof := false, fail := false, bad := false, skipws := sk } =
      (h0 :: hu, 34, { left := 34 :: ((h0 :: hu).reverse ++ 34 :: l), right := R, eof := false, fail := false, bad := false, skipws := sk }) := by
    rcases h3 with ⟨hw, _, _⟩ | ⟨_, hr, _⟩ | ⟨_, u, hr, _, he⟩ | ⟨_, x, u, hr, hxq, _, _⟩
    · cases hw
    · cases hr
    · simp only [List.cons.injEq, true_and] at hr; subst hr; exact he
    · simp only [List.cons.injEq] at hr; exact absurd hr.1.symm hxq
  simp only [readBinary, List.cons_append, ws_good0 _ _ _ _ (show isSpace 34 = false from by decide), IStream.good, Bool.not_false,
    Bool.and_self, Bool.not_true, getInto_good, beq_self_eq_true, Bool.true_or, if_true, hsw, Bool.false_eq_true, if_false]
  simp [Sev.warnIf]

theorem scalarNodeRead_binary (env : Env F) (s : IStream) :
    scalarNodeRead env .binary s =
      .ok ((readBinary env.lex true s .null).2.2,
           (if (readBinary env.lex true s .null).1.isEmpty then Atom.unset else Atom.bin (readBinary env.lex true s .null).1),
           (readBinary env.lex true s .null).2.1) := by
  unfold scalarNodeRead
  rfl

/-- a BINARY attribute: `"` hexadecimal digits `"` -/
theorem attr_binary (env : Env F) (strict : Bool) (a : AttrD) (hty : a.ty = .one .binary) (hder : a.derived = false)
    (hcfg : env.lex.criSkipsComments = true) (hex : List Byte) (hne : hex ≠ []) (hhex : hex.all isXDigit = true)
    (l : List Byte) (sk : Bool) (seps : List Byte) (hs : Seps seps) (d : Byte) (rest : List Byte) (hd : d = 44 ∨ d = 41) :
    attrSTEPread env strict a (G l (34 :: (hex ++ [34]) ++ (seps ++ d :: rest)) sk) =
      .ok (.null, .one (.atom (.bin hex)), G (seps.reverse ++ ((34 :: (hex ++ [34])).reverse ++ l)) (d :: rest) sk) := by
  have hshape : 34 :: (hex ++ [34]) ++ (seps ++ d :: rest) = 34 :: (hex ++ 34 :: (seps ++ d :: rest)) := by simp
  unfold attrSTEPread
  rw [hshape, show (G l (34 :: (hex ++ 34 :: (seps ++ d :: rest))) sk).ws = G l (34 :: (hex ++ 34 :: (seps ++ d :: rest))) sk
    from ws_good0 l 34 _ sk (by decide)]
  simp only [bind, Except.bind, pure, Except.pure]
  rw [show (G l (34 :: (hex ++ 34 :: (seps ++ d :: rest))) sk).peekC = (34, G l (34 :: (hex ++ 34 :: (seps ++ d :: rest))) sk)
    from peekC_good l 34 _ sk]
  have e36 : ((34 : Byte) == 36) = false := by decide
  have e44 : ((34 : Byte) == 44) = false := by decide
  have e41 : ((34 : Byte) == 41) = false := by decide
  simp only [hder, Bool.false_eq_true, if_false, e36, e44, e41, Bool.or_self, hty]
  unfold attrSTEPread.scalarNodeReadAttr
  simp only [bind, Except.bind, pure, Except.pure]
  rw [scalarNodeRead_binary, readBinary_tok env.lex hex hne hhex l sk _]
  simp only
  rw [cri_seps env.lex hcfg seps hs _ rest d false sk .null hd]
  have : hex.isEmpty = false := by cases hex <;> simp_all
  simp [this]

/-! ### REAL -/

theorem seps_realCont (seps : List Byte) (hs : Seps seps) (d : Byte) (rest : List Byte) (hd : d = 44 ∨ d = 41) :
    RealCont (seps ++ d :: rest) := by
  obtain ⟨c, u, h, hc⟩ : ∃ c u, seps ++ d :: rest = c :: u ∧ (isSpace c = true ∨ c = 47 ∨ c = 44 ∨ c = 41) := by
    cases hs with
    | blanks _ hsp =>
      cases seps with
      | nil => exact ⟨d, rest, rfl, by rcases hd with rfl | rfl <;> simp⟩
      | cons x sp' => exact ⟨x, sp' ++ d :: rest, rfl, Or.inl (by simp at hsp; exact hsp.1)⟩
    | comment sp body t hsp hb ht =>
      cases sp with
      | nil => exact ⟨47, _, rfl, Or.inr (Or.inl rfl)⟩
      | cons x sp' => exact ⟨x, _, rfl, Or.inl (by simp at hsp; exact hsp.1)⟩
  refine Or.inr ⟨c, u, h, ?_, ?_, ?_⟩
  · rcases hc with h1 | rfl | rfl | rfl
    · exact space_not_digit h1
    · decide
    · decide
    · decide
  · intro e; subst e; rcases hc with h1 | h1 | h1 | h1 <;> revert h1 <;> decide
  · intro e; subst e; rcases hc with h1 | h1 | h1 | h1 <;> revert h1 <;> decide

/-- `ReadReal` on a token of the grammar `real` whose denotation converts, standing anywhere, followed by any layout and a
    delimiter: exactly that double, no error, the stream rests at the delimiter -/
theorem readReal_tok (ops : FloatOps F) (lex : LexCfg) (hcfg : lex.criSkipsComments = true)
    (tok : List Byte) (dec : Decimal) (v : F) (htok : isReal tok = true) (hden : denoteReal tok = some dec)
    (hv : ops.ofDecimal dec = some v) (hbuf : lex.realBuf = 0 ∨ tok.length < lex.realBuf)
    (l : List Byte) (sk : Bool) (seps : List Byte) (hs : Seps seps) (d : Byte) (rest : List Byte) (hd : d = 44 ∨ d = 41) :
    readReal ops lex (some attrDelims) (G l (tok ++ (seps ++ d :: rest)) sk) .null =
      .ok (some v, G (seps.reverse ++ (tok.reverse ++ l)) (d :: rest) sk, .null) := by
  obtain ⟨sg, ip, fp, ex, rfl, hsg, hip1, hip, hfp, hex⟩ := isReal_shape tok htok
  obtain ⟨c, u, hcu, hcs⟩ : ∃ c u, realText sg ip fp 69 ex = c :: u ∧ isSpace c = false := by
    obtain ⟨i0, iu, rfl⟩ : ∃ i0 iu, ip = i0 :: iu := by
      cases ip with
      | nil => exact absurd rfl hip1
      | cons i0 iu => exact ⟨i0, iu, rfl⟩
    have hi0 : isDigit i0 = true := by simp at hip; exact hip.1
    rcases hsg with rfl | rfl | rfl
    · exact ⟨i0, iu ++ 46 :: (fp ++ exText 69 ex), by simp [realText], digit_not_space hi0⟩
    · exact ⟨43, i0 :: (iu ++ 46 :: (fp ++ exText 69 ex)), by simp [realText], by decide⟩
    · exact ⟨45, i0 :: (iu ++ 46 :: (fp ++ exText 69 ex)), by simp [realText], by decide⟩
  have hcont := seps_realCont seps hs d rest hd
  have hcol := realCollect_realText sg ip fp ex (seps ++ d :: rest) hsg hip1 hip hfp hex hcont
  have hparse := parse_scanFloat_realText sg ip fp 69 ex hsg hip1 hip hfp (Or.inl rfl) hex
  have hden' := parse_realText sg ip fp 69 ex hsg hip1 hip hfp (Or.inl rfl) hex
  have hdec : dec = ⟨sg == [45], digitsVal (ip ++ fp) 0, exVal ex - (fp.length : Int)⟩ := by
    unfold denoteReal at hden; rw [hden'] at hden; simpa using hden.symm
  have hconv : ops.conv (scanFloat [] (realText sg ip fp 69 ex)).1 = .ok v := by
    unfold FloatOps.conv; rw [hparse]; simp only; rw [← hdec, hv]
  have hov : (lex.realBuf != 0 && decide ((realText sg ip fp 69 ex).length ≥ lex.realBuf)) = false := by
    rcases hbuf with h0 | hlt
    · simp [h0]
    · simp; intro _; omega
  have hrne : (seps ++ d :: rest).isEmpty = false := by
    rcases hcont with h | ⟨x, y, hxy, _⟩
    · simp at h
    · rw [hxy]; rfl
  have hcri := cri_seps lex hcfg seps hs ((realText sg ip fp 69 ex).reverse ++ l) rest d false sk Sev.null hd
  rw [hcu] at hcol hconv hov hcri ⊢
  simp only [List.cons_append, readReal, ws_good0 _ _ _ _ hcs, IStream.good, Bool.not_false, Bool.and_self, Bool.not_true,
    Bool.false_eq_true, if_false]
  simp only [List.cons_append] at hcol
  simp only [hcol, hov, Bool.false_eq_true, if_false, hconv, hrne, List.append_nil]
  simp only [show Sev.null.greater Sev.null = Sev.null from rfl, hcri]

/-- `ReadReal` with the sentinel test, for a token whose value is not the in-band null -/
theorem readRealS_tok (ops : FloatOps F) (lex : LexCfg) (hcfg : lex.criSkipsComments = true)
    (tok : List Byte) (dec : Decimal) (v : F) (htok : isReal tok = true) (hden : denoteReal tok = some dec)
    (hv : ops.ofDecimal dec = some v) (hnn : ops.isRealNull v = false) (hbuf : lex.realBuf = 0 ∨ tok.length < lex.realBuf)
    (l : List Byte) (sk : Bool) (seps : List Byte) (hs : Seps seps) (d : Byte) (rest : List Byte) (hd : d = 44 ∨ d = 41) :
    readRealS ops lex (some attrDelims) (G l (tok ++ (seps ++ d :: rest)) sk) .null =
      .ok (some v, G (seps.reverse ++ (tok.reverse ++ l)) (d :: rest) sk, .null) :=
  readRealS_of ops lex _ _ _ _ _ _ (readReal_tok ops lex hcfg tok dec v htok hden hv hbuf l sk seps hs d rest hd) hnn

/-- a REAL attribute: any token of the grammar whose value converts to a double other than the in-band null -/
theorem attr_real (env : Env F) (strict : Bool) (a : AttrD) (hty : a.ty = .one .real) (hder : a.derived = false)
    (hcfg : env.lex.criSkipsComments = true)
    (tok : List Byte) (dec : Decimal) (v : F) (htok : isReal tok = true) (hden : denoteReal tok = some dec)
    (hv : env.ops.ofDecimal dec = some v) (hnn : env.ops.isRealNull v = false)
    (hbuf : env.lex.realBuf = 0 ∨ tok.length < env.lex.realBuf)
    (l : List Byte) (sk : Bool) (seps : List Byte) (hs : Seps seps) (d : Byte) (rest : List Byte) (hd : d = 44 ∨ d = 41) :
    attrSTEPread env strict a (G l (tok ++ (seps ++ d :: rest)) sk) =
      .ok (.null, .one (.atom (.real v)), G (seps.reverse ++ (tok.reverse ++ l)) (d :: rest) sk) := by
  have hr := readReal_tok env.ops env.lex hcfg tok dec v htok hden hv hbuf l sk seps hs d rest hd
  obtain ⟨sg, ip, fp, ex, htx, hsg, hip1, hip, hfp, hex⟩ := isReal_shape tok htok
  obtain ⟨c, u, hcu, hcs, hc36, hc44, hc41⟩ : ∃ c u, tok = c :: u ∧ isSpace c = false ∧ c ≠ 36 ∧ c ≠ 44 ∧ c ≠ 41 := by
    obtain ⟨i0, iu, rfl⟩ : ∃ i0 iu, ip = i0 :: iu := by
      cases ip with
      | nil => exact absurd rfl hip1
      | cons i0 iu => exact ⟨i0, iu, rfl⟩
    have hi0 : isDigit i0 = true := by simp at hip; exact hip.1
    have hi0' : isSpace i0 = false ∧ i0 ≠ 36 ∧ i0 ≠ 44 ∧ i0 ≠ 41 := by
      refine ⟨digit_not_space hi0, ?_, ?_, ?_⟩ <;> (simp [isDigit] at hi0; bomega)
    rcases hsg with rfl | rfl | rfl
    · exact ⟨i0, iu ++ 46 :: (fp ++ exText 69 ex), by rw [htx]; simp [realText], hi0'.1, hi0'.2.1, hi0'.2.2.1, hi0'.2.2.2⟩
    · exact ⟨43, i0 :: (iu ++ 46 :: (fp ++ exText 69 ex)), by rw [htx]; simp [realText], by decide, by decide, by decide, by decide⟩
    · exact ⟨45, i0 :: (iu ++ 46 :: (fp ++ exText 69 ex)), by rw [htx]; simp [realText], by decide, by decide, by decide, by decide⟩
  unfold attrSTEPread
  rw [hcu] at hr ⊢
  simp only [List.cons_append] at hr ⊢
  rw [show (G l (c :: (u ++ (seps ++ d :: rest))) sk).ws = G l (c :: (u ++ (seps ++ d :: rest))) sk from ws_good0 l c _ sk hcs]
  simp only [bind, Except.bind, pure, Except.pure]
  rw [show (G l (c :: (u ++ (seps ++ d :: rest))) sk).peekC = (c, G l (c :: (u ++ (seps ++ d :: rest))) sk) from peekC_good l c _ sk]
  have e36 : (c == 36) = false := by simpa using hc36
  have e44 : (c == 44) = false := by simpa using hc44
  have e41 : (c == 41) = false := by simpa using hc41
  simp only [hder, Bool.false_eq_true, if_false, e36, e44, e41, Bool.or_self, hty]
  have hrS := readRealS_of env.ops env.lex _ _ _ _ _ _ hr (show realSentinel env.ops (some v) = false from hnn)
  unfold attrSTEPread.scalarNodeReadAttr
  simp only [hrS, liftOutcome, bind, Except.bind, pure, Except.pure]
  simp [realValue, hnn, valueToAtom]

/-! ### composition over a parameter list -/

/-- one parameter as it stands in a file: attribute, stored value, token, layout before and after the token -/
structure Param (F : Type) where
  a : AttrD
  v : MVal F
  tok : List Byte
  before : List Byte
  after : List Byte

/-- `STEPattribute::STEPread` reads the token to the value wherever it stands, in front of the layout `after` and a
    delimiter, without error, and rests at the delimiter -/
def ParamOK (env : Env F) (strict : Bool) (p : Param F) : Prop :=
  p.a.redefining = false ∧
  (∃ c u, p.tok = c :: u ∧ isSpace c = false ∧ c ≠ 47 ∧ c ≠ 92) ∧
  Seps p.before ∧
  ∀ (l : List Byte) (sk : Bool) (d : Byte) (rest : List Byte), (d = 44 ∨ d = 41) →
    ∃ sk', attrSTEPread env strict p.a (G l (p.tok ++ (p.after ++ d :: rest)) sk) =
      .ok (.null, p.v, G (p.after.reverse ++ (p.tok.reverse ++ l)) (d :: rest) sk')

/-- the parameter list after the opening parenthesis, closing parenthesis included -/
def renderParams : List (Param F) → List Byte
  | [] => []
  | [p] => p.before ++ (p.tok ++ (p.after ++ [41]))
  | p :: q :: ps => p.before ++ (p.tok ++ (p.after ++ 44 :: renderParams (q :: ps)))

/-- an attribute that reports nothing adds nothing to what the attributes report -/
theorem attrSev_null (a : AttrD) (rest : Sev) : attrSev a .null rest = rest := by
  unfold attrSev
  cases a.derived <;> simp [Sev.toInt]

theorem readAttrs_params (env : Env F) (strict : Bool) (ps : List (Param F)) (hne : ps ≠ [])
    (hok : ∀ p ∈ ps, ParamOK env strict p) :
    ∀ (l : List Byte) (c : Byte) (sk : Bool) (rest : List Byte),
      ∃ sk', readAttrs env strict (ps.map (·.a)) .null c (G l (renderParams ps ++ rest) sk) =
        .ok ⟨.null, ps.map (·.v), G ((renderParams ps).reverse ++ l) rest sk', .null⟩ := by
  induction ps with
  | nil => exact absurd rfl hne
  | cons p qs ih =>
    intro l c sk rest
    obtain ⟨hred, ⟨c0, u0, htok, hc0, h47, h92⟩, hbef, hread⟩ := hok p (by simp)
    cases qs with
    | nil =>
      obtain ⟨sk', hr⟩ := hread (p.before.reverse ++ l) sk 41 rest (Or.inr rfl)
      refine ⟨sk', ?_⟩
      simp only [List.map_cons, List.map_nil, renderParams]
      unfold readAttrs
      have e1 : p.before ++ (p.tok ++ (p.after ++ [41])) ++ rest = p.before ++ c0 :: (u0 ++ (p.after ++ 41 :: rest)) := by
        rw [htok]; simp
      rw [e1, readTokenSeparator_seps p.before hbef l c0 _ sk hc0 h47 h92]
      have e2 : c0 :: (u0 ++ (p.after ++ 41 :: rest)) = p.tok ++ (p.after ++ 41 :: rest) := by rw [htok]; simp
      rw [e2]
      simp only [hred, Bool.false_eq_true, if_false, hr, bind, Except.bind, pure, Except.pure]
      rw [shiftInto_good c _ 41 rest sk' (by decide)]
      simp [missingCheck, defaults, Sev.toInt, htok, attrSev_null]
    | cons q qs' =>
      obtain ⟨sk1, hr⟩ := hread (p.before.reverse ++ l) sk 44 (renderParams (q :: qs') ++ rest) (Or.inl rfl)
      obtain ⟨sk', hrec⟩ := ih (by simp) (fun x hx => hok x (by simp [hx]))
        (44 :: (p.after.reverse ++ (p.tok.reverse ++ (p.before.reverse ++ l)))) 44 sk1 rest
      refine ⟨sk', ?_⟩
      simp only [List.map_cons, renderParams] at hrec ⊢
      unfold readAttrs
      have e1 : p.before ++ (p.tok ++ (p.after ++ 44 :: renderParams (q :: qs'))) ++ rest =
          p.before ++ c0 :: (u0 ++ (p.after ++ 44 :: (renderParams (q :: qs') ++ rest))) := by
        rw [htok]; simp
      rw [e1, readTokenSeparator_seps p.before hbef l c0 _ sk hc0 h47 h92]
      have e2 : c0 :: (u0 ++ (p.after ++ 44 :: (renderParams (q :: qs') ++ rest))) =
          p.tok ++ (p.after ++ 44 :: (renderParams (q :: qs') ++ rest)) := by rw [htok]; simp
      rw [e2]
      simp only [hred, Bool.false_eq_true, if_false, hr, bind, Except.bind, pure, Except.pure]
      rw [shiftInto_good c _ 44 _ sk1 (by decide)]
      have e3 : (!((44 : Byte) == 44 || (44 : Byte) == 41)) = false := by decide
      have e4 : ((44 : Byte) == 41) = false := by decide
      have e5 : (Sev.null.toInt ≤ Sev.usermsg.toInt) = False := by decide
      simp only [e3, e4, e5, Bool.false_eq_true, if_false]
      rw [hrec]
      simp [htok, attrSev_null]

theorem renderParams_cons (p : Param F) (qs : List (Param F)) :
    renderParams (p :: qs) = p.before ++ renderParams ({ p with before := [] } :: qs) := by
  cases qs <;> simp [renderParams]

/-- `SDAI_Application_instance::STEPread` on `( parameters )`: every parameter is read to its value, severity NULL, the
    stream rests right after the closing parenthesis -/
theorem instSTEPread_params (env : Env F) (strict : Bool) (ps : List (Param F)) (hne : ps ≠ [])
    (hok : ∀ p ∈ ps, ParamOK env strict p) (l : List Byte) (sk : Bool) (rest : List Byte) :
    ∃ sk', instSTEPread env strict (ps.map (·.a)) (G l (40 :: (renderParams ps ++ rest)) sk) =
      .ok ⟨.null, ps.map (·.v), G ((40 :: renderParams ps).reverse ++ l) rest sk', .null⟩ := by
  cases ps with
  | nil => exact absurd rfl hne
  | cons p qs =>
    obtain ⟨hred, ⟨c0, u0, htok, hc0, h47, h92⟩, hbef, hread⟩ := hok p (by simp)
    let p' : Param F := { p with before := [] }
    have hok' : ∀ x ∈ p' :: qs, ParamOK env strict x := by
      intro x hx
      rcases List.mem_cons.mp hx with rfl | hx
      · exact ⟨hred, ⟨c0, u0, htok, hc0, h47, h92⟩, Seps.blanks [] (by simp), hread⟩
      · exact hok x (by simp [hx])
    obtain ⟨sk', hr⟩ := readAttrs_params env strict (p' :: qs) (by simp) hok' (p.before.reverse ++ 40 :: l) 40 sk rest
    refine ⟨sk', ?_⟩
    unfold instSTEPread
    rw [show (G l (40 :: (renderParams (p :: qs) ++ rest)) sk).ws = G l (40 :: (renderParams (p :: qs) ++ rest)) sk
      from ws_good0 l 40 _ sk (by decide)]
    simp only [bind, Except.bind, pure, Except.pure]
    rw [shiftInto_good 0 l 40 _ sk (by decide)]
    simp only [bne_self_eq_false, Bool.false_eq_true, if_false, List.map_cons, List.isEmpty_cons]
    -- the token separator after `(` takes the layout in front of the first parameter
    have hhead : ∃ c1 u1, renderParams (p' :: qs) ++ rest = c1 :: u1 ∧ isSpace c1 = false ∧ c1 ≠ 47 ∧ c1 ≠ 92 := by
      cases qs with
      | nil => exact ⟨c0, u0 ++ (p.after ++ 41 :: rest), by simp [renderParams, p', htok], hc0, h47, h92⟩
      | cons q qs' =>
        exact ⟨c0, u0 ++ (p.after ++ 44 :: (renderParams (q :: qs') ++ rest)), by simp [renderParams, p', htok], hc0, h47, h92⟩
    obtain ⟨c1, u1, h1, hc1, h471, h921⟩ := hhead
    have e1 : renderParams (p :: qs) ++ rest = p.before ++ c1 :: u1 := by
      rw [renderParams_cons, List.append_assoc, h1]
    rw [e1, readTokenSeparator_seps p.before hbef (40 :: l) c1 u1 sk hc1 h471 h921, ← h1]
    have hmap : (p' :: qs).map (·.a) = p.a :: qs.map (·.a) := rfl
    have hmapv : (p' :: qs).map (·.v) = p.v :: qs.map (·.v) := rfl
    rw [hmap, hmapv] at hr
    rw [hr]
    simp [renderParams_cons p qs]
    rfl

/-! ### the parameter kinds proved so far -/

theorem ParamOK.dollar (env : Env F) (strict : Bool) (hcfg : env.lex.criSkipsComments = true) (a : AttrD)
    (hopt : a.optional = true) (hder : a.derived = false) (hred : a.redefining = false)
    (before after : List Byte) (hb : Seps before) (ha : Seps after) :
    ParamOK env strict { a := a, v := nullOf a, tok := [36], before := before, after := after } :=
  ⟨hred, ⟨36, [], rfl, by decide, by decide, by decide⟩, hb, fun l sk d rest hd =>
    ⟨sk, by simpa using attr_dollar env strict a hopt hder hcfg l sk after ha d rest hd⟩⟩

theorem ParamOK.star (env : Env F) (strict : Bool) (hcfg : env.lex.criSkipsComments = true) (a : AttrD)
    (hder : a.derived = true) (hred : a.redefining = false)
    (before after : List Byte) (hb : Seps before) (ha : Seps after) :
    ParamOK env strict { a := a, v := .derived, tok := [42], before := before, after := after } :=
  ⟨hred, ⟨42, [], rfl, by decide, by decide, by decide⟩, hb, fun l sk d rest hd =>
    ⟨sk, by simpa using attr_star env strict a hder hcfg l sk after ha d rest hd⟩⟩

theorem ParamOK.integer (env : Env F) (strict : Bool) (hcfg : env.lex.criSkipsComments = true) (a : AttrD)
    (hty : a.ty = .one .integer) (hder : a.derived = false) (hred : a.redefining = false)
    (tok : List Byte) (htok : isInteger tok = true) (hlo : longMin ≤ denoteInteger tok) (hhi : denoteInteger tok < longMax)
    (before after : List Byte) (hb : Seps before) (ha : Seps after) :
    ParamOK env strict { a := a, v := .one (.atom (.int (denoteInteger tok))), tok := tok, before := before, after := after } := by
  obtain ⟨c, u, hcu, hcs, h47, _, h92⟩ := isInteger_head47 tok htok
  exact ⟨hred, ⟨c, u, hcu, hcs, h47, h92⟩, hb, fun l sk d rest hd =>
    ⟨sk, attr_integer env strict a hty hder hcfg tok htok hlo hhi l sk after ha d rest hd⟩⟩

theorem ParamOK.ref (env : Env F) (strict : Bool) (hcfg : env.lex.criSkipsComments = true) (a : AttrD) (tg : String)
    (hty : a.ty = .one (.entity tg)) (hder : a.derived = false) (hred : a.redefining = false)
    (ds : List Byte) (hne : ds ≠ []) (hds : ds.all isDigit = true) (hhi : ((digitsVal ds 0 : Nat) : Int) ≤ intMax)
    (hfound : refLookup env.lookup tg ((digitsVal ds 0 : Nat) : Int) = .found)
    (before after : List Byte) (hb : Seps before) (ha : Seps after) :
    ParamOK env strict { a := a, v := .one (.atom (.ref ((digitsVal ds 0 : Nat) : Int))), tok := 35 :: ds,
                         before := before, after := after } :=
  ⟨hred, ⟨35, ds, rfl, by decide, by decide, by decide⟩, hb, fun l sk d rest hd =>
    ⟨sk, by
      have := attr_ref env strict a tg hty hder hcfg ds hne hds hhi hfound l sk after ha d rest hd
      simpa using this⟩⟩

theorem ParamOK.aggrInt (env : Env F) (strict : Bool) (hcfg : env.lex.criSkipsComments = true)
    (hagg : env.cfg.aggrSkipsComments = true) (a : AttrD)
    (hty : a.ty = .aggr .integer) (hder : a.derived = false) (hred : a.redefining = false)
    (es : List ElemP) (inner : List Byte) (hok : ∀ e ∈ es, ElemOK e) (hin : Seps inner)
    (before after : List Byte) (hb : Seps before) (ha : Seps after) :
    ParamOK env strict { a := a, v := .aggr (es.map elemVal), tok := aggrText es inner, before := before, after := after } :=
  ⟨hred, ⟨40, (aggrText es inner).tail, by cases es <;> rfl, by decide, by decide, by decide⟩, hb, fun l sk d rest hd =>
    ⟨sk, attr_aggr_int env strict a hty hder hcfg hagg es inner hok hin l sk after ha d rest hd⟩⟩

theorem ParamOK.string (env : Env F) (strict : Bool) (hcfg : env.lex.criSkipsComments = true) (a : AttrD)
    (hty : a.ty = .one .string) (hder : a.derived = false) (hred : a.redefining = false)
    (b : List Byte) (hb : StringBody b) (before after : List Byte) (hbf : Seps before) (ha : Seps after) :
    ParamOK env strict { a := a, v := .one (.atom (.str (39 :: (b ++ [39])))), tok := 39 :: (b ++ [39]),
                         before := before, after := after } :=
  ⟨hred, ⟨39, b ++ [39], rfl, by decide, by decide, by decide⟩, hbf, fun l sk d rest hd =>
    ⟨false, attr_string env strict a hty hder hcfg b hb l sk after ha d rest hd⟩⟩

theorem ParamOK.enum (env : Env F) (strict : Bool) (hcfg : env.lex.criSkipsComments = true) (a : AttrD) (ty : ElemTy)
    (hty : a.ty = .one ty) (het : EnumTy ty) (hder : a.derived = false) (hred : a.redefining = false)
    (name : List Byte) (i : Nat) (hne : name ≠ []) (hname : name.all pw = true)
    (hfind : findName (enumKindOf ty).table (name.map toUpper) = some i) (hset : (enumKindOf ty).isUnsetIdx i = false)
    (before after : List Byte) (hbf : Seps before) (ha : Seps after) :
    ParamOK env strict { a := a, v := .one (.atom (.enum i)), tok := 46 :: (name ++ [46]), before := before, after := after } :=
  ⟨hred, ⟨46, name ++ [46], rfl, by decide, by decide, by decide⟩, hbf, fun l sk d rest hd =>
    ⟨sk, attr_enum env strict a ty hty het hder hcfg name i hne hname hfind hset l sk after ha d rest hd⟩⟩

theorem ParamOK.binary (env : Env F) (strict : Bool) (hcfg : env.lex.criSkipsComments = true) (a : AttrD)
    (hty : a.ty = .one .binary) (hder : a.derived = false) (hred : a.redefining = false)
    (hex : List Byte) (hne : hex ≠ []) (hhex : hex.all isXDigit = true)
    (before after : List Byte) (hbf : Seps before) (ha : Seps after) :
    ParamOK env strict { a := a, v := .one (.atom (.bin hex)), tok := 34 :: (hex ++ [34]), before := before, after := after } :=
  ⟨hred, ⟨34, hex ++ [34], rfl, by decide, by decide, by decide⟩, hbf, fun l sk d rest hd =>
    ⟨sk, attr_binary env strict a hty hder hcfg hex hne hhex l sk after ha d rest hd⟩⟩

theorem isReal_head (tok : List Byte) (h : isReal tok = true) : ∃ c u, tok = c :: u ∧ isSpace c = false ∧ c ≠ 47 ∧ c ≠ 92 := by
  obtain ⟨sg, ip, fp, ex, htx, hsg, hip1, hip, _, _⟩ := isReal_shape tok h
  obtain ⟨i0, iu, rfl⟩ : ∃ i0 iu, ip = i0 :: iu := by
    cases ip with
    | nil => exact absurd rfl hip1
    | cons i0 iu => exact ⟨i0, iu, rfl⟩
  have hi0 : isDigit i0 = true := by simp at hip; exact hip.1
  rcases hsg with rfl | rfl | rfl
  · refine ⟨i0, iu ++ 46 :: (fp ++ exText 69 ex), by rw [htx]; simp [realText], digit_not_space hi0, ?_, ?_⟩ <;>
      (simp [isDigit] at hi0; bomega)
  · exact ⟨43, i0 :: (iu ++ 46 :: (fp ++ exText 69 ex)), by rw [htx]; simp [realText], by decide, by decide, by decide⟩
  · exact ⟨45, i0 :: (iu ++ 46 :: (fp ++ exText 69 ex)), by rw [htx]; simp [realText], by decide, by decide, by decide⟩

theorem ParamOK.real (env : Env F) (strict : Bool) (hcfg : env.lex.criSkipsComments = true) (a : AttrD)
    (hty : a.ty = .one .real) (hder : a.derived = false) (hred : a.redefining = false)
    (tok : List Byte) (dec : Decimal) (v : F) (htok : isReal tok = true) (hden : denoteReal tok = some dec)
    (hv : env.ops.ofDecimal dec = some v) (hnn : env.ops.isRealNull v = false)
    (hbuf : env.lex.realBuf = 0 ∨ tok.length < env.lex.realBuf)
    (before after : List Byte) (hbf : Seps before) (ha : Seps after) :
    ParamOK env strict { a := a, v := .one (.atom (.real v)), tok := tok, before := before, after := after } := by
  obtain ⟨c, u, hcu, hcs, h47, h92⟩ := isReal_head tok htok
  exact ⟨hred, ⟨c, u, hcu, hcs, h47, h92⟩, hbf, fun l sk d rest hd =>
    ⟨sk, attr_real env strict a hty hder hcfg tok dec v htok hden hv hnn hbuf l sk after ha d rest hd⟩⟩

end StepModel.P21.RLemmas

import StepModel.P21.Lex
/-!
# `P21.Dict` — the run-time dictionary as the Part 21 reader/writer sees it, and the in-memory population

What `SchemaInit` registers, reduced to what `STEPfile`, `SDAI_Application_instance::STEPread/STEPwrite`,
`STEPattribute::STEPread/STEPwrite`, `STEPaggregate::ReadValue`, `SDAI_Select::STEPread` and `STEPcomplex` consult:

* per entity: the keyword, the `attributes` list in Part 21 order (internal mapping), which of those belong to the
  entity's own part (external mapping), the `IsA` closure, and whether `Registry::ObjCreate` flags it;
* per attribute: `NonRefType()` class with its element type, `Nullable()`, `IsDerived()`, `AttrType_Redefining`;
* per select: the member list (type keyword as written in a typed parameter, underlying base type);
* the legal externally mapped combinations (decided by the `ComplexCollect` matcher — property C08's subject —
  and handed to this model as a table).

In-memory values are two levels deep, which is what the generated classes hold: an attribute is a scalar, a select
over a scalar, or a one-dimensional aggregate of those; elements of multi-dimensional aggregates are kept as raw
text (`SCLundefined`).  Selects whose member is itself an aggregate or a nested select are outside the model
(`Stop.unmodelled`).
-/
namespace StepModel.P21

open StepModel

/-- base type of one scalar position (`NonRefType()` of an attribute or of an aggregate's element type) -/
inductive ElemTy where
  | integer | real | number | string | binary | boolean | logical
  | enum (items : List (List Byte))      -- upper-case item names in `element_at` order
  | entity (name : String)
  | select (name : String)
  | generic                              -- `SCLundefined`: element of an aggregate of aggregates
deriving Repr, DecidableEq, Inhabited

inductive Ty where
  | one (e : ElemTy)
  | aggr (e : ElemTy)
deriving Repr, DecidableEq, Inhabited

structure AttrD where
  name : String
  ty : Ty
  optional : Bool
  derived : Bool := false
  redefining : Bool := false
  /-- belongs to the entity's own part in an external mapping -/
  own : Bool := true
deriving Repr, DecidableEq, Inhabited

structure EntityD where
  /-- upper-case keyword -/
  name : String
  attrs : List AttrD
  /-- `IsA` closure (itself and every ancestor), upper case -/
  ancestors : List String
  /-- `Registry::ObjCreate` returns an object whose error is `<= SEVERITY_WARNING` (abstract supertype / needs external mapping) -/
  abstract : Bool := false
deriving Repr, DecidableEq, Inhabited

structure SelMember where
  /-- the type keyword of the typed parameter (upper case); for an entity member the entity keyword -/
  name : String
  ty : ElemTy
deriving Repr, DecidableEq, Inhabited

structure SelectD where
  name : String
  members : List SelMember
deriving Repr, DecidableEq, Inhabited

structure Dict where
  entities : List EntityD
  selects : List SelectD
  /-- legal externally mapped combinations, each sorted by name -/
  complexSets : List (List String)
deriving Repr, Inhabited

def Dict.entity? (d : Dict) (n : String) : Option EntityD := d.entities.find? (·.name == n)
def Dict.select? (d : Dict) (n : String) : Option SelectD := d.selects.find? (·.name == n)
def EntityD.ownAttrs (e : EntityD) : List AttrD := e.attrs.filter (·.own)

/-! ## in-memory values -/

/-- a scalar as stored in the instance; `unset` is what `is_null()` reports -/
inductive Atom (F : Type) where
  | unset
  | int (v : Int)
  | real (v : F)
  | str (raw : List Byte)          -- exchange form, quotes and escapes included (`SDAI_String::content`)
  | bin (digits : List Byte)
  | enum (idx : Nat)
  | ref (id : Int)
  | undef (raw : List Byte)        -- `SCLundefined::val`
deriving Repr, DecidableEq, Inhabited

/-- a scalar position: plain, or a select set to the member `member` -/
inductive Elem (F : Type) where
  | atom (a : Atom F)
  | sel (member : String) (a : Atom F)
deriving Repr, DecidableEq, Inhabited

inductive MVal (F : Type) where
  | one (e : Elem F)
  | aggrNull                        -- aggregate with `_null` set
  | aggr (es : List (Elem F))
  | derived                         -- `IsDerived()`: nothing stored, written `*`
deriving Repr, DecidableEq, Inhabited

structure MPart (F : Type) where
  name : String
  vals : List (MVal F)              -- one per non-redefining attribute, in order
deriving Repr, DecidableEq, Inhabited

inductive NState where
  | new | complete | incomplete | noState
deriving Repr, DecidableEq, Inhabited

def NState.name : NState → String
  | .new => "newSE" | .complete => "completeSE" | .incomplete => "incompleteSE" | .noState => "noStateSE"

structure MInst (F : Type) where
  id : Int
  /-- one part = internal mapping; several = `STEPcomplex` chain (sorted by name) -/
  parts : List (MPart F)
  complex : Bool := false
  state : NState := .new
deriving Repr, DecidableEq, Inhabited

end StepModel.P21

import StepModel.P21.ReaderLemmas4
/-! Lemmas for the confinement clause of C03: a record that is not read cleanly is re-synchronised from its start
(`RWCfg.errorResyncsFromStart`), and the pass-2 loop over records with arbitrary per-record outcomes. -/
namespace StepModel.P21.RLemmas
open StepModel StepModel.IStream StepModel.P21 StepModel.P21.Lemmas StepModel.P21.Grammar

variable {F : Type}

/-! ## `skipws` is a format flag: the token-separator scanners do not touch it -/

theorem sentry_skipws (b : Bool) (s : IStream) : (IStream.sentry b s).1.skipws = s.skipws := by
  unfold IStream.sentry
  by_cases hg : s.good = true
  · by_cases h2 : (!b && s.skipws) = true
    · by_cases h3 : (dropSpaces s.left s.right).2.isEmpty = true <;> simp [hg, h2, h3]
    · simp [hg, h2]
  · simp [hg]

theorem ws_skipws (s : IStream) : s.ws.skipws = s.skipws := by
  have h := sentry_skipws true s
  unfold IStream.ws
  generalize IStream.sentry true s = p at h ⊢
  obtain ⟨s1, ok⟩ := p
  cases ok <;> simp_all

theorem peekC_skipws (s : IStream) : s.peekC.2.skipws = s.skipws := by
  have h := sentry_skipws true s
  unfold IStream.peekC IStream.peek
  generalize IStream.sentry true s = p at h ⊢
  obtain ⟨s1, ok⟩ := p
  cases ok
  · simp_all
  · cases hr : s1.right <;> simp_all

theorem getInto_skipws (c : Byte) (s : IStream) : (getInto c s).2.skipws = s.skipws := by
  have h := sentry_skipws true s
  unfold getInto IStream.get
  generalize IStream.sentry true s = p at h ⊢
  obtain ⟨s1, ok⟩ := p
  cases ok
  · simp_all
  · cases hr : s1.right <;> simp_all

theorem shiftInto_skipws (c : Byte) (s : IStream) : (shiftInto c s).2.skipws = s.skipws := by
  have h := sentry_skipws false s
  unfold shiftInto IStream.getChar
  generalize IStream.sentry false s = p at h ⊢
  obtain ⟨s1, ok⟩ := p
  cases ok
  · simp_all
  · cases hr : s1.right <;> simp_all

theorem putback_skipws (c : Byte) (s : IStream) : (s.putback c).skipws = s.skipws := by
  have h := sentry_skipws true { s with eof := false }
  unfold IStream.putback
  generalize IStream.sentry true { s with eof := false } = p at h ⊢
  obtain ⟨s1, ok⟩ := p
  cases ok
  · simp_all
  · cases hr : s1.left with
    | nil => simp_all
    | cons x l => by_cases hx : (x == c) = true <;> simp_all

theorem readComment_skipws (s : IStream) : (readComment s).skipws = s.skipws := by
  unfold readComment
  simp only
  split
  · split
    · split
      · split <;> simp [ws_skipws, getInto_skipws, shiftInto_skipws]
      · simp [ws_skipws, getInto_skipws, shiftInto_skipws]
    · simp [putback_skipws, ws_skipws, getInto_skipws, shiftInto_skipws]
  · simp [putback_skipws, ws_skipws, shiftInto_skipws]

theorem readPcd_skipws (s : IStream) : (readPcd s).skipws = s.skipws := by
  unfold readPcd
  simp only
  split
  · split
    · split
      · split <;> simp [getInto_skipws]
      · simp [getInto_skipws]
    · simp [getInto_skipws]
  · simp [getInto_skipws]

theorem readTokenSeparatorAux_skipws (n : Nat) (s : IStream) : (readTokenSeparatorAux n s).skipws = s.skipws := by
  induction n generalizing s with
  | zero => rfl
  | succ n ih =>
    unfold readTokenSeparatorAux
    split
    · rfl
    · simp only
      split
      · rw [ih, readComment_skipws, peekC_skipws, ws_skipws]
      · split
        · rw [ih, readPcd_skipws, peekC_skipws, ws_skipws]
        · rw [peekC_skipws, ws_skipws]

theorem readTokenSeparator_skipws (s : IStream) : (readTokenSeparator s).skipws = s.skipws := by
  unfold readTokenSeparator
  split
  · rfl
  · exact readTokenSeparatorAux_skipws _ s

/-! ## a record that is not read cleanly -/

theorem kwc_plain {c : Byte} (h : kwc c = true) : plainc c = true := by
  simp [kwc, isAlnum, isAlpha, isUpper, isLower, isDigit, plainc] at *; bomega

/-- **the resynchronisation of the repaired `ReadInstance`**: whatever `SDAI_Application_instance::STEPread` does with
    the parameter list — any severity WARNING or worse, any values, any stream left behind (good or not, resting
    anywhere) — the record is left right after its `;`, the object keeps what was read and is reported with that severity. -/
theorem readInstance_resync (ops : FloatOps F) (lex : LexCfg) (cfg : RWCfg) (d : Dict) (strict : Bool)
    (hrs : cfg.errorResyncsFromStart = true) (hskip : cfg.skipInstanceSkipsComments = true) (st : P2 F)
    (r : Rec F) (hlex : r.Lex) (hscan : ∀ q ∈ r.ps, ParamScan q) (l rest : List Byte) (sk : Bool) (hs : st.s = G l (r.text rest) sk)
    (inst : MInst F) (hfind : st.mgr.find? r.id = some inst) (hnew : inst.state = .new) (hcx : inst.complex = false)
    (p : MPart F) (hparts : inst.parts = [p]) (e : EntityD) (hent : d.entity? p.name = some e)
    (sev0 : Sev) (vals : List (MVal F))
    (hrd : ∀ L, ∃ sR asev0, instSTEPread { ops := ops, lex := lex, cfg := cfg, dict := d, lookup := Mgr.lookup d st.mgr } strict
        e.attrs (G L (40 :: (renderParams r.ps ++ r.t4 rest)) sk) = .ok ⟨sev0, vals, sR, asev0⟩ ∧ (readTokenSeparator sR).skipws = false)
    (hsev : sev0.toInt ≤ Sev.warning.toInt) :
    ∃ l', readInstance ops lex cfg d strict st =
      .ok { s := G l' rest false, inst := some { inst with parts := [{ p with vals := vals }], state := stateOf sev0 },
            reported := some sev0, left := some .null } := by
  obtain ⟨dne, ddig, dhi, h1, h2, h3, h4, hn0, hns, pne⟩ := hlex
  obtain ⟨hn0s, hn047, hn038, hn040, hn033, hn035, hn0d, hn0k, hn092⟩ := alpha_facts hn0
  obtain ⟨c, u, hcu⟩ : ∃ c u, r.ds = c :: u := by
    cases hd : r.ds with
    | nil => exact absurd hd dne
    | cons c u => exact ⟨c, u, rfl⟩
  have hcd : isDigit c = true := by rw [hcu] at ddig; simp at ddig; exact ddig.1
  have hc47 : c ≠ 47 := by intro h; rw [h] at hcd; exact absurd hcd (by decide)
  obtain ⟨x, xr, hXe, hxd⟩ : ∃ x xr, r.t1 rest = x :: xr ∧ isDigit x = false :=
    seps_then r.s1 h1 61 _ (fun c => isDigit c = false) (fun c h => space_not_digit h) (by decide) (by decide)
  have e0 : readComment (G l (r.text rest) sk) = G l (r.text rest) sk := by
    unfold Rec.text; rw [hcu]; exact readComment_none l c _ sk (digit_not_space hcd) hc47
  have e1 : (G l (r.text rest) sk).extractInt32 = (some r.id, G (r.ds.reverse ++ l) (r.t1 rest) sk) := by
    unfold Rec.text; rw [hXe]; exact extractInt32_digits r.ds dne ddig dhi l x xr sk hxd
  have e2 : readTokenSeparator (G (r.ds.reverse ++ l) (r.t1 rest) sk) = G (r.s1.reverse ++ (r.ds.reverse ++ l)) (61 :: r.t2 rest) sk :=
    readTokenSeparator_seps r.s1 h1 (r.ds.reverse ++ l) 61 _ sk (by decide) (by decide)
  have e3 : readTokenSeparator (G (61 :: (r.s1.reverse ++ (r.ds.reverse ++ l))) (r.t2 rest) sk) =
      G (r.s2.reverse ++ 61 :: (r.s1.reverse ++ (r.ds.reverse ++ l))) (r.n0 :: (r.ns ++ r.t3 rest)) sk :=
    readTokenSeparator_seps r.s2 h2 _ r.n0 _ sk hn0s hn047 hn092
  unfold readInstance
  rw [hs, e0]
  simp only [e1, Option.getD_some, hfind, hnew, bne_self_eq_false, Bool.false_eq_true, if_false]
  rw [e2, getInto_good 0 _ 61 _ sk]
  simp only [bne_self_eq_false, Bool.false_eq_true, if_false]
  rw [e3, markStart_G]
  simp only
  rw [peekC_good]
  have e38 : (r.n0 == 38) = false := by simp [hn038]
  have e40 : (r.n0 == 40) = false := by simp [hn040]
  have e33 : (r.n0 == 33) = false := by simp [hn033]
  simp only [e38, e40, Bool.false_eq_true, if_false, bind, Except.bind, pure, Except.pure]
  rw [readTokenSeparator_none _ r.n0 _ sk hn0s hn047 hn092, peekC_good]
  simp only [e33, Bool.false_eq_true, if_false]
  obtain ⟨y, yr, hYe, hyk⟩ : ∃ y yr, r.t3 rest = y :: yr ∧ kwc y = false :=
    seps_then r.s3 h3 40 _ (fun c => kwc c = false) (fun c h => space_not_kwc h) (by decide) (by decide)
  have hkw : (r.n0 :: r.ns).all kwc = true := by simp only [List.all_cons, hn0k, Bool.true_and]; exact hns
  have ekw : readStdKeyword (G (r.s2.reverse ++ 61 :: (r.s1.reverse ++ (r.ds.reverse ++ l))) (r.n0 :: (r.ns ++ r.t3 rest)) sk) =
      (r.n0 :: r.ns, G ((r.n0 :: r.ns).reverse ++ (r.s2.reverse ++ 61 :: (r.s1.reverse ++ (r.ds.reverse ++ l)))) (r.t3 rest) sk) := by
    rw [hYe]
    exact readStdKeyword_spec r.n0 r.ns hkw hn0s y hyk _ yr sk
  rw [ekw]
  simp only
  have e4 : readTokenSeparator (G ((r.n0 :: r.ns).reverse ++ (r.s2.reverse ++ 61 :: (r.s1.reverse ++ (r.ds.reverse ++ l)))) (r.t3 rest) sk) =
      G (r.s3.reverse ++ ((r.n0 :: r.ns).reverse ++ (r.s2.reverse ++ 61 :: (r.s1.reverse ++ (r.ds.reverse ++ l)))))
        (40 :: (renderParams r.ps ++ r.t4 rest)) sk :=
    readTokenSeparator_seps r.s3 h3 _ 40 _ sk (by decide) (by decide)
  rw [e4]
  obtain ⟨sR, asev0, hrd', hsk⟩ := hrd (r.s3.reverse ++ ((r.n0 :: r.ns).reverse ++ (r.s2.reverse ++ 61 :: (r.s1.reverse ++ (r.ds.reverse ++ l)))))
  have hdec : decide (sev0.toInt ≤ Sev.warning.toInt) = true := by simpa using hsev
  simp only [hcx, Bool.false_eq_true, if_false, hparts, hrs, hent]
  rw [hrd']
  simp only [hdec, Bool.and_self, if_true, hsk]
  -- `SkipInstance` from the start of the record
  have hT : Passes ((r.n0 :: r.ns) ++ (r.s3 ++ 40 :: (renderParams r.ps ++ r.s4))) :=
    Passes.append (Passes.all_plain _ (all_imp (fun c => kwc_plain) _ hkw))
      (Passes.append (Passes.seps h3) (Passes.append (a := [40]) (Passes.plain 40 (by decide))
        (Passes.append (Passes.params r.ps pne hscan) (Passes.seps h4))))
  have eT : r.n0 :: (r.ns ++ r.t3 rest) = ((r.n0 :: r.ns) ++ (r.s3 ++ 40 :: (renderParams r.ps ++ r.s4))) ++ 59 :: rest := by
    simp [Rec.t3, Rec.t4]
  have hsi := skipInstance_passes cfg hskip _ hT (r.s2.reverse ++ 61 :: (r.s1.reverse ++ (r.ds.reverse ++ l))) rest
  rw [← eT] at hsi
  have hsi' : skipInstance cfg
      { left := r.s2.reverse ++ 61 :: (r.s1.reverse ++ (r.ds.reverse ++ l)), right := r.n0 :: (r.ns ++ r.t3 rest),
        eof := false, fail := false, bad := false, skipws := false } = _ := hsi
  rw [hsi']
  exact ⟨_, rfl⟩

/-- the other path of `ReadInstance`: the record's parameter list is read to the stream position right after its `)`,
    with a severity that does not trigger the resynchronisation (or in a source without it): the `;` is read -/
theorem readInstance_semi (ops : FloatOps F) (lex : LexCfg) (cfg : RWCfg) (d : Dict) (strict : Bool) (st : P2 F)
    (r : Rec F) (hlex : r.Lex) (l rest : List Byte) (sk : Bool) (hs : st.s = G l (r.text rest) sk)
    (inst : MInst F) (hfind : st.mgr.find? r.id = some inst) (hnew : inst.state = .new) (hcx : inst.complex = false)
    (p : MPart F) (hparts : inst.parts = [p]) (e : EntityD) (hent : d.entity? p.name = some e)
    (sev0 : Sev) (vals : List (MVal F)) (sk1 : Bool) (asev0 : Sev)
    (hrd : ∀ L, instSTEPread { ops := ops, lex := lex, cfg := cfg, dict := d, lookup := Mgr.lookup d st.mgr } strict
        e.attrs (G L (40 :: (renderParams r.ps ++ r.t4 rest)) sk) =
          .ok ⟨sev0, vals, G ((40 :: renderParams r.ps).reverse ++ L) (r.t4 rest) sk1, asev0⟩)
    (hno : (cfg.errorResyncsFromStart && decide (sev0.toInt ≤ Sev.warning.toInt)) = false) :
    ∃ l', readInstance ops lex cfg d strict st =
      .ok { s := G l' rest sk1, inst := some { inst with parts := [{ p with vals := vals }], state := stateOf sev0 },
            reported := some sev0, left := some .null } := by
  obtain ⟨dne, ddig, dhi, h1, h2, h3, h4, hn0, hns, pne⟩ := hlex
  obtain ⟨hn0s, hn047, hn038, hn040, hn033, hn035, hn0d, hn0k, hn092⟩ := alpha_facts hn0
  obtain ⟨c, u, hcu⟩ : ∃ c u, r.ds = c :: u := by
    cases hd : r.ds with
    | nil => exact absurd hd dne
    | cons c u => exact ⟨c, u, rfl⟩
  have hcd : isDigit c = true := by rw [hcu] at ddig; simp at ddig; exact ddig.1
  have hc47 : c ≠ 47 := by intro h; rw [h] at hcd; exact absurd hcd (by decide)
  obtain ⟨x, xr, hXe, hxd⟩ : ∃ x xr, r.t1 rest = x :: xr ∧ isDigit x = false :=
    seps_then r.s1 h1 61 _ (fun c => isDigit c = false) (fun c h => space_not_digit h) (by decide) (by decide)
  have e0 : readComment (G l (r.text rest) sk) = G l (r.text rest) sk := by
    unfold Rec.text; rw [hcu]; exact readComment_none l c _ sk (digit_not_space hcd) hc47
  have e1 : (G l (r.text rest) sk).extractInt32 = (some r.id, G (r.ds.reverse ++ l) (r.t1 rest) sk) := by
    unfold Rec.text; rw [hXe]; exact extractInt32_digits r.ds dne ddig dhi l x xr sk hxd
  have e2 : readTokenSeparator (G (r.ds.reverse ++ l) (r.t1 rest) sk) = G (r.s1.reverse ++ (r.ds.reverse ++ l)) (61 :: r.t2 rest) sk :=
    readTokenSeparator_seps r.s1 h1 (r.ds.reverse ++ l) 61 _ sk (by decide) (by decide)
  have e3 : readTokenSeparator (G (61 :: (r.s1.reverse ++ (r.ds.reverse ++ l))) (r.t2 rest) sk) =
      G (r.s2.reverse ++ 61 :: (r.s1.reverse ++ (r.ds.reverse ++ l))) (r.n0 :: (r.ns ++ r.t3 rest)) sk :=
    readTokenSeparator_seps r.s2 h2 _ r.n0 _ sk hn0s hn047 hn092
  unfold readInstance
  rw [hs, e0]
  simp only [e1, Option.getD_some, hfind, hnew, bne_self_eq_false, Bool.false_eq_true, if_false]
  rw [e2, getInto_good 0 _ 61 _ sk]
  simp only [bne_self_eq_false, Bool.false_eq_true, if_false]
  rw [e3, markStart_G]
  simp only
  rw [peekC_good]
  have e38 : (r.n0 == 38) = false := by simp [hn038]
  have e40 : (r.n0 == 40) = false := by simp [hn040]
  have e33 : (r.n0 == 33) = false := by simp [hn033]
  simp only [e38, e40, Bool.false_eq_true, if_false, bind, Except.bind, pure, Except.pure]
  rw [readTokenSeparator_none _ r.n0 _ sk hn0s hn047 hn092, peekC_good]
  simp only [e33, Bool.false_eq_true, if_false]
  obtain ⟨y, yr, hYe, hyk⟩ : ∃ y yr, r.t3 rest = y :: yr ∧ kwc y = false :=
    seps_then r.s3 h3 40 _ (fun c => kwc c = false) (fun c h => space_not_kwc h) (by decide) (by decide)
  have hkw : (r.n0 :: r.ns).all kwc = true := by simp only [List.all_cons, hn0k, Bool.true_and]; exact hns
  have ekw : readStdKeyword (G (r.s2.reverse ++ 61 :: (r.s1.reverse ++ (r.ds.reverse ++ l))) (r.n0 :: (r.ns ++ r.t3 rest)) sk) =
      (r.n0 :: r.ns, G ((r.n0 :: r.ns).reverse ++ (r.s2.reverse ++ 61 :: (r.s1.reverse ++ (r.ds.reverse ++ l)))) (r.t3 rest) sk) := by
    rw [hYe]
    exact readStdKeyword_spec r.n0 r.ns hkw hn0s y hyk _ yr sk
  rw [ekw]
  simp only
  have e4 : readTokenSeparator (G ((r.n0 :: r.ns).reverse ++ (r.s2.reverse ++ 61 :: (r.s1.reverse ++ (r.ds.reverse ++ l)))) (r.t3 rest) sk) =
      G (r.s3.reverse ++ ((r.n0 :: r.ns).reverse ++ (r.s2.reverse ++ 61 :: (r.s1.reverse ++ (r.ds.reverse ++ l)))))
        (40 :: (renderParams r.ps ++ r.t4 rest)) sk :=
    readTokenSeparator_seps r.s3 h3 _ 40 _ sk (by decide) (by decide)
  rw [e4]
  have hrd' := hrd (r.s3.reverse ++ ((r.n0 :: r.ns).reverse ++ (r.s2.reverse ++ 61 :: (r.s1.reverse ++ (r.ds.reverse ++ l)))))
  simp only [hcx, Bool.false_eq_true, if_false, hparts, hent]
  rw [hrd']
  simp only
  have e5 : ∀ L, readTokenSeparator (G L (r.t4 rest) sk1) = G (r.s4.reverse ++ L) (59 :: rest) sk1 :=
    fun L => readTokenSeparator_seps r.s4 h4 L 59 rest sk1 (by decide) (by decide)
  rw [e5, peekC_good]
  have e69 : ((59 : Byte) != 69) = true := by decide
  have hno' : (cfg.errorResyncsFromStart && decide (sev0.toInt ≤ Sev.warning.toInt)) = false := hno
  cases hm : cfg.missingSemicolonReported <;>
    simp only [Bool.false_eq_true, if_false, if_true, beq_self_eq_true, e69, hno',
      shiftInto_good _ _ 59 rest sk1 (by decide)] <;>
    exact ⟨_, rfl⟩

/-! ## pass 2 over records with any per-record outcome -/

/-- a record, the layout after its `;`, and what `ReadInstance` makes of it: the instance as it is left in the manager
    and the severity handed to `AppendEntityErrorMsg` -/
structure Step (F : Type) where
  r : Rec F
  g : List Byte
  out : MInst F
  sev : Sev

def Step.rg (x : Step F) : Rec F × List Byte := (x.r, x.g)

/-- `ReadInstance` on the record (`skipws` off, as in a data section), in any state whose manager holds the instance
    pass 1 made for it: the stream is left right after the record's `;`, `skipws` still off -/
def StepOK (ops : FloatOps F) (lex : LexCfg) (cfg : RWCfg) (d : Dict) (strict : Bool) (lk : Lookup) (x : Step F) : Prop :=
  Seps x.g ∧ x.out.id = x.r.id ∧ keyOf x.out = keyOf (mkInst d x.rg) ∧
  ∀ (st : P2 F) (l : List Byte) (rest : List Byte),
    st.mgr.find? x.r.id = some (mkInst d x.rg) → Mgr.lookup d st.mgr = lk → st.s = G l (x.r.text rest) false →
    ∃ l', readInstance ops lex cfg d strict st =
      .ok { s := G l' rest false, inst := some x.out, reported := some x.sev, left := some .null }

/-- the file error after the records' severities have been appended in order -/
def errAfter (e : Sev) (xs : List (Step F)) : Sev := xs.foldl (fun e x => appendEntityError e x.sev) e

structure P2Steps (st st' : P2 F) (insts : List (MInst F)) (xs : List (Step F)) (tail : List Byte) : Prop where
  mgr : st'.mgr.insts = insts
  err : st'.fileErr = errAfter st.fileErr xs
  total : st'.total = st.total + xs.length
  valid : st'.valid = st.valid + xs.length
  invalid : st'.invalid = st.invalid
  incomplete : st'.incomplete = st.incomplete
  s : ∃ l' sk', st'.s = G l' tail sk'
  rep : st'.reported = (xs.map (·.sev)).reverse ++ st.reported

theorem renderRecs_head' (xs : List (Step F)) (sp tail : List Byte) :
    ∃ c k, renderRecs (xs.map Step.rg) (endsec sp tail) = c :: k ∧ (c = 35 ∨ c = 69) :=
  renderRecs_head _ sp tail

theorem readData2Loop_steps (ops : FloatOps F) (lex : LexCfg) (cfg : RWCfg) (d : Dict) (strict : Bool) (lk : Lookup)
    (sp tail : List Byte) (hsp : sp.all isSpace = true) :
    ∀ (xs : List (Step F)) (st : P2 F) (pre : List (MInst F)) (g0 l : List Byte) (fuel : Nat),
      Seps g0 → st.s = G l (g0 ++ renderRecs (xs.map Step.rg) (endsec sp tail)) false → xs.length + 2 ≤ fuel →
      st.mgr.insts = pre ++ xs.map (fun x => mkInst d x.rg) → (∀ i ∈ pre, ∀ x ∈ xs, i.id ≠ x.r.id) →
      (xs.map (·.r.id)).Nodup → Mgr.lookup d st.mgr = lk →
      (∀ x ∈ xs, StepOK ops lex cfg d strict lk x) →
      ∃ st', readData2Loop ops lex cfg d strict fuel st false = .ok st' ∧
        P2Steps st st' (pre ++ xs.map (·.out)) xs tail := by
  intro xs
  induction xs with
  | nil =>
    intro st pre g0 l fuel hg0 hs hf hm _ _ _ _
    obtain ⟨l', h⟩ := readData2Loop_end ops lex cfg d strict st g0 l sp tail false hg0 hsp hs fuel (by simpa using hf)
    exact ⟨_, h, ⟨by simpa using hm, rfl, rfl, rfl, rfl, rfl, ⟨l', false, rfl⟩, by simp⟩⟩
  | cons x xs ih =>
    intro st pre g0 l fuel hg0 hs hf hm hfresh hnd hlk hok
    obtain ⟨hg, hid, hkey, hstep⟩ := hok x (by simp)
    have hnd' : (xs.map (·.r.id)).Nodup := (List.nodup_cons.mp hnd).2
    have hrid : ∀ y ∈ xs, x.r.id ≠ y.r.id := by
      intro y hy heq
      exact (List.nodup_cons.mp hnd).1 (by show x.r.id ∈ _; rw [heq]; exact List.mem_map_of_mem (f := fun y : Step F => y.r.id) hy)
    have hmgr : st.mgr = { insts := pre ++ mkInst d x.rg :: xs.map (fun x => mkInst d x.rg) } :=
      Mgr.eq_of_insts _ _ hm
    have hpre : ∀ i ∈ pre, i.id ≠ (mkInst d x.rg).id := fun i hi => hfresh i hi x (by simp)
    have hpost : ∀ i ∈ xs.map (fun x => mkInst d x.rg), i.id ≠ (mkInst d x.rg).id := by
      intro i hi
      obtain ⟨y, hy, rfl⟩ := List.mem_map.mp hi
      exact fun h => hrid y hy h.symm
    match fuel, hf with
    | n + 1, hf =>
      obtain ⟨l1, hri⟩ := hstep
        { st with s := G (35 :: (g0.reverse ++ l)) (x.r.text (x.g ++ renderRecs (xs.map Step.rg) (endsec sp tail))) false }
        _ _ (by show st.mgr.find? _ = _; rw [hmgr]; exact find?_mid pre _ (mkInst d x.rg) hpre) hlk rfl
      have hupd : st.mgr.update x.out = { insts := pre ++ x.out :: xs.map (fun x => mkInst d x.rg) } := by
        rw [hmgr]; exact update_mid pre _ (mkInst d x.rg) x.out hid hpre hpost
      unfold readData2Loop
      rw [hs]
      simp only [G_good, Bool.not_false, Bool.and_self, if_true, bind, Except.bind, List.map_cons, Step.rg, renderRecs]
      simp only [readTokenSeparator_seps g0 hg0 l 35 _ false (by decide) (by decide), shiftInto_good 0 _ 35 _ false (by decide),
        bne_self_eq_false, Bool.false_eq_true, if_false, pure, Except.pure]
      have hri' := hri
      try simp only [Step.rg] at hri'
      rw [hri']
      simp only
      have hap : applyOutcome st
          { s := G l1 (x.g ++ renderRecs (xs.map Step.rg) (endsec sp tail)) false, inst := some x.out,
            reported := some x.sev, left := some .null } =
          { st with mgr := st.mgr.update x.out, fileErr := appendEntityError st.fileErr x.sev, reported := x.sev :: st.reported,
                    s := G l1 (x.g ++ renderRecs (xs.map Step.rg) (endsec sp tail)) false, total := st.total + 1, valid := st.valid + 1 } := rfl
      have hap' := hap
      try simp only [Step.rg] at hap'
      rw [hap', hupd]
      rcases foundEndSec_gap x.g hg (xs.map Step.rg) sp tail hsp l1 false with ⟨hnil, l2, hfe⟩ | ⟨l2, t, ht, hfe⟩
      · have hfe' := hfe
        try simp only [Step.rg] at hfe'
        simp only [hfe']
        have hxs : xs = [] := by simpa using hnil
        subst hxs
        obtain ⟨m, rfl⟩ : ∃ m, n = m + 1 := ⟨n - 1, by simp only [List.length_cons] at hf; omega⟩
        unfold readData2Loop
        simp only [G_good, Bool.not_true, Bool.and_false, Bool.false_eq_true, if_false, pure, Except.pure]
        exact ⟨_, rfl, ⟨by simp, by simp [errAfter], rfl, rfl, rfl, rfl, ⟨l2, false, rfl⟩, by simp⟩⟩
      · have hfe' := hfe
        try simp only [Step.rg] at hfe'
        simp only [hfe']
        obtain ⟨st', hrun, hdone⟩ := ih
          ({ st with mgr := { insts := pre ++ x.out :: xs.map (fun x => mkInst d x.rg) },
                     fileErr := appendEntityError st.fileErr x.sev, reported := x.sev :: st.reported,
                     s := G l2 (t ++ renderRecs (xs.map Step.rg) (endsec sp tail)) false, total := st.total + 1,
                     valid := st.valid + 1 } : P2 F)
          (pre ++ [x.out]) t l2 n ht rfl (by simp only [List.length_cons] at hf; omega) (by simp)
          (by
            intro i hi y hy
            simp only [List.mem_append, List.mem_singleton] at hi
            rcases hi with hi | rfl
            · exact hfresh i hi y (by simp [hy])
            · rw [hid]; exact hrid y hy)
          hnd'
          (by
            rw [← hlk, hmgr]
            apply lookup_congr
            simp only [List.map_append, List.map_cons, hkey])
          (fun y hy => hok y (by simp [hy]))
        have hrun' := hrun
        try simp only [Step.rg] at hrun'
        refine ⟨st', hrun', ⟨?_, ?_, ?_, ?_, ?_, ?_, hdone.s, ?_⟩⟩
        · rw [hdone.mgr]; simp
        · rw [hdone.err]; simp [errAfter]
        · rw [hdone.total]; simp only [List.length_cons]; omega
        · rw [hdone.valid]; simp only [List.length_cons]; omega
        · rw [hdone.invalid]
        · rw [hdone.incomplete]
        · rw [hdone.rep]; simp

/-! ## both passes, any per-record outcome -/

theorem finish_counts (p1 : P1 F) (p2 : P2 F) (tail : List Byte) (htail : TailOK tail) (hs : ∃ l' sk', p2.s = G l' tail sk')
    (hv : p2.valid = p1.count) (hinv : p2.invalid = 0) :
    (finish p1 p2).sev = p2.fileErr ∧ (finish p1 p2).mgr = p2.mgr ∧
    (finish p1 p2).created = p1.count ∧ (finish p1 p2).notCreated = p1.notCreated ∧ (finish p1 p2).valid = p2.valid ∧
    (finish p1 p2).invalid = 0 ∧ (finish p1 p2).reported = p2.reported := by
  obtain ⟨l', sk', hs⟩ := hs
  obtain ⟨t1, t2, t3⟩ := htail l' sk'
  unfold finish
  rw [hs]
  simp only [t1, if_true, hinv, hv, bne_self_eq_false, t2, t3, Nat.lt_irrefl, gt_iff_lt, if_false, Bool.not_true, finalVerdict]
  simp

theorem readDataSection_steps (ops : FloatOps F) (lex : LexCfg) (cfg : RWCfg) (hcfg : cfg.skipInstanceSkipsComments = true)
    (d : Dict) (strict : Bool) (sp tail : List Byte) (hsp : sp.all isSpace = true) (htail : TailOK tail)
    (xs : List (Step F)) (g0 : List Byte) (hg0 : Seps g0)
    (h1 : ∀ x ∈ xs, Rec1OK d x.rg) (hnd : (xs.map (·.r.id)).Nodup)
    (h2 : ∀ x ∈ xs, StepOK ops lex cfg d strict
            (Mgr.lookup d ({ insts := xs.map (fun x => mkInst d x.rg) } : Mgr F)) x) :
    ∃ res, readDataSection ops lex cfg d strict false (g0 ++ renderRecs (xs.map Step.rg) (endsec sp tail)) = .ok res ∧
      res.mgr.insts = xs.map (·.out) ∧ res.sev = errAfter .null xs ∧ res.created = xs.length ∧
      res.notCreated = 0 ∧ res.valid = xs.length ∧ res.invalid = 0 ∧
      res.reported = (xs.map (·.sev)).reverse := by
  have hnd1 : ((xs.map Step.rg).map (·.1.id)).Nodup := by simpa [List.map_map, Step.rg, Function.comp_def] using hnd
  have hmk : (xs.map Step.rg).map (mkInst d) = xs.map (fun x => mkInst d x.rg) := by simp [List.map_map, Function.comp_def]
  obtain ⟨l1, hp1⟩ := readData1_recs cfg hcfg d sp tail hsp (xs.map Step.rg) g0 hg0
    (by intro rg hrg; obtain ⟨x, hx, rfl⟩ := List.mem_map.mp hrg; exact h1 x hx) hnd1
  rw [hmk] at hp1
  simp only [List.length_map] at hp1
  rw [readDataSection_eq]
  simp only [bind, Except.bind, hp1, Nat.lt_irrefl, gt_iff_lt, if_false, pure, Except.pure]
  have key : ∃ st', readData2Loop ops lex cfg d strict
      ((foundEndSec { right := g0 ++ renderRecs (xs.map Step.rg) (endsec sp tail), skipws := false }).2.right.length + 3)
      { mgr := { insts := xs.map (fun x => mkInst d x.rg) }, fileErr := .null, total := 0, valid := 0, invalid := 0, incomplete := 0,
        warnings := 0, s := (foundEndSec { right := g0 ++ renderRecs (xs.map Step.rg) (endsec sp tail), skipws := false }).2 }
      (foundEndSec { right := g0 ++ renderRecs (xs.map Step.rg) (endsec sp tail), skipws := false }).1 = .ok st' ∧
      st'.mgr.insts = xs.map (·.out) ∧ st'.fileErr = errAfter .null xs ∧ st'.valid = xs.length ∧ st'.invalid = 0 ∧
      (∃ l' sk', st'.s = G l' tail sk') ∧ st'.reported = (xs.map (·.sev)).reverse := by
    rcases foundEndSec_gap g0 hg0 (xs.map Step.rg) sp tail hsp [] false with ⟨hnil, l2, hfe⟩ | ⟨l2, t, ht, hfe⟩
    · have hfe' : foundEndSec { right := g0 ++ renderRecs (xs.map Step.rg) (endsec sp tail), skipws := false } = (true, G l2 tail false) := hfe
      rw [hfe']
      have hxs : xs = [] := by simpa using hnil
      subst hxs
      refine ⟨({ mgr := { insts := [] }, fileErr := .null, total := 0, valid := 0, invalid := 0, incomplete := 0,
                 warnings := 0, s := G l2 tail false } : P2 F), ?_, ?_⟩
      · simp only
        unfold readData2Loop
        simp only [G_good, Bool.not_true, Bool.and_false, Bool.false_eq_true, if_false, pure, Except.pure]
        rfl
      · exact ⟨rfl, rfl, rfl, rfl, ⟨l2, false, rfl⟩, rfl⟩
    · have hfe' : foundEndSec { right := g0 ++ renderRecs (xs.map Step.rg) (endsec sp tail), skipws := false } =
          (false, G l2 (t ++ renderRecs (xs.map Step.rg) (endsec sp tail)) false) := hfe
      rw [hfe']
      obtain ⟨st', hrun, hdone⟩ := readData2Loop_steps ops lex cfg d strict
        (Mgr.lookup d ({ insts := xs.map (fun x => mkInst d x.rg) } : Mgr F)) sp tail hsp xs
        ({ mgr := { insts := xs.map (fun x => mkInst d x.rg) }, fileErr := .null, total := 0, valid := 0, invalid := 0, incomplete := 0,
           warnings := 0, s := G l2 (t ++ renderRecs (xs.map Step.rg) (endsec sp tail)) false } : P2 F) [] t l2
        ((t ++ renderRecs (xs.map Step.rg) (endsec sp tail)).length + 3) ht rfl
        (by have := renderRecs_length (xs.map Step.rg) (endsec sp tail); simp only [List.length_append, List.length_map] at this ⊢; omega)
        (by simp) (by intro i hi; simp at hi) hnd rfl h2
      refine ⟨st', hrun, ?_, hdone.err, ?_, hdone.invalid, hdone.s, ?_⟩
      · simpa using hdone.mgr
      · simpa using hdone.valid
      · simpa using hdone.rep
  obtain ⟨st', hrun, hm, herr, hv, hinv, hs, hrep⟩ := key
  rw [hrun]
  simp only
  obtain ⟨f1, f2, f3, f4, f5, f6, f7⟩ := finish_counts
    ({ mgr := { insts := xs.map (fun x => mkInst d x.rg) }, count := xs.length, notCreated := 0, s := G l1 tail false } : P1 F) st' tail htail hs hv hinv
  refine ⟨_, rfl, ?_, ?_, f3, f4, ?_, f6, ?_⟩
  · rw [f2, hm]
  · rw [f1, herr]
  · rw [f5, hv]
  · rw [f7, hrep]

/-! ## parameter lists with any per-parameter severity -/

/-- how `SDAI_Application_instance::STEPread` accumulates the severities of the attributes it reads -/
def accum (err : Sev) (sevs : List Sev) : Sev :=
  sevs.foldl (fun e sv => if sv.toInt ≤ Sev.usermsg.toInt then e.greater sv else e) err

/-- what the attributes themselves report (`IR.asev`): the same merge without the derived attributes -/
def aaccum (qs : List (Param F × Sev)) : Sev := qs.foldr (fun q rest => attrSev q.1.a q.2 rest) .null

/-- `STEPattribute::STEPread` reads the token with severity `sev` to the value wherever it stands, in front of the
    layout `after` and a delimiter, and rests at the delimiter; `skipws` stays as it was or is switched off -/
def ParamRd (env : Env F) (strict : Bool) (p : Param F) (sev : Sev) : Prop :=
  p.a.redefining = false ∧
  (∃ c u, p.tok = c :: u ∧ isSpace c = false ∧ c ≠ 47 ∧ c ≠ 92) ∧
  Seps p.before ∧
  ∀ (l : List Byte) (sk : Bool) (d : Byte) (rest : List Byte), (d = 44 ∨ d = 41) →
    ∃ sk', (sk' = sk ∨ sk' = false) ∧ attrSTEPread env strict p.a (G l (p.tok ++ (p.after ++ d :: rest)) sk) =
      .ok (sev, p.v, G (p.after.reverse ++ (p.tok.reverse ++ l)) (d :: rest) sk')

theorem skflag_trans {a b c : Bool} (h1 : b = a ∨ b = false) (h2 : c = b ∨ c = false) : c = a ∨ c = false := by
  rcases h2 with rfl | rfl
  · exact h1
  · exact Or.inr rfl

theorem readAttrs_params_sev (env : Env F) (strict : Bool) (qs : List (Param F × Sev)) (hne : qs ≠ [])
    (hok : ∀ q ∈ qs, ParamRd env strict q.1 q.2) :
    ∀ (err : Sev) (l : List Byte) (c : Byte) (sk : Bool) (rest : List Byte),
      ∃ sk', (sk' = sk ∨ sk' = false) ∧
        readAttrs env strict (qs.map (·.1.a)) err c (G l (renderParams (qs.map (·.1)) ++ rest) sk) =
        .ok ⟨accum err (qs.map (·.2)), qs.map (·.1.v), G ((renderParams (qs.map (·.1))).reverse ++ l) rest sk', aaccum qs⟩ := by
  induction qs with
  | nil => exact absurd rfl hne
  | cons q qs ih =>
    intro err l c sk rest
    obtain ⟨p, sev⟩ := q
    obtain ⟨hred, ⟨c0, u0, htok, hc0, h47, h92⟩, hbef, hread⟩ : ParamRd env strict p sev := hok (p, sev) (by simp)
    cases qs with
    | nil =>
      obtain ⟨sk', hsk, hr⟩ := hread (p.before.reverse ++ l) sk 41 rest (Or.inr rfl)
      refine ⟨sk', hsk, ?_⟩
      simp only [List.map_cons, List.map_nil, renderParams]
      unfold readAttrs
      have e1 : p.before ++ (p.tok ++ (p.after ++ [41])) ++ rest = p.before ++ c0 :: (u0 ++ (p.after ++ 41 :: rest)) := by
        rw [htok]; simp
      rw [e1, readTokenSeparator_seps p.before hbef l c0 _ sk hc0 h47 h92]
      have e2 : c0 :: (u0 ++ (p.after ++ 41 :: rest)) = p.tok ++ (p.after ++ 41 :: rest) := by rw [htok]; simp
      rw [e2]
      simp only [hred, Bool.false_eq_true, if_false, hr, bind, Except.bind, pure, Except.pure]
      rw [shiftInto_good c _ 41 rest sk' (by decide)]
      simp [missingCheck, defaults, accum, htok, aaccum]
    | cons q2 qs' =>
      obtain ⟨sk1, hsk1, hr⟩ := hread (p.before.reverse ++ l) sk 44 (renderParams ((q2 :: qs').map (·.1)) ++ rest) (Or.inl rfl)
      obtain ⟨sk', hsk', hrec⟩ := ih (by simp) (fun x hx => hok x (by simp [hx]))
        (if sev.toInt ≤ Sev.usermsg.toInt then err.greater sev else err)
        (44 :: (p.after.reverse ++ (p.tok.reverse ++ (p.before.reverse ++ l)))) 44 sk1 rest
      refine ⟨sk', skflag_trans hsk1 hsk', ?_⟩
      simp only [List.map_cons, renderParams] at hrec ⊢
      unfold readAttrs
      have e1 : p.before ++ (p.tok ++ (p.after ++ 44 :: renderParams (q2.1 :: qs'.map (·.1)))) ++ rest =
          p.before ++ c0 :: (u0 ++ (p.after ++ 44 :: (renderParams (q2.1 :: qs'.map (·.1)) ++ rest))) := by
        rw [htok]; simp
      rw [e1, readTokenSeparator_seps p.before hbef l c0 _ sk hc0 h47 h92]
      have e2 : c0 :: (u0 ++ (p.after ++ 44 :: (renderParams (q2.1 :: qs'.map (·.1)) ++ rest))) =
          p.tok ++ (p.after ++ 44 :: (renderParams (q2.1 :: qs'.map (·.1)) ++ rest)) := by rw [htok]; simp
      rw [e2]
      simp only [List.map_cons] at hr
      simp only [hred, Bool.false_eq_true, if_false, hr, bind, Except.bind, pure, Except.pure]
      rw [shiftInto_good c _ 44 _ sk1 (by decide)]
      have e3 : (!((44 : Byte) == 44 || (44 : Byte) == 41)) = false := by decide
      have e4 : ((44 : Byte) == 41) = false := by decide
      simp only [e3, e4, Bool.false_eq_true, if_false]
      rw [hrec]
      simp [htok, accum, aaccum]

theorem instSTEPread_params_sev (env : Env F) (strict : Bool) (qs : List (Param F × Sev)) (hne : qs ≠ [])
    (hok : ∀ q ∈ qs, ParamRd env strict q.1 q.2) (l : List Byte) (sk : Bool) (rest : List Byte) :
    ∃ sk', (sk' = sk ∨ sk' = false) ∧
      instSTEPread env strict (qs.map (·.1.a)) (G l (40 :: (renderParams (qs.map (·.1)) ++ rest)) sk) =
      .ok ⟨accum .null (qs.map (·.2)), qs.map (·.1.v), G ((40 :: renderParams (qs.map (·.1))).reverse ++ l) rest sk', aaccum qs⟩ := by
  cases qs with
  | nil => exact absurd rfl hne
  | cons q qs =>
    obtain ⟨p, sev⟩ := q
    obtain ⟨hred, ⟨c0, u0, htok, hc0, h47, h92⟩, hbef, hread⟩ : ParamRd env strict p sev := hok (p, sev) (by simp)
    let p' : Param F := { p with before := [] }
    have hok' : ∀ x ∈ (p', sev) :: qs, ParamRd env strict x.1 x.2 := by
      intro x hx
      rcases List.mem_cons.mp hx with rfl | hx
      · exact ⟨hred, ⟨c0, u0, htok, hc0, h47, h92⟩, Seps.blanks [] (by simp), hread⟩
      · exact hok x (by simp [hx])
    obtain ⟨sk', hsk, hr⟩ := readAttrs_params_sev env strict ((p', sev) :: qs) (by simp) hok' .null (p.before.reverse ++ 40 :: l) 40 sk rest
    refine ⟨sk', hsk, ?_⟩
    unfold instSTEPread
    rw [show (G l (40 :: (renderParams (((p, sev) :: qs).map (·.1)) ++ rest)) sk).ws = G l (40 :: (renderParams (((p, sev) :: qs).map (·.1)) ++ rest)) sk
      from ws_good0 l 40 _ sk (by decide)]
    simp only [bind, Except.bind, pure, Except.pure]
    rw [shiftInto_good 0 l 40 _ sk (by decide)]
    simp only [bne_self_eq_false, Bool.false_eq_true, if_false, List.map_cons, List.isEmpty_cons]
    have hhead : ∃ c1 u1, renderParams (p' :: qs.map (·.1)) ++ rest = c1 :: u1 ∧ isSpace c1 = false ∧ c1 ≠ 47 ∧ c1 ≠ 92 := by
      cases hq : qs.map (·.1) with
      | nil => exact ⟨c0, u0 ++ (p.after ++ 41 :: rest), by simp [renderParams, p', htok], hc0, h47, h92⟩
      | cons q qs' =>
        exact ⟨c0, u0 ++ (p.after ++ 44 :: (renderParams (q :: qs') ++ rest)), by simp [renderParams, p', htok], hc0, h47, h92⟩
    obtain ⟨c1, u1, h1, hc1, h471, h921⟩ := hhead
    have e1 : renderParams (p :: qs.map (·.1)) ++ rest = p.before ++ c1 :: u1 := by
      rw [renderParams_cons, List.append_assoc, h1]
    rw [e1, readTokenSeparator_seps p.before hbef (40 :: l) c1 u1 sk hc1 h471 h921, ← h1]
    simp only [List.map_cons] at hr
    have hpa : p'.a = p.a := rfl
    have hpv : p'.v = p.v := rfl
    rw [hpa, hpv] at hr
    rw [hr]
    simp [renderParams_cons p (qs.map (·.1))]
    exact ⟨rfl, rfl⟩

/-- **`ReadInstance` on a record whose parameters are read with any severities** (`skipws` off, as in a data section):
    every parameter is read to its value, the record's severity is the accumulated one, the stream is left right after
    the record's `;` — by the `;` test when the severity does not trigger the resynchronisation, by the
    resynchronisation otherwise -/
theorem readInstance_params (ops : FloatOps F) (lex : LexCfg) (cfg : RWCfg) (d : Dict) (strict : Bool)
    (hskip : cfg.skipInstanceSkipsComments = true) (st : P2 F)
    (r : Rec F) (hlex : r.Lex) (qs : List (Param F × Sev)) (hqs : r.ps = qs.map (·.1))
    (hok : ∀ q ∈ qs, ParamRd { ops := ops, lex := lex, cfg := cfg, dict := d, lookup := Mgr.lookup d st.mgr } strict q.1 q.2)
    (hscan : ∀ q ∈ r.ps, ParamScan q) (l rest : List Byte) (hs : st.s = G l (r.text rest) false)
    (inst : MInst F) (hfind : st.mgr.find? r.id = some inst) (hnew : inst.state = .new) (hcx : inst.complex = false)
    (p : MPart F) (hparts : inst.parts = [p]) (e : EntityD) (hent : d.entity? p.name = some e)
    (hattrs : e.attrs = r.ps.map (·.a)) :
    ∃ l', readInstance ops lex cfg d strict st =
      .ok { s := G l' rest false,
            inst := some { inst with parts := [{ p with vals := r.ps.map (·.v) }], state := stateOf (accum .null (qs.map (·.2))) },
            reported := some (accum .null (qs.map (·.2))), left := some .null } := by
  have hne : qs ≠ [] := by
    intro h; rw [h] at hqs; exact hlex.pne (by simpa using hqs)
  have hrd : ∀ L, instSTEPread { ops := ops, lex := lex, cfg := cfg, dict := d, lookup := Mgr.lookup d st.mgr } strict
      e.attrs (G L (40 :: (renderParams r.ps ++ r.t4 rest)) false) =
        .ok ⟨accum .null (qs.map (·.2)), r.ps.map (·.v), G ((40 :: renderParams r.ps).reverse ++ L) (r.t4 rest) false, aaccum qs⟩ := by
    intro L
    obtain ⟨sk', hsk, h⟩ := instSTEPread_params_sev _ strict qs hne hok L false (r.t4 rest)
    have : sk' = false := by rcases hsk with h | h <;> exact h
    subst this
    rw [hattrs, hqs]
    simpa [List.map_map, Function.comp_def] using h
  by_cases hres : (cfg.errorResyncsFromStart && decide ((accum .null (qs.map (·.2))).toInt ≤ Sev.warning.toInt)) = true
  · simp only [Bool.and_eq_true, decide_eq_true_eq] at hres
    exact readInstance_resync ops lex cfg d strict hres.1 hskip st r hlex hscan l rest false hs inst hfind hnew hcx p hparts e hent
      _ _ (fun L => ⟨_, _, hrd L, by rw [readTokenSeparator_skipws]⟩) hres.2
  · exact readInstance_semi ops lex cfg d strict st r hlex l rest false hs inst hfind hnew hcx p hparts e hent _ _ false _ hrd
      (by simpa using hres)

/-! ## garbage in the place of a value: `CheckRemainingInput` skips to the delimiter and reports WARNING -/

theorem skipTo_junk (cfg : LexCfg) (ds : List Byte) (junk : List Byte) (hj : ∀ b ∈ junk, delimAt cfg ds b = false)
    (d : Byte) (hd : delimAt cfg ds d = true) (rest : List Byte) :
    ∀ (c : Byte) (l : List Byte), skipTo cfg ds c l (junk ++ d :: rest) = (d, d :: (junk.reverse ++ l), rest, false) := by
  induction junk with
  | nil => intro c l; simp [skipTo, hd]
  | cons b t ih =>
    intro c l
    have hb : delimAt cfg ds b = false := hj b (by simp)
    simp only [List.cons_append, skipTo, hb, Bool.false_eq_true, if_false]
    rw [ih (fun x hx => hj x (by simp [hx]))]
    simp

theorem skipToRec_junk (cfg : LexCfg) (ds : List Byte) (junk : List Byte) (hj : ∀ b ∈ junk, delimAt cfg ds b = false)
    (hsemi : ∀ b ∈ junk, b ≠ 59) (d : Byte) (hd : delimAt cfg ds d = true) (rest : List Byte) :
    ∀ (c : Byte) (l : List Byte),
      skipToRec cfg ds c l (junk ++ d :: rest) = (d, d :: (junk.reverse ++ l), rest, false, false) := by
  induction junk with
  | nil => intro c l; simp [skipToRec, hd]
  | cons b t ih =>
    intro c l
    have hb : delimAt cfg ds b = false := hj b (by simp)
    have h59 : (b == 59) = false := by simpa using hsemi b (by simp)
    simp only [List.cons_append, skipToRec, hb, Bool.false_eq_true, if_false, h59]
    rw [ih (fun x hx => hj x (by simp [hx])) (fun x hx => hsemi x (by simp [hx]))]
    simp

/-- the recovery loop of either shape over a text without delimiters (and without `;` where the loop ends at one) -/
theorem skipGarbage_junk (cfg : LexCfg) (ds : List Byte) (junk : List Byte) (hj : ∀ b ∈ junk, delimAt cfg ds b = false)
    (hsemi : cfg.criStopsAtSemicolon = true → ∀ b ∈ junk, b ≠ 59) (d : Byte) (hd : delimAt cfg ds d = true) (rest : List Byte)
    (c : Byte) (l : List Byte) :
    skipGarbage cfg ds c l (junk ++ d :: rest) = (d, d :: (junk.reverse ++ l), rest, false, false) := by
  unfold skipGarbage
  cases hs : cfg.criStopsAtSemicolon
  · simp [skipTo_junk cfg ds junk hj d hd rest c l]
  · simp [skipToRec_junk cfg ds junk hj (hsemi hs) d hd rest c l]

/-- a text without delimiters (and, where NUL counts as one, without NUL; without `;` where the recovery loop ends at one)
    that starts with neither a blank nor `/`, in front of a delimiter: everything up to the delimiter is skipped as
    "invalid value", severity WARNING -/
theorem cri_junk (cfg : LexCfg) (j0 : Byte) (js : List Byte) (hj0s : isSpace j0 = false) (hj047 : j0 ≠ 47)
    (hj : ∀ b ∈ j0 :: js, delimAt cfg attrDelims b = false)
    (hsemi : cfg.criStopsAtSemicolon = true → ∀ b ∈ j0 :: js, b ≠ 59)
    (l rest : List Byte) (d : Byte) (f sk : Bool) (e : Sev)
    (hd : d = 44 ∨ d = 41) :
    checkRemainingInput cfg (some attrDelims)
        { left := l, right := j0 :: (js ++ d :: rest), eof := false, fail := f, bad := false, skipws := sk } e =
      (G ((j0 :: js).reverse ++ l) (d :: rest) sk, e.greater .warning) := by
  have hdd : delimAt cfg attrDelims d = true := by
    apply delimAt_of_isDelim; rcases hd with rfl | rfl <;> decide
  have hss := sepSkip_stop cfg l [] j0 (js ++ d :: rest) sk (by simp) hj0s hj047
  simp only [List.nil_append, List.reverse_nil] at hss
  have hj0 : delimAt cfg attrDelims j0 = false := hj j0 (by simp)
  have hsk := skipGarbage_junk cfg attrDelims (j0 :: js) hj hsemi d hdd rest j0 l
  simp only [List.cons_append] at hsk
  simp only [checkRemainingInput, IStream.clear, Bool.false_eq_true, if_false, hss, peekC_good, hj0, hsk, hdd, if_true,
    Bool.not_false, Bool.true_and]
  rw [show IStream.putback d { left := d :: ((j0 :: js).reverse ++ l), right := rest, eof := false, fail := false, bad := false, skipws := sk } =
    G ((j0 :: js).reverse ++ l) (d :: rest) sk from putback_good d _ rest sk]

/-! ## which reader flags which violation (attribute level, any position in a file, any layout) -/

/-- `$` for a required attribute in strict mode: INCOMPLETE, the stream rests at the delimiter -/
theorem attr_dollar_required (env : Env F) (a : AttrD) (hopt : a.optional = false) (hder : a.derived = false)
    (hcfg : env.lex.criSkipsComments = true) (l : List Byte) (sk : Bool) (seps : List Byte) (hs : Seps seps)
    (d : Byte) (rest : List Byte) (hd : d = 44 ∨ d = 41) :
    attrSTEPread env true a (G l (36 :: (seps ++ d :: rest)) sk) =
      .ok (.incomplete, nullOf a, G (seps.reverse ++ 36 :: l) (d :: rest) sk) := by
  unfold attrSTEPread
  rw [show (G l (36 :: (seps ++ d :: rest)) sk).ws = G l (36 :: (seps ++ d :: rest)) sk from ws_good0 l 36 _ sk (by decide)]
  simp only [bind, Except.bind, pure, Except.pure]
  rw [show (G l (36 :: (seps ++ d :: rest)) sk).peekC = (36, G l (36 :: (seps ++ d :: rest)) sk) from peekC_good l 36 _ sk]
  simp only [hder, Bool.false_eq_true, if_false, beq_self_eq_true, Bool.true_or, if_true]
  rw [show (G l (36 :: (seps ++ d :: rest)) sk).ignore1 = G (36 :: l) (seps ++ d :: rest) sk from ignore1_good l 36 _ sk]
  rw [cri_seps env.lex hcfg seps hs (36 :: l) rest d false sk .null hd]
  simp [hopt]

/-- `$` for a required aggregate (or any type for which the lenient mode has no filler value), either mode -/
theorem attr_dollar_required_aggr (env : Env F) (strict : Bool) (a : AttrD) (ety : ElemTy) (hty : a.ty = .aggr ety)
    (hopt : a.optional = false) (hder : a.derived = false)
    (hcfg : env.lex.criSkipsComments = true) (l : List Byte) (sk : Bool) (seps : List Byte) (hs : Seps seps)
    (d : Byte) (rest : List Byte) (hd : d = 44 ∨ d = 41) :
    attrSTEPread env strict a (G l (36 :: (seps ++ d :: rest)) sk) =
      .ok (.incomplete, nullOf a, G (seps.reverse ++ 36 :: l) (d :: rest) sk) := by
  unfold attrSTEPread
  rw [show (G l (36 :: (seps ++ d :: rest)) sk).ws = G l (36 :: (seps ++ d :: rest)) sk from ws_good0 l 36 _ sk (by decide)]
  simp only [bind, Except.bind, pure, Except.pure]
  rw [show (G l (36 :: (seps ++ d :: rest)) sk).peekC = (36, G l (36 :: (seps ++ d :: rest)) sk) from peekC_good l 36 _ sk]
  simp only [hder, Bool.false_eq_true, if_false, beq_self_eq_true, Bool.true_or, if_true]
  rw [show (G l (36 :: (seps ++ d :: rest)) sk).ignore1 = G (36 :: l) (seps ++ d :: rest) sk from ignore1_good l 36 _ sk]
  rw [cri_seps env.lex hcfg seps hs (36 :: l) rest d false sk .null hd]
  cases strict <;> simp [hopt, hty]

/-- a value (anything but `*`, without delimiters) for a derived attribute: WARNING, skipped to the delimiter -/
theorem attr_derived_value (env : Env F) (strict : Bool) (a : AttrD) (hder : a.derived = true)
    (j0 : Byte) (js : List Byte) (hj0s : isSpace j0 = false) (hj047 : j0 ≠ 47) (hj042 : j0 ≠ 42)
    (hj : ∀ b ∈ j0 :: js, delimAt env.lex attrDelims b = false)
    (hsemi : env.lex.criStopsAtSemicolon = true → ∀ b ∈ j0 :: js, b ≠ 59)
    (l : List Byte) (sk : Bool) (d : Byte) (rest : List Byte) (hd : d = 44 ∨ d = 41) :
    attrSTEPread env strict a (G l (j0 :: (js ++ d :: rest)) sk) =
      .ok (.warning, .derived, G ((j0 :: js).reverse ++ l) (d :: rest) sk) := by
  unfold attrSTEPread
  rw [show (G l (j0 :: (js ++ d :: rest)) sk).ws = G l (j0 :: (js ++ d :: rest)) sk from ws_good0 l j0 _ sk hj0s]
  simp only [bind, Except.bind, pure, Except.pure]
  rw [show (G l (j0 :: (js ++ d :: rest)) sk).peekC = (j0, G l (j0 :: (js ++ d :: rest)) sk) from peekC_good l j0 _ sk]
  have e42 : (j0 == 42) = false := by simpa using hj042
  simp only [hder, if_true, e42, Bool.false_eq_true, if_false]
  rw [show checkRemainingInput env.lex (some attrDelims) (G l (j0 :: (js ++ d :: rest)) sk) Sev.warning =
    (G ((j0 :: js).reverse ++ l) (d :: rest) sk, Sev.warning.greater .warning) from
    cri_junk env.lex j0 js hj0s hj047 hj hsemi l rest d false sk .warning hd]
  rfl

/-- something that starts like no integer (a string, an enumeration item, a keyword, …; without delimiters) for an
    INTEGER attribute: `ReadInteger` extracts nothing, `CheckRemainingInput` skips it: WARNING, value unset -/
theorem attr_integer_junk (env : Env F) (strict : Bool) (a : AttrD) (hty : a.ty = .one .integer) (hder : a.derived = false)
    (j0 : Byte) (js : List Byte) (hj0s : isSpace j0 = false) (hj047 : j0 ≠ 47) (hj036 : j0 ≠ 36)
    (hj0d : isDigit j0 = false) (hj043 : j0 ≠ 43) (hj045 : j0 ≠ 45)
    (hj : ∀ b ∈ j0 :: js, delimAt env.lex attrDelims b = false)
    (hsemi : env.lex.criStopsAtSemicolon = true → ∀ b ∈ j0 :: js, b ≠ 59)
    (l : List Byte) (sk : Bool) (d : Byte) (rest : List Byte) (hd : d = 44 ∨ d = 41) :
    attrSTEPread env strict a (G l (j0 :: (js ++ d :: rest)) sk) =
      .ok (.warning, .one (.atom .unset), G ((j0 :: js).reverse ++ l) (d :: rest) sk) := by
  have hj0 : delimAt env.lex attrDelims j0 = false := hj j0 (by simp)
  have h44 : j0 ≠ 44 := by intro h; subst h; simp [delimAt, isDelim, attrDelims] at hj0
  have h41 : j0 ≠ 41 := by intro h; subst h; simp [delimAt, isDelim, attrDelims] at hj0
  unfold attrSTEPread
  rw [show (G l (j0 :: (js ++ d :: rest)) sk).ws = G l (j0 :: (js ++ d :: rest)) sk from ws_good0 l j0 _ sk hj0s]
  simp only [bind, Except.bind, pure, Except.pure]
  rw [show (G l (j0 :: (js ++ d :: rest)) sk).peekC = (j0, G l (j0 :: (js ++ d :: rest)) sk) from peekC_good l j0 _ sk]
  have e36 : (j0 == 36) = false := by simpa using hj036
  have e44 : (j0 == 44) = false := by simpa using h44
  have e41 : (j0 == 41) = false := by simpa using h41
  simp only [hder, Bool.false_eq_true, if_false, e36, e44, e41, Bool.or_self, hty]
  rw [scalarNodeReadAttr_integer]
  have hri : readInteger env.lex (some attrDelims) (G l (j0 :: (js ++ d :: rest)) sk) .null =
      (none, G ((j0 :: js).reverse ++ l) (d :: rest) sk, .warning) := by
    simp only [readInteger]
    rw [show (G l (j0 :: (js ++ d :: rest)) sk).ws = G l (j0 :: (js ++ d :: rest)) sk from ws_good0 l j0 _ sk hj0s]
    have hscan : scanInt longMin longMax l (j0 :: (js ++ d :: rest)) = (⟨0, true⟩, l, j0 :: (js ++ d :: rest)) := by
      have e43 : (j0 == 43) = false := by simpa using hj043
      have e45 : (j0 == 45) = false := by simpa using hj045
      have hts : takeSign l (j0 :: (js ++ d :: rest)) = (false, l, j0 :: (js ++ d :: rest)) := by
        unfold takeSign
        split
        · rename_i heq; simp at heq; exact absurd heq.1 hj045
        · rename_i heq; simp at heq; exact absurd heq.1 hj043
        · rfl
      simp [scanInt, hts, spanDigits, hj0d]
    rw [extractLong_G l j0 _ sk hj0s, hscan]
    have hcri := cri_junk env.lex j0 js hj0s hj047 hj hsemi l rest d true sk
    simp only [IStream.failed, Bool.or_true, Bool.true_or, Bool.not_true, Bool.false_eq_true, if_false, List.isEmpty_cons]
    cases hrep : env.lex.intReportsFail <;>
      simp only [Sev.warnIf, Bool.false_and, Bool.and_false, Bool.true_and, Bool.and_true, Bool.not_false, if_true, if_false,
        Bool.false_eq_true, Bool.and_self] <;>
      rw [hcri _ hd] <;> rfl
  rw [readIntegerS_of _ _ _ _ (by rw [hri]; exact intSentinel_none _), hri]
  rfl

/-- a reference `#id` to an instance the file does not have, or to one of a type that does not conform to the
    attribute's entity type: WARNING, the attribute stays unset, the stream rests at the delimiter -/
theorem attr_ref_bad (env : Env F) (strict : Bool) (a : AttrD) (tg : String) (hty : a.ty = .one (.entity tg)) (hder : a.derived = false)
    (hcfg : env.lex.criSkipsComments = true) (ds : List Byte) (hne : ds ≠ []) (hds : ds.all isDigit = true)
    (hhi : ((digitsVal ds 0 : Nat) : Int) ≤ intMax)
    (hbad : refLookup env.lookup tg ((digitsVal ds 0 : Nat) : Int) ≠ .found)
    (l : List Byte) (sk : Bool) (seps : List Byte) (hs : Seps seps)
    (d : Byte) (rest : List Byte) (hd : d = 44 ∨ d = 41) :
    attrSTEPread env strict a (G l (35 :: (ds ++ (seps ++ d :: rest))) sk) =
      .ok (.warning, .one (.atom .unset),
           G (seps.reverse ++ (ds.reverse ++ 35 :: l)) (d :: rest) sk) := by
  have hnd := seps_head_not_digit seps hs d rest hd
  have hint : isInteger ds = true := isInteger_unsigned ds hne hds
  have hscan := scanInt_token longMin longMax (35 :: l) ds (seps ++ d :: rest) hint (Or.inr hnd)
  have hss : splitSign ds = (false, ds) := splitSign_digits ds hne hds
  have hden : denoteInteger ds = ((digitsVal ds 0 : Nat) : Int) := by simp [denoteInteger, hss]
  obtain ⟨c, u, hcu⟩ : ∃ c u, ds = c :: u := by
    cases ds with
    | nil => exact absurd rfl hne
    | cons c u => exact ⟨c, u, rfl⟩
  have hcd : isDigit c = true := by rw [hcu] at hds; simp at hds; exact hds.1
  have hcs : isSpace c = false := digit_not_space hcd
  unfold attrSTEPread
  rw [show (G l (35 :: (ds ++ (seps ++ d :: rest))) sk).ws = G l (35 :: (ds ++ (seps ++ d :: rest))) sk from ws_good0 l 35 _ sk (by decide)]
  simp only [bind, Except.bind, pure, Except.pure]
  rw [show (G l (35 :: (ds ++ (seps ++ d :: rest))) sk).peekC = (35, G l (35 :: (ds ++ (seps ++ d :: rest))) sk) from peekC_good l 35 _ sk]
  have e36 : ((35 : Byte) == 36) = false := by decide
  have e44 : ((35 : Byte) == 44) = false := by decide
  have e41 : ((35 : Byte) == 41) = false := by decide
  simp only [hder, Bool.false_eq_true, if_false, e36, e44, e41, Bool.or_self, hty]
  rw [scalarNodeReadAttr_entity, scalarNodeRead_entity]
  simp only [readEntityRef, refTail]
  rw [show (G l (35 :: (ds ++ (seps ++ d :: rest))) sk).ws = G l (35 :: (ds ++ (seps ++ d :: rest))) sk from ws_good0 l 35 _ sk (by decide)]
  rw [getChar_G l 35 _ sk (by decide)]
  have hstream : G (35 :: l) (ds ++ (seps ++ d :: rest)) sk = G (35 :: l) (c :: (u ++ (seps ++ d :: rest))) sk := by rw [hcu]; rfl
  simp only [Option.getD_some, beq_self_eq_true, Bool.true_or, Option.isSome_some, Bool.and_self, if_true]
  have hscan' : scanInt longMin longMax (35 :: l) (c :: (u ++ (seps ++ d :: rest))) =
      (⟨((digitsVal ds 0 : Nat) : Int), false⟩, ds.reverse ++ 35 :: l, seps ++ d :: rest) := by
    have := hscan
    rw [hcu] at this
    simp only [List.cons_append] at this
    rw [this, ← hcu, hss, hden]
    have h2 : ¬ ((digitsVal ds 0 : Nat) : Int) > longMax := by
      have : intMax ≤ longMax := by decide
      omega
    simp [h2]
  have hnn : ¬ ((digitsVal ds 0 : Nat) : Int) < intMin := by
    have : intMin ≤ 0 := by decide
    omega
  have hnh : ¬ ((digitsVal ds 0 : Nat) : Int) > intMax := by omega
  rw [hstream, extractInt32_G (35 :: l) c _ sk hcs _ _ _ hscan' hnn hnh]
  have hne2 : (seps ++ d :: rest).isEmpty = false := by
    obtain ⟨x, y, hxy, _⟩ := hnd
    rw [hxy]; rfl
  have hcri := cri_seps env.lex hcfg seps hs (ds.reverse ++ 35 :: l) rest d false sk Sev.null hd
  cases hlk : refLookup env.lookup tg ((digitsVal ds 0 : Nat) : Int) with
  | found => exact absurd hlk hbad
  | wrongType => simp [hne2, IStream.failed, hcri, hlk]; rfl
  | missing => simp [hne2, IStream.failed, hcri, hlk]; rfl


/-- `.WORD.` where the word is no item of the type (`SDAI_Enum::STEPread`): nothing assigned, WARNING, the stream after the
    closing `.` -/
theorem enumRead_undeclared (lex : LexCfg) (k : EnumKind) (optional : Bool) (name : List Byte)
    (hne : name ≠ []) (hname : name.all pw = true) (hfind : findName k.table (name.map toUpper) = none)
    (l : List Byte) (sk : Bool) (R : List Byte) :
    enumRead lex k optional (G l (46 :: (name ++ 46 :: R)) sk) .null =
      (none, G (46 :: (name.reverse ++ 46 :: l)) R sk, .warning) := by
  obtain ⟨n0, nu, rfl⟩ : ∃ n0 nu, name = n0 :: nu := by
    cases name with
    | nil => exact absurd rfl hne
    | cons n0 nu => exact ⟨n0, nu, rfl⟩
  obtain ⟨w, rst, h1, h2, h3⟩ := enumWord_spec n0 (46 :: l) (nu ++ 46 :: R) sk
  have hsplit : (n0 :: nu) ++ (46 :: R) = w ++ rst := by simpa using h1
  have hrst : rst = [] ∨ ∃ c t, rst = c :: t ∧ pw c = false := by
    rcases h3 with ⟨hw, hp, _⟩ | ⟨_, hr, _⟩ | ⟨_, u, hr, _⟩ | ⟨_, x, u, hr, _, hx, _⟩
    · subst hw; simp at h1; exact Or.inr ⟨n0, _, h1.symm, hp⟩
    · exact Or.inl hr
    · exact Or.inr ⟨46, u, hr, pw_not_dot⟩
    · exact Or.inr ⟨x, u, hr, hx⟩
  obtain ⟨ew, er⟩ := prefix_unique pw (n0 :: nu) w (46 :: R) rst hsplit hname h2
    (Or.inr ⟨46, _, rfl, pw_not_dot⟩) hrst
  subst ew er
  have hsw : enumWord n0 { left := n0 :: 46 :: l, right := nu ++ 46 :: R, eof := false, fail := false, bad := false, skipws := sk } =
      (n0 :: nu, 46, { left := 46 :: ((n0 :: nu).reverse ++ 46 :: l), right := R, eof := false, fail := false, bad := false, skipws := sk }) := by
    rcases h3 with ⟨hw, _, _⟩ | ⟨_, hr, _⟩ | ⟨_, u, hr, he⟩ | ⟨_, x, u, hr, hxq, _, _⟩
    · cases hw
    · cases hr
    · simp only [List.cons.injEq, true_and] at hr; subst hr; exact he
    · simp only [List.cons.injEq] at hr; exact absurd hr.1.symm hxq
  have hfin : enumFinish lex k true false (n0 :: nu) 46 Sev.null = (none, Sev.warning) := by
    simp only [List.map_cons] at hfind
    simp [enumFinish, hfind, Sev.warnIf]
    rfl
  simp only [enumRead, readEnum, List.cons_append, ws_good0 _ _ _ _ (show isSpace 46 = false from by decide), IStream.good,
    Bool.not_false, Bool.and_self, Bool.not_true, Bool.false_eq_true, if_false, getInto_good, beq_self_eq_true, Bool.true_or,
    if_true, hsw, List.isEmpty_cons, hfin]
  simp


/-- an undeclared enumeration item for an ENUMERATION / BOOLEAN / LOGICAL attribute: WARNING, unset, at the delimiter -/
theorem attr_enum_undeclared (env : Env F) (strict : Bool) (a : AttrD) (ty : ElemTy) (hty : a.ty = .one ty) (het : EnumTy ty)
    (hder : a.derived = false) (hcfg : env.lex.criSkipsComments = true)
    (name : List Byte) (hne : name ≠ []) (hname : name.all pw = true)
    (hfind : findName (enumKindOf ty).table (name.map toUpper) = none)
    (l : List Byte) (sk : Bool) (seps : List Byte) (hs : Seps seps) (d : Byte) (rest : List Byte) (hd : d = 44 ∨ d = 41) :
    attrSTEPread env strict a (G l (46 :: (name ++ [46]) ++ (seps ++ d :: rest)) sk) =
      .ok (.warning, .one (.atom .unset), G (seps.reverse ++ ((46 :: (name ++ [46])).reverse ++ l)) (d :: rest) sk) := by
  have hshape : 46 :: (name ++ [46]) ++ (seps ++ d :: rest) = 46 :: (name ++ 46 :: (seps ++ d :: rest)) := by simp
  unfold attrSTEPread
  rw [hshape, show (G l (46 :: (name ++ 46 :: (seps ++ d :: rest))) sk).ws = G l (46 :: (name ++ 46 :: (seps ++ d :: rest))) sk
    from ws_good0 l 46 _ sk (by decide)]
  simp only [bind, Except.bind, pure, Except.pure]
  rw [show (G l (46 :: (name ++ 46 :: (seps ++ d :: rest))) sk).peekC = (46, G l (46 :: (name ++ 46 :: (seps ++ d :: rest))) sk)
    from peekC_good l 46 _ sk]
  have e36 : ((46 : Byte) == 36) = false := by decide
  have e44 : ((46 : Byte) == 44) = false := by decide
  have e41 : ((46 : Byte) == 41) = false := by decide
  simp only [hder, Bool.false_eq_true, if_false, e36, e44, e41, Bool.or_self, hty]
  have hmain : attrSTEPread.scalarNodeReadAttr env ty a.optional (G l (46 :: (name ++ 46 :: (seps ++ d :: rest))) sk) =
      .ok (.warning, .unset, G (seps.reverse ++ (46 :: (name.reverse ++ 46 :: l))) (d :: rest) sk) := by
    rw [scalarNodeReadAttr_enum env ty het, enumRead_undeclared env.lex (enumKindOf ty) a.optional name hne hname hfind l sk _]
    simp only
    rw [cri_seps env.lex hcfg seps hs _ rest d false sk .warning hd]
    simp [enumValue, valueToAtom]
  rcases het with rfl | rfl | ⟨items, rfl⟩ <;> (simp only [] ; rw [hmain]; simp)

/-- something that is no string literal (does not start with an apostrophe; without delimiters) for a STRING attribute:
    `SDAI_String::STEPread` reads nothing (INCOMPLETE), `CheckRemainingInput` skips the text: WARNING, unset -/
theorem attr_string_junk (env : Env F) (strict : Bool) (a : AttrD) (hty : a.ty = .one .string) (hder : a.derived = false)
    (j0 : Byte) (js : List Byte) (hj0s : isSpace j0 = false) (hj047 : j0 ≠ 47) (hj036 : j0 ≠ 36) (hj039 : j0 ≠ 39)
    (hj : ∀ b ∈ j0 :: js, delimAt env.lex attrDelims b = false)
    (hsemi : env.lex.criStopsAtSemicolon = true → ∀ b ∈ j0 :: js, b ≠ 59)
    (l : List Byte) (sk : Bool) (d : Byte) (rest : List Byte) (hd : d = 44 ∨ d = 41) :
    attrSTEPread env strict a (G l (j0 :: (js ++ d :: rest)) sk) =
      .ok (.warning, .one (.atom .unset), G ((j0 :: js).reverse ++ l) (d :: rest) sk) := by
  have hj0 : delimAt env.lex attrDelims j0 = false := hj j0 (by simp)
  have h44 : j0 ≠ 44 := by intro h; subst h; simp [delimAt, isDelim, attrDelims] at hj0
  have h41 : j0 ≠ 41 := by intro h; subst h; simp [delimAt, isDelim, attrDelims] at hj0
  unfold attrSTEPread
  rw [show (G l (j0 :: (js ++ d :: rest)) sk).ws = G l (j0 :: (js ++ d :: rest)) sk from ws_good0 l j0 _ sk hj0s]
  simp only [bind, Except.bind, pure, Except.pure]
  rw [show (G l (j0 :: (js ++ d :: rest)) sk).peekC = (j0, G l (j0 :: (js ++ d :: rest)) sk) from peekC_good l j0 _ sk]
  have e36 : (j0 == 36) = false := by simpa using hj036
  have e44 : (j0 == 44) = false := by simpa using h44
  have e41 : (j0 == 41) = false := by simpa using h41
  simp only [hder, Bool.false_eq_true, if_false, e36, e44, e41, Bool.or_self, hty]
  unfold attrSTEPread.scalarNodeReadAttr
  simp only [bind, Except.bind, pure, Except.pure]
  rw [scalarNodeRead_string]
  have e39 : (j0 == 39) = false := by simpa using hj039
  have hsr : stringRead (G l (j0 :: (js ++ d :: rest)) sk) .null = ([], G l (j0 :: (js ++ d :: rest)) sk, .incomplete) := by
    simp only [stringRead, IStream.setSkipws, getLiteralStr, ws_good0 _ _ _ _ hj0s, IStream.good, Bool.not_false, Bool.and_self,
      Bool.not_true, Bool.false_eq_true, if_false, e39, List.isEmpty_nil, if_true]
    rfl
  rw [hsr]
  simp only [List.isEmpty_nil, if_true]
  rw [show checkRemainingInput env.lex (some attrDelims) (G l (j0 :: (js ++ d :: rest)) sk) Sev.incomplete =
    (G ((j0 :: js).reverse ++ l) (d :: rest) sk, Sev.incomplete.greater .warning) from
    cri_junk env.lex j0 js hj0s hj047 hj hsemi l rest d false sk .incomplete hd]
  rfl

/-- nothing of a real numeral starts with this character -/
def notNum (c : Byte) : Prop := isDigit c = false ∧ c ≠ 43 ∧ c ≠ 45 ∧ c ≠ 46 ∧ c ≠ 69 ∧ c ≠ 101

theorem realCollect_junk (j0 : Byte) (t : List Byte) (h : notNum j0) : realCollect (j0 :: t) = ([], j0 :: t, .warning) := by
  obtain ⟨hd, h43, h45, h46, h69, h101⟩ := h
  have hs : optSign (j0 :: t) = ([], j0 :: t) := by
    unfold optSign
    split
    · rename_i heq; simp at heq; exact absurd heq.1 h43
    · rename_i heq; simp at heq; exact absurd heq.1 h45
    · rfl
  have hdot : optDot (j0 :: t) = ([], j0 :: t) := by
    unfold optDot
    split
    · rename_i heq; simp at heq; exact absurd heq.1 h46
    · rfl
  have hdg : realDigits (j0 :: t) = ([], j0 :: t) := by simp [realDigits, takeDigits, hd]
  have e1 : (j0 == 101) = false := by simpa using h101
  have e2 : (j0 == 69) = false := by simpa using h69
  have hex : expPart (j0 :: t) = ([], j0 :: t, false, false) := by simp [expPart, e1, e2]
  simp [realCollect, hs, hdg, hdot, hex]

/-- something that starts like no real numeral (without delimiters) for a REAL attribute: nothing is collected, the
    conversion fails, `CheckRemainingInput` skips the text: WARNING, unset -/
theorem attr_real_junk (env : Env F) (strict : Bool) (a : AttrD) (hty : a.ty = .one .real) (hder : a.derived = false)
    (j0 : Byte) (js : List Byte) (hj0s : isSpace j0 = false) (hj047 : j0 ≠ 47) (hj036 : j0 ≠ 36) (hnn : notNum j0)
    (hj : ∀ b ∈ j0 :: js, delimAt env.lex attrDelims b = false)
    (hsemi : env.lex.criStopsAtSemicolon = true → ∀ b ∈ j0 :: js, b ≠ 59)
    (l : List Byte) (sk : Bool) (d : Byte) (rest : List Byte) (hd : d = 44 ∨ d = 41) :
    attrSTEPread env strict a (G l (j0 :: (js ++ d :: rest)) sk) =
      .ok (.warning, .one (.atom .unset), G ((j0 :: js).reverse ++ l) (d :: rest) sk) := by
  have hj0 : delimAt env.lex attrDelims j0 = false := hj j0 (by simp)
  have h44 : j0 ≠ 44 := by intro h; subst h; simp [delimAt, isDelim, attrDelims] at hj0
  have h41 : j0 ≠ 41 := by intro h; subst h; simp [delimAt, isDelim, attrDelims] at hj0
  unfold attrSTEPread
  rw [show (G l (j0 :: (js ++ d :: rest)) sk).ws = G l (j0 :: (js ++ d :: rest)) sk from ws_good0 l j0 _ sk hj0s]
  simp only [bind, Except.bind, pure, Except.pure]
  rw [show (G l (j0 :: (js ++ d :: rest)) sk).peekC = (j0, G l (j0 :: (js ++ d :: rest)) sk) from peekC_good l j0 _ sk]
  have e36 : (j0 == 36) = false := by simpa using hj036
  have e44 : (j0 == 44) = false := by simpa using h44
  have e41 : (j0 == 41) = false := by simpa using h41
  simp only [hder, Bool.false_eq_true, if_false, e36, e44, e41, Bool.or_self, hty]
  have hconv : env.ops.conv (IStream.scanFloat [] []).1 = .invalid := rfl
  have hrr : ∃ e0, (e0 = Sev.null ∨ e0 = Sev.warning) ∧ readReal env.ops env.lex (some attrDelims) (G l (j0 :: (js ++ d :: rest)) sk) .null =
      .ok (none, (checkRemainingInput env.lex (some attrDelims) (G l (j0 :: (js ++ d :: rest)) sk) e0).1,
               (checkRemainingInput env.lex (some attrDelims) (G l (j0 :: (js ++ d :: rest)) sk) e0).2) := by
    refine ⟨Sev.null.warnIf (env.lex.realReportsFail && (env.lex.realFailUnlessBlank || !([] : List Byte).isEmpty)),
      by cases (env.lex.realReportsFail && (env.lex.realFailUnlessBlank || !([] : List Byte).isEmpty))
         · exact Or.inl rfl
         · exact Or.inr rfl, ?_⟩
    simp only [readReal, ws_good0 _ _ _ _ hj0s, IStream.good, Bool.not_false, Bool.and_self, Bool.not_true, Bool.false_eq_true,
      if_false, realCollect_junk j0 _ hnn, List.length_nil, List.reverse_nil, List.nil_append, hconv]
    have : (env.lex.realBuf != 0 && decide (0 ≥ env.lex.realBuf)) = false := by
      cases h : env.lex.realBuf with
      | zero => simp
      | succ n => simp
    simp only [this, Bool.false_eq_true, if_false]
    rfl
  obtain ⟨e0, he0, hrr⟩ := hrr
  have hrrS := readRealS_of env.ops env.lex _ _ _ _ _ _ hrr (realSentinel_none env.ops)
  unfold attrSTEPread.scalarNodeReadAttr
  simp only [hrrS, liftOutcome, bind, Except.bind, pure, Except.pure]
  rw [cri_junk env.lex j0 js hj0s hj047 hj hsemi l rest d false sk e0 hd]
  rcases he0 with rfl | rfl <;> simp [realValue, valueToAtom] <;> rfl

/-- something that starts like no enumeration item (neither `.` nor a letter; without delimiters) for an ENUMERATION /
    BOOLEAN / LOGICAL attribute: `ReadEnum` puts the character back and reports, the text is skipped: WARNING, unset -/
theorem attr_enum_junk (env : Env F) (strict : Bool) (a : AttrD) (ty : ElemTy) (hty : a.ty = .one ty) (het : EnumTy ty)
    (hder : a.derived = false)
    (j0 : Byte) (js : List Byte) (hj0s : isSpace j0 = false) (hj047 : j0 ≠ 47) (hj036 : j0 ≠ 36) (hj046 : j0 ≠ 46)
    (hj0a : isAlpha j0 = false) (hj : ∀ b ∈ j0 :: js, delimAt env.lex attrDelims b = false)
    (hsemi : env.lex.criStopsAtSemicolon = true → ∀ b ∈ j0 :: js, b ≠ 59)
    (l : List Byte) (sk : Bool) (d : Byte) (rest : List Byte) (hd : d = 44 ∨ d = 41) :
    attrSTEPread env strict a (G l (j0 :: (js ++ d :: rest)) sk) =
      .ok (.warning, .one (.atom .unset), G ((j0 :: js).reverse ++ l) (d :: rest) sk) := by
  have hj0 : delimAt env.lex attrDelims j0 = false := hj j0 (by simp)
  have h44 : j0 ≠ 44 := by intro h; subst h; simp [delimAt, isDelim, attrDelims] at hj0
  have h41 : j0 ≠ 41 := by intro h; subst h; simp [delimAt, isDelim, attrDelims] at hj0
  unfold attrSTEPread
  rw [show (G l (j0 :: (js ++ d :: rest)) sk).ws = G l (j0 :: (js ++ d :: rest)) sk from ws_good0 l j0 _ sk hj0s]
  simp only [bind, Except.bind, pure, Except.pure]
  rw [show (G l (j0 :: (js ++ d :: rest)) sk).peekC = (j0, G l (j0 :: (js ++ d :: rest)) sk) from peekC_good l j0 _ sk]
  have e36 : (j0 == 36) = false := by simpa using hj036
  have e44 : (j0 == 44) = false := by simpa using h44
  have e41 : (j0 == 41) = false := by simpa using h41
  have e46 : (j0 == 46) = false := by simpa using hj046
  simp only [hder, Bool.false_eq_true, if_false, e36, e44, e41, Bool.or_self, hty]
  have her : enumRead env.lex (enumKindOf ty) a.optional (G l (j0 :: (js ++ d :: rest)) sk) .null =
      (none, G l (j0 :: (js ++ d :: rest)) sk, .warning) := by
    simp only [enumRead, readEnum, ws_good0 _ _ _ _ hj0s, IStream.good, Bool.not_false, Bool.and_self, Bool.not_true,
      Bool.false_eq_true, if_false, getInto_good, e46, hj0a, Bool.or_self, e44, e41, putback_good]
    rfl
  have hmain : attrSTEPread.scalarNodeReadAttr env ty a.optional (G l (j0 :: (js ++ d :: rest)) sk) =
      .ok (.warning, .unset, G ((j0 :: js).reverse ++ l) (d :: rest) sk) := by
    rw [scalarNodeReadAttr_enum env ty het, her]
    simp only
    rw [show checkRemainingInput env.lex (some attrDelims) (G l (j0 :: (js ++ d :: rest)) sk) Sev.warning =
      (G ((j0 :: js).reverse ++ l) (d :: rest) sk, Sev.warning.greater .warning) from
      cri_junk env.lex j0 js hj0s hj047 hj hsemi l rest d false sk .warning hd]
    simp [enumValue, valueToAtom]
    rfl
  rcases het with rfl | rfl | ⟨items, rfl⟩ <;> (simp only [] ; rw [hmain])

end StepModel.P21.RLemmas

import StepModel.P21.ReaderLemmas27
/-! Externally mapped records with blanks between the outer `(` and the first part (as `STEPcomplex::STEPwrite` emits them:
`#id=(⏎PART(…)⏎…);`): both passes at record level. -/
namespace StepModel.P21.RLemmas
open StepModel StepModel.IStream StepModel.P21 StepModel.P21.Lemmas StepModel.P21.Grammar

variable {F : Type}

theorem readStdKeyword_blanks (sp0 : List Byte) (hsp0 : sp0.all isSpace = true) (x : Byte) (t : List Byte)
    (hx : isSpace x = false) (l : List Byte) (sk : Bool) :
    readStdKeyword (G l (sp0 ++ x :: t) sk) = readStdKeyword (G (sp0.reverse ++ l) (x :: t) sk) := by
  unfold readStdKeyword
  rw [show (G l (sp0 ++ x :: t) sk).ws = G (sp0.reverse ++ l) (x :: t) sk from ws_good l sp0 x t sk hsp0 hx,
    show (G (sp0.reverse ++ l) (x :: t) sk).ws = G (sp0.reverse ++ l) (x :: t) sk from ws_good0 _ x t sk hx]

/-- the part loop of `CreateSubSuperInstance` steps over blanks in front of a part's keyword (`ReadStdKeyword` skips white
    space first); the character handed in only has to differ from `)` -/
theorem complexNames_blanks (stop : Bool) (fuel : Nat) (acc : List String) (err : Sev) (c c' : Byte) (hc : c ≠ 41) (hc' : c' ≠ 41)
    (sp0 : List Byte) (hsp0 : sp0.all isSpace = true) (x : Byte) (t : List Byte) (hx : isSpace x = false)
    (l : List Byte) (sk : Bool) :
    complexNames stop fuel acc err c (G l (sp0 ++ x :: t) sk) = complexNames stop fuel acc err c' (G (sp0.reverse ++ l) (x :: t) sk) := by
  cases fuel with
  | zero => rfl
  | succ n =>
    have e1 : (c != 41) = true := by simpa using hc
    have e2 : (c' != 41) = true := by simpa using hc'
    have hgd : (G l (sp0 ++ x :: t) sk).good = true := rfl
    have hgd' : (G (sp0.reverse ++ l) (x :: t) sk).good = true := rfl
    unfold complexNames
    simp only [hgd, hgd', e1, e2, Bool.and_self, if_true, readStdKeyword_blanks sp0 hsp0 x t hx l sk]

/-- the record's text with blanks `sp0` between the outer `(` and the first part -/
def CRec.textS (r : CRec F) (sp0 : List Byte) (rest : List Byte) : List Byte :=
  r.ds ++ (r.s1 ++ 61 :: (r.s2 ++ 40 :: (sp0 ++ (renderCParts r.parts ++ 41 :: (r.s4 ++ 59 :: rest)))))

theorem createInstance_crecS (cfg : RWCfg) (hcfg : cfg.skipInstanceSkipsComments = true) (d : Dict) (m : Mgr F)
    (r : CRec F) (hlex : r.Lex) (sp0 : List Byte) (hsp0 : sp0.all isSpace = true) (hnone : m.find? r.id = none)
    (hlegal : d.complexSets.contains (sortNames ((r.parts.map (·.name)).filter (fun n => (d.entity? n).isSome))) = true)
    (l g : List Byte) (hg : Seps g) (c : Byte) (k : List Byte) (hc : isSpace c = false) (hc47 : c ≠ 47) (hc92 : c ≠ 92) :
    ∃ l', createInstance cfg d m (G l (r.textS sp0 (g ++ c :: k)) false) = .ok (some (mkCInst d r), G l' (c :: k) false) := by
  obtain ⟨dne, ddig, dhi, h1, h2, h4, pne, hparts⟩ := hlex
  obtain ⟨c0, u, hcu⟩ : ∃ c0 u, r.ds = c0 :: u := by
    cases hd : r.ds with
    | nil => exact absurd hd dne
    | cons c u => exact ⟨c, u, rfl⟩
  have hcd : isDigit c0 = true := by rw [hcu] at ddig; simp at ddig; exact ddig.1
  have hc047 : c0 ≠ 47 := by intro h; rw [h] at hcd; exact absurd hcd (by decide)
  have hc092 : c0 ≠ 92 := by intro h; rw [h] at hcd; exact absurd hcd (by decide)
  obtain ⟨p0, pt, hp0⟩ : ∃ p0 pt, r.parts = p0 :: pt := by
    cases hp : r.parts with
    | nil => exact absurd hp pne
    | cons p0 pt => exact ⟨p0, pt, rfl⟩
  generalize hrest : g ++ c :: k = rest
  let T1 := r.s1 ++ 61 :: (r.s2 ++ 40 :: (sp0 ++ (renderCParts r.parts ++ 41 :: (r.s4 ++ 59 :: rest))))
  obtain ⟨x, xr, hXe, hxd⟩ : ∃ x xr, T1 = x :: xr ∧ isDigit x = false :=
    seps_then r.s1 h1 61 _ (fun c => isDigit c = false) (fun c h => space_not_digit h) (by decide) (by decide)
  have e0 : readTokenSeparator (G l (r.textS sp0 rest) false) = G l (r.textS sp0 rest) false := by
    unfold CRec.textS; rw [hcu]; exact readTokenSeparator_none l c0 _ false (digit_not_space hcd) hc047 hc092
  have e1 : (G l (r.textS sp0 rest) false).extractInt32 = (some r.id, G (r.ds.reverse ++ l) T1 false) := by
    unfold CRec.textS; show (G l (r.ds ++ T1) false).extractInt32 = _
    rw [hXe]; exact extractInt32_digits r.ds dne ddig dhi l x xr false hxd
  have e2 : readTokenSeparator (G (r.ds.reverse ++ l) T1 false) =
      G (r.s1.reverse ++ (r.ds.reverse ++ l)) (61 :: (r.s2 ++ 40 :: (sp0 ++ (renderCParts r.parts ++ 41 :: (r.s4 ++ 59 :: rest))))) false :=
    readTokenSeparator_seps r.s1 h1 (r.ds.reverse ++ l) 61 _ false (by decide) (by decide)
  have e3 : readTokenSeparator (G (61 :: (r.s1.reverse ++ (r.ds.reverse ++ l))) (r.s2 ++ 40 :: (sp0 ++ (renderCParts r.parts ++ 41 :: (r.s4 ++ 59 :: rest)))) false) =
      G (r.s2.reverse ++ 61 :: (r.s1.reverse ++ (r.ds.reverse ++ l))) (40 :: (sp0 ++ (renderCParts r.parts ++ 41 :: (r.s4 ++ 59 :: rest)))) false :=
    readTokenSeparator_seps r.s2 h2 _ 40 _ false (by decide) (by decide)
  have hp0n : isAlpha p0.n0 = true := (hparts p0 (by rw [hp0]; simp)).1
  -- the part loop
  have hhead : ∃ tl, renderCParts r.parts ++ 41 :: (r.s4 ++ 59 :: rest) = p0.n0 :: tl := by
    rw [hp0]
    exact ⟨p0.ns ++ (p0.sA ++ 40 :: (p0.body ++ p0.sB)) ++ (renderCParts pt ++ 41 :: (r.s4 ++ 59 :: rest)), by simp [renderCParts, CPart.text]⟩
  obtain ⟨tl, htl⟩ := hhead
  obtain ⟨lN, hnames⟩ := complexNames_parts cfg.rawValueStaysInRecord r.parts hparts
    ((sp0 ++ (renderCParts r.parts ++ 41 :: (r.s4 ++ 59 :: rest))).length + 3) [] p0.n0
    (sp0.reverse ++ 40 :: (r.s2.reverse ++ 61 :: (r.s1.reverse ++ (r.ds.reverse ++ l)))) false (r.s4 ++ 59 :: rest)
    (by have := renderCParts_length r.parts; simp only [List.length_append]; omega)
    (by intro c1 t' h; rw [hp0] at h; cases h; rfl) (by intro h; exact absurd h pne)
  -- `SkipInstance` from the closing parenthesis to the `;`
  have hT : Passes (41 :: r.s4) := Passes.append (a := [41]) (Passes.plain 41 (by decide)) (Passes.seps h4)
  unfold createInstance
  rw [e0]
  simp only [e1, Option.getD_some, hnone, Option.isSome_none, Bool.false_eq_true, if_false]
  rw [e2, getInto_good 0 _ 61 _ false]
  simp only [bne_self_eq_false, Bool.false_eq_true, if_false]
  rw [e3, peekC_good]
  have e38 : ((40 : Byte) == 38) = false := by decide
  simp only [e38, Bool.false_eq_true, if_false, beq_self_eq_true, if_true, bind, Except.bind, pure, Except.pure]
  rw [show (G (r.s2.reverse ++ 61 :: (r.s1.reverse ++ (r.ds.reverse ++ l))) (40 :: (sp0 ++ (renderCParts r.parts ++ 41 :: (r.s4 ++ 59 :: rest)))) false).ws = _
    from ws_good0 _ 40 _ false (by decide)]
  obtain ⟨c4, t4, h4e, hc441⟩ : ∃ c4 t4, sp0 ++ (renderCParts r.parts ++ 41 :: (r.s4 ++ 59 :: rest)) = c4 :: t4 ∧ c4 ≠ 41 := by
    cases sp0 with
    | nil => exact ⟨p0.n0, tl, by simpa using htl, by intro h; rw [h] at hp0n; exact absurd hp0n (by decide)⟩
    | cons s ss =>
      refine ⟨s, _, rfl, ?_⟩
      intro h
      simp only [List.all_cons, Bool.and_eq_true] at hsp0
      rw [h] at hsp0
      exact absurd hsp0.1 (by decide)
  rw [getInto_good 40 _ 40 _ false, h4e, peekC_good, ← h4e]
  have hbl := complexNames_blanks cfg.rawValueStaysInRecord
    ((sp0 ++ (renderCParts r.parts ++ 41 :: (r.s4 ++ 59 :: rest))).length + 3) [] .null c4 p0.n0 hc441
    (by intro h; rw [h] at hp0n; exact absurd hp0n (by decide)) sp0 hsp0 p0.n0 tl (alpha_facts hp0n).1
    (40 :: (r.s2.reverse ++ 61 :: (r.s1.reverse ++ (r.ds.reverse ++ l)))) false
  rw [← htl] at hbl
  have hlen : (G (40 :: (r.s2.reverse ++ 61 :: (r.s1.reverse ++ (r.ds.reverse ++ l)))) (sp0 ++ (renderCParts r.parts ++ 41 :: (r.s4 ++ 59 :: rest))) false).right.length + 3 =
      (sp0 ++ (renderCParts r.parts ++ 41 :: (r.s4 ++ 59 :: rest))).length + 3 := rfl
  simp only [hlen, hbl, hnames, List.nil_append]
  have eT : 41 :: (r.s4 ++ 59 :: rest) = (41 :: r.s4) ++ 59 :: rest := by simp
  rw [eT, skipInstance_passes cfg hcfg _ hT]
  simp only [hlegal, if_true]
  subst hrest
  rw [readTokenSeparator_seps g hg _ c k false hc hc47 hc92]
  exact ⟨_, rfl⟩

theorem readInstance_crecS (ops : FloatOps F) (lex : LexCfg) (cfg : RWCfg) (d : Dict) (strict : Bool) (st : P2 F)
    (hrep : cfg.complexReportsError = true)
    (r : CRec F) (hlex : r.Lex) (sp0 : List Byte) (hsp0 : sp0.all isSpace = true) (l rest : List Byte) (sk : Bool)
    (hs : st.s = G l (r.textS sp0 rest) sk)
    (inst : MInst F) (hfind : st.mgr.find? r.id = some inst) (hnew : inst.state = .new) (hcx : inst.complex = true)
    (hok : ∀ c ∈ r.parts, CPartOKF { ops := ops, lex := lex, cfg := cfg, dict := d, lookup := Mgr.lookup d st.mgr }
        (cfg.complexPartStrict.getD strict) c)
    (hnames : ∀ c ∈ r.parts, c.name ∈ inst.parts.map (·.name)) :
    ∃ l' sk', (sk' = sk ∨ sk' = false) ∧ readInstance ops lex cfg d strict st =
      .ok { s := G l' rest sk',
            inst := some { inst with parts := r.parts.foldl (fun ps c => setPart ps c.name c.vals) inst.parts, state := .complete },
            reported := some .null, left := some .null } := by
  obtain ⟨dne, ddig, dhi, h1, h2, h4, pne, hparts⟩ := hlex
  obtain ⟨c, u, hcu⟩ : ∃ c u, r.ds = c :: u := by
    cases hd : r.ds with
    | nil => exact absurd hd dne
    | cons c u => exact ⟨c, u, rfl⟩
  have hcd : isDigit c = true := by rw [hcu] at ddig; simp at ddig; exact ddig.1
  have hc47 : c ≠ 47 := by intro h; rw [h] at hcd; exact absurd hcd (by decide)
  let T1 := r.s1 ++ 61 :: (r.s2 ++ 40 :: (sp0 ++ (renderCParts r.parts ++ 41 :: (r.s4 ++ 59 :: rest))))
  obtain ⟨x, xr, hXe, hxd⟩ : ∃ x xr, T1 = x :: xr ∧ isDigit x = false :=
    seps_then r.s1 h1 61 _ (fun c => isDigit c = false) (fun c h => space_not_digit h) (by decide) (by decide)
  have e0 : readComment (G l (r.textS sp0 rest) sk) = G l (r.textS sp0 rest) sk := by
    unfold CRec.textS; rw [hcu]; exact readComment_none l c _ sk (digit_not_space hcd) hc47
  have e1 : (G l (r.textS sp0 rest) sk).extractInt32 = (some r.id, G (r.ds.reverse ++ l) T1 sk) := by
    unfold CRec.textS; show (G l (r.ds ++ T1) sk).extractInt32 = _
    rw [hXe]; exact extractInt32_digits r.ds dne ddig dhi l x xr sk hxd
  have e2 : readTokenSeparator (G (r.ds.reverse ++ l) T1 sk) =
      G (r.s1.reverse ++ (r.ds.reverse ++ l)) (61 :: (r.s2 ++ 40 :: (sp0 ++ (renderCParts r.parts ++ 41 :: (r.s4 ++ 59 :: rest))))) sk :=
    readTokenSeparator_seps r.s1 h1 (r.ds.reverse ++ l) 61 _ sk (by decide) (by decide)
  have e3 : readTokenSeparator (G (61 :: (r.s1.reverse ++ (r.ds.reverse ++ l))) (r.s2 ++ 40 :: (sp0 ++ (renderCParts r.parts ++ 41 :: (r.s4 ++ 59 :: rest)))) sk) =
      G (r.s2.reverse ++ 61 :: (r.s1.reverse ++ (r.ds.reverse ++ l))) (40 :: (sp0 ++ (renderCParts r.parts ++ 41 :: (r.s4 ++ 59 :: rest)))) sk :=
    readTokenSeparator_seps r.s2 h2 _ 40 _ sk (by decide) (by decide)
  obtain ⟨l1, sk1, hsk1, hrd⟩ := complexSTEPread_parts_flag _ (cfg.complexPartStrict.getD strict) inst.parts r.parts hok hnames sp0 hsp0
    (r.s2.reverse ++ 61 :: (r.s1.reverse ++ (r.ds.reverse ++ l))) sk (r.s4 ++ 59 :: rest)
  unfold readInstance
  rw [hs, e0]
  simp only [e1, Option.getD_some, hfind, hnew, bne_self_eq_false, Bool.false_eq_true, if_false]
  rw [e2, getInto_good 0 _ 61 _ sk]
  simp only [bne_self_eq_false, Bool.false_eq_true, if_false]
  rw [e3, markStart_G]
  simp only
  rw [peekC_good]
  have e38 : ((40 : Byte) == 38) = false := by decide
  simp only [e38, Bool.false_eq_true, if_false, beq_self_eq_true, if_true, bind, Except.bind, pure, Except.pure, hcx, hrd]
  have e5 : readTokenSeparator (G l1 (r.s4 ++ 59 :: rest) sk1) = G (r.s4.reverse ++ l1) (59 :: rest) sk1 :=
    readTokenSeparator_seps r.s4 h4 l1 59 rest sk1 (by decide) (by decide)
  rw [e5, peekC_good]
  have e69 : ((59 : Byte) != 69) = true := by decide
  have enw : decide (Sev.null.toInt ≤ Sev.warning.toInt) = false := by decide
  cases hm : cfg.missingSemicolonReported <;>
    simp only [Bool.false_eq_true, if_false, if_true, beq_self_eq_true, e69, enw, Bool.and_false,
      shiftInto_good _ _ 59 rest sk1 (by decide), stateOf, hrep] <;>
    exact ⟨_, sk1, hsk1, rfl⟩

end StepModel.P21.RLemmas

import StepModel.P21.ReaderLemmas2
import StepModel.P21.LexNumber
import StepModel.P21.LexGap
/-! Aggregates of simple kinds at the literal level (C09; shared with C01): `STEPaggregate::ReadValue` — the model
`aggrRead` / `aggrLoop` / `elemRead` of `P21/Reader.lean` — on `( e₁ , … , eₙ )` for *any* element kind whose element
reader accepts its tokens, any layout (blanks, comments) around every element; the empty aggregate; and the element
readers of INTEGER, REAL, NUMBER, STRING, BINARY, BOOLEAN / LOGICAL / ENUMERATION and entity references on the tokens of
their grammars.  The loop is proved once, generically in the element kind (`aggrRead_elems`); the kinds plug in through
`ElemReads`. -/
namespace StepModel.P21.AggrLemmas
open StepModel StepModel.IStream StepModel.P21 StepModel.P21.Lemmas StepModel.P21.Grammar StepModel.P21.RLemmas

variable {F : Type}

/-- one element of an aggregate as it stands in a file, with the value it is to be read to -/
structure ElemQ (F : Type) where
  tok : List Byte
  before : List Byte
  after : List Byte
  val : Elem F

/-- the element reader of kind `ty` (with the `CheckRemainingInput` of the element loop) accepts `e`: wherever the token
    stands, whatever layout follows it, it is read to `e.val` with no error and the stream rests at the delimiter that
    follows.  `f` is what the reader does to the stream's `skipws` flag (`SDAI_String::STEPread` leaves it switched off).
    The layout in front of the token is the loop's business (`ElemReads.full`). -/
def ElemReads (env : Env F) (ty : ElemTy) (f : Bool → Bool) (e : ElemQ F) : Prop :=
  Seps e.before ∧ (∃ c u, e.tok = c :: u ∧ isSpace c = false ∧ c ≠ 47 ∧ c ≠ 41 ∧ c ≠ 44 ∧ c ≠ 92) ∧
  ∀ (l : List Byte) (sk : Bool) (d : Byte) (rest : List Byte), (d = 44 ∨ d = 41) →
    elemRead env ty (G l (e.tok ++ (e.after ++ d :: rest)) sk) =
      .ok (.null, e.val, G (e.after.reverse ++ (e.tok.reverse ++ l)) (d :: rest) (f sk))

/-- the element reader starts by skipping token separators, so it may as well be started behind them -/
theorem elemRead_skip (env : Env F) (hagg : env.cfg.aggrSkipsComments = true) (ty : ElemTy) (s : IStream)
    (h : readTokenSeparator (readTokenSeparator s) = readTokenSeparator s) :
    elemRead env ty s = elemRead env ty (readTokenSeparator s) := by
  unfold elemRead
  simp only [hagg, if_true, h]

/-- … with any layout of blanks and comments in front of the token -/
theorem ElemReads.full {env : Env F} {ty : ElemTy} {f : Bool → Bool} {e : ElemQ F} (h : ElemReads env ty f e)
    (hagg : env.cfg.aggrSkipsComments = true) (l : List Byte) (sk : Bool) (d : Byte) (rest : List Byte) (hd : d = 44 ∨ d = 41) :
    elemRead env ty (G l (e.before ++ (e.tok ++ (e.after ++ d :: rest))) sk) =
      .ok (.null, e.val, G (e.after.reverse ++ (e.tok.reverse ++ (e.before.reverse ++ l))) (d :: rest) (f sk)) := by
  obtain ⟨hb, ⟨c0, u0, hcu, hcs, h47, _, _, h92⟩, hread⟩ := h
  have hsk : readTokenSeparator (G l (e.before ++ (e.tok ++ (e.after ++ d :: rest))) sk) =
      G (e.before.reverse ++ l) (e.tok ++ (e.after ++ d :: rest)) sk := by
    rw [hcu]; exact readTokenSeparator_seps e.before hb l c0 _ sk hcs h47 h92
  have hsk0 : readTokenSeparator (G (e.before.reverse ++ l) (e.tok ++ (e.after ++ d :: rest)) sk) =
      G (e.before.reverse ++ l) (e.tok ++ (e.after ++ d :: rest)) sk := by
    rw [hcu]
    have := readTokenSeparator_seps [] (Seps.blanks [] (by simp)) (e.before.reverse ++ l) c0 (u0 ++ (e.after ++ d :: rest)) sk hcs h47 h92
    simpa using this
  rw [elemRead_skip env hagg ty _ (by rw [hsk, hsk0]), hsk, hread _ sk d rest hd]

/-- the element list after the opening parenthesis, closing parenthesis included -/
def renderQ : List (ElemQ F) → List Byte
  | [] => []
  | [e] => e.before ++ (e.tok ++ (e.after ++ [41]))
  | e :: f :: es => e.before ++ (e.tok ++ (e.after ++ 44 :: renderQ (f :: es)))

theorem aggrLoop_close (env : Env F) (ty : ElemTy) (n : Nat) (err : Sev) (acc : List (Elem F)) (s : IStream) :
    aggrLoop env ty (n + 1) err acc 41 s = .ok (err, some acc, s) := by
  unfold aggrLoop
  simp [pure, Except.pure]

/-- the element loop of `STEPaggregate::ReadValue`, any element kind: every element is read to its value, nothing is
    reported, the stream rests behind the closing parenthesis -/
theorem aggrLoop_elems (env : Env F) (hagg : env.cfg.aggrSkipsComments = true) (ty : ElemTy) (f : Bool → Bool) (hf : ∀ b, f (f b) = f b)
    (es : List (ElemQ F)) (hne : es ≠ []) (hok : ∀ e ∈ es, ElemReads env ty f e) :
    ∀ (fuel : Nat) (acc : List (Elem F)) (c : Byte) (l : List Byte) (sk : Bool) (rest : List Byte),
      es.length + 1 ≤ fuel → c ≠ 41 →
      aggrLoop env ty fuel .null acc c (G l (renderQ es ++ rest) sk) =
        .ok (.null, some (acc ++ es.map (·.val)), G ((renderQ es).reverse ++ l) rest (f sk)) := by
  induction es with
  | nil => exact absurd rfl hne
  | cons e fs ih =>
    intro fuel acc c l sk rest hfu hc
    have hread := fun l sk d rest hd => (hok e (by simp)).full hagg l sk d rest hd
    have hc' : (c != 41) = true := by simpa using hc
    cases fuel with
    | zero => omega
    | succ n =>
      cases fs with
      | nil =>
        cases n with
        | zero => simp at hfu
        | succ m =>
          unfold aggrLoop
          simp only [G_good, hc', Bool.and_self, if_true, bind, Except.bind, pure, Except.pure, renderQ]
          have e1 : e.before ++ (e.tok ++ (e.after ++ [41])) ++ rest = e.before ++ (e.tok ++ (e.after ++ 41 :: rest)) := by simp
          rw [e1, hread l sk 41 rest (Or.inr rfl)]
          simp only
          rw [show (G (e.after.reverse ++ (e.tok.reverse ++ (e.before.reverse ++ l))) (41 :: rest) (f sk)).ws =
            G (e.after.reverse ++ (e.tok.reverse ++ (e.before.reverse ++ l))) (41 :: rest) (f sk) from ws_good0 _ 41 rest (f sk) (by decide)]
          rw [show getInto c (G (e.after.reverse ++ (e.tok.reverse ++ (e.before.reverse ++ l))) (41 :: rest) (f sk)) =
            (41, G (41 :: (e.after.reverse ++ (e.tok.reverse ++ (e.before.reverse ++ l)))) rest (f sk)) from getInto_good c _ 41 rest (f sk)]
          have hx : (Sev.null.toInt < Sev.incomplete.toInt) = False := by decide
          simp only [hx, if_false, bne_self_eq_false, Bool.and_false, Bool.false_and, Bool.false_eq_true]
          rw [aggrLoop_close]
          simp
      | cons g gs =>
        have hlen : (g :: gs).length + 1 ≤ n := by simp only [List.length_cons] at hfu ⊢; omega
        unfold aggrLoop
        simp only [G_good, hc', Bool.and_self, if_true, bind, Except.bind, pure, Except.pure, renderQ]
        have e1 : e.before ++ (e.tok ++ (e.after ++ 44 :: renderQ (g :: gs))) ++ rest =
            e.before ++ (e.tok ++ (e.after ++ 44 :: (renderQ (g :: gs) ++ rest))) := by simp
        rw [e1, hread l sk 44 _ (Or.inl rfl)]
        simp only
        rw [show (G (e.after.reverse ++ (e.tok.reverse ++ (e.before.reverse ++ l))) (44 :: (renderQ (g :: gs) ++ rest)) (f sk)).ws =
          G (e.after.reverse ++ (e.tok.reverse ++ (e.before.reverse ++ l))) (44 :: (renderQ (g :: gs) ++ rest)) (f sk)
          from ws_good0 _ 44 _ (f sk) (by decide)]
        rw [show getInto c (G (e.after.reverse ++ (e.tok.reverse ++ (e.before.reverse ++ l))) (44 :: (renderQ (g :: gs) ++ rest)) (f sk)) =
          (44, G (44 :: (e.after.reverse ++ (e.tok.reverse ++ (e.before.reverse ++ l)))) (renderQ (g :: gs) ++ rest) (f sk))
          from getInto_good c _ 44 _ (f sk)]
        have hx : (Sev.null.toInt < Sev.incomplete.toInt) = False := by decide
        have h44 : ((44 : Byte) != 44) = false := by decide
        simp only [hx, if_false, h44, Bool.false_and, Bool.false_eq_true]
        rw [ih (by simp) (fun x hx => hok x (by simp [hx])) n (acc ++ [e.val]) 44 _ (f sk) rest hlen (by decide), hf]
        simp

theorem renderQ_cons (e : ElemQ F) (fs : List (ElemQ F)) :
    renderQ (e :: fs) = e.before ++ renderQ ({ e with before := [] } :: fs) := by
  cases fs <;> simp [renderQ]

theorem renderQ_length (es : List (ElemQ F)) (hok : ∀ e ∈ es, e.tok ≠ []) : es.length ≤ (renderQ es).length := by
  induction es with
  | nil => simp
  | cons e fs ih =>
    have htok : 1 ≤ e.tok.length := by
      have := hok e (by simp)
      cases h : e.tok with
      | nil => exact absurd h this
      | cons _ _ => simp
    have := ih (fun x hx => hok x (by simp [hx]))
    cases fs with
    | nil => simp only [renderQ, List.length_append, List.length_cons, List.length_nil]; omega
    | cons g gs => simp only [renderQ, List.length_append, List.length_cons] at this ⊢; omega

/-- `STEPaggregate::ReadValue` on `( e₁ , … , eₙ )`, n ≥ 1, elements of any kind whose element reader accepts them, any
    layout around every element: the list of the elements' values, no error, the stream rests behind the `)` -/
theorem aggrRead_elems (env : Env F) (hagg : env.cfg.aggrSkipsComments = true) (ty : ElemTy) (f : Bool → Bool)
    (hf : ∀ b, f (f b) = f b) (es : List (ElemQ F)) (hne : es ≠ []) (hok : ∀ e ∈ es, ElemReads env ty f e)
    (l : List Byte) (sk : Bool) (rest : List Byte) :
    aggrRead env ty (G l (40 :: (renderQ es ++ rest)) sk) =
      .ok (.null, some (es.map (·.val)), G ((40 :: renderQ es).reverse ++ l) rest (f sk)) := by
  cases es with
  | nil => exact absurd rfl hne
  | cons e fs =>
    obtain ⟨hb, ⟨c0, u0, hcu, hcs, h47, h41, h44, h92⟩, hread⟩ := hok e (by simp)
    let e' : ElemQ F := { e with before := [] }
    have hok' : ∀ x ∈ e' :: fs, ElemReads env ty f x := by
      intro x hx
      rcases List.mem_cons.mp hx with rfl | hx
      · exact ⟨Seps.blanks [] (by simp), ⟨c0, u0, hcu, hcs, h47, h41, h44, h92⟩, hread⟩
      · exact hok x (by simp [hx])
    have htokne : ∀ x ∈ e' :: fs, x.tok ≠ [] := by
      intro x hx
      obtain ⟨_, ⟨c, u, h, _⟩, _⟩ := hok' x hx
      rw [h]; simp
    have hhead : ∃ u1, renderQ (e' :: fs) ++ rest = c0 :: u1 := by
      cases fs with
      | nil => exact ⟨u0 ++ (e.after ++ 41 :: rest), by simp [renderQ, e', hcu]⟩
      | cons g gs => exact ⟨u0 ++ (e.after ++ 44 :: (renderQ (g :: gs) ++ rest)), by simp [renderQ, e', hcu]⟩
    obtain ⟨u1, h1⟩ := hhead
    unfold aggrRead
    rw [show (G l (40 :: (renderQ (e :: fs) ++ rest)) sk).ws = G l (40 :: (renderQ (e :: fs) ++ rest)) sk
      from ws_good0 l 40 _ sk (by decide)]
    simp only [bind, Except.bind, pure, Except.pure]
    rw [show (G l (40 :: (renderQ (e :: fs) ++ rest)) sk).peekC = (40, G l (40 :: (renderQ (e :: fs) ++ rest)) sk)
      from peekC_good l 40 _ sk]
    have x1 : ((40 : Byte) == 36) = false := by decide
    have x2 : ((40 : Byte) != 40) = false := by decide
    simp only [x1, Bool.or_false, x2, Bool.false_eq_true, if_false]
    rw [show getInto 40 (G l (40 :: (renderQ (e :: fs) ++ rest)) sk) = (40, G (40 :: l) (renderQ (e :: fs) ++ rest) sk)
      from getInto_good 40 l 40 _ sk]
    simp only [hagg, if_true]
    have e1 : renderQ (e :: fs) ++ rest = e.before ++ c0 :: u1 := by
      rw [renderQ_cons, List.append_assoc, h1]
    rw [e1, readTokenSeparator_seps e.before hb (40 :: l) c0 u1 sk hcs h47 h92]
    rw [show (G (e.before.reverse ++ 40 :: l) (c0 :: u1) sk).peekC = (c0, G (e.before.reverse ++ 40 :: l) (c0 :: u1) sk)
      from peekC_good _ c0 u1 sk]
    have x3 : (c0 == 41) = false := by simpa using h41
    simp only [x3, Bool.false_eq_true, if_false]
    rw [← h1]
    have hlen := renderQ_length (e' :: fs) htokne
    rw [aggrLoop_elems env hagg ty f hf (e' :: fs) (by simp) hok' _ [] c0 (e.before.reverse ++ 40 :: l) sk rest
      (by simp only [List.length_append] at hlen ⊢; omega) h41]
    simp [renderQ_cons e fs, e']

/-- `STEPaggregate::ReadValue` on the empty aggregate `( seps )`, any element kind -/
theorem aggrRead_none (env : Env F) (hagg : env.cfg.aggrSkipsComments = true) (ty : ElemTy)
    (seps : List Byte) (hs : Seps seps) (l : List Byte) (sk : Bool) (rest : List Byte) :
    aggrRead env ty (G l (40 :: (seps ++ 41 :: rest)) sk) =
      .ok (.null, some [], G (41 :: (seps.reverse ++ 40 :: l)) rest sk) := by
  unfold aggrRead
  rw [show (G l (40 :: (seps ++ 41 :: rest)) sk).ws = G l (40 :: (seps ++ 41 :: rest)) sk from ws_good0 l 40 _ sk (by decide)]
  simp only [bind, Except.bind, pure, Except.pure]
  rw [show (G l (40 :: (seps ++ 41 :: rest)) sk).peekC = (40, G l (40 :: (seps ++ 41 :: rest)) sk) from peekC_good l 40 _ sk]
  have x1 : ((40 : Byte) == 36) = false := by decide
  have x2 : ((40 : Byte) != 40) = false := by decide
  have heof : (G l (40 :: (seps ++ 41 :: rest)) sk).eof = false := rfl
  simp only [x1, Bool.or_false, x2, Bool.false_eq_true, if_false, heof]
  rw [show getInto 40 (G l (40 :: (seps ++ 41 :: rest)) sk) = (40, G (40 :: l) (seps ++ 41 :: rest) sk) from getInto_good 40 l 40 _ sk]
  simp only [hagg, if_true]
  rw [readTokenSeparator_seps seps hs (40 :: l) 41 rest sk (by decide) (by decide)]
  rw [show (G (seps.reverse ++ 40 :: l) (41 :: rest) sk).peekC = (41, G (seps.reverse ++ 40 :: l) (41 :: rest) sk) from peekC_good _ 41 rest sk]
  simp only [beq_self_eq_true, if_true]
  rw [show getInto 41 (G (seps.reverse ++ 40 :: l) (41 :: rest) sk) = (41, G (41 :: (seps.reverse ++ 40 :: l)) rest sk)
    from getInto_good 41 _ 41 rest sk]
  simp only
  rw [show (G (41 :: (seps.reverse ++ 40 :: l)) rest sk).right.length + 2 = (rest.length + 1) + 1 from rfl, aggrLoop_close]

/-! ### the element readers of the simple kinds on the tokens of their grammars -/

/-- a token separator skip in front of a character that is neither blank, `/` nor `\\` (a print control directive) does nothing -/
theorem rts_none (l : List Byte) (c : Byte) (u : List Byte) (sk : Bool) (hc : isSpace c = false) (h47 : c ≠ 47) (h92 : c ≠ 92) :
    readTokenSeparator (G l (c :: u) sk) = G l (c :: u) sk := by
  have := readTokenSeparator_seps [] (Seps.blanks [] (by simp)) l c u sk hc h47 h92
  simpa using this

/-- in front of a character that is no delimiter the "missing element" test of the repaired loop says no (and without the
    repair there is no test) -/
theorem elemMissing_none (cfg : RWCfg) (l : List Byte) (c : Byte) (u : List Byte) (sk : Bool) (h44 : c ≠ 44) (h41 : c ≠ 41) :
    elemMissing cfg (G l (c :: u) sk) = (false, G l (c :: u) sk) := by
  unfold elemMissing
  split
  · rw [show (G l (c :: u) sk).peekC = (c, G l (c :: u) sk) from peekC_good l c u sk]
    simp [h44, h41]
  · rfl

/-- the element reader of a kind read by a scalar node, started at a character that is neither blank, `/` nor a delimiter:
    the node's reader, then the loop's `CheckRemainingInput` (NUMBER: when its elements are read by `ReadReal`) -/
theorem elemRead_scalar (env : Env F) (hagg : env.cfg.aggrSkipsComments = true) (ty : ElemTy) (hk : ty.kind?.isSome = true)
    (hnum : ty = .number → env.cfg.numberElemReadsNumber = false)
    (l : List Byte) (c : Byte) (u : List Byte) (sk : Bool) (hc : isSpace c = false) (h47 : c ≠ 47) (h44 : c ≠ 44) (h41 : c ≠ 41) (h92 : c ≠ 92)
    (s1 : IStream) (e : Sev) (a : Atom F)
    (hsc : scalarNodeRead env ty (G l (c :: u) sk) = .ok (e, a, s1)) :
    elemRead env ty (G l (c :: u) sk) =
      .ok ((checkRemainingInput env.lex (some attrDelims) s1 e).2, .atom a, (checkRemainingInput env.lex (some attrDelims) s1 e).1) := by
  unfold elemRead
  simp only [hagg, if_true, rts_none l c u sk hc h47 h92,
    elemMissing_none env.cfg l c u sk h44 h41, bind, Except.bind]
  unfold elemReadCore
  cases ty with
  | select n => simp [ElemTy.kind?] at hk
  | generic => simp [ElemTy.kind?] at hk
  | number => simp [hnum rfl, hsc, bind, Except.bind, pure, Except.pure]
  | _ => simp [hsc, bind, Except.bind, pure, Except.pure]

/-- NUMBER elements when the repaired `RealAggregate::ReadValue` reads them with `ReadNumber` -/
theorem elemRead_number (env : Env F) (hagg : env.cfg.aggrSkipsComments = true) (hnum : env.cfg.numberElemReadsNumber = true)
    (l : List Byte) (c : Byte) (u : List Byte) (sk : Bool) (hc : isSpace c = false) (h47 : c ≠ 47) (h44 : c ≠ 44) (h41 : c ≠ 41) (h92 : c ≠ 92) :
    elemRead env .number (G l (c :: u) sk) =
      .ok ((checkRemainingInput env.lex (some attrDelims) (readNumber env.ops env.lex (some attrDelims) (G l (c :: u) sk) .null).2.1
              (readNumber env.ops env.lex (some attrDelims) (G l (c :: u) sk) .null).2.2).2,
           .atom (valueToAtom (realValue env.ops (readNumber env.ops env.lex (some attrDelims) (G l (c :: u) sk) .null).1)),
           (checkRemainingInput env.lex (some attrDelims) (readNumber env.ops env.lex (some attrDelims) (G l (c :: u) sk) .null).2.1
              (readNumber env.ops env.lex (some attrDelims) (G l (c :: u) sk) .null).2.2).1) := by
  unfold elemRead
  simp only [hagg, if_true, rts_none l c u sk hc h47 h92,
    elemMissing_none env.cfg l c u sk h44 h41, bind, Except.bind]
  unfold elemReadCore
  simp [hnum, pure, Except.pure]

/-- the loop's `CheckRemainingInput` on a stream that already rests at the delimiter -/
theorem cri_at_delim (lex : LexCfg) (hcfg : lex.criSkipsComments = true) (l rest : List Byte) (d : Byte) (sk : Bool)
    (hd : d = 44 ∨ d = 41) :
    checkRemainingInput lex (some attrDelims) (G l (d :: rest) sk) .null = (G l (d :: rest) sk, .null) := by
  have := cri_seps lex hcfg [] (Seps.blanks [] (by simp)) l rest d false sk Sev.null hd
  simpa using this

/-- INTEGER: every token of the grammar whose value fits `long` and is not the in-band null -/
theorem ElemReads.integer (env : Env F) (hcfg : env.lex.criSkipsComments = true) (hagg : env.cfg.aggrSkipsComments = true)
    (tok before after : List Byte) (htok : isInteger tok = true) (hlo : longMin ≤ denoteInteger tok)
    (hhi : denoteInteger tok < longMax) (hb : Seps before) (ha : Seps after) :
    ElemReads env .integer id ⟨tok, before, after, .atom (.int (denoteInteger tok))⟩ := by
  obtain ⟨c, u, hcu, hcs, h47, h41, h92⟩ := isInteger_head47 tok htok
  have h44 : c ≠ 44 := by obtain ⟨c', u', h', _, _, h44', _⟩ := isInteger_head tok htok; rw [hcu] at h'; cases h'; exact h44'
  refine ⟨hb, ⟨c, u, hcu, hcs, h47, h41, h44, h92⟩, ?_⟩
  intro l sk d rest hd
  have h3 : (denoteInteger tok == longMax) = false := by simp; omega
  have hsc : scalarNodeRead env .integer (G l (c :: (u ++ (after ++ d :: rest))) sk) =
      .ok (.null, valueToAtom (intValue (some (denoteInteger tok)) : Value F), G (after.reverse ++ (tok.reverse ++ l)) (d :: rest) sk) := by
    rw [scalarNodeRead_integer]
    have := readInteger_tok env.lex hcfg tok htok hlo (by omega) l sk after ha d rest hd
    rw [hcu] at this
    simp only [List.cons_append] at this
    rw [this, hcu]
  simp only [hcu, List.cons_append]
  rw [elemRead_scalar env hagg .integer rfl (by intro h; cases h) l c _ sk hcs h47 h44 h41 h92 _ _ _ hsc]
  simp only [cri_at_delim env.lex hcfg _ rest d sk hd]
  simp [intValue, ← hcu, h3, valueToAtom]

/-- REAL elements, and NUMBER elements while they are read by `ReadReal` like them: every token of the grammar `real` whose
    denotation converts to a double other than the in-band null -/
theorem ElemReads.real (env : Env F) (hcfg : env.lex.criSkipsComments = true) (hagg : env.cfg.aggrSkipsComments = true)
    (ty : ElemTy) (hty : ty = .real ∨ (ty = .number ∧ env.cfg.numberElemReadsNumber = false))
    (tok before after : List Byte) (dec : Decimal) (v : F) (htok : isReal tok = true) (hden : denoteReal tok = some dec)
    (hv : env.ops.ofDecimal dec = some v) (hnn : env.ops.isRealNull v = false)
    (hbuf : env.lex.realBuf = 0 ∨ tok.length < env.lex.realBuf) (hb : Seps before) (ha : Seps after) :
    ElemReads env ty id ⟨tok, before, after, .atom (.real v)⟩ := by
  obtain ⟨c, u, hcu, hcs, h47, h92⟩ := isReal_head tok htok
  have h41 : c ≠ 41 := by
    intro h; subst h; rw [hcu] at htok; revert htok; simp [isReal, splitSign, takeDigits, isDigit]
  have h44 : c ≠ 44 := by
    intro h; subst h; rw [hcu] at htok; revert htok; simp [isReal, splitSign, takeDigits, isDigit]
  refine ⟨hb, ⟨c, u, hcu, hcs, h47, h41, h44, h92⟩, ?_⟩
  intro l sk d rest hd
  have hsc : scalarNodeRead env ty (G l (c :: (u ++ (after ++ d :: rest))) sk) =
      .ok (.null, valueToAtom (realValue env.ops (some v)), G (after.reverse ++ (tok.reverse ++ l)) (d :: rest) sk) := by
    have := readReal_tok env.ops env.lex hcfg tok dec v htok hden hv hbuf l sk after ha d rest hd
    rw [hcu] at this
    simp only [List.cons_append] at this
    rcases hty with rfl | ⟨rfl, _⟩ <;>
    · unfold scalarNodeRead
      simp only [this, liftOutcome, bind, Except.bind, pure, Except.pure, hcu]
  simp only [hcu, List.cons_append]
  rw [elemRead_scalar env hagg ty (by rcases hty with rfl | ⟨rfl, _⟩ <;> rfl)
    (by intro h; rcases hty with rfl | ⟨_, h2⟩; · cases h
        · exact h2) l c _ sk hcs h47 h44 h41 h92 _ _ _ hsc]
  simp only [cri_at_delim env.lex hcfg _ rest d sk hd]
  simp [realValue, hnn, valueToAtom, hcu]

theorem extractFloatText_G (l : List Byte) (c : Byte) (t : List Byte) (sk : Bool) (hc : isSpace c = false) :
    IStream.extractFloatText (G l (c :: t) sk) =
      (some (scanFloat l (c :: t)).1,
       { left := (scanFloat l (c :: t)).2.1, right := (scanFloat l (c :: t)).2.2,
         eof := (scanFloat l (c :: t)).2.2.isEmpty, fail := false, bad := false, skipws := sk }) := by
  cases sk <;> simp [IStream.extractFloatText, IStream.sentry, IStream.good, dropSpaces_nonspace _ _ _ hc]

theorem seps_numCont (seps : List Byte) (hs : Seps seps) (d : Byte) (rest : List Byte) (hd : d = 44 ∨ d = 41) :
    NumCont (seps ++ d :: rest) := by
  obtain ⟨c, u, h, hc⟩ : ∃ c u, seps ++ d :: rest = c :: u ∧ (isSpace c = true ∨ c = 47 ∨ c = 44 ∨ c = 41) := by
    cases hs with
    | blanks _ hsp =>
      cases seps with
      | nil => exact ⟨d, rest, rfl, by rcases hd with rfl | rfl <;> simp⟩
      | cons x sp' => exact ⟨x, sp' ++ d :: rest, rfl, Or.inl (by simp at hsp; exact hsp.1)⟩
    | comment sp body t hsp hb ht =>
      cases sp with
      | nil => exact ⟨47, _, rfl, Or.inr (Or.inl rfl)⟩
      | cons x sp' => exact ⟨x, _, rfl, Or.inl (by simp at hsp; exact hsp.1)⟩
  refine Or.inr ⟨c, u, h, ?_, ?_, ?_, ?_⟩
  · rcases hc with h1 | rfl | rfl | rfl
    · exact space_not_digit h1
    · decide
    · decide
    · decide
  · intro e; subst e; rcases hc with h1 | h1 | h1 | h1 <;> revert h1 <;> decide
  · intro e; subst e; rcases hc with h1 | h1 | h1 | h1 <;> revert h1 <;> decide
  · intro e; subst e; rcases hc with h1 | h1 | h1 | h1 <;> revert h1 <;> decide

/-- `ReadNumber` on a token of the `integer` or of the `real` grammar whose denotation converts, standing anywhere, followed
    by any layout and a delimiter: exactly that double, no error, the stream rests at the delimiter -/
theorem readNumber_tok (ops : FloatOps F) (lex : LexCfg) (hcfg : lex.criSkipsComments = true)
    (tok : List Byte) (dec : Decimal) (v : F) (htok : isReal tok = true ∨ isInteger tok = true) (hden : denoteReal tok = some dec)
    (hv : ops.ofDecimal dec = some v)
    (l : List Byte) (sk : Bool) (seps : List Byte) (hs : Seps seps) (d : Byte) (rest : List Byte) (hd : d = 44 ∨ d = 41) :
    readNumber ops lex (some attrDelims) (G l (tok ++ (seps ++ d :: rest)) sk) .null =
      (some v, G (seps.reverse ++ (tok.reverse ++ l)) (d :: rest) sk, .null) := by
  have hcont := seps_numCont seps hs d rest hd
  obtain ⟨f, hf1, hf2⟩ : ∃ f, numSplit (tok ++ (seps ++ d :: rest)) = (f, seps ++ d :: rest) ∧ f.text = tok := by
    rcases htok with hr | hi
    · obtain ⟨sg, ip, fp, ex, rfl, hsg, hip1, hip, hfp, hex⟩ := isReal_shape tok hr
      exact numSplit_realText sg ip fp ex _ hsg hip1 hip hfp hex hcont.real
    · obtain ⟨sg, ds, rfl, hsg, hds1, hds⟩ := isInteger_form tok hi
      have := numSplit_intText sg ds _ hsg hds1 hds hcont
      simpa using this
  obtain ⟨c, u, hcu, hcs⟩ : ∃ c u, tok = c :: u ∧ isSpace c = false := by
    rcases htok with hr | hi
    · obtain ⟨c, u, h, hc, _, _⟩ := isReal_head tok hr; exact ⟨c, u, h, hc⟩
    · obtain ⟨c, u, h, hc, _⟩ := isInteger_head tok hi; exact ⟨c, u, h, hc⟩
  obtain ⟨hwf, _, hscan⟩ := numSplit_spec l (tok ++ (seps ++ d :: rest))
  rw [hf1] at hwf hscan
  simp only [hf2] at hscan
  have hconv : ops.conv f.norm.text = .ok v := by
    unfold FloatOps.conv
    rw [parse_norm f hwf, hf2]
    unfold denoteReal at hden
    rw [hden]; simp only; rw [hv]
  have hrne : (seps ++ d :: rest).isEmpty = false := by
    rcases hcont with h | ⟨x, y, hxy, _⟩
    · simp at h
    · rw [hxy]; rfl
  have hcri := cri_seps lex hcfg seps hs (tok.reverse ++ l) rest d false sk Sev.null hd
  rw [hcu] at hscan hcri ⊢
  simp only [List.cons_append, readNumber, ws_good0 _ _ _ _ hcs, extractFloatText_G _ _ _ _ hcs]
  simp only [List.cons_append] at hscan
  simp only [hscan, hconv, IStream.failed, Bool.or_self, Bool.false_and, Sev.warnIf, Bool.false_eq_true, if_false, hrne,
    List.append_nil, hcri]

/-- NUMBER elements once the repaired `RealAggregate::ReadValue` reads them with `ReadNumber`: every token of the `integer`
    or of the `real` grammar whose denotation converts to a double other than the in-band null — `(1, 2.5)` included -/
theorem ElemReads.number (env : Env F) (hcfg : env.lex.criSkipsComments = true) (hagg : env.cfg.aggrSkipsComments = true)
    (hnum : env.cfg.numberElemReadsNumber = true)
    (tok before after : List Byte) (dec : Decimal) (v : F) (htok : isReal tok = true ∨ isInteger tok = true)
    (hden : denoteReal tok = some dec) (hv : env.ops.ofDecimal dec = some v) (hnn : env.ops.isRealNull v = false)
    (hb : Seps before) (ha : Seps after) :
    ElemReads env .number id ⟨tok, before, after, .atom (.real v)⟩ := by
  obtain ⟨c, u, hcu, hcs, h47, h41, h44, h92⟩ : ∃ c u, tok = c :: u ∧ isSpace c = false ∧ c ≠ 47 ∧ c ≠ 41 ∧ c ≠ 44 ∧ c ≠ 92 := by
    rcases htok with hr | hi
    · obtain ⟨c, u, hcu, hcs, h47, h92⟩ := isReal_head tok hr
      refine ⟨c, u, hcu, hcs, h47, ?_, ?_, h92⟩ <;>
      · intro h; subst h; rw [hcu] at hr; revert hr; simp [isReal, splitSign, takeDigits, isDigit]
    · obtain ⟨c, u, hcu, hcs, h47, h41, h92⟩ := isInteger_head47 tok hi
      obtain ⟨c', u', h', _, _, h44', _⟩ := isInteger_head tok hi
      rw [hcu] at h'; cases h'
      exact ⟨c, u, hcu, hcs, h47, h41, h44', h92⟩
  refine ⟨hb, ⟨c, u, hcu, hcs, h47, h41, h44, h92⟩, ?_⟩
  intro l sk d rest hd
  have hrd := readNumber_tok env.ops env.lex hcfg tok dec v htok hden hv l sk after ha d rest hd
  rw [hcu] at hrd
  simp only [List.cons_append] at hrd
  simp only [hcu, List.cons_append]
  rw [elemRead_number env hagg hnum l c _ sk hcs h47 h44 h41 h92, hrd]
  simp only [cri_at_delim env.lex hcfg _ rest d sk hd]
  simp [realValue, hnn, valueToAtom, hcu]

/-- STRING elements: every literal of the full string grammar (all control directives); the value is the literal in its
    encoded form; the stream's `skipws` flag is left switched off, as `SDAI_String::STEPread` leaves it -/
theorem ElemReads.string (env : Env F) (hcfg : env.lex.criSkipsComments = true) (hagg : env.cfg.aggrSkipsComments = true)
    (b before after : List Byte) (hbody : StringBody b) (hb : Seps before) (ha : Seps after) :
    ElemReads env .string (fun _ => false) ⟨39 :: (b ++ [39]), before, after, .atom (.str (39 :: (b ++ [39])))⟩ := by
  refine ⟨hb, ⟨39, b ++ [39], rfl, by decide, by decide, by decide, by decide, by decide⟩, ?_⟩
  intro l sk d rest hd
  obtain ⟨c, u, hcu, hc39⟩ := seps_head_not_apos after ha d rest hd
  have hshape : (39 :: (b ++ [39])) ++ (after ++ d :: rest) = 39 :: (b ++ 39 :: c :: u) := by rw [← hcu]; simp
  simp only
  rw [hshape]
  rw [elemRead_scalar env hagg .string rfl (by intro h; cases h) l 39 _ sk (by decide) (by decide) (by decide) (by decide) (by decide) _ _ _
    (by rw [scalarNodeRead_string, stringRead_tok b hbody l sk c u hc39])]
  have hcri := cri_seps env.lex hcfg after ha (39 :: (b.reverse ++ 39 :: l)) rest d false false .null hd
  rw [← hcu, hcri]
  simp

/-- BINARY elements: `"` hexadecimal digits `"` -/
theorem ElemReads.binary (env : Env F) (hcfg : env.lex.criSkipsComments = true) (hagg : env.cfg.aggrSkipsComments = true)
    (hex before after : List Byte) (hne : hex ≠ []) (hhex : hex.all isXDigit = true) (hb : Seps before) (ha : Seps after) :
    ElemReads env .binary id ⟨34 :: (hex ++ [34]), before, after, .atom (.bin hex)⟩ := by
  refine ⟨hb, ⟨34, hex ++ [34], rfl, by decide, by decide, by decide, by decide, by decide⟩, ?_⟩
  intro l sk d rest hd
  have hshape : (34 :: (hex ++ [34])) ++ (after ++ d :: rest) = 34 :: (hex ++ 34 :: (after ++ d :: rest)) := by simp
  simp only
  rw [hshape]
  rw [elemRead_scalar env hagg .binary rfl (by intro h; cases h) l 34 _ sk (by decide) (by decide) (by decide) (by decide) (by decide) _ _ _
    (by rw [scalarNodeRead_binary, readBinary_tok env.lex hex hne hhex l sk (after ++ d :: rest)])]
  have hcri := cri_seps env.lex hcfg after ha (34 :: (hex.reverse ++ 34 :: l)) rest d false sk .null hd
  have hemp : hex.isEmpty = false := by cases hex <;> simp_all
  simp only [hcri, hemp]
  simp

/-- BOOLEAN / LOGICAL / ENUMERATION elements: `.` item `.` for a declared item (any case, as the reader folds it) -/
theorem ElemReads.enum (env : Env F) (hcfg : env.lex.criSkipsComments = true) (hagg : env.cfg.aggrSkipsComments = true)
    (ty : ElemTy) (het : EnumTy ty) (name before after : List Byte) (i : Nat)
    (hne : name ≠ []) (hname : name.all pw = true) (hfind : findName (enumKindOf ty).table (name.map toUpper) = some i)
    (hset : (enumKindOf ty).isUnsetIdx i = false) (hb : Seps before) (ha : Seps after) :
    ElemReads env ty id ⟨46 :: (name ++ [46]), before, after, .atom (.enum i)⟩ := by
  refine ⟨hb, ⟨46, name ++ [46], rfl, by decide, by decide, by decide, by decide, by decide⟩, ?_⟩
  intro l sk d rest hd
  have hshape : (46 :: (name ++ [46])) ++ (after ++ d :: rest) = 46 :: (name ++ 46 :: (after ++ d :: rest)) := by simp
  simp only
  rw [hshape]
  have hsc : scalarNodeRead env ty (G l (46 :: (name ++ 46 :: (after ++ d :: rest))) sk) =
      .ok (.null, valueToAtom (enumValue (enumKindOf ty) (some i) : Value F), G (46 :: (name.reverse ++ 46 :: l)) (after ++ d :: rest) sk) := by
    rcases het with rfl | rfl | ⟨items, rfl⟩ <;>
    · unfold scalarNodeRead
      simp only [enumKindOf] at hfind hset ⊢
      simp only [enumRead_tok env.lex _ false name i hne hname hfind hset l sk (after ++ d :: rest), pure, Except.pure]
  rw [elemRead_scalar env hagg ty (by rcases het with rfl | rfl | ⟨items, rfl⟩ <;> rfl)
    (by intro h; rcases het with rfl | rfl | ⟨items, rfl⟩ <;> cases h) l 46 _ sk (by decide) (by decide) (by decide) (by decide) (by decide) _ _ _ hsc]
  have hcri := cri_seps env.lex hcfg after ha (46 :: (name.reverse ++ 46 :: l)) rest d false sk .null hd
  simp only [hcri]
  simp [enumValue, hset, valueToAtom]

/-- `ReadEntityRef` on `#digits` (value in `int` range, the instance exists and conforms) followed by any layout and a
    delimiter: that id, no error, the stream rests at the delimiter -/
theorem readEntityRef_tok (lex : LexCfg) (hcfg : lex.criSkipsComments = true) (lookup : Int → RefLookup)
    (ds : List Byte) (hne : ds ≠ []) (hds : ds.all isDigit = true) (hhi : ((digitsVal ds 0 : Nat) : Int) ≤ intMax)
    (hfound : lookup ((digitsVal ds 0 : Nat) : Int) = .found)
    (l : List Byte) (sk : Bool) (seps : List Byte) (hs : Seps seps) (d : Byte) (rest : List Byte) (hd : d = 44 ∨ d = 41) :
    readEntityRef lex lookup (some attrDelims) (G l (35 :: (ds ++ (seps ++ d :: rest))) sk) .null =
      (some ((digitsVal ds 0 : Nat) : Int), G (seps.reverse ++ (ds.reverse ++ 35 :: l)) (d :: rest) sk, .null) := by
  have hnd := seps_head_not_digit seps hs d rest hd
  have hint : isInteger ds = true := isInteger_unsigned ds hne hds
  have hscan := scanInt_token longMin longMax (35 :: l) ds (seps ++ d :: rest) hint (Or.inr hnd)
  have hss : splitSign ds = (false, ds) := splitSign_digits ds hne hds
  have hden : denoteInteger ds = ((digitsVal ds 0 : Nat) : Int) := by simp [denoteInteger, hss]
  obtain ⟨c, u, hcu⟩ : ∃ c u, ds = c :: u := by
    cases ds with
    | nil => exact absurd rfl hne
    | cons c u => exact ⟨c, u, rfl⟩
  have hcd : isDigit c = true := by rw [hcu] at hds; simp at hds; exact hds.1
  have hcs : isSpace c = false := digit_not_space hcd
  simp only [readEntityRef, refTail]
  rw [show (G l (35 :: (ds ++ (seps ++ d :: rest))) sk).ws = G l (35 :: (ds ++ (seps ++ d :: rest))) sk from ws_good0 l 35 _ sk (by decide)]
  rw [getChar_G l 35 _ sk (by decide)]
  have hstream : G (35 :: l) (ds ++ (seps ++ d :: rest)) sk = G (35 :: l) (c :: (u ++ (seps ++ d :: rest))) sk := by rw [hcu]; rfl
  simp only [Option.getD_some, beq_self_eq_true, Bool.true_or, Option.isSome_some, Bool.and_self, if_true]
  have hscan' : scanInt longMin longMax (35 :: l) (c :: (u ++ (seps ++ d :: rest))) =
      (⟨((digitsVal ds 0 : Nat) : Int), false⟩, ds.reverse ++ 35 :: l, seps ++ d :: rest) := by
    have := hscan
    rw [hcu] at this
    simp only [List.cons_append] at this
    rw [this, ← hcu, hss, hden]
    have h2 : ¬ ((digitsVal ds 0 : Nat) : Int) > longMax := by
      have : intMax ≤ longMax := by decide
      omega
    simp [h2]
  have hnn : ¬ ((digitsVal ds 0 : Nat) : Int) < intMin := by
    have : intMin ≤ 0 := by decide
    omega
  have hnh : ¬ ((digitsVal ds 0 : Nat) : Int) > intMax := by omega
  rw [hstream, extractInt32_G (35 :: l) c _ sk hcs _ _ _ hscan' hnn hnh]
  have hne2 : (seps ++ d :: rest).isEmpty = false := by
    obtain ⟨x, y, hxy, _⟩ := hnd
    rw [hxy]; rfl
  have hcri := cri_seps lex hcfg seps hs (ds.reverse ++ 35 :: l) rest d false sk Sev.null hd
  simp [hne2, IStream.failed, hcri, hfound]

/-- entity-reference elements: `#digits`, the id in `int` range, the instance known to the manager and of a conforming type -/
theorem ElemReads.entity (env : Env F) (hcfg : env.lex.criSkipsComments = true) (hagg : env.cfg.aggrSkipsComments = true)
    (tg : String) (ds before after : List Byte) (hne : ds ≠ []) (hds : ds.all isDigit = true)
    (hhi : ((digitsVal ds 0 : Nat) : Int) ≤ intMax)
    (hfound : refLookup env.lookup tg ((digitsVal ds 0 : Nat) : Int) = .found) (hb : Seps before) (ha : Seps after) :
    ElemReads env (.entity tg) id ⟨35 :: ds, before, after, .atom (.ref ((digitsVal ds 0 : Nat) : Int))⟩ := by
  refine ⟨hb, ⟨35, ds, rfl, by decide, by decide, by decide, by decide, by decide⟩, ?_⟩
  intro l sk d rest hd
  have hshape : (35 :: ds) ++ (after ++ d :: rest) = 35 :: (ds ++ (after ++ d :: rest)) := by simp
  simp only
  rw [hshape]
  rw [elemRead_scalar env hagg (.entity tg) rfl (by intro h; cases h) l 35 _ sk (by decide) (by decide) (by decide) (by decide) (by decide) _ _ _
    (by rw [scalarNodeRead_entity, readEntityRef_tok env.lex hcfg _ ds hne hds hhi hfound l sk after ha d rest hd])]
  simp only [cri_at_delim env.lex hcfg _ rest d sk hd]
  simp

/-! ### the other direction: what a read without error says about the element loop -/

/-- a run of the element loop of `STEPaggregate::ReadValue` that reports nothing: `c` is the character looked at last, the
    stream stands in front of the next element (or behind the `)` when `c = ')'`).  Every element is one call of the
    element reader that reported nothing worse than INCOMPLETE — the loop hands on BUG, INPUT_ERROR and WARNING only —,
    after it (blanks and) exactly one `,` or `)` is taken by the loop itself, and the values are stored in order. -/
inductive LoopRun (env : Env F) (ty : ElemTy) : Byte → IStream → List (Elem F) → IStream → Prop where
  | close (s : IStream) : LoopRun env ty 41 s [] s
  | elem {c : Byte} {s s1 s3 sfin : IStream} {e : Sev} {v : Elem F} {c2 : Byte} {vs : List (Elem F)} :
      s.good = true → c ≠ 41 → elemRead env ty s = .ok (e, v, s1) → ¬ e.toInt < Sev.incomplete.toInt →
      getInto c s1.ws = (c2, s3) → (c2 = 44 ∨ c2 = 41) → LoopRun env ty c2 s3 vs sfin → LoopRun env ty c s (v :: vs) sfin

theorem greater_toInt_le (a b : Sev) : (a.greater b).toInt ≤ a.toInt := by
  unfold Sev.greater; split <;> omega

theorem greater_toInt_le' (a b : Sev) : (a.greater b).toInt ≤ b.toInt := by
  unfold Sev.greater; split <;> omega

theorem noErr_iff (e : Sev) : NoErr e ↔ 2 ≤ e.toInt := by
  cases e <;> simp [NoErr, Sev.toInt]

/-- the loop only ever makes the severity worse -/
theorem aggrLoop_mono (env : Env F) (ty : ElemTy) :
    ∀ (fuel : Nat) (err : Sev) (acc : List (Elem F)) (c : Byte) (s : IStream) (sev : Sev) (o : Option (List (Elem F))) (sf : IStream),
      aggrLoop env ty fuel err acc c s = .ok (sev, o, sf) → sev.toInt ≤ err.toInt := by
  intro fuel
  induction fuel with
  | zero => intro err acc c s sev o sf h; simp [aggrLoop, throw, throwThe, MonadExceptOf.throw] at h
  | succ n ih =>
    intro err acc c s sev o sf h
    unfold aggrLoop at h
    by_cases hg : (s.good && c != 41) = true
    · simp only [hg, if_true, bind, Except.bind] at h
      cases her : elemRead env ty s with
      | error x => rw [her] at h; cases h
      | ok r =>
        obtain ⟨e, v, s1⟩ := r
        rw [her] at h
        simp only at h
        by_cases hd : ((getInto c s1.ws).1 != 44 && (getInto c s1.ws).1 != 41) = true
        · simp only [hd, if_true, pure, Except.pure, Except.ok.injEq, Prod.mk.injEq] at h
          rw [← h.1]
          have h1 := greater_toInt_le (if e.toInt < Sev.incomplete.toInt then err.greater e else err) Sev.inputError
          have h2 : (if e.toInt < Sev.incomplete.toInt then err.greater e else err).toInt ≤ err.toInt := by
            split
            · exact greater_toInt_le err e
            · exact Int.le_refl _
          omega
        · simp only [hd, Bool.false_eq_true, if_false] at h
          have := ih _ _ _ _ _ _ _ h
          have h2 : (if e.toInt < Sev.incomplete.toInt then err.greater e else err).toInt ≤ err.toInt := by
            split
            · exact greater_toInt_le err e
            · exact Int.le_refl _
          omega
    · simp only [hg, Bool.false_eq_true, if_false] at h
      by_cases h41 : (c == 41) = true
      · simp only [h41, if_true, pure, Except.pure, Except.ok.injEq, Prod.mk.injEq] at h
        rw [← h.1]; exact Int.le_refl _
      · simp only [h41, Bool.false_eq_true, if_false, pure, Except.pure, Except.ok.injEq, Prod.mk.injEq] at h
        rw [← h.1]; exact greater_toInt_le err Sev.inputError

/-- the element loop, no error ⇒ a `LoopRun`: nothing is dropped from or added to the stored list, and the severity handed
    in comes out unchanged -/
theorem aggrLoop_sound (env : Env F) (ty : ElemTy) :
    ∀ (fuel : Nat) (err : Sev) (acc : List (Elem F)) (c : Byte) (s : IStream) (sev : Sev) (es : List (Elem F)) (sf : IStream),
      aggrLoop env ty fuel err acc c s = .ok (sev, some es, sf) → NoErr sev →
      ∃ vs, es = acc ++ vs ∧ LoopRun env ty c s vs sf ∧ sev = err := by
  intro fuel
  induction fuel with
  | zero => intro err acc c s sev es sf h; simp [aggrLoop, throw, throwThe, MonadExceptOf.throw] at h
  | succ n ih =>
    intro err acc c s sev es sf h hne
    have hne2 := (noErr_iff sev).mp hne
    have hmono := aggrLoop_mono env ty (n + 1) err acc c s sev (some es) sf h
    unfold aggrLoop at h
    by_cases hg : (s.good && c != 41) = true
    · have hgood : s.good = true := by simp at hg; exact hg.1
      have hc41 : c ≠ 41 := by simp at hg; exact hg.2
      simp only [hg, if_true, bind, Except.bind] at h
      cases her : elemRead env ty s with
      | error x => rw [her] at h; cases h
      | ok r =>
        obtain ⟨e, v, s1⟩ := r
        rw [her] at h
        simp only at h
        by_cases hd : ((getInto c s1.ws).1 != 44 && (getInto c s1.ws).1 != 41) = true
        · exfalso
          simp only [hd, if_true, pure, Except.pure, Except.ok.injEq, Prod.mk.injEq] at h
          have hh : sev.toInt ≤ Sev.inputError.toInt := by rw [← h.1]; exact greater_toInt_le' _ _
          have : Sev.inputError.toInt = -1 := rfl
          omega
        · simp only [hd, Bool.false_eq_true, if_false] at h
          have hdel : (getInto c s1.ws).1 = 44 ∨ (getInto c s1.ws).1 = 41 := by
            simp at hd
            by_cases h44 : (getInto c s1.ws).1 = 44
            · exact Or.inl h44
            · exact Or.inr (hd h44)
          have he : ¬ e.toInt < Sev.incomplete.toInt := by
            intro hlt
            have hm := aggrLoop_mono env ty n _ _ _ _ _ _ _ h
            simp only [hlt, if_true] at hm
            have := greater_toInt_le' err e
            have : Sev.incomplete.toInt = 1 := rfl
            omega
          simp only [he, if_false] at h
          obtain ⟨vs, h1, h2, h3⟩ := ih _ _ _ _ _ _ _ h hne
          exact ⟨v :: vs, by rw [h1]; simp, LoopRun.elem hgood hc41 her he rfl hdel h2, h3⟩
    · simp only [hg, Bool.false_eq_true, if_false] at h
      by_cases h41 : (c == 41) = true
      · simp only [h41, if_true, pure, Except.pure, Except.ok.injEq, Prod.mk.injEq, Option.some.injEq] at h
        have hc : c = 41 := by simpa using h41
        subst hc
        obtain ⟨h1, h2, h3⟩ := h
        subst h1 h2 h3
        exact ⟨[], by simp, LoopRun.close _, rfl⟩
      · exfalso
        simp only [h41, Bool.false_eq_true, if_false, pure, Except.pure, Except.ok.injEq, Prod.mk.injEq] at h
        have hh : sev.toInt ≤ Sev.inputError.toInt := by rw [← h.1]; exact greater_toInt_le' _ _
        have : Sev.inputError.toInt = -1 := rfl
        omega

/-- `STEPaggregate::ReadValue`, no error ⇒ the input starts (after blanks) with `(`; behind it and the token separators
    either the `)` of the empty aggregate stands, or a `LoopRun` follows that ends behind the closing `)`; the stored list is
    exactly the list of values the element reader returned, in order -/
theorem aggrRead_sound (env : Env F) (ty : ElemTy) (s : IStream) (sev : Sev) (es : List (Elem F)) (sf : IStream)
    (h : aggrRead env ty s = .ok (sev, some es, sf)) (hne : NoErr sev) :
    sev = .null ∧ s.ws.peekC.1 = 40 ∧
    ∃ c3 s6, LoopRun env ty c3 s6 es sf ∧
      (let s4 := if env.cfg.aggrSkipsComments then readTokenSeparator (getInto 40 s.ws.peekC.2).2 else (getInto 40 s.ws.peekC.2).2.ws
       (c3, s6) = (if s4.peekC.1 == 41 then getInto s4.peekC.1 s4.peekC.2 else (s4.peekC.1, s4.peekC.2))) := by
  unfold aggrRead at h
  simp only [bind, Except.bind, pure, Except.pure] at h
  by_cases h1 : (s.ws.peekC.2.eof || s.ws.peekC.1 == 36) = true
  · simp [h1] at h
  · simp only [h1, Bool.false_eq_true, if_false] at h
    by_cases h2 : (s.ws.peekC.1 != 40) = true
    · simp [h2] at h
    · simp only [h2, Bool.false_eq_true, if_false] at h
      have hc : s.ws.peekC.1 = 40 := by simpa using h2
      rw [hc] at h
      obtain ⟨vs, hv, hrun, hsev⟩ := aggrLoop_sound env ty _ _ _ _ _ _ _ _ h hne
      have hv' : es = vs := by simpa using hv
      subst hv'
      exact ⟨hsev, hc, _, _, hrun, rfl⟩

/-- with the loop's "missing element" test (the repair of finding `agg:missing-element-read-as-unset`) an element read that
    reports nothing worse than INCOMPLETE did not start at a delimiter: behind the token separators stands neither `,` nor `)` -/
theorem elemRead_not_missing (env : Env F) (hm : env.cfg.aggrReportsMissingElement = true) (ty : ElemTy) (s s1 : IStream)
    (e : Sev) (v : Elem F) (h : elemRead env ty s = .ok (e, v, s1)) (hne : ¬ e.toInt < Sev.incomplete.toInt) :
    (if env.cfg.aggrSkipsComments then readTokenSeparator s else s).peekC.1 ≠ 44 ∧
    (if env.cfg.aggrSkipsComments then readTokenSeparator s else s).peekC.1 ≠ 41 := by
  unfold elemRead at h
  simp only [elemMissing, hm, if_true, bind, Except.bind, pure, Except.pure] at h
  generalize (if env.cfg.aggrSkipsComments then readTokenSeparator s else s) = sA at h ⊢
  cases hc : elemReadCore env ty sA.peekC.2 with
  | error x => rw [hc] at h; cases h
  | ok r =>
    rw [hc] at h
    simp only [Except.ok.injEq, Prod.mk.injEq] at h
    by_cases hmiss : (sA.peekC.1 == 44 || sA.peekC.1 == 41) = true
    · exfalso
      rw [hmiss] at h
      simp only [if_true] at h
      have := greater_toInt_le' r.1 Sev.warning
      rw [h.1] at this
      have h0 : Sev.warning.toInt = 0 := rfl
      have h1 : Sev.incomplete.toInt = 1 := rfl
      omega
    · simp at hmiss
      exact hmiss

/-! ### the element's part, mid-stream: INTEGER -/

/-- `CheckRemainingInput` hands the severity back unchanged or makes it WARNING or worse -/
theorem cri_sev (cfg : LexCfg) (ds : Option (List Byte)) (s : IStream) (e : Sev) :
    (checkRemainingInput cfg ds s e).2 = e ∨ (checkRemainingInput cfg ds s e).2.toInt ≤ 0 := by
  have hw : (e.greater Sev.warning).toInt ≤ 0 := greater_toInt_le' e Sev.warning
  have hi : (e.greater Sev.inputError).toInt ≤ 0 := by
    have := greater_toInt_le' e Sev.inputError
    have h1 : Sev.inputError.toInt = -1 := rfl
    omega
  unfold checkRemainingInput
  simp only []
  repeat' split
  all_goals first
    | exact Or.inl rfl
    | exact Or.inr hw
    | exact Or.inr hi

/-- `ReadInteger` standing anywhere in a stream, in front of a non-blank character (a configuration in which it reports a
    failed extraction): when nothing is reported, what it took is a token of the `integer` grammar in `long` range, then
    separators; the value is the token's, and the stream rests at its end or in front of a delimiter -/
theorem readInteger_sound (cfg : LexCfg) (hcfg : cfg.intReportsFail = true) (l : List Byte) (c : Byte) (t : List Byte) (sk : Bool)
    (hc : isSpace c = false) (hne : NoErr (readInteger cfg (some attrDelims) (G l (c :: t) sk) .null).2.2) :
    ∃ tok sp2, c :: t = tok ++ sp2 ++ (readInteger cfg (some attrDelims) (G l (c :: t) sk) .null).2.1.right ∧
      (readInteger cfg (some attrDelims) (G l (c :: t) sk) .null).2.1.left = (tok ++ sp2).reverse ++ l ∧
      Between cfg sp2 ∧ isInteger tok = true ∧ longMin ≤ denoteInteger tok ∧ denoteInteger tok ≤ longMax ∧
      (readInteger cfg (some attrDelims) (G l (c :: t) sk) .null).1 = some (denoteInteger tok) ∧
      AtDelimOrEnd cfg (readInteger cfg (some attrDelims) (G l (c :: t) sk) .null).2.1.right := by
  obtain ⟨tok, rest, hr, hrest, hs2, hval, _⟩ := scanInt_split longMin longMax (by decide) (by decide) l (c :: t)
  simp only [readInteger, ws_good0 _ _ _ _ hc, extractLong_G _ _ _ _ hc] at hne ⊢
  generalize hsc : scanInt longMin longMax l (c :: t) = sc at hne hs2 hval ⊢
  obtain ⟨res, l', r'⟩ := sc
  simp only [Prod.mk.injEq] at hs2
  obtain ⟨rfl, rfl⟩ := hs2
  simp only [Bool.false_eq_true, IStream.failed, Bool.or_false, Bool.not_false, Bool.and_true, hcfg, Sev.warnIf] at hne ⊢
  cases hf : res.fail with
  | true =>
    exfalso
    simp only [hf, if_true] at hne
    rcases cri_mono cfg _ (Sev.null.greater Sev.warning) with he | he
    · rw [he] at hne; exact greater_warning_err _ hne
    · exact he hne
  | false =>
    simp only [hf, Bool.false_eq_true, if_false, Bool.not_false, if_true] at hne ⊢
    obtain ⟨htok, hv, hlo, hhi⟩ := hval hf
    have hch := (cri_char cfg { left := tok.reverse ++ l, right := r', eof := r'.isEmpty, fail := false, bad := false, skipws := sk }
      Sev.null rfl).2 hne
    generalize checkRemainingInput cfg (some attrDelims)
      { left := tok.reverse ++ l, right := r', eof := r'.isEmpty, fail := false, bad := false, skipws := sk } Sev.null = X at hne hch ⊢
    rcases hch with ⟨heof, hsame⟩ | ⟨heof, sp2, hs2, hrr, hll, hat⟩
    · simp only at heof
      have hre : r' = [] := by simpa using heof
      subst hre
      refine ⟨tok, [], ?_, ?_, Between.nil cfg, htok, hlo, hhi, by rw [hv], ?_⟩
      · rw [hsame]; simp [hr]
      · rw [hsame]; simp
      · rw [hsame]; exact Or.inl rfl
    · simp only at hrr hll
      refine ⟨tok, sp2, ?_, ?_, hs2, htok, hlo, hhi, by rw [hv], hat⟩
      · rw [hr, hrr]; simp
      · rw [hll]; simp

/-- an INTEGER element standing anywhere in a stream (the element reader behind the token separators and the "missing
    element" test, started at a non-blank character): when it reports nothing worse than INCOMPLETE — as every element of
    a `LoopRun` does — then what it took is a token of the `integer` grammar in `long` range followed by separators, the
    stored value is the token's (`intValue`: LONG_MAX is the in-band null), and the stream rests at its end or in front of
    a delimiter.  No error from the loop ⇒ every INTEGER element is a grammar token with its value. -/
theorem elemCore_integer_sound (env : Env F) (hcfg : env.lex.intReportsFail = true) (l : List Byte) (c : Byte) (t : List Byte)
    (sk : Bool) (hc : isSpace c = false) (e2 : Sev) (v : Elem F) (s2 : IStream)
    (h : elemReadCore env .integer (G l (c :: t) sk) = .ok (e2, v, s2)) (hne : ¬ e2.toInt < Sev.incomplete.toInt) :
    e2 = .null ∧ ∃ tok sp2 sp3, c :: t = tok ++ sp2 ++ sp3 ++ s2.right ∧ Between env.lex sp2 ∧ Between env.lex sp3 ∧
      isInteger tok = true ∧ longMin ≤ denoteInteger tok ∧ denoteInteger tok ≤ longMax ∧
      v = .atom (valueToAtom (intValue (some (denoteInteger tok)) : Value F)) ∧ AtDelimOrEnd env.lex s2.right := by
  have h1 : Sev.incomplete.toInt = 1 := rfl
  unfold elemReadCore at h
  simp only [scalarNodeRead_integer, bind, Except.bind, pure, Except.pure, Except.ok.injEq, Prod.mk.injEq] at h
  obtain ⟨he2, hv, hs2⟩ := h
  -- the severity `ReadInteger` returns is NULL or WARNING-or-worse
  have hstart : (readInteger env.lex (some attrDelims) (G l (c :: t) sk) .null).2.2 = .null ∨
      (readInteger env.lex (some attrDelims) (G l (c :: t) sk) .null).2.2.toInt ≤ 0 := by
    simp only [readInteger]
    rcases cri_sev env.lex (some attrDelims) _ _ with hx | hx
    · rw [hx]
      simp only [Sev.warnIf]
      split
      · right; exact greater_toInt_le' _ _
      · left; rfl
    · exact Or.inr hx
  generalize hR : readInteger env.lex (some attrDelims) (G l (c :: t) sk) .null = R at he2 hv hs2 hstart
  obtain ⟨o, s1, e⟩ := R
  simp only at he2 hv hs2 hstart
  have hsec := cri_sev env.lex (some attrDelims) s1 e
  rw [he2] at hsec
  have he : e = .null := by
    rcases hsec with hx | hx
    · rcases hstart with hy | hy
      · exact hy
      · rw [hx] at hne; omega
    · omega
  subst he
  have hsnd := readInteger_sound env.lex hcfg l c t sk hc (by rw [hR]; exact Or.inl rfl)
  rw [hR] at hsnd
  obtain ⟨tok, sp2, hsplit, _, hb2, htok, hlo, hhi, ho, hat⟩ := hsnd
  simp only at hsplit ho hat
  have he2' : e2 = .null := by
    rcases hsec with hx | hx
    · exact hx
    · omega
  refine ⟨he2', ?_⟩
  subst ho
  -- the loop's own `CheckRemainingInput` on the stream `ReadInteger` left behind
  by_cases heof : s1.eof = true
  · have hsame : checkRemainingInput env.lex (some attrDelims) s1 Sev.null = (s1, Sev.null) := by
      simp [checkRemainingInput, heof]
    rw [hsame] at hs2
    simp only at hs2
    subst hs2
    exact ⟨tok, sp2, [], by simpa using hsplit, hb2, Between.nil _, htok, hlo, hhi, hv.symm, hat⟩
  · by_cases hbad : s1.bad = true
    · exfalso
      have : (checkRemainingInput env.lex (some attrDelims) s1 Sev.null).2 = Sev.null.greater .inputError := by
        simp [checkRemainingInput, heof, hbad]
      rw [he2, he2'] at this
      revert this; decide
    · have hb' : s1.bad = false := by simpa using hbad
      have hne2 : NoErr (checkRemainingInput env.lex (some attrDelims) s1 Sev.null).2 := by rw [he2, he2']; exact Or.inl rfl
      rcases (cri_char env.lex s1 Sev.null hb').2 hne2 with ⟨hx, _⟩ | ⟨_, sp3, hb3, hrr, _, hat3⟩
      · exact absurd hx heof
      · rw [hs2] at hrr hat3
        refine ⟨tok, sp2, sp3, ?_, hb2, hb3, htok, hlo, hhi, hv.symm, hat3⟩
        rw [hsplit, hrr]; simp

/-- the same for the whole element round of the loop (`elemRead`: token separators, "missing element" test, the reader, the
    loop's `CheckRemainingInput`), given that the token-separator skip leaves a stream without pending flags in front of a
    non-blank character -/
theorem elemRead_integer_sound (env : Env F) (hcfg : env.lex.intReportsFail = true) (s : IStream)
    (l : List Byte) (c : Byte) (t : List Byte) (sk : Bool)
    (hsA : (if env.cfg.aggrSkipsComments then readTokenSeparator s else s) = G l (c :: t) sk) (hc : isSpace c = false)
    (e : Sev) (v : Elem F) (s1 : IStream)
    (h : elemRead env .integer s = .ok (e, v, s1)) (hne : ¬ e.toInt < Sev.incomplete.toInt) :
    e = .null ∧ ∃ tok sp2 sp3, c :: t = tok ++ sp2 ++ sp3 ++ s1.right ∧ Between env.lex sp2 ∧ Between env.lex sp3 ∧
      isInteger tok = true ∧ longMin ≤ denoteInteger tok ∧ denoteInteger tok ≤ longMax ∧
      v = .atom (valueToAtom (intValue (some (denoteInteger tok)) : Value F)) ∧ AtDelimOrEnd env.lex s1.right := by
  have h1 : Sev.incomplete.toInt = 1 := rfl
  unfold elemRead at h
  rw [hsA] at h
  have hms : (elemMissing env.cfg (G l (c :: t) sk)).2 = G l (c :: t) sk := by
    unfold elemMissing
    split
    · rw [show (G l (c :: t) sk).peekC = (c, G l (c :: t) sk) from peekC_good l c t sk]
    · rfl
  simp only [bind, Except.bind, pure, Except.pure, hms] at h
  cases hcore : elemReadCore env .integer (G l (c :: t) sk) with
  | error x => rw [hcore] at h; cases h
  | ok r =>
    obtain ⟨e', v', s1'⟩ := r
    rw [hcore] at h
    simp only [Except.ok.injEq, Prod.mk.injEq] at h
    obtain ⟨he, hv, hs⟩ := h
    subst hv hs
    by_cases hm : (elemMissing env.cfg (G l (c :: t) sk)).1 = true
    · exfalso
      rw [hm] at he
      simp only [if_true] at he
      have := greater_toInt_le' e' Sev.warning
      rw [he] at this
      have h0 : Sev.warning.toInt = 0 := rfl
      omega
    · simp only [hm, Bool.false_eq_true, if_false] at he
      subst he
      exact elemCore_integer_sound env hcfg l c t sk hc e' v' s1' hcore hne

/-! ### the element's part, mid-stream: ENUMERATION / BOOLEAN / LOGICAL, BINARY -/

theorem not_lt_incomplete_quiet {e : Sev} (h : ¬ e.toInt < Sev.incomplete.toInt) : Quiet e := by
  cases e <;> simp [Quiet, Sev.toInt] at h ⊢

/-- the loop's `CheckRemainingInput` behind a reader: when the round reports nothing worse than INCOMPLETE, the check handed
    the reader's severity on unchanged, and that severity was itself not worse than INCOMPLETE -/
theorem cri_kept (cfg : LexCfg) (s1 : IStream) (e : Sev)
    (hne : ¬ (checkRemainingInput cfg (some attrDelims) s1 e).2.toInt < Sev.incomplete.toInt) :
    (checkRemainingInput cfg (some attrDelims) s1 e).2 = e ∧ ¬ e.toInt < Sev.incomplete.toInt := by
  have h1 : Sev.incomplete.toInt = 1 := rfl
  rcases cri_sev cfg (some attrDelims) s1 e with hx | hx
  · exact ⟨hx, by rw [hx] at hne; exact hne⟩
  · omega

/-- a flag-free stream behind a value, no error from `CheckRemainingInput`: separators were skipped, the stream rests at
    its end or in front of a delimiter -/
theorem cri_after_value (cfg : LexCfg) (l r : List Byte) (sk : Bool)
    (hne : NoErr (checkRemainingInput cfg (some attrDelims) (G l r sk) Sev.null).2) :
    ∃ sp3, r = sp3 ++ (checkRemainingInput cfg (some attrDelims) (G l r sk) Sev.null).1.right ∧ Between cfg sp3 ∧
      AtDelimOrEnd cfg (checkRemainingInput cfg (some attrDelims) (G l r sk) Sev.null).1.right := by
  rcases (cri_char cfg (G l r sk) Sev.null rfl).2 hne with ⟨hx, _⟩ | ⟨_, sp3, hb3, hrr, _, hat3⟩
  · cases hx
  · exact ⟨sp3, hrr, hb3, hat3⟩

/-- `SDAI_Enum::STEPread` and the loop's `CheckRemainingInput` standing anywhere in a stream, in front of a character that is
    neither blank nor a delimiter: nothing worse than INCOMPLETE reported ⇒ `.` name `.` of a declared item was read (any
    case), then separators; severity NULL; the stream rests at its end or in front of a delimiter -/
theorem enum_round_sound (cfg : LexCfg) (k : EnumKind) (l : List Byte) (c : Byte) (t : List Byte) (sk : Bool)
    (hc : isSpace c = false) (h44 : c ≠ 44) (h41 : c ≠ 41)
    (hne : ¬ (checkRemainingInput cfg (some attrDelims) (enumRead cfg k false (G l (c :: t) sk) .null).2.1
              (enumRead cfg k false (G l (c :: t) sk) .null).2.2).2.toInt < Sev.incomplete.toInt) :
    (checkRemainingInput cfg (some attrDelims) (enumRead cfg k false (G l (c :: t) sk) .null).2.1
        (enumRead cfg k false (G l (c :: t) sk) .null).2.2).2 = .null ∧
    ∃ name i sp3, c :: t = 46 :: (name ++ 46 :: (sp3 ++ (checkRemainingInput cfg (some attrDelims)
        (enumRead cfg k false (G l (c :: t) sk) .null).2.1 (enumRead cfg k false (G l (c :: t) sk) .null).2.2).1.right)) ∧
      name ≠ [] ∧ name.all pw = true ∧ findName k.table (name.map toUpper) = some i ∧
      (cfg.logicalRejectsUnset = true → k.isUnsetIdx i = false) ∧ Between cfg sp3 ∧
      (enumRead cfg k false (G l (c :: t) sk) .null).1 = some i ∧
      AtDelimOrEnd cfg (checkRemainingInput cfg (some attrDelims) (enumRead cfg k false (G l (c :: t) sk) .null).2.1
        (enumRead cfg k false (G l (c :: t) sk) .null).2.2).1.right := by
  obtain ⟨hkeep, hq⟩ := cri_kept cfg _ _ hne
  have hquiet : Quiet (readEnum cfg k true (G l (c :: t) sk) .null).2.2 := by
    have := not_lt_incomplete_quiet hq
    simpa [enumRead] using this
  obtain ⟨name, rest, i, hsplit, hn1, hn2, hfind, hset, hrd⟩ := readEnum_noerr cfg k l c t sk hc h44 h41 hquiet
  have henum : enumRead cfg k false (G l (c :: t) sk) .null =
      (some i, G (46 :: (name.reverse ++ 46 :: l)) rest sk, .null) := by
    simp [enumRead, hrd]
  rw [henum] at hkeep hne ⊢
  simp only at hkeep hne ⊢
  have hnoerr : NoErr (checkRemainingInput cfg (some attrDelims) (G (46 :: (name.reverse ++ 46 :: l)) rest sk) Sev.null).2 := by
    rw [hkeep]; exact Or.inl rfl
  obtain ⟨sp3, hr3, hb3, hat3⟩ := cri_after_value cfg _ rest sk hnoerr
  exact ⟨hkeep, name, i, sp3, by rw [hsplit]; exact congrArg (fun z => 46 :: (name ++ 46 :: z)) hr3, hn1, hn2, hfind, hset, hb3, rfl, hat3⟩

/-- `ReadBinary` in front of a non-blank character reports NULL or WARNING-or-worse, never INCOMPLETE -/
theorem readBinary_sev (cfg : LexCfg) (l : List Byte) (c : Byte) (t : List Byte) (sk : Bool) (hc : isSpace c = false) :
    (readBinary cfg true (G l (c :: t) sk) .null).2.2 = .null ∨ (readBinary cfg true (G l (c :: t) sk) .null).2.2.toInt ≤ 0 := by
  have hw : ∀ e : Sev, (e.greater Sev.warning).toInt ≤ 0 := fun e => greater_toInt_le' e Sev.warning
  have hwi : ∀ (e : Sev) (b : Bool), (e = .null ∨ e.toInt ≤ 0) → ((e.warnIf b) = .null ∨ (e.warnIf b).toInt ≤ 0) := by
    intro e b he
    cases b with
    | false => simpa [Sev.warnIf] using he
    | true => right; simpa [Sev.warnIf] using hw e
  simp only [readBinary, ws_good0 _ _ _ _ hc, IStream.good, Bool.not_false, Bool.and_self, Bool.not_true, Bool.false_eq_true, if_false]
  split
  · exact hwi _ _ (hwi _ _ (Or.inl rfl))
  · exact Or.inr (hw Sev.null)

/-- `SDAI_Binary::STEPread` and the loop's `CheckRemainingInput` standing anywhere in a stream, in front of a non-blank
    character: nothing worse than INCOMPLETE reported ⇒ `"` hexadecimal digits `"` was read, then separators; severity
    NULL; the stream rests at its end or in front of a delimiter -/
theorem binary_round_sound (cfg : LexCfg) (hcfg : cfg.binaryRejectsEmpty = true) (l : List Byte) (c : Byte) (t : List Byte) (sk : Bool)
    (hc : isSpace c = false)
    (hne : ¬ (checkRemainingInput cfg (some attrDelims) (readBinary cfg true (G l (c :: t) sk) .null).2.1
              (readBinary cfg true (G l (c :: t) sk) .null).2.2).2.toInt < Sev.incomplete.toInt) :
    (checkRemainingInput cfg (some attrDelims) (readBinary cfg true (G l (c :: t) sk) .null).2.1
        (readBinary cfg true (G l (c :: t) sk) .null).2.2).2 = .null ∧
    ∃ hex sp3, c :: t = 34 :: (hex ++ 34 :: (sp3 ++ (checkRemainingInput cfg (some attrDelims)
        (readBinary cfg true (G l (c :: t) sk) .null).2.1 (readBinary cfg true (G l (c :: t) sk) .null).2.2).1.right)) ∧
      hex ≠ [] ∧ hex.all isXDigit = true ∧ Between cfg sp3 ∧ (readBinary cfg true (G l (c :: t) sk) .null).1 = hex ∧
      AtDelimOrEnd cfg (checkRemainingInput cfg (some attrDelims) (readBinary cfg true (G l (c :: t) sk) .null).2.1
        (readBinary cfg true (G l (c :: t) sk) .null).2.2).1.right := by
  have h1 : Sev.incomplete.toInt = 1 := rfl
  obtain ⟨hkeep, hq⟩ := cri_kept cfg _ _ hne
  have hnoerr0 : NoErr (readBinary cfg true (G l (c :: t) sk) .null).2.2 := by
    rcases readBinary_sev cfg l c t sk hc with hx | hx
    · exact Or.inl hx
    · omega
  obtain ⟨hex, rest, hsplit, hx1, hx2, hrd⟩ := readBinary_noerr cfg hcfg l c t sk hc hnoerr0
  have hrd' : readBinary cfg true (G l (c :: t) sk) .null = (hex, G (34 :: (hex.reverse ++ 34 :: l)) rest sk, .null) := hrd
  rw [hrd'] at hkeep hne ⊢
  simp only at hkeep hne ⊢
  have hnoerr : NoErr (checkRemainingInput cfg (some attrDelims) (G (34 :: (hex.reverse ++ 34 :: l)) rest sk) Sev.null).2 := by
    rw [hkeep]; exact Or.inl rfl
  obtain ⟨sp3, hr3, hb3, hat3⟩ := cri_after_value cfg _ rest sk hnoerr
  exact ⟨hkeep, hex, sp3, by rw [hsplit]; exact congrArg (fun z => 34 :: (hex ++ 34 :: z)) hr3, hx1, hx2, hb3, rfl, hat3⟩

/-! ### the element's part, mid-stream: STRING -/

/-- garbage in front of the delimiter makes `CheckRemainingInput` raise WARNING or worse, whatever the severity was -/
theorem cri_garbage_le0 (cfg : LexCfg) (l : List Byte) (c : Byte) (t : List Byte) (f sk : Bool) (e : Sev)
    (hc : isSpace c = false) (hd : delimAt cfg attrDelims c = false) (h47 : c ≠ 47) :
    (checkRemainingInput cfg (some attrDelims) { left := l, right := c :: t, eof := false, fail := f, bad := false, skipws := sk } e).2.toInt ≤ 0 := by
  have hw : (e.greater Sev.warning).toInt ≤ 0 := greater_toInt_le' e Sev.warning
  have hi : (e.greater Sev.inputError).toInt ≤ 0 := by
    have := greater_toInt_le' e Sev.inputError
    have h1 : Sev.inputError.toInt = -1 := rfl
    omega
  have hstop := sepSkip_stop cfg l [] c t sk (by simp) hc h47
  simp only [List.nil_append, List.reverse_nil] at hstop
  simp only [checkRemainingInput, IStream.clear, Bool.false_eq_true, if_false, hstop, peekC_good, hd]
  split
  · exact hw
  · exact hi

/-- `SDAI_String::STEPread` and the loop's `CheckRemainingInput` standing anywhere in a stream, in front of a character that
    is neither blank, `/` nor a delimiter: nothing worse than INCOMPLETE reported ⇒ a literal closed by the automaton of
    `GetLiteralStr` was read (`isStringLenient`), then separators; severity NULL; the value is the literal; the stream
    rests at its end or in front of a delimiter.  (Something that is not a literal is answered INCOMPLETE by the reader —
    a severity the loop does not hand on — and then reported as garbage by `CheckRemainingInput`.) -/
theorem string_round_sound (cfg : LexCfg) (l : List Byte) (c : Byte) (t : List Byte) (sk : Bool)
    (hc : isSpace c = false) (hd : delimAt cfg attrDelims c = false) (h47 : c ≠ 47)
    (hne : ¬ (checkRemainingInput cfg (some attrDelims) (stringRead (G l (c :: t) sk) .null).2.1
              (stringRead (G l (c :: t) sk) .null).2.2).2.toInt < Sev.incomplete.toInt) :
    (checkRemainingInput cfg (some attrDelims) (stringRead (G l (c :: t) sk) .null).2.1
        (stringRead (G l (c :: t) sk) .null).2.2).2 = .null ∧
    ∃ tok sp3, c :: t = tok ++ sp3 ++ (checkRemainingInput cfg (some attrDelims) (stringRead (G l (c :: t) sk) .null).2.1
        (stringRead (G l (c :: t) sk) .null).2.2).1.right ∧
      isStringLenient tok = true ∧ Between cfg sp3 ∧ (stringRead (G l (c :: t) sk) .null).1 = tok ∧
      AtDelimOrEnd cfg (checkRemainingInput cfg (some attrDelims) (stringRead (G l (c :: t) sk) .null).2.1
        (stringRead (G l (c :: t) sk) .null).2.2).1.right := by
  have h1 : Sev.incomplete.toInt = 1 := rfl
  by_cases hq : c = 39
  · subst hq
    obtain ⟨m, hm1, hm2, hm3, hm4, hm5, hm6⟩ := litLoop_spec [39] true t (by simp)
    simp only [stringRead, IStream.setSkipws, getLiteralStr, ws_good0 _ _ _ _ hc, IStream.good, Bool.not_false, Bool.and_self,
      Bool.not_true, Bool.false_eq_true, if_false, beq_self_eq_true, if_true] at hne ⊢
    generalize hll : litLoop [39] true t = ll at hne hm1 hm2 hm3 hm4 hm5 hm6 ⊢
    obtain ⟨srev, rest, esc, hitEnd⟩ := ll
    simp only at hne hm1 hm2 hm3 hm4 hm5 hm6 ⊢
    subst hm2
    have hne' : (m.reverse ++ [39]).reverse.isEmpty = false := by simp
    simp only [hne', Bool.false_eq_true, if_false] at hne ⊢
    obtain ⟨hkeep, hq⟩ := cri_kept cfg _ _ hne
    cases esc with
    | true =>
      exfalso
      simp only [if_true] at hq
      have := greater_toInt_le' Sev.null Sev.inputError
      have h2 : Sev.inputError.toInt = -1 := rfl
      omega
    | false =>
      simp only [Bool.false_eq_true, if_false] at hkeep hne ⊢
      have hmne : m ≠ [] := by
        intro hm; have := hm6 hm; cases this
      have hnoerr : NoErr (checkRemainingInput cfg (some attrDelims)
          { left := m.reverse ++ [39] ++ l, right := rest, eof := hitEnd, fail := false, bad := false, skipws := false } Sev.null).2 := by
        rw [hkeep]; exact Or.inl rfl
      have hch := (cri_char cfg { left := m.reverse ++ [39] ++ l, right := rest, eof := hitEnd, fail := false, bad := false, skipws := false }
        Sev.null rfl).2 hnoerr
      have hlast : m.getLast? = some 39 := by
        have := hm3 rfl
        cases hmr : m.reverse with
        | nil => simp at hmr; exact absurd hmr hmne
        | cons a u =>
          rw [hmr] at this
          simp at this
          have : m = (a :: u).reverse := by rw [← hmr]; simp
          rw [this]; simp; assumption
      have hlen : isStringLenient ((m.reverse ++ [39]).reverse) = true := by
        simp [isStringLenient, hlast]
      refine ⟨hkeep, (m.reverse ++ [39]).reverse, ?_⟩
      generalize checkRemainingInput cfg (some attrDelims)
        { left := m.reverse ++ [39] ++ l, right := rest, eof := hitEnd, fail := false, bad := false, skipws := false } Sev.null = X at hch hkeep hnoerr ⊢
      rcases hch with ⟨heof, hsame⟩ | ⟨heof, sp2, hs2, hrr, _, hat⟩
      · simp only at heof
        subst heof
        have hre : rest = [] := hm4 rfl
        subst hre
        refine ⟨[], ?_, hlen, Between.nil cfg, rfl, ?_⟩
        · rw [hsame]; simp [hm1]
        · rw [hsame]; exact Or.inl rfl
      · simp only at hrr
        refine ⟨sp2, ?_, hlen, hs2, rfl, hat⟩
        rw [hm1, hrr]; simp
  · exfalso
    have hq' : (c == 39) = false := by simpa using hq
    simp only [stringRead, IStream.setSkipws, getLiteralStr, ws_good0 _ _ _ _ hc, IStream.good, Bool.not_false, Bool.and_self,
      Bool.not_true, Bool.false_eq_true, if_false, hq', List.isEmpty_nil, if_true] at hne
    have := cri_garbage_le0 cfg l c t false sk (Sev.null.greater Sev.incomplete) hc hd h47
    omega

/-! ### the element's part, mid-stream: REAL -/

/-- `ReadReal` standing anywhere in a stream, in front of a non-blank character (a configuration in which it reports a failed
    conversion; while it reports only collected characters, the character is neither `/` nor a delimiter): when nothing is
    reported, what it took is a token of the grammar `real` — no leniency survives — whose denotation converts, then
    separators; the value is that double, and the stream rests at its end or in front of a delimiter -/
theorem readReal_sound (ops : FloatOps F) (cfg : LexCfg) (hcfg : cfg.realReportsFail = true) (l : List Byte) (c : Byte) (t : List Byte)
    (sk : Bool) (hc : isSpace c = false)
    (hgar : cfg.realFailUnlessBlank = false → delimAt cfg attrDelims c = false ∧ c ≠ 47)
    (o : Option F) (s' : IStream) (e : Sev)
    (h : readReal ops cfg (some attrDelims) (G l (c :: t) sk) .null = .ok (o, s', e)) (hne : NoErr e) :
    ∃ tok sp2 d v, c :: t = tok ++ sp2 ++ s'.right ∧ Between cfg sp2 ∧ isReal tok = true ∧ denoteReal tok = some d ∧
      ops.ofDecimal d = some v ∧ o = some v ∧ AtDelimOrEnd cfg s'.right := by
  simp only [readReal, ws_good0 _ _ _ _ hc, IStream.good] at h
  simp only [Bool.false_eq_true, if_false, Bool.not_false, Bool.and_self, Bool.not_true] at h
  have happ := realCollect_append (c :: t)
  have hsevs := realCollect_sev (c :: t)
  have hshape := realCollect_null (c :: t)
  generalize hrc : realCollect (c :: t) = rc at h happ hsevs hshape
  obtain ⟨buf, rest, e0⟩ := rc
  simp only at h happ hsevs hshape
  by_cases hov : (cfg.realBuf != 0 && decide (buf.length ≥ cfg.realBuf)) = true
  · simp [hov] at h
  · simp only [hov, Bool.false_eq_true, if_false] at h
    cases hconv : ops.conv (scanFloat [] buf).1 with
    | ok v =>
      simp only [hconv, Outcome.ok.injEq, Prod.mk.injEq] at h
      obtain ⟨ho, hs, he⟩ := h
      subst ho hs he
      -- the format severity must be null
      have hen : NoErr (Sev.null.greater e0) := by
        rcases cri_mono cfg _ (Sev.null.greater e0) with hm | hm
        · rw [hm] at hne; exact hne
        · exact absurd hne hm
      have he0 := null_greater_noerr e0 hen hsevs
      subst he0
      obtain ⟨sg, ip, fp, ex, hbuf, hsg, hip1, hip, hfp, hex⟩ := hshape rfl
      subst hbuf
      have hparse := parse_scanFloat_realText sg ip fp 69 ex hsg hip1 hip hfp (Or.inl rfl) hex
      have hden := parse_realText sg ip fp 69 ex hsg hip1 hip hfp (Or.inl rfl) hex
      have hof : ops.ofDecimal ⟨sg == [45], digitsVal (ip ++ fp) 0, exVal ex - (fp.length : Int)⟩ = some v := by
        unfold FloatOps.conv at hconv
        rw [hparse] at hconv
        simp only at hconv
        cases ho : ops.ofDecimal ⟨sg == [45], digitsVal (ip ++ fp) 0, exVal ex - (fp.length : Int)⟩ with
        | none => rw [ho] at hconv; cases hconv
        | some v' => rw [ho] at hconv; simp at hconv; rw [hconv]
      have hch := (cri_char cfg { left := (realText sg ip fp 69 ex).reverse ++ l, right := rest, eof := rest.isEmpty, fail := false, bad := false, skipws := sk } (Sev.null.greater Sev.null) rfl).2 hne
      generalize checkRemainingInput cfg (some attrDelims) { left := (realText sg ip fp 69 ex).reverse ++ l, right := rest, eof := rest.isEmpty, fail := false, bad := false, skipws := sk } (Sev.null.greater Sev.null) = X at hne hch ⊢
      rcases hch with ⟨heof, hsame⟩ | ⟨heof, sp2, hsp2, hrr, _, hat⟩
      · simp only at heof
        have hre : rest = [] := by simpa using heof
        subst hre
        refine ⟨realText sg ip fp 69 ex, [], _, v, ?_, Between.nil cfg, isReal_realText sg ip fp ex hsg hip1 hip hfp hex,
          hden, hof, rfl, ?_⟩
        · rw [hsame]; simp [← happ]
        · rw [hsame]; exact Or.inl rfl
      · simp only at hrr
        refine ⟨realText sg ip fp 69 ex, sp2, _, v, ?_, hsp2, isReal_realText sg ip fp ex hsg hip1 hip hfp hex,
          hden, hof, rfl, hat⟩
        rw [← happ, hrr]; simp
    | invalid =>
      exfalso
      simp only [hconv, Outcome.ok.injEq, Prod.mk.injEq, hcfg, Bool.true_and] at h
      obtain ⟨_, _, he⟩ := h
      subst he
      by_cases hrep : (cfg.realFailUnlessBlank || !buf.isEmpty) = true
      · rw [hrep] at hne
        rcases cri_mono cfg _ _ with hm | hm
        · rw [hm] at hne; exact warnIf_true_err Sev.null hne
        · exact hm hne
      · have hrep' : cfg.realFailUnlessBlank = false ∧ buf = [] := by
          cases hq : cfg.realFailUnlessBlank <;> cases buf <;> simp_all
        obtain ⟨hq, hb⟩ := hrep'
        subst hb
        simp only [List.nil_append] at happ
        subst happ
        exact cri_garbage cfg _ c t false sk _ hc (hgar hq).1 (hgar hq).2 hne
    | overflow =>
      exfalso
      simp only [hconv, Outcome.ok.injEq, Prod.mk.injEq, hcfg, Bool.true_and] at h
      obtain ⟨_, _, he⟩ := h
      subst he
      by_cases hrep : (cfg.realFailUnlessBlank || !buf.isEmpty) = true
      · rw [hrep] at hne
        rcases cri_mono cfg _ _ with hm | hm
        · rw [hm] at hne; exact warnIf_true_err Sev.null hne
        · exact hm hne
      · have hrep' : cfg.realFailUnlessBlank = false ∧ buf = [] := by
          cases hq : cfg.realFailUnlessBlank <;> cases buf <;> simp_all
        obtain ⟨hq, hb⟩ := hrep'
        subst hb
        simp only [List.nil_append] at happ
        subst happ
        exact cri_garbage cfg _ c t false sk _ hc (hgar hq).1 (hgar hq).2 hne

/-! ### the element's part, mid-stream: NUMBER (the repaired `RealAggregate` reads NUMBER elements with `ReadNumber`) -/

/-- `ReadNumber` standing anywhere in a stream, in front of a non-blank character (a configuration in which it reports a
    failed extraction): when nothing is reported, what it took is a text `strtod` converts completely (the tokens of the
    `integer` and `real` grammars and the lenient forms `.5`, `1e5`) whose denotation converts, then separators; the value
    is that double, and the stream rests at its end or in front of a delimiter -/
theorem readNumber_sound (ops : FloatOps F) (cfg : LexCfg) (hcfg : cfg.numberReportsFail = true) (l : List Byte) (c : Byte)
    (t : List Byte) (sk : Bool) (hc : isSpace c = false)
    (o : Option F) (s' : IStream) (e : Sev)
    (h : readNumber ops cfg (some attrDelims) (G l (c :: t) sk) .null = (o, s', e)) (hne : NoErr e) :
    ∃ tok sp2 d v, c :: t = tok ++ sp2 ++ s'.right ∧ Between cfg sp2 ∧ denoteReal tok = some d ∧
      ops.ofDecimal d = some v ∧ o = some v ∧ AtDelimOrEnd cfg s'.right := by
  simp only [readNumber, ws_good0 _ _ _ _ hc, extractFloatText_G _ _ _ _ hc] at h
  obtain ⟨hwf, happ, hscan⟩ := numSplit_spec l (c :: t)
  generalize hns : numSplit (c :: t) = ns at hwf happ hscan
  obtain ⟨f, rest⟩ := ns
  simp only at hwf happ hscan
  rw [hscan] at h
  simp only at h
  cases hconv : ops.conv f.norm.text with
  | ok v =>
    simp only [hconv, IStream.failed, Bool.or_self, Bool.false_and, Sev.warnIf, Bool.false_eq_true, if_false, Prod.mk.injEq] at h
    obtain ⟨ho, hs, he⟩ := h
    subst ho hs he
    have hof : ∃ d, parseFloatText f.text = some d ∧ ops.ofDecimal d = some v := by
      unfold FloatOps.conv at hconv
      rw [parse_norm f hwf] at hconv
      cases hp : parseFloatText f.text with
      | none => rw [hp] at hconv; cases hconv
      | some d =>
        rw [hp] at hconv; simp only at hconv
        cases ho : ops.ofDecimal d with
        | none => rw [ho] at hconv; cases hconv
        | some v' => rw [ho] at hconv; simp at hconv; exact ⟨d, rfl, by rw [ho, hconv]⟩
    obtain ⟨d, hd1, hd2⟩ := hof
    have hch := (cri_char cfg { left := f.text.reverse ++ l, right := rest, eof := rest.isEmpty, fail := false, bad := false, skipws := sk } Sev.null rfl).2 hne
    generalize checkRemainingInput cfg (some attrDelims) { left := f.text.reverse ++ l, right := rest, eof := rest.isEmpty, fail := false, bad := false, skipws := sk } Sev.null = X at hne hch ⊢
    rcases hch with ⟨heof, hsame⟩ | ⟨heof, sp2, hsp2, hrr, _, hat⟩
    · simp only at heof
      have hre : rest = [] := by simpa using heof
      subst hre
      refine ⟨f.text, [], d, v, ?_, Between.nil cfg, hd1, hd2, rfl, ?_⟩
      · rw [hsame]; simp [happ]
      · rw [hsame]; exact Or.inl rfl
    · simp only at hrr
      refine ⟨f.text, sp2, d, v, ?_, hsp2, hd1, hd2, rfl, hat⟩
      rw [happ, hrr]; simp
  | invalid =>
    exfalso
    simp only [hconv, IStream.setFail, IStream.failed, Bool.or_true, Bool.true_or, hcfg, Bool.not_false, Bool.and_self, Prod.mk.injEq] at h
    obtain ⟨_, _, he⟩ := h
    subst he
    rcases cri_mono cfg _ _ with hm | hm
    · rw [hm] at hne; exact warnIf_true_err Sev.null hne
    · exact hm hne
  | overflow =>
    exfalso
    simp only [hconv, IStream.setFail, IStream.failed, Bool.or_true, Bool.true_or, hcfg, Bool.not_false, Bool.and_self, Prod.mk.injEq] at h
    obtain ⟨_, _, he⟩ := h
    subst he
    rcases cri_mono cfg _ _ with hm | hm
    · rw [hm] at hne; exact warnIf_true_err Sev.null hne
    · exact hm hne

/-! ### the element's part, mid-stream: entity references (`skipws` on, as it is unless a STRING was read from the stream before) -/

/-- `ReadEntityRef` standing anywhere in a stream whose `skipws` flag is on, in front of a non-blank character (while it does
    not report a non-reference itself, the character is neither `/` nor a delimiter): when nothing is reported, what it took
    is `#`, optional blanks, an integer token whose value fits `int` (`#+5` and `# 5` are its leniencies), separators; an
    instance with that id exists and conforms; the value is that id; the stream rests at its end or in front of a delimiter -/
theorem readEntityRef_sound (cfg : LexCfg) (lookup : Int → RefLookup) (l : List Byte) (c : Byte) (t : List Byte)
    (hc : isSpace c = false) (h44 : c ≠ 44) (h41 : c ≠ 41)
    (hgar : cfg.refReportsNonRef = false → delimAt cfg attrDelims c = false ∧ c ≠ 47)
    (o : Option Int) (s' : IStream) (e : Sev)
    (h : readEntityRef cfg lookup (some attrDelims) (G l (c :: t) true) .null = (o, s', e)) (hne : NoErr e) :
    ∃ spx tok sp2, c :: t = 35 :: (spx ++ tok ++ sp2 ++ s'.right) ∧ spx.all isSpace = true ∧ Between cfg sp2 ∧
      isInteger tok = true ∧ intMin ≤ denoteInteger tok ∧ denoteInteger tok ≤ intMax ∧
      lookup (denoteInteger tok) = .found ∧ o = some (denoteInteger tok) ∧ AtDelimOrEnd cfg s'.right := by
  simp only [readEntityRef, ws_good0 _ _ _ _ hc, getChar_good _ _ _ hc] at h
  simp only [Option.getD_some, Option.isSome_some, Bool.and_true] at h
  by_cases h35 : c = 35
  · subst h35
    simp only [beq_self_eq_true, Bool.true_or, if_true] at h
    have h64 : ((35 : Byte) == 64) = false := by decide
    simp only [h64, Bool.false_eq_true, if_false] at h
    obtain ⟨spx, body', hb1, hb2, hb3, hb4⟩ := dropSpaces_split (35 :: l) t
    rcases hb4 with rfl | ⟨c', t', rfl, hc'⟩
    · exfalso
      simp only [List.append_nil] at hb1
      subst hb1
      simp only [refTail, extractInt32_blank _ _ hb2, IStream.failed, Bool.or_false, if_true, Prod.mk.injEq] at h
      obtain ⟨_, _, he⟩ := h
      subst he
      rcases cri_mono cfg _ (Sev.null.greater Sev.warning) with hm | hm
      · rw [hm] at hne; exact greater_warning_err _ hne
      · exact hm hne
    · subst hb1
      simp only [refTail, extractInt32_skip _ _ _ _ hb2 hc', IStream.failed, Bool.or_false] at h
      obtain ⟨tok, rest, hr, hrest, hs2, hval, _⟩ :=
        scanInt_split longMin longMax (by decide) (by decide) (spx.reverse ++ 35 :: l) (c' :: t')
      generalize hsc : scanInt longMin longMax (spx.reverse ++ 35 :: l) (c' :: t') = sc at h hs2 hval
      obtain ⟨res, l', r'⟩ := sc
      simp only [Prod.mk.injEq] at hs2
      obtain ⟨rfl, rfl⟩ := hs2
      simp only at h hval
      by_cases hlo : res.value < intMin
      · exfalso
        simp only [hlo, if_true, Prod.mk.injEq] at h
        obtain ⟨_, _, he⟩ := h
        subst he
        rcases cri_mono cfg _ (Sev.null.greater Sev.warning) with hm | hm
        · rw [hm] at hne; exact greater_warning_err _ hne
        · exact hm hne
      · by_cases hhi : res.value > intMax
        · exfalso
          simp only [hlo, hhi, if_true, if_false, Prod.mk.injEq] at h
          obtain ⟨_, _, he⟩ := h
          subst he
          rcases cri_mono cfg _ (Sev.null.greater Sev.warning) with hm | hm
          · rw [hm] at hne; exact greater_warning_err _ hne
          · exact hm hne
        · simp only [hlo, hhi, if_false] at h
          cases hf : res.fail with
          | true =>
            exfalso
            simp only [hf, if_true, Prod.mk.injEq] at h
            obtain ⟨_, _, he⟩ := h
            subst he
            rcases cri_mono cfg _ (Sev.null.greater Sev.warning) with hm | hm
            · rw [hm] at hne; exact greater_warning_err _ hne
            · exact hm hne
          | false =>
            simp only [hf, Bool.false_eq_true, if_false, Option.getD_some] at h
            obtain ⟨htok, hv, _, _⟩ := hval hf
            cases hlk : lookup res.value with
            | found =>
              simp only [hlk, Prod.mk.injEq] at h
              obtain ⟨ho, hs, he⟩ := h
              subst ho hs he
              have hch := (cri_char cfg { left := tok.reverse ++ (spx.reverse ++ 35 :: l), right := r', eof := r'.isEmpty, fail := false, bad := false, skipws := true } Sev.null rfl).2 hne
              generalize checkRemainingInput cfg (some attrDelims) { left := tok.reverse ++ (spx.reverse ++ 35 :: l), right := r', eof := r'.isEmpty, fail := false, bad := false, skipws := true } Sev.null = X at hne hch ⊢
              rw [hv] at hlk hlo hhi
              rcases hch with ⟨heof, hsame⟩ | ⟨heof, sp2, hsp2, hrr, _, hat⟩
              · simp only at heof
                have hre : r' = [] := by simpa using heof
                subst hre
                refine ⟨spx, tok, [], ?_, hb2, Between.nil cfg, htok, by omega, by omega, hlk, by rw [hv], ?_⟩
                · rw [hsame]; simp [hr]
                · rw [hsame]; exact Or.inl rfl
              · simp only at hrr
                refine ⟨spx, tok, sp2, ?_, hb2, hsp2, htok, by omega, by omega, hlk, by rw [hv], hat⟩
                rw [hr, hrr]; simp
            | wrongType =>
              exfalso
              simp only [hlk, Prod.mk.injEq] at h
              obtain ⟨_, _, he⟩ := h
              subst he
              exact greater_warning_err _ hne
            | missing =>
              exfalso
              simp only [hlk, Prod.mk.injEq] at h
              obtain ⟨_, _, he⟩ := h
              subst he
              exact greater_warning_err _ hne
  · by_cases h64 : c = 64
    · exfalso
      subst h64
      simp only [beq_self_eq_true, Bool.or_true, if_true] at h
      have := refTail_mono cfg lookup { left := 64 :: l, right := t, eof := false, fail := false, bad := false, skipws := true }
        (Sev.null.greater Sev.warning) (greater_warning_err _)
      rw [h] at this
      exact this hne
    · exfalso
      have hno : (c == 35 || c == 64) = false := by simp [h35, h64]
      have hnd : refNotDelim (some attrDelims) c = true := by
        simp [refNotDelim, isDelim, attrDelims, h44, h41]
      simp only [hno, Bool.false_eq_true, if_false, putback_good, hnd, Bool.and_true, Prod.mk.injEq] at h
      obtain ⟨_, _, he⟩ := h
      subst he
      cases hq : cfg.refReportsNonRef with
      | true =>
        simp only [hq] at hne
        rcases cri_mono cfg _ _ with hm | hm
        · rw [hm] at hne; exact warnIf_true_err Sev.null hne
        · exact hm hne
      | false => exact cri_garbage cfg _ c t false true _ hc (hgar hq).1 (hgar hq).2 hne

/-! ### the element's part for every simple kind: one round of the loop -/

/-- the loop's own `CheckRemainingInput` behind a reader that has run its own (INTEGER, REAL, NUMBER, references): nothing
    worse than INCOMPLETE ⇒ severity NULL, only separators were skipped, the stream rests at its end or a delimiter -/
theorem second_cri (cfg : LexCfg) (s1 : IStream)
    (hne : ¬ (checkRemainingInput cfg (some attrDelims) s1 Sev.null).2.toInt < Sev.incomplete.toInt)
    (hat : AtDelimOrEnd cfg s1.right) :
    (checkRemainingInput cfg (some attrDelims) s1 Sev.null).2 = .null ∧
    ∃ sp3, s1.right = sp3 ++ (checkRemainingInput cfg (some attrDelims) s1 Sev.null).1.right ∧ Between cfg sp3 ∧
      AtDelimOrEnd cfg (checkRemainingInput cfg (some attrDelims) s1 Sev.null).1.right := by
  have h1 : Sev.incomplete.toInt = 1 := rfl
  obtain ⟨hkeep, _⟩ := cri_kept cfg s1 Sev.null hne
  refine ⟨hkeep, ?_⟩
  by_cases heof : s1.eof = true
  · have hsame : checkRemainingInput cfg (some attrDelims) s1 Sev.null = (s1, Sev.null) := by
      simp [checkRemainingInput, heof]
    rw [hsame]
    exact ⟨[], by simp, Between.nil _, hat⟩
  · by_cases hbad : s1.bad = true
    · exfalso
      have : (checkRemainingInput cfg (some attrDelims) s1 Sev.null).2 = Sev.null.greater .inputError := by
        simp [checkRemainingInput, heof, hbad]
      rw [hkeep] at this
      revert this; decide
    · have hb' : s1.bad = false := by simpa using hbad
      have hne2 : NoErr (checkRemainingInput cfg (some attrDelims) s1 Sev.null).2 := by rw [hkeep]; exact Or.inl rfl
      rcases (cri_char cfg s1 Sev.null hb').2 hne2 with ⟨hx, _⟩ | ⟨_, sp3, hb3, hrr, _, hat3⟩
      · exact absurd hx heof
      · exact ⟨sp3, hrr, hb3, hat3⟩

/-- a reader's severity that starts from NULL and only ever takes `GreaterSeverity`: once the loop's check kept it and it is
    not worse than INCOMPLETE, it is NULL — given that it is NULL or WARNING-or-worse -/
theorem sev_null_of_range {e : Sev} (hr : e = .null ∨ e.toInt ≤ 0) (hq : ¬ e.toInt < Sev.incomplete.toInt) : e = .null := by
  have h1 : Sev.incomplete.toInt = 1 := rfl
  rcases hr with h | h
  · exact h
  · omega

/-- what one round of the loop reduces to behind the token separators (hypothesis `hsA`) when it reports nothing worse than
    INCOMPLETE: the reader and the loop's check on that stream, the "missing element" test having said no -/
theorem elemRead_core (env : Env F) (ty : ElemTy) (s : IStream) (l : List Byte) (c : Byte) (t : List Byte) (sk : Bool)
    (hsA : (if env.cfg.aggrSkipsComments then readTokenSeparator s else s) = G l (c :: t) sk)
    (e : Sev) (v : Elem F) (s1 : IStream)
    (h : elemRead env ty s = .ok (e, v, s1)) (hne : ¬ e.toInt < Sev.incomplete.toInt) :
    elemReadCore env ty (G l (c :: t) sk) = .ok (e, v, s1) := by
  have h1 : Sev.incomplete.toInt = 1 := rfl
  unfold elemRead at h
  rw [hsA] at h
  have hms : (elemMissing env.cfg (G l (c :: t) sk)).2 = G l (c :: t) sk := by
    unfold elemMissing
    split
    · rw [show (G l (c :: t) sk).peekC = (c, G l (c :: t) sk) from peekC_good l c t sk]
    · rfl
  simp only [bind, Except.bind, pure, Except.pure, hms] at h
  cases hcore : elemReadCore env ty (G l (c :: t) sk) with
  | error x => rw [hcore] at h; cases h
  | ok r =>
    obtain ⟨e', v', s1'⟩ := r
    rw [hcore] at h
    simp only [Except.ok.injEq, Prod.mk.injEq] at h
    obtain ⟨he, hv, hs⟩ := h
    subst hv hs
    by_cases hm : (elemMissing env.cfg (G l (c :: t) sk)).1 = true
    · exfalso
      rw [hm] at he
      simp only [if_true] at he
      have := greater_toInt_le' e' Sev.warning
      rw [he] at this
      have h0 : Sev.warning.toInt = 0 := rfl
      omega
    · simp only [hm, Bool.false_eq_true, if_false] at he
      subst he
      rfl

theorem delimAt_not {cfg : LexCfg} {c : Byte} (hd : delimAt cfg attrDelims c = false) : c ≠ 44 ∧ c ≠ 41 := by
  have := delimAt_false hd
  simp [isDelim, attrDelims] at this
  exact this

/-- REAL (and NUMBER while its elements are read by `ReadReal`): the element is a token of the grammar `real` with its value -/
theorem elemCore_real_sound (env : Env F) (hcfg : env.lex.realReportsFail = true) (ty : ElemTy)
    (hty : ty = .real ∨ (ty = .number ∧ env.cfg.numberElemReadsNumber = false))
    (l : List Byte) (c : Byte) (t : List Byte) (sk : Bool) (hc : isSpace c = false)
    (hgar : env.lex.realFailUnlessBlank = false → delimAt env.lex attrDelims c = false ∧ c ≠ 47)
    (e2 : Sev) (v : Elem F) (s2 : IStream)
    (h : elemReadCore env ty (G l (c :: t) sk) = .ok (e2, v, s2)) (hne : ¬ e2.toInt < Sev.incomplete.toInt) :
    e2 = .null ∧ ∃ tok sp2 sp3 d x, c :: t = tok ++ sp2 ++ sp3 ++ s2.right ∧ Between env.lex sp2 ∧ Between env.lex sp3 ∧
      isReal tok = true ∧ denoteReal tok = some d ∧ env.ops.ofDecimal d = some x ∧
      v = .atom (valueToAtom (realValue env.ops (some x))) ∧ AtDelimOrEnd env.lex s2.right := by
  have hcore : ∃ o s1 e, readReal env.ops env.lex (some attrDelims) (G l (c :: t) sk) .null = .ok (o, s1, e) ∧
      (checkRemainingInput env.lex (some attrDelims) s1 e).2 = e2 ∧ v = .atom (valueToAtom (realValue env.ops o)) ∧
      (checkRemainingInput env.lex (some attrDelims) s1 e).1 = s2 := by
    unfold elemReadCore at h
    rcases hty with rfl | ⟨rfl, hn⟩
    · simp only [scalarNodeRead, bind, Except.bind, pure, Except.pure] at h
      cases hr : readReal env.ops env.lex (some attrDelims) (G l (c :: t) sk) .null with
      | overflow => rw [hr] at h; simp [liftOutcome, throw, throwThe, MonadExceptOf.throw] at h
      | ok r =>
        obtain ⟨o, s1, e⟩ := r
        rw [hr] at h
        simp only [liftOutcome, pure, Except.pure, Except.ok.injEq, Prod.mk.injEq] at h
        exact ⟨o, s1, e, rfl, h.1, h.2.1.symm, h.2.2⟩
    · simp only [hn, Bool.false_eq_true, if_false, scalarNodeRead, bind, Except.bind, pure, Except.pure] at h
      cases hr : readReal env.ops env.lex (some attrDelims) (G l (c :: t) sk) .null with
      | overflow => rw [hr] at h; simp [liftOutcome, throw, throwThe, MonadExceptOf.throw] at h
      | ok r =>
        obtain ⟨o, s1, e⟩ := r
        rw [hr] at h
        simp only [liftOutcome, pure, Except.pure, Except.ok.injEq, Prod.mk.injEq] at h
        exact ⟨o, s1, e, rfl, h.1, h.2.1.symm, h.2.2⟩
  obtain ⟨o, s1, e, hr, he2, hv, hs2⟩ := hcore
  subst he2 hs2
  obtain ⟨hkeep, hq⟩ := cri_kept env.lex s1 e hne
  -- the severity `ReadReal` returns is NULL or WARNING-or-worse
  have hrange : e = .null ∨ e.toInt ≤ 0 := by
    have hw : ∀ x : Sev, x = .null ∨ x = .warning → ((Sev.null.greater x) = .null ∨ (Sev.null.greater x).toInt ≤ 0) := by
      intro x hx; rcases hx with rfl | rfl <;> decide
    have hwi : ∀ b : Bool, (Sev.null.warnIf b) = .null ∨ (Sev.null.warnIf b).toInt ≤ 0 := by
      intro b; cases b <;> decide
    simp only [readReal, ws_good0 _ _ _ _ hc, IStream.good, Bool.not_false, Bool.and_self, Bool.not_true, Bool.false_eq_true, if_false] at hr
    have hsevs := realCollect_sev (c :: t)
    generalize realCollect (c :: t) = rc at hr hsevs
    obtain ⟨buf, rest, e0⟩ := rc
    simp only at hr hsevs
    split at hr
    · cases hr
    · split at hr
      · simp only [Outcome.ok.injEq, Prod.mk.injEq] at hr
        rw [← hr.2.2]
        rcases cri_sev env.lex (some attrDelims) _ (Sev.null.greater e0) with hx | hx
        · rw [hx]; exact hw e0 hsevs
        · exact Or.inr hx
      · simp only [Outcome.ok.injEq, Prod.mk.injEq] at hr
        rw [← hr.2.2]
        rcases cri_sev env.lex (some attrDelims) _ (Sev.null.warnIf (env.lex.realReportsFail && (env.lex.realFailUnlessBlank || !buf.isEmpty))) with hx | hx
        · rw [hx]; exact hwi _
        · exact Or.inr hx
  have he : e = .null := sev_null_of_range hrange hq
  subst he
  obtain ⟨tok, sp2, d, x, hsplit, hb2, htok, hden, hof, ho, hat⟩ :=
    readReal_sound env.ops env.lex hcfg l c t sk hc hgar o s1 Sev.null hr (Or.inl rfl)
  obtain ⟨_, sp3, hr3, hb3, hat3⟩ := second_cri env.lex s1 hne hat
  subst ho
  exact ⟨hkeep, tok, sp2, sp3, d, x, by rw [hsplit, hr3]; simp, hb2, hb3, htok, hden, hof, hv, hat3⟩

/-- NUMBER once its elements are read by `ReadNumber`: the element is a text `strtod` converts completely, with its value -/
theorem elemCore_number_sound (env : Env F) (hcfg : env.lex.numberReportsFail = true) (hnum : env.cfg.numberElemReadsNumber = true)
    (l : List Byte) (c : Byte) (t : List Byte) (sk : Bool) (hc : isSpace c = false)
    (e2 : Sev) (v : Elem F) (s2 : IStream)
    (h : elemReadCore env .number (G l (c :: t) sk) = .ok (e2, v, s2)) (hne : ¬ e2.toInt < Sev.incomplete.toInt) :
    e2 = .null ∧ ∃ tok sp2 sp3 d x, c :: t = tok ++ sp2 ++ sp3 ++ s2.right ∧ Between env.lex sp2 ∧ Between env.lex sp3 ∧
      denoteReal tok = some d ∧ env.ops.ofDecimal d = some x ∧
      v = .atom (valueToAtom (realValue env.ops (some x))) ∧ AtDelimOrEnd env.lex s2.right := by
  unfold elemReadCore at h
  simp only [hnum, if_true, pure, Except.pure, Except.ok.injEq, Prod.mk.injEq] at h
  obtain ⟨he2, hv, hs2⟩ := h
  generalize hR : readNumber env.ops env.lex (some attrDelims) (G l (c :: t) sk) .null = R at he2 hv hs2
  obtain ⟨o, s1, e⟩ := R
  simp only at he2 hv hs2
  subst he2 hs2
  obtain ⟨hkeep, hq⟩ := cri_kept env.lex s1 e hne
  have hrange : e = .null ∨ e.toInt ≤ 0 := by
    have hwi : ∀ b : Bool, (Sev.null.warnIf b) = .null ∨ (Sev.null.warnIf b).toInt ≤ 0 := by
      intro b; cases b <;> decide
    simp only [readNumber] at hR
    simp only [Prod.mk.injEq] at hR
    rw [← hR.2.2]
    rcases cri_sev env.lex (some attrDelims) _ _ with hx | hx
    · rw [hx]; exact hwi _
    · exact Or.inr hx
  have he : e = .null := sev_null_of_range hrange hq
  subst he
  obtain ⟨tok, sp2, d, x, hsplit, hb2, hden, hof, ho, hat⟩ :=
    readNumber_sound env.ops env.lex hcfg l c t sk hc o s1 Sev.null hR (Or.inl rfl)
  obtain ⟨_, sp3, hr3, hb3, hat3⟩ := second_cri env.lex s1 hne hat
  subst ho
  exact ⟨hkeep, tok, sp2, sp3, d, x, by rw [hsplit, hr3]; simp, hb2, hb3, hden, hof, hv.symm, hat3⟩

/-- entity references (`skipws` on): the element is `#` id of an existing instance of a conforming type -/
theorem elemCore_ref_sound (env : Env F) (tg : String) (l : List Byte) (c : Byte) (t : List Byte) (hc : isSpace c = false)
    (hd : delimAt env.lex attrDelims c = false) (h47 : c ≠ 47)
    (e2 : Sev) (v : Elem F) (s2 : IStream)
    (h : elemReadCore env (.entity tg) (G l (c :: t) true) = .ok (e2, v, s2)) (hne : ¬ e2.toInt < Sev.incomplete.toInt) :
    e2 = .null ∧ ∃ spx tok sp2 sp3, c :: t = 35 :: (spx ++ tok ++ sp2 ++ sp3 ++ s2.right) ∧ spx.all isSpace = true ∧
      Between env.lex sp2 ∧ Between env.lex sp3 ∧ isInteger tok = true ∧ intMin ≤ denoteInteger tok ∧ denoteInteger tok ≤ intMax ∧
      refLookup env.lookup tg (denoteInteger tok) = .found ∧ v = .atom (.ref (denoteInteger tok)) ∧
      AtDelimOrEnd env.lex s2.right := by
  obtain ⟨h44, h41⟩ := delimAt_not hd
  unfold elemReadCore at h
  simp only [scalarNodeRead_entity, bind, Except.bind, pure, Except.pure, Except.ok.injEq, Prod.mk.injEq] at h
  obtain ⟨he2, hv, hs2⟩ := h
  generalize hR : readEntityRef env.lex (refLookup env.lookup tg) (some attrDelims) (G l (c :: t) true) .null = R at he2 hv hs2
  obtain ⟨o, s1, e⟩ := R
  simp only at he2 hv hs2
  subst he2 hs2
  obtain ⟨hkeep, hq⟩ := cri_kept env.lex s1 e hne
  -- `ReadEntityRef` never answers INCOMPLETE: NULL or WARNING-or-worse
  have hrange : e = .null ∨ e.toInt ≤ 0 := by
    have hg : ∀ (x y : Sev), (x = .null ∨ x.toInt ≤ 0) → (y.toInt ≤ 0) → ((x.greater y) = .null ∨ (x.greater y).toInt ≤ 0) := by
      intro x y _ hy; right; have := greater_toInt_le' x y; omega
    have hwi : ∀ (x : Sev) (b : Bool), (x = .null ∨ x.toInt ≤ 0) → ((x.warnIf b) = .null ∨ (x.warnIf b).toInt ≤ 0) := by
      intro x b hx
      cases b with
      | false => simpa [Sev.warnIf] using hx
      | true => simpa [Sev.warnIf] using hg x Sev.warning hx (by decide)
    have hcri : ∀ (s : IStream) (x : Sev), (x = .null ∨ x.toInt ≤ 0) →
        ((checkRemainingInput env.lex (some attrDelims) s x).2 = .null ∨ (checkRemainingInput env.lex (some attrDelims) s x).2.toInt ≤ 0) := by
      intro s x hx
      rcases cri_sev env.lex (some attrDelims) s x with h' | h'
      · rw [h']; exact hx
      · exact Or.inr h'
    have hw0 : (Sev.null.greater Sev.warning) = .null ∨ (Sev.null.greater Sev.warning).toInt ≤ 0 := by decide
    simp only [readEntityRef] at hR
    split at hR
    · -- `#` / `@`
      simp only [refTail] at hR
      split at hR
      · simp only [Prod.mk.injEq] at hR
        rw [← hR.2.2]
        exact hcri _ _ (hg _ _ (by split <;> first | exact hw0 | exact Or.inl rfl) (by decide))
      · split at hR <;>
        · simp only [Prod.mk.injEq] at hR
          rw [← hR.2.2]
          first
            | exact hcri _ _ (by split <;> first | exact hw0 | exact Or.inl rfl)
            | exact hg _ _ (hcri _ _ (by split <;> first | exact hw0 | exact Or.inl rfl)) (by decide)
    · simp only [Prod.mk.injEq] at hR
      rw [← hR.2.2]
      exact hcri _ _ (hwi _ _ (Or.inl rfl))
  have he : e = .null := sev_null_of_range hrange hq
  subst he
  obtain ⟨spx, tok, sp2, hsplit, hsx, hb2, htok, hlo, hhi, hfound, ho, hat⟩ :=
    readEntityRef_sound env.lex (refLookup env.lookup tg) l c t hc h44 h41 (fun _ => ⟨hd, h47⟩) o s1 Sev.null hR (Or.inl rfl)
  obtain ⟨_, sp3, hr3, hb3, hat3⟩ := second_cri env.lex s1 hne hat
  subst ho
  refine ⟨hkeep, spx, tok, sp2, sp3, ?_, hsx, hb2, hb3, htok, hlo, hhi, hfound, hv.symm, hat3⟩
  rw [hsplit, hr3]; simp

/-- STRING: the element is a literal closed by the automaton of `GetLiteralStr`, the value is the literal -/
theorem elemCore_string_sound (env : Env F) (l : List Byte) (c : Byte) (t : List Byte) (sk : Bool) (hc : isSpace c = false)
    (hd : delimAt env.lex attrDelims c = false) (h47 : c ≠ 47)
    (e2 : Sev) (v : Elem F) (s2 : IStream)
    (h : elemReadCore env .string (G l (c :: t) sk) = .ok (e2, v, s2)) (hne : ¬ e2.toInt < Sev.incomplete.toInt) :
    e2 = .null ∧ ∃ tok sp3, c :: t = tok ++ sp3 ++ s2.right ∧ isStringLenient tok = true ∧ Between env.lex sp3 ∧
      v = .atom (.str tok) ∧ AtDelimOrEnd env.lex s2.right := by
  unfold elemReadCore at h
  simp only [scalarNodeRead_string, bind, Except.bind, pure, Except.pure, Except.ok.injEq, Prod.mk.injEq] at h
  obtain ⟨he2, hv, hs2⟩ := h
  subst he2 hs2
  obtain ⟨hnull, tok, sp3, hsplit, hlen, hb3, htok, hat⟩ := string_round_sound env.lex l c t sk hc hd h47 hne
  have hne0 : tok.isEmpty = false := by
    cases tok with
    | nil => simp [isStringLenient] at hlen
    | cons _ _ => rfl
  refine ⟨hnull, tok, sp3, hsplit, hlen, hb3, ?_, hat⟩
  rw [← hv, htok, hne0]; simp

/-- BINARY: the element is `"` hexadecimal digits `"`, the value its digits -/
theorem elemCore_binary_sound (env : Env F) (hcfg : env.lex.binaryRejectsEmpty = true) (l : List Byte) (c : Byte) (t : List Byte)
    (sk : Bool) (hc : isSpace c = false) (e2 : Sev) (v : Elem F) (s2 : IStream)
    (h : elemReadCore env .binary (G l (c :: t) sk) = .ok (e2, v, s2)) (hne : ¬ e2.toInt < Sev.incomplete.toInt) :
    e2 = .null ∧ ∃ hex sp3, c :: t = 34 :: (hex ++ 34 :: (sp3 ++ s2.right)) ∧ hex ≠ [] ∧ hex.all isXDigit = true ∧
      Between env.lex sp3 ∧ v = .atom (.bin hex) ∧ AtDelimOrEnd env.lex s2.right := by
  unfold elemReadCore at h
  simp only [scalarNodeRead_binary, bind, Except.bind, pure, Except.pure, Except.ok.injEq, Prod.mk.injEq] at h
  obtain ⟨he2, hv, hs2⟩ := h
  subst he2 hs2
  obtain ⟨hnull, hex, sp3, hsplit, hx1, hx2, hb3, hval, hat⟩ := binary_round_sound env.lex hcfg l c t sk hc hne
  have hne0 : hex.isEmpty = false := by
    cases hex with
    | nil => exact absurd rfl hx1
    | cons _ _ => rfl
  refine ⟨hnull, hex, sp3, hsplit, hx1, hx2, hb3, ?_, hat⟩
  rw [← hv, hval, hne0]; simp

/-- BOOLEAN / LOGICAL / ENUMERATION: the element is `.` name `.` of a declared item, the value that item -/
theorem elemCore_enum_sound (env : Env F) (ty : ElemTy) (het : EnumTy ty) (l : List Byte) (c : Byte) (t : List Byte) (sk : Bool)
    (hc : isSpace c = false) (h44 : c ≠ 44) (h41 : c ≠ 41) (e2 : Sev) (v : Elem F) (s2 : IStream)
    (h : elemReadCore env ty (G l (c :: t) sk) = .ok (e2, v, s2)) (hne : ¬ e2.toInt < Sev.incomplete.toInt) :
    e2 = .null ∧ ∃ name i sp3, c :: t = 46 :: (name ++ 46 :: (sp3 ++ s2.right)) ∧ name ≠ [] ∧ name.all pw = true ∧
      findName (enumKindOf ty).table (name.map toUpper) = some i ∧
      (env.lex.logicalRejectsUnset = true → (enumKindOf ty).isUnsetIdx i = false) ∧ Between env.lex sp3 ∧
      v = .atom (valueToAtom (enumValue (enumKindOf ty) (some i) : Value F)) ∧ AtDelimOrEnd env.lex s2.right := by
  have hcore : (checkRemainingInput env.lex (some attrDelims) (enumRead env.lex (enumKindOf ty) false (G l (c :: t) sk) .null).2.1
        (enumRead env.lex (enumKindOf ty) false (G l (c :: t) sk) .null).2.2).2 = e2 ∧
      v = .atom (valueToAtom (enumValue (enumKindOf ty) (enumRead env.lex (enumKindOf ty) false (G l (c :: t) sk) .null).1 : Value F)) ∧
      (checkRemainingInput env.lex (some attrDelims) (enumRead env.lex (enumKindOf ty) false (G l (c :: t) sk) .null).2.1
        (enumRead env.lex (enumKindOf ty) false (G l (c :: t) sk) .null).2.2).1 = s2 := by
    unfold elemReadCore at h
    rcases het with rfl | rfl | ⟨items, rfl⟩ <;>
    · simp only [scalarNodeRead, enumKindOf, bind, Except.bind, pure, Except.pure, Except.ok.injEq, Prod.mk.injEq] at h ⊢
      exact ⟨h.1, h.2.1.symm, h.2.2⟩
  obtain ⟨he2, hv, hs2⟩ := hcore
  subst he2 hs2
  obtain ⟨hnull, name, i, sp3, hsplit, hn1, hn2, hfind, hset, hb3, hval, hat⟩ :=
    enum_round_sound env.lex (enumKindOf ty) l c t sk hc h44 h41 hne
  refine ⟨hnull, name, i, sp3, hsplit, hn1, hn2, hfind, hset, hb3, ?_, hat⟩
  rw [hv, hval]

/-! ### entity references with `skipws` switched off (a STRING was read from the stream before): `# 5` is no longer accepted -/

theorem extractInt32_nosk (l r : List Byte) :
    IStream.extractInt32 (G l r false) =
      (some (if (scanInt longMin longMax l r).1.value < intMin then intMin
             else if (scanInt longMin longMax l r).1.value > intMax then intMax
             else (scanInt longMin longMax l r).1.value),
       { left := (scanInt longMin longMax l r).2.1, right := (scanInt longMin longMax l r).2.2,
         eof := (scanInt longMin longMax l r).2.2.isEmpty,
         fail := (if (scanInt longMin longMax l r).1.value < intMin then true
                  else if (scanInt longMin longMax l r).1.value > intMax then true
                  else (scanInt longMin longMax l r).1.fail),
         bad := false, skipws := false }) := by
  simp only [IStream.extractInt32, IStream.sentry, IStream.good, Bool.not_false, Bool.and_self, Bool.and_false,
    Bool.false_eq_true, if_false, if_true]
  split <;> (try split) <;> rfl

/-- `ReadEntityRef` with `skipws` off: the same statement as `readEntityRef_sound`, no blanks between `#` and the id -/
theorem readEntityRef_sound_nosk (cfg : LexCfg) (lookup : Int → RefLookup) (l : List Byte) (c : Byte) (t : List Byte)
    (hc : isSpace c = false) (h44 : c ≠ 44) (h41 : c ≠ 41)
    (hgar : cfg.refReportsNonRef = false → delimAt cfg attrDelims c = false ∧ c ≠ 47)
    (o : Option Int) (s' : IStream) (e : Sev)
    (h : readEntityRef cfg lookup (some attrDelims) (G l (c :: t) false) .null = (o, s', e)) (hne : NoErr e) :
    ∃ tok sp2, c :: t = 35 :: (tok ++ sp2 ++ s'.right) ∧ Between cfg sp2 ∧
      isInteger tok = true ∧ intMin ≤ denoteInteger tok ∧ denoteInteger tok ≤ intMax ∧
      lookup (denoteInteger tok) = .found ∧ o = some (denoteInteger tok) ∧ AtDelimOrEnd cfg s'.right := by
  simp only [readEntityRef, ws_good0 _ _ _ _ hc, getChar_G _ _ _ _ hc] at h
  simp only [Option.getD_some, Option.isSome_some, Bool.and_true] at h
  by_cases h35 : c = 35
  · subst h35
    simp only [beq_self_eq_true, Bool.true_or, if_true] at h
    have h64 : ((35 : Byte) == 64) = false := by decide
    simp only [h64, Bool.false_eq_true, if_false] at h
    simp only [refTail, extractInt32_nosk, IStream.failed, Bool.or_false] at h
    obtain ⟨tok, rest, hr, hrest, hs2, hval, _⟩ := scanInt_split longMin longMax (by decide) (by decide) (35 :: l) t
    generalize hsc : scanInt longMin longMax (35 :: l) t = sc at h hs2 hval
    obtain ⟨res, l', r'⟩ := sc
    simp only [Prod.mk.injEq] at hs2
    obtain ⟨rfl, rfl⟩ := hs2
    simp only at h hval
    by_cases hlo : res.value < intMin
    · exfalso
      simp only [hlo, if_true, Prod.mk.injEq] at h
      obtain ⟨_, _, he⟩ := h
      subst he
      rcases cri_mono cfg _ (Sev.null.greater Sev.warning) with hm | hm
      · rw [hm] at hne; exact greater_warning_err _ hne
      · exact hm hne
    · by_cases hhi : res.value > intMax
      · exfalso
        simp only [hlo, hhi, if_true, if_false, Prod.mk.injEq] at h
        obtain ⟨_, _, he⟩ := h
        subst he
        rcases cri_mono cfg _ (Sev.null.greater Sev.warning) with hm | hm
        · rw [hm] at hne; exact greater_warning_err _ hne
        · exact hm hne
      · simp only [hlo, hhi, if_false] at h
        cases hf : res.fail with
        | true =>
          exfalso
          simp only [hf, if_true, Prod.mk.injEq] at h
          obtain ⟨_, _, he⟩ := h
          subst he
          rcases cri_mono cfg _ (Sev.null.greater Sev.warning) with hm | hm
          · rw [hm] at hne; exact greater_warning_err _ hne
          · exact hm hne
        | false =>
          simp only [hf, Bool.false_eq_true, if_false, Option.getD_some] at h
          obtain ⟨htok, hv, _, _⟩ := hval hf
          cases hlk : lookup res.value with
          | found =>
            simp only [hlk, Prod.mk.injEq] at h
            obtain ⟨ho, hs, he⟩ := h
            subst ho hs he
            have hch := (cri_char cfg { left := tok.reverse ++ 35 :: l, right := r', eof := r'.isEmpty, fail := false, bad := false, skipws := false } Sev.null rfl).2 hne
            generalize checkRemainingInput cfg (some attrDelims) { left := tok.reverse ++ 35 :: l, right := r', eof := r'.isEmpty, fail := false, bad := false, skipws := false } Sev.null = X at hne hch ⊢
            rw [hv] at hlk hlo hhi
            rcases hch with ⟨heof, hsame⟩ | ⟨heof, sp2, hsp2, hrr, _, hat⟩
            · simp only at heof
              have hre : r' = [] := by simpa using heof
              subst hre
              refine ⟨tok, [], ?_, Between.nil cfg, htok, by omega, by omega, hlk, by rw [hv], ?_⟩
              · rw [hsame]; simp [hr]
              · rw [hsame]; exact Or.inl rfl
            · simp only at hrr
              refine ⟨tok, sp2, ?_, hsp2, htok, by omega, by omega, hlk, by rw [hv], hat⟩
              rw [hr, hrr]; simp
          | wrongType =>
            exfalso
            simp only [hlk, Prod.mk.injEq] at h
            obtain ⟨_, _, he⟩ := h
            subst he
            exact greater_warning_err _ hne
          | missing =>
            exfalso
            simp only [hlk, Prod.mk.injEq] at h
            obtain ⟨_, _, he⟩ := h
            subst he
            exact greater_warning_err _ hne
  · by_cases h64 : c = 64
    · exfalso
      subst h64
      simp only [beq_self_eq_true, Bool.or_true, if_true] at h
      have := refTail_mono cfg lookup (G (64 :: l) t false) (Sev.null.greater Sev.warning) (greater_warning_err _)
      rw [h] at this
      exact this hne
    · exfalso
      have hno : (c == 35 || c == 64) = false := by simp [h35, h64]
      have hnd : refNotDelim (some attrDelims) c = true := by
        simp [refNotDelim, isDelim, attrDelims, h44, h41]
      simp only [hno, Bool.false_eq_true, if_false, putback_good, hnd, Bool.and_true, Prod.mk.injEq] at h
      obtain ⟨_, _, he⟩ := h
      subst he
      cases hq : cfg.refReportsNonRef with
      | true =>
        simp only [hq] at hne
        rcases cri_mono cfg _ _ with hm | hm
        · rw [hm] at hne; exact warnIf_true_err Sev.null hne
        · exact hm hne
      | false => exact cri_garbage cfg _ c t false false _ hc (hgar hq).1 (hgar hq).2 hne

/-- `ReadEntityRef`, either state of `skipws` -/
theorem readEntityRef_sound_any (cfg : LexCfg) (lookup : Int → RefLookup) (l : List Byte) (c : Byte) (t : List Byte) (sk : Bool)
    (hc : isSpace c = false) (h44 : c ≠ 44) (h41 : c ≠ 41)
    (hgar : cfg.refReportsNonRef = false → delimAt cfg attrDelims c = false ∧ c ≠ 47)
    (o : Option Int) (s' : IStream) (e : Sev)
    (h : readEntityRef cfg lookup (some attrDelims) (G l (c :: t) sk) .null = (o, s', e)) (hne : NoErr e) :
    ∃ spx tok sp2, c :: t = 35 :: (spx ++ tok ++ sp2 ++ s'.right) ∧ spx.all isSpace = true ∧ Between cfg sp2 ∧
      isInteger tok = true ∧ intMin ≤ denoteInteger tok ∧ denoteInteger tok ≤ intMax ∧
      lookup (denoteInteger tok) = .found ∧ o = some (denoteInteger tok) ∧ AtDelimOrEnd cfg s'.right := by
  cases sk with
  | true => exact readEntityRef_sound cfg lookup l c t hc h44 h41 hgar o s' e h hne
  | false =>
    obtain ⟨tok, sp2, h1, h2, h3, h4, h5, h6, h7, h8⟩ := readEntityRef_sound_nosk cfg lookup l c t hc h44 h41 hgar o s' e h hne
    exact ⟨[], tok, sp2, by simpa using h1, by simp, h2, h3, h4, h5, h6, h7, h8⟩

/-- entity references, either state of `skipws` -/
theorem elemCore_ref_sound_any (env : Env F) (tg : String) (l : List Byte) (c : Byte) (t : List Byte) (sk : Bool) (hc : isSpace c = false)
    (hd : delimAt env.lex attrDelims c = false) (h47 : c ≠ 47)
    (e2 : Sev) (v : Elem F) (s2 : IStream)
    (h : elemReadCore env (.entity tg) (G l (c :: t) sk) = .ok (e2, v, s2)) (hne : ¬ e2.toInt < Sev.incomplete.toInt) :
    e2 = .null ∧ ∃ spx tok sp2 sp3, c :: t = 35 :: (spx ++ tok ++ sp2 ++ sp3 ++ s2.right) ∧ spx.all isSpace = true ∧
      Between env.lex sp2 ∧ Between env.lex sp3 ∧ isInteger tok = true ∧ intMin ≤ denoteInteger tok ∧ denoteInteger tok ≤ intMax ∧
      refLookup env.lookup tg (denoteInteger tok) = .found ∧ v = .atom (.ref (denoteInteger tok)) ∧
      AtDelimOrEnd env.lex s2.right := by
  obtain ⟨h44, h41⟩ := delimAt_not hd
  unfold elemReadCore at h
  simp only [scalarNodeRead_entity, bind, Except.bind, pure, Except.pure, Except.ok.injEq, Prod.mk.injEq] at h
  obtain ⟨he2, hv, hs2⟩ := h
  generalize hR : readEntityRef env.lex (refLookup env.lookup tg) (some attrDelims) (G l (c :: t) sk) .null = R at he2 hv hs2
  obtain ⟨o, s1, e⟩ := R
  simp only at he2 hv hs2
  subst he2 hs2
  obtain ⟨hkeep, hq⟩ := cri_kept env.lex s1 e hne
  -- `ReadEntityRef` never answers INCOMPLETE: NULL or WARNING-or-worse
  have hrange : e = .null ∨ e.toInt ≤ 0 := by
    have hg : ∀ (x y : Sev), (x = .null ∨ x.toInt ≤ 0) → (y.toInt ≤ 0) → ((x.greater y) = .null ∨ (x.greater y).toInt ≤ 0) := by
      intro x y _ hy; right; have := greater_toInt_le' x y; omega
    have hwi : ∀ (x : Sev) (b : Bool), (x = .null ∨ x.toInt ≤ 0) → ((x.warnIf b) = .null ∨ (x.warnIf b).toInt ≤ 0) := by
      intro x b hx
      cases b with
      | false => simpa [Sev.warnIf] using hx
      | true => simpa [Sev.warnIf] using hg x Sev.warning hx (by decide)
    have hcri : ∀ (s : IStream) (x : Sev), (x = .null ∨ x.toInt ≤ 0) →
        ((checkRemainingInput env.lex (some attrDelims) s x).2 = .null ∨ (checkRemainingInput env.lex (some attrDelims) s x).2.toInt ≤ 0) := by
      intro s x hx
      rcases cri_sev env.lex (some attrDelims) s x with h' | h'
      · rw [h']; exact hx
      · exact Or.inr h'
    have hw0 : (Sev.null.greater Sev.warning) = .null ∨ (Sev.null.greater Sev.warning).toInt ≤ 0 := by decide
    simp only [readEntityRef] at hR
    split at hR
    · -- `#` / `@`
      simp only [refTail] at hR
      split at hR
      · simp only [Prod.mk.injEq] at hR
        rw [← hR.2.2]
        exact hcri _ _ (hg _ _ (by split <;> first | exact hw0 | exact Or.inl rfl) (by decide))
      · split at hR <;>
        · simp only [Prod.mk.injEq] at hR
          rw [← hR.2.2]
          first
            | exact hcri _ _ (by split <;> first | exact hw0 | exact Or.inl rfl)
            | exact hg _ _ (hcri _ _ (by split <;> first | exact hw0 | exact Or.inl rfl)) (by decide)
    · simp only [Prod.mk.injEq] at hR
      rw [← hR.2.2]
      exact hcri _ _ (hwi _ _ (Or.inl rfl))
  have he : e = .null := sev_null_of_range hrange hq
  subst he
  obtain ⟨spx, tok, sp2, hsplit, hsx, hb2, htok, hlo, hhi, hfound, ho, hat⟩ :=
    readEntityRef_sound_any env.lex (refLookup env.lookup tg) l c t sk hc h44 h41 (fun _ => ⟨hd, h47⟩) o s1 Sev.null hR (Or.inl rfl)
  obtain ⟨_, sp3, hr3, hb3, hat3⟩ := second_cri env.lex s1 hne hat
  subst ho
  refine ⟨hkeep, spx, tok, sp2, sp3, ?_, hsx, hb2, hb3, htok, hlo, hhi, hfound, hv.symm, hat3⟩
  rw [hsplit, hr3]; simp

/-! ### the layouts of the spec (`Grammar.ExactLayout` / `Gap`) are layouts of C01's `Seps` -/

theorem noClose_NoClose : ∀ (p : Byte) (body : List Byte), noClose p body = true → NoClose (p :: body)
  | _, [], _ => trivial
  | p, c :: t, h => by
    simp only [noClose, Bool.and_eq_true, Bool.not_eq_true', Bool.and_eq_false_iff] at h
    refine ⟨?_, noClose_NoClose c t h.2⟩
    intro ⟨h1, h2⟩
    rcases h.1 with hx | hx
    · simp [h1] at hx
    · simp [h2] at hx

theorem seps_cons_blank (c : Byte) (m : List Byte) (hc : isSpace c = true) (h : Seps m) : Seps (c :: m) := by
  cases h with
  | blanks sp hsp => exact Seps.blanks _ (by simp [hc, hsp])
  | comment sp body t hsp hb ht =>
    have := Seps.comment (c :: sp) body t (by simp [hc, hsp]) hb ht
    simpa using this

theorem exactLayout_seps : ∀ {sp : List Byte}, ExactLayout sp → Seps sp
  | _, .nil => Seps.blanks [] (by simp)
  | _, .blank hc hm => seps_cons_blank _ _ hc (exactLayout_seps hm)
  | _, .comment (body := body) hb hm => by
    have hnc : NoClose body := (noClose_NoClose 0 body hb).tail
    have := Seps.comment [] body _ (by simp) hnc (exactLayout_seps hm)
    simpa using this

theorem gap_seps {cfg : LexCfg} (hcfg : cfg.criSkipsComments = true) {sp : List Byte} (h : Gap cfg sp) : Seps sp := by
  unfold Gap at h
  rw [if_pos hcfg] at h
  exact exactLayout_seps h

end StepModel.P21.AggrLemmas

import StepModel.P21.ReaderLemmas11
/-! Entities with redeclared (redefining) attributes: `SDAI_Application_instance::STEPread` steps over a redefining
attribute without consuming a parameter; the parameters are those of the other attributes, in order. -/
namespace StepModel.P21.RLemmas
open StepModel StepModel.IStream StepModel.P21 StepModel.P21.Lemmas StepModel.P21.Grammar

variable {F : Type}

/-- `attrs` is `bs` with redefining attributes put in anywhere (also in front and behind) -/
inductive AlignedA : List AttrD → List AttrD → Prop where
  | nil : AlignedA [] []
  | red (a : AttrD) (as bs : List AttrD) (h : a.redefining = true) (t : AlignedA as bs) : AlignedA (a :: as) bs
  | keep (a : AttrD) (as bs : List AttrD) (h : a.redefining = false) (t : AlignedA as bs) : AlignedA (a :: as) (a :: bs)

theorem AlignedA.defaults_nil {as : List AttrD} (h : AlignedA as []) : (defaults as : List (MVal F)) = [] := by
  generalize hb : ([] : List AttrD) = bs at h
  induction h with
  | nil => rfl
  | red a as bs hr t ih => simp [defaults, hr] at ih ⊢; exact ih hb.symm
  | keep a as bs hr t ih => cases hb

theorem AlignedA.missing_nil {as : List AttrD} (h : AlignedA as []) : missingCheck false as = false := by
  generalize hb : ([] : List AttrD) = bs at h
  induction h with
  | nil => rfl
  | red a as bs hr t ih => unfold missingCheck; simp [hr]; exact ih hb
  | keep a as bs hr t ih => cases hb

/-- the attribute loop over an attribute list with redefining attributes in it: every parameter is read by the next
    attribute that is not a redefining one -/
theorem readAttrs_aligned (env : Env F) (strict : Bool) (hcfg : env.cfg.missingCheckEverySecond = false)
    (attrs : List AttrD) :
    ∀ (ps : List (Param F)), AlignedA attrs (ps.map (·.a)) → ps ≠ [] → (∀ p ∈ ps, ParamRd env strict p .null) →
      (∀ p ∈ ps, ∀ c u, p.tok = c :: u → c ≠ 41) →
      ∀ (l : List Byte) (c : Byte) (sk : Bool) (rest : List Byte),
        ∃ sk', (sk' = sk ∨ sk' = false) ∧ readAttrs env strict attrs .null c (G l (renderParams ps ++ rest) sk) =
          .ok ⟨.null, ps.map (·.v), G ((renderParams ps).reverse ++ l) rest sk', .null⟩ := by
  induction attrs with
  | nil =>
    intro ps hal hne
    cases ps with
    | nil => exact absurd rfl hne
    | cons p qs => cases hal
  | cons a as ih =>
    intro ps hal hne hok h41 l c sk rest
    cases ps with
    | nil => exact absurd rfl hne
    | cons p qs =>
      obtain ⟨hred, ⟨c0, u0, htok, hc0, h47, h92⟩, hbef, hread⟩ := hok p (by simp)
      have hc41 : c0 ≠ 41 := h41 p (by simp) c0 u0 htok
      cases hal with
      | red _ _ _ hr t =>
        -- a redefining attribute: the layout in front of the next parameter is consumed, nothing else
        let p' : Param F := { p with before := [] }
        have hok' : ∀ x ∈ p' :: qs, ParamRd env strict x .null := by
          intro x hx
          rcases List.mem_cons.mp hx with rfl | hx
          · exact ⟨hred, ⟨c0, u0, htok, hc0, h47, h92⟩, Seps.blanks [] (by simp), hread⟩
          · exact hok x (by simp [hx])
        have h41' : ∀ x ∈ p' :: qs, ∀ c u, x.tok = c :: u → c ≠ 41 := by
          intro x hx
          rcases List.mem_cons.mp hx with rfl | hx
          · exact h41 p (by simp)
          · exact h41 x (by simp [hx])
        obtain ⟨sk', hsk', hrec⟩ := ih (p' :: qs) (by simpa [p'] using t) (by simp) hok' h41' (p.before.reverse ++ l) c0 sk rest
        refine ⟨sk', hsk', ?_⟩
        have hhead : ∃ u1, renderParams (p' :: qs) ++ rest = c0 :: u1 := by
          cases qs with
          | nil => exact ⟨u0 ++ (p.after ++ 41 :: rest), by simp [renderParams, p', htok]⟩
          | cons q qs' => exact ⟨u0 ++ (p.after ++ 44 :: (renderParams (q :: qs') ++ rest)), by simp [renderParams, p', htok]⟩
        obtain ⟨u1, h1⟩ := hhead
        have e1 : renderParams (p :: qs) ++ rest = p.before ++ c0 :: u1 := by
          rw [renderParams_cons, List.append_assoc, h1]
        unfold readAttrs
        simp only [hr, if_true]
        rw [e1, readTokenSeparator_seps p.before hbef l c0 u1 sk hc0 h47 h92]
        rw [show (G (p.before.reverse ++ l) (c0 :: u1) sk).ws = G (p.before.reverse ++ l) (c0 :: u1) sk from ws_good0 _ c0 u1 sk hc0]
        rw [show (G (p.before.reverse ++ l) (c0 :: u1) sk).peekC = (c0, G (p.before.reverse ++ l) (c0 :: u1) sk) from peekC_good _ c0 u1 sk]
        have e41 : (c0 == 41) = false := by simpa using hc41
        simp only [e41, Bool.false_eq_true, if_false]
        rw [← h1, hrec]
        simp [renderParams_cons p qs, p']
      | keep _ _ _ hr t =>
        cases qs with
        | nil =>
          obtain ⟨sk', hsk', hrd⟩ := hread (p.before.reverse ++ l) sk 41 rest (Or.inr rfl)
          refine ⟨sk', hsk', ?_⟩
          have t' : AlignedA as [] := by simpa using t
          simp only [List.map_cons, List.map_nil, renderParams]
          unfold readAttrs
          have e1 : p.before ++ (p.tok ++ (p.after ++ [41])) ++ rest = p.before ++ c0 :: (u0 ++ (p.after ++ 41 :: rest)) := by
            rw [htok]; simp
          rw [e1, readTokenSeparator_seps p.before hbef l c0 _ sk hc0 h47 h92]
          have e2 : c0 :: (u0 ++ (p.after ++ 41 :: rest)) = p.tok ++ (p.after ++ 41 :: rest) := by rw [htok]; simp
          rw [e2]
          simp only [hred, Bool.false_eq_true, if_false, hrd, bind, Except.bind, pure, Except.pure]
          rw [shiftInto_good c _ 41 rest sk' (by decide)]
          simp [hcfg, t'.missing_nil, (t'.defaults_nil : (defaults as : List (MVal F)) = []), Sev.toInt, htok, attrSev_null]
        | cons q qs' =>
          obtain ⟨sk1, hsk1, hrd⟩ := hread (p.before.reverse ++ l) sk 44 (renderParams (q :: qs') ++ rest) (Or.inl rfl)
          obtain ⟨sk', hsk', hrec⟩ := ih (q :: qs') (by simpa using t) (by simp) (fun x hx => hok x (by simp [hx]))
            (fun x hx => h41 x (by simp [hx]))
            (44 :: (p.after.reverse ++ (p.tok.reverse ++ (p.before.reverse ++ l)))) 44 sk1 rest
          refine ⟨sk', skflag_trans hsk1 hsk', ?_⟩
          simp only [List.map_cons, renderParams] at hrec ⊢
          unfold readAttrs
          have e1 : p.before ++ (p.tok ++ (p.after ++ 44 :: renderParams (q :: qs'))) ++ rest =
              p.before ++ c0 :: (u0 ++ (p.after ++ 44 :: (renderParams (q :: qs') ++ rest))) := by
            rw [htok]; simp
          rw [e1, readTokenSeparator_seps p.before hbef l c0 _ sk hc0 h47 h92]
          have e2 : c0 :: (u0 ++ (p.after ++ 44 :: (renderParams (q :: qs') ++ rest))) =
              p.tok ++ (p.after ++ 44 :: (renderParams (q :: qs') ++ rest)) := by rw [htok]; simp
          rw [e2]
          simp only [hred, Bool.false_eq_true, if_false, hrd, bind, Except.bind, pure, Except.pure]
          rw [shiftInto_good c _ 44 _ sk1 (by decide)]
          have e3 : (!((44 : Byte) == 44 || (44 : Byte) == 41)) = false := by decide
          have e4 : ((44 : Byte) == 41) = false := by decide
          have e5 : (Sev.null.toInt ≤ Sev.usermsg.toInt) = False := by decide
          simp only [e3, e4, e5, Bool.false_eq_true, if_false]
          rw [hrec]
          simp [htok, attrSev_null]

theorem AlignedA.ne_nil {as bs : List AttrD} (h : AlignedA as bs) (hb : bs ≠ []) : as ≠ [] := by
  cases h with
  | nil => exact absurd rfl hb
  | red => simp
  | keep => simp

/-- `SDAI_Application_instance::STEPread` on `( parameters )` for an entity whose attribute list holds redefining
    attributes: the parameters are read by the other attributes in order, severity NULL -/
theorem instSTEPread_aligned (env : Env F) (strict : Bool) (hcfg : env.cfg.missingCheckEverySecond = false)
    (attrs : List AttrD) (ps : List (Param F)) (hal : AlignedA attrs (ps.map (·.a))) (hne : ps ≠ [])
    (hok : ∀ p ∈ ps, ParamRd env strict p .null) (h41 : ∀ p ∈ ps, ∀ c u, p.tok = c :: u → c ≠ 41)
    (l : List Byte) (sk : Bool) (rest : List Byte) :
    ∃ sk', (sk' = sk ∨ sk' = false) ∧ instSTEPread env strict attrs (G l (40 :: (renderParams ps ++ rest)) sk) =
      .ok ⟨.null, ps.map (·.v), G ((40 :: renderParams ps).reverse ++ l) rest sk', .null⟩ := by
  cases ps with
  | nil => exact absurd rfl hne
  | cons p qs =>
    obtain ⟨hred, ⟨c0, u0, htok, hc0, h47, h92⟩, hbef, hread⟩ := hok p (by simp)
    let p' : Param F := { p with before := [] }
    have hok' : ∀ x ∈ p' :: qs, ParamRd env strict x .null := by
      intro x hx
      rcases List.mem_cons.mp hx with rfl | hx
      · exact ⟨hred, ⟨c0, u0, htok, hc0, h47, h92⟩, Seps.blanks [] (by simp), hread⟩
      · exact hok x (by simp [hx])
    have h41' : ∀ x ∈ p' :: qs, ∀ c u, x.tok = c :: u → c ≠ 41 := by
      intro x hx
      rcases List.mem_cons.mp hx with rfl | hx
      · exact h41 p (by simp)
      · exact h41 x (by simp [hx])
    obtain ⟨sk', hsk', hr⟩ := readAttrs_aligned env strict hcfg attrs (p' :: qs) (by simpa [p'] using hal) (by simp) hok' h41'
      (p.before.reverse ++ 40 :: l) 40 sk rest
    refine ⟨sk', hsk', ?_⟩
    have hattrs : attrs.isEmpty = false := by
      have := hal.ne_nil (by simp)
      cases attrs with
      | nil => exact absurd rfl this
      | cons _ _ => rfl
    unfold instSTEPread
    rw [show (G l (40 :: (renderParams (p :: qs) ++ rest)) sk).ws = G l (40 :: (renderParams (p :: qs) ++ rest)) sk
      from ws_good0 l 40 _ sk (by decide)]
    simp only [bind, Except.bind, pure, Except.pure]
    rw [shiftInto_good 0 l 40 _ sk (by decide)]
    simp only [bne_self_eq_false, Bool.false_eq_true, if_false, hattrs]
    have hhead : ∃ u1, renderParams (p' :: qs) ++ rest = c0 :: u1 := by
      cases qs with
      | nil => exact ⟨u0 ++ (p.after ++ 41 :: rest), by simp [renderParams, p', htok]⟩
      | cons q qs' => exact ⟨u0 ++ (p.after ++ 44 :: (renderParams (q :: qs') ++ rest)), by simp [renderParams, p', htok]⟩
    obtain ⟨u1, h1⟩ := hhead
    have e1 : renderParams (p :: qs) ++ rest = p.before ++ c0 :: u1 := by
      rw [renderParams_cons, List.append_assoc, h1]
    rw [e1, readTokenSeparator_seps p.before hbef (40 :: l) c0 u1 sk hc0 h47 h92, ← h1, hr]
    simp [renderParams_cons p qs, p']

end StepModel.P21.RLemmas

import StepModel.P21.ReaderLemmas15
/-! Both passes over a list of records with duplicate ids in it: a record whose id an earlier record of the list has is
skipped by both passes (counted not created / invalid) and disturbs no other record. -/
namespace StepModel.P21.RLemmas
open StepModel StepModel.IStream StepModel.P21 StepModel.P21.Lemmas StepModel.P21.Grammar

variable {F : Type}

/-- what both passes need of a record they skip -/
def SkipBase (x : Step F) : Prop := x.r.Lex ∧ Seps x.g ∧ ∀ q ∈ x.r.ps, ParamScan q

/-- the keyword names no entity of the dictionary, or an abstract one -/
def UnknownKw (d : Dict) (x : Step F) : Prop :=
  d.entity? x.r.name = none ∨ ∃ e, d.entity? x.r.name = some e ∧ e.abstract = true

/-- ids of the records pass 1 creates an instance for -/
def keptIds (xs : List (Step F × Bool)) : List Int := (kept xs).map (·.r.id)

/-- the id discipline of a list with duplicates, `seen` = the ids in the manager so far: a kept record (flag `true`) has a
    new id; a skipped record (flag `false`) either repeats an id seen before (a duplicate: whatever it holds) or has an id
    no kept record has, with an unknown or abstract keyword -/
def WfD (d : Dict) : List Int → List (Step F × Bool) → Prop
  | _, [] => True
  | seen, (x, true) :: t => x.r.id ∉ seen ∧ WfD d (seen ++ [x.r.id]) t
  | seen, (x, false) :: t => (x.r.id ∈ seen ∨ (x.r.id ∉ seen ∧ x.r.id ∉ keptIds t ∧ UnknownKw d x)) ∧ WfD d seen t

theorem wfD_kept_fresh (d : Dict) : ∀ (xs : List (Step F × Bool)) (seen : List Int), WfD d seen xs →
    ∀ y ∈ kept xs, y.r.id ∉ seen := by
  intro xs
  induction xs with
  | nil => intro seen _ y hy; simp [kept] at hy
  | cons xb t ih =>
    intro seen h y hy
    obtain ⟨x, b⟩ := xb
    cases b with
    | true =>
      obtain ⟨hx, ht⟩ := h
      rw [kept_cons_true] at hy
      rcases List.mem_cons.mp hy with rfl | hy
      · exact hx
      · intro hm
        exact ih (seen ++ [x.r.id]) ht y hy (List.mem_append_left _ hm)
    | false =>
      obtain ⟨_, ht⟩ := h
      rw [kept_cons_false] at hy
      exact ih seen ht y hy

theorem find?_of_mem_ids (m : Mgr F) (id : Int) (h : id ∈ m.insts.map (·.id)) :
    ∃ i0, m.find? id = some i0 ∧ i0 ∈ m.insts ∧ i0.id = id := by
  unfold Mgr.find?
  obtain ⟨i, hi, rfl⟩ := List.mem_map.mp h
  cases hf : m.insts.find? (·.id == i.id) with
  | none =>
    rw [List.find?_eq_none] at hf
    exact absurd (by simp) (hf i hi)
  | some i0 =>
    refine ⟨i0, rfl, List.mem_of_find?_eq_some hf, ?_⟩
    have := List.find?_some hf
    simpa using this

theorem readData1Loop_dups (cfg : RWCfg) (hcfg : cfg.skipInstanceSkipsComments = true) (d : Dict) (sp tail : List Byte)
    (hsp : sp.all isSpace = true) :
    ∀ (xs : List (Step F × Bool)) (st : P1 F) (g0 l : List Byte) (fuel : Nat),
      Seps g0 → st.s = G l (g0 ++ renderRecs (recsOfX xs) (endsec sp tail)) false → xs.length + 2 ≤ fuel →
      (∀ x ∈ xs, if x.2 then Rec1OK d x.1.rg else SkipBase x.1) → WfD d (st.mgr.insts.map (·.id)) xs →
      ∃ l', readData1Loop cfg d fuel st false =
        .ok { mgr := { insts := st.mgr.insts ++ (kept xs).map (fun x => mkInst d x.rg) }, count := st.count + (kept xs).length,
              notCreated := st.notCreated + nskip xs, s := G l' tail false } := by
  intro xs
  induction xs with
  | nil =>
    intro st g0 l fuel hg0 hs hf _ _
    obtain ⟨l', h⟩ := readData1Loop_end cfg d st g0 l sp tail hg0 hsp hs fuel (by simpa using hf)
    exact ⟨l', by simpa [kept, nskip] using h⟩
  | cons xb xs ih =>
    intro st g0 l fuel hg0 hs hf hok hwf
    obtain ⟨x, b⟩ := xb
    match fuel, hf with
    | n + 1, hf =>
      obtain ⟨c, k, hKe, hc⟩ := renderRecs_head (recsOfX xs) sp tail
      have hcs : isSpace c = false ∧ c ≠ 47 ∧ c ≠ 92 := by rcases hc with rfl | rfl <;> exact ⟨by decide, by decide, by decide⟩
      cases b with
      | true =>
        obtain ⟨hx, hwf'⟩ := hwf
        have hnone : st.mgr.find? x.r.id = none :=
          find?_none st.mgr x.r.id (fun i hi heq => hx (heq ▸ List.mem_map_of_mem (f := fun i : MInst F => i.id) hi))
        obtain ⟨hlex, hg, hscan, e, hent, habs⟩ : Rec1OK d x.rg := by simpa using hok (x, true) (by simp)
        obtain ⟨l1, hci⟩ := createInstance_rec cfg hcfg d st.mgr x.r hlex hscan hnone e hent habs (35 :: (g0.reverse ++ l)) x.g hg c k hcs.1 hcs.2.1 hcs.2.2
        rw [← hKe] at hci
        have hmk : ({ id := x.r.id, parts := [{ name := x.r.name, vals := defaults e.attrs }] } : MInst F) = mkInst d x.rg := by
          have hent' : d.entity? x.r.name = some e := hent
          simp [mkInst, Step.rg, hent']
        rw [hmk] at hci
        unfold readData1Loop
        rw [hs]
        simp only [G_good, Bool.not_false, Bool.and_self, if_true, bind, Except.bind, recsOfX, List.map_cons, Step.rg, renderRecs]
        simp only [readTokenSeparator_seps g0 hg0 l 35 _ false (by decide) (by decide), shiftInto_ns,
          bne_self_eq_false, Bool.false_eq_true, if_false, pure, Except.pure]
        have hci' := hci
        simp only [recsOfX, Step.rg] at hci'
        rw [hci']
        simp only
        rcases foundEndSec_gap [] (Seps.blanks [] (by simp)) (recsOfX xs) sp tail hsp l1 false with ⟨hnil, l2, hfe⟩ | ⟨l2, t, ht, hfe⟩
        · simp only [List.nil_append, recsOfX, Step.rg] at hfe
          rw [hfe]
          have hxs : xs = [] := by simpa [recsOfX] using hnil
          subst hxs
          refine ⟨l2, ?_⟩
          obtain ⟨m, rfl⟩ : ∃ m, n = m + 1 := ⟨n - 1, by simp only [List.length_cons] at hf; omega⟩
          unfold readData1Loop
          simp [kept, nskip, Step.rg]
          rfl
        · simp only [List.nil_append, recsOfX, Step.rg] at hfe
          rw [hfe]
          simp only
          obtain ⟨l3, hih⟩ := ih (⟨⟨st.mgr.insts ++ [mkInst d x.rg]⟩, st.count + 1, st.notCreated,
              G l2 (t ++ renderRecs (recsOfX xs) (endsec sp tail)) false⟩ : P1 F) t l2 n ht rfl
            (by simp only [List.length_cons] at hf; omega) (fun y hy => hok y (by simp [hy]))
            (by simpa [mkInst, Step.rg] using hwf')
          refine ⟨l3, ?_⟩
          have hih' := hih
          simp only [recsOfX, Step.rg] at hih'
          rw [hih']
          simp [kept_cons_true, nskip_cons_true, Nat.add_assoc, Nat.add_comm 1, Step.rg]
      | false =>
        obtain ⟨hcase, hwf'⟩ := hwf
        obtain ⟨hlex, hg, hscan⟩ : SkipBase x := by simpa using hok (x, false) (by simp)
        have hci : ∃ l1, createInstance cfg d st.mgr (G (35 :: (g0.reverse ++ l)) (x.r.text (x.g ++ renderRecs (recsOfX xs) (endsec sp tail))) false) =
            .ok (none, G l1 (x.g ++ renderRecs (recsOfX xs) (endsec sp tail)) false) := by
          rcases hcase with hmem | ⟨hnot, _, hunk⟩
          · obtain ⟨i0, hf0, _, _⟩ := find?_of_mem_ids st.mgr x.r.id hmem
            exact createInstance_dup cfg hcfg d st.mgr x.r hlex hscan i0 hf0 _ _
          · have hnone : st.mgr.find? x.r.id = none :=
              find?_none st.mgr x.r.id (fun i hi heq => hnot (heq ▸ List.mem_map_of_mem (f := fun i : MInst F => i.id) hi))
            exact createInstance_unknown cfg hcfg d st.mgr x.r hlex hscan hnone hunk _ _
        obtain ⟨l1, hci⟩ := hci
        unfold readData1Loop
        rw [hs]
        simp only [G_good, Bool.not_false, Bool.and_self, if_true, bind, Except.bind, recsOfX, List.map_cons, Step.rg, renderRecs]
        simp only [readTokenSeparator_seps g0 hg0 l 35 _ false (by decide) (by decide), shiftInto_ns,
          bne_self_eq_false, Bool.false_eq_true, if_false, pure, Except.pure]
        have hci' := hci
        simp only [recsOfX, Step.rg] at hci'
        rw [hci']
        simp only
        rcases foundEndSec_gap x.g hg (recsOfX xs) sp tail hsp l1 false with ⟨hnil, l2, hfe⟩ | ⟨l2, t, ht, hfe⟩
        · simp only [recsOfX, Step.rg] at hfe
          rw [hfe]
          have hxs : xs = [] := by simpa [recsOfX] using hnil
          subst hxs
          refine ⟨l2, ?_⟩
          obtain ⟨m, rfl⟩ : ∃ m, n = m + 1 := ⟨n - 1, by simp only [List.length_cons] at hf; omega⟩
          unfold readData1Loop
          simp [kept, nskip]
          rfl
        · simp only [recsOfX, Step.rg] at hfe
          rw [hfe]
          simp only
          obtain ⟨l3, hih⟩ := ih (⟨st.mgr, st.count, st.notCreated + 1,
              G l2 (t ++ renderRecs (recsOfX xs) (endsec sp tail)) false⟩ : P1 F) t l2 n ht rfl
            (by simp only [List.length_cons] at hf; omega) (fun y hy => hok y (by simp [hy])) hwf'
          refine ⟨l3, ?_⟩
          have hih' := hih
          simp only [recsOfX, Step.rg] at hih'
          rw [hih']
          simp [kept_cons_false, nskip_cons_false, Nat.add_assoc, Nat.add_comm 1]


/-- kept records come with a `StepOK` outcome whose state is no longer `new`; skipped ones with the lexical conditions -/
def Step2D (ops : FloatOps F) (lex : LexCfg) (cfg : RWCfg) (d : Dict) (strict : Bool) (lk : Lookup) (x : Step F × Bool) : Prop :=
  if x.2 then StepOK ops lex cfg d strict lk x.1 ∧ x.1.out.state ≠ .new else SkipBase x.1

theorem find?_pre_of_mem (pre post : List (MInst F)) (id : Int) (h : id ∈ pre.map (·.id)) :
    ∃ i0, ({ insts := pre ++ post } : Mgr F).find? id = some i0 ∧ i0 ∈ pre := by
  unfold Mgr.find?
  simp only [List.find?_append]
  obtain ⟨i, hi, rfl⟩ := List.mem_map.mp h
  cases hf : pre.find? (·.id == i.id) with
  | none =>
    rw [List.find?_eq_none] at hf
    exact absurd (by simp) (hf i hi)
  | some i0 => exact ⟨i0, by simp, List.mem_of_find?_eq_some hf⟩

theorem readData2Loop_dups (ops : FloatOps F) (lex : LexCfg) (cfg : RWCfg) (hskip : cfg.skipInstanceSkipsComments = true)
    (d : Dict) (strict : Bool) (lk : Lookup) (sp tail : List Byte) (hsp : sp.all isSpace = true) :
    ∀ (xs : List (Step F × Bool)) (st : P2 F) (pre : List (MInst F)) (g0 l : List Byte) (fuel : Nat),
      Seps g0 → st.s = G l (g0 ++ renderRecs (recsOfX xs) (endsec sp tail)) false → xs.length + 2 ≤ fuel →
      st.mgr.insts = pre ++ (kept xs).map (fun x => mkInst d x.rg) → (∀ i ∈ pre, i.state ≠ .new) →
      WfD d (pre.map (·.id)) xs → Mgr.lookup d st.mgr = lk →
      (∀ x ∈ xs, Step2D ops lex cfg d strict lk x) →
      ∃ st', readData2Loop ops lex cfg d strict fuel st false = .ok st' ∧
        P2Mixed st st' (pre ++ (kept xs).map (·.out)) xs tail := by
  intro xs
  induction xs with
  | nil =>
    intro st pre g0 l fuel hg0 hs hf hm _ _ _ _
    obtain ⟨l', h⟩ := readData2Loop_end ops lex cfg d strict st g0 l sp tail false hg0 hsp hs fuel (by simpa using hf)
    exact ⟨_, h, ⟨by simpa [kept] using hm, rfl, rfl, rfl, rfl, ⟨l', false, rfl⟩, by simp [kept]⟩⟩
  | cons xb xs ih =>
    intro st pre g0 l fuel hg0 hs hf hm hst hwf hlk hok
    obtain ⟨x, b⟩ := xb
    match fuel, hf with
    | n + 1, hf =>
      cases b with
      | true =>
        obtain ⟨hx, hwf'⟩ := hwf
        obtain ⟨⟨hg, hid, hkey, hstep⟩, hnew⟩ : StepOK ops lex cfg d strict lk x ∧ x.out.state ≠ .new := by
          simpa [Step2D] using hok (x, true) (by simp)
        have hkid : ∀ i ∈ (kept xs).map (fun x => mkInst d x.rg), i.id ≠ x.r.id := by
          intro i hi
          obtain ⟨y, hy, rfl⟩ := List.mem_map.mp hi
          intro heq
          exact wfD_kept_fresh d xs _ hwf' y hy (by rw [show y.r.id = x.r.id from heq]; simp)
        rw [kept_cons_true] at hm
        simp only [List.map_cons] at hm
        have hmgr : st.mgr = { insts := pre ++ mkInst d x.rg :: (kept xs).map (fun x => mkInst d x.rg) } :=
          Mgr.eq_of_insts _ _ hm
        have hpre : ∀ i ∈ pre, i.id ≠ (mkInst d x.rg).id :=
          fun i hi heq => hx (by rw [show x.r.id = i.id from heq.symm]; exact List.mem_map_of_mem (f := fun i : MInst F => i.id) hi)
        obtain ⟨l1, hri⟩ := hstep
          { st with s := G (35 :: (g0.reverse ++ l)) (x.r.text (x.g ++ renderRecs (recsOfX xs) (endsec sp tail))) false }
          _ _ (by show st.mgr.find? _ = _; rw [hmgr]; exact find?_mid pre _ (mkInst d x.rg) hpre) hlk rfl
        have hupd : st.mgr.update x.out = { insts := pre ++ x.out :: (kept xs).map (fun x => mkInst d x.rg) } := by
          rw [hmgr]; exact update_mid pre _ (mkInst d x.rg) x.out hid hpre hkid
        unfold readData2Loop
        rw [hs]
        simp only [G_good, Bool.not_false, Bool.and_self, if_true, bind, Except.bind, recsOfX, List.map_cons, Step.rg, renderRecs]
        simp only [readTokenSeparator_seps g0 hg0 l 35 _ false (by decide) (by decide), shiftInto_good 0 _ 35 _ false (by decide),
          bne_self_eq_false, Bool.false_eq_true, if_false, pure, Except.pure]
        have hri' := hri
        simp only [recsOfX, Step.rg] at hri'
        rw [hri']
        simp only
        have hap : applyOutcome st
            { s := G l1 (x.g ++ renderRecs (xs.map (fun x => (x.1.r, x.1.g))) (endsec sp tail)) false, inst := some x.out,
              reported := some x.sev, left := some .null } =
            { st with mgr := st.mgr.update x.out, fileErr := appendEntityError st.fileErr x.sev, reported := x.sev :: st.reported,
                      s := G l1 (x.g ++ renderRecs (xs.map (fun x => (x.1.r, x.1.g))) (endsec sp tail)) false, total := st.total + 1,
                      valid := st.valid + 1 } := rfl
        rw [hap, hupd]
        rcases foundEndSec_gap x.g hg (recsOfX xs) sp tail hsp l1 false with ⟨hnil, l2, hfe⟩ | ⟨l2, t, ht, hfe⟩
        · simp only [recsOfX, Step.rg] at hfe
          simp only [hfe]
          have hxs : xs = [] := by simpa [recsOfX] using hnil
          subst hxs
          obtain ⟨m, rfl⟩ : ∃ m, n = m + 1 := ⟨n - 1, by simp only [List.length_cons] at hf; omega⟩
          unfold readData2Loop
          simp only [G_good, Bool.not_true, Bool.and_false, Bool.false_eq_true, if_false, pure, Except.pure]
          exact ⟨_, rfl, ⟨by simp [kept], by simp [kept, errAfter], by simp [kept], by simp [kept], by simp [nskip],
            ⟨l2, false, rfl⟩, by simp [kept]⟩⟩
        · simp only [recsOfX, Step.rg] at hfe
          simp only [hfe]
          obtain ⟨st', hrun, hdone⟩ := ih
            ({ st with mgr := { insts := pre ++ x.out :: (kept xs).map (fun x => mkInst d x.rg) },
                       fileErr := appendEntityError st.fileErr x.sev, reported := x.sev :: st.reported,
                       s := G l2 (t ++ renderRecs (recsOfX xs) (endsec sp tail)) false, total := st.total + 1,
                       valid := st.valid + 1 } : P2 F)
            (pre ++ [x.out]) t l2 n ht rfl (by simp only [List.length_cons] at hf; omega) (by simp)
            (by
              intro i hi
              simp only [List.mem_append, List.mem_singleton] at hi
              rcases hi with hi | rfl
              · exact hst i hi
              · exact hnew)
            (by simpa [hid] using hwf')
            (by
              rw [← hlk, hmgr]
              apply lookup_congr
              simp only [List.map_append, List.map_cons, hkey])
            (fun y hy => hok y (by simp [hy]))
          have hrun' := hrun
          simp only [recsOfX, Step.rg] at hrun'
          refine ⟨st', hrun', ⟨?_, ?_, ?_, ?_, ?_, hdone.s, ?_⟩⟩
          · rw [hdone.mgr, kept_cons_true]; simp
          · rw [hdone.err, kept_cons_true]; simp [errAfter]
          · rw [hdone.total, kept_cons_true]; simp only [List.length_cons]; omega
          · rw [hdone.valid, kept_cons_true]; simp only [List.length_cons]; omega
          · rw [hdone.invalid, nskip_cons_true]
          · rw [hdone.rep, kept_cons_true]; simp
      | false =>
        obtain ⟨hcase, hwf'⟩ := hwf
        obtain ⟨hlex, hg, hscan⟩ : SkipBase x := by simpa [Step2D] using hok (x, false) (by simp)
        rw [kept_cons_false] at hm
        have hmgr : st.mgr = { insts := pre ++ (kept xs).map (fun x => mkInst d x.rg) } := Mgr.eq_of_insts _ _ hm
        have hri : ∃ l1, readInstance ops lex cfg d strict
            { st with s := G (35 :: (g0.reverse ++ l)) (x.r.text (x.g ++ renderRecs (recsOfX xs) (endsec sp tail))) false } =
            .ok { s := G l1 (x.g ++ renderRecs (recsOfX xs) (endsec sp tail)) false } := by
          rcases hcase with hmem | ⟨hnot, hnk, _⟩
          · obtain ⟨i0, hf0, hi0⟩ := find?_pre_of_mem pre ((kept xs).map (fun x => mkInst d x.rg)) x.r.id hmem
            exact readInstance_dup ops lex cfg d strict hskip _ x.r hlex hscan _ _ rfl i0 (by show st.mgr.find? _ = _; rw [hmgr]; exact hf0) (hst i0 hi0)
          · have hnf : st.mgr.find? x.r.id = none := by
              apply find?_none
              intro i hi
              rw [hm] at hi
              rcases List.mem_append.mp hi with hi | hi
              · intro heq; exact hnot (by rw [← heq]; exact List.mem_map_of_mem (f := fun i : MInst F => i.id) hi)
              · obtain ⟨y, hy, rfl⟩ := List.mem_map.mp hi
                intro heq
                exact hnk (by rw [← show y.r.id = x.r.id from heq]; exact List.mem_map_of_mem (f := fun y : Step F => y.r.id) hy)
            exact readInstance_notfound ops lex cfg d strict hskip _ x.r hlex hscan _ _ rfl hnf
        obtain ⟨l1, hri⟩ := hri
        unfold readData2Loop
        rw [hs]
        simp only [G_good, Bool.not_false, Bool.and_self, if_true, bind, Except.bind, recsOfX, List.map_cons, Step.rg, renderRecs]
        simp only [readTokenSeparator_seps g0 hg0 l 35 _ false (by decide) (by decide), shiftInto_good 0 _ 35 _ false (by decide),
          bne_self_eq_false, Bool.false_eq_true, if_false, pure, Except.pure]
        have hri' := hri
        simp only [recsOfX, Step.rg] at hri'
        rw [hri']
        simp only
        have hap : applyOutcome st
            ({ s := G l1 (x.g ++ renderRecs (xs.map (fun x => (x.1.r, x.1.g))) (endsec sp tail)) false } : IOut F) =
            { st with s := G l1 (x.g ++ renderRecs (xs.map (fun x => (x.1.r, x.1.g))) (endsec sp tail)) false,
                      invalid := st.invalid + 1 } := rfl
        rw [hap]
        rcases foundEndSec_gap x.g hg (recsOfX xs) sp tail hsp l1 false with ⟨hnil, l2, hfe⟩ | ⟨l2, t, ht, hfe⟩
        · simp only [recsOfX, Step.rg] at hfe
          simp only [hfe]
          have hxs : xs = [] := by simpa [recsOfX] using hnil
          subst hxs
          obtain ⟨m, rfl⟩ : ∃ m, n = m + 1 := ⟨n - 1, by simp only [List.length_cons] at hf; omega⟩
          unfold readData2Loop
          simp only [G_good, Bool.not_true, Bool.and_false, Bool.false_eq_true, if_false, pure, Except.pure]
          exact ⟨_, rfl, ⟨by simpa [kept] using hm, by simp [kept, errAfter], by simp [kept], by simp [kept], by simp [nskip],
            ⟨l2, false, rfl⟩, by simp [kept]⟩⟩
        · simp only [recsOfX, Step.rg] at hfe
          simp only [hfe]
          obtain ⟨st', hrun, hdone⟩ := ih
            ({ st with s := G l2 (t ++ renderRecs (recsOfX xs) (endsec sp tail)) false, invalid := st.invalid + 1 } : P2 F)
            pre t l2 n ht rfl (by simp only [List.length_cons] at hf; omega) hm hst hwf' hlk (fun y hy => hok y (by simp [hy]))
          have hrun' := hrun
          simp only [recsOfX, Step.rg] at hrun'
          refine ⟨st', hrun', ⟨?_, ?_, ?_, ?_, ?_, hdone.s, ?_⟩⟩
          · rw [hdone.mgr, kept_cons_false]
          · rw [hdone.err, kept_cons_false]
          · rw [hdone.total, kept_cons_false]
          · rw [hdone.valid, kept_cons_false]
          · rw [hdone.invalid, nskip_cons_false]; show st.invalid + 1 + nskip xs = st.invalid + (nskip xs + 1); omega
          · rw [hdone.rep, kept_cons_false]


/-- both passes over records with duplicate ids (and records with an unknown or abstract keyword) among them -/
theorem readDataSection_dups (ops : FloatOps F) (lex : LexCfg) (cfg : RWCfg) (hcfg : cfg.skipInstanceSkipsComments = true)
    (d : Dict) (strict : Bool) (sp tail : List Byte) (hsp : sp.all isSpace = true) (htail : TailOK tail)
    (xs : List (Step F × Bool)) (g0 : List Byte) (hg0 : Seps g0)
    (hwf : WfD d [] xs)
    (h1 : ∀ x ∈ xs, if x.2 then Rec1OK d x.1.rg else SkipBase x.1)
    (h2 : ∀ x ∈ xs, Step2D ops lex cfg d strict
            (Mgr.lookup d ({ insts := (kept xs).map (fun x => mkInst d x.rg) } : Mgr F)) x) :
    ∃ res, readDataSection ops lex cfg d strict false (g0 ++ renderRecs (recsOfX xs) (endsec sp tail)) = .ok res ∧
      res.mgr.insts = (kept xs).map (·.out) ∧
      res.sev = (if nskip xs > 0 then (errAfter (if nskip xs > 0 then .warning else .null) (kept xs)).greater .warning
                 else errAfter (if nskip xs > 0 then .warning else .null) (kept xs)) ∧
      res.created = (kept xs).length ∧ res.notCreated = nskip xs ∧ res.valid = (kept xs).length ∧ res.invalid = nskip xs ∧
      res.reported = ((kept xs).map (·.sev)).reverse := by
  -- pass 1
  have hp1 : ∃ l', readData1 (F := F) cfg d { right := g0 ++ renderRecs (recsOfX xs) (endsec sp tail), skipws := false } =
      .ok { mgr := { insts := (kept xs).map (fun x => mkInst d x.rg) }, count := (kept xs).length, notCreated := nskip xs,
            s := G l' tail false } := by
    unfold readData1
    rcases foundEndSec_gap g0 hg0 (recsOfX xs) sp tail hsp [] false with ⟨hnil, l2, hfe⟩ | ⟨l2, t, ht, hfe⟩
    · have hfe' : foundEndSec { right := g0 ++ renderRecs (recsOfX xs) (endsec sp tail), skipws := false } = (true, G l2 tail false) := hfe
      rw [hfe']
      have hxs : xs = [] := by simpa [recsOfX] using hnil
      subst hxs
      refine ⟨l2, ?_⟩
      simp only
      unfold readData1Loop
      simp [kept, nskip]
      rfl
    · have hfe' : foundEndSec { right := g0 ++ renderRecs (recsOfX xs) (endsec sp tail), skipws := false } =
          (false, G l2 (t ++ renderRecs (recsOfX xs) (endsec sp tail)) false) := hfe
      rw [hfe']
      simp only
      obtain ⟨l3, h⟩ := readData1Loop_dups cfg hcfg d sp tail hsp xs
        (⟨{}, 0, 0, G l2 (t ++ renderRecs (recsOfX xs) (endsec sp tail)) false⟩ : P1 F) t l2
        ((t ++ renderRecs (recsOfX xs) (endsec sp tail)).length + 3) ht rfl
        (by have := renderRecs_length (recsOfX xs) (endsec sp tail); rw [recsOfX_length] at this; simp only [List.length_append]; omega)
        h1 (by simpa using hwf)
      refine ⟨l3, ?_⟩
      simpa using h
  obtain ⟨l1, hp1⟩ := hp1
  rw [readDataSection_eq]
  simp only [bind, Except.bind, hp1, gt_iff_lt, pure, Except.pure]
  have key : ∃ st', readData2Loop ops lex cfg d strict
      ((foundEndSec { right := g0 ++ renderRecs (recsOfX xs) (endsec sp tail), skipws := false }).2.right.length + 3)
      { mgr := { insts := (kept xs).map (fun x => mkInst d x.rg) }, fileErr := (if 0 < nskip xs then .warning else .null),
        total := 0, valid := 0, invalid := 0, incomplete := 0,
        warnings := 0, s := (foundEndSec { right := g0 ++ renderRecs (recsOfX xs) (endsec sp tail), skipws := false }).2 }
      (foundEndSec { right := g0 ++ renderRecs (recsOfX xs) (endsec sp tail), skipws := false }).1 = .ok st' ∧
      st'.mgr.insts = (kept xs).map (·.out) ∧ st'.fileErr = errAfter (if 0 < nskip xs then .warning else .null) (kept xs) ∧
      st'.valid = (kept xs).length ∧ st'.invalid = nskip xs ∧
      (∃ l' sk', st'.s = G l' tail sk') ∧ st'.reported = ((kept xs).map (·.sev)).reverse := by
    rcases foundEndSec_gap g0 hg0 (recsOfX xs) sp tail hsp [] false with ⟨hnil, l2, hfe⟩ | ⟨l2, t, ht, hfe⟩
    · have hfe' : foundEndSec { right := g0 ++ renderRecs (recsOfX xs) (endsec sp tail), skipws := false } = (true, G l2 tail false) := hfe
      rw [hfe']
      have hxs : xs = [] := by simpa [recsOfX] using hnil
      subst hxs
      refine ⟨({ mgr := { insts := [] }, fileErr := .null, total := 0, valid := 0, invalid := 0, incomplete := 0,
                 warnings := 0, s := G l2 tail false } : P2 F), ?_, ?_⟩
      · simp only
        unfold readData2Loop
        simp [kept, nskip]
        rfl
      · exact ⟨rfl, rfl, rfl, rfl, ⟨l2, false, rfl⟩, rfl⟩
    · have hfe' : foundEndSec { right := g0 ++ renderRecs (recsOfX xs) (endsec sp tail), skipws := false } =
          (false, G l2 (t ++ renderRecs (recsOfX xs) (endsec sp tail)) false) := hfe
      rw [hfe']
      obtain ⟨st', hrun, hdone⟩ := readData2Loop_dups ops lex cfg hcfg d strict
        (Mgr.lookup d ({ insts := (kept xs).map (fun x => mkInst d x.rg) } : Mgr F)) sp tail hsp xs
        ({ mgr := { insts := (kept xs).map (fun x => mkInst d x.rg) }, fileErr := (if 0 < nskip xs then .warning else .null),
           total := 0, valid := 0, invalid := 0, incomplete := 0,
           warnings := 0, s := G l2 (t ++ renderRecs (recsOfX xs) (endsec sp tail)) false } : P2 F) [] t l2
        ((t ++ renderRecs (recsOfX xs) (endsec sp tail)).length + 3) ht rfl
        (by have := renderRecs_length (recsOfX xs) (endsec sp tail); rw [recsOfX_length] at this; simp only [List.length_append]; omega)
        (by simp) (by intro i hi; simp at hi) (by simpa using hwf) rfl h2
      refine ⟨st', hrun, ?_, hdone.err, ?_, ?_, hdone.s, ?_⟩
      · simpa using hdone.mgr
      · simpa using hdone.valid
      · simpa using hdone.invalid
      · simpa using hdone.rep
  obtain ⟨st', hrun, hm, herr, hv, hinv, hs, hrep⟩ := key
  rw [hrun]
  simp only
  obtain ⟨f1, f2, f3, f4, f5, f6, f7⟩ := finish_counts2
    ({ mgr := { insts := (kept xs).map (fun x => mkInst d x.rg) }, count := (kept xs).length, notCreated := nskip xs,
       s := G l1 tail false } : P1 F) st' tail htail hs hv
  refine ⟨_, rfl, ?_, ?_, f3, f4, ?_, ?_, ?_⟩
  · rw [f2, hm]
  · rw [f1, herr, hinv]
  · rw [f5, hv]
  · rw [f6, hinv]
  · rw [f7, hrep]


end StepModel.P21.RLemmas

import StepModel.P21.Grammar
/-! Helper lemmas for `Props/C09.lean`: behaviour of the `IStream` operations and of `CheckRemainingInput`
on the stream shapes the literal readers meet. -/
namespace StepModel.P21.Lemmas
open StepModel StepModel.IStream StepModel.P21 StepModel.P21.Grammar

/-- `omega` after exposing that `Byte` is `Nat` -/
macro "bomega" : tactic => `(tactic| ((try unfold Byte at *); omega))
/-- close a goal that is `a = a`, or `True` after `simp only` got there first -/
macro "triv" : tactic => `(tactic| first | rfl | trivial | simp)

/-! ### character classes -/
theorem digit_not_space {c : Byte} (h : isDigit c = true) : isSpace c = false := by
  simp [isDigit, isSpace] at *; bomega

theorem digit_not_delim {c : Byte} (h : isDigit c = true) : isDelim attrDelims c = false := by
  simp [isDigit, isDelim, attrDelims] at *; bomega

theorem space_not_delim {c : Byte} (h : isSpace c = true) : isDelim attrDelims c = false := by
  simp [isSpace, isDelim, attrDelims] at *; bomega

theorem space_not_digit {c : Byte} (h : isSpace c = true) : isDigit c = false := by
  simp [isDigit, isSpace] at *; bomega

/-! ### dropSpaces -/
theorem dropSpaces_nonspace (l r : List Byte) (c : Byte) (h : isSpace c = false) :
    dropSpaces l (c :: r) = (l, c :: r) := by
  simp [dropSpaces, h]

theorem dropSpaces_nil (l : List Byte) : dropSpaces l [] = (l, []) := rfl

theorem dropSpaces_append (sp : List Byte) (l r : List Byte) (h : sp.all isSpace = true) :
    dropSpaces l (sp ++ r) = dropSpaces (sp.reverse ++ l) r := by
  induction sp generalizing l with
  | nil => simp
  | cons a t ih =>
    simp only [List.all_cons, Bool.and_eq_true] at h
    simp [dropSpaces, h.1, ih _ h.2]

/-- every input splits into leading blanks and a body that is empty or starts with a non-blank -/
theorem dropSpaces_split (l r : List Byte) :
    ∃ sp body, r = sp ++ body ∧ sp.all isSpace = true ∧ dropSpaces l r = (sp.reverse ++ l, body) ∧
      (body = [] ∨ ∃ c t, body = c :: t ∧ isSpace c = false) := by
  induction r generalizing l with
  | nil => exact ⟨[], [], by simp, by simp, by simp [dropSpaces], Or.inl rfl⟩
  | cons a t ih =>
    by_cases ha : isSpace a = true
    · obtain ⟨sp, body, h1, h2, h3, h4⟩ := ih (a :: l)
      refine ⟨a :: sp, body, by simp [h1], by simp [ha, h2], ?_, h4⟩
      simp [dropSpaces, ha, h3]
    · have ha' : isSpace a = false := by simpa using ha
      exact ⟨[], a :: t, by simp, by simp, by simp [dropSpaces, ha'], Or.inr ⟨a, t, rfl, ha'⟩⟩

/-- bytes moved to the consumed side by `dropSpaces` are blanks -/
theorem dropSpaces_left (l r : List Byte) :
    ∃ sp, (dropSpaces l r).1 = sp.reverse ++ l ∧ sp.all isSpace = true ∧ r = sp ++ (dropSpaces l r).2 := by
  obtain ⟨sp, body, h1, h2, h3, _⟩ := dropSpaces_split l r
  exact ⟨sp, by simp [h3], h2, by rw [h3]; exact h1⟩

/-! ### layout: blanks and comments -/
theorem Layout.blanks {sp : List Byte} (h : sp.all isSpace = true) {m : List Byte} (hm : Layout m) : Layout (sp ++ m) := by
  induction sp with
  | nil => simpa using hm
  | cons a t ih =>
    simp only [List.all_cons, Bool.and_eq_true] at h
    exact Layout.blank h.1 (ih h.2)

/-- a closed comment body: what `commentBody` consumes ends with `*/` -/
theorem commentBody_some (prev : Byte) (l r : List Byte) (l' r' : List Byte) (h : commentBody prev l r = some (l', r')) :
    ∃ k, r = k ++ r' ∧ l' = k.reverse ++ l ∧ ∃ b, prev :: k = b ++ [42, 47] := by
  induction r generalizing prev l with
  | nil => simp [commentBody] at h
  | cons c t ih =>
    by_cases hc : (prev == 42 && c == 47) = true
    · simp only [commentBody, hc, if_true, Option.some.injEq, Prod.mk.injEq] at h
      obtain ⟨rfl, rfl⟩ := h
      simp only [Bool.and_eq_true, beq_iff_eq] at hc
      obtain ⟨rfl, rfl⟩ := hc
      exact ⟨[47], rfl, rfl, [], rfl⟩
    · have hc' : (prev == 42 && c == 47) = false := by simpa using hc
      simp only [commentBody, hc', Bool.false_eq_true, if_false] at h
      obtain ⟨k, h1, h2, b, hb⟩ := ih c (c :: l) h
      refine ⟨c :: k, by simp [h1], by simp [h2], prev :: b, ?_⟩
      simp [hb]


theorem noClose_prefix (p : Byte) (a b : List Byte) (h : noClose p (a ++ b) = true) : noClose p a = true := by
  induction a generalizing p with
  | nil => rfl
  | cons c t ih =>
    simp only [List.cons_append, noClose, Bool.and_eq_true] at h ⊢
    exact ⟨h.1, ih c h.2⟩

/-- an unterminated comment: its text contains no `*/` -/
theorem commentBody_none (prev : Byte) (l r : List Byte) (h : commentBody prev l r = none) : noClose prev r = true := by
  induction r generalizing prev l with
  | nil => rfl
  | cons c t ih =>
    by_cases hc : (prev == 42 && c == 47) = true
    · simp [commentBody, hc] at h
    · have hc' : (prev == 42 && c == 47) = false := by simpa using hc
      simp only [commentBody, hc', Bool.false_eq_true, if_false] at h
      simp only [noClose, hc', Bool.not_false, Bool.true_and]
      exact ih c (c :: l) h

/-- a closed comment: before its last character (the `/` of the closing `*/`) the consumed text contains no `*/` -/
theorem commentBody_noClose (prev : Byte) (l r : List Byte) (l' r' : List Byte) (h : commentBody prev l r = some (l', r')) :
    ∃ k, r = k ++ r' ∧ k ≠ [] ∧ noClose prev k.dropLast = true := by
  induction r generalizing prev l with
  | nil => simp [commentBody] at h
  | cons c t ih =>
    by_cases hc : (prev == 42 && c == 47) = true
    · simp only [commentBody, hc, if_true, Option.some.injEq, Prod.mk.injEq] at h
      obtain ⟨_, rfl⟩ := h
      exact ⟨[c], rfl, by simp, rfl⟩
    · have hc' : (prev == 42 && c == 47) = false := by simpa using hc
      simp only [commentBody, hc', Bool.false_eq_true, if_false] at h
      obtain ⟨k, h1, hk, h2⟩ := ih c (c :: l) h
      refine ⟨c :: k, by simp [h1], by simp, ?_⟩
      rw [List.dropLast_cons_of_ne_nil hk]
      simp only [noClose, hc', Bool.not_false, Bool.true_and]
      exact h2

/-- `SkipTokenSeparators`: what it consumes is layout, and it stops at the end of the input or in front of a non-blank -/
theorem skipSeps_spec (n : Nat) (l r : List Byte) (hn : r.length < n) :
    ∃ m, r = m ++ (skipSeps n l r).2.1 ∧ (skipSeps n l r).1 = m.reverse ++ l ∧ Layout m ∧
      (((skipSeps n l r).2.1 = [] ∧ (skipSeps n l r).2.2.1 = true) ∨
       (∃ c t, (skipSeps n l r).2.1 = c :: t ∧ isSpace c = false ∧ (skipSeps n l r).2.2.1 = false ∧
          (skipSeps n l r).2.2.2 = false)) := by
  induction n generalizing l r with
  | zero => omega
  | succ n ih =>
    obtain ⟨sp, body, h1, h2, h3, h4⟩ := dropSpaces_split l r
    rcases h4 with rfl | ⟨c, t, rfl, hc⟩ <;> subst h1
    · have hl : Layout sp := by simpa using Layout.blanks h2 Layout.nil
      have h3' : dropSpaces l sp = (sp.reverse ++ l, []) := by simpa using h3
      refine ⟨sp, ?_, ?_, hl, Or.inl ?_⟩ <;> simp [skipSeps, h3']
    · simp only [skipSeps, h3]
      split
      · rename_i heq; cases heq
      · rename_i r3 heq
        simp only [List.cons.injEq] at heq
        obtain ⟨rfl, rfl⟩ := heq
        cases hcb : commentBody 0 (42 :: 47 :: (sp.reverse ++ l)) r3 with
        | none =>
          refine ⟨sp ++ 47 :: 42 :: r3, ?_, ?_, Layout.blanks h2 (Layout.unterminated (commentBody_none 0 _ r3 hcb)), Or.inl ?_⟩ <;> simp
        | some lr' =>
          obtain ⟨l', r'⟩ := lr'
          obtain ⟨k, hk1, hk2, b, hb⟩ := commentBody_some 0 _ r3 l' r' hcb
          have hlen : r'.length < n := by
            have : (sp ++ 47 :: 42 :: r3).length = sp.length + (2 + (k.length + r'.length)) := by
              rw [hk1]; simp; omega
            omega
          obtain ⟨m2, hm1, hm2, hm3, hm4⟩ := ih l' r' hlen
          have hkb : ∃ b', k = b' ++ [42, 47] := by
            cases b with
            | nil => simp at hb
            | cons x b' => simp at hb; exact ⟨b', hb.2⟩
          obtain ⟨b', rfl⟩ := hkb
          have hnc : noClose 0 b' = true := by
            obtain ⟨k2, hk21, _, hk23⟩ := commentBody_noClose 0 _ r3 l' r' hcb
            have hk : k2 = b' ++ [42, 47] := List.append_cancel_right (hk21.symm.trans hk1)
            rw [hk] at hk23
            have : (b' ++ [42, 47]).dropLast = b' ++ [42] := by
              rw [show b' ++ [42, 47] = (b' ++ [42]) ++ [47] by simp, List.dropLast_concat]
            rw [this] at hk23
            exact noClose_prefix 0 b' [42] hk23
          simp only
          generalize skipSeps n l' r' = X at hm1 hm2 hm3 hm4 ⊢
          refine ⟨sp ++ 47 :: 42 :: (b' ++ 42 :: 47 :: m2), ?_, ?_, Layout.blanks h2 (Layout.comment hnc hm3), hm4⟩
          · rw [hk1, hm1]; simp
          · rw [hm2, hk2]; simp
      · exact ⟨sp, rfl, rfl, by simpa using Layout.blanks h2 Layout.nil, Or.inr ⟨c, t, rfl, hc, rfl, rfl⟩⟩

theorem Between.of_blanks (cfg : LexCfg) {sp : List Byte} (h : sp.all isSpace = true) : Between cfg sp := by
  unfold Between; split
  · simpa using Layout.blanks h Layout.nil
  · exact h

theorem Between.nil (cfg : LexCfg) : Between cfg [] := Between.of_blanks cfg (by simp)

theorem peekC_fields (s : IStream) (c : Byte) (t : List Byte) (h1 : s.right = c :: t) (h2 : s.eof = false) (h3 : s.fail = false)
    (h4 : s.bad = false) : s.peekC = (c, s) := by
  obtain ⟨l, r, e, f, b, sk⟩ := s
  simp only at h1 h2 h3 h4; subst h1 h2 h3 h4
  simp [IStream.peekC, IStream.peek, IStream.sentry, IStream.good]

/-- what `CheckRemainingInput` skips first: only separators (`Sep`), and it stops at the end of the input (eofbit) or in
    front of a non-blank with the flags clear -/
theorem sepSkip_spec (cfg : LexCfg) (l r : List Byte) (sk : Bool) :
    ∃ m, r = m ++ (sepSkip cfg { left := l, right := r, eof := false, fail := false, bad := false, skipws := sk }).right ∧
      (sepSkip cfg { left := l, right := r, eof := false, fail := false, bad := false, skipws := sk }).left = m.reverse ++ l ∧
      Between cfg m ∧
      (sepSkip cfg { left := l, right := r, eof := false, fail := false, bad := false, skipws := sk }).bad = false ∧
      (sepSkip cfg { left := l, right := r, eof := false, fail := false, bad := false, skipws := sk }).skipws = sk ∧
      (((sepSkip cfg { left := l, right := r, eof := false, fail := false, bad := false, skipws := sk }).right = [] ∧
        (sepSkip cfg { left := l, right := r, eof := false, fail := false, bad := false, skipws := sk }).eof = true) ∨
       (∃ c t, (sepSkip cfg { left := l, right := r, eof := false, fail := false, bad := false, skipws := sk }).right = c :: t ∧
          isSpace c = false ∧
          (sepSkip cfg { left := l, right := r, eof := false, fail := false, bad := false, skipws := sk }).eof = false ∧
          (sepSkip cfg { left := l, right := r, eof := false, fail := false, bad := false, skipws := sk }).fail = false)) := by
  cases hc : cfg.criSkipsComments with
  | true =>
    obtain ⟨m, h1, h2, h3, h4⟩ := skipSeps_spec (r.length + 1) l r (by omega)
    refine ⟨m, ?_, ?_, by simp [Between, hc, h3], ?_, ?_, ?_⟩ <;> simp only [sepSkip, hc, if_true]
    · exact h1
    · exact h2
    · exact h4
  | false =>
    obtain ⟨sp, body, h1, h2, h3, h4⟩ := dropSpaces_split l r
    have hsep : Between cfg sp := by simp [Between, hc, h2]
    rcases h4 with rfl | ⟨c, t, rfl, hcs⟩ <;> subst h1
    · have h3' : dropSpaces l sp = (sp.reverse ++ l, []) := by simpa using h3
      refine ⟨sp, ?_, ?_, hsep, ?_, ?_, Or.inl ?_⟩ <;>
        simp [sepSkip, hc, IStream.ws, IStream.sentry, IStream.good, h3']
    · refine ⟨sp, ?_, ?_, hsep, ?_, ?_, Or.inr ⟨c, t, ?_, hcs, ?_, ?_⟩⟩ <;>
        simp [sepSkip, hc, IStream.ws, IStream.sentry, IStream.good, h3]

/-- blanks and then a character that is neither a blank nor `/`: the separator skipper stops right there -/
theorem sepSkip_stop (cfg : LexCfg) (l sp : List Byte) (d : Byte) (rest : List Byte) (sk : Bool)
    (hsp : sp.all isSpace = true) (hdn : isSpace d = false) (hd47 : d ≠ 47) :
    sepSkip cfg { left := l, right := sp ++ d :: rest, eof := false, fail := false, bad := false, skipws := sk } =
      { left := sp.reverse ++ l, right := d :: rest, eof := false, fail := false, bad := false, skipws := sk } := by
  have hds : dropSpaces l (sp ++ d :: rest) = (sp.reverse ++ l, d :: rest) := by
    rw [dropSpaces_append _ _ _ hsp, dropSpaces_nonspace _ _ _ hdn]
  cases hc : cfg.criSkipsComments with
  | true =>
    simp only [sepSkip, hc, if_true, skipSeps, hds]
    split
    · rename_i heq; cases heq
    · rename_i heq; simp at heq; exact absurd heq.1 hd47
    · rfl
  | false =>
    simp [sepSkip, hc, IStream.ws, IStream.sentry, IStream.good, hds]

/-! ### stream operations on a good stream -/
theorem ws_good (l sp : List Byte) (c : Byte) (t : List Byte) (sk : Bool) (hsp : sp.all isSpace = true)
    (hc : isSpace c = false) :
    IStream.ws { left := l, right := sp ++ c :: t, eof := false, fail := false, bad := false, skipws := sk } =
      { left := sp.reverse ++ l, right := c :: t, eof := false, fail := false, bad := false, skipws := sk } := by
  simp [IStream.ws, IStream.sentry, IStream.good, dropSpaces_append _ _ _ hsp, dropSpaces_nonspace _ _ _ hc]

theorem ws_good0 (l : List Byte) (c : Byte) (t : List Byte) (sk : Bool) (hc : isSpace c = false) :
    IStream.ws { left := l, right := c :: t, eof := false, fail := false, bad := false, skipws := sk } =
      { left := l, right := c :: t, eof := false, fail := false, bad := false, skipws := sk } := by
  simpa using ws_good l [] c t sk (by simp) hc

theorem ws_blank (l sp : List Byte) (sk : Bool) (hsp : sp.all isSpace = true) :
    IStream.ws { left := l, right := sp, eof := false, fail := false, bad := false, skipws := sk } =
      { left := sp.reverse ++ l, right := [], eof := true, fail := false, bad := false, skipws := sk } := by
  have := dropSpaces_append sp l [] hsp
  simp only [List.append_nil] at this
  simp [IStream.ws, IStream.sentry, IStream.good, this, dropSpaces]

theorem peekC_good (l : List Byte) (c : Byte) (t : List Byte) (sk : Bool) :
    IStream.peekC { left := l, right := c :: t, eof := false, fail := false, bad := false, skipws := sk } =
      (c, { left := l, right := c :: t, eof := false, fail := false, bad := false, skipws := sk }) := by
  simp [IStream.peekC, IStream.peek, IStream.sentry, IStream.good]

theorem ignore1_good (l : List Byte) (c : Byte) (t : List Byte) (sk : Bool) :
    IStream.ignore1 { left := l, right := c :: t, eof := false, fail := false, bad := false, skipws := sk } =
      { left := c :: l, right := t, eof := false, fail := false, bad := false, skipws := sk } := by
  simp [IStream.ignore1, IStream.sentry, IStream.good]

/-- `in >> long` on a good stream whose next character is not a blank -/
theorem extractLong_good (l : List Byte) (c : Byte) (t : List Byte) (hc : isSpace c = false) :
    IStream.extractLong { left := l, right := c :: t, eof := false, fail := false, bad := false, skipws := true } =
      (some (scanInt longMin longMax l (c :: t)).1.value,
       { left := (scanInt longMin longMax l (c :: t)).2.1, right := (scanInt longMin longMax l (c :: t)).2.2,
         eof := (scanInt longMin longMax l (c :: t)).2.2.isEmpty, fail := (scanInt longMin longMax l (c :: t)).1.fail,
         bad := false, skipws := true }) := by
  simp [IStream.extractLong, IStream.sentry, IStream.good, dropSpaces_nonspace _ _ _ hc]

/-! ### spanDigits / digitsVal -/
theorem spanDigits_spec (ds : List Byte) (acc l r : List Byte) (hds : ds.all isDigit = true)
    (hr : r = [] ∨ ∃ c t, r = c :: t ∧ isDigit c = false) :
    spanDigits acc l (ds ++ r) = (acc.reverse ++ ds, ds.reverse ++ l, r) := by
  induction ds generalizing acc l with
  | nil =>
    rcases hr with rfl | ⟨c, t, rfl, hc⟩
    · simp [spanDigits]
    · simp [spanDigits, hc]
  | cons a t ih =>
    simp only [List.all_cons, Bool.and_eq_true] at hds
    simp [spanDigits, hds.1, ih _ _ hds.2]

theorem spanDigits_spec0 (ds l r : List Byte) (hds : ds.all isDigit = true)
    (hr : r = [] ∨ ∃ c t, r = c :: t ∧ isDigit c = false) :
    spanDigits [] l (ds ++ r) = (ds, ds.reverse ++ l, r) := by
  simpa using spanDigits_spec ds [] l r hds hr

/-- `spanDigits` always splits its input into a run of digits and a rest that does not start with a digit -/
theorem spanDigits_split (acc l r : List Byte) :
    ∃ ds rest, r = ds ++ rest ∧ ds.all isDigit = true ∧ spanDigits acc l r = (acc.reverse ++ ds, ds.reverse ++ l, rest) ∧
      (rest = [] ∨ ∃ c t, rest = c :: t ∧ isDigit c = false) := by
  induction r generalizing acc l with
  | nil => exact ⟨[], [], by simp, by simp, by simp [spanDigits], Or.inl rfl⟩
  | cons a t ih =>
    by_cases ha : isDigit a = true
    · obtain ⟨ds, rest, h1, h2, h3, h4⟩ := ih (a :: acc) (a :: l)
      refine ⟨a :: ds, rest, by simp [h1], by simp [ha, h2], ?_, h4⟩
      simp [spanDigits, ha, h3]
    · have ha' : isDigit a = false := by simpa using ha
      exact ⟨[], a :: t, by simp, by simp, by simp [spanDigits, ha'], Or.inr ⟨a, t, rfl, ha'⟩⟩

/-! ### takeSign -/
theorem takeSign_minus (l r : List Byte) : takeSign l (45 :: r) = (true, 45 :: l, r) := rfl
theorem takeSign_plus (l r : List Byte) : takeSign l (43 :: r) = (false, 43 :: l, r) := rfl
theorem takeSign_other (l r : List Byte) (c : Byte) (h1 : c ≠ 45) (h2 : c ≠ 43) :
    takeSign l (c :: r) = (false, l, c :: r) := by
  unfold takeSign; split <;> simp_all
theorem takeSign_nil (l : List Byte) : takeSign l [] = (false, l, []) := rfl

/-! ### severities -/
theorem greater_warning_ne_null (e : Sev) : e.greater .warning ≠ .null := by
  cases e <;> decide

theorem greater_inputError_ne_null (e : Sev) : e.greater .inputError ≠ .null := by
  cases e <;> decide

theorem greater_incomplete_ne_null (e : Sev) : e.greater .incomplete ≠ .null := by
  cases e <;> decide

/-- "no error": the severities that do not flag the attribute -/
def NoErr (e : Sev) : Prop := e = .null ∨ e = .usermsg

theorem greater_warning_err (e : Sev) : ¬ NoErr (e.greater .warning) := by
  cases e <;> simp [NoErr, Sev.greater, Sev.toInt]

theorem greater_inputError_err (e : Sev) : ¬ NoErr (e.greater .inputError) := by
  cases e <;> simp [NoErr, Sev.greater, Sev.toInt]

theorem greater_incomplete_err (e : Sev) : ¬ NoErr (e.greater .incomplete) := by
  cases e <;> simp [NoErr, Sev.greater, Sev.toInt]

/-! ### skipTo / CheckRemainingInput -/
/-- a character of the list is a delimiter in every configuration -/
@[simp] theorem delimAt_of_isDelim (cfg : LexCfg) (ds : List Byte) (c : Byte) (h : isDelim ds c = true) :
    delimAt cfg ds c = true := by simp [delimAt, h]

/-- the sentinel test only ever adds a WARNING: without an error it said no -/
theorem noErr_sentinelIf (e : Sev) (b : Bool) (h : NoErr (e.sentinelIf b)) : b = false ∧ NoErr e := by
  unfold Sev.sentinelIf at h
  cases b with
  | false => exact ⟨rfl, by simpa [Sev.warnIf] using h⟩
  | true => exact absurd h (by simpa [Sev.warnIf] using greater_warning_err e)

theorem delimAt_false {cfg : LexCfg} {ds : List Byte} {c : Byte} (h : delimAt cfg ds c = false) : isDelim ds c = false := by
  simp [delimAt] at h; exact h.2

theorem delimAt_ne_zero {cfg : LexCfg} {ds : List Byte} {c : Byte} (h0 : c ≠ 0) : delimAt cfg ds c = isDelim ds c := by
  simp [delimAt, h0]

theorem delimAt_strict {cfg : LexCfg} (h : cfg.nulIsDelim = false) (ds : List Byte) (c : Byte) : delimAt cfg ds c = isDelim ds c := by
  simp [delimAt, h]

theorem digit_not_delimAt (cfg : LexCfg) {c : Byte} (h : isDigit c = true) : delimAt cfg attrDelims c = false := by
  have h0 : c ≠ 0 := by simp [isDigit] at h; bomega
  rw [delimAt_ne_zero h0]; exact digit_not_delim h

theorem space_not_delimAt (cfg : LexCfg) {c : Byte} (h : isSpace c = true) : delimAt cfg attrDelims c = false := by
  have h0 : c ≠ 0 := by intro h0; subst h0; revert h; decide
  rw [delimAt_ne_zero h0]; exact space_not_delim h

theorem skipTo_spec (cfg : LexCfg) (ds : List Byte) (c : Byte) (l r : List Byte) (hc : delimAt cfg ds c = false) :
    ∃ m rest, r = m ++ rest ∧ (∀ b ∈ m, delimAt cfg ds b = false) ∧
      ((rest = [] ∧ ∃ c', delimAt cfg ds c' = false ∧ skipTo cfg ds c l r = (c', m.reverse ++ l, [], true)) ∨
       (∃ d t, rest = d :: t ∧ delimAt cfg ds d = true ∧ skipTo cfg ds c l r = (d, d :: (m.reverse ++ l), t, false))) := by
  induction r generalizing c l with
  | nil => exact ⟨[], [], by simp, by simp, Or.inl ⟨rfl, c, hc, by simp [skipTo]⟩⟩
  | cons x t ih =>
    by_cases hx : delimAt cfg ds x = true
    · exact ⟨[], x :: t, by simp, by simp, Or.inr ⟨x, t, rfl, hx, by simp [skipTo, hx]⟩⟩
    · have hx' : delimAt cfg ds x = false := by simpa using hx
      obtain ⟨m, rest, h1, h2, h3⟩ := ih x (x :: l) hx'
      refine ⟨x :: m, rest, by simp [h1], ?_, ?_⟩
      · intro b hb
        rcases List.mem_cons.mp hb with rfl | hb
        · exact hx'
        · exact h2 b hb
      · rcases h3 with ⟨hr, c', hc', hs⟩ | ⟨d, t', hr, hd, hs⟩
        · exact Or.inl ⟨hr, c', hc', by simp [skipTo, hx', hs]⟩
        · exact Or.inr ⟨d, t', hr, hd, by simp [skipTo, hx', hs]⟩

theorem skipToRec_spec (cfg : LexCfg) (ds : List Byte) (c : Byte) (l r : List Byte) (hc : delimAt cfg ds c = false) :
    ∃ m rest, r = m ++ rest ∧ (∀ b ∈ m, delimAt cfg ds b = false) ∧
      ((rest = [] ∧ ∃ c', delimAt cfg ds c' = false ∧ skipToRec cfg ds c l r = (c', m.reverse ++ l, [], true, false)) ∨
       (∃ d t, rest = d :: t ∧ delimAt cfg ds d = true ∧ skipToRec cfg ds c l r = (d, d :: (m.reverse ++ l), t, false, false)) ∨
       (∃ t, rest = 59 :: t ∧ delimAt cfg ds 59 = false ∧ skipToRec cfg ds c l r = (59, m.reverse ++ l, 59 :: t, false, true))) := by
  induction r generalizing c l with
  | nil => exact ⟨[], [], by simp, by simp, Or.inl ⟨rfl, c, hc, by simp [skipToRec]⟩⟩
  | cons x t ih =>
    by_cases hx : delimAt cfg ds x = true
    · exact ⟨[], x :: t, by simp, by simp, Or.inr (Or.inl ⟨x, t, rfl, hx, by simp [skipToRec, hx]⟩)⟩
    · have hx' : delimAt cfg ds x = false := by simpa using hx
      by_cases h59 : (x == 59) = true
      · have hx59 : x = 59 := by simpa using h59
        subst hx59
        refine ⟨[], 59 :: t, by simp, by simp, Or.inr (Or.inr ⟨t, rfl, hx', ?_⟩)⟩
        simp [skipToRec, hx']
      · have h59' : (x == 59) = false := by simpa using h59
        obtain ⟨m, rest, h1, h2, h3⟩ := ih x (x :: l) hx'
        refine ⟨x :: m, rest, by simp [h1], ?_, ?_⟩
        · intro b hb
          rcases List.mem_cons.mp hb with rfl | hb
          · exact hx'
          · exact h2 b hb
        · rcases h3 with ⟨hr, c', hc', hs⟩ | ⟨d, t', hr, hd, hs⟩ | ⟨t', hr, hd, hs⟩
          · exact Or.inl ⟨hr, c', hc', by simp [skipToRec, hx', h59', hs]⟩
          · exact Or.inr (Or.inl ⟨d, t', hr, hd, by simp [skipToRec, hx', h59', hs]⟩)
          · exact Or.inr (Or.inr ⟨t', hr, hd, by simp [skipToRec, hx', h59', hs]⟩)

/-- the recovery loop of either configuration: it consumes a delimiter-free stretch `m` and stops at the end of the input, at
    a delimiter (consumed, to be put back), or — repaired loop — in front of a `;` -/
theorem skipGarbage_spec (cfg : LexCfg) (ds : List Byte) (c : Byte) (l r : List Byte) (hc : delimAt cfg ds c = false) :
    ∃ m rest, r = m ++ rest ∧ (∀ b ∈ m, delimAt cfg ds b = false) ∧
      ((rest = [] ∧ ∃ c', delimAt cfg ds c' = false ∧ skipGarbage cfg ds c l r = (c', m.reverse ++ l, [], true, false)) ∨
       (∃ d t, rest = d :: t ∧ delimAt cfg ds d = true ∧ skipGarbage cfg ds c l r = (d, d :: (m.reverse ++ l), t, false, false)) ∨
       (∃ t, rest = 59 :: t ∧ delimAt cfg ds 59 = false ∧ skipGarbage cfg ds c l r = (59, m.reverse ++ l, 59 :: t, false, true))) := by
  unfold skipGarbage
  split
  · exact skipToRec_spec cfg ds c l r hc
  · obtain ⟨m, rest, h1, h2, h3⟩ := skipTo_spec cfg ds c l r hc
    refine ⟨m, rest, h1, h2, ?_⟩
    rcases h3 with ⟨hr, c', hc', hs⟩ | ⟨d, t, hr, hd, hs⟩
    · exact Or.inl ⟨hr, c', hc', by rw [hs]⟩
    · exact Or.inr (Or.inl ⟨d, t, hr, hd, by rw [hs]⟩)

/-- a value followed by blanks and a delimiter: `CheckRemainingInput` skips the blanks, stops *at* the delimiter and
    reports nothing (whatever `failbit` said before) -/
theorem cri_delim (cfg : LexCfg) (l sp rest : List Byte) (d : Byte) (f sk : Bool) (e : Sev)
    (hsp : sp.all isSpace = true) (hd : isDelim attrDelims d = true) (hdn : isSpace d = false) :
    checkRemainingInput cfg (some attrDelims)
        { left := l, right := sp ++ d :: rest, eof := false, fail := f, bad := false, skipws := sk } e
      = ({ left := sp.reverse ++ l, right := d :: rest, eof := false, fail := false, bad := false, skipws := sk }, e) := by
  have hd47 : d ≠ 47 := by
    intro h; subst h; revert hd; decide
  simp only [checkRemainingInput, IStream.clear, Bool.false_eq_true, if_false,
    sepSkip_stop cfg l sp d rest sk hsp hdn hd47, peekC_good, delimAt_of_isDelim cfg _ _ hd, if_true]

/-! ### INTEGER tokens -/
theorem splitSign_cases (t : List Byte) :
    (∃ r, t = 45 :: r ∧ splitSign t = (true, r)) ∨ (∃ r, t = 43 :: r ∧ splitSign t = (false, r)) ∨
    ((∀ r, t ≠ 45 :: r) ∧ (∀ r, t ≠ 43 :: r) ∧ splitSign t = (false, t)) := by
  unfold splitSign
  split
  · exact Or.inl ⟨_, rfl, rfl⟩
  · exact Or.inr (Or.inl ⟨_, rfl, rfl⟩)
  · rename_i h1 h2
    exact Or.inr (Or.inr ⟨fun r hr => h1 r hr, fun r hr => h2 r hr, rfl⟩)

/-- the sign/digits split of `scanInt` on a token followed by a non-digit -/
theorem scanInt_token (lo hi : Int) (l : List Byte) (t rest : List Byte) (h : isInteger t = true)
    (hr : rest = [] ∨ ∃ c u, rest = c :: u ∧ isDigit c = false) :
    scanInt lo hi l (t ++ rest) =
      (if (splitSign t).1 then (if denoteInteger t < lo then ⟨lo, true⟩ else ⟨denoteInteger t, false⟩)
       else (if denoteInteger t > hi then ⟨hi, true⟩ else ⟨denoteInteger t, false⟩), t.reverse ++ l, rest) := by
  unfold isInteger at h
  simp only [Bool.and_eq_true, Bool.not_eq_true', allDigits] at h
  rcases splitSign_cases t with ⟨r, rfl, hs⟩ | ⟨r, rfl, hs⟩ | ⟨h1, h2, hs⟩
  · rw [hs] at h
    simp only [scanInt, List.cons_append, takeSign_minus, takeSign_plus, spanDigits_spec0 r _ rest h.2 hr, denoteInteger, hs]
    have : r.isEmpty = false := h.1
    simp [this]
  · rw [hs] at h
    simp only [scanInt, List.cons_append, takeSign_minus, takeSign_plus, spanDigits_spec0 r _ rest h.2 hr, denoteInteger, hs]
    have : r.isEmpty = false := h.1
    simp [this]
  · rw [hs] at h
    match t, h, h1, h2, hs with
    | [], h, _, _, _ => simp at h
    | c :: t', h, h1, h2, hs =>
      have hall : isDigit c = true ∧ t'.all isDigit = true := by simpa using h.2
      have hc45 : c ≠ 45 := fun e => h1 t' (by rw [e])
      have hc43 : c ≠ 43 := fun e => h2 t' (by rw [e])
      have hsp := spanDigits_spec0 (c :: t') l rest (by simpa using hall) hr
      simp only [List.cons_append] at hsp
      simp [scanInt, takeSign_other _ _ _ hc45 hc43, hsp, denoteInteger, hs]

theorem isInteger_head (t : List Byte) (h : isInteger t = true) :
    ∃ c u, t = c :: u ∧ isSpace c = false ∧ c ≠ 36 ∧ c ≠ 44 ∧ c ≠ 41 := by
  unfold isInteger at h
  simp only [Bool.and_eq_true, Bool.not_eq_true', allDigits] at h
  rcases splitSign_cases t with ⟨r, rfl, hs⟩ | ⟨r, rfl, hs⟩ | ⟨h1, h2, hs⟩
  · exact ⟨45, r, rfl, by decide, by decide, by decide, by decide⟩
  · exact ⟨43, r, rfl, by decide, by decide, by decide, by decide⟩
  · rw [hs] at h
    match t, h with
    | [], h => simp at h
    | c :: u, h =>
      have hall : isDigit c = true ∧ u.all isDigit = true := by simpa using h.2
      have hc := hall.1
      refine ⟨c, u, rfl, digit_not_space hc, ?_, ?_, ?_⟩ <;>
        (simp [isDigit] at hc; bomega)


theorem takeSign_cases (l r : List Byte) :
    (∃ r', r = 45 :: r' ∧ takeSign l r = (true, 45 :: l, r')) ∨ (∃ r', r = 43 :: r' ∧ takeSign l r = (false, 43 :: l, r')) ∨
    ((∀ r', r ≠ 45 :: r') ∧ (∀ r', r ≠ 43 :: r') ∧ takeSign l r = (false, l, r)) := by
  unfold takeSign
  split
  · exact Or.inl ⟨_, rfl, rfl⟩
  · exact Or.inr (Or.inl ⟨_, rfl, rfl⟩)
  · rename_i h1 h2
    exact Or.inr (Or.inr ⟨fun r hr => h1 r hr, fun r hr => h2 r hr, rfl⟩)

theorem isInteger_signed (sg ds : List Byte) (hsg : sg = [43] ∨ sg = [45]) (hne : ds ≠ []) (hds : ds.all isDigit = true) :
    isInteger (sg ++ ds) = true := by
  rcases hsg with rfl | rfl <;> simp [isInteger, splitSign, allDigits, hds, hne]

theorem isInteger_unsigned (ds : List Byte) (hne : ds ≠ []) (hds : ds.all isDigit = true) :
    isInteger ds = true := by
  match ds, hne, hds with
  | c :: t, _, hds =>
    have hall : isDigit c = true ∧ t.all isDigit = true := by simpa using hds
    have hc := hall.1
    have h45 : c ≠ 45 := by simp [isDigit] at hc; bomega
    have h43 : c ≠ 43 := by simp [isDigit] at hc; bomega
    have : splitSign (c :: t) = (false, c :: t) := by
      unfold splitSign; split <;> simp_all
    simp [isInteger, this, allDigits, hall]

def ScanIntSplit (lo hi : Int) (l r : List Byte) : Prop :=
    ∃ tok rest, r = tok ++ rest ∧ (rest = [] ∨ ∃ c t, rest = c :: t ∧ isDigit c = false) ∧
      (scanInt lo hi l r).2 = (tok.reverse ++ l, rest) ∧
      ((scanInt lo hi l r).1.fail = false →
        isInteger tok = true ∧ (scanInt lo hi l r).1.value = denoteInteger tok ∧ lo ≤ denoteInteger tok ∧ denoteInteger tok ≤ hi) ∧
      (∀ b ∈ tok, isDelim attrDelims b = false)

theorem denote_sign (t : List Byte) :
    ((splitSign t).1 = true → denoteInteger t ≤ 0) ∧ ((splitSign t).1 = false → 0 ≤ denoteInteger t) := by
  constructor <;> intro h <;> simp [denoteInteger, h] <;> omega

theorem scanInt_split_aux (lo hi : Int) (hlo : lo ≤ 0) (hhi : 0 ≤ hi) (l r sg r1 : List Byte) (hr : r = sg ++ r1)
    (hsg : (sg = [] ∧ (∀ r', r ≠ 45 :: r') ∧ (∀ r', r ≠ 43 :: r')) ∨ sg = [43] ∨ sg = [45])
    (htake : takeSign l r = (sg == [45], sg.reverse ++ l, r1)) : ScanIntSplit lo hi l r := by
  obtain ⟨ds, rest, h1, h2, h3, h4⟩ := spanDigits_split [] (sg.reverse ++ l) r1
  have hdl : ∀ b ∈ sg ++ ds, isDelim attrDelims b = false := by
    intro b hb
    rcases List.mem_append.mp hb with hb | hb
    · rcases hsg with ⟨rfl, _⟩ | rfl | rfl <;> simp at hb <;> subst hb <;> decide
    · exact digit_not_delim (List.all_eq_true.mp h2 b hb)
  refine ⟨sg ++ ds, rest, by rw [hr, h1, List.append_assoc], h4, ?_, ?_, hdl⟩
  · simp [scanInt, htake, h3]
  · by_cases hne : ds = []
    · subst hne
      simp [scanInt, htake, h3]
    · have htok : isInteger (sg ++ ds) = true := by
        rcases hsg with ⟨rfl, _⟩ | h | h
        · simpa using isInteger_unsigned ds hne h2
        · exact isInteger_signed sg ds (Or.inl h) hne h2
        · exact isInteger_signed sg ds (Or.inr h) hne h2
      have hs := scanInt_token lo hi l (sg ++ ds) rest htok h4
      rw [List.append_assoc, ← h1, ← hr] at hs
      rw [hs]
      intro hf
      refine ⟨htok, ?_⟩
      have hsign := denote_sign (sg ++ ds)
      by_cases hneg : (splitSign (sg ++ ds)).1 = true
      · simp only [hneg, if_true] at hf ⊢
        by_cases hlt : denoteInteger (sg ++ ds) < lo
        · simp [hlt] at hf
        · simp only [hlt, if_false]
          have := hsign.1 hneg
          exact ⟨by first | rfl | trivial, by omega, by omega⟩
      · have hneg' : (splitSign (sg ++ ds)).1 = false := by simpa using hneg
        simp only [hneg'] at hf ⊢
        by_cases hgt : denoteInteger (sg ++ ds) > hi
        · simp [hgt] at hf
        · simp only [hgt, if_false]
          have := hsign.2 hneg'
          exact ⟨by first | rfl | trivial, by omega, by omega⟩

theorem scanInt_split (lo hi : Int) (hlo : lo ≤ 0) (hhi : 0 ≤ hi) (l r : List Byte) : ScanIntSplit lo hi l r := by
  rcases takeSign_cases l r with ⟨r', rfl, ht⟩ | ⟨r', rfl, ht⟩ | ⟨h1, h2, ht⟩
  · exact scanInt_split_aux lo hi hlo hhi l _ [45] r' rfl (Or.inr (Or.inr rfl)) (by simpa using ht)
  · exact scanInt_split_aux lo hi hlo hhi l _ [43] r' rfl (Or.inr (Or.inl rfl)) (by simpa using ht)
  · exact scanInt_split_aux lo hi hlo hhi l r [] r rfl (Or.inl ⟨rfl, h1, h2⟩) (by simpa using ht)

/-! ### decimal output -/
theorem digitChar_lt10 (d : Nat) (h : d < 10) : (Nat.digitChar d).toNat = 48 + d ∧ isDigit (Nat.digitChar d).toNat = true := by
  have : d = 0 ∨ d = 1 ∨ d = 2 ∨ d = 3 ∨ d = 4 ∨ d = 5 ∨ d = 6 ∨ d = 7 ∨ d = 8 ∨ d = 9 := by omega
  rcases this with rfl | rfl | rfl | rfl | rfl | rfl | rfl | rfl | rfl | rfl <;> decide

theorem digitsVal_append (a b : List Byte) (acc : Nat) : digitsVal (a ++ b) acc = digitsVal b (digitsVal a acc) := by
  induction a generalizing acc with
  | nil => rfl
  | cons x t ih => simp [digitsVal, ih]

/-- the decimal digits of `n` (as `out << n` prints them) are digits and denote `n` -/
theorem toDigits_spec (n : Nat) :
    digitsVal ((Nat.toDigits 10 n).map Char.toNat) 0 = n ∧ ((Nat.toDigits 10 n).map Char.toNat).all isDigit = true ∧
      (Nat.toDigits 10 n).map Char.toNat ≠ [] := by
  induction n using Nat.strongRecOn with
  | _ n ih =>
    rw [Nat.toDigits_eq_if (by decide)]
    split
    · rename_i h
      have := digitChar_lt10 n h
      have h2 := this.2
      rw [this.1] at h2
      simp [digitsVal, this.1, h2]
    · rename_i h
      have hlt : n / 10 < n := Nat.div_lt_self (by omega) (by decide)
      obtain ⟨h1, h2, h3⟩ := ih (n / 10) hlt
      have hd := digitChar_lt10 (n % 10) (Nat.mod_lt n (by decide))
      refine ⟨?_, ?_, by simp⟩
      · simp only [List.map_append, List.map_cons, List.map_nil, digitsVal_append, h1, digitsVal, hd.1]
        omega
      · simp only [List.map_append, List.map_cons, List.map_nil, List.all_append, h2, List.all_cons, hd.2, List.all_nil]
        rfl

theorem splitSign_digits (ds : List Byte) (hne : ds ≠ []) (hds : ds.all isDigit = true) : splitSign ds = (false, ds) := by
  match ds, hne, hds with
  | c :: t, _, hds =>
    have hall : isDigit c = true ∧ t.all isDigit = true := by simpa using hds
    have hc := hall.1
    have h45 : c ≠ 45 := by simp [isDigit] at hc; bomega
    have h43 : c ≠ 43 := by simp [isDigit] at hc; bomega
    unfold splitSign; split <;> simp_all

/-- `out << v` for a `long`: a token of the integer grammar that denotes `v` -/
theorem showInt_spec (v : Int) : isInteger (showInt v) = true ∧ denoteInteger (showInt v) = v := by
  obtain ⟨h1, h2, h3⟩ := toDigits_spec v.natAbs
  unfold showInt
  by_cases hv : v < 0
  · simp only [hv, if_true]
    refine ⟨isInteger_signed [45] _ (Or.inr rfl) h3 h2, ?_⟩
    simp only [denoteInteger, splitSign, h1, if_true]
    omega
  · simp only [hv, if_false]
    refine ⟨isInteger_unsigned _ h3 h2, ?_⟩
    simp only [denoteInteger, splitSign_digits _ h3 h2, h1]
    simp; omega


/-- where the stream may legitimately rest after a value: at its end or in front of a delimiter -/
def AtDelimOrEnd (cfg : LexCfg) (right : List Byte) : Prop := right = [] ∨ ∃ d t, right = d :: t ∧ delimAt cfg attrDelims d = true

/-- `CheckRemainingInput(in, err, type, ",)")`: either the severity is unchanged or an error is flagged; and when no
    error is flagged, only separators (blanks, and comments when they are skipped) were consumed and the stream rests at
    its end or in front of a delimiter -/
theorem cri_char (cfg : LexCfg) (s : IStream) (e : Sev) (hb : s.bad = false) :
    ((checkRemainingInput cfg (some attrDelims) s e).2 = e ∨ ¬ NoErr (checkRemainingInput cfg (some attrDelims) s e).2) ∧
    (NoErr (checkRemainingInput cfg (some attrDelims) s e).2 →
      (s.eof = true ∧ (checkRemainingInput cfg (some attrDelims) s e).1 = s) ∨
      (s.eof = false ∧ ∃ sp, Between cfg sp ∧ s.right = sp ++ (checkRemainingInput cfg (some attrDelims) s e).1.right ∧
        (checkRemainingInput cfg (some attrDelims) s e).1.left = sp.reverse ++ s.left ∧
        AtDelimOrEnd cfg (checkRemainingInput cfg (some attrDelims) s e).1.right)) := by
  obtain ⟨l, r, eof, fail, bad, sk⟩ := s
  simp only at hb
  subst hb
  cases eof with
  | true => simp [checkRemainingInput]
  | false =>
    have key := sepSkip_spec cfg l r sk
    rcases hS : sepSkip cfg { left := l, right := r, eof := false, fail := false, bad := false, skipws := sk } with ⟨Sl, Sr, Se, Sf, Sb, Ssk⟩
    rw [hS] at key
    obtain ⟨m, h1, h2, h3, h4, h5, h6⟩ := key
    simp only at h1 h2 h4 h5 h6
    subst h4 h5
    simp only [checkRemainingInput, IStream.clear, Bool.false_eq_true, if_false, hS]
    rcases h6 with ⟨hr, he⟩ | ⟨c, t, hr, hc, he, hf⟩
    · subst hr he
      simp only [if_true]
      exact ⟨Or.inl (by triv), fun _ => Or.inr ⟨by triv, m, h3, by simpa using h1, h2, Or.inl (by triv)⟩⟩
    · subst hr he hf
      simp only [Bool.false_eq_true, if_false, peekC_good]
      by_cases hd : delimAt cfg attrDelims c = true
      · simp only [hd, if_true]
        exact ⟨Or.inl (by triv), fun _ => Or.inr ⟨by triv, m, h3, h1, h2, Or.inr ⟨c, t, by triv, hd⟩⟩⟩
      · have hd' : delimAt cfg attrDelims c = false := by simpa using hd
        simp only [hd', Bool.false_eq_true, if_false]
        split <;> simp [greater_warning_err, greater_inputError_err]

/-- `CheckRemainingInput` never consumes a delimiter that stands outside a comment: what it moves to the consumed side is
    separators followed by delimiter-free garbage -/
theorem cri_left (cfg : LexCfg) (s : IStream) (e : Sev) (hb : s.bad = false) :
    ∃ lay g, (checkRemainingInput cfg (some attrDelims) s e).1.left = (lay ++ g).reverse ++ s.left ∧
      s.right = lay ++ g ++ (checkRemainingInput cfg (some attrDelims) s e).1.right ∧
      Between cfg lay ∧ ∀ b ∈ g, delimAt cfg attrDelims b = false := by
  obtain ⟨l, r, eof, fail, bad, sk⟩ := s
  simp only at hb
  subst hb
  cases eof with
  | true => exact ⟨[], [], by simp [checkRemainingInput], by simp [checkRemainingInput], Between.nil cfg, by simp⟩
  | false =>
    have key := sepSkip_spec cfg l r sk
    rcases hS : sepSkip cfg { left := l, right := r, eof := false, fail := false, bad := false, skipws := sk } with ⟨Sl, Sr, Se, Sf, Sb, Ssk⟩
    rw [hS] at key
    obtain ⟨m, h1, h2, h3, h4, h5, h6⟩ := key
    simp only at h1 h2 h4 h5 h6
    subst h4 h5 h2
    simp only [checkRemainingInput, IStream.clear, Bool.false_eq_true, if_false, hS]
    rcases h6 with ⟨hr, he⟩ | ⟨c, t, hr, hc, he, hf⟩
    · subst hr he
      simp only [if_true]
      exact ⟨m, [], by simp, by simpa using h1, h3, by simp⟩
    · subst hr he hf
      simp only [Bool.false_eq_true, if_false, peekC_good]
      by_cases hd : delimAt cfg attrDelims c = true
      · simp only [hd, if_true]
        exact ⟨m, [], by simp, by simpa using h1, h3, by simp⟩
      · have hd' : delimAt cfg attrDelims c = false := by simpa using hd
        simp only [hd', Bool.false_eq_true, if_false]
        obtain ⟨g, rest, hg1, hg2, hg3⟩ := skipGarbage_spec cfg attrDelims c (m.reverse ++ l) (c :: t) hd'
        rcases hg3 with ⟨hrest, c', hc', hs⟩ | ⟨d, t', hrest, hdd, hs⟩ | ⟨t', hrest, h59, hs⟩
        · subst hrest
          refine ⟨m, g, ?_, ?_, h3, hg2⟩
          · simp [hs, hc']
          · simp only [hs, hc']
            simp only [List.append_nil] at hg1
            rw [h1, hg1]; simp
        · subst hrest
          refine ⟨m, g, ?_, ?_, h3, hg2⟩
          · simp [hs, hdd, IStream.putback, IStream.sentry, IStream.good]
          · simp only [hs, hdd]
            rw [h1, hg1]; simp [IStream.putback, IStream.sentry, IStream.good]
        · subst hrest
          refine ⟨m, g, ?_, ?_, h3, hg2⟩
          · simp [hs]
          · simp only [hs]
            rw [h1, hg1]; simp

/-! ### enumeration-like kinds -/
theorem wordLoop_stop (p : Byte → Bool) (str : List Byte) (c : Byte) (l r : List Byte) (hc : p c = false) :
    wordLoop p str c l r = (str, c, l, r, false) := by
  cases r <;> simp [wordLoop, hc]

theorem wordLoop_go (p : Byte → Bool) (str : List Byte) (c : Byte) (l r : List Byte) (hc : p c = true) :
    ∃ w rest, r = w ++ rest ∧ w.all p = true ∧
      ((rest = [] ∧ ∃ c', p c' = true ∧ wordLoop p str c l r = ((c :: w).reverse ++ str, c', w.reverse ++ l, [], true)) ∨
       (∃ x u, rest = x :: u ∧ p x = false ∧ wordLoop p str c l r = ((c :: w).reverse ++ str, x, x :: (w.reverse ++ l), u, false))) := by
  induction r generalizing c str l with
  | nil => exact ⟨[], [], rfl, rfl, Or.inl ⟨rfl, c, hc, by simp [wordLoop, hc]⟩⟩
  | cons x t ih =>
    by_cases hx : p x = true
    · obtain ⟨w, rest, h1, h2, h3⟩ := ih (c :: str) x (x :: l) hx
      refine ⟨x :: w, rest, by simp [h1], by simp [hx, h2], ?_⟩
      rcases h3 with ⟨hr, c', hc', hs⟩ | ⟨y, u, hr, hy, hs⟩
      · exact Or.inl ⟨hr, c', hc', by simp [wordLoop, hc, hs]⟩
      · exact Or.inr ⟨y, u, hr, hy, by simp [wordLoop, hc, hs]⟩
    · have hx' : p x = false := by simpa using hx
      refine ⟨[], x :: t, rfl, rfl, Or.inr ⟨x, t, rfl, hx', ?_⟩⟩
      simp [wordLoop, hc, wordLoop_stop p _ x _ t hx']

theorem getInto_good (x : Byte) (l : List Byte) (c : Byte) (t : List Byte) (sk : Bool) :
    getInto x { left := l, right := c :: t, eof := false, fail := false, bad := false, skipws := sk } =
      (c, { left := c :: l, right := t, eof := false, fail := false, bad := false, skipws := sk }) := by
  simp [getInto, IStream.get, IStream.sentry, IStream.good]

theorem getInto_end (x : Byte) (l : List Byte) (sk : Bool) :
    getInto x { left := l, right := [], eof := false, fail := false, bad := false, skipws := sk } =
      (x, { left := l, right := [], eof := true, fail := true, bad := false, skipws := sk }) := by
  simp [getInto, IStream.get, IStream.sentry, IStream.good]

theorem pw_not_dot : pw 46 = false := by decide

theorem warnIf_true_err (e : Sev) : ¬ NoErr (e.warnIf true) := by
  simp [Sev.warnIf, greater_warning_err]

/-- severities `SDAI_Enum::STEPread` may turn into "no error" for an OPTIONAL attribute -/
def Quiet (e : Sev) : Prop := e = .null ∨ e = .usermsg ∨ e = .incomplete

theorem NoErr.quiet {e : Sev} (h : NoErr e) : Quiet e := by
  rcases h with h | h <;> simp [Quiet, h]

theorem null_greater_warning : Sev.null.greater .warning = .warning := rfl
theorem null_greater_incomplete : Sev.null.greater .incomplete = .incomplete := rfl
theorem warning_warnIf (b : Bool) : Sev.warning.warnIf b = .warning := by cases b <;> rfl
theorem null_warnIf_true : Sev.null.warnIf true = .warning := rfl
theorem null_warnIf_false : Sev.null.warnIf false = .null := rfl
theorem not_quiet_warning : ¬ Quiet Sev.warning := by simp [Quiet]
theorem warnIf_true_not_quiet (b : Bool) : ¬ Quiet ((Sev.null.warnIf b).warnIf true) := by
  cases b <;> simp [Quiet, Sev.warnIf, Sev.greater, Sev.toInt]

theorem alpha_pw {c : Byte} (h : (isAlpha c || c == 95) = true) : pw c = true := by
  simp [pw, isAlnum] at *
  rcases h with h | h
  · simp [h]
  · simp [h]

theorem putback_good (c : Byte) (l r : List Byte) (sk : Bool) :
    IStream.putback c { left := c :: l, right := r, eof := false, fail := false, bad := false, skipws := sk } =
      { left := l, right := c :: r, eof := false, fail := false, bad := false, skipws := sk } := by
  simp [IStream.putback, IStream.sentry, IStream.good]

/-- `enumWord` = the loop started at the current character (the "look for UPPER" step is subsumed by the loop) -/
theorem enumWord_eq (c1 : Byte) (l t1 : List Byte) (sk : Bool) (hp : pw c1 = true) :
    enumWord c1 { left := c1 :: l, right := t1, eof := false, fail := false, bad := false, skipws := sk } =
      (let q := wordLoop pw [] c1 (c1 :: l) t1
       let s5 : IStream := { left := q.2.2.1, right := q.2.2.2.1, eof := q.2.2.2.2, fail := q.2.2.2.2, bad := false, skipws := sk }
       (q.1.reverse, q.2.1, if s5.good && q.2.1 != 46 then s5.putback q.2.1 else s5)) := by
  by_cases ha : (isAlpha c1 || c1 == 95) = true
  · cases t1 with
    | nil => simp [enumWord, IStream.good, ha, getInto_end, runWord, wordLoop, hp]
    | cons x t1' =>
      simp only [enumWord, IStream.good, ha, getInto_good, runWord]
      simp [wordLoop, hp]
  · have ha' : (isAlpha c1 || c1 == 95) = false := by simpa using ha
    simp [enumWord, IStream.good, ha', runWord]

/-- what `enumWord` does on a good stream whose last consumed character is the current one: the word is the longest
    run of word characters starting at the current character -/
theorem enumWord_spec (c1 : Byte) (l t1 : List Byte) (sk : Bool) :
    ∃ w rest, c1 :: t1 = w ++ rest ∧ w.all pw = true ∧
      ((w = [] ∧ pw c1 = false ∧ ∃ c3 s6, enumWord c1 { left := c1 :: l, right := t1, eof := false, fail := false, bad := false, skipws := sk } = ([], c3, s6)) ∨
       (w ≠ [] ∧ rest = [] ∧ ∃ c3 s6, pw c3 = true ∧
          enumWord c1 { left := c1 :: l, right := t1, eof := false, fail := false, bad := false, skipws := sk } = (w, c3, s6)) ∨
       (w ≠ [] ∧ ∃ u, rest = 46 :: u ∧
          enumWord c1 { left := c1 :: l, right := t1, eof := false, fail := false, bad := false, skipws := sk } =
            (w, 46, { left := 46 :: (w.reverse ++ l), right := u, eof := false, fail := false, bad := false, skipws := sk })) ∨
       (w ≠ [] ∧ ∃ x u, rest = x :: u ∧ x ≠ 46 ∧ pw x = false ∧
          enumWord c1 { left := c1 :: l, right := t1, eof := false, fail := false, bad := false, skipws := sk } =
            (w, x, { left := w.reverse ++ l, right := x :: u, eof := false, fail := false, bad := false, skipws := sk }))) := by
  by_cases hp : pw c1 = true
  · -- the word starts at c1
    obtain ⟨w, rest, h1, h2, h3⟩ := wordLoop_go pw [] c1 (c1 :: l) t1 hp
    refine ⟨c1 :: w, rest, by simp [h1], by simp [hp, h2], Or.inr ?_⟩
    rw [enumWord_eq c1 l t1 sk hp]
    rcases h3 with ⟨hr, c', hc', hs⟩ | ⟨x, u, hr, hx, hs⟩
    · refine Or.inl ⟨by simp, hr, c',
        { left := w.reverse ++ c1 :: l, right := [], eof := true, fail := true, bad := false, skipws := sk }, hc', ?_⟩
      simp [IStream.good, hs]
    · by_cases hx46 : x = 46
      · subst hx46
        refine Or.inr (Or.inl ⟨by simp, u, hr, ?_⟩)
        simp [IStream.good, hs]
      · refine Or.inr (Or.inr ⟨by simp, x, u, hr, hx46, hx, ?_⟩)
        simp [IStream.good, hs, hx46, putback_good]
  · have hp' : pw c1 = false := by simpa using hp
    have ha' : (isAlpha c1 || c1 == 95) = false := by
      cases h : (isAlpha c1 || c1 == 95)
      · rfl
      · rw [alpha_pw h] at hp'; cases hp'
    refine ⟨[], c1 :: t1, rfl, rfl, Or.inl ⟨rfl, hp', ?_⟩⟩
    simp only [enumWord, IStream.good, ha', runWord]
    simp [wordLoop_stop pw [] c1 _ t1 hp']

theorem enumFinish_noerr (cfg : LexCfg) (k : EnumKind) (vd0 : Bool) (str : List Byte) (c3 : Byte)
    (hne : Quiet (enumFinish cfg k true vd0 str c3 .null).2) :
    c3 = 46 ∧ vd0 = false ∧ ∃ i, findName k.table (str.map toUpper) = some i ∧
      (cfg.logicalRejectsUnset = true → k.isUnsetIdx i = false) ∧ enumFinish cfg k true vd0 str c3 .null = (some i, .null) := by
  unfold enumFinish at hne ⊢
  by_cases h46 : c3 = 46
  · subst h46
    cases vd0 with
    | true =>
      exfalso
      simp only [beq_self_eq_true, if_true, Bool.not_true, Bool.not_false] at hne
      exact warnIf_true_not_quiet _ hne
    | false =>
      cases hf : findName k.table (str.map toUpper) with
      | none => exfalso; simp [hf, null_warnIf_true, warning_warnIf, not_quiet_warning] at hne
      | some i =>
        by_cases hu : (cfg.logicalRejectsUnset && k.isUnsetIdx i) = true
        · exfalso; simp [hf, hu, null_warnIf_true, warning_warnIf, not_quiet_warning] at hne
        · refine ⟨rfl, rfl, i, rfl, ?_, ?_⟩
          · intro hcfg; simpa [hcfg] using hu
          · simp [hu, Sev.warnIf]
  · exfalso
    have : (c3 == 46) = false := by simpa using h46
    simp only [this, Bool.false_eq_true, if_false, if_true, Bool.not_false] at hne
    exact warnIf_true_not_quiet _ hne

/-- `ReadEnum` (delimiters required) flags no error only for `.` word `.` with the word in the table -/
theorem readEnum_noerr (cfg : LexCfg) (k : EnumKind) (l : List Byte) (c : Byte) (t : List Byte) (sk : Bool)
    (hc : isSpace c = false) (hc44 : c ≠ 44) (hc41 : c ≠ 41)
    (hne : Quiet (readEnum cfg k true { left := l, right := c :: t, eof := false, fail := false, bad := false, skipws := sk } .null).2.2) :
    ∃ name rest i, c :: t = 46 :: (name ++ 46 :: rest) ∧ name ≠ [] ∧ name.all pw = true ∧
      findName k.table (name.map toUpper) = some i ∧ (cfg.logicalRejectsUnset = true → k.isUnsetIdx i = false) ∧
      readEnum cfg k true { left := l, right := c :: t, eof := false, fail := false, bad := false, skipws := sk } .null =
        (some i, { left := 46 :: (name.reverse ++ 46 :: l), right := rest, eof := false, fail := false, bad := false, skipws := sk }, .null) := by
  simp only [readEnum, ws_good0 _ _ _ _ hc, IStream.good, Bool.not_false, Bool.and_self, Bool.not_true, Bool.false_eq_true, if_false,
    getInto_good] at hne ⊢
  by_cases h46 : c = 46
  · subst h46
    simp only [beq_self_eq_true, Bool.true_or, if_true] at hne ⊢
    cases t with
    | nil =>
      exfalso
      simp [getInto_end, enumWord, IStream.good, runWord, null_greater_warning, not_quiet_warning] at hne
    | cons c1 t1 =>
      simp only [getInto_good] at hne ⊢
      obtain ⟨w, rest, h1, h2, h3⟩ := enumWord_spec c1 (46 :: l) t1 sk
      rcases h3 with ⟨hw, _, c3, s6, he⟩ | ⟨hw, hr, c3, s6, hc3, he⟩ | ⟨hw, u, hr, he⟩ | ⟨hw, x, u, hr, hx46, hx, he⟩
      · exfalso
        simp [he, null_greater_warning, not_quiet_warning] at hne
      · exfalso
        have hwne : w.isEmpty = false := by cases w <;> simp_all
        simp only [he, hwne, Bool.not_false, if_true] at hne
        have := (enumFinish_noerr cfg k false w c3 hne).1
        subst this
        exact absurd hc3 (by decide)
      · have hwne : w.isEmpty = false := by cases w <;> simp_all
        simp only [he, hwne, Bool.not_false, if_true] at hne ⊢
        obtain ⟨_, _, i, hf, hu, hfin⟩ := enumFinish_noerr cfg k false w 46 hne
        refine ⟨w, u, i, ?_, hw, h2, hf, hu, ?_⟩
        · rw [h1, hr]
        · rw [hfin]
      · exfalso
        have hwne : w.isEmpty = false := by cases w <;> simp_all
        simp only [he, hwne, Bool.not_false, if_true] at hne
        exact hx46 (enumFinish_noerr cfg k false w x hne).1
  · exfalso
    have h46' : (c == 46) = false := by simpa using h46
    simp only [h46', Bool.false_or, Bool.false_eq_true, if_false] at hne
    by_cases ha : isAlpha c = true
    · simp only [ha, if_true] at hne
      obtain ⟨w, rest, h1, h2, h3⟩ := enumWord_spec c l t sk
      rcases h3 with ⟨hw, hpc, c3, s6, he⟩ | ⟨hw, hr, c3, s6, hc3, he⟩ | ⟨hw, u, hr, he⟩ | ⟨hw, x, u, hr, hx46, hx, he⟩
      · have : pw c = true := by simp [pw, isAlnum, ha]
        rw [this] at hpc; cases hpc
      · have hwne : w.isEmpty = false := by cases w <;> simp_all
        simp only [he, hwne, Bool.not_false, if_true] at hne
        have := (enumFinish_noerr cfg k true w c3 hne).2.1
        cases this
      · have hwne : w.isEmpty = false := by cases w <;> simp_all
        simp only [he, hwne, Bool.not_false, if_true] at hne
        have := (enumFinish_noerr cfg k true w 46 hne).2.1
        cases this
      · have hwne : w.isEmpty = false := by cases w <;> simp_all
        simp only [he, hwne, Bool.not_false, if_true] at hne
        have := (enumFinish_noerr cfg k true w x hne).2.1
        cases this
    · have ha' : isAlpha c = false := by simpa using ha
      have hcd : (c == 44 || c == 41) = false := by simp [hc44, hc41]
      simp only [ha', Bool.false_eq_true, if_false, hcd, null_greater_warning] at hne
      exact not_quiet_warning hne

/-- the shape of `attrRead` for the three enumeration-like kinds -/
def EnumLike (k : Kind) : Prop := k = .boolean ∨ k = .logical ∨ ∃ items, k = .enumeration items

theorem attrRead_dollar {F} (ops : FloatOps F) (cfg : LexCfg) (lookup : Int → RefLookup) (k : Kind) (nullable : Bool)
    (sp1 t : List Byte) (h2 : sp1.all isSpace = true) :
    attrRead ops cfg lookup k nullable (IStream.ofBytes (sp1 ++ 36 :: t)) =
      .ok ⟨if nullable then (if cfg.dollarKeepsError then (checkRemainingInput cfg (some attrDelims) { left := 36 :: sp1.reverse, right := t } .null).2 else .null) else .incomplete,
           .unset, (checkRemainingInput cfg (some attrDelims) { left := 36 :: sp1.reverse, right := t } .null).1⟩ := by
  have hpre : (IStream.ofBytes (sp1 ++ 36 :: t)).ws = { left := sp1.reverse, right := 36 :: t } := by
    simpa [IStream.ofBytes] using ws_good [] sp1 36 t true h2 (by decide)
  simp only [attrRead, hpre, peekC_good, ignore1_good]
  try simp

theorem attrRead_missing {F} (ops : FloatOps F) (cfg : LexCfg) (lookup : Int → RefLookup) (k : Kind) (nullable : Bool)
    (sp1 t : List Byte) (c : Byte) (h2 : sp1.all isSpace = true) (hc : c = 44 ∨ c = 41) :
    attrRead ops cfg lookup k nullable (IStream.ofBytes (sp1 ++ c :: t)) =
      .ok ⟨if nullable then .null else .incomplete, .unset, { left := sp1.reverse, right := c :: t }⟩ := by
  have hcs : isSpace c = false := by rcases hc with rfl | rfl <;> decide
  have hpre : (IStream.ofBytes (sp1 ++ c :: t)).ws = { left := sp1.reverse, right := c :: t } := by
    simpa [IStream.ofBytes] using ws_good [] sp1 c t true h2 hcs
  have hcond : (c == 36 || c == 44 || c == 41) = true := by rcases hc with rfl | rfl <;> decide
  have h36 : (c == 36) = false := by rcases hc with rfl | rfl <;> decide
  simp only [attrRead, hpre, peekC_good, hcond, if_true]
  simp [h36]

theorem attrRead_enumlike {F} (ops : FloatOps F) (cfg : LexCfg) (lookup : Int → RefLookup) (k : Kind) (hk : EnumLike k)
    (nullable : Bool) (sp1 t : List Byte) (c : Byte) (h2 : sp1.all isSpace = true) (hc : isSpace c = false)
    (hcond : (c == 36 || c == 44 || c == 41) = false) :
    attrRead ops cfg lookup k nullable (IStream.ofBytes (sp1 ++ c :: t)) =
      (let q := enumRead cfg k.enumKind nullable { left := sp1.reverse, right := c :: t } .null
       let q2 := checkRemainingInput cfg (some attrDelims) q.2.1 q.2.2
       .ok ⟨q2.2, enumValue k.enumKind q.1, q2.1⟩) := by
  have hpre : (IStream.ofBytes (sp1 ++ c :: t)).ws = { left := sp1.reverse, right := c :: t } := by
    simpa [IStream.ofBytes] using ws_good [] sp1 c t true h2 hc
  rcases hk with rfl | rfl | ⟨items, rfl⟩ <;> simp only [attrRead, hpre, peekC_good, hcond] <;> rfl

/-- the same with an arbitrary consumed side: `STEPattribute::STEPread` called anywhere in a stream -/
theorem attrRead_dollar_at {F} (ops : FloatOps F) (cfg : LexCfg) (lookup : Int → RefLookup) (k : Kind) (nullable : Bool)
    (l0 sp1 t : List Byte) (h2 : sp1.all isSpace = true) :
    attrRead ops cfg lookup k nullable ({ left := l0, right := sp1 ++ 36 :: t } : IStream) =
      .ok ⟨if nullable then (if cfg.dollarKeepsError then (checkRemainingInput cfg (some attrDelims) { left := 36 :: (sp1.reverse ++ l0), right := t } .null).2 else .null) else .incomplete,
           .unset, (checkRemainingInput cfg (some attrDelims) { left := 36 :: (sp1.reverse ++ l0), right := t } .null).1⟩ := by
  have hpre : ({ left := l0, right := sp1 ++ 36 :: t } : IStream).ws = { left := (sp1.reverse ++ l0), right := 36 :: t } := by
    simpa [IStream.ofBytes] using ws_good l0 sp1 36 t true h2 (by decide)
  simp only [attrRead, hpre, peekC_good, ignore1_good]
  try simp

/-- the same with an arbitrary consumed side: `STEPattribute::STEPread` called anywhere in a stream -/
theorem attrRead_missing_at {F} (ops : FloatOps F) (cfg : LexCfg) (lookup : Int → RefLookup) (k : Kind) (nullable : Bool)
    (l0 sp1 t : List Byte) (c : Byte) (h2 : sp1.all isSpace = true) (hc : c = 44 ∨ c = 41) :
    attrRead ops cfg lookup k nullable ({ left := l0, right := sp1 ++ c :: t } : IStream) =
      .ok ⟨if nullable then .null else .incomplete, .unset, { left := (sp1.reverse ++ l0), right := c :: t }⟩ := by
  have hcs : isSpace c = false := by rcases hc with rfl | rfl <;> decide
  have hpre : ({ left := l0, right := sp1 ++ c :: t } : IStream).ws = { left := (sp1.reverse ++ l0), right := c :: t } := by
    simpa [IStream.ofBytes] using ws_good l0 sp1 c t true h2 hcs
  have hcond : (c == 36 || c == 44 || c == 41) = true := by rcases hc with rfl | rfl <;> decide
  have h36 : (c == 36) = false := by rcases hc with rfl | rfl <;> decide
  simp only [attrRead, hpre, peekC_good, hcond, if_true]
  simp [h36]

/-- the same with an arbitrary consumed side: `STEPattribute::STEPread` called anywhere in a stream -/
theorem attrRead_enumlike_at {F} (ops : FloatOps F) (cfg : LexCfg) (lookup : Int → RefLookup) (k : Kind) (hk : EnumLike k)
    (nullable : Bool) (l0 sp1 t : List Byte) (c : Byte) (h2 : sp1.all isSpace = true) (hc : isSpace c = false)
    (hcond : (c == 36 || c == 44 || c == 41) = false) :
    attrRead ops cfg lookup k nullable ({ left := l0, right := sp1 ++ c :: t } : IStream) =
      (let q := enumRead cfg k.enumKind nullable { left := (sp1.reverse ++ l0), right := c :: t } .null
       let q2 := checkRemainingInput cfg (some attrDelims) q.2.1 q.2.2
       .ok ⟨q2.2, enumValue k.enumKind q.1, q2.1⟩) := by
  have hpre : ({ left := l0, right := sp1 ++ c :: t } : IStream).ws = { left := (sp1.reverse ++ l0), right := c :: t } := by
    simpa [IStream.ofBytes] using ws_good l0 sp1 c t true h2 hc
  rcases hk with rfl | rfl | ⟨items, rfl⟩ <;> simp only [attrRead, hpre, peekC_good, hcond] <;> rfl

/-- … and either state of `skipws` -/
theorem attrRead_dollar_at_sk {F} (ops : FloatOps F) (cfg : LexCfg) (lookup : Int → RefLookup) (k : Kind) (nullable : Bool)
    (l0 sp1 t : List Byte) (sk : Bool) (h2 : sp1.all isSpace = true) :
    attrRead ops cfg lookup k nullable ({ left := l0, right := sp1 ++ 36 :: t, eof := false, fail := false, bad := false, skipws := sk } : IStream) =
      .ok ⟨if nullable then (if cfg.dollarKeepsError then (checkRemainingInput cfg (some attrDelims) { left := 36 :: (sp1.reverse ++ l0), right := t, eof := false, fail := false, bad := false, skipws := sk } .null).2 else .null) else .incomplete,
           .unset, (checkRemainingInput cfg (some attrDelims) { left := 36 :: (sp1.reverse ++ l0), right := t, eof := false, fail := false, bad := false, skipws := sk } .null).1⟩ := by
  have hpre : ({ left := l0, right := sp1 ++ 36 :: t, eof := false, fail := false, bad := false, skipws := sk } : IStream).ws = { left := (sp1.reverse ++ l0), right := 36 :: t, eof := false, fail := false, bad := false, skipws := sk } := by
    simpa [IStream.ofBytes] using ws_good l0 sp1 36 t sk h2 (by decide)
  simp only [attrRead, hpre, peekC_good, ignore1_good]
  try simp

/-- … and either state of `skipws` -/
theorem attrRead_missing_at_sk {F} (ops : FloatOps F) (cfg : LexCfg) (lookup : Int → RefLookup) (k : Kind) (nullable : Bool)
    (l0 sp1 t : List Byte) (sk : Bool) (c : Byte) (h2 : sp1.all isSpace = true) (hc : c = 44 ∨ c = 41) :
    attrRead ops cfg lookup k nullable ({ left := l0, right := sp1 ++ c :: t, eof := false, fail := false, bad := false, skipws := sk } : IStream) =
      .ok ⟨if nullable then .null else .incomplete, .unset, { left := (sp1.reverse ++ l0), right := c :: t, eof := false, fail := false, bad := false, skipws := sk }⟩ := by
  have hcs : isSpace c = false := by rcases hc with rfl | rfl <;> decide
  have hpre : ({ left := l0, right := sp1 ++ c :: t, eof := false, fail := false, bad := false, skipws := sk } : IStream).ws = { left := (sp1.reverse ++ l0), right := c :: t, eof := false, fail := false, bad := false, skipws := sk } := by
    simpa [IStream.ofBytes] using ws_good l0 sp1 c t sk h2 hcs
  have hcond : (c == 36 || c == 44 || c == 41) = true := by rcases hc with rfl | rfl <;> decide
  have h36 : (c == 36) = false := by rcases hc with rfl | rfl <;> decide
  simp only [attrRead, hpre, peekC_good, hcond, if_true]
  simp [h36]

/-- … and either state of `skipws` -/
theorem attrRead_enumlike_at_sk {F} (ops : FloatOps F) (cfg : LexCfg) (lookup : Int → RefLookup) (k : Kind) (hk : EnumLike k)
    (nullable : Bool) (l0 sp1 t : List Byte) (sk : Bool) (c : Byte) (h2 : sp1.all isSpace = true) (hc : isSpace c = false)
    (hcond : (c == 36 || c == 44 || c == 41) = false) :
    attrRead ops cfg lookup k nullable ({ left := l0, right := sp1 ++ c :: t, eof := false, fail := false, bad := false, skipws := sk } : IStream) =
      (let q := enumRead cfg k.enumKind nullable { left := (sp1.reverse ++ l0), right := c :: t, eof := false, fail := false, bad := false, skipws := sk } .null
       let q2 := checkRemainingInput cfg (some attrDelims) q.2.1 q.2.2
       .ok ⟨q2.2, enumValue k.enumKind q.1, q2.1⟩) := by
  have hpre : ({ left := l0, right := sp1 ++ c :: t, eof := false, fail := false, bad := false, skipws := sk } : IStream).ws = { left := (sp1.reverse ++ l0), right := c :: t, eof := false, fail := false, bad := false, skipws := sk } := by
    simpa [IStream.ofBytes] using ws_good l0 sp1 c t sk h2 hc
  rcases hk with rfl | rfl | ⟨items, rfl⟩ <;> simp only [attrRead, hpre, peekC_good, hcond] <;> rfl

/-- `CheckRemainingInput` never lowers the severity (any stream state) -/
theorem cri_mono (cfg : LexCfg) (s : IStream) (e : Sev) :
    (checkRemainingInput cfg (some attrDelims) s e).2 = e ∨ ¬ NoErr (checkRemainingInput cfg (some attrDelims) s e).2 := by
  by_cases hb : s.bad = false
  · exact (cri_char cfg s e hb).1
  · have hb' : s.bad = true := by simpa using hb
    by_cases he : s.eof = true
    · left; simp [checkRemainingInput, he]
    · have he' : s.eof = false := by simpa using he
      right; simp [checkRemainingInput, he', hb', greater_inputError_err]


/-! ### REAL / NUMBER -/
theorem extractFloatText_good (l : List Byte) (c : Byte) (t : List Byte) (hc : isSpace c = false) :
    IStream.extractFloatText { left := l, right := c :: t, eof := false, fail := false, bad := false, skipws := true } =
      (some (scanFloat l (c :: t)).1,
       { left := (scanFloat l (c :: t)).2.1, right := (scanFloat l (c :: t)).2.2,
         eof := (scanFloat l (c :: t)).2.2.isEmpty, fail := false, bad := false, skipws := true }) := by
  simp [IStream.extractFloatText, IStream.sentry, IStream.good, dropSpaces_nonspace _ _ _ hc]

theorem extractFloatText_good_sk (l : List Byte) (c : Byte) (t : List Byte) (sk : Bool) (hc : isSpace c = false) :
    IStream.extractFloatText { left := l, right := c :: t, eof := false, fail := false, bad := false, skipws := sk } =
      (some (scanFloat l (c :: t)).1,
       { left := (scanFloat l (c :: t)).2.1, right := (scanFloat l (c :: t)).2.2,
         eof := (scanFloat l (c :: t)).2.2.isEmpty, fail := false, bad := false, skipws := sk }) := by
  cases sk <;> simp [IStream.extractFloatText, IStream.sentry, IStream.good, dropSpaces_nonspace _ _ _ hc]

/-- what an unset REAL/NUMBER attribute without an error can come from -/
def UnsetOrigin {F} (ops : FloatOps F) (nullable : Bool) (input : List Byte) : Prop :=
  (nullable = true ∧ ∃ sp1 c t, input = sp1 ++ c :: t ∧ sp1.all isSpace = true ∧ (c = 36 ∨ c = 44 ∨ c = 41)) ∨
  input.all isSpace = true ∨
  (∃ text v, ops.conv text = .ok v ∧ ops.isRealNull v = true)

theorem takeDigits_append (r : List Byte) : (takeDigits r).1 ++ (takeDigits r).2 = r := by
  induction r with
  | nil => rfl
  | cons c t ih =>
    unfold takeDigits
    by_cases h : isDigit c = true
    · simp [h, ih]
    · have h' : isDigit c = false := by simpa using h
      simp [h']

theorem optSign_append (r : List Byte) : (optSign r).1 ++ (optSign r).2 = r := by
  unfold optSign; split <;> simp

theorem optDot_append (r : List Byte) : (optDot r).1 ++ (optDot r).2 = r := by
  unfold optDot; split <;> simp

theorem expPart_append (r : List Byte) : (expPart r).1 ++ (expPart r).2.1 = r := by
  unfold expPart
  split
  · rename_i c t
    by_cases h : (c == 101 || c == 69) = true
    · simp only [h, if_true, realDigits]
      have h1 := takeDigits_append (optSign t).2
      have h2 := optSign_append t
      simp only [List.cons_append, List.append_assoc, h1, h2]
    · have h' : (c == 101 || c == 69) = false := by simpa using h
      simp [h']
  · simp

/-- every character `ReadReal` takes from the stream goes into its buffer, in order -/
theorem realCollect_append (r : List Byte) : (realCollect r).1 ++ (realCollect r).2.1 = r := by
  simp only [realCollect, realDigits, List.append_assoc]
  rw [expPart_append, takeDigits_append, optDot_append, takeDigits_append, optSign_append]

/-- garbage in front of the delimiter is always reported (when comments are skipped, a `/` may open one and is not
    garbage) -/
theorem cri_garbage (cfg : LexCfg) (l : List Byte) (c : Byte) (t : List Byte) (f sk : Bool) (e : Sev)
    (hc : isSpace c = false) (hd : delimAt cfg attrDelims c = false) (h47 : c ≠ 47) :
    ¬ NoErr (checkRemainingInput cfg (some attrDelims) { left := l, right := c :: t, eof := false, fail := f, bad := false, skipws := sk } e).2 := by
  have hstop := sepSkip_stop cfg l [] c t sk (by simp) hc h47
  simp only [List.nil_append, List.reverse_nil] at hstop
  simp only [checkRemainingInput, IStream.clear, Bool.false_eq_true, if_false, hstop, peekC_good, hd]
  split <;> simp [greater_warning_err, greater_inputError_err]

/-- the bytes that, standing where a REAL or reference value should be, the scanner leaves to `CheckRemainingInput` alone —
    which may then report nothing: NUL where it is taken for a delimiter, and `/`, which may open a comment.  Empty once
    the scanner itself reports a value that is not there (`reports`). -/
def quietFirst (reports : Bool) (cfg : LexCfg) : List Byte :=
  if reports then [] else if cfg.nulIsDelim then [0, 47] else [47]

theorem quietFirst_spec {reports : Bool} {cfg : LexCfg} {c : Byte} (hr : reports = false) (hc : c ∉ quietFirst reports cfg)
    (h44 : c ≠ 44) (h41 : c ≠ 41) : delimAt cfg attrDelims c = false ∧ c ≠ 47 := by
  subst hr
  cases hn : cfg.nulIsDelim <;> simp [quietFirst, hn] at hc
  · exact ⟨by simp [delimAt, hn, isDelim, attrDelims, h44, h41], hc⟩
  · exact ⟨by simp [delimAt, hn, isDelim, attrDelims, h44, h41, hc.1], hc.2⟩

/-! ### entity references -/
theorem getChar_good (l : List Byte) (c : Byte) (t : List Byte) (hc : isSpace c = false) :
    IStream.getChar { left := l, right := c :: t, eof := false, fail := false, bad := false, skipws := true } =
      (some c, { left := c :: l, right := t, eof := false, fail := false, bad := false, skipws := true }) := by
  simp [IStream.getChar, IStream.sentry, IStream.good, dropSpaces_nonspace _ _ _ hc]

theorem extractInt32_blank (l spx : List Byte) (hsp : spx.all isSpace = true) :
    IStream.extractInt32 { left := l, right := spx, eof := false, fail := false, bad := false, skipws := true } =
      (none, { left := spx.reverse ++ l, right := [], eof := true, fail := true, bad := false, skipws := true }) := by
  have := dropSpaces_append spx l [] hsp
  simp only [List.append_nil] at this
  simp [IStream.extractInt32, IStream.sentry, IStream.good, this, dropSpaces]

theorem extractInt32_skip (l spx : List Byte) (c : Byte) (t : List Byte) (hsp : spx.all isSpace = true) (hc : isSpace c = false) :
    IStream.extractInt32 { left := l, right := spx ++ c :: t, eof := false, fail := false, bad := false, skipws := true } =
      (some (if (scanInt longMin longMax (spx.reverse ++ l) (c :: t)).1.value < intMin then intMin
             else if (scanInt longMin longMax (spx.reverse ++ l) (c :: t)).1.value > intMax then intMax
             else (scanInt longMin longMax (spx.reverse ++ l) (c :: t)).1.value),
       { left := (scanInt longMin longMax (spx.reverse ++ l) (c :: t)).2.1,
         right := (scanInt longMin longMax (spx.reverse ++ l) (c :: t)).2.2,
         eof := (scanInt longMin longMax (spx.reverse ++ l) (c :: t)).2.2.isEmpty,
         fail := (if (scanInt longMin longMax (spx.reverse ++ l) (c :: t)).1.value < intMin then true
             else if (scanInt longMin longMax (spx.reverse ++ l) (c :: t)).1.value > intMax then true
             else (scanInt longMin longMax (spx.reverse ++ l) (c :: t)).1.fail),
         bad := false, skipws := true }) := by
  simp only [IStream.extractInt32, IStream.sentry, IStream.good, dropSpaces_append _ _ _ hsp, dropSpaces_nonspace _ _ _ hc]
  simp
  split <;> (try split) <;> simp_all
  rename_i h1 h2
  have a : decide ((scanInt longMin longMax (spx.reverse ++ l) (c :: t)).fst.value < intMin) = false := by
    simp; omega
  have b : decide (intMax < (scanInt longMin longMax (spx.reverse ++ l) (c :: t)).fst.value) = false := by
    simp; omega
  simp [a, b]

theorem greater_mono_err (e s : Sev) (h : ¬ NoErr e) : ¬ NoErr (e.greater s) := by
  cases e <;> cases s <;> simp_all [NoErr, Sev.greater, Sev.toInt]

/-- an error found before the id is never lost by the rest of `ReadEntityRef` -/
theorem refTail_mono (cfg : LexCfg) (lookup : Int → RefLookup) (s2 : IStream) (err0 : Sev) (h : ¬ NoErr err0) :
    ¬ NoErr (refTail cfg lookup (some attrDelims) s2 err0).2.2 := by
  unfold refTail
  simp only
  split
  · rcases cri_mono cfg (s2.extractInt32).2 (err0.greater Sev.warning) with hm | hm
    · rw [hm]; exact greater_warning_err _
    · exact hm
  · have key : ¬ NoErr (checkRemainingInput cfg (some attrDelims) (s2.extractInt32).2 err0).2 := by
      rcases cri_mono cfg (s2.extractInt32).2 err0 with hm | hm
      · rw [hm]; exact h
      · exact hm
    split
    · exact key
    · exact greater_warning_err _
    · exact greater_warning_err _


/-! ### BINARY -/
/-- `scanWord` on a good stream whose last consumed character is the current one: the word is the longest run of
    `p`-characters starting at the current character (`q`, the closing delimiter, is not a `p`-character) -/
theorem scanWord_spec (p : Byte → Bool) (q : Byte) (c1 : Byte) (l t1 : List Byte) (sk : Bool) :
    ∃ w rest, c1 :: t1 = w ++ rest ∧ w.all p = true ∧
      ((w = [] ∧ p c1 = false ∧ ∃ s6, scanWord p q c1 { left := c1 :: l, right := t1, eof := false, fail := false, bad := false, skipws := sk } = ([], c1, s6)) ∨
       (w ≠ [] ∧ rest = [] ∧ ∃ c3 s6, p c3 = true ∧
          scanWord p q c1 { left := c1 :: l, right := t1, eof := false, fail := false, bad := false, skipws := sk } = (w, c3, s6)) ∨
       (w ≠ [] ∧ ∃ u, rest = q :: u ∧ p q = false ∧
          scanWord p q c1 { left := c1 :: l, right := t1, eof := false, fail := false, bad := false, skipws := sk } =
            (w, q, { left := q :: (w.reverse ++ l), right := u, eof := false, fail := false, bad := false, skipws := sk })) ∨
       (w ≠ [] ∧ ∃ x u, rest = x :: u ∧ x ≠ q ∧ p x = false ∧
          scanWord p q c1 { left := c1 :: l, right := t1, eof := false, fail := false, bad := false, skipws := sk } =
            (w, x, { left := w.reverse ++ l, right := x :: u, eof := false, fail := false, bad := false, skipws := sk }))) := by
  by_cases hp : p c1 = true
  · obtain ⟨w, rest, h1, h2, h3⟩ := wordLoop_go p [] c1 (c1 :: l) t1 hp
    refine ⟨c1 :: w, rest, by simp [h1], by simp [hp, h2], Or.inr ?_⟩
    rcases h3 with ⟨hr, c', hc', hs⟩ | ⟨x, u, hr, hx, hs⟩
    · refine Or.inl ⟨by simp, hr, c',
        { left := w.reverse ++ c1 :: l, right := [], eof := true, fail := true, bad := false, skipws := sk }, hc', ?_⟩
      simp [scanWord, runWord, IStream.good, hs]
    · by_cases hxq : x = q
      · subst hxq
        refine Or.inr (Or.inl ⟨by simp, u, hr, hx, ?_⟩)
        simp [scanWord, runWord, IStream.good, hs]
      · refine Or.inr (Or.inr ⟨by simp, x, u, hr, hxq, hx, ?_⟩)
        simp [scanWord, runWord, IStream.good, hs, hxq, putback_good]
  · have hp' : p c1 = false := by simpa using hp
    refine ⟨[], c1 :: t1, rfl, rfl, Or.inl ⟨rfl, hp', ?_⟩⟩
    simp only [scanWord, runWord, IStream.good]
    simp [wordLoop_stop p [] c1 _ t1 hp']

theorem xdigit_not_quote : isXDigit 34 = false := by decide

/-- `ReadBinary` (delimiters required, empty content reported) flags no error only for `"` hex-digits `"` -/
theorem readBinary_noerr (cfg : LexCfg) (hcfg : cfg.binaryRejectsEmpty = true) (l : List Byte) (c : Byte) (t : List Byte) (sk : Bool)
    (hc : isSpace c = false)
    (hne : NoErr (readBinary cfg true { left := l, right := c :: t, eof := false, fail := false, bad := false, skipws := sk } .null).2.2) :
    ∃ hex rest, c :: t = 34 :: (hex ++ 34 :: rest) ∧ hex ≠ [] ∧ hex.all isXDigit = true ∧
      readBinary cfg true { left := l, right := c :: t, eof := false, fail := false, bad := false, skipws := sk } .null =
        (hex, { left := 34 :: (hex.reverse ++ 34 :: l), right := rest, eof := false, fail := false, bad := false, skipws := sk }, .null) := by
  simp only [readBinary, ws_good0 _ _ _ _ hc, IStream.good, Bool.not_false, Bool.and_self, Bool.not_true, Bool.false_eq_true, if_false,
    getInto_good] at hne ⊢
  by_cases h34 : c = 34
  · subst h34
    simp only [beq_self_eq_true, Bool.true_or, if_true] at hne ⊢
    cases t with
    | nil =>
      exfalso
      simp only [getInto_end, scanWord, runWord, IStream.good, Bool.not_true, Bool.false_and, Bool.and_false, Bool.false_eq_true, if_false,
        List.reverse_nil, beq_self_eq_true, if_true, Bool.not_false, hcfg, List.isEmpty_nil, Bool.and_self] at hne
      exact warnIf_true_err _ hne
    | cons c1 t1 =>
      simp only [getInto_good] at hne ⊢
      obtain ⟨w, rest, h1, h2, h3⟩ := scanWord_spec isXDigit 34 c1 (34 :: l) t1 sk
      rcases h3 with ⟨hw, _, s6, he⟩ | ⟨hw, hr, c3, s6, hc3, he⟩ | ⟨hw, u, hr, _, he⟩ | ⟨hw, x, u, hr, hxq, hx, he⟩
      · exfalso
        simp only [he, hcfg, List.isEmpty_nil, Bool.and_self] at hne
        exact warnIf_true_err _ hne
      · exfalso
        have hc3' : (c3 == 34) = false := by
          cases hq : (c3 == 34)
          · rfl
          · have : c3 = 34 := by simpa using hq
            subst this; cases hc3
        simp only [he, hc3', Bool.false_eq_true, if_false, Bool.not_false] at hne
        have hwe : w.isEmpty = false := by cases w <;> simp_all
        simp only [hwe, Bool.and_false] at hne
        simp only [null_warnIf_true, Sev.warnIf, Bool.false_eq_true, if_false] at hne
        exact not_quiet_warning (NoErr.quiet hne)
      · have hwe : w.isEmpty = false := by cases w <;> simp_all
        simp only [he, beq_self_eq_true, if_true, Bool.not_false, Bool.not_true, hwe, Bool.and_false, null_warnIf_false] at hne ⊢
        exact ⟨w, u, by rw [h1, hr], hw, h2, rfl⟩
      · exfalso
        have hxq' : (x == 34) = false := by simpa using hxq
        have hwe : w.isEmpty = false := by cases w <;> simp_all
        simp only [he, hxq', Bool.false_eq_true, if_false, Bool.not_false, hwe, Bool.and_false] at hne
        simp only [null_warnIf_true, Sev.warnIf, Bool.false_eq_true, if_false] at hne
        exact not_quiet_warning (NoErr.quiet hne)
  · exfalso
    have h34' : (c == 34) = false := by simpa using h34
    simp only [h34', Bool.false_or] at hne
    by_cases hx : isXDigit c = true
    · simp only [hx, if_true, Bool.false_eq_true, if_false] at hne
      generalize scanWord isXDigit 34 c { left := c :: l, right := t, skipws := sk } = q at hne
      obtain ⟨str, c2, s5⟩ := q
      simp only at hne
      have : (!(if (c2 == 34) = true then !true else false)) = true := by
        cases (c2 == 34) <;> rfl
      rw [this, null_warnIf_true, warning_warnIf] at hne
      exact not_quiet_warning (NoErr.quiet hne)
    · have hx' : isXDigit c = false := by simpa using hx
      simp only [hx', Bool.false_eq_true, if_false, null_greater_warning] at hne
      exact not_quiet_warning (NoErr.quiet hne)


/-! ### STRING -/
/-- the quote-parity automaton of `GetLiteralStr`: what was appended is a prefix of the input; when the loop stops before the
    end, the string is closed (`esc = false`) and the next character is not an apostrophe; and whenever the string is
    closed the last character appended is an apostrophe -/
theorem litLoop_spec (srev : List Byte) (esc : Bool) (r : List Byte) (hinv : esc = false → srev.head? = some 39) :
    ∃ m, r = m ++ (litLoop srev esc r).2.1 ∧ (litLoop srev esc r).1 = m.reverse ++ srev ∧
      ((litLoop srev esc r).2.2.1 = false → (litLoop srev esc r).1.head? = some 39) ∧
      ((litLoop srev esc r).2.2.2 = true → (litLoop srev esc r).2.1 = []) ∧
      ((litLoop srev esc r).2.2.2 = false → (litLoop srev esc r).2.2.1 = false) ∧
      (m = [] → (litLoop srev esc r).2.2.1 = esc) := by
  induction r generalizing srev esc with
  | nil => exact ⟨[], by simp [litLoop], by simp [litLoop], by simpa [litLoop] using hinv, by simp [litLoop], by simp [litLoop], by simp [litLoop]⟩
  | cons c t ih =>
    by_cases hq : c = 39
    · subst hq
      have hinv' : (if endsWithSEsc srev then esc else !esc) = false → (39 :: srev).head? = some 39 := fun _ => rfl
      obtain ⟨m, h1, h2, h3, h4, h5, _⟩ := ih (39 :: srev) (if endsWithSEsc srev then esc else !esc) hinv'
      refine ⟨39 :: m, ?_, ?_, ?_, ?_, ?_, by simp⟩
      · simp only [litLoop, beq_self_eq_true, if_true, List.cons_append]; rw [← h1]
      · simp only [litLoop, beq_self_eq_true, if_true]; rw [h2]; simp
      · simpa [litLoop] using h3
      · simpa [litLoop] using h4
      · simpa [litLoop] using h5
    · have hq' : (c == 39) = false := by simpa using hq
      cases esc with
      | false =>
        exact ⟨[], by simp [litLoop, hq'], by simp [litLoop, hq'], by simpa [litLoop, hq'] using hinv, by simp [litLoop, hq'], by simp [litLoop, hq'], by simp [litLoop, hq']⟩
      | true =>
        obtain ⟨m, h1, h2, h3, h4, h5, _⟩ := ih (c :: srev) true (by simp)
        refine ⟨c :: m, ?_, ?_, ?_, ?_, ?_, by simp⟩
        · simp only [litLoop, hq', Bool.false_eq_true, if_false, Bool.not_true, List.cons_append]; rw [← h1]
        · simp only [litLoop, hq', Bool.false_eq_true, if_false, Bool.not_true]; rw [h2]; simp
        · simpa [litLoop, hq'] using h3
        · simpa [litLoop, hq'] using h4
        · simpa [litLoop, hq'] using h5


/-! ### REAL: the shape of a real token, what `in2 >> d` makes of it, what it denotes -/
/-- an optional sign as a list -/
def IsSign (sg : List Byte) : Prop := sg = [] ∨ sg = [43] ∨ sg = [45]

/-- rest that does not continue a run of digits -/
def NoDigitHead (r : List Byte) : Prop := r = [] ∨ ∃ c t, r = c :: t ∧ isDigit c = false

theorem takeDigits_run (ds r : List Byte) (hds : ds.all isDigit = true) (hr : NoDigitHead r) :
    takeDigits (ds ++ r) = (ds, r) := by
  induction ds with
  | nil =>
    rcases hr with rfl | ⟨c, t, rfl, hc⟩
    · rfl
    · simp [takeDigits, hc]
  | cons a u ih =>
    simp only [List.all_cons, Bool.and_eq_true] at hds
    simp [takeDigits, hds.1, ih hds.2]

theorem takeDigits_spec (r : List Byte) :
    (takeDigits r).1.all isDigit = true ∧ NoDigitHead (takeDigits r).2 := by
  induction r with
  | nil => exact ⟨rfl, Or.inl rfl⟩
  | cons c t ih =>
    unfold takeDigits
    by_cases h : isDigit c = true
    · simp only [h, if_true]
      exact ⟨by simp [h, ih.1], ih.2⟩
    · have h' : isDigit c = false := by simpa using h
      simp only [h', Bool.false_eq_true, if_false]
      exact ⟨rfl, Or.inr ⟨c, t, rfl, h'⟩⟩

theorem optSign_spec (r : List Byte) : IsSign (optSign r).1 := by
  unfold optSign IsSign; split <;> simp

theorem optSign_of_sign (sg r : List Byte) (hs : IsSign sg) (hr : ∀ t, r ≠ 43 :: t ∧ r ≠ 45 :: t) :
    optSign (sg ++ r) = (sg, r) := by
  rcases hs with rfl | rfl | rfl
  · simp only [List.nil_append]
    unfold optSign
    split
    · rename_i t; exact absurd rfl (hr t).1
    · rename_i t; exact absurd rfl (hr t).2
    · rfl
  · rfl
  · rfl

theorem digit_head_not_sign (c : Byte) (u : List Byte) (hc : isDigit c = true) :
    ∀ t, (c :: u) ≠ 43 :: t ∧ (c :: u) ≠ 45 :: t := by
  intro t
  simp [isDigit] at hc
  constructor <;> (intro h; simp at h; bomega)

/-! floatLoop step lemmas -/
theorem floatLoop_digit1 (fm fd fs ae : Bool) (x l : List Byte) (d : Byte) (r : List Byte) (hd : isDigit d = true) :
    floatLoop fm fd fs ae x l (d :: r) = floatLoop true fd fs false (d :: x) (d :: l) r := by
  have hns : (d == 43 || d == 45) = false := by
    simp [isDigit] at hd; simp; bomega
  cases r <;> simp [floatLoop, hd, hns]

theorem floatLoop_digits (fm fd fs ae : Bool) (x l : List Byte) (d : Byte) (ds r : List Byte)
    (hd : isDigit d = true) (hds : ds.all isDigit = true) :
    floatLoop fm fd fs ae x l (d :: ds ++ r) =
      floatLoop true fd fs false ((d :: ds).reverse ++ x) ((d :: ds).reverse ++ l) r := by
  induction ds generalizing fm ae x l d with
  | nil => simp [floatLoop_digit1 _ _ _ _ _ _ _ _ hd]
  | cons a u ih =>
    simp only [List.all_cons, Bool.and_eq_true] at hds
    have := ih true false (d :: x) (d :: l) a hds.1 hds.2
    simp only [List.cons_append] at this ⊢
    rw [floatLoop_digit1 _ _ _ _ _ _ _ _ hd, this]; simp

theorem floatLoop_digits' (fm fd fs : Bool) (x l : List Byte) (ds r : List Byte) (hds : ds.all isDigit = true) :
    floatLoop fm fd fs false x l (ds ++ r) =
      floatLoop (fm || !ds.isEmpty) fd fs false (ds.reverse ++ x) (ds.reverse ++ l) r := by
  cases ds with
  | nil => simp
  | cons d u =>
    simp only [List.all_cons, Bool.and_eq_true] at hds
    rw [floatLoop_digits fm fd fs false x l d u r hds.1 hds.2]; simp

theorem floatLoop_dot (fm : Bool) (x l r : List Byte) :
    floatLoop fm false false false x l (46 :: r) = floatLoop fm true false false (46 :: x) (46 :: l) r := by
  simp [floatLoop, isDigit]

theorem floatLoop_exp (fd : Bool) (x l r : List Byte) (c : Byte) (hc : c = 69 ∨ c = 101) :
    floatLoop true fd false false x l (c :: r) = floatLoop true fd true true (101 :: x) (c :: l) r := by
  rcases hc with rfl | rfl <;> simp [floatLoop, isDigit]

theorem floatLoop_sign (fm fd fs : Bool) (x l r : List Byte) (c : Byte) (hc : c = 43 ∨ c = 45) :
    floatLoop fm fd fs true x l (c :: r) = floatLoop fm fd fs false (c :: x) (c :: l) r := by
  rcases hc with rfl | rfl <;> simp [floatLoop]

/-- after the exponent letter: optional sign, then digits, then the end -/
theorem floatLoop_exp_tail (fm fd : Bool) (x l : List Byte) (esg ed : List Byte) (hs : IsSign esg) (hne : ed ≠ [])
    (hed : ed.all isDigit = true) :
    floatLoop fm fd true true x l (esg ++ ed) = ((esg ++ ed).reverse ++ x, (esg ++ ed).reverse ++ l, []) := by
  have hdig : ∀ (ae : Bool) (x l : List Byte), floatLoop fm fd true ae x l ed = (ed.reverse ++ x, ed.reverse ++ l, []) := by
    intro ae x l
    cases ed with
    | nil => exact absurd rfl hne
    | cons d u =>
      simp only [List.all_cons, Bool.and_eq_true] at hed
      have := floatLoop_digits fm fd true ae x l d u [] hed.1 hed.2
      simp only [List.append_nil] at this
      rw [this]; simp [floatLoop]
  rcases hs with rfl | rfl | rfl
  · simpa using hdig true x l
  · rw [List.singleton_append, floatLoop_sign _ _ _ _ _ _ 43 (Or.inl rfl), hdig]; simp
  · rw [List.singleton_append, floatLoop_sign _ _ _ _ _ _ 45 (Or.inr rfl), hdig]; simp

/-! the shape of a real token -/
def exText (el : Byte) : Option (List Byte × List Byte) → List Byte
  | none => []
  | some (esg, ed) => el :: (esg ++ ed)

def exVal : Option (List Byte × List Byte) → Int
  | none => 0
  | some (esg, ed) => if esg == [45] then -((digitsVal ed 0 : Nat) : Int) else ((digitsVal ed 0 : Nat) : Int)

def ExWF : Option (List Byte × List Byte) → Prop
  | none => True
  | some (esg, ed) => IsSign esg ∧ ed ≠ [] ∧ ed.all isDigit = true

def realText (sg ip fp : List Byte) (el : Byte) (ex : Option (List Byte × List Byte)) : List Byte :=
  sg ++ (ip ++ 46 :: (fp ++ exText el ex))

theorem dot_noDigit (r : List Byte) : NoDigitHead (46 :: r) := Or.inr ⟨46, r, rfl, by decide⟩

theorem exText_noDigit (el : Byte) (hel : el = 69 ∨ el = 101) (ex : Option (List Byte × List Byte)) :
    NoDigitHead (exText el ex) := by
  cases ex with
  | none => exact Or.inl rfl
  | some p => exact Or.inr ⟨el, p.1 ++ p.2, rfl, by rcases hel with rfl | rfl <;> decide⟩

/-- P1: the decimal a text of the real shape denotes -/
theorem parse_realText (sg ip fp : List Byte) (el : Byte) (ex : Option (List Byte × List Byte))
    (hsg : IsSign sg) (hip1 : ip ≠ []) (hip : ip.all isDigit = true) (hfp : fp.all isDigit = true)
    (hel : el = 69 ∨ el = 101) (hex : ExWF ex) :
    parseFloatText (realText sg ip fp el ex) =
      some ⟨sg == [45], digitsVal (ip ++ fp) 0, exVal ex - (fp.length : Int)⟩ := by
  obtain ⟨d, u, rfl⟩ : ∃ d u, ip = d :: u := by
    cases ip with
    | nil => exact absurd rfl hip1
    | cons d u => exact ⟨d, u, rfl⟩
  have hd : isDigit d = true := by simp at hip; exact hip.1
  have h1 : optSign (realText sg (d :: u) fp el ex) = (sg, (d :: u) ++ 46 :: (fp ++ exText el ex)) := by
    unfold realText
    exact optSign_of_sign sg _ hsg (by simpa using digit_head_not_sign d _ hd)
  have h2 : takeDigits ((d :: u) ++ 46 :: (fp ++ exText el ex)) = (d :: u, 46 :: (fp ++ exText el ex)) :=
    takeDigits_run _ _ hip (dot_noDigit _)
  have h3 : takeDigits (fp ++ exText el ex) = (fp, exText el ex) := takeDigits_run _ _ hfp (exText_noDigit el hel ex)
  unfold parseFloatText
  simp only [h1, h2, optDot, h3, List.isEmpty_cons, Bool.false_eq_true, if_false, Bool.false_and]
  cases ex with
  | none => simp [exText, exVal]
  | some p =>
    obtain ⟨esg, ed⟩ := p
    obtain ⟨hes, hed1, hed⟩ := hex
    obtain ⟨e0, eu, rfl⟩ : ∃ e0 eu, ed = e0 :: eu := by
      cases ed with
      | nil => exact absurd rfl hed1
      | cons e0 eu => exact ⟨e0, eu, rfl⟩
    have he0 : isDigit e0 = true := by simp at hed; exact hed.1
    have h4 : optSign (esg ++ (e0 :: eu)) = (esg, e0 :: eu) :=
      optSign_of_sign esg _ hes (by simpa using digit_head_not_sign e0 eu he0)
    have h5 : takeDigits (e0 :: eu) = (e0 :: eu, []) := by
      simpa using takeDigits_run (e0 :: eu) [] hed (Or.inl rfl)
    have hel' : (el == 101 || el == 69) = true := by rcases hel with rfl | rfl <;> decide
    simp [exText, exVal, hel', h4, h5]

theorem zeros_split (ip : List Byte) :
    ∃ zs ds, ip = zs ++ ds ∧ zs.all (· == 48) = true ∧ (ds = [] ∨ ∃ c t, ds = c :: t ∧ c ≠ 48) := by
  induction ip with
  | nil => exact ⟨[], [], rfl, rfl, Or.inl rfl⟩
  | cons a u ih =>
    by_cases ha : a = 48
    · obtain ⟨zs, ds, h1, h2, h3⟩ := ih
      exact ⟨a :: zs, ds, by simp [h1], by simp [ha, h2], h3⟩
    · exact ⟨[], a :: u, rfl, rfl, Or.inr ⟨a, u, rfl, ha⟩⟩

theorem dropZeros_run (f : Bool) (l zs r : List Byte) (hz : zs.all (· == 48) = true)
    (hr : r = [] ∨ ∃ c t, r = c :: t ∧ c ≠ 48) :
    dropZeros f l (zs ++ r) = (f || !zs.isEmpty, zs.reverse ++ l, r) := by
  induction zs generalizing f l with
  | nil =>
    rcases hr with rfl | ⟨c, t, rfl, hc⟩
    · simp [dropZeros]
    · have : (c == 48) = false := by simpa using hc
      simp [dropZeros, this]
  | cons a u ih =>
    simp only [List.all_cons, Bool.and_eq_true, beq_iff_eq] at hz
    obtain ⟨rfl, hu⟩ := hz
    simp [dropZeros, ih true (48 :: l) hu]

theorem digitsVal_zeros (zs r : List Byte) (hz : zs.all (· == 48) = true) : digitsVal (zs ++ r) 0 = digitsVal r 0 := by
  induction zs with
  | nil => rfl
  | cons a u ih =>
    simp only [List.all_cons, Bool.and_eq_true, beq_iff_eq] at hz
    obtain ⟨rfl, hu⟩ := hz
    simp [digitsVal, ih hu]

/-- P3: what `in2 >> d` hands to `strtod` for a buffer of the real shape denotes the same decimal as the buffer -/
theorem parse_scanFloat_realText (sg ip fp : List Byte) (el : Byte) (ex : Option (List Byte × List Byte))
    (hsg : IsSign sg) (hip1 : ip ≠ []) (hip : ip.all isDigit = true) (hfp : fp.all isDigit = true)
    (hel : el = 69 ∨ el = 101) (hex : ExWF ex) :
    parseFloatText (scanFloat [] (realText sg ip fp el ex)).1 =
      some ⟨sg == [45], digitsVal (ip ++ fp) 0, exVal ex - (fp.length : Int)⟩ := by
  obtain ⟨zs, ds, rfl, hz, hds0⟩ := zeros_split ip
  have hzd : zs.all isDigit = true := by
    apply List.all_eq_true.mpr; intro b hb
    have := List.all_eq_true.mp hz b hb
    simp at this; subst this; decide
  have hdsd : ds.all isDigit = true := by
    simp only [List.all_append, Bool.and_eq_true] at hip; exact hip.2
  -- the collapsed integer part
  let ipc : List Byte := (if zs.isEmpty then [] else [48]) ++ ds
  have hipc1 : ipc ≠ [] := by
    simp only [ipc]
    cases zs with
    | nil => simpa using hip1
    | cons a u => simp
  have hipcd : ipc.all isDigit = true := by
    simp only [ipc]
    cases zs <;> simp [hdsd, isDigit]
  have hval : digitsVal (ipc ++ fp) 0 = digitsVal ((zs ++ ds) ++ fp) 0 := by
    simp only [ipc, List.append_assoc]
    rw [digitsVal_zeros zs _ hz]
    cases zs with
    | nil => simp
    | cons a u => simpa using digitsVal_zeros [48] (ds ++ fp) rfl
  -- the scan
  have hscan : (scanFloat [] (realText sg (zs ++ ds) fp el ex)).1 = realText sg ipc fp 101 ex := by
    have hrest : (ds ++ 46 :: (fp ++ exText el ex)) = [] ∨ ∃ c t, (ds ++ 46 :: (fp ++ exText el ex)) = c :: t ∧ c ≠ 48 := by
      rcases hds0 with rfl | ⟨c, t, rfl, hc⟩
      · exact Or.inr ⟨46, _, rfl, by decide⟩
      · exact Or.inr ⟨c, _, rfl, hc⟩
    have hdz : ∀ l, dropZeros false l (zs ++ (ds ++ 46 :: (fp ++ exText el ex))) =
        (!zs.isEmpty, zs.reverse ++ l, ds ++ 46 :: (fp ++ exText el ex)) := by
      intro l; simpa using dropZeros_run false l zs _ hz hrest
    have hfm : (!zs.isEmpty || !ds.isEmpty) = true := by
      cases zs <;> cases ds <;> simp_all
    have hloop : ∀ x l, floatLoop (!zs.isEmpty) false false false x l (ds ++ 46 :: (fp ++ exText el ex)) =
        ((exText 101 ex).reverse ++ (fp.reverse ++ (46 :: (ds.reverse ++ x))),
         (exText el ex).reverse ++ (fp.reverse ++ (46 :: (ds.reverse ++ l))), []) := by
      intro x l
      rw [floatLoop_digits' _ _ _ _ _ _ _ hdsd, hfm, floatLoop_dot, floatLoop_digits' _ _ _ _ _ _ _ hfp]
      cases ex with
      | none => simp [exText, floatLoop]
      | some p =>
        obtain ⟨esg, ed⟩ := p
        obtain ⟨hes, hed1, hed⟩ := hex
        simp only [exText, Bool.true_or]
        rw [floatLoop_exp _ _ _ _ el hel, floatLoop_exp_tail _ _ _ _ esg ed hes hed1 hed]
        simp
    have hsgn : ∀ t, (zs ++ (ds ++ 46 :: (fp ++ exText el ex))) ≠ 43 :: t ∧ (zs ++ (ds ++ 46 :: (fp ++ exText el ex))) ≠ 45 :: t := by
      intro t
      cases zs with
      | nil =>
        cases ds with
        | nil => exact absurd rfl hip1
        | cons d u => simp at hdsd; simpa using digit_head_not_sign d _ hdsd.1 t
      | cons a u => simp at hzd; simpa using digit_head_not_sign a _ hzd.1 t
    have hsp : signPrefix (realText sg (zs ++ ds) fp el ex) = (sg, zs ++ (ds ++ 46 :: (fp ++ exText el ex))) := by
      unfold realText
      rcases hsg with rfl | rfl | rfl
      · simp only [List.nil_append, List.append_assoc]
        unfold signPrefix
        split
        · rename_i r heq; exact absurd heq (hsgn r).2
        · rename_i r heq; exact absurd heq (hsgn r).1
        · rfl
      · simp [signPrefix]
      · simp [signPrefix]
    simp only [scanFloat, hsp, hdz, hloop, ipc]
    rcases hsg with rfl | rfl | rfl <;> cases zs <;> simp [realText]
  rw [hscan, parse_realText sg ipc fp 101 ex hsg hipc1 hipcd hfp (Or.inr rfl) hex, hval]

theorem optDot_cases (r : List Byte) : ((optDot r).1 = [46] ∧ r = 46 :: (optDot r).2) ∨ ((optDot r).1 = [] ∧ (optDot r).2 = r) := by
  unfold optDot; split <;> simp

theorem expPart_cases (r : List Byte) :
    ((expPart r).1 = [] ∧ (expPart r).2.2.1 = false ∧ (expPart r).2.2.2 = false) ∨
    (∃ c t, r = c :: t ∧ (c = 101 ∨ c = 69) ∧ (expPart r).1 = c :: ((optSign t).1 ++ (takeDigits (optSign t).2).1) ∧
      (expPart r).2.2.1 = (c == 101) ∧ (expPart r).2.2.2 = (takeDigits (optSign t).2).1.isEmpty) := by
  unfold expPart
  split
  · rename_i c t
    by_cases h : (c == 101 || c == 69) = true
    · right
      refine ⟨c, t, rfl, by simpa using h, ?_⟩
      simp [h, realDigits]
    · have h' : (c == 101 || c == 69) = false := by simpa using h
      left; simp [h']
  · left; simp

theorem sev4 (a b c d : Bool)
    (h : (if d then Sev.warning else if c then Sev.warning else if b then Sev.warning else if a then Sev.warning else Sev.null) = Sev.null) :
    a = false ∧ b = false ∧ c = false ∧ d = false := by
  cases a <;> cases b <;> cases c <;> cases d <;> simp at h ⊢

/-- S4: when `ReadReal` collected its characters without a format complaint, the buffer has the shape of the grammar -/
theorem realCollect_null (r : List Byte) (h : (realCollect r).2.2 = Sev.null) :
    ∃ sg ip fp ex, (realCollect r).1 = realText sg ip fp 69 ex ∧ IsSign sg ∧ ip ≠ [] ∧ ip.all isDigit = true ∧
      fp.all isDigit = true ∧ ExWF ex := by
  simp only [realCollect, realDigits] at h ⊢
  obtain ⟨c1', c2', c3', c4'⟩ := sev4 _ _ _ _ h
  have hsg := optSign_spec r
  have hipd := (takeDigits_spec (optSign r).2).1
  have hdot := optDot_cases (takeDigits (optSign r).2).2
  have hfpd := (takeDigits_spec (optDot (takeDigits (optSign r).2).2).2).1
  have hex := expPart_cases (takeDigits (optDot (takeDigits (optSign r).2).2).2).2
  have hd46 : (optDot (takeDigits (optSign r).2).2).1 = [46] := by
    rcases hdot with ⟨hd, _⟩ | ⟨hd, _⟩
    · exact hd
    · rw [hd] at c2'; simp at c2'
  have hipne : (takeDigits (optSign r).2).1 ≠ [] := by intro e; rw [e] at c1'; simp at c1'
  rcases hex with ⟨he1, _, _⟩ | ⟨c, t, hrt, hc, he1, he2, he3⟩
  · refine ⟨(optSign r).1, (takeDigits (optSign r).2).1, (takeDigits (optDot (takeDigits (optSign r).2).2).2).1, none, ?_, hsg, hipne, hipd, hfpd, trivial⟩
    simp [realText, exText, hd46, he1]
  · rw [he2] at c3'
    have hc69 : c = 69 := by
      rcases hc with rfl | rfl
      · simp at c3'
      · rfl
    subst hc69
    rw [he3] at c4'
    refine ⟨(optSign r).1, (takeDigits (optSign r).2).1, (takeDigits (optDot (takeDigits (optSign r).2).2).2).1,
      some ((optSign t).1, (takeDigits (optSign t).2).1), ?_, hsg, hipne, hipd, hfpd, ?_⟩
    · simp [realText, exText, hd46, he1]
    · exact ⟨optSign_spec t, by intro e; rw [e] at c4'; simp at c4', (takeDigits_spec (optSign t).2).1⟩

theorem splitSign_of_sign (sg r : List Byte) (hs : IsSign sg) (hr : ∀ t, r ≠ 43 :: t ∧ r ≠ 45 :: t) :
    splitSign (sg ++ r) = (sg == [45], r) := by
  rcases hs with rfl | rfl | rfl
  · simp only [List.nil_append]
    unfold splitSign
    split
    · rename_i t; exact absurd rfl (hr t).2
    · rename_i t; exact absurd rfl (hr t).1
    · rfl
  · rfl
  · rfl

/-- S6: a text of the real shape with an upper-case `E` is a token of the grammar -/
theorem isReal_realText (sg ip fp : List Byte) (ex : Option (List Byte × List Byte))
    (hsg : IsSign sg) (hip1 : ip ≠ []) (hip : ip.all isDigit = true) (hfp : fp.all isDigit = true) (hex : ExWF ex) :
    isReal (realText sg ip fp 69 ex) = true := by
  obtain ⟨d, u, rfl⟩ : ∃ d u, ip = d :: u := by
    cases ip with
    | nil => exact absurd rfl hip1
    | cons d u => exact ⟨d, u, rfl⟩
  have hd : isDigit d = true := by simp at hip; exact hip.1
  have h1 : splitSign (realText sg (d :: u) fp 69 ex) = (sg == [45], (d :: u) ++ 46 :: (fp ++ exText 69 ex)) := by
    unfold realText
    exact splitSign_of_sign sg _ hsg (by simpa using digit_head_not_sign d _ hd)
  have h2 : takeDigits ((d :: u) ++ 46 :: (fp ++ exText 69 ex)) = (d :: u, 46 :: (fp ++ exText 69 ex)) :=
    takeDigits_run _ _ hip (dot_noDigit _)
  have h3 : takeDigits (fp ++ exText 69 ex) = (fp, exText 69 ex) := takeDigits_run _ _ hfp (exText_noDigit 69 (Or.inl rfl) ex)
  unfold isReal
  simp only [h1, h2, h3, List.isEmpty_cons, Bool.false_eq_true, if_false]
  cases ex with
  | none => simp [exText]
  | some p =>
    obtain ⟨esg, ed⟩ := p
    obtain ⟨hes, hed1, hed⟩ := hex
    obtain ⟨e0, eu, rfl⟩ : ∃ e0 eu, ed = e0 :: eu := by
      cases ed with
      | nil => exact absurd rfl hed1
      | cons e0 eu => exact ⟨e0, eu, rfl⟩
    have he0 : isDigit e0 = true := by simp at hed; exact hed.1
    have h4 : splitSign (esg ++ (e0 :: eu)) = (esg == [45], e0 :: eu) :=
      splitSign_of_sign esg _ hes (by simpa using digit_head_not_sign e0 eu he0)
    simp only [exText, h4, allDigits]
    simpa using hed

theorem realCollect_sev (r : List Byte) : (realCollect r).2.2 = Sev.null ∨ (realCollect r).2.2 = Sev.warning := by
  simp only [realCollect]
  split <;> (try split) <;> (try split) <;> (try split) <;> simp

theorem null_greater_noerr (e : Sev) (h : NoErr (Sev.null.greater e)) (he : e = Sev.null ∨ e = Sev.warning) : e = Sev.null := by
  rcases he with rfl | rfl
  · rfl
  · exact absurd h (by simp [NoErr, Sev.greater, Sev.toInt])


theorem splitSign_append (t : List Byte) :
    ∃ sg, IsSign sg ∧ t = sg ++ (splitSign t).2 ∧ (splitSign t).1 = (sg == [45]) := by
  rcases splitSign_cases t with ⟨r, rfl, hs⟩ | ⟨r, rfl, hs⟩ | ⟨_, _, hs⟩
  · exact ⟨[45], Or.inr (Or.inr rfl), by rw [hs]; rfl, by rw [hs]; rfl⟩
  · exact ⟨[43], Or.inr (Or.inl rfl), by rw [hs]; rfl, by rw [hs]; rfl⟩
  · exact ⟨[], Or.inl rfl, by rw [hs]; rfl, by rw [hs]; rfl⟩

/-- S1: every token of the real grammar has the real shape -/
theorem isReal_shape (t : List Byte) (h : isReal t = true) :
    ∃ sg ip fp ex, t = realText sg ip fp 69 ex ∧ IsSign sg ∧ ip ≠ [] ∧ ip.all isDigit = true ∧ fp.all isDigit = true ∧ ExWF ex := by
  obtain ⟨sg, hsg, ht, _⟩ := splitSign_append t
  obtain ⟨ip, t2, htd⟩ : ∃ ip t2, takeDigits (splitSign t).2 = (ip, t2) := ⟨_, _, rfl⟩
  have hip := takeDigits_spec (splitSign t).2
  have happ := takeDigits_append (splitSign t).2
  rw [htd] at hip happ
  simp only at hip happ
  unfold isReal at h
  simp only [htd] at h
  by_cases hie : ip.isEmpty = true
  · simp [hie] at h
  · have hie' : ip.isEmpty = false := by simpa using hie
    simp only [hie', Bool.false_eq_true, if_false] at h
    have hipne : ip ≠ [] := by intro e; rw [e] at hie'; simp at hie'
    cases t2 with
    | nil => simp at h
    | cons c2 t3 =>
      by_cases hc2 : c2 = 46
      · subst hc2
        simp only at h
        obtain ⟨fp, t4, htd3⟩ : ∃ fp t4, takeDigits t3 = (fp, t4) := ⟨_, _, rfl⟩
        have hfp := takeDigits_spec t3
        have happ3 := takeDigits_append t3
        rw [htd3] at hfp happ3
        simp only [htd3] at h hfp happ3
        cases t4 with
        | nil =>
          refine ⟨sg, ip, fp, none, ?_, hsg, hipne, hip.1, hfp.1, trivial⟩
          rw [ht, ← happ, ← happ3]; simp [realText, exText]
        | cons c4 t5 =>
          by_cases hc4 : c4 = 69
          · subst hc4
            simp only [Bool.and_eq_true, Bool.not_eq_true', allDigits] at h
            obtain ⟨esg, hesg, ht5, _⟩ := splitSign_append t5
            refine ⟨sg, ip, fp, some (esg, (splitSign t5).2), ?_, hsg, hipne, hip.1, hfp.1, hesg, ?_, h.2⟩
            · rw [ht, ← happ, ← happ3]
              simp only [realText, exText, List.append_assoc, List.cons_append, List.nil_append]
              rw [← ht5]
            · intro e; rw [e] at h; simp at h
          · exfalso
            split at h
            · rename_i heq; cases heq
            · rename_i heq; simp at heq; exact hc4 heq.1
            · cases h
      · exfalso
        split at h
        · rename_i heq; simp at heq; exact hc2 heq.1
        · cases h

/-- what may follow a real token without being taken for a part of it -/
def RealCont (cont : List Byte) : Prop :=
  cont = [] ∨ ∃ c t, cont = c :: t ∧ isDigit c = false ∧ c ≠ 101 ∧ c ≠ 69

theorem RealCont.noDigit {cont : List Byte} (h : RealCont cont) : NoDigitHead cont := by
  rcases h with rfl | ⟨c, t, rfl, hc, _, _⟩
  · exact Or.inl rfl
  · exact Or.inr ⟨c, t, rfl, hc⟩

theorem expPart_cont (cont : List Byte) (h : RealCont cont) : expPart cont = ([], cont, false, false) := by
  rcases h with rfl | ⟨c, t, rfl, _, h1, h2⟩
  · rfl
  · have : (c == 101 || c == 69) = false := by simp [h1, h2]
    simp [expPart, this]

/-- S5: `ReadReal` collects exactly a token of the real shape, without a format complaint -/
theorem realCollect_realText (sg ip fp : List Byte) (ex : Option (List Byte × List Byte)) (cont : List Byte)
    (hsg : IsSign sg) (hip1 : ip ≠ []) (hip : ip.all isDigit = true) (hfp : fp.all isDigit = true) (hex : ExWF ex)
    (hcont : RealCont cont) :
    realCollect (realText sg ip fp 69 ex ++ cont) = (realText sg ip fp 69 ex, cont, Sev.null) := by
  obtain ⟨d, u, rfl⟩ : ∃ d u, ip = d :: u := by
    cases ip with
    | nil => exact absurd rfl hip1
    | cons d u => exact ⟨d, u, rfl⟩
  have hd : isDigit d = true := by simp at hip; exact hip.1
  have h1 : optSign (realText sg (d :: u) fp 69 ex ++ cont) = (sg, (d :: u) ++ 46 :: (fp ++ (exText 69 ex ++ cont))) := by
    have : realText sg (d :: u) fp 69 ex ++ cont = sg ++ ((d :: u) ++ 46 :: (fp ++ (exText 69 ex ++ cont))) := by
      simp [realText]
    rw [this]
    exact optSign_of_sign sg _ hsg (by simpa using digit_head_not_sign d _ hd)
  have h2 : takeDigits ((d :: u) ++ 46 :: (fp ++ (exText 69 ex ++ cont))) = (d :: u, 46 :: (fp ++ (exText 69 ex ++ cont))) :=
    takeDigits_run _ _ hip (dot_noDigit _)
  have hnd : NoDigitHead (exText 69 ex ++ cont) := by
    cases ex with
    | none => simpa [exText] using hcont.noDigit
    | some p => exact Or.inr ⟨69, p.1 ++ p.2 ++ cont, by simp [exText], by decide⟩
  have h3 : takeDigits (fp ++ (exText 69 ex ++ cont)) = (fp, exText 69 ex ++ cont) := takeDigits_run _ _ hfp hnd
  have h4 : expPart (exText 69 ex ++ cont) = (exText 69 ex, cont, false, false) := by
    cases ex with
    | none => simpa [exText] using expPart_cont cont hcont
    | some p =>
      obtain ⟨esg, ed⟩ := p
      obtain ⟨hes, hed1, hed⟩ := hex
      obtain ⟨e0, eu, rfl⟩ : ∃ e0 eu, ed = e0 :: eu := by
        cases ed with
        | nil => exact absurd rfl hed1
        | cons e0 eu => exact ⟨e0, eu, rfl⟩
      have he0 : isDigit e0 = true := by simp at hed; exact hed.1
      have h5 : optSign (esg ++ ((e0 :: eu) ++ cont)) = (esg, (e0 :: eu) ++ cont) :=
        optSign_of_sign esg _ hes (by simpa using digit_head_not_sign e0 _ he0)
      have h6 : takeDigits ((e0 :: eu) ++ cont) = (e0 :: eu, cont) := takeDigits_run _ _ hed hcont.noDigit
      simp only [List.cons_append] at h5 h6
      simp [exText, expPart, realDigits, h5, h6]
  simp only [realCollect, realDigits, h1, h2, optDot, h3, h4]
  simp [realText]


/-! ### REAL writer -/
/-- law L2 (shape of `%.15G` for a finite double): optional `-`, digits, optionally `.` and digits, optionally `E`, sign, digits -/
def G15Shape (t : List Byte) : Prop :=
  ∃ sg ip fr ex, t = sg ++ (ip ++ (fr ++ exText 69 ex)) ∧ (sg = [] ∨ sg = [45]) ∧ ip ≠ [] ∧ ip.all isDigit = true ∧
    (fr = [] ∨ ∃ fp, fr = 46 :: fp ∧ fp.all isDigit = true) ∧ ExWF ex

theorem digits_not_mem (ds : List Byte) (h : ds.all isDigit = true) (b : Byte) (hb : isDigit b = false) : ds.contains b = false := by
  induction ds with
  | nil => rfl
  | cons a u ih =>
    simp only [List.all_cons, Bool.and_eq_true] at h
    have : (b == a) = false := by
      cases hq : (b == a)
      · rfl
      · have : b = a := by simpa using hq
        subst this; rw [h.1] at hb; cases hb
    simp only [List.contains_cons, this, Bool.false_or]
    exact ih h.2

theorem sign_not_mem (sg : List Byte) (h : IsSign sg) (b : Byte) (h1 : b ≠ 43) (h2 : b ≠ 45) : sg.contains b = false := by
  rcases h with rfl | rfl | rfl <;> simp [h1, h2]

theorem exText_no_dot (ex : Option (List Byte × List Byte)) (hex : ExWF ex) : (exText 69 ex).contains 46 = false := by
  cases ex with
  | none => rfl
  | some p =>
    obtain ⟨esg, ed⟩ := p
    obtain ⟨hes, _, hed⟩ := hex
    simp only [exText, List.contains_cons, List.contains_append]
    rw [sign_not_mem esg hes 46 (by decide) (by decide), digits_not_mem ed hed 46 (by decide)]
    decide

theorem findIdx_69 (pre : List Byte) (r : List Byte) (h : pre.contains 69 = false) :
    (pre ++ 69 :: r).findIdx? (· == 69) = some pre.length := by
  induction pre with
  | nil => simp [List.findIdx?_cons]
  | cons a u ih =>
    simp only [List.contains_cons, Bool.or_eq_false_iff] at h
    have ha : (a == 69) = false := by
      have := h.1
      cases hq : (a == 69)
      · rfl
      · have e : a = 69 := by simpa using hq
        subst e; simp at this
    simp [List.findIdx?_cons, ha, ih h.2]

theorem take_pre (a b : List Byte) : List.take a.length (a ++ b) = a := by
  induction a with
  | nil => simp
  | cons x u ih => simp [ih]

theorem drop_pre1 (a : List Byte) (x : Byte) (b : List Byte) : List.drop (a.length + 1) (a ++ x :: b) = b := by
  induction a with
  | nil => simp
  | cons y u ih => simpa using ih

/-- the decimal a text without a decimal point denotes -/
theorem parse_dotless (sg ip : List Byte) (el : Byte) (ex : Option (List Byte × List Byte))
    (hsg : IsSign sg) (hip1 : ip ≠ []) (hip : ip.all isDigit = true) (hel : el = 69 ∨ el = 101) (hex : ExWF ex) :
    parseFloatText (sg ++ (ip ++ exText el ex)) = some ⟨sg == [45], digitsVal ip 0, exVal ex⟩ := by
  obtain ⟨d, u, rfl⟩ : ∃ d u, ip = d :: u := by
    cases ip with
    | nil => exact absurd rfl hip1
    | cons d u => exact ⟨d, u, rfl⟩
  have hd : isDigit d = true := by simp at hip; exact hip.1
  have h1 : optSign (sg ++ ((d :: u) ++ exText el ex)) = (sg, (d :: u) ++ exText el ex) :=
    optSign_of_sign sg _ hsg (by simpa using digit_head_not_sign d _ hd)
  have h2 : takeDigits ((d :: u) ++ exText el ex) = (d :: u, exText el ex) :=
    takeDigits_run _ _ hip (exText_noDigit el hel ex)
  have hnodot : optDot (exText el ex) = ([], exText el ex) := by
    cases ex with
    | none => rfl
    | some p =>
      unfold optDot exText
      split
      · rename_i heq; simp at heq; rcases hel with rfl | rfl <;> simp at heq
      · rfl
  unfold parseFloatText
  simp only [h1, h2, hnodot, List.isEmpty_nil, if_true, List.isEmpty_cons, Bool.false_and, Bool.false_eq_true, if_false,
    List.append_nil, List.length_nil]
  cases ex with
  | none => simp [exText, exVal]
  | some p =>
    obtain ⟨esg, ed⟩ := p
    obtain ⟨hes, hed1, hed⟩ := hex
    obtain ⟨e0, eu, rfl⟩ : ∃ e0 eu, ed = e0 :: eu := by
      cases ed with
      | nil => exact absurd rfl hed1
      | cons e0 eu => exact ⟨e0, eu, rfl⟩
    have he0 : isDigit e0 = true := by simp at hed; exact hed.1
    have h4 : optSign (esg ++ (e0 :: eu)) = (esg, e0 :: eu) :=
      optSign_of_sign esg _ hes (by simpa using digit_head_not_sign e0 eu he0)
    have h5 : takeDigits (e0 :: eu) = (e0 :: eu, []) := by
      simpa using takeDigits_run (e0 :: eu) [] hed (Or.inl rfl)
    have hel' : (el == 101 || el == 69) = true := by rcases hel with rfl | rfl <;> decide
    simp [exText, exVal, hel', h4, h5]

/-- W1: what `WriteReal` makes of a `%.15G` output of the expected shape is a text of the real shape — the same digits,
    with a `.` after the integer part when none was printed — and it denotes what the `%.15G` text denotes -/
theorem writeReal_shape {F} (ops : FloatOps F) (v : F) (h : G15Shape (ops.fmtG15 v)) :
    ∃ sg ip fp ex, writeReal ops v = realText sg ip fp 69 ex ∧ IsSign sg ∧ ip ≠ [] ∧ ip.all isDigit = true ∧
      fp.all isDigit = true ∧ ExWF ex ∧
      parseFloatText (ops.fmtG15 v) = some ⟨sg == [45], digitsVal (ip ++ fp) 0, exVal ex - (fp.length : Int)⟩ := by
  obtain ⟨sg, ip, fr, ex, ht, hsg0, hip1, hip, hfr, hex⟩ := h
  have hsg : IsSign sg := by rcases hsg0 with rfl | rfl <;> simp [IsSign]
  have hsg46 : 46 ∉ sg := by simpa using sign_not_mem sg hsg 46 (by decide) (by decide)
  have hip46 : 46 ∉ ip := by simpa using digits_not_mem ip hip 46 (by decide)
  have hex46 : 46 ∉ exText 69 ex := by simpa using exText_no_dot ex hex
  have hsg69 : 69 ∉ sg := by simpa using sign_not_mem sg hsg 69 (by decide) (by decide)
  have hip69 : 69 ∉ ip := by simpa using digits_not_mem ip hip 69 (by decide)
  have hsg101 : 101 ∉ sg := by simpa using sign_not_mem sg hsg 101 (by decide) (by decide)
  have hip101 : 101 ∉ ip := by simpa using digits_not_mem ip hip 101 (by decide)
  rcases hfr with rfl | ⟨fp, rfl, hfp⟩
  · -- no decimal point printed
    have hno : (ops.fmtG15 v).contains 46 = false := by
      rw [ht]; simp [List.contains_append, hsg46, hip46, hex46]
    cases ex with
    | none =>
      -- digits only: append the point
      have hnoE : ((ops.fmtG15 v).contains 69 || (ops.fmtG15 v).contains 101) = false := by
        rw [ht]
        simp [exText, List.contains_append, hsg69, hip69, hsg101, hip101]
      refine ⟨sg, ip, [], none, ?_, hsg, hip1, hip, rfl, trivial, ?_⟩
      · simp only [writeReal, hno, hnoE, Bool.false_eq_true, if_false]
        rw [ht]; simp [realText, exText]
      · rw [ht]
        have := parse_dotless sg ip 69 none hsg hip1 hip (Or.inl rfl) trivial
        simpa [exText, exVal] using this
    | some p =>
      obtain ⟨esg, ed⟩ := p
      have hpre : (sg ++ ip).contains 69 = false := by
        simp [List.contains_append, hsg69, hip69]
      have hE : ((ops.fmtG15 v).contains 69 || (ops.fmtG15 v).contains 101) = true := by
        rw [ht]; simp [exText, List.contains_append]
      have hidx : (ops.fmtG15 v).findIdx? (· == 69) = some (sg ++ ip).length := by
        rw [ht]
        have := findIdx_69 (sg ++ ip) (esg ++ ed) hpre
        simpa [exText, List.append_assoc] using this
      refine ⟨sg, ip, [], some (esg, ed), ?_, hsg, hip1, hip, rfl, hex, ?_⟩
      · simp only [writeReal, hno, hE, Bool.false_eq_true, if_false, if_true, hidx]
        rw [ht]
        have e1 : (sg ++ (ip ++ ([] ++ exText 69 (some (esg, ed))))) = (sg ++ ip) ++ 69 :: (esg ++ ed) := by simp [exText]
        rw [e1]
        rw [take_pre (sg ++ ip) (69 :: (esg ++ ed)), drop_pre1 (sg ++ ip) 69 (esg ++ ed)]
        simp [realText, exText]
      · rw [ht]
        have := parse_dotless sg ip 69 (some (esg, ed)) hsg hip1 hip (Or.inl rfl) hex
        simpa using this
  · -- a decimal point was printed: unchanged
    have hyes : (ops.fmtG15 v).contains 46 = true := by
      rw [ht]; simp [List.contains_append]
    refine ⟨sg, ip, fp, ex, ?_, hsg, hip1, hip, hfp, hex, ?_⟩
    · simp only [writeReal, hyes, if_true]
      rw [ht]; simp [realText]
    · rw [ht]
      have := parse_realText sg ip fp 69 ex hsg hip1 hip hfp (Or.inl rfl) hex
      simpa [realText] using this


/-! ### STRING: the quote-parity automaton and the string grammar -/
theorem litLoop_plain (srev : List Byte) (c : Byte) (r : List Byte) (hc : c ≠ 39) :
    litLoop srev true (c :: r) = litLoop (c :: srev) true r := by
  have : (c == 39) = false := by simpa using hc
  simp [litLoop, this]

theorem litLoop_run (srev run r : List Byte) (h : ∀ b ∈ run, b ≠ 39) :
    litLoop srev true (run ++ r) = litLoop (run.reverse ++ srev) true r := by
  induction run generalizing srev with
  | nil => rfl
  | cons a u ih =>
    have ha : a ≠ 39 := h a (by simp)
    simp only [List.cons_append]
    rw [litLoop_plain _ _ _ ha, ih _ (fun b hb => h b (by simp [hb]))]
    simp

theorem litLoop_quote (srev : List Byte) (esc : Bool) (r : List Byte) :
    litLoop srev esc (39 :: r) = litLoop (39 :: srev) (if endsWithSEsc srev then esc else !esc) r := by
  simp [litLoop]

theorem nonq_ne (c : Byte) (h : isNonQ c = true) : c ≠ 39 ∧ c ≠ 92 := by
  constructor <;> (intro e; subst e; revert h; decide)

theorem hex_ne (c : Byte) (h : isHexP21 c = true) : c ≠ 39 ∧ c ≠ 92 := by
  simp [isHexP21, isDigit] at h
  constructor <;> (intro e; subst e; revert h; decide)

theorem upper_ne (c : Byte) (h : isUpperP21 c = true) : c ≠ 39 ∧ c ≠ 92 := by
  constructor <;> (intro e; subst e; revert h; decide)

/-- the quote-parity automaton passes over every body of the string grammar with `allDelimsEscaped` back to true, and
    never ends a unit on the characters `\S\` -/
theorem litLoop_body (b : List Byte) (hb : StringBody b) (srev r : List Byte) (hinv : endsWithSEsc srev = false) :
    litLoop srev true (b ++ r) = litLoop (b.reverse ++ srev) true r ∧ endsWithSEsc (b.reverse ++ srev) = false := by
  induction hb generalizing srev with
  | nil => exact ⟨rfl, hinv⟩
  | @nonq c m hc _ ih =>
    obtain ⟨h1, h2⟩ := nonq_ne c hc
    have hinv' : endsWithSEsc (c :: srev) = false := by
      unfold endsWithSEsc; split
      · rename_i heq; simp at heq; exact absurd heq.1 h2
      · rfl
    obtain ⟨e1, e2⟩ := ih (c :: srev) hinv'
    refine ⟨?_, by simpa using e2⟩
    simp only [List.cons_append]
    rw [litLoop_plain _ _ _ h1, e1]; simp
  | @apos m _ ih =>
    have hinv' : endsWithSEsc (39 :: 39 :: srev) = false := rfl
    obtain ⟨e1, e2⟩ := ih (39 :: 39 :: srev) hinv'
    refine ⟨?_, by simpa using e2⟩
    simp only [List.cons_append]
    rw [litLoop_quote, hinv, litLoop_quote]
    simp only [Bool.false_eq_true, if_false, Bool.not_true, Bool.not_false]
    have : endsWithSEsc (39 :: srev) = false := rfl
    rw [this]
    simp only [Bool.false_eq_true, if_false, Bool.not_false]
    rw [e1]; simp
  | @backslash m _ ih =>
    have hinv' : endsWithSEsc (92 :: 92 :: srev) = false := rfl
    obtain ⟨e1, e2⟩ := ih (92 :: 92 :: srev) hinv'
    refine ⟨?_, by simpa using e2⟩
    simp only [List.cons_append]
    rw [litLoop_plain _ _ _ (by decide), litLoop_plain _ _ _ (by decide), e1]; simp
  | @page c m hc _ ih =>
    have hinv' : endsWithSEsc (c :: 92 :: 83 :: 92 :: srev) = false := by
      unfold endsWithSEsc; split
      · rename_i heq; simp at heq
      · rfl
    obtain ⟨e1, e2⟩ := ih (c :: 92 :: 83 :: 92 :: srev) hinv'
    refine ⟨?_, by simpa using e2⟩
    simp only [List.cons_append]
    rw [litLoop_plain _ _ _ (by decide), litLoop_plain _ _ _ (by decide), litLoop_plain _ _ _ (by decide)]
    by_cases hq : c = 39
    · subst hq
      rw [litLoop_quote]
      have : endsWithSEsc (92 :: 83 :: 92 :: srev) = true := rfl
      rw [this]; simp only [if_true]
      rw [e1]; simp
    · rw [litLoop_plain _ _ _ hq, e1]; simp
  | @alphabet u m hu _ ih =>
    obtain ⟨h1, _⟩ := upper_ne u hu
    have hinv' : endsWithSEsc (92 :: u :: 80 :: 92 :: srev) = false := by
      unfold endsWithSEsc; split
      · rename_i heq; simp at heq
      · rfl
    obtain ⟨e1, e2⟩ := ih (92 :: u :: 80 :: 92 :: srev) hinv'
    refine ⟨?_, by simpa using e2⟩
    simp only [List.cons_append]
    rw [litLoop_plain _ _ _ (by decide), litLoop_plain _ _ _ (by decide), litLoop_plain _ _ _ h1,
      litLoop_plain _ _ _ (by decide), e1]; simp
  | @arbitrary h1 h2 m hh1 hh2 _ ih =>
    obtain ⟨a1, _⟩ := hex_ne h1 hh1
    obtain ⟨a2, a3⟩ := hex_ne h2 hh2
    have hinv' : endsWithSEsc (h2 :: h1 :: 92 :: 88 :: 92 :: srev) = false := by
      unfold endsWithSEsc; split
      · rename_i heq; simp at heq; exact absurd heq.1 a3
      · rfl
    obtain ⟨e1, e2⟩ := ih (h2 :: h1 :: 92 :: 88 :: 92 :: srev) hinv'
    refine ⟨?_, by simpa using e2⟩
    simp only [List.cons_append]
    rw [litLoop_plain _ _ _ (by decide), litLoop_plain _ _ _ (by decide), litLoop_plain _ _ _ (by decide),
      litLoop_plain _ _ _ a1, litLoop_plain _ _ _ a2, e1]; simp
  | @extended w hs m hw hhs _ ih =>
    have hw39 : w ≠ 39 := by rcases hw with rfl | rfl <;> decide
    have hrun : ∀ b ∈ hs, b ≠ 39 := fun b hb => (hex_ne b (List.all_eq_true.mp hhs b hb)).1
    have hinv' : endsWithSEsc (92 :: 48 :: 88 :: 92 :: (hs.reverse ++ (92 :: w :: 88 :: 92 :: srev))) = false := by
      unfold endsWithSEsc; split
      · rename_i heq; simp at heq
      · rfl
    obtain ⟨e1, e2⟩ := ih _ hinv'
    refine ⟨?_, by simpa using e2⟩
    simp only [List.cons_append]
    rw [litLoop_plain _ _ _ (by decide), litLoop_plain _ _ _ (by decide), litLoop_plain _ _ _ hw39,
      litLoop_plain _ _ _ (by decide), List.append_assoc, litLoop_run _ hs _ hrun]
    simp only [List.cons_append]
    rw [litLoop_plain _ _ _ (by decide), litLoop_plain _ _ _ (by decide), litLoop_plain _ _ _ (by decide),
      litLoop_plain _ _ _ (by decide), e1]; simp

theorem hexRun_spec (n : Nat) (fuel : Nat) (l r' : List Byte) (h : hexRun n fuel l = some r') :
    ∃ hs, l = hs ++ 92 :: 88 :: 48 :: 92 :: r' ∧ hs.all isHexP21 = true := by
  induction fuel generalizing l with
  | zero => simp [hexRun] at h
  | succ f ih =>
    unfold hexRun at h
    split at h
    · rename_i r
      simp only [Option.some.injEq] at h; subst h
      exact ⟨[], rfl, rfl⟩
    · have htd : l = l.take n ++ l.drop n := (List.take_append_drop n l).symm
      by_cases hu : ((l.take n).length == n && (l.take n).all isHexP21) = true
      · simp only [hu, if_true] at h
        simp only [Bool.and_eq_true, beq_iff_eq] at hu
        split at h
        · rename_i r heq
          simp only [Option.some.injEq] at h; subst h
          exact ⟨l.take n, by rw [← heq]; exact htd, hu.2⟩
        · obtain ⟨hs, e1, e2⟩ := ih _ h
          refine ⟨l.take n ++ hs, ?_, by simp [hu.2, e2]⟩
          rw [List.append_assoc, ← e1]; exact htd
      · have hu' : ((l.take n).length == n && (l.take n).all isHexP21) = false := by simpa using hu
        simp only [hu', Bool.false_eq_true, if_false] at h
        cases h

/-- soundness of the executable recogniser: what `stringBody` accepts up to the closing apostrophe is a `StringBody` -/
theorem stringBody_sound (fuel : Nat) (l rest : List Byte) (h : stringBody fuel l = some rest) :
    ∃ b, l = b ++ 39 :: rest ∧ StringBody b := by
  induction fuel generalizing l with
  | zero => simp [stringBody] at h
  | succ f ih =>
    unfold stringBody at h
    split at h
    · obtain ⟨b, e, hb⟩ := ih _ h
      exact ⟨39 :: 39 :: b, by simp [e], .apos hb⟩
    · simp only [Option.some.injEq] at h; subst h
      exact ⟨[], rfl, .nil⟩
    · obtain ⟨b, e, hb⟩ := ih _ h
      exact ⟨92 :: 92 :: b, by simp [e], .backslash hb⟩
    · split at h
      · rename_i hc
        obtain ⟨b, e, hb⟩ := ih _ h
        exact ⟨92 :: 83 :: 92 :: _ :: b, by simp [e], .page hc hb⟩
      · cases h
    · split at h
      · rename_i hu
        obtain ⟨b, e, hb⟩ := ih _ h
        exact ⟨92 :: 80 :: _ :: 92 :: b, by simp [e], .alphabet hu hb⟩
      · cases h
    · split at h
      · rename_i hh
        simp only [Bool.and_eq_true] at hh
        obtain ⟨b, e, hb⟩ := ih _ h
        exact ⟨92 :: 88 :: 92 :: _ :: _ :: b, by simp [e], .arbitrary hh.1 hh.2 hb⟩
      · cases h
    · split at h
      · rename_i r' hrun
        split at h
        · obtain ⟨hs, e1, e2⟩ := hexRun_spec _ _ _ _ hrun
          obtain ⟨b, e, hb⟩ := ih _ h
          exact ⟨92 :: 88 :: 50 :: 92 :: (hs ++ 92 :: 88 :: 48 :: 92 :: b), by simp [e1, e], .extended (Or.inl rfl) e2 hb⟩
        · cases h
      · cases h
    · split at h
      · rename_i r' hrun
        split at h
        · obtain ⟨hs, e1, e2⟩ := hexRun_spec _ _ _ _ hrun
          obtain ⟨b, e, hb⟩ := ih _ h
          exact ⟨92 :: 88 :: 52 :: 92 :: (hs ++ 92 :: 88 :: 48 :: 92 :: b), by simp [e1, e], .extended (Or.inr rfl) e2 hb⟩
        · cases h
      · cases h
    · split at h
      · rename_i hc
        obtain ⟨b, e, hb⟩ := ih _ h
        exact ⟨_ :: b, by simp [e], .nonq hc hb⟩
      · cases h
    · cases h

/-- every token `isString` accepts is an apostrophe, a `StringBody`, an apostrophe -/
theorem isString_body (t : List Byte) (h : isString t = true) : ∃ b, t = 39 :: (b ++ [39]) ∧ StringBody b := by
  unfold isString at h
  split at h
  · rename_i r
    have : stringBody (r.length + 1) r = some [] := by simpa using h
    obtain ⟨b, e, hb⟩ := stringBody_sound _ _ _ this
    exact ⟨b, by rw [e], hb⟩
  · cases h

/-! ### accept helpers -/
/-- the longest prefix of `p`-characters is unique -/
theorem prefix_unique (p : Byte → Bool) (w w' rest rest' : List Byte) (h : w ++ rest = w' ++ rest')
    (hw : w.all p = true) (hw' : w'.all p = true)
    (hr : rest = [] ∨ ∃ c t, rest = c :: t ∧ p c = false) (hr' : rest' = [] ∨ ∃ c t, rest' = c :: t ∧ p c = false) :
    w = w' ∧ rest = rest' := by
  induction w generalizing w' with
  | nil =>
    cases w' with
    | nil => exact ⟨rfl, by simpa using h⟩
    | cons a u =>
      exfalso
      simp only [List.all_cons, Bool.and_eq_true] at hw'
      rcases hr with rfl | ⟨c, t, rfl, hc⟩
      · simp at h
      · simp at h; rw [h.1] at hc; rw [hw'.1] at hc; cases hc
  | cons a u ih =>
    simp only [List.all_cons, Bool.and_eq_true] at hw
    cases w' with
    | nil =>
      exfalso
      rcases hr' with rfl | ⟨c, t, rfl, hc⟩
      · simp at h
      · simp at h; rw [← h.1] at hc; rw [hw.1] at hc; cases hc
    | cons a' u' =>
      simp only [List.all_cons, Bool.and_eq_true] at hw'
      simp only [List.cons_append, List.cons.injEq] at h
      obtain ⟨e1, e2⟩ := ih u' h.2 hw.2 hw'.2
      exact ⟨by rw [h.1, e1], e2⟩


theorem binaryBody_eq (t b : List Byte) (h : binaryBody t = some b) : t = 34 :: (b ++ [34]) := by
  unfold binaryBody at h
  split at h
  · rename_i r
    split at h
    · rename_i br heq
      simp only [Option.some.injEq] at h; subst h
      have : r = (34 :: br).reverse := by rw [← heq]; simp
      rw [this]; simp
    · cases h
  · cases h


theorem extractInt32_of_scan (l : List Byte) (c : Byte) (t : List Byte) (res : IntResult) (l' r' : List Byte)
    (hc : isSpace c = false) (hs : scanInt longMin longMax l (c :: t) = (res, l', r'))
    (h1 : ¬ res.value < intMin) (h2 : ¬ res.value > intMax) :
    IStream.extractInt32 { left := l, right := c :: t, eof := false, fail := false, bad := false, skipws := true } =
      (some res.value, { left := l', right := r', eof := r'.isEmpty, fail := res.fail, bad := false, skipws := true }) := by
  simp [IStream.extractInt32, IStream.sentry, IStream.good, dropSpaces_nonspace _ _ _ hc, hs, h1, h2]


end StepModel.P21.Lemmas

import StepModel.P21.ReaderLemmas18
/-! The `skipws` flag through an externally mapped record (kept or cleared, so it stays off in a data section), and the
loops of both passes over abstract records with `skipws` off before and after every record. -/
namespace StepModel.P21.RLemmas
open StepModel StepModel.IStream StepModel.P21 StepModel.P21.Lemmas StepModel.P21.Grammar

variable {F : Type}

/-- the part's parameter list is read by `SDAI_Application_instance::STEPread` (own attributes of the part's entity)
    without a message, wherever it stands; the `skipws` flag is kept or cleared -/
def CPartOKF (env : Env F) (strict : Bool) (c : CPart F) : Prop :=
  isAlpha c.n0 = true ∧ c.ns.all kwc = true ∧ c.sA.all isSpace = true ∧ c.sB.all isSpace = true ∧
  ∃ ed, env.dict.entity? c.name = some ed ∧
    ∀ (l : List Byte) (sk : Bool) (rest : List Byte),
      ∃ sk', (sk' = sk ∨ sk' = false) ∧ instSTEPread env strict ed.ownAttrs (G l (40 :: (c.body ++ rest)) sk) =
        .ok ⟨.null, c.vals, G ((40 :: c.body).reverse ++ l) rest sk', .null⟩


theorem complexLoop_parts_flag (env : Env F) (strict : Bool) (head : String) (cs : List (CPart F)) (hok : ∀ c ∈ cs, CPartOKF env strict c) :
    ∀ (fuel : Nat) (ps : List (MPart F)) (l : List Byte) (sk : Bool) (rest : List Byte),
      cs.length + 1 ≤ fuel → (∀ c ∈ cs, c.name ∈ ps.map (·.name)) →
      ∃ l' sk', (sk' = sk ∨ sk' = false) ∧ complexLoop env strict head fuel .null .null ps (G l (renderCParts cs ++ 41 :: rest) sk) =
        .ok ⟨.null, cs.foldl (fun ps c => setPart ps c.name c.vals) ps, G l' rest sk'⟩ := by
  induction cs with
  | nil =>
    intro fuel ps l sk rest hf _
    match fuel, hf with
    | n + 1, _ =>
      refine ⟨41 :: l, sk, Or.inl rfl, ?_⟩
      unfold complexLoop
      simp only [renderCParts, List.nil_append, peekC_good, beq_self_eq_true, if_true, getInto_good, pure, Except.pure]
      cases env.cfg.complexMergesParts <;> cases env.cfg.complexMergesAttrErrors <;> rfl
  | cons c cs ih =>
    intro fuel ps l sk rest hf hnames
    obtain ⟨hn0, hns, hsA, hsB, ed, hent, hrd⟩ := hok c (by simp)
    obtain ⟨hn0s, _, _, _, _, _, _, hn0k, _⟩ := alpha_facts hn0
    have hn041 : (c.n0 == 41) = false := by
      have : c.n0 ≠ 41 := by intro h; rw [h] at hn0; exact absurd hn0 (by decide)
      simpa using this
    match fuel, hf with
    | n + 1, hf =>
      obtain ⟨y, yr, hYe, hyk⟩ : ∃ y yr, c.sA ++ 40 :: (c.body ++ c.sB ++ (renderCParts cs ++ 41 :: rest)) = y :: yr ∧ kwc y = false :=
        seps_then c.sA (Seps.blanks _ hsA) 40 _ (fun c => kwc c = false) (fun c h => space_not_kwc h) (by decide) (by decide)
      have hkw : (c.n0 :: c.ns).all kwc = true := by simp only [List.all_cons, hn0k, Bool.true_and]; exact hns
      obtain ⟨p0, hp0⟩ := find?_name_isSome ps c.name (hnames c (by simp))
      obtain ⟨sk1, hsk1, hr⟩ := hrd (c.sA.reverse ++ ((c.n0 :: c.ns).reverse ++ l)) sk (c.sB ++ (renderCParts cs ++ 41 :: rest))
      -- the stream after the part and the blanks behind it starts the next part or is at the closing parenthesis
      obtain ⟨z, zr, hZ, hzs⟩ : ∃ z zr, renderCParts cs ++ 41 :: rest = z :: zr ∧ isSpace z = false := by
        cases cs with
        | nil => exact ⟨41, rest, rfl, by decide⟩
        | cons c2 cs2 =>
          obtain ⟨h2, _⟩ := hok c2 (by simp)
          exact ⟨c2.n0, _, rfl, (alpha_facts h2).1⟩
      obtain ⟨l', sk', hsk', hrec⟩ := ih (fun x hx => hok x (by simp [hx])) n (setPart ps c.name c.vals)
        (c.sB.reverse ++ ((40 :: c.body).reverse ++ (c.sA.reverse ++ ((c.n0 :: c.ns).reverse ++ l)))) sk1 rest
        (by simp only [List.length_cons] at hf; omega)
        (by intro x hx; rw [setPart_names]; exact hnames x (by simp [hx]))
      refine ⟨l', sk', (by
        rcases hsk' with h | h
        · rcases hsk1 with h1 | h1
          · exact Or.inl (h.trans h1)
          · exact Or.inr (h.trans h1)
        · exact Or.inr h), ?_⟩
      have etext : renderCParts (c :: cs) ++ 41 :: rest =
          c.n0 :: (c.ns ++ (c.sA ++ 40 :: (c.body ++ c.sB ++ (renderCParts cs ++ 41 :: rest)))) := by
        simp [renderCParts, CPart.text]
      rw [etext]
      unfold complexLoop
      simp only [peekC_good, hn041, Bool.false_eq_true, if_false, bind, Except.bind, pure, Except.pure]
      rw [show (G l (c.n0 :: (c.ns ++ (c.sA ++ 40 :: (c.body ++ c.sB ++ (renderCParts cs ++ 41 :: rest))))) sk).ws = _
        from ws_good0 l c.n0 _ sk hn0s]
      have ekw : readStdKeyword (G l (c.n0 :: (c.ns ++ (c.sA ++ 40 :: (c.body ++ c.sB ++ (renderCParts cs ++ 41 :: rest))))) sk) =
          (c.n0 :: c.ns, G ((c.n0 :: c.ns).reverse ++ l) (c.sA ++ 40 :: (c.body ++ c.sB ++ (renderCParts cs ++ 41 :: rest))) sk) := by
        rw [hYe]; exact readStdKeyword_spec c.n0 c.ns hkw hn0s y hyk l yr sk
      rw [ekw]
      simp only
      rw [show (G ((c.n0 :: c.ns).reverse ++ l) (c.sA ++ 40 :: (c.body ++ c.sB ++ (renderCParts cs ++ 41 :: rest))) sk).ws =
        G (c.sA.reverse ++ ((c.n0 :: c.ns).reverse ++ l)) (40 :: (c.body ++ c.sB ++ (renderCParts cs ++ 41 :: rest))) sk
        from ws_good _ c.sA 40 _ sk hsA (by decide)]
      rw [peekC_good]
      simp only [bne_self_eq_false, Bool.false_eq_true, if_false]
      rw [show bytesToString (upperBytes (c.n0 :: c.ns)) = c.name from rfl, hp0, hent]
      simp only
      have e2 : c.body ++ c.sB ++ (renderCParts cs ++ 41 :: rest) = c.body ++ (c.sB ++ (renderCParts cs ++ 41 :: rest)) := by simp
      rw [e2, hr]
      simp only
      rw [hZ, show (G ((40 :: c.body).reverse ++ (c.sA.reverse ++ ((c.n0 :: c.ns).reverse ++ l))) (c.sB ++ z :: zr) sk1).ws =
        G (c.sB.reverse ++ ((40 :: c.body).reverse ++ (c.sA.reverse ++ ((c.n0 :: c.ns).reverse ++ l)))) (z :: zr) sk1
        from ws_good _ c.sB z zr sk1 hsB hzs, ← hZ]
      by_cases hh : (c.name == head) = true
      · simp only [hh, if_true, hrec, List.foldl_cons]
      · have hh' : (c.name == head) = false := by simpa using hh
        simp only [hh', Bool.false_eq_true, if_false, List.foldl_cons]
        rw [show Sev.null.greater (if env.cfg.complexMergesParts = true then Sev.null else Sev.null) = Sev.null from by
          cases env.cfg.complexMergesParts <;> rfl, hrec]


/-- `STEPcomplex::STEPread` on `( blanks PART(…) blanks PART(…) … )`: every part's values are set, no message -/
theorem complexSTEPread_parts_flag (env : Env F) (strict : Bool) (ps : List (MPart F)) (cs : List (CPart F))
    (hok : ∀ c ∈ cs, CPartOKF env strict c) (hnames : ∀ c ∈ cs, c.name ∈ ps.map (·.name))
    (sp0 : List Byte) (hsp0 : sp0.all isSpace = true) (l : List Byte) (sk : Bool) (rest : List Byte) :
    ∃ l' sk', (sk' = sk ∨ sk' = false) ∧ complexSTEPread env strict ps (G l (40 :: (sp0 ++ (renderCParts cs ++ 41 :: rest))) sk) =
      .ok ⟨.null, cs.foldl (fun ps c => setPart ps c.name c.vals) ps, G l' rest sk'⟩ := by
  obtain ⟨z, zr, hZ, hzs⟩ : ∃ z zr, renderCParts cs ++ 41 :: rest = z :: zr ∧ isSpace z = false := by
    cases cs with
    | nil => exact ⟨41, rest, rfl, by decide⟩
    | cons c2 cs2 =>
      obtain ⟨h2, _⟩ := hok c2 (by simp)
      exact ⟨c2.n0, _, rfl, (alpha_facts h2).1⟩
  have hws : (G (40 :: l) (sp0 ++ (renderCParts cs ++ 41 :: rest)) sk).ws =
      G (sp0.reverse ++ 40 :: l) (renderCParts cs ++ 41 :: rest) sk := by
    rw [hZ]; exact ws_good _ sp0 z zr sk hsp0 hzs
  have hfuel : cs.length + 1 ≤ (G (40 :: l) (sp0 ++ (renderCParts cs ++ 41 :: rest)) sk).right.length + 3 := by
    have := renderCParts_length cs
    show cs.length + 1 ≤ (sp0 ++ (renderCParts cs ++ 41 :: rest)).length + 3
    simp only [List.length_append, List.length_cons]; omega
  unfold complexSTEPread
  rw [show (G l (40 :: (sp0 ++ (renderCParts cs ++ 41 :: rest))) sk).ws = _ from ws_good0 l 40 _ sk (by decide)]
  simp only [bind, Except.bind, pure, Except.pure, getInto_good, beq_self_eq_true, if_true]
  rw [hws]
  exact complexLoop_parts_flag env strict _ cs hok _ ps _ sk rest hfuel hnames


/-- `readInstance_crec` with the `skipws` flag kept or cleared -/
theorem readInstance_crec_flag (ops : FloatOps F) (lex : LexCfg) (cfg : RWCfg) (d : Dict) (strict : Bool) (st : P2 F)
    (hrep : cfg.complexReportsError = true)
    (r : CRec F) (hlex : r.Lex) (l rest : List Byte) (sk : Bool) (hs : st.s = G l (r.text rest) sk)
    (inst : MInst F) (hfind : st.mgr.find? r.id = some inst) (hnew : inst.state = .new) (hcx : inst.complex = true)
    (hok : ∀ c ∈ r.parts, CPartOKF { ops := ops, lex := lex, cfg := cfg, dict := d, lookup := Mgr.lookup d st.mgr }
        (cfg.complexPartStrict.getD strict) c)
    (hnames : ∀ c ∈ r.parts, c.name ∈ inst.parts.map (·.name)) :
    ∃ l' sk', (sk' = sk ∨ sk' = false) ∧ readInstance ops lex cfg d strict st =
      .ok { s := G l' rest sk',
            inst := some { inst with parts := r.parts.foldl (fun ps c => setPart ps c.name c.vals) inst.parts, state := .complete },
            reported := some .null, left := some .null } := by
  obtain ⟨dne, ddig, dhi, h1, h2, h4, pne, hparts⟩ := hlex
  obtain ⟨c, u, hcu⟩ : ∃ c u, r.ds = c :: u := by
    cases hd : r.ds with
    | nil => exact absurd hd dne
    | cons c u => exact ⟨c, u, rfl⟩
  have hcd : isDigit c = true := by rw [hcu] at ddig; simp at ddig; exact ddig.1
  have hc47 : c ≠ 47 := by intro h; rw [h] at hcd; exact absurd hcd (by decide)
  let T1 := r.s1 ++ 61 :: (r.s2 ++ 40 :: (renderCParts r.parts ++ 41 :: (r.s4 ++ 59 :: rest)))
  obtain ⟨x, xr, hXe, hxd⟩ : ∃ x xr, T1 = x :: xr ∧ isDigit x = false :=
    seps_then r.s1 h1 61 _ (fun c => isDigit c = false) (fun c h => space_not_digit h) (by decide) (by decide)
  have e0 : readComment (G l (r.text rest) sk) = G l (r.text rest) sk := by
    unfold CRec.text; rw [hcu]; exact readComment_none l c _ sk (digit_not_space hcd) hc47
  have e1 : (G l (r.text rest) sk).extractInt32 = (some r.id, G (r.ds.reverse ++ l) T1 sk) := by
    unfold CRec.text; show (G l (r.ds ++ T1) sk).extractInt32 = _
    rw [hXe]; exact extractInt32_digits r.ds dne ddig dhi l x xr sk hxd
  have e2 : readTokenSeparator (G (r.ds.reverse ++ l) T1 sk) =
      G (r.s1.reverse ++ (r.ds.reverse ++ l)) (61 :: (r.s2 ++ 40 :: (renderCParts r.parts ++ 41 :: (r.s4 ++ 59 :: rest)))) sk :=
    readTokenSeparator_seps r.s1 h1 (r.ds.reverse ++ l) 61 _ sk (by decide) (by decide)
  have e3 : readTokenSeparator (G (61 :: (r.s1.reverse ++ (r.ds.reverse ++ l))) (r.s2 ++ 40 :: (renderCParts r.parts ++ 41 :: (r.s4 ++ 59 :: rest))) sk) =
      G (r.s2.reverse ++ 61 :: (r.s1.reverse ++ (r.ds.reverse ++ l))) (40 :: (renderCParts r.parts ++ 41 :: (r.s4 ++ 59 :: rest))) sk :=
    readTokenSeparator_seps r.s2 h2 _ 40 _ sk (by decide) (by decide)
  obtain ⟨l1, sk1, hsk1, hrd⟩ := complexSTEPread_parts_flag _ (cfg.complexPartStrict.getD strict) inst.parts r.parts hok hnames [] (by simp)
    (r.s2.reverse ++ 61 :: (r.s1.reverse ++ (r.ds.reverse ++ l))) sk (r.s4 ++ 59 :: rest)
  simp only [List.nil_append] at hrd
  unfold readInstance
  rw [hs, e0]
  simp only [e1, Option.getD_some, hfind, hnew, bne_self_eq_false, Bool.false_eq_true, if_false]
  rw [e2, getInto_good 0 _ 61 _ sk]
  simp only [bne_self_eq_false, Bool.false_eq_true, if_false]
  rw [e3, markStart_G]
  simp only
  rw [peekC_good]
  have e38 : ((40 : Byte) == 38) = false := by decide
  simp only [e38, Bool.false_eq_true, if_false, beq_self_eq_true, if_true, bind, Except.bind, pure, Except.pure, hcx, hrd]
  have e5 : readTokenSeparator (G l1 (r.s4 ++ 59 :: rest) sk1) = G (r.s4.reverse ++ l1) (59 :: rest) sk1 :=
    readTokenSeparator_seps r.s4 h4 l1 59 rest sk1 (by decide) (by decide)
  rw [e5, peekC_good]
  have e69 : ((59 : Byte) != 69) = true := by decide
  have enw : decide (Sev.null.toInt ≤ Sev.warning.toInt) = false := by decide
  cases hm : cfg.missingSemicolonReported <;>
    simp only [Bool.false_eq_true, if_false, if_true, beq_self_eq_true, e69, enw, Bool.and_false,
      shiftInto_good _ _ 59 rest sk1 (by decide), stateOf, hrep] <;>
    exact ⟨_, sk1, hsk1, rfl⟩


/-- pass 2 on the item with `skipws` off before and after (as it is in a data section), in any state whose manager holds the instance pass 1 made -/
def Item2OKF (ops : FloatOps F) (lex : LexCfg) (cfg : RWCfg) (d : Dict) (strict : Bool) (lk : Lookup) (x : Item F) : Prop :=
  Seps x.g ∧ x.mkI.id = x.id ∧ x.out.id = x.id ∧ keyOf x.out = keyOf x.mkI ∧
  ∀ (st : P2 F) (l : List Byte) (rest : List Byte),
    st.mgr.find? x.id = some x.mkI → Mgr.lookup d st.mgr = lk → st.s = G l (x.body ++ rest) false →
    ∃ l', readInstance ops lex cfg d strict st =
      .ok { s := G l' rest false, inst := some x.out, reported := some x.sev, left := some .null }


theorem readData2Loop_itemsF (ops : FloatOps F) (lex : LexCfg) (cfg : RWCfg) (d : Dict) (strict : Bool) (lk : Lookup)
    (sp tail : List Byte) (hsp : sp.all isSpace = true) :
    ∀ (xs : List (Item F)) (st : P2 F) (pre : List (MInst F)) (g0 l : List Byte) (fuel : Nat),
      Seps g0 → st.s = G l (g0 ++ renderItems xs (endsec sp tail)) false → xs.length + 2 ≤ fuel →
      st.mgr.insts = pre ++ xs.map (·.mkI) → (∀ i ∈ pre, ∀ x ∈ xs, i.id ≠ x.id) →
      (xs.map (·.id)).Nodup → Mgr.lookup d st.mgr = lk →
      (∀ x ∈ xs, Item2OKF ops lex cfg d strict lk x) →
      ∃ st', readData2Loop ops lex cfg d strict fuel st false = .ok st' ∧
        P2Items st st' (pre ++ xs.map (·.out)) xs tail := by
  intro xs
  induction xs with
  | nil =>
    intro st pre g0 l fuel hg0 hs hf hm _ _ _ _
    obtain ⟨l', h⟩ := readData2Loop_end ops lex cfg d strict st g0 l sp tail false hg0 hsp hs fuel (by simpa using hf)
    exact ⟨_, h, ⟨by simpa using hm, rfl, rfl, rfl, rfl, rfl, ⟨l', false, rfl⟩, by simp⟩⟩
  | cons x xs ih =>
    intro st pre g0 l fuel hg0 hs hf hm hfresh hnd hlk hok
    obtain ⟨hg, hmkid, hid0, hkey, hstep⟩ := hok x (by simp)
    have hid : x.out.id = x.mkI.id := by rw [hid0, hmkid]
    have hnd' : (xs.map (·.id)).Nodup := (List.nodup_cons.mp hnd).2
    have hrid : ∀ y ∈ xs, x.id ≠ y.id := by
      intro y hy heq
      exact (List.nodup_cons.mp hnd).1 (by show x.id ∈ _; rw [heq]; exact List.mem_map_of_mem (f := fun y : Item F => y.id) hy)
    have hmgr : st.mgr = { insts := pre ++ x.mkI :: xs.map (·.mkI) } :=
      Mgr.eq_of_insts _ _ hm
    have hpre : ∀ i ∈ pre, i.id ≠ (x.mkI).id := fun i hi => by rw [hmkid]; exact hfresh i hi x (by simp)
    have hpost : ∀ i ∈ xs.map (·.mkI), i.id ≠ (x.mkI).id := by
      intro i hi
      obtain ⟨y, hy, rfl⟩ := List.mem_map.mp hi
      obtain ⟨_, hymk, _⟩ := hok y (by simp [hy])
      rw [hymk, hmkid]
      exact fun h => hrid y hy h.symm
    match fuel, hf with
    | n + 1, hf =>
      obtain ⟨l1, hri⟩ := hstep
        { st with s := G (35 :: (g0.reverse ++ l)) (x.body ++ (x.g ++ renderItems xs (endsec sp tail))) false }
        _ _ (by show st.mgr.find? _ = _; rw [hmgr, ← hmkid]; exact find?_mid pre _ (x.mkI) hpre) hlk rfl
      have hupd : st.mgr.update x.out = { insts := pre ++ x.out :: xs.map (·.mkI) } := by
        rw [hmgr]; exact update_mid pre _ (x.mkI) x.out hid hpre hpost
      unfold readData2Loop
      rw [hs]
      simp only [G_good, Bool.not_false, Bool.and_self, if_true, bind, Except.bind, List.map_cons, renderItems]
      simp only [readTokenSeparator_seps g0 hg0 l 35 _ false (by decide) (by decide), shiftInto_good 0 _ 35 _ false (by decide),
        bne_self_eq_false, Bool.false_eq_true, if_false, pure, Except.pure]
      have hri' := hri
      try simp only [Step.rg] at hri'
      rw [hri']
      simp only
      have hap : applyOutcome st
          { s := G l1 (x.g ++ renderItems xs (endsec sp tail)) false, inst := some x.out,
            reported := some x.sev, left := some .null } =
          { st with mgr := st.mgr.update x.out, fileErr := appendEntityError st.fileErr x.sev, reported := x.sev :: st.reported,
                    s := G l1 (x.g ++ renderItems xs (endsec sp tail)) false, total := st.total + 1, valid := st.valid + 1 } := rfl
      have hap' := hap
      try simp only [Step.rg] at hap'
      rw [hap', hupd]
      rcases foundEndSec_gapI x.g hg xs sp tail hsp l1 false with ⟨hnil, l2, hfe⟩ | ⟨l2, t, ht, hfe⟩
      · have hfe' := hfe
        try simp only [Step.rg] at hfe'
        simp only [hfe']
        have hxs : xs = [] := by simpa using hnil
        subst hxs
        obtain ⟨m, rfl⟩ : ∃ m, n = m + 1 := ⟨n - 1, by simp only [List.length_cons] at hf; omega⟩
        unfold readData2Loop
        simp only [G_good, Bool.not_true, Bool.and_false, Bool.false_eq_true, if_false, pure, Except.pure]
        exact ⟨_, rfl, ⟨by simp, by simp [errAfterI], rfl, rfl, rfl, rfl, ⟨l2, false, rfl⟩, by simp⟩⟩
      · have hfe' := hfe
        try simp only [Step.rg] at hfe'
        simp only [hfe']
        obtain ⟨st', hrun, hdone⟩ := ih
          ({ st with mgr := { insts := pre ++ x.out :: xs.map (·.mkI) },
                     fileErr := appendEntityError st.fileErr x.sev, reported := x.sev :: st.reported,
                     s := G l2 (t ++ renderItems xs (endsec sp tail)) false, total := st.total + 1,
                     valid := st.valid + 1 } : P2 F)
          (pre ++ [x.out]) t l2 n ht rfl (by simp only [List.length_cons] at hf; omega) (by simp)
          (by
            intro i hi y hy
            simp only [List.mem_append, List.mem_singleton] at hi
            rcases hi with hi | rfl
            · exact hfresh i hi y (by simp [hy])
            · rw [hid0]; exact hrid y hy)
          hnd'
          (by
            rw [← hlk, hmgr]
            apply lookup_congr
            simp only [List.map_append, List.map_cons, hkey])
          (fun y hy => hok y (by simp [hy]))
        have hrun' := hrun
        try simp only [Step.rg] at hrun'
        refine ⟨st', hrun', ⟨?_, ?_, ?_, ?_, ?_, ?_, hdone.s, ?_⟩⟩
        · rw [hdone.mgr]; simp
        · rw [hdone.err]; simp [errAfterI]
        · rw [hdone.total]; simp only [List.length_cons]; omega
        · rw [hdone.valid]; simp only [List.length_cons]; omega
        · rw [hdone.invalid]
        · rw [hdone.incomplete]
        · rw [hdone.rep]; simp


theorem readDataSection_itemsF (ops : FloatOps F) (lex : LexCfg) (cfg : RWCfg) (hcfg : cfg.skipInstanceSkipsComments = true)
    (d : Dict) (strict : Bool) (sp tail : List Byte) (hsp : sp.all isSpace = true) (htail : TailOK tail)
    (xs : List (Item F)) (g0 : List Byte) (hg0 : Seps g0)
    (h1 : ∀ x ∈ xs, Item1OK cfg d x) (hnd : (xs.map (·.id)).Nodup)
    (h2 : ∀ x ∈ xs, Item2OKF ops lex cfg d strict
            (Mgr.lookup d ({ insts := xs.map (·.mkI) } : Mgr F)) x) :
    ∃ res, readDataSection ops lex cfg d strict false (g0 ++ renderItems xs (endsec sp tail)) = .ok res ∧
      res.mgr.insts = xs.map (·.out) ∧ res.sev = errAfterI .null xs ∧ res.created = xs.length ∧
      res.notCreated = 0 ∧ res.valid = xs.length ∧ res.invalid = 0 ∧
      res.reported = (xs.map (·.sev)).reverse := by
  obtain ⟨l1, hp1⟩ := readData1_items cfg hcfg d sp tail hsp xs g0 hg0 h1 hnd
  rw [readDataSection_eq]
  simp only [bind, Except.bind, hp1, Nat.lt_irrefl, gt_iff_lt, if_false, pure, Except.pure]
  have key : ∃ st', readData2Loop ops lex cfg d strict
      ((foundEndSec { right := g0 ++ renderItems xs (endsec sp tail), skipws := false }).2.right.length + 3)
      { mgr := { insts := xs.map (·.mkI) }, fileErr := .null, total := 0, valid := 0, invalid := 0, incomplete := 0,
        warnings := 0, s := (foundEndSec { right := g0 ++ renderItems xs (endsec sp tail), skipws := false }).2 }
      (foundEndSec { right := g0 ++ renderItems xs (endsec sp tail), skipws := false }).1 = .ok st' ∧
      st'.mgr.insts = xs.map (·.out) ∧ st'.fileErr = errAfterI .null xs ∧ st'.valid = xs.length ∧ st'.invalid = 0 ∧
      (∃ l' sk', st'.s = G l' tail sk') ∧ st'.reported = (xs.map (·.sev)).reverse := by
    rcases foundEndSec_gapI g0 hg0 xs sp tail hsp [] false with ⟨hnil, l2, hfe⟩ | ⟨l2, t, ht, hfe⟩
    · have hfe' : foundEndSec { right := g0 ++ renderItems xs (endsec sp tail), skipws := false } = (true, G l2 tail false) := hfe
      rw [hfe']
      have hxs : xs = [] := by simpa using hnil
      subst hxs
      refine ⟨({ mgr := { insts := [] }, fileErr := .null, total := 0, valid := 0, invalid := 0, incomplete := 0,
                 warnings := 0, s := G l2 tail false } : P2 F), ?_, ?_⟩
      · simp only
        unfold readData2Loop
        simp only [G_good, Bool.not_true, Bool.and_false, Bool.false_eq_true, if_false, pure, Except.pure]
        rfl
      · exact ⟨rfl, rfl, rfl, rfl, ⟨l2, false, rfl⟩, rfl⟩
    · have hfe' : foundEndSec { right := g0 ++ renderItems xs (endsec sp tail), skipws := false } =
          (false, G l2 (t ++ renderItems xs (endsec sp tail)) false) := hfe
      rw [hfe']
      obtain ⟨st', hrun, hdone⟩ := readData2Loop_itemsF ops lex cfg d strict
        (Mgr.lookup d ({ insts := xs.map (·.mkI) } : Mgr F)) sp tail hsp xs
        ({ mgr := { insts := xs.map (·.mkI) }, fileErr := .null, total := 0, valid := 0, invalid := 0, incomplete := 0,
           warnings := 0, s := G l2 (t ++ renderItems xs (endsec sp tail)) false } : P2 F) [] t l2
        ((t ++ renderItems xs (endsec sp tail)).length + 3) ht rfl
        (by have := renderItems_length xs (endsec sp tail); simp only [List.length_append, List.length_map] at this ⊢; omega)
        (by simp) (by intro i hi; simp at hi) hnd rfl h2
      refine ⟨st', hrun, ?_, hdone.err, ?_, hdone.invalid, hdone.s, ?_⟩
      · simpa using hdone.mgr
      · simpa using hdone.valid
      · simpa using hdone.rep
  obtain ⟨st', hrun, hm, herr, hv, hinv, hs, hrep⟩ := key
  rw [hrun]
  simp only
  obtain ⟨f1, f2, f3, f4, f5, f6, f7⟩ := finish_counts
    ({ mgr := { insts := xs.map (·.mkI) }, count := xs.length, notCreated := 0, s := G l1 tail false } : P1 F) st' tail htail hs hv hinv
  refine ⟨_, rfl, ?_, ?_, f3, f4, ?_, f6, ?_⟩
  · rw [f2, hm]
  · rw [f1, herr]
  · rw [f5, hv]
  · rw [f7, hrep]


theorem text_nil_append (r : Rec F) (rest : List Byte) : r.text [] ++ rest = r.text rest := by
  simp [Rec.text, Rec.t1, Rec.t2, Rec.t3, Rec.t4, List.append_assoc]

theorem ctext_nil_append (r : CRec F) (rest : List Byte) : r.text [] ++ rest = r.text rest := by
  simp [CRec.text, List.append_assoc]

theorem setParts_names (cs : List (CPart F)) : ∀ ps : List (MPart F),
    (cs.foldl (fun ps c => setPart ps c.name c.vals) ps).map (·.name) = ps.map (·.name) := by
  induction cs with
  | nil => intro ps; rfl
  | cons c cs ih => intro ps; simp only [List.foldl_cons]; rw [ih, setPart_names]

/-- every part whose keyword the dictionary knows is a part of the instance `CreateSubSuperInstance` makes -/
theorem mkCInst_names (d : Dict) (r : CRec F) (hknown : ∀ c ∈ r.parts, (d.entity? c.name).isSome = true) :
    ∀ c ∈ r.parts, c.name ∈ (mkCInst d r : MInst F).parts.map (·.name) := by
  intro c hc
  simp only [mkCInst, List.map_map, Function.comp_def, List.map_id']
  -- the part's name is known, so it survives the filter, and sorting keeps it
  have hmem : c.name ∈ (r.parts.map (·.name)).filter (fun n => (d.entity? n).isSome) :=
    List.mem_filter.mpr ⟨List.mem_map_of_mem (f := fun x : CPart F => x.name) hc, hknown c hc⟩
  have hsort : ∀ (ns : List String) (n : String), n ∈ ns → n ∈ sortNames ns := by
    intro ns
    induction ns with
    | nil => intro n h; cases h
    | cons x t ih =>
      intro n h
      have hins : ∀ (a : String) (l : List String) (b : String), b = a ∨ b ∈ l → b ∈ insertSorted a l := by
        intro a l
        induction l with
        | nil => intro b hb; rcases hb with rfl | hb <;> simp_all [insertSorted]
        | cons y u ihu =>
          intro b hb
          unfold insertSorted
          split
          · rcases hb with rfl | hb
            · simp
            · exact List.mem_cons_of_mem _ hb
          · rcases hb with rfl | hb
            · exact List.mem_cons_of_mem _ (ihu _ (Or.inl rfl))
            · rcases List.mem_cons.mp hb with rfl | hb
              · simp
              · exact List.mem_cons_of_mem _ (ihu _ (Or.inr hb))
      show n ∈ insertSorted x (sortNames t)
      rcases List.mem_cons.mp h with rfl | h
      · exact hins _ _ _ (Or.inl rfl)
      · exact hins _ _ _ (Or.inr (ih n h))
  exact hsort _ _ hmem

/-- the instance pass 2 leaves for an externally mapped record: the parts pass 1 made, each with the values of its tokens -/
def finCInstOf (d : Dict) (r : CRec F) : MInst F :=
  { mkCInst d r with parts := r.parts.foldl (fun ps c => setPart ps c.name c.vals) (mkCInst d r).parts, state := .complete }

end StepModel.P21.RLemmas

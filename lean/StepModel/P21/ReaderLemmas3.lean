import StepModel.P21.ReaderLemmas2
/-! Instance- and file-level lemmas for `Props/C01.lean` and `Props/C03.lean`: `ReadInstance` (pass 2) and
`CreateInstance` (pass 1) on one rendered record `#id = NAME ( parameters ) ;` with any layout of blanks and comments
between the tokens, and the loops of `ReadData1` / `ReadData2` over a list of such records up to `ENDSEC;`. -/
namespace StepModel.P21.RLemmas
open StepModel StepModel.IStream StepModel.P21 StepModel.P21.Lemmas StepModel.P21.Grammar

variable {F : Type}

/-! ## small scanners -/

/-- a separator sequence is blanks followed by nothing or by a sequence that starts with a comment -/
theorem Seps.split {seps : List Byte} (hs : Seps seps) :
    ∃ sp t, seps = sp ++ t ∧ sp.all isSpace = true ∧ Seps t ∧ (t = [] ∨ ∃ u, t = 47 :: u) := by
  cases hs with
  | blanks _ hsp => exact ⟨seps, [], by simp, hsp, Seps.blanks [] (by simp), Or.inl rfl⟩
  | comment sp body t hsp hb ht =>
    exact ⟨sp, 47 :: 42 :: (body ++ 42 :: 47 :: t), by simp, hsp,
      by simpa using Seps.comment [] body t (by simp) hb ht, Or.inr ⟨_, rfl⟩⟩

/-- the first byte of `seps ++ x :: rest` is a blank, `/`, or `x` -/
theorem seps_head (seps : List Byte) (hs : Seps seps) (x : Byte) (rest : List Byte) :
    ∃ c u, seps ++ x :: rest = c :: u ∧ (isSpace c = true ∨ c = 47 ∨ c = x) := by
  cases hs with
  | blanks _ hsp =>
    cases seps with
    | nil => exact ⟨x, rest, rfl, Or.inr (Or.inr rfl)⟩
    | cons y sp' =>
      have : isSpace y = true := by simp at hsp; exact hsp.1
      exact ⟨y, sp' ++ x :: rest, rfl, Or.inl this⟩
  | comment sp body t hsp hb ht =>
    cases sp with
    | nil => exact ⟨47, _, rfl, Or.inr (Or.inl rfl)⟩
    | cons y sp' =>
      have : isSpace y = true := by simp at hsp; exact hsp.1
      exact ⟨y, _, rfl, Or.inl this⟩

/-- `ReadComment` where no comment starts -/
theorem readComment_none (l : List Byte) (c : Byte) (t : List Byte) (sk : Bool) (hc : isSpace c = false) (h47 : c ≠ 47) :
    readComment (G l (c :: t) sk) = G l (c :: t) sk := by
  unfold readComment
  rw [show (G l (c :: t) sk).ws = G l (c :: t) sk from ws_good0 l c t sk hc]
  simp only
  rw [shiftInto_good 0 l c t sk hc]
  have : (c == 47) = false := by simp [h47]
  simp only [this, Bool.false_eq_true, if_false]
  exact putback_good c l t sk

/-- `in >> int` on unsigned digits (value within `int`) followed by a non-digit -/
theorem extractInt32_digits (ds : List Byte) (hne : ds ≠ []) (hds : ds.all isDigit = true)
    (hhi : ((digitsVal ds 0 : Nat) : Int) ≤ intMax) (l : List Byte) (x : Byte) (r : List Byte) (sk : Bool)
    (hx : isDigit x = false) :
    IStream.extractInt32 (G l (ds ++ x :: r) sk) = (some ((digitsVal ds 0 : Nat) : Int), G (ds.reverse ++ l) (x :: r) sk) := by
  have hint : isInteger ds = true := isInteger_unsigned ds hne hds
  have hscan := scanInt_token longMin longMax l ds (x :: r) hint (Or.inr ⟨x, r, rfl, hx⟩)
  have hss : splitSign ds = (false, ds) := splitSign_digits ds hne hds
  have hden : denoteInteger ds = ((digitsVal ds 0 : Nat) : Int) := by simp [denoteInteger, hss]
  obtain ⟨c, u, hcu⟩ : ∃ c u, ds = c :: u := by
    cases ds with
    | nil => exact absurd rfl hne
    | cons c u => exact ⟨c, u, rfl⟩
  have hcd : isDigit c = true := by rw [hcu] at hds; simp at hds; exact hds.1
  have hcs : isSpace c = false := digit_not_space hcd
  have hscan' : scanInt longMin longMax l (c :: (u ++ x :: r)) =
      (⟨((digitsVal ds 0 : Nat) : Int), false⟩, ds.reverse ++ l, x :: r) := by
    have := hscan
    rw [hcu] at this
    simp only [List.cons_append] at this
    rw [this, ← hcu, hss, hden]
    have h2 : ¬ ((digitsVal ds 0 : Nat) : Int) > longMax := by
      have : intMax ≤ longMax := by decide
      omega
    simp [h2]
  have hnn : ¬ ((digitsVal ds 0 : Nat) : Int) < intMin := by
    have : intMin ≤ 0 := by decide
    omega
  have hnh : ¬ ((digitsVal ds 0 : Nat) : Int) > intMax := by omega
  have hstream : G l (ds ++ x :: r) sk = G l (c :: (u ++ x :: r)) sk := by rw [hcu]; rfl
  rw [hstream, extractInt32_G l c _ sk hcs _ _ _ hscan' hnn hnh]
  rfl

/-- keyword characters -/
def kwc (x : Byte) : Bool := isAlnum x || x == 95

theorem kwLoop_spec (name : List Byte) (hname : name.all kwc = true) (x : Byte) (hx : kwc x = false) (r : List Byte) :
    ∀ (buf : List Byte) (c : Byte) (l : List Byte),
      kwLoop buf c l (name ++ x :: r) = (name.reverse ++ buf, x, x :: (name.reverse ++ l), r, false) := by
  induction name with
  | nil =>
    intro buf c l
    have : (isAlnum x || x == 95) = false := hx
    simp [kwLoop, this]
  | cons n ns ih =>
    intro buf c l
    have hn : (isAlnum n || n == 95) = true := by simp [kwc] at hname; simpa using hname.1
    have hns : ns.all kwc = true := by simp at hname ⊢; exact hname.2
    simp only [List.cons_append, kwLoop, hn, if_true]
    rw [ih hns]
    simp

/-- `ReadStdKeyword` on a keyword followed by a non-keyword character -/
theorem readStdKeyword_spec (n0 : Byte) (ns : List Byte) (hname : (n0 :: ns).all kwc = true) (hsp : isSpace n0 = false)
    (x : Byte) (hx : kwc x = false) (l r : List Byte) (sk : Bool) :
    readStdKeyword (G l ((n0 :: ns) ++ x :: r) sk) = (n0 :: ns, G ((n0 :: ns).reverse ++ l) (x :: r) sk) := by
  unfold readStdKeyword
  rw [show (G l ((n0 :: ns) ++ x :: r) sk).ws = G l ((n0 :: ns) ++ x :: r) sk from ws_good0 l n0 _ sk hsp]
  simp only [G_good, if_true]
  rw [kwLoop_spec (n0 :: ns) hname x hx r [] 0 l]
  simp only [List.append_nil, List.reverse_reverse]
  congr 1
  exact putback_good x _ r sk

theorem alpha_facts {c : Byte} (h : isAlpha c = true) :
    isSpace c = false ∧ c ≠ 47 ∧ c ≠ 38 ∧ c ≠ 40 ∧ c ≠ 33 ∧ c ≠ 35 ∧ isDigit c = false ∧ kwc c = true ∧ c ≠ 92 := by
  refine ⟨?_, ?_, ?_, ?_, ?_, ?_, ?_, ?_, ?_⟩ <;> simp [isSpace, isDigit, kwc, isAlnum, isAlpha, isUpper, isLower] at * <;> bomega

/-! ## one record -/

/-- `#` has been consumed: `id seps = seps NAME seps ( parameters ) seps ;` -/
structure Rec (F : Type) where
  ds : List Byte
  s1 : List Byte
  s2 : List Byte
  n0 : Byte
  ns : List Byte
  s3 : List Byte
  ps : List (Param F)
  s4 : List Byte

def Rec.id (r : Rec F) : Int := ((digitsVal r.ds 0 : Nat) : Int)
def Rec.name (r : Rec F) : String := bytesToString (upperBytes (r.n0 :: r.ns))
def Rec.t4 (r : Rec F) (rest : List Byte) : List Byte := r.s4 ++ 59 :: rest
def Rec.t3 (r : Rec F) (rest : List Byte) : List Byte := r.s3 ++ 40 :: (renderParams r.ps ++ r.t4 rest)
def Rec.t2 (r : Rec F) (rest : List Byte) : List Byte := r.s2 ++ r.n0 :: (r.ns ++ r.t3 rest)
def Rec.t1 (r : Rec F) (rest : List Byte) : List Byte := r.s1 ++ 61 :: r.t2 rest
def Rec.text (r : Rec F) (rest : List Byte) : List Byte := r.ds ++ r.t1 rest

/-- the lexical side conditions of a record -/
structure Rec.Lex (r : Rec F) : Prop where
  dne : r.ds ≠ []
  ddig : r.ds.all isDigit = true
  dhi : r.id ≤ intMax
  h1 : Seps r.s1
  h2 : Seps r.s2
  h3 : Seps r.s3
  h4 : Seps r.s4
  hn0 : isAlpha r.n0 = true
  hns : r.ns.all kwc = true
  pne : r.ps ≠ []

theorem seps_then (seps : List Byte) (hs : Seps seps) (x : Byte) (rest : List Byte) (P : Byte → Prop)
    (hsp : ∀ c, isSpace c = true → P c) (h47 : P 47) (hx : P x) : ∃ c u, seps ++ x :: rest = c :: u ∧ P c := by
  obtain ⟨c, u, h, hc⟩ := seps_head seps hs x rest
  refine ⟨c, u, h, ?_⟩
  rcases hc with hc | rfl | rfl
  · exact hsp c hc
  · exact h47
  · exact hx

theorem readTokenSeparator_none (l : List Byte) (c : Byte) (t : List Byte) (sk : Bool) (hc : isSpace c = false) (h47 : c ≠ 47)
    (h92 : c ≠ 92 := by decide) :
    readTokenSeparator (G l (c :: t) sk) = G l (c :: t) sk := by
  simpa using readTokenSeparator_seps [] (Seps.blanks [] (by simp)) l c t sk hc h47 h92

theorem space_not_kwc {c : Byte} (h : isSpace c = true) : kwc c = false := by
  simp [isSpace, kwc, isAlnum, isAlpha, isUpper, isLower, isDigit] at *; bomega

theorem markStart_G (cfg : RWCfg) (l r : List Byte) (sk : Bool) :
    markStart cfg (G l r sk) = (G l r sk, cfg.errorResyncsFromStart) := by
  unfold markStart
  cases cfg.errorResyncsFromStart <;> simp [G_good]

theorem readInstance_rec (ops : FloatOps F) (lex : LexCfg) (cfg : RWCfg) (d : Dict) (strict : Bool) (st : P2 F)
    (r : Rec F) (hlex : r.Lex) (l rest : List Byte) (sk : Bool) (hs : st.s = G l (r.text rest) sk)
    (inst : MInst F) (hfind : st.mgr.find? r.id = some inst) (hnew : inst.state = .new) (hcx : inst.complex = false)
    (p : MPart F) (hparts : inst.parts = [p]) (e : EntityD) (hent : d.entity? p.name = some e)
    (hattrs : e.attrs = r.ps.map (·.a))
    (hok : ∀ q ∈ r.ps, ParamOK { ops := ops, lex := lex, cfg := cfg, dict := d, lookup := Mgr.lookup d st.mgr } strict q) :
    ∃ l' sk', readInstance ops lex cfg d strict st =
      .ok { s := G l' rest sk', inst := some { inst with parts := [{ p with vals := r.ps.map (·.v) }], state := .complete },
            reported := some .null, left := some .null } := by
  obtain ⟨dne, ddig, dhi, h1, h2, h3, h4, hn0, hns, pne⟩ := hlex
  obtain ⟨hn0s, hn047, hn038, hn040, hn033, hn035, hn0d, hn0k, hn092⟩ := alpha_facts hn0
  obtain ⟨c, u, hcu⟩ : ∃ c u, r.ds = c :: u := by
    cases hd : r.ds with
    | nil => exact absurd hd dne
    | cons c u => exact ⟨c, u, rfl⟩
  have hcd : isDigit c = true := by rw [hcu] at ddig; simp at ddig; exact ddig.1
  have hc47 : c ≠ 47 := by intro h; rw [h] at hcd; exact absurd hcd (by decide)
  obtain ⟨x, xr, hXe, hxd⟩ : ∃ x xr, r.t1 rest = x :: xr ∧ isDigit x = false :=
    seps_then r.s1 h1 61 _ (fun c => isDigit c = false) (fun c h => space_not_digit h) (by decide) (by decide)
  have e0 : readComment (G l (r.text rest) sk) = G l (r.text rest) sk := by
    unfold Rec.text; rw [hcu]; exact readComment_none l c _ sk (digit_not_space hcd) hc47
  have e1 : (G l (r.text rest) sk).extractInt32 = (some r.id, G (r.ds.reverse ++ l) (r.t1 rest) sk) := by
    unfold Rec.text; rw [hXe]; exact extractInt32_digits r.ds dne ddig dhi l x xr sk hxd
  have e2 : readTokenSeparator (G (r.ds.reverse ++ l) (r.t1 rest) sk) = G (r.s1.reverse ++ (r.ds.reverse ++ l)) (61 :: r.t2 rest) sk :=
    readTokenSeparator_seps r.s1 h1 (r.ds.reverse ++ l) 61 _ sk (by decide) (by decide)
  have e3 : readTokenSeparator (G (61 :: (r.s1.reverse ++ (r.ds.reverse ++ l))) (r.t2 rest) sk) =
      G (r.s2.reverse ++ 61 :: (r.s1.reverse ++ (r.ds.reverse ++ l))) (r.n0 :: (r.ns ++ r.t3 rest)) sk :=
    readTokenSeparator_seps r.s2 h2 _ r.n0 _ sk hn0s hn047 hn092
  unfold readInstance
  rw [hs, e0]
  simp only [e1, Option.getD_some, hfind, hnew, bne_self_eq_false, Bool.false_eq_true, if_false]
  rw [e2, getInto_good 0 _ 61 _ sk]
  simp only [bne_self_eq_false, Bool.false_eq_true, if_false]
  rw [e3, markStart_G]
  simp only
  rw [peekC_good]
  have e38 : (r.n0 == 38) = false := by simp [hn038]
  have e40 : (r.n0 == 40) = false := by simp [hn040]
  have e33 : (r.n0 == 33) = false := by simp [hn033]
  simp only [e38, e40, Bool.false_eq_true, if_false, bind, Except.bind, pure, Except.pure]
  rw [readTokenSeparator_none _ r.n0 _ sk hn0s hn047 hn092, peekC_good]
  simp only [e33, Bool.false_eq_true, if_false]
  obtain ⟨y, yr, hYe, hyk⟩ : ∃ y yr, r.t3 rest = y :: yr ∧ kwc y = false :=
    seps_then r.s3 h3 40 _ (fun c => kwc c = false) (fun c h => space_not_kwc h) (by decide) (by decide)
  have hkw : (r.n0 :: r.ns).all kwc = true := by simp only [List.all_cons, hn0k, Bool.true_and]; exact hns
  have ekw : readStdKeyword (G (r.s2.reverse ++ 61 :: (r.s1.reverse ++ (r.ds.reverse ++ l))) (r.n0 :: (r.ns ++ r.t3 rest)) sk) =
      (r.n0 :: r.ns, G ((r.n0 :: r.ns).reverse ++ (r.s2.reverse ++ 61 :: (r.s1.reverse ++ (r.ds.reverse ++ l)))) (r.t3 rest) sk) := by
    rw [hYe]
    exact readStdKeyword_spec r.n0 r.ns hkw hn0s y hyk _ yr sk
  rw [ekw]
  simp only
  have e4 : readTokenSeparator (G ((r.n0 :: r.ns).reverse ++ (r.s2.reverse ++ 61 :: (r.s1.reverse ++ (r.ds.reverse ++ l)))) (r.t3 rest) sk) =
      G (r.s3.reverse ++ ((r.n0 :: r.ns).reverse ++ (r.s2.reverse ++ 61 :: (r.s1.reverse ++ (r.ds.reverse ++ l)))))
        (40 :: (renderParams r.ps ++ r.t4 rest)) sk :=
    readTokenSeparator_seps r.s3 h3 _ 40 _ sk (by decide) (by decide)
  rw [e4]
  obtain ⟨sk1, hrd⟩ := instSTEPread_params _ strict r.ps pne hok
    (r.s3.reverse ++ ((r.n0 :: r.ns).reverse ++ (r.s2.reverse ++ 61 :: (r.s1.reverse ++ (r.ds.reverse ++ l))))) sk (r.t4 rest)
  simp only [hcx, Bool.false_eq_true, if_false, hparts, hent, hattrs, hrd]
  have e5 : ∀ L, readTokenSeparator (G L (r.t4 rest) sk1) = G (r.s4.reverse ++ L) (59 :: rest) sk1 :=
    fun L => readTokenSeparator_seps r.s4 h4 L 59 rest sk1 (by decide) (by decide)
  rw [e5, peekC_good]
  have e69 : ((59 : Byte) != 69) = true := by decide
  have enw : decide (Sev.null.toInt ≤ Sev.warning.toInt) = false := by decide
  cases hm : cfg.missingSemicolonReported <;>
    simp only [Bool.false_eq_true, if_false, if_true, beq_self_eq_true, e69, enw, Bool.and_false,
      shiftInto_good _ _ 59 rest sk1 (by decide), stateOf] <;>
    exact ⟨_, sk1, rfl⟩

/-! ## `SkipInstance` over a record (pass 1) -/

theorem scanTo_mono1 (stop : Byte) (pb sc : Bool) : ∀ (fuel : Nat) (c : Byte) (s res : IStream),
    scanTo stop pb sc fuel c s = .ok res → scanTo stop pb sc (fuel + 1) c s = .ok res := by
  intro fuel
  induction fuel with
  | zero => intro c s res h; simp [scanTo] at h
  | succ n ih =>
    intro c s res h
    unfold scanTo at h ⊢
    cases hg : (!s.good)
    · simp only [hg, Bool.false_eq_true, if_false] at h ⊢
      generalize shiftInto c s = p at h ⊢
      obtain ⟨c1, s1⟩ := p
      simp only at h ⊢
      split
      · simp_all
      · rename_i h1
        simp only [h1] at h
        split
        · rename_i h2
          simp only [h2, if_true] at h
          generalize s1.peekC = q at h ⊢
          obtain ⟨p, s2⟩ := q
          simp only at h ⊢
          split
          · rename_i h3; simp only [h3, if_true] at h; exact ih _ _ _ h
          · rename_i h3; simp only [h3] at h; exact ih _ _ _ h
        · rename_i h2
          simp only [h2] at h
          split
          · rename_i h3; simp only [h3, if_true] at h; exact ih _ _ _ h
          · rename_i h3
            simp only [h3] at h
            split
            · rename_i h4; simp only [h4, if_true] at h; exact h
            · rename_i h4; simp only [h4] at h; exact ih _ _ _ h
    · simp only [hg, if_true] at h ⊢; exact h

theorem scanTo_mono (stop : Byte) (pb sc : Bool) (k fuel : Nat) (c : Byte) (s res : IStream)
    (h : scanTo stop pb sc fuel c s = .ok res) : scanTo stop pb sc (fuel + k) c s = .ok res := by
  induction k with
  | zero => exact h
  | succ k ih => exact scanTo_mono1 stop pb sc (fuel + k) c s res ih

theorem shiftInto_ns (c : Byte) (l : List Byte) (x : Byte) (t : List Byte) :
    shiftInto c (G l (x :: t) false) = (x, G (x :: l) t false) := by
  simp [shiftInto, IStream.getChar, IStream.sentry, IStream.good]

/-- the carried character only matters at end of input -/
theorem scanTo_c (fuel : Nat) (c c' : Byte) (l : List Byte) (x : Byte) (rest : List Byte) :
    scanTo 59 false true fuel c (G l (x :: rest) false) = scanTo 59 false true fuel c' (G l (x :: rest) false) := by
  cases fuel with
  | zero => rfl
  | succ n =>
    unfold scanTo
    simp only [G_good, Bool.not_true, Bool.false_eq_true, if_false]
    rw [shiftInto_ns, shiftInto_ns]

/-- the repaired `SkipInstance` gets over `t` whatever follows -/
def Passes (t : List Byte) : Prop :=
  ∀ (fuel : Nat) (c : Byte) (l : List Byte) (x : Byte) (rest : List Byte) (res : IStream),
    scanTo 59 false true fuel c (G (t.reverse ++ l) (x :: rest) false) = .ok res →
    scanTo 59 false true (fuel + t.length) c (G l (t ++ x :: rest) false) = .ok res

/-- … provided no apostrophe follows (a string literal would go on) -/
def PassesS (t : List Byte) : Prop :=
  ∀ (fuel : Nat) (c : Byte) (l : List Byte) (x : Byte) (rest : List Byte) (res : IStream), x ≠ 39 →
    scanTo 59 false true fuel c (G (t.reverse ++ l) (x :: rest) false) = .ok res →
    scanTo 59 false true (fuel + t.length) c (G l (t ++ x :: rest) false) = .ok res

theorem Passes.toS {t : List Byte} (h : Passes t) : PassesS t := fun fuel c l x rest res _ hh => h fuel c l x rest res hh

theorem Passes.nil : Passes [] := fun _ _ _ _ _ _ h => h

def plainc (c : Byte) : Bool := c != 59 && c != 39 && c != 47 && c != 0

theorem Passes.plain (c : Byte) (hc : plainc c = true) : Passes [c] := by
  intro fuel c0 l x rest res h
  simp only [plainc, Bool.and_eq_true, bne_iff_ne, ne_eq] at hc
  obtain ⟨⟨⟨h59, h39⟩, h47⟩, h0⟩ := hc
  have e1 : (c == 59) = false := by simpa using h59
  have e2 : (c == 39) = false := by simpa using h39
  have e3 : (c == 0) = false := by simpa using h0
  have e4 : (c == 47) = false := by simpa using h47
  show scanTo 59 false true (fuel + 1) c0 (G l (c :: x :: rest) false) = .ok res
  unfold scanTo
  simp only [G_good, Bool.not_true, Bool.false_eq_true, if_false]
  rw [shiftInto_ns]
  simp only [e1, e2, e3, e4, Bool.false_eq_true, if_false, Bool.false_and]
  rw [scanTo_c fuel c c0]
  exact h

theorem Passes.append {a b : List Byte} (ha : Passes a) (hb : Passes b) : Passes (a ++ b) := by
  intro fuel c l x rest res h
  have hb' := hb fuel c (a.reverse ++ l) x rest res (by simpa [List.reverse_append] using h)
  have e : fuel + (a ++ b).length = fuel + b.length + a.length := by simp; omega
  rw [e, List.append_assoc]
  cases b with
  | nil => simpa using ha _ c l x rest res (by simpa using hb')
  | cons y ys => exact ha _ c l y (ys ++ x :: rest) res hb'

theorem PassesS.append_cons {a : List Byte} {y : Byte} {ys : List Byte} (ha : PassesS a) (hb : Passes (y :: ys)) (hy : y ≠ 39) :
    Passes (a ++ y :: ys) := by
  intro fuel c l x rest res h
  have hb' := hb fuel c (a.reverse ++ l) x rest res (by simpa [List.reverse_append] using h)
  have e : fuel + (a ++ y :: ys).length = fuel + (y :: ys).length + a.length := by simp; omega
  rw [e, List.append_assoc]
  exact ha _ c l y (ys ++ x :: rest) res hy hb'

theorem Passes.all_plain (t : List Byte) (h : t.all plainc = true) : Passes t := by
  induction t with
  | nil => exact Passes.nil
  | cons c t ih =>
    simp only [List.all_cons, Bool.and_eq_true] at h
    exact Passes.append (a := [c]) (Passes.plain c h.1) (ih h.2)

theorem space_plain {c : Byte} (h : isSpace c = true) : plainc c = true := by
  simp [isSpace, plainc] at *; bomega

theorem Passes.comment (body : List Byte) (hb : NoClose body) : Passes (47 :: 42 :: (body ++ [42, 47])) := by
  intro fuel c0 l x rest res h
  have e : fuel + (47 :: 42 :: (body ++ [42, 47])).length = (fuel + (body.length + 3)) + 1 := by simp; omega
  rw [e]
  show scanTo 59 false true ((fuel + (body.length + 3)) + 1) c0 (G l (47 :: (42 :: (body ++ [42, 47]) ++ x :: rest)) false) = .ok res
  unfold scanTo
  simp only [G_good, Bool.not_true, Bool.false_eq_true, if_false]
  rw [shiftInto_ns]
  have e1 : ((47 : Byte) == 59) = false := by decide
  simp only [e1, Bool.false_eq_true, if_false, beq_self_eq_true, Bool.and_self, if_true, List.cons_append]
  rw [peekC_good]
  simp only [beq_self_eq_true, if_true]
  rw [putback_good 47 l _ false]
  have hc := readComment_comment l [] body (x :: rest) false (by simp) hb
  simp only [List.nil_append, List.reverse_nil] at hc
  have e2 : body ++ [42, 47] ++ x :: rest = body ++ 42 :: 47 :: x :: rest := by simp
  rw [e2, hc]
  apply scanTo_mono
  rw [scanTo_c fuel 47 c0]
  simpa using h

theorem PassesS.string (b : List Byte) (hb : StringBody b) : PassesS (39 :: (b ++ [39])) := by
  intro fuel c0 l x rest res hx h
  have e : fuel + (39 :: (b ++ [39])).length = (fuel + (b.length + 1)) + 1 := by simp; omega
  rw [e]
  simp only [List.cons_append]
  unfold scanTo
  simp only [G_good, Bool.not_true, Bool.false_eq_true, if_false]
  rw [shiftInto_ns]
  have e1 : ((39 : Byte) == 59) = false := by decide
  have e2 : ((39 : Byte) == 47) = false := by decide
  simp only [e1, e2, Bool.false_eq_true, if_false, beq_self_eq_true, Bool.false_and, if_true]
  rw [putback_good 39 l _ false]
  have e3 : b ++ [39] ++ x :: rest = b ++ 39 :: x :: rest := by simp
  rw [e3, stringRead_tok b hb l false x rest hx]
  simp only
  apply scanTo_mono
  rw [scanTo_c fuel 39 c0]
  simpa using h

theorem Passes.seps {s : List Byte} (hs : Seps s) : Passes s := by
  induction hs with
  | blanks sp hsp =>
    apply Passes.all_plain
    rw [List.all_eq_true] at hsp ⊢
    exact fun c hc => space_plain (hsp c hc)
  | comment sp body t hsp hb ht ih =>
    have h1 : Passes sp := by
      apply Passes.all_plain
      rw [List.all_eq_true] at hsp ⊢
      exact fun c hc => space_plain (hsp c hc)
    have h2 := Passes.comment body hb
    have e : sp ++ 47 :: 42 :: (body ++ 42 :: 47 :: t) = sp ++ ((47 :: 42 :: (body ++ [42, 47])) ++ t) := by simp
    rw [e]
    exact Passes.append h1 (Passes.append h2 ih)

/-- what pass 1 needs of a parameter: `SkipInstance` gets over its token, layout around it -/
def ParamScan (p : Param F) : Prop := PassesS p.tok ∧ Seps p.before ∧ Seps p.after

theorem plainc_ne39 {d : Byte} (h : plainc d = true) : d ≠ 39 := by
  simp only [plainc, Bool.and_eq_true, bne_iff_ne, ne_eq] at h; exact h.1.1.2

theorem Passes.param (p : Param F) (h : ParamScan p) (d : Byte) (hd : plainc d = true) :
    Passes (p.before ++ (p.tok ++ (p.after ++ [d]))) := by
  obtain ⟨hS, hb, ha⟩ := h
  have hA : Passes (p.after ++ [d]) := Passes.append (Passes.seps ha) (Passes.plain d hd)
  obtain ⟨y, ys, hy, hy39⟩ : ∃ y ys, p.after ++ [d] = y :: ys ∧ y ≠ 39 :=
    seps_then p.after ha d [] (fun c => c ≠ 39) (fun c hc h => by rw [h] at hc; exact absurd hc (by decide)) (by decide) (plainc_ne39 hd)
  rw [hy] at hA ⊢
  exact Passes.append (Passes.seps hb) (PassesS.append_cons hS hA hy39)

theorem Passes.params (ps : List (Param F)) (hne : ps ≠ []) (h : ∀ p ∈ ps, ParamScan p) : Passes (renderParams ps) := by
  induction ps with
  | nil => exact absurd rfl hne
  | cons p qs ih =>
    cases qs with
    | nil => exact Passes.param p (h p (by simp)) 41 (by decide)
    | cons q qs' =>
      have e : renderParams (p :: q :: qs') = (p.before ++ (p.tok ++ (p.after ++ [44]))) ++ renderParams (q :: qs') := by
        simp [renderParams]
      rw [e]
      exact Passes.append (Passes.param p (h p (by simp)) 44 (by decide))
        (ih (by simp) (fun x hx => h x (by simp [hx])))

theorem skipInstance_passes (cfg : RWCfg) (hcfg : cfg.skipInstanceSkipsComments = true) (t : List Byte) (ht : Passes t)
    (l rest : List Byte) :
    skipInstance cfg (G l (t ++ 59 :: rest) false) = .ok (G (59 :: (t.reverse ++ l)) rest false) := by
  unfold skipInstance
  rw [hcfg]
  have e : (G l (t ++ 59 :: rest) false).right.length + 2 = (rest.length + 3) + t.length := by simp; omega
  rw [e]
  apply ht
  unfold scanTo
  simp only [G_good, Bool.not_true, Bool.false_eq_true, if_false]
  rw [shiftInto_ns]
  simp [pure, Except.pure]

/-- pass 1 on one record: the instance is created with the null values of its attributes, the stream rests at the next
    token after the record and the layout that follows it -/
theorem createInstance_rec (cfg : RWCfg) (hcfg : cfg.skipInstanceSkipsComments = true) (d : Dict) (m : Mgr F)
    (r : Rec F) (hlex : r.Lex) (hscan : ∀ q ∈ r.ps, ParamScan q) (hnone : m.find? r.id = none)
    (e : EntityD) (hent : d.entity? r.name = some e) (habs : e.abstract = false)
    (l g : List Byte) (hg : Seps g) (c : Byte) (k : List Byte) (hc : isSpace c = false) (hc47 : c ≠ 47) (hc92 : c ≠ 92) :
    ∃ l', createInstance cfg d m (G l (r.text (g ++ c :: k)) false) =
      .ok (some { id := r.id, parts := [{ name := r.name, vals := defaults e.attrs }] }, G l' (c :: k) false) := by
  obtain ⟨dne, ddig, dhi, h1, h2, h3, h4, hn0, hns, pne⟩ := hlex
  obtain ⟨hn0s, hn047, hn038, hn040, hn033, hn035, hn0d, hn0k, hn092⟩ := alpha_facts hn0
  generalize hrest : g ++ c :: k = rest
  obtain ⟨c0, u, hcu⟩ : ∃ c0 u, r.ds = c0 :: u := by
    cases hd : r.ds with
    | nil => exact absurd hd dne
    | cons c u => exact ⟨c, u, rfl⟩
  have hcd : isDigit c0 = true := by rw [hcu] at ddig; simp at ddig; exact ddig.1
  have hc047 : c0 ≠ 47 := by intro h; rw [h] at hcd; exact absurd hcd (by decide)
  obtain ⟨x, xr, hXe, hxd⟩ : ∃ x xr, r.t1 rest = x :: xr ∧ isDigit x = false :=
    seps_then r.s1 h1 61 _ (fun c => isDigit c = false) (fun c h => space_not_digit h) (by decide) (by decide)
  have e0 : readTokenSeparator (G l (r.text rest) false) = G l (r.text rest) false := by
    unfold Rec.text; rw [hcu]; exact readTokenSeparator_none l c0 _ false (digit_not_space hcd) hc047 (by intro h; rw [h] at hcd; exact absurd hcd (by decide))
  have e1 : (G l (r.text rest) false).extractInt32 = (some r.id, G (r.ds.reverse ++ l) (r.t1 rest) false) := by
    unfold Rec.text; rw [hXe]; exact extractInt32_digits r.ds dne ddig dhi l x xr false hxd
  have e2 : readTokenSeparator (G (r.ds.reverse ++ l) (r.t1 rest) false) = G (r.s1.reverse ++ (r.ds.reverse ++ l)) (61 :: r.t2 rest) false :=
    readTokenSeparator_seps r.s1 h1 (r.ds.reverse ++ l) 61 _ false (by decide) (by decide)
  have e3 : readTokenSeparator (G (61 :: (r.s1.reverse ++ (r.ds.reverse ++ l))) (r.t2 rest) false) =
      G (r.s2.reverse ++ 61 :: (r.s1.reverse ++ (r.ds.reverse ++ l))) (r.n0 :: (r.ns ++ r.t3 rest)) false :=
    readTokenSeparator_seps r.s2 h2 _ r.n0 _ false hn0s hn047 hn092
  unfold createInstance
  rw [e0]
  simp only [e1, Option.getD_some, hnone, Option.isSome_none, Bool.false_eq_true, if_false]
  rw [e2, getInto_good 0 _ 61 _ false]
  simp only [bne_self_eq_false, Bool.false_eq_true, if_false]
  rw [e3, peekC_good]
  have e38 : (r.n0 == 38) = false := by simp [hn038]
  have e40 : (r.n0 == 40) = false := by simp [hn040]
  have e33 : (r.n0 == 33) = false := by simp [hn033]
  simp only [e38, e40, e33, Bool.false_eq_true, if_false, bind, Except.bind, pure, Except.pure]
  obtain ⟨y, yr, hYe, hyk⟩ : ∃ y yr, r.t3 rest = y :: yr ∧ kwc y = false :=
    seps_then r.s3 h3 40 _ (fun c => kwc c = false) (fun c h => space_not_kwc h) (by decide) (by decide)
  have hkw : (r.n0 :: r.ns).all kwc = true := by simp only [List.all_cons, hn0k, Bool.true_and]; exact hns
  have ekw : readStdKeyword (G (r.s2.reverse ++ 61 :: (r.s1.reverse ++ (r.ds.reverse ++ l))) (r.n0 :: (r.ns ++ r.t3 rest)) false) =
      (r.n0 :: r.ns, G ((r.n0 :: r.ns).reverse ++ (r.s2.reverse ++ 61 :: (r.s1.reverse ++ (r.ds.reverse ++ l)))) (r.t3 rest) false) := by
    rw [hYe]
    exact readStdKeyword_spec r.n0 r.ns hkw hn0s y hyk _ yr false
  rw [ekw]
  simp only
  have hT : Passes (r.s3 ++ 40 :: (renderParams r.ps ++ r.s4)) :=
    Passes.append (Passes.seps h3) (Passes.append (a := [40]) (Passes.plain 40 (by decide))
      (Passes.append (Passes.params r.ps pne hscan) (Passes.seps h4)))
  have eT : r.t3 rest = (r.s3 ++ 40 :: (renderParams r.ps ++ r.s4)) ++ 59 :: rest := by simp [Rec.t3, Rec.t4]
  rw [eT, skipInstance_passes cfg hcfg _ hT]
  simp only
  rw [show bytesToString (upperBytes (r.n0 :: r.ns)) = r.name from rfl, hent]
  simp only [habs, Bool.false_eq_true, if_false]
  rw [← hrest, readTokenSeparator_seps g hg _ c k false hc hc47 hc92]
  exact ⟨_, rfl⟩

/-! ## the data section: records up to `ENDSEC;` -/

def endsec (sp tail : List Byte) : List Byte := 69 :: 78 :: 68 :: 83 :: 69 :: 67 :: (sp ++ 59 :: tail)

/-- records, each after its `#` and followed by its layout, then the end of the section -/
def renderRecs : List (Rec F × List Byte) → List Byte → List Byte
  | [], fin => fin
  | (r, g) :: rs, fin => 35 :: r.text (g ++ renderRecs rs fin)

theorem foundEndSec_no (l sp : List Byte) (c : Byte) (t : List Byte) (sk : Bool) (hsp : sp.all isSpace = true)
    (hc : isSpace c = false) (h69 : c ≠ 69) :
    foundEndSec (G l (sp ++ c :: t) sk) = (false, G (sp.reverse ++ l) (c :: t) sk) := by
  unfold foundEndSec
  rw [show (G l (sp ++ c :: t) sk).ws = G (sp.reverse ++ l) (c :: t) sk from ws_good l sp c t sk hsp hc]
  have e : (c == 69) = false := by simpa using h69
  simp only [matchWord, getInto_good, e, Bool.false_eq_true, if_false, putback_good]

theorem foundEndSec_yes (l sp0 sp tail : List Byte) (sk : Bool) (hsp0 : sp0.all isSpace = true) (hsp : sp.all isSpace = true) :
    ∃ l', foundEndSec (G l (sp0 ++ endsec sp tail) sk) = (true, G l' tail sk) := by
  unfold foundEndSec endsec
  rw [show (G l (sp0 ++ 69 :: 78 :: 68 :: 83 :: 69 :: 67 :: (sp ++ 59 :: tail)) sk).ws =
      G (sp0.reverse ++ l) (69 :: 78 :: 68 :: 83 :: 69 :: 67 :: (sp ++ 59 :: tail)) sk from ws_good l sp0 69 _ sk hsp0 (by decide)]
  simp only [matchWord, getInto_good, beq_self_eq_true, if_true]
  rw [show (G (67 :: 69 :: 83 :: 68 :: 78 :: 69 :: (sp0.reverse ++ l)) (sp ++ 59 :: tail) sk).ws =
      G (sp.reverse ++ 67 :: 69 :: 83 :: 68 :: 78 :: 69 :: (sp0.reverse ++ l)) (59 :: tail) sk from ws_good _ sp 59 tail sk hsp (by decide)]
  simp only [getInto_good, beq_self_eq_true, if_true]
  exact ⟨_, rfl⟩

theorem renderRecs_head (rs : List (Rec F × List Byte)) (sp tail : List Byte) :
    ∃ c k, renderRecs rs (endsec sp tail) = c :: k ∧ (c = 35 ∨ c = 69) := by
  cases rs with
  | nil => exact ⟨69, _, rfl, Or.inr rfl⟩
  | cons rg rs => obtain ⟨r, g⟩ := rg; exact ⟨35, _, rfl, Or.inl rfl⟩

/-- `FoundEndSecKywd` after a record and its layout: the section ends (only blanks stood before `ENDSEC;`), or the
    stream rests in front of layout that starts with a comment, or in front of the next token -/
theorem foundEndSec_gap (g : List Byte) (hg : Seps g) (rs : List (Rec F × List Byte)) (sp tail : List Byte)
    (hsp : sp.all isSpace = true) (l : List Byte) (sk : Bool) :
    (rs = [] ∧ ∃ l', foundEndSec (G l (g ++ renderRecs rs (endsec sp tail)) sk) = (true, G l' tail sk)) ∨
    (∃ l' t, Seps t ∧ foundEndSec (G l (g ++ renderRecs rs (endsec sp tail)) sk) = (false, G l' (t ++ renderRecs rs (endsec sp tail)) sk)) := by
  obtain ⟨sp0, t, hgt, hsp0, ht, htc⟩ := hg.split
  rcases htc with rfl | ⟨u, rfl⟩
  · cases rs with
    | nil =>
      left
      refine ⟨rfl, ?_⟩
      rw [hgt]
      simpa [renderRecs] using foundEndSec_yes l sp0 sp tail sk hsp0 hsp
    | cons rg rs =>
      right
      obtain ⟨r, g'⟩ := rg
      refine ⟨sp0.reverse ++ l, [], Seps.blanks [] (by simp), ?_⟩
      rw [hgt]
      simpa [renderRecs] using foundEndSec_no l sp0 35 _ sk hsp0 (by decide) (by decide)
  · right
    refine ⟨sp0.reverse ++ l, 47 :: u, ht, ?_⟩
    rw [hgt]
    simpa using foundEndSec_no l sp0 47 (u ++ renderRecs rs (endsec sp tail)) sk hsp0 (by decide) (by decide)

/-! ### pass 1 -/

/-- the instance pass 1 creates for a record -/
def mkInst (d : Dict) (rg : Rec F × List Byte) : MInst F :=
  { id := rg.1.id, parts := [{ name := rg.1.name,
                               vals := match d.entity? rg.1.name with | some e => defaults e.attrs | none => [] }] }

def Rec1OK (d : Dict) (rg : Rec F × List Byte) : Prop :=
  rg.1.Lex ∧ Seps rg.2 ∧ (∀ q ∈ rg.1.ps, ParamScan q) ∧ ∃ e, d.entity? rg.1.name = some e ∧ e.abstract = false

theorem find?_none (m : Mgr F) (id : Int) (h : ∀ i ∈ m.insts, i.id ≠ id) : m.find? id = none := by
  unfold Mgr.find?
  rw [List.find?_eq_none]
  intro i hi
  simpa using h i hi

theorem readData1Loop_end (cfg : RWCfg) (d : Dict) (st : P1 F) (g0 l sp tail : List Byte) (hg0 : Seps g0)
    (hsp : sp.all isSpace = true) (hs : st.s = G l (g0 ++ endsec sp tail) false) (fuel : Nat) (hf : 2 ≤ fuel) :
    ∃ l', readData1Loop cfg d fuel st false = .ok { st with s := G l' tail false } := by
  match fuel, hf with
  | n + 2, _ =>
    obtain ⟨l', hfe⟩ := foundEndSec_yes (g0.reverse ++ l) [] sp tail false (by simp) hsp
    simp only [List.nil_append] at hfe
    refine ⟨l', ?_⟩
    unfold readData1Loop
    rw [hs]
    simp only [G_good, Bool.not_false, Bool.and_self, if_true, bind, Except.bind]
    rw [show g0 ++ endsec sp tail = g0 ++ 69 :: (78 :: 68 :: 83 :: 69 :: 67 :: (sp ++ 59 :: tail)) from rfl,
      readTokenSeparator_seps g0 hg0 l 69 _ false (by decide) (by decide), shiftInto_ns]
    have e : ((69 : Byte) != 35) = true := by decide
    simp only [e, if_true, putback_good]
    simp only [resync, e, G_good, Bool.and_self, if_true]
    rw [show (69 : Byte) :: 78 :: 68 :: 83 :: 69 :: 67 :: (sp ++ 59 :: tail) = endsec sp tail from rfl, hfe]
    simp only [if_true, pure, Except.pure]
    unfold readData1Loop
    simp
    rfl

theorem readData1Loop_recs (cfg : RWCfg) (hcfg : cfg.skipInstanceSkipsComments = true) (d : Dict) (sp tail : List Byte)
    (hsp : sp.all isSpace = true) :
    ∀ (rs : List (Rec F × List Byte)) (st : P1 F) (g0 l : List Byte) (fuel : Nat),
      Seps g0 → st.s = G l (g0 ++ renderRecs rs (endsec sp tail)) false → rs.length + 2 ≤ fuel →
      (∀ rg ∈ rs, Rec1OK d rg) → (rs.map (·.1.id)).Nodup → (∀ i ∈ st.mgr.insts, ∀ rg ∈ rs, i.id ≠ rg.1.id) →
      ∃ l', readData1Loop cfg d fuel st false =
        .ok { mgr := { insts := st.mgr.insts ++ rs.map (mkInst d) }, count := st.count + rs.length,
              notCreated := st.notCreated, s := G l' tail false } := by
  intro rs
  induction rs with
  | nil =>
    intro st g0 l fuel hg0 hs hf _ _ _
    obtain ⟨l', h⟩ := readData1Loop_end cfg d st g0 l sp tail hg0 hsp hs fuel (by simpa using hf)
    exact ⟨l', by simpa using h⟩
  | cons rg rs ih =>
    intro st g0 l fuel hg0 hs hf hok hnd hfresh
    obtain ⟨r, g⟩ := rg
    obtain ⟨hlex, hg, hscan, e, hent, habs⟩ := hok (r, g) (by simp)
    match fuel, hf with
    | n + 1, hf =>
      obtain ⟨c, k, hKe, hc⟩ := renderRecs_head rs sp tail
      have hcs : isSpace c = false ∧ c ≠ 47 ∧ c ≠ 92 := by rcases hc with rfl | rfl <;> exact ⟨by decide, by decide, by decide⟩
      have hnone : st.mgr.find? r.id = none := find?_none st.mgr r.id (fun i hi => hfresh i hi (r, g) (by simp))
      obtain ⟨l1, hci⟩ := createInstance_rec cfg hcfg d st.mgr r hlex hscan hnone e hent habs (35 :: (g0.reverse ++ l)) g hg c k hcs.1 hcs.2.1 hcs.2.2
      rw [← hKe] at hci
      have hmk : ({ id := r.id, parts := [{ name := r.name, vals := defaults e.attrs }] } : MInst F) = mkInst d (r, g) := by
        simp [mkInst, hent]
      rw [hmk] at hci
      unfold readData1Loop
      rw [hs]
      simp only [G_good, Bool.not_false, Bool.and_self, if_true, bind, Except.bind, renderRecs]
      simp only [readTokenSeparator_seps g0 hg0 l 35 _ false (by decide) (by decide), shiftInto_ns,
        bne_self_eq_false, Bool.false_eq_true, if_false, pure, Except.pure, hci]
      have hnd' : (rs.map (·.1.id)).Nodup := (List.nodup_cons.mp hnd).2
      have hrid : ∀ rg ∈ rs, r.id ≠ rg.1.id := by
        intro rg hrg heq
        exact (List.nodup_cons.mp hnd).1 (by show r.id ∈ _; rw [heq]; exact List.mem_map_of_mem (f := fun x : Rec F × List Byte => x.1.id) hrg)
      rcases foundEndSec_gap [] (Seps.blanks [] (by simp)) rs sp tail hsp l1 false with ⟨hnil, l2, hfe⟩ | ⟨l2, t, ht, hfe⟩
      · simp only [List.nil_append] at hfe
        rw [hfe]
        subst hnil
        refine ⟨l2, ?_⟩
        obtain ⟨m, rfl⟩ : ∃ m, n = m + 1 := ⟨n - 1, by simp only [List.length_cons] at hf; omega⟩
        unfold readData1Loop
        simp
        rfl
      · simp only [List.nil_append] at hfe
        rw [hfe]
        simp only
        obtain ⟨l3, hih⟩ := ih (⟨⟨st.mgr.insts ++ [mkInst d (r, g)]⟩, st.count + 1, st.notCreated,
            G l2 (t ++ renderRecs rs (endsec sp tail)) false⟩ : P1 F) t l2 n ht rfl
          (by simp only [List.length_cons] at hf; omega) (fun x hx => hok x (by simp [hx])) hnd'
          (by
            intro i hi x hx
            simp only [List.mem_append, List.mem_singleton] at hi
            rcases hi with hi | rfl
            · exact hfresh i hi x (by simp [hx])
            · exact hrid x hx)
        refine ⟨l3, ?_⟩
        rw [hih]
        simp [Nat.add_assoc, Nat.add_comm 1]

/-! ### pass 2 -/

def keyOf (i : MInst F) : Int × List String := (i.id, i.parts.map (·.name))

theorem lookup_key (d : Dict) (m : Mgr F) (id : Int) :
    Mgr.lookup d m id = ((m.insts.map keyOf).find? (·.1 == id)).map (fun k => answersTo d k.2) := by
  unfold Mgr.lookup Mgr.find?
  induction m.insts with
  | nil => rfl
  | cons i is ih =>
    simp only [List.map_cons, List.find?_cons, keyOf]
    cases h : (i.id == id)
    · simpa [keyOf] using ih
    · rfl

theorem lookup_congr (d : Dict) (m m' : Mgr F) (h : m.insts.map keyOf = m'.insts.map keyOf) :
    Mgr.lookup d m = Mgr.lookup d m' := by
  funext id
  rw [lookup_key, lookup_key, h]

theorem find?_mid (pre post : List (MInst F)) (a : MInst F) (hpre : ∀ i ∈ pre, i.id ≠ a.id) :
    ({ insts := pre ++ a :: post } : Mgr F).find? a.id = some a := by
  unfold Mgr.find?
  rw [List.find?_append]
  have : pre.find? (fun x => x.id == a.id) = none := by
    rw [List.find?_eq_none]; intro i hi; simpa using hpre i hi
  simp [this]

theorem update_mid (pre post : List (MInst F)) (a b : MInst F) (hid : b.id = a.id) (hpre : ∀ i ∈ pre, i.id ≠ a.id)
    (hpost : ∀ i ∈ post, i.id ≠ a.id) :
    ({ insts := pre ++ a :: post } : Mgr F).update b = { insts := pre ++ b :: post } := by
  unfold Mgr.update
  have h1 : pre.map (fun x => if x.id == b.id then b else x) = pre := by
    conv => rhs; rw [← List.map_id pre]
    apply List.map_congr_left
    intro x hx
    have : (x.id == b.id) = false := by rw [hid]; simpa using hpre x hx
    simp [this]
  have h2 : post.map (fun x => if x.id == b.id then b else x) = post := by
    conv => rhs; rw [← List.map_id post]
    apply List.map_congr_left
    intro x hx
    have : (x.id == b.id) = false := by rw [hid]; simpa using hpost x hx
    simp [this]
  rw [hid] at h1 h2
  simp only [List.map_append, List.map_cons, h1, h2, hid, beq_self_eq_true, if_true]

theorem Mgr.eq_of_insts (m : Mgr F) (l : List (MInst F)) (h : m.insts = l) : m = { insts := l } := by
  cases m; simp_all

/-- the instance as pass 2 leaves it -/
def finInst (rg : Rec F × List Byte) : MInst F :=
  { id := rg.1.id, parts := [{ name := rg.1.name, vals := rg.1.ps.map (·.v) }], state := .complete }

def Rec2OK (env : Env F) (strict : Bool) (rg : Rec F × List Byte) : Prop :=
  rg.1.Lex ∧ Seps rg.2 ∧ ∃ e, env.dict.entity? rg.1.name = some e ∧ e.attrs = rg.1.ps.map (·.a) ∧
    ∀ q ∈ rg.1.ps, ParamOK env strict q

theorem readData2Loop_end (ops : FloatOps F) (lex : LexCfg) (cfg : RWCfg) (d : Dict) (strict : Bool) (st : P2 F)
    (g0 l sp tail : List Byte) (sk : Bool) (hg0 : Seps g0)
    (hsp : sp.all isSpace = true) (hs : st.s = G l (g0 ++ endsec sp tail) sk) (fuel : Nat) (hf : 2 ≤ fuel) :
    ∃ l', readData2Loop ops lex cfg d strict fuel st false = .ok { st with s := G l' tail sk } := by
  match fuel, hf with
  | n + 2, _ =>
    obtain ⟨l', hfe⟩ := foundEndSec_yes (g0.reverse ++ l) [] sp tail sk (by simp) hsp
    simp only [List.nil_append] at hfe
    refine ⟨l', ?_⟩
    unfold readData2Loop
    rw [hs]
    simp only [G_good, Bool.not_false, Bool.and_self, if_true, bind, Except.bind]
    rw [show g0 ++ endsec sp tail = g0 ++ 69 :: (78 :: 68 :: 83 :: 69 :: 67 :: (sp ++ 59 :: tail)) from rfl]
    simp only [readTokenSeparator_seps g0 hg0 l 69 _ sk (by decide) (by decide), shiftInto_good 0 _ 69 _ sk (by decide)]
    have e : ((69 : Byte) != 35) = true := by decide
    simp only [e, if_true, putback_good]
    simp only [resync, e, G_good, Bool.and_self, if_true]
    rw [show (69 : Byte) :: 78 :: 68 :: 83 :: 69 :: 67 :: (sp ++ 59 :: tail) = endsec sp tail from rfl, hfe]
    simp only [if_true, pure, Except.pure]
    unfold readData2Loop
    simp
    rfl

/-- what pass 2 has done to the state after `n` records read without a message -/
structure P2Done (st st' : P2 F) (insts : List (MInst F)) (n : Nat) (tail : List Byte) : Prop where
  mgr : st'.mgr.insts = insts
  err : st'.fileErr = st.fileErr
  total : st'.total = st.total + n
  valid : st'.valid = st.valid + n
  invalid : st'.invalid = st.invalid
  incomplete : st'.incomplete = st.incomplete
  s : ∃ l' sk', st'.s = G l' tail sk'
  rep : ∀ x ∈ st'.reported, x = .null ∨ x ∈ st.reported

theorem readData2Loop_recs (ops : FloatOps F) (lex : LexCfg) (cfg : RWCfg) (d : Dict) (strict : Bool) (lk : Lookup)
    (sp tail : List Byte) (hsp : sp.all isSpace = true) :
    ∀ (rs : List (Rec F × List Byte)) (st : P2 F) (pre : List (MInst F)) (g0 l : List Byte) (sk : Bool) (fuel : Nat),
      Seps g0 → st.s = G l (g0 ++ renderRecs rs (endsec sp tail)) sk → rs.length + 2 ≤ fuel →
      st.mgr.insts = pre ++ rs.map (mkInst d) → (∀ i ∈ pre, ∀ rg ∈ rs, i.id ≠ rg.1.id) → (rs.map (·.1.id)).Nodup →
      Mgr.lookup d st.mgr = lk →
      (∀ rg ∈ rs, Rec2OK { ops := ops, lex := lex, cfg := cfg, dict := d, lookup := lk } strict rg) →
      ∃ st', readData2Loop ops lex cfg d strict fuel st false = .ok st' ∧
        P2Done st st' (pre ++ rs.map finInst) rs.length tail := by
  intro rs
  induction rs with
  | nil =>
    intro st pre g0 l sk fuel hg0 hs hf hm _ _ _ _
    obtain ⟨l', h⟩ := readData2Loop_end ops lex cfg d strict st g0 l sp tail sk hg0 hsp hs fuel (by simpa using hf)
    exact ⟨_, h, ⟨by simpa using hm, rfl, rfl, rfl, rfl, rfl, ⟨l', sk, rfl⟩, fun x hx => Or.inr hx⟩⟩
  | cons rg rs ih =>
    intro st pre g0 l sk fuel hg0 hs hf hm hfresh hnd hlk hok
    obtain ⟨r, g⟩ := rg
    obtain ⟨hlex, hg, e, hent, hattrs, hpar⟩ := hok (r, g) (by simp)
    have hnd' : (rs.map (·.1.id)).Nodup := (List.nodup_cons.mp hnd).2
    have hrid : ∀ rg ∈ rs, r.id ≠ rg.1.id := by
      intro rg hrg heq
      exact (List.nodup_cons.mp hnd).1 (by show r.id ∈ _; rw [heq]; exact List.mem_map_of_mem (f := fun x : Rec F × List Byte => x.1.id) hrg)
    have hmgr : st.mgr = { insts := pre ++ mkInst d (r, g) :: rs.map (mkInst d) } := by
      exact Mgr.eq_of_insts _ _ hm
    have hpre : ∀ i ∈ pre, i.id ≠ (mkInst d (r, g)).id := fun i hi => hfresh i hi (r, g) (by simp)
    have hpost : ∀ i ∈ rs.map (mkInst d), i.id ≠ (mkInst d (r, g)).id := by
      intro i hi
      obtain ⟨x, hx, rfl⟩ := List.mem_map.mp hi
      exact fun h => hrid x hx h.symm
    match fuel, hf with
    | n + 1, hf =>
      -- the record
      obtain ⟨l1, sk1, hri⟩ := readInstance_rec ops lex cfg d strict
        { st with s := G (35 :: (g0.reverse ++ l)) (r.text (g ++ renderRecs rs (endsec sp tail))) sk } r hlex _ _ sk rfl
        (mkInst d (r, g)) (by show st.mgr.find? _ = _; rw [hmgr]; exact find?_mid pre _ (mkInst d (r, g)) hpre) rfl rfl
        { name := r.name, vals := match d.entity? r.name with | some e => defaults e.attrs | none => [] } rfl e hent hattrs
        (by
          intro q hq
          show ParamOK { ops := ops, lex := lex, cfg := cfg, dict := d, lookup := Mgr.lookup d st.mgr } strict q
          rw [hlk]; exact hpar q hq)
      have hupd : st.mgr.update (finInst (r, g)) = { insts := pre ++ finInst (r, g) :: rs.map (mkInst d) } := by
        rw [hmgr]; exact update_mid pre _ (mkInst d (r, g)) (finInst (r, g)) rfl hpre hpost
      unfold readData2Loop
      rw [hs]
      simp only [G_good, Bool.not_false, Bool.and_self, if_true, bind, Except.bind, renderRecs]
      simp only [readTokenSeparator_seps g0 hg0 l 35 _ sk (by decide) (by decide), shiftInto_good 0 _ 35 _ sk (by decide),
        bne_self_eq_false, Bool.false_eq_true, if_false, pure, Except.pure, hri]
      have hap : applyOutcome st
          { s := G l1 (g ++ renderRecs rs (endsec sp tail)) sk1,
            inst := some { mkInst d (r, g) with
              parts := [{ ({ name := r.name, vals := match d.entity? r.name with | some e => defaults e.attrs | none => [] } : MPart F) with
                          vals := r.ps.map (·.v) }], state := .complete },
            reported := some .null, left := some .null } =
          { st with mgr := st.mgr.update (finInst (r, g)), reported := .null :: st.reported,
                    s := G l1 (g ++ renderRecs rs (endsec sp tail)) sk1, total := st.total + 1, valid := st.valid + 1 } := rfl
      rw [hap, hupd]
      rcases foundEndSec_gap g hg rs sp tail hsp l1 sk1 with ⟨hnil, l2, hfe⟩ | ⟨l2, t, ht, hfe⟩
      · simp only [hfe]
        subst hnil
        obtain ⟨m, rfl⟩ : ∃ m, n = m + 1 := ⟨n - 1, by simp only [List.length_cons] at hf; omega⟩
        unfold readData2Loop
        simp only [G_good, Bool.not_true, Bool.and_false, Bool.false_eq_true, if_false, pure, Except.pure]
        refine ⟨_, rfl, ⟨by simp, rfl, rfl, rfl, rfl, rfl, ⟨l2, sk1, rfl⟩, ?_⟩⟩
        intro x hx
        simp only [List.mem_cons] at hx
        exact hx
      · simp only [hfe]
        obtain ⟨st', hrun, hdone⟩ := ih
          ({ st with mgr := { insts := pre ++ finInst (r, g) :: rs.map (mkInst d) }, reported := .null :: st.reported,
                     s := G l2 (t ++ renderRecs rs (endsec sp tail)) sk1, total := st.total + 1, valid := st.valid + 1 } : P2 F)
          (pre ++ [finInst (r, g)]) t l2 sk1 n ht rfl (by simp only [List.length_cons] at hf; omega) (by simp)
          (by
            intro i hi x hx
            simp only [List.mem_append, List.mem_singleton] at hi
            rcases hi with hi | rfl
            · exact hfresh i hi x (by simp [hx])
            · exact hrid x hx)
          hnd'
          (by
            rw [← hlk, hmgr]
            apply lookup_congr
            simp [keyOf, finInst, mkInst])
          (fun x hx => hok x (by simp [hx]))
        refine ⟨st', hrun, ⟨?_, ?_, ?_, ?_, ?_, ?_, hdone.s, ?_⟩⟩
        · rw [hdone.mgr]; simp
        · rw [hdone.err]
        · rw [hdone.total]; simp only [List.length_cons]; omega
        · rw [hdone.valid]; simp only [List.length_cons]; omega
        · rw [hdone.invalid]
        · rw [hdone.incomplete]
        · intro x hx
          rcases hdone.rep x hx with h | h
          · exact Or.inl h
          · simp only [List.mem_cons] at h
            exact h

/-! ### both passes -/

theorem Rec.text_length (r : Rec F) (rest : List Byte) : rest.length ≤ (r.text rest).length := by
  simp [Rec.text, Rec.t1, Rec.t2, Rec.t3, Rec.t4]; omega

theorem renderRecs_length (rs : List (Rec F × List Byte)) (fin : List Byte) : rs.length ≤ (renderRecs rs fin).length := by
  induction rs with
  | nil => simp
  | cons rg rs ih =>
    obtain ⟨r, g⟩ := rg
    have := Rec.text_length r (g ++ renderRecs rs fin)
    simp only [renderRecs, List.length_cons, List.length_append] at this ⊢
    omega

/-- what stands after `ENDSEC;`: `END-ISO-10303-21;` is taken without a message and the stream stays good -/
def TailOK (tail : List Byte) : Prop :=
  ∀ (l : List Byte) (sk : Bool),
    (readTokenSeparator (G l tail sk)).good = true ∧
    (getKeyword ((readTokenSeparator (G l tail sk)).right.length + 3) true 0
        (readTokenSeparator (readTokenSeparator (G l tail sk))) false).1 = false ∧
    (getInto 0 (getKeyword ((readTokenSeparator (G l tail sk)).right.length + 3) true 0
        (readTokenSeparator (readTokenSeparator (G l tail sk))) false).2).2.good = true

theorem readData1_recs (cfg : RWCfg) (hcfg : cfg.skipInstanceSkipsComments = true) (d : Dict) (sp tail : List Byte)
    (hsp : sp.all isSpace = true) (rs : List (Rec F × List Byte)) (g0 : List Byte) (hg0 : Seps g0)
    (hok : ∀ rg ∈ rs, Rec1OK d rg) (hnd : (rs.map (·.1.id)).Nodup) :
    ∃ l', readData1 (F := F) cfg d { right := g0 ++ renderRecs rs (endsec sp tail), skipws := false } =
      .ok { mgr := { insts := rs.map (mkInst d) }, count := rs.length, notCreated := 0, s := G l' tail false } := by
  unfold readData1
  rcases foundEndSec_gap g0 hg0 rs sp tail hsp [] false with ⟨hnil, l2, hfe⟩ | ⟨l2, t, ht, hfe⟩
  · have hfe' : foundEndSec { right := g0 ++ renderRecs rs (endsec sp tail), skipws := false } = (true, G l2 tail false) := hfe
    rw [hfe']
    subst hnil
    refine ⟨l2, ?_⟩
    simp only
    unfold readData1Loop
    simp
    rfl
  · have hfe' : foundEndSec { right := g0 ++ renderRecs rs (endsec sp tail), skipws := false } =
        (false, G l2 (t ++ renderRecs rs (endsec sp tail)) false) := hfe
    rw [hfe']
    simp only
    obtain ⟨l3, h⟩ := readData1Loop_recs cfg hcfg d sp tail hsp rs
      (⟨{}, 0, 0, G l2 (t ++ renderRecs rs (endsec sp tail)) false⟩ : P1 F) t l2
      ((t ++ renderRecs rs (endsec sp tail)).length + 3) ht rfl
      (by have := renderRecs_length rs (endsec sp tail); simp only [List.length_append]; omega) hok hnd
      (by intro i hi; simp at hi)
    refine ⟨l3, ?_⟩
    simpa using h

/-- the part of `readDataSection` after the two passes -/
def finish (p1 : P1 F) (p2 : P2 F) : FileResult F :=
  let e2 := if p2.invalid > 0 then p2.fileErr.greater .warning else p2.fileErr
  let mk (sev ret : Sev) : FileResult F :=
    { mgr := p2.mgr, sev := sev, ret := ret, created := p1.count, notCreated := p1.notCreated, valid := p2.valid,
      invalid := p2.invalid, incomplete := p2.incomplete, reported := p2.reported }
  let s2 := readTokenSeparator p2.s
  let (kwBad, s3) : Bool × IStream :=
    if s2.good then
      let (bad, s') := getKeyword (s2.right.length + 3) true 0 (readTokenSeparator s2) false
      (bad, (getInto 0 s').2)
    else (false, s2)
  let v := finalVerdict e2 (p1.count != p2.valid) kwBad (!s3.good)
  mk v.1 v.2

theorem readDataSection_eq (ops : FloatOps F) (lex : LexCfg) (cfg : RWCfg) (d : Dict) (strict : Bool) (skipws : Bool)
    (bytes : List Byte) :
    readDataSection ops lex cfg d strict skipws bytes =
      (do
        let s0 : IStream := { right := bytes, skipws := skipws }
        let p1 ← readData1 (F := F) cfg d s0
        let e1 : Sev := if p1.notCreated > 0 then .warning else .null
        let p2 ← readData2Loop ops lex cfg d strict ((foundEndSec s0).2.right.length + 3)
          { mgr := p1.mgr, fileErr := e1, total := 0, valid := 0, invalid := 0, incomplete := 0, warnings := 0,
            s := (foundEndSec s0).2 } (foundEndSec s0).1
        pure (finish p1 p2)) := rfl

theorem finish_clean (p1 : P1 F) (p2 : P2 F) (tail : List Byte) (htail : TailOK tail) (hs : ∃ l' sk', p2.s = G l' tail sk')
    (hv : p2.valid = p1.count) (hinv : p2.invalid = 0) (herr : p2.fileErr = .null) :
    (finish p1 p2).sev = .null ∧ (finish p1 p2).ret = .null ∧ (finish p1 p2).mgr = p2.mgr ∧
    (finish p1 p2).created = p1.count ∧ (finish p1 p2).notCreated = p1.notCreated ∧ (finish p1 p2).valid = p2.valid ∧
    (finish p1 p2).invalid = 0 ∧ (finish p1 p2).incomplete = p2.incomplete ∧ (finish p1 p2).reported = p2.reported := by
  obtain ⟨l', sk', hs⟩ := hs
  obtain ⟨t1, t2, t3⟩ := htail l' sk'
  unfold finish
  rw [hs]
  simp only [t1, if_true, hinv, herr, hv, bne_self_eq_false, t2, t3, Nat.lt_irrefl, gt_iff_lt, if_false, Bool.not_true, finalVerdict]
  simp

/-- `END-ISO-10303-21` -/
def endIso : List Byte := [69, 78, 68, 45, 73, 83, 79, 45, 49, 48, 51, 48, 51, 45, 50, 49]

/-- characters `GetKeyword` accepts inside a keyword -/
def kwOk (c : Byte) : Bool := (isUpper c || isDigit c || c == 95 || c == 45) && !(isSpace c || c == 59 || c == 0)

theorem getKeyword_step (n : Nat) (c : Byte) (l : List Byte) (x : Byte) (r : List Byte) (sk : Bool) (hc : kwOk c = true) :
    getKeyword (n + 1) false c (G (c :: l) (x :: r) sk) false = getKeyword n false x (G (x :: c :: l) r sk) false := by
  simp only [kwOk, Bool.and_eq_true, Bool.not_eq_true'] at hc
  rw [getKeyword]
  simp only [Bool.false_eq_true, if_false, hc.2, hc.1, Bool.true_or, Bool.not_true, G_good, getInto_good]

theorem getKeyword_stop (n : Nat) (c : Byte) (l r : List Byte) (sk : Bool) :
    getKeyword (n + 1) false 59 (G (59 :: c :: l) r sk) false = (false, G (c :: l) (59 :: r) sk) := by
  rw [getKeyword]
  have e59 : (isSpace (59 : Byte) || (59 : Byte) == 59 || (59 : Byte) == 0) = true := by decide
  simp only [Bool.false_eq_true, if_false, e59, if_true, putback_good]

theorem getKeyword_word (w : List Byte) (hw : w.all kwOk = true) (r : List Byte) (sk : Bool) :
    ∀ (n : Nat) (c : Byte) (l : List Byte), kwOk c = true →
      getKeyword (n + 1 + w.length + 1) false c (G (c :: l) (w ++ 59 :: r) sk) false =
        (false, G (w.reverse ++ c :: l) (59 :: r) sk) := by
  induction w with
  | nil =>
    intro n c l hc
    simp only [List.length_nil, Nat.add_zero, List.nil_append, List.reverse_nil]
    rw [getKeyword_step (n + 1) c l 59 r sk hc, getKeyword_stop]
  | cons x t ih =>
    intro n c l hc
    have hx : kwOk x = true := by simp at hw; exact hw.1
    have ht : t.all kwOk = true := by simp at hw ⊢; exact hw.2
    have e : n + 1 + (x :: t).length + 1 = (n + 1 + t.length + 1) + 1 := by simp only [List.length_cons]; omega
    rw [e, List.cons_append, getKeyword_step _ c l x _ sk hc, ih ht n x (c :: l) hx]
    simp

theorem tailOK_endIso (gE : List Byte) (hgE : Seps gE) (after : List Byte) : TailOK (gE ++ (endIso ++ 59 :: after)) := by
  intro l sk
  have e1 : readTokenSeparator (G l (gE ++ (endIso ++ 59 :: after)) sk) = G (gE.reverse ++ l) (endIso ++ 59 :: after) sk :=
    readTokenSeparator_seps gE hgE l 69 _ sk (by decide) (by decide)
  have e2 : readTokenSeparator (G (gE.reverse ++ l) (endIso ++ 59 :: after) sk) = G (gE.reverse ++ l) (endIso ++ 59 :: after) sk :=
    readTokenSeparator_none _ 69 _ sk (by decide) (by decide)
  rw [e1, e2]
  refine ⟨rfl, ?_⟩
  have e3 : (G (gE.reverse ++ l) (endIso ++ 59 :: after) sk).right.length + 3 = ((after.length + 3) + 1 + 14 + 1) + 1 := by
    simp only [endIso, List.length_append, List.length_cons, List.length_nil]; omega
  rw [e3]
  have hk := getKeyword_word [68, 45, 73, 83, 79, 45, 49, 48, 51, 48, 51, 45, 50, 49] (by decide) after sk
    (after.length + 3) 78 (69 :: (gE.reverse ++ l)) (by decide)
  have hstep : getKeyword (((after.length + 3) + 1 + 14 + 1) + 1) true 0 (G (gE.reverse ++ l) (endIso ++ 59 :: after) sk) false =
      getKeyword ((after.length + 3) + 1 + 14 + 1) false 78
        (G (78 :: 69 :: (gE.reverse ++ l)) ([68, 45, 73, 83, 79, 45, 49, 48, 51, 48, 51, 45, 50, 49] ++ 59 :: after) sk) false := by
    have e69 : (isSpace (69 : Byte) || (69 : Byte) == 59 || (69 : Byte) == 0) = false := by decide
    have u69 : (isUpper (69 : Byte)) = true := by decide
    rw [getKeyword]
    simp only [endIso, List.cons_append, if_true, getInto_good, e69, Bool.false_eq_true, if_false, u69,
      Bool.true_or, Bool.not_true, G_good, List.nil_append]
  rw [hstep]
  have hk' : getKeyword ((after.length + 3) + 1 + 14 + 1) false 78
      (G (78 :: 69 :: (gE.reverse ++ l)) ([68, 45, 73, 83, 79, 45, 49, 48, 51, 48, 51, 45, 50, 49] ++ 59 :: after) sk) false = _ := hk
  rw [hk']
  simp [getInto_good, G_good]

theorem readDataSection_recs (ops : FloatOps F) (lex : LexCfg) (cfg : RWCfg) (hcfg : cfg.skipInstanceSkipsComments = true)
    (d : Dict) (strict : Bool) (sp tail : List Byte) (hsp : sp.all isSpace = true) (htail : TailOK tail)
    (rs : List (Rec F × List Byte)) (g0 : List Byte) (hg0 : Seps g0)
    (h1 : ∀ rg ∈ rs, Rec1OK d rg) (hnd : (rs.map (·.1.id)).Nodup)
    (h2 : ∀ rg ∈ rs, Rec2OK { ops := ops, lex := lex, cfg := cfg, dict := d,
                               lookup := Mgr.lookup d ({ insts := rs.map (mkInst d) } : Mgr F) } strict rg) :
    ∃ res, readDataSection ops lex cfg d strict false (g0 ++ renderRecs rs (endsec sp tail)) = .ok res ∧
      res.mgr.insts = rs.map finInst ∧ res.sev = .null ∧ res.ret = .null ∧ res.created = rs.length ∧
      res.notCreated = 0 ∧ res.valid = rs.length ∧ res.invalid = 0 ∧ res.incomplete = 0 ∧
      ∀ x ∈ res.reported, x = .null := by
  obtain ⟨l1, hp1⟩ := readData1_recs cfg hcfg d sp tail hsp rs g0 hg0 h1 hnd
  rw [readDataSection_eq]
  simp only [bind, Except.bind, hp1, Nat.lt_irrefl, gt_iff_lt, if_false, pure, Except.pure]
  -- pass 2
  have key : ∃ st', readData2Loop ops lex cfg d strict
      ((foundEndSec { right := g0 ++ renderRecs rs (endsec sp tail), skipws := false }).2.right.length + 3)
      { mgr := { insts := rs.map (mkInst d) }, fileErr := .null, total := 0, valid := 0, invalid := 0, incomplete := 0,
        warnings := 0, s := (foundEndSec { right := g0 ++ renderRecs rs (endsec sp tail), skipws := false }).2 }
      (foundEndSec { right := g0 ++ renderRecs rs (endsec sp tail), skipws := false }).1 = .ok st' ∧
      st'.mgr.insts = rs.map finInst ∧ st'.fileErr = .null ∧ st'.valid = rs.length ∧ st'.invalid = 0 ∧
      st'.incomplete = 0 ∧ (∃ l' sk', st'.s = G l' tail sk') ∧ ∀ x ∈ st'.reported, x = .null := by
    rcases foundEndSec_gap g0 hg0 rs sp tail hsp [] false with ⟨hnil, l2, hfe⟩ | ⟨l2, t, ht, hfe⟩
    · have hfe' : foundEndSec { right := g0 ++ renderRecs rs (endsec sp tail), skipws := false } = (true, G l2 tail false) := hfe
      rw [hfe']
      subst hnil
      refine ⟨({ mgr := { insts := [] }, fileErr := .null, total := 0, valid := 0, invalid := 0, incomplete := 0,
                 warnings := 0, s := G l2 tail false } : P2 F), ?_, ?_⟩
      · simp only
        unfold readData2Loop
        simp only [G_good, Bool.not_true, Bool.and_false, Bool.false_eq_true, if_false, pure, Except.pure]
        rfl
      · exact ⟨rfl, rfl, rfl, rfl, rfl, ⟨l2, false, rfl⟩, fun x hx => by simp at hx⟩
    · have hfe' : foundEndSec { right := g0 ++ renderRecs rs (endsec sp tail), skipws := false } =
          (false, G l2 (t ++ renderRecs rs (endsec sp tail)) false) := hfe
      rw [hfe']
      obtain ⟨st', hrun, hdone⟩ := readData2Loop_recs ops lex cfg d strict
        (Mgr.lookup d ({ insts := rs.map (mkInst d) } : Mgr F)) sp tail hsp rs
        ({ mgr := { insts := rs.map (mkInst d) }, fileErr := .null, total := 0, valid := 0, invalid := 0, incomplete := 0,
           warnings := 0, s := G l2 (t ++ renderRecs rs (endsec sp tail)) false } : P2 F) [] t l2 false
        ((t ++ renderRecs rs (endsec sp tail)).length + 3) ht rfl
        (by have := renderRecs_length rs (endsec sp tail); simp only [List.length_append]; omega)
        (by simp) (by intro i hi; simp at hi) hnd rfl h2
      refine ⟨st', hrun, ?_, hdone.err, ?_, hdone.invalid, hdone.incomplete, hdone.s, ?_⟩
      · simpa using hdone.mgr
      · simpa using hdone.valid
      · intro x hx
        rcases hdone.rep x hx with h | h
        · exact h
        · simp at h
  obtain ⟨st', hrun, hm, herr, hv, hinv, hinc, hs, hrep⟩ := key
  rw [hrun]
  simp only
  obtain ⟨f1, f2, f3, f4, f5, f6, f7, f8, f9⟩ := finish_clean
    ({ mgr := { insts := rs.map (mkInst d) }, count := rs.length, notCreated := 0, s := G l1 tail false } : P1 F) st' tail htail hs hv hinv herr
  refine ⟨_, rfl, ?_, f1, f2, f4, f5, ?_, f7, ?_, ?_⟩
  · rw [f3, hm]
  · rw [f6, hv]
  · rw [f8, hinc]
  · rw [f9]; exact hrep

end StepModel.P21.RLemmas

import StepModel.P21.ReaderLemmas17
/-! Both passes over a data section of *items*: records of any shape (internally or externally mapped) given by their text,
the instance pass 1 makes and the outcome pass 2 has - the loop lemmas of ReaderLemmas3/5 with the record text abstracted. -/
namespace StepModel.P21.RLemmas
open StepModel StepModel.IStream StepModel.P21 StepModel.P21.Lemmas StepModel.P21.Grammar

variable {F : Type}

/-- `readInstance_semi` with the `skipws` flag the attribute reader leaves allowed to depend on the stream -/
theorem readInstance_semi_anyflag (ops : FloatOps F) (lex : LexCfg) (cfg : RWCfg) (d : Dict) (strict : Bool) (st : P2 F)
    (r : Rec F) (hlex : r.Lex) (l rest : List Byte) (sk : Bool) (hs : st.s = G l (r.text rest) sk)
    (inst : MInst F) (hfind : st.mgr.find? r.id = some inst) (hnew : inst.state = .new) (hcx : inst.complex = false)
    (p : MPart F) (hparts : inst.parts = [p]) (e : EntityD) (hent : d.entity? p.name = some e)
    (sev0 : Sev) (vals : List (MVal F)) (asev0 : Sev)
    (hrd : ∀ L, ∃ sk1, instSTEPread { ops := ops, lex := lex, cfg := cfg, dict := d, lookup := Mgr.lookup d st.mgr } strict
        e.attrs (G L (40 :: (renderParams r.ps ++ r.t4 rest)) sk) =
          .ok ⟨sev0, vals, G ((40 :: renderParams r.ps).reverse ++ L) (r.t4 rest) sk1, asev0⟩)
    (hno : (cfg.errorResyncsFromStart && decide (sev0.toInt ≤ Sev.warning.toInt)) = false) :
    ∃ l' sk1, readInstance ops lex cfg d strict st =
      .ok { s := G l' rest sk1, inst := some { inst with parts := [{ p with vals := vals }], state := stateOf sev0 },
            reported := some sev0, left := some .null } := by
  obtain ⟨dne, ddig, dhi, h1, h2, h3, h4, hn0, hns, pne⟩ := hlex
  obtain ⟨hn0s, hn047, hn038, hn040, hn033, hn035, hn0d, hn0k, hn092⟩ := alpha_facts hn0
  obtain ⟨c, u, hcu⟩ : ∃ c u, r.ds = c :: u := by
    cases hd : r.ds with
    | nil => exact absurd hd dne
    | cons c u => exact ⟨c, u, rfl⟩
  have hcd : isDigit c = true := by rw [hcu] at ddig; simp at ddig; exact ddig.1
  have hc47 : c ≠ 47 := by intro h; rw [h] at hcd; exact absurd hcd (by decide)
  obtain ⟨x, xr, hXe, hxd⟩ : ∃ x xr, r.t1 rest = x :: xr ∧ isDigit x = false :=
    seps_then r.s1 h1 61 _ (fun c => isDigit c = false) (fun c h => space_not_digit h) (by decide) (by decide)
  have e0 : readComment (G l (r.text rest) sk) = G l (r.text rest) sk := by
    unfold Rec.text; rw [hcu]; exact readComment_none l c _ sk (digit_not_space hcd) hc47
  have e1 : (G l (r.text rest) sk).extractInt32 = (some r.id, G (r.ds.reverse ++ l) (r.t1 rest) sk) := by
    unfold Rec.text; rw [hXe]; exact extractInt32_digits r.ds dne ddig dhi l x xr sk hxd
  have e2 : readTokenSeparator (G (r.ds.reverse ++ l) (r.t1 rest) sk) = G (r.s1.reverse ++ (r.ds.reverse ++ l)) (61 :: r.t2 rest) sk :=
    readTokenSeparator_seps r.s1 h1 (r.ds.reverse ++ l) 61 _ sk (by decide) (by decide)
  have e3 : readTokenSeparator (G (61 :: (r.s1.reverse ++ (r.ds.reverse ++ l))) (r.t2 rest) sk) =
      G (r.s2.reverse ++ 61 :: (r.s1.reverse ++ (r.ds.reverse ++ l))) (r.n0 :: (r.ns ++ r.t3 rest)) sk :=
    readTokenSeparator_seps r.s2 h2 _ r.n0 _ sk hn0s hn047 hn092
  unfold readInstance
  rw [hs, e0]
  simp only [e1, Option.getD_some, hfind, hnew, bne_self_eq_false, Bool.false_eq_true, if_false]
  rw [e2, getInto_good 0 _ 61 _ sk]
  simp only [bne_self_eq_false, Bool.false_eq_true, if_false]
  rw [e3, markStart_G]
  simp only
  rw [peekC_good]
  have e38 : (r.n0 == 38) = false := by simp [hn038]
  have e40 : (r.n0 == 40) = false := by simp [hn040]
  have e33 : (r.n0 == 33) = false := by simp [hn033]
  simp only [e38, e40, Bool.false_eq_true, if_false, bind, Except.bind, pure, Except.pure]
  rw [readTokenSeparator_none _ r.n0 _ sk hn0s hn047 hn092, peekC_good]
  simp only [e33, Bool.false_eq_true, if_false]
  obtain ⟨y, yr, hYe, hyk⟩ : ∃ y yr, r.t3 rest = y :: yr ∧ kwc y = false :=
    seps_then r.s3 h3 40 _ (fun c => kwc c = false) (fun c h => space_not_kwc h) (by decide) (by decide)
  have hkw : (r.n0 :: r.ns).all kwc = true := by simp only [List.all_cons, hn0k, Bool.true_and]; exact hns
  have ekw : readStdKeyword (G (r.s2.reverse ++ 61 :: (r.s1.reverse ++ (r.ds.reverse ++ l))) (r.n0 :: (r.ns ++ r.t3 rest)) sk) =
      (r.n0 :: r.ns, G ((r.n0 :: r.ns).reverse ++ (r.s2.reverse ++ 61 :: (r.s1.reverse ++ (r.ds.reverse ++ l)))) (r.t3 rest) sk) := by
    rw [hYe]
    exact readStdKeyword_spec r.n0 r.ns hkw hn0s y hyk _ yr sk
  rw [ekw]
  simp only
  have e4 : readTokenSeparator (G ((r.n0 :: r.ns).reverse ++ (r.s2.reverse ++ 61 :: (r.s1.reverse ++ (r.ds.reverse ++ l)))) (r.t3 rest) sk) =
      G (r.s3.reverse ++ ((r.n0 :: r.ns).reverse ++ (r.s2.reverse ++ 61 :: (r.s1.reverse ++ (r.ds.reverse ++ l)))))
        (40 :: (renderParams r.ps ++ r.t4 rest)) sk :=
    readTokenSeparator_seps r.s3 h3 _ 40 _ sk (by decide) (by decide)
  rw [e4]
  obtain ⟨sk1, hrd'⟩ := hrd (r.s3.reverse ++ ((r.n0 :: r.ns).reverse ++ (r.s2.reverse ++ 61 :: (r.s1.reverse ++ (r.ds.reverse ++ l)))))
  simp only [hcx, Bool.false_eq_true, if_false, hparts, hent]
  rw [hrd']
  simp only
  have e5 : ∀ L, readTokenSeparator (G L (r.t4 rest) sk1) = G (r.s4.reverse ++ L) (59 :: rest) sk1 :=
    fun L => readTokenSeparator_seps r.s4 h4 L 59 rest sk1 (by decide) (by decide)
  rw [e5, peekC_good]
  have e69 : ((59 : Byte) != 69) = true := by decide
  have hno' : (cfg.errorResyncsFromStart && decide (sev0.toInt ≤ Sev.warning.toInt)) = false := hno
  cases hm : cfg.missingSemicolonReported <;>
    simp only [Bool.false_eq_true, if_false, if_true, beq_self_eq_true, e69, hno',
      shiftInto_good _ _ 59 rest sk1 (by decide)] <;>
    exact ⟨_, _, rfl⟩


/-- a record as the loops of the two passes see it: its text behind the `#` up to and including the `;`, the layout after
    it, its id, the instance pass 1 makes, the instance and severity pass 2 leaves -/
structure Item (F : Type) where
  body : List Byte
  g : List Byte
  id : Int
  mkI : MInst F
  out : MInst F
  sev : Sev

def renderItems : List (Item F) → List Byte → List Byte
  | [], fin => fin
  | x :: xs, fin => 35 :: (x.body ++ (x.g ++ renderItems xs fin))

theorem renderItems_head (xs : List (Item F)) (sp tail : List Byte) :
    ∃ c k, renderItems xs (endsec sp tail) = c :: k ∧ (c = 35 ∨ c = 69) := by
  cases xs with
  | nil => exact ⟨69, _, rfl, Or.inr rfl⟩
  | cons x xs => exact ⟨35, _, rfl, Or.inl rfl⟩

theorem renderItems_length (xs : List (Item F)) (fin : List Byte) : xs.length ≤ (renderItems xs fin).length := by
  induction xs with
  | nil => simp
  | cons x xs ih => simp only [renderItems, List.length_cons, List.length_append]; omega

/-- pass 1 on the item, in any manager that does not hold its id -/
def Item1OK (cfg : RWCfg) (d : Dict) (x : Item F) : Prop :=
  Seps x.g ∧ x.mkI.id = x.id ∧
  ∀ (m : Mgr F), m.find? x.id = none → ∀ (l : List Byte) (c : Byte) (k : List Byte), isSpace c = false → c ≠ 47 → c ≠ 92 →
    ∃ l', createInstance cfg d m (G l (x.body ++ (x.g ++ c :: k)) false) = .ok (some x.mkI, G l' (c :: k) false)

/-- pass 2 on the item, in any state whose manager holds the instance pass 1 made -/
def Item2OK (ops : FloatOps F) (lex : LexCfg) (cfg : RWCfg) (d : Dict) (strict : Bool) (lk : Lookup) (x : Item F) : Prop :=
  Seps x.g ∧ x.mkI.id = x.id ∧ x.out.id = x.id ∧ keyOf x.out = keyOf x.mkI ∧
  ∀ (st : P2 F) (l : List Byte) (rest : List Byte) (sk : Bool),
    st.mgr.find? x.id = some x.mkI → Mgr.lookup d st.mgr = lk → st.s = G l (x.body ++ rest) sk →
    ∃ l' sk', readInstance ops lex cfg d strict st =
      .ok { s := G l' rest sk', inst := some x.out, reported := some x.sev, left := some .null }

def errAfterI (e : Sev) (xs : List (Item F)) : Sev := xs.foldl (fun e x => appendEntityError e x.sev) e

theorem foundEndSec_gapI (g : List Byte) (hg : Seps g) (rs : List (Item F)) (sp tail : List Byte)
    (hsp : sp.all isSpace = true) (l : List Byte) (sk : Bool) :
    (rs = [] ∧ ∃ l', foundEndSec (G l (g ++ renderItems rs (endsec sp tail)) sk) = (true, G l' tail sk)) ∨
    (∃ l' t, Seps t ∧ foundEndSec (G l (g ++ renderItems rs (endsec sp tail)) sk) = (false, G l' (t ++ renderItems rs (endsec sp tail)) sk)) := by
  obtain ⟨sp0, t, hgt, hsp0, ht, htc⟩ := hg.split
  rcases htc with rfl | ⟨u, rfl⟩
  · cases rs with
    | nil =>
      left
      refine ⟨rfl, ?_⟩
      rw [hgt]
      simpa [renderItems] using foundEndSec_yes l sp0 sp tail sk hsp0 hsp
    | cons rg rs =>
      right
      refine ⟨sp0.reverse ++ l, [], Seps.blanks [] (by simp), ?_⟩
      rw [hgt]
      simpa [renderItems] using foundEndSec_no l sp0 35 _ sk hsp0 (by decide) (by decide)
  · right
    refine ⟨sp0.reverse ++ l, 47 :: u, ht, ?_⟩
    rw [hgt]
    simpa using foundEndSec_no l sp0 47 (u ++ renderItems rs (endsec sp tail)) sk hsp0 (by decide) (by decide)


theorem readData1Loop_items (cfg : RWCfg) (hcfg : cfg.skipInstanceSkipsComments = true) (d : Dict) (sp tail : List Byte)
    (hsp : sp.all isSpace = true) :
    ∀ (rs : List (Item F)) (st : P1 F) (g0 l : List Byte) (fuel : Nat),
      Seps g0 → st.s = G l (g0 ++ renderItems rs (endsec sp tail)) false → rs.length + 2 ≤ fuel →
      (∀ rg ∈ rs, Item1OK cfg d rg) → (rs.map (·.id)).Nodup → (∀ i ∈ st.mgr.insts, ∀ rg ∈ rs, i.id ≠ rg.id) →
      ∃ l', readData1Loop cfg d fuel st false =
        .ok { mgr := { insts := st.mgr.insts ++ rs.map (·.mkI) }, count := st.count + rs.length,
              notCreated := st.notCreated, s := G l' tail false } := by
  intro rs
  induction rs with
  | nil =>
    intro st g0 l fuel hg0 hs hf _ _ _
    obtain ⟨l', h⟩ := readData1Loop_end cfg d st g0 l sp tail hg0 hsp hs fuel (by simpa using hf)
    exact ⟨l', by simpa using h⟩
  | cons rg rs ih =>
    intro st g0 l fuel hg0 hs hf hok hnd hfresh
    obtain ⟨hg, hmkid, hci0⟩ := hok rg (by simp)
    match fuel, hf with
    | n + 1, hf =>
      obtain ⟨c, k, hKe, hc⟩ := renderItems_head rs sp tail
      have hcs : isSpace c = false ∧ c ≠ 47 ∧ c ≠ 92 := by rcases hc with rfl | rfl <;> exact ⟨by decide, by decide, by decide⟩
      have hnone : st.mgr.find? rg.id = none := find?_none st.mgr rg.id (fun i hi => hfresh i hi rg (by simp))
      obtain ⟨l1, hci⟩ := hci0 st.mgr hnone (35 :: (g0.reverse ++ l)) c k hcs.1 hcs.2.1 hcs.2.2
      rw [← hKe] at hci
      unfold readData1Loop
      rw [hs]
      simp only [G_good, Bool.not_false, Bool.and_self, if_true, bind, Except.bind, renderItems]
      simp only [readTokenSeparator_seps g0 hg0 l 35 _ false (by decide) (by decide), shiftInto_ns,
        bne_self_eq_false, Bool.false_eq_true, if_false, pure, Except.pure, hci]
      have hnd' : (rs.map (·.id)).Nodup := (List.nodup_cons.mp hnd).2
      have hrid : ∀ y ∈ rs, rg.id ≠ y.id := by
        intro y hy heq
        exact (List.nodup_cons.mp hnd).1 (by show rg.id ∈ _; rw [heq]; exact List.mem_map_of_mem (f := fun x : Item F => x.id) hy)
      rcases foundEndSec_gapI [] (Seps.blanks [] (by simp)) rs sp tail hsp l1 false with ⟨hnil, l2, hfe⟩ | ⟨l2, t, ht, hfe⟩
      · simp only [List.nil_append] at hfe
        rw [hfe]
        subst hnil
        refine ⟨l2, ?_⟩
        obtain ⟨m, rfl⟩ : ∃ m, n = m + 1 := ⟨n - 1, by simp only [List.length_cons] at hf; omega⟩
        unfold readData1Loop
        simp
        rfl
      · simp only [List.nil_append] at hfe
        rw [hfe]
        simp only
        obtain ⟨l3, hih⟩ := ih (⟨⟨st.mgr.insts ++ [rg.mkI]⟩, st.count + 1, st.notCreated,
            G l2 (t ++ renderItems rs (endsec sp tail)) false⟩ : P1 F) t l2 n ht rfl
          (by simp only [List.length_cons] at hf; omega) (fun x hx => hok x (by simp [hx])) hnd'
          (by
            intro i hi x hx
            simp only [List.mem_append, List.mem_singleton] at hi
            rcases hi with hi | rfl
            · exact hfresh i hi x (by simp [hx])
            · rw [hmkid]; exact hrid x hx)
        refine ⟨l3, ?_⟩
        rw [hih]
        simp [Nat.add_assoc, Nat.add_comm 1]


theorem readData1_items (cfg : RWCfg) (hcfg : cfg.skipInstanceSkipsComments = true) (d : Dict) (sp tail : List Byte)
    (hsp : sp.all isSpace = true) (rs : List (Item F)) (g0 : List Byte) (hg0 : Seps g0)
    (hok : ∀ rg ∈ rs, Item1OK cfg d rg) (hnd : (rs.map (·.id)).Nodup) :
    ∃ l', readData1 (F := F) cfg d { right := g0 ++ renderItems rs (endsec sp tail), skipws := false } =
      .ok { mgr := { insts := rs.map (·.mkI) }, count := rs.length, notCreated := 0, s := G l' tail false } := by
  unfold readData1
  rcases foundEndSec_gapI g0 hg0 rs sp tail hsp [] false with ⟨hnil, l2, hfe⟩ | ⟨l2, t, ht, hfe⟩
  · have hfe' : foundEndSec { right := g0 ++ renderItems rs (endsec sp tail), skipws := false } = (true, G l2 tail false) := hfe
    rw [hfe']
    subst hnil
    refine ⟨l2, ?_⟩
    simp only
    unfold readData1Loop
    simp
    rfl
  · have hfe' : foundEndSec { right := g0 ++ renderItems rs (endsec sp tail), skipws := false } =
        (false, G l2 (t ++ renderItems rs (endsec sp tail)) false) := hfe
    rw [hfe']
    simp only
    obtain ⟨l3, h⟩ := readData1Loop_items cfg hcfg d sp tail hsp rs
      (⟨{}, 0, 0, G l2 (t ++ renderItems rs (endsec sp tail)) false⟩ : P1 F) t l2
      ((t ++ renderItems rs (endsec sp tail)).length + 3) ht rfl
      (by have := renderItems_length rs (endsec sp tail); simp only [List.length_append]; omega) hok hnd
      (by intro i hi; simp at hi)
    refine ⟨l3, ?_⟩
    simpa using h


structure P2Items (st st' : P2 F) (insts : List (MInst F)) (xs : List (Item F)) (tail : List Byte) : Prop where
  mgr : st'.mgr.insts = insts
  err : st'.fileErr = errAfterI st.fileErr xs
  total : st'.total = st.total + xs.length
  valid : st'.valid = st.valid + xs.length
  invalid : st'.invalid = st.invalid
  incomplete : st'.incomplete = st.incomplete
  s : ∃ l' sk', st'.s = G l' tail sk'
  rep : st'.reported = (xs.map (·.sev)).reverse ++ st.reported

theorem readData2Loop_items (ops : FloatOps F) (lex : LexCfg) (cfg : RWCfg) (d : Dict) (strict : Bool) (lk : Lookup)
    (sp tail : List Byte) (hsp : sp.all isSpace = true) :
    ∀ (xs : List (Item F)) (st : P2 F) (pre : List (MInst F)) (g0 l : List Byte) (fuel : Nat) (sk : Bool),
      Seps g0 → st.s = G l (g0 ++ renderItems xs (endsec sp tail)) sk → xs.length + 2 ≤ fuel →
      st.mgr.insts = pre ++ xs.map (·.mkI) → (∀ i ∈ pre, ∀ x ∈ xs, i.id ≠ x.id) →
      (xs.map (·.id)).Nodup → Mgr.lookup d st.mgr = lk →
      (∀ x ∈ xs, Item2OK ops lex cfg d strict lk x) →
      ∃ st', readData2Loop ops lex cfg d strict fuel st false = .ok st' ∧
        P2Items st st' (pre ++ xs.map (·.out)) xs tail := by
  intro xs
  induction xs with
  | nil =>
    intro st pre g0 l fuel sk hg0 hs hf hm _ _ _ _
    obtain ⟨l', h⟩ := readData2Loop_end ops lex cfg d strict st g0 l sp tail sk hg0 hsp hs fuel (by simpa using hf)
    exact ⟨_, h, ⟨by simpa using hm, rfl, rfl, rfl, rfl, rfl, ⟨l', sk, rfl⟩, by simp⟩⟩
  | cons x xs ih =>
    intro st pre g0 l fuel sk hg0 hs hf hm hfresh hnd hlk hok
    obtain ⟨hg, hmkid, hid0, hkey, hstep⟩ := hok x (by simp)
    have hid : x.out.id = x.mkI.id := by rw [hid0, hmkid]
    have hnd' : (xs.map (·.id)).Nodup := (List.nodup_cons.mp hnd).2
    have hrid : ∀ y ∈ xs, x.id ≠ y.id := by
      intro y hy heq
      exact (List.nodup_cons.mp hnd).1 (by show x.id ∈ _; rw [heq]; exact List.mem_map_of_mem (f := fun y : Item F => y.id) hy)
    have hmgr : st.mgr = { insts := pre ++ x.mkI :: xs.map (·.mkI) } :=
      Mgr.eq_of_insts _ _ hm
    have hpre : ∀ i ∈ pre, i.id ≠ (x.mkI).id := fun i hi => by rw [hmkid]; exact hfresh i hi x (by simp)
    have hpost : ∀ i ∈ xs.map (·.mkI), i.id ≠ (x.mkI).id := by
      intro i hi
      obtain ⟨y, hy, rfl⟩ := List.mem_map.mp hi
      obtain ⟨_, hymk, _⟩ := hok y (by simp [hy])
      rw [hymk, hmkid]
      exact fun h => hrid y hy h.symm
    match fuel, hf with
    | n + 1, hf =>
      obtain ⟨l1, sk1, hri⟩ := hstep
        { st with s := G (35 :: (g0.reverse ++ l)) (x.body ++ (x.g ++ renderItems xs (endsec sp tail))) sk }
        _ _ sk (by show st.mgr.find? _ = _; rw [hmgr, ← hmkid]; exact find?_mid pre _ (x.mkI) hpre) hlk rfl
      have hupd : st.mgr.update x.out = { insts := pre ++ x.out :: xs.map (·.mkI) } := by
        rw [hmgr]; exact update_mid pre _ (x.mkI) x.out hid hpre hpost
      unfold readData2Loop
      rw [hs]
      simp only [G_good, Bool.not_false, Bool.and_self, if_true, bind, Except.bind, List.map_cons, renderItems]
      simp only [readTokenSeparator_seps g0 hg0 l 35 _ sk (by decide) (by decide), shiftInto_good 0 _ 35 _ sk (by decide),
        bne_self_eq_false, Bool.false_eq_true, if_false, pure, Except.pure]
      have hri' := hri
      try simp only [Step.rg] at hri'
      rw [hri']
      simp only
      have hap : applyOutcome st
          { s := G l1 (x.g ++ renderItems xs (endsec sp tail)) sk1, inst := some x.out,
            reported := some x.sev, left := some .null } =
          { st with mgr := st.mgr.update x.out, fileErr := appendEntityError st.fileErr x.sev, reported := x.sev :: st.reported,
                    s := G l1 (x.g ++ renderItems xs (endsec sp tail)) sk1, total := st.total + 1, valid := st.valid + 1 } := rfl
      have hap' := hap
      try simp only [Step.rg] at hap'
      rw [hap', hupd]
      rcases foundEndSec_gapI x.g hg xs sp tail hsp l1 sk1 with ⟨hnil, l2, hfe⟩ | ⟨l2, t, ht, hfe⟩
      · have hfe' := hfe
        try simp only [Step.rg] at hfe'
        simp only [hfe']
        have hxs : xs = [] := by simpa using hnil
        subst hxs
        obtain ⟨m, rfl⟩ : ∃ m, n = m + 1 := ⟨n - 1, by simp only [List.length_cons] at hf; omega⟩
        unfold readData2Loop
        simp only [G_good, Bool.not_true, Bool.and_false, Bool.false_eq_true, if_false, pure, Except.pure]
        exact ⟨_, rfl, ⟨by simp, by simp [errAfterI], rfl, rfl, rfl, rfl, ⟨l2, sk1, rfl⟩, by simp⟩⟩
      · have hfe' := hfe
        try simp only [Step.rg] at hfe'
        simp only [hfe']
        obtain ⟨st', hrun, hdone⟩ := ih
          ({ st with mgr := { insts := pre ++ x.out :: xs.map (·.mkI) },
                     fileErr := appendEntityError st.fileErr x.sev, reported := x.sev :: st.reported,
                     s := G l2 (t ++ renderItems xs (endsec sp tail)) sk1, total := st.total + 1,
                     valid := st.valid + 1 } : P2 F)
          (pre ++ [x.out]) t l2 n sk1 ht rfl (by simp only [List.length_cons] at hf; omega) (by simp)
          (by
            intro i hi y hy
            simp only [List.mem_append, List.mem_singleton] at hi
            rcases hi with hi | rfl
            · exact hfresh i hi y (by simp [hy])
            · rw [hid0]; exact hrid y hy)
          hnd'
          (by
            rw [← hlk, hmgr]
            apply lookup_congr
            simp only [List.map_append, List.map_cons, hkey])
          (fun y hy => hok y (by simp [hy]))
        have hrun' := hrun
        try simp only [Step.rg] at hrun'
        refine ⟨st', hrun', ⟨?_, ?_, ?_, ?_, ?_, ?_, hdone.s, ?_⟩⟩
        · rw [hdone.mgr]; simp
        · rw [hdone.err]; simp [errAfterI]
        · rw [hdone.total]; simp only [List.length_cons]; omega
        · rw [hdone.valid]; simp only [List.length_cons]; omega
        · rw [hdone.invalid]
        · rw [hdone.incomplete]
        · rw [hdone.rep]; simp


theorem readDataSection_items (ops : FloatOps F) (lex : LexCfg) (cfg : RWCfg) (hcfg : cfg.skipInstanceSkipsComments = true)
    (d : Dict) (strict : Bool) (sp tail : List Byte) (hsp : sp.all isSpace = true) (htail : TailOK tail)
    (xs : List (Item F)) (g0 : List Byte) (hg0 : Seps g0)
    (h1 : ∀ x ∈ xs, Item1OK cfg d x) (hnd : (xs.map (·.id)).Nodup)
    (h2 : ∀ x ∈ xs, Item2OK ops lex cfg d strict
            (Mgr.lookup d ({ insts := xs.map (·.mkI) } : Mgr F)) x) :
    ∃ res, readDataSection ops lex cfg d strict false (g0 ++ renderItems xs (endsec sp tail)) = .ok res ∧
      res.mgr.insts = xs.map (·.out) ∧ res.sev = errAfterI .null xs ∧ res.created = xs.length ∧
      res.notCreated = 0 ∧ res.valid = xs.length ∧ res.invalid = 0 ∧
      res.reported = (xs.map (·.sev)).reverse := by
  obtain ⟨l1, hp1⟩ := readData1_items cfg hcfg d sp tail hsp xs g0 hg0 h1 hnd
  rw [readDataSection_eq]
  simp only [bind, Except.bind, hp1, Nat.lt_irrefl, gt_iff_lt, if_false, pure, Except.pure]
  have key : ∃ st', readData2Loop ops lex cfg d strict
      ((foundEndSec { right := g0 ++ renderItems xs (endsec sp tail), skipws := false }).2.right.length + 3)
      { mgr := { insts := xs.map (·.mkI) }, fileErr := .null, total := 0, valid := 0, invalid := 0, incomplete := 0,
        warnings := 0, s := (foundEndSec { right := g0 ++ renderItems xs (endsec sp tail), skipws := false }).2 }
      (foundEndSec { right := g0 ++ renderItems xs (endsec sp tail), skipws := false }).1 = .ok st' ∧
      st'.mgr.insts = xs.map (·.out) ∧ st'.fileErr = errAfterI .null xs ∧ st'.valid = xs.length ∧ st'.invalid = 0 ∧
      (∃ l' sk', st'.s = G l' tail sk') ∧ st'.reported = (xs.map (·.sev)).reverse := by
    rcases foundEndSec_gapI g0 hg0 xs sp tail hsp [] false with ⟨hnil, l2, hfe⟩ | ⟨l2, t, ht, hfe⟩
    · have hfe' : foundEndSec { right := g0 ++ renderItems xs (endsec sp tail), skipws := false } = (true, G l2 tail false) := hfe
      rw [hfe']
      have hxs : xs = [] := by simpa using hnil
      subst hxs
      refine ⟨({ mgr := { insts := [] }, fileErr := .null, total := 0, valid := 0, invalid := 0, incomplete := 0,
                 warnings := 0, s := G l2 tail false } : P2 F), ?_, ?_⟩
      · simp only
        unfold readData2Loop
        simp only [G_good, Bool.not_true, Bool.and_false, Bool.false_eq_true, if_false, pure, Except.pure]
        rfl
      · exact ⟨rfl, rfl, rfl, rfl, ⟨l2, false, rfl⟩, rfl⟩
    · have hfe' : foundEndSec { right := g0 ++ renderItems xs (endsec sp tail), skipws := false } =
          (false, G l2 (t ++ renderItems xs (endsec sp tail)) false) := hfe
      rw [hfe']
      obtain ⟨st', hrun, hdone⟩ := readData2Loop_items ops lex cfg d strict
        (Mgr.lookup d ({ insts := xs.map (·.mkI) } : Mgr F)) sp tail hsp xs
        ({ mgr := { insts := xs.map (·.mkI) }, fileErr := .null, total := 0, valid := 0, invalid := 0, incomplete := 0,
           warnings := 0, s := G l2 (t ++ renderItems xs (endsec sp tail)) false } : P2 F) [] t l2
        ((t ++ renderItems xs (endsec sp tail)).length + 3) false ht rfl
        (by have := renderItems_length xs (endsec sp tail); simp only [List.length_append, List.length_map] at this ⊢; omega)
        (by simp) (by intro i hi; simp at hi) hnd rfl h2
      refine ⟨st', hrun, ?_, hdone.err, ?_, hdone.invalid, hdone.s, ?_⟩
      · simpa using hdone.mgr
      · simpa using hdone.valid
      · simpa using hdone.rep
  obtain ⟨st', hrun, hm, herr, hv, hinv, hs, hrep⟩ := key
  rw [hrun]
  simp only
  obtain ⟨f1, f2, f3, f4, f5, f6, f7⟩ := finish_counts
    ({ mgr := { insts := xs.map (·.mkI) }, count := xs.length, notCreated := 0, s := G l1 tail false } : P1 F) st' tail htail hs hv hinv
  refine ⟨_, rfl, ?_, ?_, f3, f4, ?_, f6, ?_⟩
  · rw [f2, hm]
  · rw [f1, herr]
  · rw [f5, hv]
  · rw [f7, hrep]


end StepModel.P21.RLemmas

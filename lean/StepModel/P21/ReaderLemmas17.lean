import StepModel.P21.ReaderLemmas11
/-! Externally mapped (subtype/supertype) records, pass 1: `CreateSubSuperInstance` with `SkipSimpleRecord` over every
part's parameter list (record level). -/
namespace StepModel.P21.RLemmas
open StepModel StepModel.IStream StepModel.P21 StepModel.P21.Lemmas StepModel.P21.Grammar

variable {F : Type}

/-- the loop of `SkipSimpleRecord` over balanced text (nested parentheses, string literals) up to the closing `)` of the
    parameter list: everything is consumed, the shared error descriptor is untouched -/
theorem skipRecLoop_bal (stop : Bool) (body : List Byte) (hb : Bal body) :
    ∀ (fuel : Nat) (err : Sev) (l rest : List Byte) (sk : Bool), body.length + 1 ≤ fuel → ¬ err.toInt ≤ Sev.inputError.toInt →
      skipRecLoop stop fuel err (G l (body ++ 41 :: rest) sk) = .ok (G (41 :: (body.reverse ++ l)) rest sk, err) := by
  induction hb with
  | nil =>
    intro fuel err l rest sk hf he
    match fuel, hf with
    | n + 1, _ =>
      unfold skipRecLoop
      simp [getInto_good, G, IStream.failed, pure, Except.pure]
  | plain c t h40 h41 hp ht iht =>
    intro fuel err l rest sk hf he
    have h39 : c ≠ 39 := plainc_ne39 hp
    match fuel, hf with
    | n + 1, hf =>
      have e41 : (c == 41) = false := by simpa using h41
      have e40 : (c == 40) = false := by simpa using h40
      have e39 : (c == 39) = false := by simpa using h39
      unfold skipRecLoop
      simp only [List.cons_append, getInto_good, G, IStream.failed, Bool.or_self, Bool.false_eq_true, if_false, e41, he, e39, e40]
      have := iht n err (c :: l) rest sk (by simp only [List.length_cons] at hf; omega) he
      simp only [G] at this
      rw [this]
      simp
  | str b t hsb ht hnq iht =>
    intro fuel err l rest sk hf he
    obtain ⟨y, ys, hy, hy39⟩ : ∃ y ys, t ++ 41 :: rest = y :: ys ∧ y ≠ 39 := by
      cases t with
      | nil => exact ⟨41, rest, rfl, by decide⟩
      | cons a b' => exact ⟨a, b' ++ 41 :: rest, rfl, by intro h; apply hnq; simp [h]⟩
    match fuel, hf with
    | n + 1, hf =>
      have e41 : ((39 : Byte) == 41) = false := by decide
      unfold skipRecLoop
      simp only [List.cons_append, getInto_good, G, IStream.failed, Bool.or_self, Bool.false_eq_true, if_false, e41, he,
        beq_self_eq_true, if_true]
      have hpb : IStream.putback 39 { left := 39 :: l, right := b ++ 39 :: t ++ 41 :: rest, eof := false, fail := false, bad := false, skipws := sk } =
          G l (39 :: (b ++ 39 :: y :: ys)) sk := by
        have e1 : b ++ 39 :: t ++ 41 :: rest = b ++ 39 :: y :: ys := by rw [← hy]; simp
        rw [e1]; exact putback_good 39 l _ sk
      rw [hpb, getLiteralStr_tok b hsb l sk y ys hy39 err]
      simp only
      have := iht n err (39 :: (b.reverse ++ 39 :: l)) rest sk
        (by simp only [List.length_cons, List.length_append] at hf; omega) he
      rw [← hy, this]
      simp
  | nest inner t hi ht _ iht =>
    intro fuel err l rest sk hf he
    match fuel, hf with
    | n + 1, hf =>
      have e41 : ((40 : Byte) == 41) = false := by decide
      have e39 : ((40 : Byte) == 39) = false := by decide
      unfold skipRecLoop
      simp only [List.cons_append, getInto_good, G, IStream.failed, Bool.or_self, Bool.false_eq_true, if_false, e41, he, e39,
        beq_self_eq_true, if_true, bind, Except.bind]
      have hpb : IStream.putback 40 { left := 40 :: l, right := inner ++ 41 :: t ++ 41 :: rest, eof := false, fail := false, bad := false, skipws := sk } =
          G l (40 :: (inner ++ 41 :: (t ++ 41 :: rest))) sk := by
        have e1 : inner ++ 41 :: t ++ 41 :: rest = inner ++ 41 :: (t ++ 41 :: rest) := by simp
        rw [e1]; exact putback_good 40 l _ sk
      have hpush := pushPastAggr_bal stop inner hi ((inner ++ 41 :: t ++ 41 :: rest).length + 3) (by simp; omega) l [] (t ++ 41 :: rest) sk (by simp) err
      simp only [List.nil_append, List.reverse_nil] at hpush
      rw [hpb]
      have hlen : ({ left := 40 :: l, right := inner ++ 41 :: t ++ 41 :: rest, eof := false, fail := false, bad := false, skipws := sk } : IStream).right.length + 3 =
          (inner ++ 41 :: t ++ 41 :: rest).length + 3 := rfl
      rw [hlen, hpush]
      simp only
      have := iht n err (41 :: (inner.reverse ++ 40 :: l)) rest sk
        (by simp only [List.length_cons, List.length_append] at hf; omega) he
      simp only [G] at this
      rw [this]
      simp

/-- `SkipSimpleRecord` on `blanks ( balanced )`: consumed up to and including the `)`, the descriptor untouched -/
theorem skipSimpleRecord_bal (stop : Bool) (sA inner : List Byte) (hsA : sA.all isSpace = true) (hb : Bal inner)
    (l rest : List Byte) (sk : Bool) :
    skipSimpleRecord stop (G l (sA ++ 40 :: (inner ++ 41 :: rest)) sk) .null =
      .ok (G (41 :: (inner.reverse ++ 40 :: (sA.reverse ++ l))) rest sk, .null) := by
  unfold skipSimpleRecord
  rw [show (G l (sA ++ 40 :: (inner ++ 41 :: rest)) sk).ws = G (sA.reverse ++ l) (40 :: (inner ++ 41 :: rest)) sk
    from ws_good l sA 40 _ sk hsA (by decide)]
  simp only [bind, Except.bind, pure, Except.pure]
  rw [show getInto 0 (G (sA.reverse ++ l) (40 :: (inner ++ 41 :: rest)) sk) = (40, G (40 :: (sA.reverse ++ l)) (inner ++ 41 :: rest) sk)
    from getInto_good 0 _ 40 _ sk]
  simp only [beq_self_eq_true, G, IStream.failed, Bool.or_self, Bool.not_false, Bool.and_self, if_true]
  have h := skipRecLoop_bal stop inner hb ((inner ++ 41 :: rest).length + 3) .null (40 :: (sA.reverse ++ l)) rest sk
    (by simp; omega) (by decide)
  simp only [G] at h
  rw [h]
  simp [IStream.good]

/-- a part of an externally mapped record as pass 1 needs it: an alphabetic keyword, blanks, `( balanced )`, blanks -/
def CPartScan (c : CPart F) : Prop :=
  isAlpha c.n0 = true ∧ c.ns.all kwc = true ∧ c.sA.all isSpace = true ∧ c.sB.all isSpace = true ∧
  ∃ inner, c.body = inner ++ [41] ∧ Bal inner

/-- the part loop of `CreateSubSuperInstance`: every part's keyword is collected (upper case), its parameter list stepped
    over; the loop stops in front of the closing `)` of the record -/
theorem complexNames_parts (stop : Bool) (cs : List (CPart F)) (hok : ∀ c ∈ cs, CPartScan c) :
    ∀ (fuel : Nat) (acc : List String) (c : Byte) (l : List Byte) (sk : Bool) (rest : List Byte),
      cs.length + 1 ≤ fuel → (∀ c0 t, cs = c0 :: t → c = c0.n0) → (cs = [] → c = 41) →
      ∃ l', complexNames stop fuel acc .null c (G l (renderCParts cs ++ 41 :: rest) sk) =
        .ok (acc ++ cs.map (·.name), G l' (41 :: rest) sk) := by
  induction cs with
  | nil =>
    intro fuel acc c l sk rest hf _ hc
    have : c = 41 := hc rfl
    subst this
    match fuel, hf with
    | n + 1, _ =>
      refine ⟨l, ?_⟩
      unfold complexNames
      simp [renderCParts, G_good, pure, Except.pure]
  | cons c0 t ih =>
    intro fuel acc c l sk rest hf hc _
    have hcc : c = c0.n0 := hc c0 t rfl
    subst hcc
    obtain ⟨hn0, hns, hsA, hsB, inner, hbody, hbal⟩ := hok c0 (by simp)
    obtain ⟨hn0s, _, _, _, _, _, _, hn0k, _⟩ := alpha_facts hn0
    have hn041 : (c0.n0 != 41) = true := by
      have : c0.n0 ≠ 41 := by intro h; rw [h] at hn0; exact absurd hn0 (by decide)
      simpa using this
    have hkw : (c0.n0 :: c0.ns).all kwc = true := by simp only [List.all_cons, hn0k, Bool.true_and]; exact hns
    match fuel, hf with
    | n + 1, hf =>
      -- the text behind this part: blanks, then the next part or the closing parenthesis
      obtain ⟨z, zr, hZ, hzs, hz⟩ : ∃ z zr, renderCParts t ++ 41 :: rest = z :: zr ∧ isSpace z = false ∧
          ((t = [] ∧ z = 41) ∨ ∃ c1 t', t = c1 :: t' ∧ z = c1.n0) := by
        cases t with
        | nil => exact ⟨41, rest, rfl, by decide, Or.inl ⟨rfl, rfl⟩⟩
        | cons c1 t' =>
          obtain ⟨h1, _⟩ := hok c1 (by simp)
          exact ⟨c1.n0, _, rfl, (alpha_facts h1).1, Or.inr ⟨c1, t', rfl, rfl⟩⟩
      obtain ⟨y, yr, hYe, hyk⟩ : ∃ y yr, c0.sA ++ 40 :: (c0.body ++ c0.sB ++ (renderCParts t ++ 41 :: rest)) = y :: yr ∧ kwc y = false :=
        seps_then c0.sA (Seps.blanks _ hsA) 40 _ (fun c => kwc c = false) (fun c h => space_not_kwc h) (by decide) (by decide)
      obtain ⟨l', hrec⟩ := ih (fun x hx => hok x (by simp [hx])) n (acc ++ [c0.name]) z
        (c0.sB.reverse ++ (41 :: (inner.reverse ++ 40 :: (c0.sA.reverse ++ ((c0.n0 :: c0.ns).reverse ++ l))))) sk rest
        (by simp only [List.length_cons] at hf; omega)
        (by
          intro c1 t' ht
          rcases hz with ⟨hnil, _⟩ | ⟨c1', t'', ht', hz'⟩
          · rw [hnil] at ht; cases ht
          · rw [ht'] at ht; cases ht; exact hz')
        (by
          intro ht
          rcases hz with ⟨_, hz'⟩ | ⟨c1', t'', ht', _⟩
          · exact hz'
          · rw [ht'] at ht; cases ht)
      refine ⟨l', ?_⟩
      have etext : renderCParts (c0 :: t) ++ 41 :: rest =
          c0.n0 :: (c0.ns ++ (c0.sA ++ 40 :: (c0.body ++ c0.sB ++ (renderCParts t ++ 41 :: rest)))) := by
        simp [renderCParts, CPart.text]
      rw [etext]
      unfold complexNames
      simp only [G_good, hn041, Bool.and_self, if_true, bind, Except.bind, pure, Except.pure]
      have ekw : readStdKeyword (G l (c0.n0 :: (c0.ns ++ (c0.sA ++ 40 :: (c0.body ++ c0.sB ++ (renderCParts t ++ 41 :: rest))))) sk) =
          (c0.n0 :: c0.ns, G ((c0.n0 :: c0.ns).reverse ++ l) (c0.sA ++ 40 :: (c0.body ++ c0.sB ++ (renderCParts t ++ 41 :: rest))) sk) := by
        rw [hYe]; exact readStdKeyword_spec c0.n0 c0.ns hkw hn0s y hyk l yr sk
      rw [ekw]
      simp only [List.isEmpty_cons, Bool.false_eq_true, if_false]
      have e2 : c0.sA ++ 40 :: (c0.body ++ c0.sB ++ (renderCParts t ++ 41 :: rest)) =
          c0.sA ++ 40 :: (inner ++ 41 :: (c0.sB ++ (renderCParts t ++ 41 :: rest))) := by rw [hbody]; simp
      rw [e2, skipSimpleRecord_bal stop c0.sA inner hsA hbal _ _ sk]
      simp only
      rw [hZ, show (G (41 :: (inner.reverse ++ 40 :: (c0.sA.reverse ++ ((c0.n0 :: c0.ns).reverse ++ l)))) (c0.sB ++ z :: zr) sk).ws =
        G (c0.sB.reverse ++ (41 :: (inner.reverse ++ 40 :: (c0.sA.reverse ++ ((c0.n0 :: c0.ns).reverse ++ l))))) (z :: zr) sk
        from ws_good _ c0.sB z zr sk hsB hzs]
      rw [peekC_good]
      simp only
      -- the junk loop has nothing to skip: the next character is a letter or the closing parenthesis
      have hjz : (z != 41 && !isAlpha z) = false := by
        rcases hz with ⟨_, rfl⟩ | ⟨c1, t', ht', rfl⟩
        · decide
        · obtain ⟨h1, _⟩ := hok c1 (by simp [ht'])
          simp [h1]
      unfold complexNames.junk
      simp only [G_good, Bool.true_and, hjz, Bool.false_eq_true, if_false, pure, Except.pure]
      rw [← hZ, show bytesToString (upperBytes (c0.n0 :: c0.ns)) = c0.name from rfl, hrec]
      simp

/-- an externally mapped record `#id blanks/comments = blanks/comments ( PART(…) PART(…) … ) blanks/comments ;` (no layout
    between the outer `(` and the first part) -/
structure CRec (F : Type) where
  ds : List Byte
  s1 : List Byte
  s2 : List Byte
  parts : List (CPart F)
  s4 : List Byte

def CRec.id (r : CRec F) : Int := ((digitsVal r.ds 0 : Nat) : Int)
def CRec.text (r : CRec F) (rest : List Byte) : List Byte :=
  r.ds ++ (r.s1 ++ 61 :: (r.s2 ++ 40 :: (renderCParts r.parts ++ 41 :: (r.s4 ++ 59 :: rest))))

structure CRec.Lex (r : CRec F) : Prop where
  dne : r.ds ≠ []
  ddig : r.ds.all isDigit = true
  dhi : r.id ≤ intMax
  h1 : Seps r.s1
  h2 : Seps r.s2
  h4 : Seps r.s4
  pne : r.parts ≠ []
  parts : ∀ c ∈ r.parts, CPartScan c

/-- the instance `CreateSubSuperInstance` makes: the parts the dictionary knows, sorted by name, every attribute unset -/
def mkCInst (d : Dict) (r : CRec F) : MInst F :=
  { id := r.id,
    parts := (sortNames ((r.parts.map (·.name)).filter (fun n => (d.entity? n).isSome))).map (fun n =>
      { name := n, vals := match d.entity? n with | some e => defaults e.ownAttrs | none => [] }),
    complex := true }

/-- **pass 1 on an externally mapped record** (record level): the part keywords are collected, every part's parameter list
    is stepped over by `SkipSimpleRecord`, and - the sorted set of known part names being a legal combination - the complex
    instance is created with all its parts; the stream is left behind the record's `;` and the layout that follows it -/
theorem createInstance_crec (cfg : RWCfg) (hcfg : cfg.skipInstanceSkipsComments = true) (d : Dict) (m : Mgr F)
    (r : CRec F) (hlex : r.Lex) (hnone : m.find? r.id = none)
    (hlegal : d.complexSets.contains (sortNames ((r.parts.map (·.name)).filter (fun n => (d.entity? n).isSome))) = true)
    (l g : List Byte) (hg : Seps g) (c : Byte) (k : List Byte) (hc : isSpace c = false) (hc47 : c ≠ 47) (hc92 : c ≠ 92) :
    ∃ l', createInstance cfg d m (G l (r.text (g ++ c :: k)) false) = .ok (some (mkCInst d r), G l' (c :: k) false) := by
  obtain ⟨dne, ddig, dhi, h1, h2, h4, pne, hparts⟩ := hlex
  obtain ⟨c0, u, hcu⟩ : ∃ c0 u, r.ds = c0 :: u := by
    cases hd : r.ds with
    | nil => exact absurd hd dne
    | cons c u => exact ⟨c, u, rfl⟩
  have hcd : isDigit c0 = true := by rw [hcu] at ddig; simp at ddig; exact ddig.1
  have hc047 : c0 ≠ 47 := by intro h; rw [h] at hcd; exact absurd hcd (by decide)
  have hc092 : c0 ≠ 92 := by intro h; rw [h] at hcd; exact absurd hcd (by decide)
  obtain ⟨p0, pt, hp0⟩ : ∃ p0 pt, r.parts = p0 :: pt := by
    cases hp : r.parts with
    | nil => exact absurd hp pne
    | cons p0 pt => exact ⟨p0, pt, rfl⟩
  generalize hrest : g ++ c :: k = rest
  let T1 := r.s1 ++ 61 :: (r.s2 ++ 40 :: (renderCParts r.parts ++ 41 :: (r.s4 ++ 59 :: rest)))
  obtain ⟨x, xr, hXe, hxd⟩ : ∃ x xr, T1 = x :: xr ∧ isDigit x = false :=
    seps_then r.s1 h1 61 _ (fun c => isDigit c = false) (fun c h => space_not_digit h) (by decide) (by decide)
  have e0 : readTokenSeparator (G l (r.text rest) false) = G l (r.text rest) false := by
    unfold CRec.text; rw [hcu]; exact readTokenSeparator_none l c0 _ false (digit_not_space hcd) hc047 hc092
  have e1 : (G l (r.text rest) false).extractInt32 = (some r.id, G (r.ds.reverse ++ l) T1 false) := by
    unfold CRec.text; show (G l (r.ds ++ T1) false).extractInt32 = _
    rw [hXe]; exact extractInt32_digits r.ds dne ddig dhi l x xr false hxd
  have e2 : readTokenSeparator (G (r.ds.reverse ++ l) T1 false) =
      G (r.s1.reverse ++ (r.ds.reverse ++ l)) (61 :: (r.s2 ++ 40 :: (renderCParts r.parts ++ 41 :: (r.s4 ++ 59 :: rest)))) false :=
    readTokenSeparator_seps r.s1 h1 (r.ds.reverse ++ l) 61 _ false (by decide) (by decide)
  have e3 : readTokenSeparator (G (61 :: (r.s1.reverse ++ (r.ds.reverse ++ l))) (r.s2 ++ 40 :: (renderCParts r.parts ++ 41 :: (r.s4 ++ 59 :: rest))) false) =
      G (r.s2.reverse ++ 61 :: (r.s1.reverse ++ (r.ds.reverse ++ l))) (40 :: (renderCParts r.parts ++ 41 :: (r.s4 ++ 59 :: rest))) false :=
    readTokenSeparator_seps r.s2 h2 _ 40 _ false (by decide) (by decide)
  -- the part loop
  have hhead : ∃ tl, renderCParts r.parts ++ 41 :: (r.s4 ++ 59 :: rest) = p0.n0 :: tl := by
    rw [hp0]
    exact ⟨p0.ns ++ (p0.sA ++ 40 :: (p0.body ++ p0.sB)) ++ (renderCParts pt ++ 41 :: (r.s4 ++ 59 :: rest)), by simp [renderCParts, CPart.text]⟩
  obtain ⟨tl, htl⟩ := hhead
  obtain ⟨lN, hnames⟩ := complexNames_parts cfg.rawValueStaysInRecord r.parts hparts
    ((renderCParts r.parts ++ 41 :: (r.s4 ++ 59 :: rest)).length + 3) [] p0.n0
    (40 :: (r.s2.reverse ++ 61 :: (r.s1.reverse ++ (r.ds.reverse ++ l)))) false (r.s4 ++ 59 :: rest)
    (by have := renderCParts_length r.parts; simp only [List.length_append]; omega)
    (by intro c1 t' h; rw [hp0] at h; cases h; rfl) (by intro h; exact absurd h pne)
  -- `SkipInstance` from the closing parenthesis to the `;`
  have hT : Passes (41 :: r.s4) := Passes.append (a := [41]) (Passes.plain 41 (by decide)) (Passes.seps h4)
  unfold createInstance
  rw [e0]
  simp only [e1, Option.getD_some, hnone, Option.isSome_none, Bool.false_eq_true, if_false]
  rw [e2, getInto_good 0 _ 61 _ false]
  simp only [bne_self_eq_false, Bool.false_eq_true, if_false]
  rw [e3, peekC_good]
  have e38 : ((40 : Byte) == 38) = false := by decide
  simp only [e38, Bool.false_eq_true, if_false, beq_self_eq_true, if_true, bind, Except.bind, pure, Except.pure]
  rw [show (G (r.s2.reverse ++ 61 :: (r.s1.reverse ++ (r.ds.reverse ++ l))) (40 :: (renderCParts r.parts ++ 41 :: (r.s4 ++ 59 :: rest))) false).ws = _
    from ws_good0 _ 40 _ false (by decide)]
  rw [getInto_good 40 _ 40 _ false, htl, peekC_good, ← htl]
  have hlen : (G (40 :: (r.s2.reverse ++ 61 :: (r.s1.reverse ++ (r.ds.reverse ++ l)))) (renderCParts r.parts ++ 41 :: (r.s4 ++ 59 :: rest)) false).right.length + 3 =
      (renderCParts r.parts ++ 41 :: (r.s4 ++ 59 :: rest)).length + 3 := rfl
  simp only [hlen, hnames, List.nil_append]
  have eT : 41 :: (r.s4 ++ 59 :: rest) = (41 :: r.s4) ++ 59 :: rest := by simp
  rw [eT, skipInstance_passes cfg hcfg _ hT]
  simp only [hlegal, if_true]
  subst hrest
  rw [readTokenSeparator_seps g hg _ c k false hc hc47 hc92]
  exact ⟨_, rfl⟩

/-- **pass 2 on an externally mapped record** (record level): `ReadInstance` finds the complex instance pass 1 made,
    `STEPcomplex::STEPread` reads every part to the values of its tokens without a message, the `;` is read: the instance
    is complete with all parts set, severity NULL (reported to the file error in the source that reports complex instances) -/
theorem readInstance_crec (ops : FloatOps F) (lex : LexCfg) (cfg : RWCfg) (d : Dict) (strict : Bool) (st : P2 F)
    (hrep : cfg.complexReportsError = true)
    (r : CRec F) (hlex : r.Lex) (l rest : List Byte) (sk : Bool) (hs : st.s = G l (r.text rest) sk)
    (inst : MInst F) (hfind : st.mgr.find? r.id = some inst) (hnew : inst.state = .new) (hcx : inst.complex = true)
    (hok : ∀ c ∈ r.parts, CPartOK { ops := ops, lex := lex, cfg := cfg, dict := d, lookup := Mgr.lookup d st.mgr }
        (cfg.complexPartStrict.getD strict) c)
    (hnames : ∀ c ∈ r.parts, c.name ∈ inst.parts.map (·.name)) :
    ∃ l' sk', readInstance ops lex cfg d strict st =
      .ok { s := G l' rest sk',
            inst := some { inst with parts := r.parts.foldl (fun ps c => setPart ps c.name c.vals) inst.parts, state := .complete },
            reported := some .null, left := some .null } := by
  obtain ⟨dne, ddig, dhi, h1, h2, h4, pne, hparts⟩ := hlex
  obtain ⟨c, u, hcu⟩ : ∃ c u, r.ds = c :: u := by
    cases hd : r.ds with
    | nil => exact absurd hd dne
    | cons c u => exact ⟨c, u, rfl⟩
  have hcd : isDigit c = true := by rw [hcu] at ddig; simp at ddig; exact ddig.1
  have hc47 : c ≠ 47 := by intro h; rw [h] at hcd; exact absurd hcd (by decide)
  let T1 := r.s1 ++ 61 :: (r.s2 ++ 40 :: (renderCParts r.parts ++ 41 :: (r.s4 ++ 59 :: rest)))
  obtain ⟨x, xr, hXe, hxd⟩ : ∃ x xr, T1 = x :: xr ∧ isDigit x = false :=
    seps_then r.s1 h1 61 _ (fun c => isDigit c = false) (fun c h => space_not_digit h) (by decide) (by decide)
  have e0 : readComment (G l (r.text rest) sk) = G l (r.text rest) sk := by
    unfold CRec.text; rw [hcu]; exact readComment_none l c _ sk (digit_not_space hcd) hc47
  have e1 : (G l (r.text rest) sk).extractInt32 = (some r.id, G (r.ds.reverse ++ l) T1 sk) := by
    unfold CRec.text; show (G l (r.ds ++ T1) sk).extractInt32 = _
    rw [hXe]; exact extractInt32_digits r.ds dne ddig dhi l x xr sk hxd
  have e2 : readTokenSeparator (G (r.ds.reverse ++ l) T1 sk) =
      G (r.s1.reverse ++ (r.ds.reverse ++ l)) (61 :: (r.s2 ++ 40 :: (renderCParts r.parts ++ 41 :: (r.s4 ++ 59 :: rest)))) sk :=
    readTokenSeparator_seps r.s1 h1 (r.ds.reverse ++ l) 61 _ sk (by decide) (by decide)
  have e3 : readTokenSeparator (G (61 :: (r.s1.reverse ++ (r.ds.reverse ++ l))) (r.s2 ++ 40 :: (renderCParts r.parts ++ 41 :: (r.s4 ++ 59 :: rest))) sk) =
      G (r.s2.reverse ++ 61 :: (r.s1.reverse ++ (r.ds.reverse ++ l))) (40 :: (renderCParts r.parts ++ 41 :: (r.s4 ++ 59 :: rest))) sk :=
    readTokenSeparator_seps r.s2 h2 _ 40 _ sk (by decide) (by decide)
  obtain ⟨l1, sk1, hrd⟩ := complexSTEPread_parts _ (cfg.complexPartStrict.getD strict) inst.parts r.parts hok hnames [] (by simp)
    (r.s2.reverse ++ 61 :: (r.s1.reverse ++ (r.ds.reverse ++ l))) sk (r.s4 ++ 59 :: rest)
  simp only [List.nil_append] at hrd
  unfold readInstance
  rw [hs, e0]
  simp only [e1, Option.getD_some, hfind, hnew, bne_self_eq_false, Bool.false_eq_true, if_false]
  rw [e2, getInto_good 0 _ 61 _ sk]
  simp only [bne_self_eq_false, Bool.false_eq_true, if_false]
  rw [e3, markStart_G]
  simp only
  rw [peekC_good]
  have e38 : ((40 : Byte) == 38) = false := by decide
  simp only [e38, Bool.false_eq_true, if_false, beq_self_eq_true, if_true, bind, Except.bind, pure, Except.pure, hcx, hrd]
  have e5 : readTokenSeparator (G l1 (r.s4 ++ 59 :: rest) sk1) = G (r.s4.reverse ++ l1) (59 :: rest) sk1 :=
    readTokenSeparator_seps r.s4 h4 l1 59 rest sk1 (by decide) (by decide)
  rw [e5, peekC_good]
  have e69 : ((59 : Byte) != 69) = true := by decide
  have enw : decide (Sev.null.toInt ≤ Sev.warning.toInt) = false := by decide
  cases hm : cfg.missingSemicolonReported <;>
    simp only [Bool.false_eq_true, if_false, if_true, beq_self_eq_true, e69, enw, Bool.and_false,
      shiftInto_good _ _ 59 rest sk1 (by decide), stateOf, hrep] <;>
    exact ⟨_, sk1, rfl⟩

end StepModel.P21.RLemmas

import StepModel.P21.FloatShape
/-! Arithmetic of the float model's decimal printing (C09, final proof round): `Dbl.roundDiv` is a nearest integer and monotone,
the digit count of a number brackets it between powers of ten, the exponent `Dbl.sigDigits` settles on is the decimal exponent of
the rational (`decExp_spec`: `10^x ≤ n/d < 10^(x+1)`), and `Dbl.sigDigits p` returns a `p`-digit number (`sigDigits_digits`). -/
namespace StepModel.P21.Lemmas
open StepModel

/-- `roundDiv n d` is a nearest integer to `n/d`: `|n − q·d| ≤ d/2` -/
theorem roundDiv_near (n d : Nat) (hd : 0 < d) :
    2 * (Dbl.roundDiv n d * d) ≤ 2 * n + d ∧ 2 * n ≤ 2 * (Dbl.roundDiv n d * d) + d := by
  have h := Nat.div_add_mod n d
  have hm := Nat.mod_lt n hd
  have e1 : (n / d + 1) * d = d * (n / d) + d := by rw [Nat.add_mul, Nat.mul_comm]; simp
  have e0 : (n / d) * d = d * (n / d) := Nat.mul_comm _ _
  unfold Dbl.roundDiv
  simp only []
  split
  · rw [e0]; omega
  · split
    · rw [e1]; omega
    · split
      · rw [e0]; omega
      · rw [e1]; omega

/-- monotone bounds: an integer bound on `n/d` is a bound on its rounding -/
theorem roundDiv_ge (n d a : Nat) (hd : 0 < d) (h : a * d ≤ n) : a ≤ Dbl.roundDiv n d := by
  have hq : a ≤ n / d := (Nat.le_div_iff_mul_le hd).2 h
  unfold Dbl.roundDiv
  simp only []
  split
  · exact hq
  · split
    · omega
    · split <;> omega

theorem roundDiv_le (n d b : Nat) (hd : 0 < d) (h : n ≤ b * d) : Dbl.roundDiv n d ≤ b := by
  have h0 := Nat.div_add_mod n d
  have hm := Nat.mod_lt n hd
  unfold Dbl.roundDiv
  simp only []
  by_cases hq : n / d < b
  · split
    · omega
    · split
      · omega
      · split <;> omega
  · -- n / d ≥ b, so n = b*d exactly and the remainder is 0
    have hqb : b ≤ n / d := by omega
    have h1 : b * d ≤ n := (Nat.le_div_iff_mul_le hd).1 hqb
    have hn : n = b * d := by omega
    have hr : n % d = 0 := by rw [hn]; exact Nat.mul_mod_left _ _
    have hq' : n / d = b := by rw [hn]; exact Nat.mul_div_cancel _ hd
    simp [hr, hd, hq']

end StepModel.P21.Lemmas

namespace StepModel.P21.Lemmas
open StepModel

/-- `10^x ≤ n/d` for an integer exponent, cross-multiplied (the test `ge` of `Dbl.sigDigits`) -/
def GE10 (n d : Nat) (x : Int) : Prop := if x ≥ 0 then d * 10 ^ x.toNat ≤ n else d ≤ n * 10 ^ (-x).toNat

instance (n d : Nat) (x : Int) : Decidable (GE10 n d x) := by unfold GE10; exact inferInstance

/-- the scaled quotient `Dbl.sigDigits` rounds: `n/d / 10^sh` as numerator and denominator -/
def scaled (n d : Nat) (sh : Int) : Nat × Nat := if sh ≥ 0 then (n, d * 10 ^ sh.toNat) else (n * 10 ^ (-sh).toNat, d)

theorem pow_split (a b : Nat) (h : b ≤ a) : 10 ^ a = 10 ^ b * 10 ^ (a - b) := by
  rw [← Nat.pow_add]; congr 1; omega

/-- with `10^x ≤ n/d < 10^(x+1)` the quotient scaled by `10^(x-(p-1))` lies in `[10^(p-1), 10^p]`, and so does its rounding -/
theorem sig_core (p n d : Nat) (hp : 1 ≤ p) (hd : 0 < d) (x : Int) (h1 : GE10 n d x) (h2 : ¬ GE10 n d (x + 1)) :
    10 ^ (p - 1) ≤ Dbl.roundDiv (scaled n d (x - ((p : Int) - 1))).1 (scaled n d (x - ((p : Int) - 1))).2 ∧
    Dbl.roundDiv (scaled n d (x - ((p : Int) - 1))).1 (scaled n d (x - ((p : Int) - 1))).2 ≤ 10 ^ p := by
  have hpos : ∀ k : Nat, 0 < 10 ^ k := fun k => Nat.pow_pos (by decide)
  unfold scaled
  by_cases hsh : x - ((p : Int) - 1) ≥ 0
  · -- x ≥ p - 1 ≥ 0
    simp only [hsh, if_true]
    have hx0 : x ≥ 0 := by omega
    have hx1 : x + 1 ≥ 0 := by omega
    simp only [GE10, hx0, hx1, if_true] at h1 h2
    have e1 : x.toNat = (p - 1) + (x - ((p : Int) - 1)).toNat := by omega
    have e2 : (x + 1).toNat = p + (x - ((p : Int) - 1)).toNat := by omega
    rw [e1, Nat.pow_add] at h1
    rw [e2, Nat.pow_add] at h2
    constructor
    · apply roundDiv_ge _ _ _ (Nat.mul_pos hd (hpos _))
      calc 10 ^ (p - 1) * (d * 10 ^ (x - ((p : Int) - 1)).toNat) = d * (10 ^ (p - 1) * 10 ^ (x - ((p : Int) - 1)).toNat) := by
            rw [Nat.mul_left_comm]
        _ ≤ n := h1
    · apply roundDiv_le _ _ _ (Nat.mul_pos hd (hpos _))
      have : n ≤ d * (10 ^ p * 10 ^ (x - ((p : Int) - 1)).toNat) := by omega
      calc n ≤ d * (10 ^ p * 10 ^ (x - ((p : Int) - 1)).toNat) := this
        _ = 10 ^ p * (d * 10 ^ (x - ((p : Int) - 1)).toNat) := by rw [Nat.mul_left_comm]
  · simp only [hsh, if_false]
    by_cases hx0 : x ≥ 0
    · have hx1 : x + 1 ≥ 0 := by omega
      simp only [GE10, hx0, hx1, if_true] at h1 h2
      -- -sh = p - 1 - x
      have e1 : p - 1 = x.toNat + (-(x - ((p : Int) - 1))).toNat := by omega
      have e2 : p = (x + 1).toNat + (-(x - ((p : Int) - 1))).toNat := by omega
      constructor
      · apply roundDiv_ge _ _ _ hd
        have := Nat.mul_le_mul_right (10 ^ (-(x - ((p : Int) - 1))).toNat) h1
        calc 10 ^ (p - 1) * d = d * 10 ^ x.toNat * 10 ^ (-(x - ((p : Int) - 1))).toNat := by
              rw [e1, Nat.pow_add]; ac_rfl
          _ ≤ n * 10 ^ (-(x - ((p : Int) - 1))).toNat := this
      · apply roundDiv_le _ _ _ hd
        have h2' : n ≤ d * 10 ^ (x + 1).toNat := by omega
        have := Nat.mul_le_mul_right (10 ^ (-(x - ((p : Int) - 1))).toNat) h2'
        calc n * 10 ^ (-(x - ((p : Int) - 1))).toNat ≤ d * 10 ^ (x + 1).toNat * 10 ^ (-(x - ((p : Int) - 1))).toNat := this
          _ = 10 ^ p * d := by
              conv => rhs; rw [e2, Nat.pow_add]
              ac_rfl
    · have hx0' : ¬ x ≥ 0 := hx0
      simp only [GE10, hx0', if_false] at h1
      -- -sh = (p - 1) + (-x)
      have e1 : (-(x - ((p : Int) - 1))).toNat = (-x).toNat + (p - 1) := by omega
      constructor
      · apply roundDiv_ge _ _ _ hd
        have := Nat.mul_le_mul_right (10 ^ (p - 1)) h1
        calc 10 ^ (p - 1) * d = d * 10 ^ (p - 1) := Nat.mul_comm _ _
          _ ≤ n * 10 ^ (-x).toNat * 10 ^ (p - 1) := this
          _ = n * 10 ^ (-(x - ((p : Int) - 1))).toNat := by rw [e1, Nat.pow_add, Nat.mul_assoc]
      · apply roundDiv_le _ _ _ hd
        by_cases hx1 : x + 1 ≥ 0
        · -- x = -1
          have hxm : x = -1 := by omega
          simp only [GE10, hx1, if_true] at h2
          have e0 : (x + 1).toNat = 0 := by omega
          rw [e0] at h2
          have e3 : (-(x - ((p : Int) - 1))).toNat = p := by omega
          rw [e3]
          have h2' : n ≤ d := by omega
          calc n * 10 ^ p ≤ d * 10 ^ p := Nat.mul_le_mul_right _ h2'
            _ = 10 ^ p * d := Nat.mul_comm _ _
        · simp only [GE10, hx1, if_false] at h2
          have e3 : (-(x - ((p : Int) - 1))).toNat = (-(x + 1)).toNat + p := by omega
          rw [e3, Nat.pow_add, ← Nat.mul_assoc]
          have h2' : n * 10 ^ (-(x + 1)).toNat ≤ d := by omega
          calc n * 10 ^ (-(x + 1)).toNat * 10 ^ p ≤ d * 10 ^ p := Nat.mul_le_mul_right _ h2'
            _ = 10 ^ p * d := Nat.mul_comm _ _

end StepModel.P21.Lemmas

namespace StepModel.P21.Lemmas
open StepModel

/-- the number of decimal digits of a positive number brackets it between two powers of ten -/
theorem digits_bounds (n : Nat) (hn : 0 < n) :
    10 ^ ((Nat.toDigits 10 n).length - 1) ≤ n ∧ n < 10 ^ (Nat.toDigits 10 n).length ∧ 1 ≤ (Nat.toDigits 10 n).length := by
  induction n using Nat.strongRecOn with
  | _ n ih =>
    rw [Nat.toDigits_eq_if (by decide)]
    split
    · rename_i h
      simp
      omega
    · rename_i h
      have hlt : n / 10 < n := Nat.div_lt_self (by omega) (by decide)
      have hpos : 0 < n / 10 := Nat.div_pos (by omega) (by decide)
      obtain ⟨h1, h2, h3⟩ := ih (n / 10) hlt hpos
      simp only [List.length_append, List.length_cons, List.length_nil, Nat.zero_add, Nat.add_sub_cancel]
      have e : 10 ^ (Nat.toDigits 10 (n / 10)).length = 10 ^ ((Nat.toDigits 10 (n / 10)).length - 1) * 10 := by
        rw [← Nat.pow_succ]; congr 1; omega
      refine ⟨?_, ?_, by omega⟩
      · rw [e]; omega
      · rw [Nat.pow_succ]; omega

/-- … and determines it -/
theorem digits_count (m p : Nat) (hp : 1 ≤ p) (h1 : 10 ^ (p - 1) ≤ m) (h2 : m < 10 ^ p) : (Nat.toDigits 10 m).length = p := by
  have hm : 0 < m := Nat.lt_of_lt_of_le (Nat.pow_pos (by decide)) h1
  obtain ⟨b1, b2, b3⟩ := digits_bounds m hm
  by_cases hlt : (Nat.toDigits 10 m).length < p
  · have : 10 ^ (Nat.toDigits 10 m).length ≤ 10 ^ (p - 1) := Nat.pow_le_pow_right (by decide) (by omega)
    omega
  · by_cases hgt : p < (Nat.toDigits 10 m).length
    · have : 10 ^ p ≤ 10 ^ ((Nat.toDigits 10 m).length - 1) := Nat.pow_le_pow_right (by decide) (by omega)
      omega
    · omega

end StepModel.P21.Lemmas

namespace StepModel.P21.Lemmas
open StepModel

/-- the decimal exponent `Dbl.sigDigits` settles on -/
def decExp (n d : Nat) : Int :=
  let x0 : Int := ((Nat.toDigits 10 n).length : Int) - ((Nat.toDigits 10 d).length : Int)
  if GE10 n d (x0 + 1) then x0 + 1 else if GE10 n d x0 then x0 else x0 - 1

/-- `Dbl.sigDigits` in terms of `GE10`, `scaled` -/
theorem sigDigits_eq (p n d : Nat) :
    Dbl.sigDigits p n d =
      (if Dbl.roundDiv (scaled n d (decExp n d - ((p : Int) - 1))).1 (scaled n d (decExp n d - ((p : Int) - 1))).2 == 10 ^ p
       then (10 ^ (p - 1), decExp n d + 1)
       else (Dbl.roundDiv (scaled n d (decExp n d - ((p : Int) - 1))).1 (scaled n d (decExp n d - ((p : Int) - 1))).2, decExp n d)) := by
  unfold Dbl.sigDigits decExp scaled GE10
  simp only []
  generalize ((Nat.toDigits 10 n).length : Int) - ((Nat.toDigits 10 d).length : Int) = x0
  by_cases c1 : x0 + 1 ≥ 0 <;> by_cases c0 : x0 ≥ 0 <;> by_cases cm : x0 - 1 ≥ 0 <;>
    simp only [c1, c0, cm, if_true, if_false, decide_eq_true_eq] <;>
    (split <;> (try split) <;> (try split) <;> rfl)

end StepModel.P21.Lemmas

namespace StepModel.P21.Lemmas
open StepModel

/-- `n/d < 10^(len n − len d + 1)` -/
theorem decExp_upper (n d : Nat) (hn : 0 < n) (hd : 0 < d) :
    ¬ GE10 n d (((Nat.toDigits 10 n).length : Int) - ((Nat.toDigits 10 d).length : Int) + 1) := by
  obtain ⟨_, a2, a3⟩ := digits_bounds n hn
  obtain ⟨b1, _, b3⟩ := digits_bounds d hd
  generalize (Nat.toDigits 10 n).length = a at *
  generalize (Nat.toDigits 10 d).length = b at *
  unfold GE10
  by_cases c : (a : Int) - (b : Int) + 1 ≥ 0
  · simp only [c, if_true]
    intro h
    have e : a = (b - 1) + ((a : Int) - (b : Int) + 1).toNat := by omega
    have h10 : 10 ^ a = 10 ^ (b - 1) * 10 ^ ((a : Int) - (b : Int) + 1).toNat := by rw [← Nat.pow_add, ← e]
    have := Nat.mul_le_mul_right (10 ^ ((a : Int) - (b : Int) + 1).toNat) b1
    omega
  · simp only [c, if_false]
    intro h
    have e : b - 1 = a + (-((a : Int) - (b : Int) + 1)).toNat := by omega
    have h10 : 10 ^ (b - 1) = 10 ^ a * 10 ^ (-((a : Int) - (b : Int) + 1)).toNat := by rw [← Nat.pow_add, ← e]
    have hk : 0 < 10 ^ (-((a : Int) - (b : Int) + 1)).toNat := Nat.pow_pos (by decide)
    have := Nat.mul_lt_mul_of_pos_right a2 hk
    omega

/-- `10^(len n − len d − 1) ≤ n/d` -/
theorem decExp_lower (n d : Nat) (hn : 0 < n) (hd : 0 < d) :
    GE10 n d (((Nat.toDigits 10 n).length : Int) - ((Nat.toDigits 10 d).length : Int) - 1) := by
  obtain ⟨a1, _, a3⟩ := digits_bounds n hn
  obtain ⟨_, b2, b3⟩ := digits_bounds d hd
  generalize (Nat.toDigits 10 n).length = a at *
  generalize (Nat.toDigits 10 d).length = b at *
  unfold GE10
  by_cases c : (a : Int) - (b : Int) - 1 ≥ 0
  · simp only [c, if_true]
    have e : a - 1 = b + ((a : Int) - (b : Int) - 1).toNat := by omega
    have h10 : 10 ^ (a - 1) = 10 ^ b * 10 ^ ((a : Int) - (b : Int) - 1).toNat := by rw [← Nat.pow_add, ← e]
    have := Nat.mul_le_mul_right (10 ^ ((a : Int) - (b : Int) - 1).toNat) (Nat.le_of_lt b2)
    omega
  · simp only [c, if_false]
    have e : b = (a - 1) + (-((a : Int) - (b : Int) - 1)).toNat := by omega
    have h10 : 10 ^ b = 10 ^ (a - 1) * 10 ^ (-((a : Int) - (b : Int) - 1)).toNat := by rw [← Nat.pow_add, ← e]
    have := Nat.mul_le_mul_right (10 ^ (-((a : Int) - (b : Int) - 1)).toNat) a1
    omega

/-- the exponent `Dbl.sigDigits` settles on is the decimal exponent of `n/d`: `10^x ≤ n/d < 10^(x+1)` -/
theorem decExp_spec (n d : Nat) (hn : 0 < n) (hd : 0 < d) : GE10 n d (decExp n d) ∧ ¬ GE10 n d (decExp n d + 1) := by
  have hu := decExp_upper n d hn hd
  have hl := decExp_lower n d hn hd
  unfold decExp
  simp only []
  generalize ((Nat.toDigits 10 n).length : Int) - ((Nat.toDigits 10 d).length : Int) = x0 at *
  rw [if_neg hu]
  by_cases h0 : GE10 n d x0
  · rw [if_pos h0]
    exact ⟨h0, hu⟩
  · rw [if_neg h0]
    refine ⟨hl, ?_⟩
    have : x0 - 1 + 1 = x0 := by omega
    rw [this]; exact h0

/-- **`Dbl.sigDigits` returns a `p`-digit number**, for every positive rational and every precision `p ≥ 1` -/
theorem sigDigits_digits (p n d : Nat) (hp : 1 ≤ p) (hn : 0 < n) (hd : 0 < d) :
    (Nat.toDigits 10 (Dbl.sigDigits p n d).1).length = p := by
  obtain ⟨h1, h2⟩ := decExp_spec n d hn hd
  obtain ⟨c1, c2⟩ := sig_core p n d hp hd (decExp n d) h1 h2
  rw [sigDigits_eq]
  have hpow : 10 ^ (p - 1) < 10 ^ p := Nat.pow_lt_pow_right (by decide) (by omega)
  split
  · exact digits_count _ p hp (Nat.le_refl _) hpow
  · rename_i hq
    have hq' : Dbl.roundDiv (scaled n d (decExp n d - ((p : Int) - 1))).1 (scaled n d (decExp n d - ((p : Int) - 1))).2 ≠ 10 ^ p := by
      simpa using hq
    exact digits_count _ p hp c1 (by omega)

end StepModel.P21.Lemmas

import StepModel.P21.ReaderLemmas23
/-! An externally mapped record with a part whose keyword names no entity of the dictionary: `STEPcomplex::STEPread` gives
up at that part (INPUT_ERROR), `ReadInstance` resynchronises from the record's start - record level. -/
namespace StepModel.P21.RLemmas
open StepModel StepModel.IStream StepModel.P21 StepModel.P21.Lemmas StepModel.P21.Grammar

variable {F : Type}

/-- the part loop over parts read with known severities, then a part whose keyword the dictionary does not know: the
    loop returns at once - before the merge with what the other parts reported - with the stream at that part's `(` -/
theorem complexLoop_parts_then_unknown (env : Env F) (strict : Bool) (head : String) (sv : CPart F → Sev × Sev) (cs : List (CPart F))
    (hok : ∀ c ∈ cs, CPartRdS env strict c (sv c).1 (sv c).2)
    (u : CPart F) (hu0 : isAlpha u.n0 = true) (huns : u.ns.all kwc = true) (husA : u.sA.all isSpace = true)
    (hunk : env.dict.entity? u.name = none) :
    ∀ (fuel : Nat) (err perr : Sev) (ps : List (MPart F)) (l : List Byte) (sk : Bool) (more : List Byte),
      cs.length + 1 ≤ fuel → (∀ c ∈ cs, c.name ∈ ps.map (·.name)) →
      ∃ l' sk', (sk' = sk ∨ sk' = false) ∧ complexLoop env strict head fuel err perr ps (G l (renderCParts cs ++ u.n0 :: (u.ns ++ (u.sA ++ 40 :: more))) sk) =
        .ok ⟨((cxFold env.cfg head sv err perr cs).1.greater .inputError).greater .warning,
             cs.foldl (fun ps c => setPart ps c.name c.vals) ps, G l' (40 :: more) sk'⟩ := by
  induction cs with
  | nil =>
    intro fuel err perr ps l sk more hf _
    match fuel, hf with
    | n + 1, _ =>
      obtain ⟨hu0s, _, _, _, _, _, _, hu0k, _⟩ := alpha_facts hu0
      have hu041 : (u.n0 == 41) = false := by
        have : u.n0 ≠ 41 := by intro h; rw [h] at hu0; exact absurd hu0 (by decide)
        simpa using this
      obtain ⟨y, yr, hYe, hyk⟩ : ∃ y yr, u.sA ++ 40 :: more = y :: yr ∧ kwc y = false :=
        seps_then u.sA (Seps.blanks _ husA) 40 _ (fun c => kwc c = false) (fun c h => space_not_kwc h) (by decide) (by decide)
      have hkw : (u.n0 :: u.ns).all kwc = true := by simp only [List.all_cons, hu0k, Bool.true_and]; exact huns
      refine ⟨u.sA.reverse ++ ((u.n0 :: u.ns).reverse ++ l), sk, Or.inl rfl, ?_⟩
      unfold complexLoop
      simp only [renderCParts, List.nil_append, peekC_good, hu041, Bool.false_eq_true, if_false, bind, Except.bind, pure, Except.pure]
      rw [show (G l (u.n0 :: (u.ns ++ (u.sA ++ 40 :: more))) sk).ws = _ from ws_good0 l u.n0 _ sk hu0s]
      have ekw : readStdKeyword (G l (u.n0 :: (u.ns ++ (u.sA ++ 40 :: more))) sk) =
          (u.n0 :: u.ns, G ((u.n0 :: u.ns).reverse ++ l) (u.sA ++ 40 :: more) sk) := by
        rw [hYe]; exact readStdKeyword_spec u.n0 u.ns hkw hu0s y hyk l yr sk
      rw [ekw]
      simp only
      rw [show (G ((u.n0 :: u.ns).reverse ++ l) (u.sA ++ 40 :: more) sk).ws =
        G (u.sA.reverse ++ ((u.n0 :: u.ns).reverse ++ l)) (40 :: more) sk from ws_good _ u.sA 40 _ sk husA (by decide)]
      rw [peekC_good]
      simp only [bne_self_eq_false, Bool.false_eq_true, if_false]
      rw [show bytesToString (upperBytes (u.n0 :: u.ns)) = u.name from rfl, hunk]
      cases ps.find? (fun x => x.name == u.name) <;> rfl
  | cons c cs ih =>
    intro fuel err perr ps l sk more hf hnames
    obtain ⟨hn0, hns, hsA, hsB, ed, hent, hrd⟩ := hok c (by simp)
    obtain ⟨hn0s, _, _, _, _, _, _, hn0k, _⟩ := alpha_facts hn0
    have hn041 : (c.n0 == 41) = false := by
      have : c.n0 ≠ 41 := by intro h; rw [h] at hn0; exact absurd hn0 (by decide)
      simpa using this
    match fuel, hf with
    | n + 1, hf =>
      obtain ⟨y, yr, hYe, hyk⟩ : ∃ y yr, c.sA ++ 40 :: (c.body ++ c.sB ++ (renderCParts cs ++ u.n0 :: (u.ns ++ (u.sA ++ 40 :: more)))) = y :: yr ∧ kwc y = false :=
        seps_then c.sA (Seps.blanks _ hsA) 40 _ (fun c => kwc c = false) (fun c h => space_not_kwc h) (by decide) (by decide)
      have hkw : (c.n0 :: c.ns).all kwc = true := by simp only [List.all_cons, hn0k, Bool.true_and]; exact hns
      obtain ⟨p0, hp0⟩ := find?_name_isSome ps c.name (hnames c (by simp))
      obtain ⟨sk1, hsk1, hr⟩ := hrd (c.sA.reverse ++ ((c.n0 :: c.ns).reverse ++ l)) sk (c.sB ++ (renderCParts cs ++ u.n0 :: (u.ns ++ (u.sA ++ 40 :: more))))
      -- the stream after the part and the blanks behind it starts the next part or is at the closing parenthesis
      obtain ⟨z, zr, hZ, hzs⟩ : ∃ z zr, renderCParts cs ++ u.n0 :: (u.ns ++ (u.sA ++ 40 :: more)) = z :: zr ∧ isSpace z = false := by
        cases cs with
        | nil => exact ⟨u.n0, _, rfl, (alpha_facts hu0).1⟩
        | cons c2 cs2 =>
          obtain ⟨h2, _⟩ := hok c2 (by simp)
          exact ⟨c2.n0, _, rfl, (alpha_facts h2).1⟩
      obtain ⟨l', sk', hsk', hrec⟩ := ih (fun x hx => hok x (by simp [hx])) n
        (if (c.name == head) = true then (sv c).1 else err)
        (if (c.name == head) = true then perr else perr.greater (if env.cfg.complexMergesParts = true then (sv c).1 else (sv c).2))
        (setPart ps c.name c.vals)
        (c.sB.reverse ++ ((40 :: c.body).reverse ++ (c.sA.reverse ++ ((c.n0 :: c.ns).reverse ++ l)))) sk1 more
        (by simp only [List.length_cons] at hf; omega)
        (by intro x hx; rw [setPart_names]; exact hnames x (by simp [hx]))
      refine ⟨l', sk', (by
        rcases hsk' with h | h
        · rcases hsk1 with h1 | h1
          · exact Or.inl (h.trans h1)
          · exact Or.inr (h.trans h1)
        · exact Or.inr h), ?_⟩
      have etext : renderCParts (c :: cs) ++ u.n0 :: (u.ns ++ (u.sA ++ 40 :: more)) =
          c.n0 :: (c.ns ++ (c.sA ++ 40 :: (c.body ++ c.sB ++ (renderCParts cs ++ u.n0 :: (u.ns ++ (u.sA ++ 40 :: more)))))) := by
        simp [renderCParts, CPart.text]
      rw [etext]
      unfold complexLoop
      simp only [peekC_good, hn041, Bool.false_eq_true, if_false, bind, Except.bind, pure, Except.pure]
      rw [show (G l (c.n0 :: (c.ns ++ (c.sA ++ 40 :: (c.body ++ c.sB ++ (renderCParts cs ++ u.n0 :: (u.ns ++ (u.sA ++ 40 :: more))))))) sk).ws = _
        from ws_good0 l c.n0 _ sk hn0s]
      have ekw : readStdKeyword (G l (c.n0 :: (c.ns ++ (c.sA ++ 40 :: (c.body ++ c.sB ++ (renderCParts cs ++ u.n0 :: (u.ns ++ (u.sA ++ 40 :: more))))))) sk) =
          (c.n0 :: c.ns, G ((c.n0 :: c.ns).reverse ++ l) (c.sA ++ 40 :: (c.body ++ c.sB ++ (renderCParts cs ++ u.n0 :: (u.ns ++ (u.sA ++ 40 :: more))))) sk) := by
        rw [hYe]; exact readStdKeyword_spec c.n0 c.ns hkw hn0s y hyk l yr sk
      rw [ekw]
      simp only
      rw [show (G ((c.n0 :: c.ns).reverse ++ l) (c.sA ++ 40 :: (c.body ++ c.sB ++ (renderCParts cs ++ u.n0 :: (u.ns ++ (u.sA ++ 40 :: more))))) sk).ws =
        G (c.sA.reverse ++ ((c.n0 :: c.ns).reverse ++ l)) (40 :: (c.body ++ c.sB ++ (renderCParts cs ++ u.n0 :: (u.ns ++ (u.sA ++ 40 :: more))))) sk
        from ws_good _ c.sA 40 _ sk hsA (by decide)]
      rw [peekC_good]
      simp only [bne_self_eq_false, Bool.false_eq_true, if_false]
      rw [show bytesToString (upperBytes (c.n0 :: c.ns)) = c.name from rfl, hp0, hent]
      simp only
      have e2 : c.body ++ c.sB ++ (renderCParts cs ++ u.n0 :: (u.ns ++ (u.sA ++ 40 :: more))) = c.body ++ (c.sB ++ (renderCParts cs ++ u.n0 :: (u.ns ++ (u.sA ++ 40 :: more)))) := by simp
      rw [e2, hr]
      simp only
      rw [hZ, show (G ((40 :: c.body).reverse ++ (c.sA.reverse ++ ((c.n0 :: c.ns).reverse ++ l))) (c.sB ++ z :: zr) sk1).ws =
        G (c.sB.reverse ++ ((40 :: c.body).reverse ++ (c.sA.reverse ++ ((c.n0 :: c.ns).reverse ++ l)))) (z :: zr) sk1
        from ws_good _ c.sB z zr sk1 hsB hzs, ← hZ]
      by_cases hh : (c.name == head) = true
      · simp only [hh, if_true] at hrec
        simp only [hh, if_true, List.foldl_cons, cxFold]
        exact hrec
      · have hh' : (c.name == head) = false := by simpa using hh
        simp only [hh', Bool.false_eq_true, if_false] at hrec
        simp only [hh', Bool.false_eq_true, if_false, List.foldl_cons, cxFold]
        exact hrec


theorem renderCParts_append (a b : List (CPart F)) : renderCParts (a ++ b) = renderCParts a ++ renderCParts b := by
  induction a with
  | nil => rfl
  | cons c t ih => simp [renderCParts, ih]

/-- `STEPcomplex::STEPread` on `( blanks PART(…) … UNKNOWN blanks ( …`: INPUT_ERROR, the parts in front are set -/
theorem complexSTEPread_then_unknown (env : Env F) (strict : Bool) (ps : List (MPart F)) (sv : CPart F → Sev × Sev) (cs : List (CPart F))
    (hok : ∀ c ∈ cs, CPartRdS env strict c (sv c).1 (sv c).2)
    (u : CPart F) (hu0 : isAlpha u.n0 = true) (huns : u.ns.all kwc = true) (husA : u.sA.all isSpace = true)
    (hunk : env.dict.entity? u.name = none) (hnames : ∀ c ∈ cs, c.name ∈ ps.map (·.name))
    (sp0 : List Byte) (hsp0 : sp0.all isSpace = true) (l : List Byte) (sk : Bool) (more : List Byte) :
    ∃ l' sk', (sk' = sk ∨ sk' = false) ∧ complexSTEPread env strict ps (G l (40 :: (sp0 ++ (renderCParts cs ++ u.n0 :: (u.ns ++ (u.sA ++ 40 :: more))))) sk) =
      .ok ⟨((cxFold env.cfg (match ps with | p :: _ => p.name | [] => "") sv .null .null cs).1.greater .inputError).greater .warning,
           cs.foldl (fun ps c => setPart ps c.name c.vals) ps, G l' (40 :: more) sk'⟩ := by
  obtain ⟨z, zr, hZ, hzs⟩ : ∃ z zr, renderCParts cs ++ u.n0 :: (u.ns ++ (u.sA ++ 40 :: more)) = z :: zr ∧ isSpace z = false := by
    cases cs with
    | nil => exact ⟨u.n0, _, rfl, (alpha_facts hu0).1⟩
    | cons c2 cs2 =>
      obtain ⟨h2, _⟩ := hok c2 (by simp)
      exact ⟨c2.n0, _, rfl, (alpha_facts h2).1⟩
  have hws : (G (40 :: l) (sp0 ++ (renderCParts cs ++ u.n0 :: (u.ns ++ (u.sA ++ 40 :: more)))) sk).ws =
      G (sp0.reverse ++ 40 :: l) (renderCParts cs ++ u.n0 :: (u.ns ++ (u.sA ++ 40 :: more))) sk := by
    rw [hZ]; exact ws_good _ sp0 z zr sk hsp0 hzs
  have hfuel : cs.length + 1 ≤ (G (40 :: l) (sp0 ++ (renderCParts cs ++ u.n0 :: (u.ns ++ (u.sA ++ 40 :: more)))) sk).right.length + 3 := by
    have := renderCParts_length cs
    show cs.length + 1 ≤ (sp0 ++ (renderCParts cs ++ u.n0 :: (u.ns ++ (u.sA ++ 40 :: more)))).length + 3
    simp only [List.length_append, List.length_cons]; omega
  unfold complexSTEPread
  rw [show (G l (40 :: (sp0 ++ (renderCParts cs ++ u.n0 :: (u.ns ++ (u.sA ++ 40 :: more))))) sk).ws = _ from ws_good0 l 40 _ sk (by decide)]
  simp only [bind, Except.bind, pure, Except.pure, getInto_good, beq_self_eq_true, if_true]
  rw [hws]
  exact complexLoop_parts_then_unknown env strict _ sv cs hok u hu0 huns husA hunk _ .null .null ps _ sk more hfuel hnames



/-- **an externally mapped record with an unknown part keyword, pass 2**: the parts in front of it are read and kept, the
    record is INPUT_ERROR, `ReadInstance` resynchronises from the record's start and leaves the stream behind its `;` -/
theorem readInstance_crec_unknown (ops : FloatOps F) (lex : LexCfg) (cfg : RWCfg) (d : Dict) (strict : Bool) (st : P2 F)
    (hrep : cfg.complexReportsError = true) (hrs : cfg.errorResyncsFromStart = true)
    (hskip : cfg.skipInstanceSkipsComments = true)
    (r : CRec F) (hlex : r.Lex) (l rest : List Byte) (hs : st.s = G l (r.text rest) false)
    (inst : MInst F) (hfind : st.mgr.find? r.id = some inst) (hnew : inst.state = .new) (hcx : inst.complex = true)
    (sv : CPart F → Sev × Sev) (cs : List (CPart F)) (up : CPart F) (tl : List (CPart F)) (hsplit : r.parts = cs ++ up :: tl)
    (hok : ∀ c ∈ cs, CPartRdS { ops := ops, lex := lex, cfg := cfg, dict := d, lookup := Mgr.lookup d st.mgr }
        (cfg.complexPartStrict.getD strict) c (sv c).1 (sv c).2)
    (hunk : d.entity? up.name = none)
    (hnames : ∀ c ∈ cs, c.name ∈ inst.parts.map (·.name)) :
    ∃ l', readInstance ops lex cfg d strict st =
      .ok { s := G l' rest false,
            inst := some { inst with parts := cs.foldl (fun ps c => setPart ps c.name c.vals) inst.parts, state := .incomplete },
            reported := some (((cxFold cfg (match inst.parts with | p :: _ => p.name | [] => "") sv .null .null cs).1.greater
                                .inputError).greater .warning), left := some .null } := by
  have hpass := crec_passes r hlex
  obtain ⟨dne, ddig, dhi, h1, h2, h4, pne, hparts⟩ := hlex
  obtain ⟨c, u, hcu⟩ : ∃ c u, r.ds = c :: u := by
    cases hd : r.ds with
    | nil => exact absurd hd dne
    | cons c u => exact ⟨c, u, rfl⟩
  have hcd : isDigit c = true := by rw [hcu] at ddig; simp at ddig; exact ddig.1
  have hc47 : c ≠ 47 := by intro h; rw [h] at hcd; exact absurd hcd (by decide)
  let T1 := r.s1 ++ 61 :: (r.s2 ++ 40 :: (renderCParts r.parts ++ 41 :: (r.s4 ++ 59 :: rest)))
  obtain ⟨x, xr, hXe, hxd⟩ : ∃ x xr, T1 = x :: xr ∧ isDigit x = false :=
    seps_then r.s1 h1 61 _ (fun c => isDigit c = false) (fun c h => space_not_digit h) (by decide) (by decide)
  have e0 : readComment (G l (r.text rest) false) = G l (r.text rest) false := by
    unfold CRec.text; rw [hcu]; exact readComment_none l c _ false (digit_not_space hcd) hc47
  have e1 : (G l (r.text rest) false).extractInt32 = (some r.id, G (r.ds.reverse ++ l) T1 false) := by
    unfold CRec.text; show (G l (r.ds ++ T1) false).extractInt32 = _
    rw [hXe]; exact extractInt32_digits r.ds dne ddig dhi l x xr false hxd
  have e2 : readTokenSeparator (G (r.ds.reverse ++ l) T1 false) =
      G (r.s1.reverse ++ (r.ds.reverse ++ l)) (61 :: (r.s2 ++ 40 :: (renderCParts r.parts ++ 41 :: (r.s4 ++ 59 :: rest)))) false :=
    readTokenSeparator_seps r.s1 h1 (r.ds.reverse ++ l) 61 _ false (by decide) (by decide)
  have e3 : readTokenSeparator (G (61 :: (r.s1.reverse ++ (r.ds.reverse ++ l))) (r.s2 ++ 40 :: (renderCParts r.parts ++ 41 :: (r.s4 ++ 59 :: rest))) false) =
      G (r.s2.reverse ++ 61 :: (r.s1.reverse ++ (r.ds.reverse ++ l))) (40 :: (renderCParts r.parts ++ 41 :: (r.s4 ++ 59 :: rest))) false :=
    readTokenSeparator_seps r.s2 h2 _ 40 _ false (by decide) (by decide)
  obtain ⟨hu0, huns, husA, husB, _⟩ := hparts up (by rw [hsplit]; simp)
  have eR : renderCParts r.parts ++ 41 :: (r.s4 ++ 59 :: rest) =
      renderCParts cs ++ up.n0 :: (up.ns ++ (up.sA ++ 40 :: (up.body ++ (up.sB ++ (renderCParts tl ++ 41 :: (r.s4 ++ 59 :: rest)))))) := by
    rw [hsplit, renderCParts_append]
    simp [renderCParts, CPart.text]
  obtain ⟨l1, sk1, hsk1, hrd⟩ := complexSTEPread_then_unknown _ (cfg.complexPartStrict.getD strict) inst.parts sv cs hok up hu0 huns husA hunk
    hnames [] (by simp) (r.s2.reverse ++ 61 :: (r.s1.reverse ++ (r.ds.reverse ++ l))) false
    (up.body ++ (up.sB ++ (renderCParts tl ++ 41 :: (r.s4 ++ 59 :: rest))))
  have hsk1' : sk1 = false := by rcases hsk1 with h | h <;> exact h
  subst hsk1'
  simp only [List.nil_append] at hrd
  rw [← eR] at hrd
  unfold readInstance
  rw [hs, e0]
  simp only [e1, Option.getD_some, hfind, hnew, bne_self_eq_false, Bool.false_eq_true, if_false]
  rw [e2, getInto_good 0 _ 61 _ false]
  simp only [bne_self_eq_false, Bool.false_eq_true, if_false]
  rw [e3, markStart_G]
  simp only
  rw [peekC_good]
  have e38 : ((40 : Byte) == 38) = false := by decide
  simp only [e38, Bool.false_eq_true, if_false, beq_self_eq_true, if_true, bind, Except.bind, pure, Except.pure, hcx, hrd]
  rw [readTokenSeparator_none l1 40 _ false (by decide) (by decide)]
  generalize (cxFold cfg (match inst.parts with | p :: _ => p.name | [] => "") sv .null .null cs).1 = X
  have hw : ((X.greater .inputError).greater .warning).toInt ≤ Sev.warning.toInt := by cases X <;> decide
  have hdec : decide (((X.greater .inputError).greater .warning).toInt ≤ Sev.warning.toInt) = true := by simpa using hw
  have hst : stateOf ((X.greater .inputError).greater .warning) = .incomplete := by cases X <;> rfl
  simp only [hrs, hdec, Bool.and_self, if_true, bind, Except.bind, pure, Except.pure]
  obtain ⟨T, hT, eT⟩ := hpass rest
  have hsi := skipInstance_passes cfg hskip _ hT (r.s2.reverse ++ 61 :: (r.s1.reverse ++ (r.ds.reverse ++ l))) rest
  rw [← eT] at hsi
  have hsi' : skipInstance cfg
      { left := r.s2.reverse ++ 61 :: (r.s1.reverse ++ (r.ds.reverse ++ l)),
        right := 40 :: (renderCParts r.parts ++ 41 :: (r.s4 ++ 59 :: rest)),
        eof := false, fail := false, bad := false, skipws := false } = _ := hsi
  rw [hsi']
  simp only [hrep, if_true, hst]
  exact ⟨_, rfl⟩

end StepModel.P21.RLemmas

import StepModel.P21.ReaderLemmas22
/-! A select value that is a reference to an instance of a type outside the select list. -/
namespace StepModel.P21.RLemmas
open StepModel StepModel.IStream StepModel.P21 StepModel.P21.Lemmas StepModel.P21.Grammar

variable {F : Type}

/-- `SDAI_Select::STEPread` on a reference to an instance that answers to no entity member of the select: WARNING, unset -/
theorem selectRead_ref_nomember (env : Env F) (hcfg : env.lex.criSkipsComments = true) (sd : SelectD)
    (ds : List Byte) (hne : ds ≠ []) (hds : ds.all isDigit = true) (hhi : ((digitsVal ds 0 : Nat) : Int) ≤ intMax)
    (names : List String) (hnames : env.lookup ((digitsVal ds 0 : Nat) : Int) = some names)
    (hasg : assignEntity env sd ((digitsVal ds 0 : Nat) : Int) = none)
    (l : List Byte) (sk : Bool) (seps : List Byte) (hs : Seps seps) (d : Byte) (rest : List Byte) (hd : d = 44 ∨ d = 41) :
    selectRead env sd (G l (35 :: (ds ++ (seps ++ d :: rest))) sk) =
      .ok (.warning, .atom .unset, G (seps.reverse ++ (ds.reverse ++ 35 :: l)) (d :: rest) sk) := by
  have hr := readEntityRef_tok env.lex hcfg (existsLookup env.lookup)
    ds hne hds hhi (by simp only [existsLookup, hnames]) l sk seps hs d rest hd
  unfold selectRead
  rw [show (G l (35 :: (ds ++ (seps ++ d :: rest))) sk).ws = _ from ws_good0 l 35 _ sk (by decide)]
  simp only [bind, Except.bind, pure, Except.pure]
  rw [shiftInto_good 0 l 35 _ sk (by decide)]
  have e1 : isAlpha (35 : Byte) = false := by decide
  have e2 : ((35 : Byte) == 36) = false := by decide
  have e3 : ((35 : Byte) == 44) = false := by decide
  have e4 : ((35 : Byte) == 0) = false := by decide
  simp only [e1, e2, e3, e4, Bool.false_eq_true, if_false, Bool.or_self, beq_self_eq_true, if_true]
  rw [putback_good 35 l _ sk, hr]
  simp only [hasg]

/-- a select-valued attribute given a reference to an instance of a type outside the select list -/
theorem attr_select_ref_nomember (env : Env F) (strict : Bool) (a : AttrD) (n : String) (hty : a.ty = .one (.select n))
    (hder : a.derived = false) (hcfg : env.lex.criSkipsComments = true) (sd : SelectD) (hsd : env.dict.select? n = some sd)
    (ds : List Byte) (hne : ds ≠ []) (hds : ds.all isDigit = true) (hhi : ((digitsVal ds 0 : Nat) : Int) ≤ intMax)
    (names : List String) (hnames : env.lookup ((digitsVal ds 0 : Nat) : Int) = some names)
    (hasg : assignEntity env sd ((digitsVal ds 0 : Nat) : Int) = none)
    (l : List Byte) (sk : Bool) (seps : List Byte) (hs : Seps seps) (d : Byte) (rest : List Byte) (hd : d = 44 ∨ d = 41) :
    attrSTEPread env strict a (G l (35 :: ds ++ (seps ++ d :: rest)) sk) =
      .ok (.warning, .one (.atom .unset),
           G (seps.reverse ++ ((35 :: ds).reverse ++ l)) (d :: rest) sk) := by
  have hsr := selectRead_ref_nomember env hcfg sd ds hne hds hhi names hnames hasg l sk seps hs d rest hd
  unfold attrSTEPread
  simp only [List.cons_append]
  rw [show (G l (35 :: (ds ++ (seps ++ d :: rest))) sk).ws = _ from ws_good0 l 35 _ sk (by decide)]
  simp only [bind, Except.bind, pure, Except.pure]
  rw [peekC_good]
  have e36 : ((35 : Byte) == 36) = false := by decide
  have e44 : ((35 : Byte) == 44) = false := by decide
  have e41 : ((35 : Byte) == 41) = false := by decide
  simp only [hder, Bool.false_eq_true, if_false, e36, e44, e41, Bool.or_self, hty, hsd, hsr]
  have hcri := cri_seps env.lex hcfg [] (Seps.blanks [] (by simp)) (seps.reverse ++ (ds.reverse ++ 35 :: l)) rest d false sk .warning hd
  simp only [List.nil_append, List.reverse_nil] at hcri
  rw [hcri]
  simp


/-- an element of an aggregate of selects that refers to an instance of a type outside the select list: WARNING, unset,
    the loop goes on behind it -/
theorem ElemRdS.selRef_nomember (env : Env F) (hcfg : env.lex.criSkipsComments = true) (hagg : env.cfg.aggrSkipsComments = true)
    (n : String) (sd : SelectD) (hsd : env.dict.select? n = some sd)
    (ds : List Byte) (hne : ds ≠ []) (hds : ds.all isDigit = true) (hhi : ((digitsVal ds 0 : Nat) : Int) ≤ intMax)
    (names : List String) (hnames : env.lookup ((digitsVal ds 0 : Nat) : Int) = some names)
    (hasg : assignEntity env sd ((digitsVal ds 0 : Nat) : Int) = none)
    (before after : List Byte) (hb : Seps before) (ha : Seps after) :
    ElemRdS env (.select n) { tok := 35 :: ds, before := before, after := after, v := .atom .unset } .warning := by
  refine ⟨hb, ⟨35, ds, rfl, by decide, by decide, by decide, by decide⟩, ?_⟩
  intro l sk d rest hd
  refine ⟨sk, Or.inl rfl, ?_⟩
  have hsr := selectRead_ref_nomember env hcfg sd ds hne hds hhi names hnames hasg l sk after ha d rest hd
  show elemRead env (.select n) (G l (35 :: ds ++ (after ++ d :: rest)) sk) = _
  simp only [List.cons_append]
  rw [elemRead_at_tok env hagg _ l 35 _ sk (by decide) (by decide) (by decide) (by decide), elemReadCore_select env n sd hsd]
  simp only [bind, Except.bind, pure, Except.pure, hsr]
  have hcri := cri_seps env.lex hcfg [] (Seps.blanks [] (by simp)) (after.reverse ++ (ds.reverse ++ 35 :: l)) rest d false sk .warning hd
  simp only [List.nil_append, List.reverse_nil] at hcri
  simp only [hcri]
  simp


/-- the value of a REAL (or NUMBER) member of a select that starts like no real numeral (`LEN_T('a')`, `LEN_T(.T.)`; no
    `,` `)` `;` inside): nothing stored, WARNING -/
theorem LeafRdS.real_junk (env : Env F) (m : SelMember) (hm : m.ty = .real ∨ m.ty = .number)
    (j0 : Byte) (js : List Byte) (hj0s : isSpace j0 = false) (hj047 : j0 ≠ 47) (hnn : notNum j0)
    (hj : ∀ b ∈ j0 :: js, delimAt env.lex attrDelims b = false)
    (hsemi : env.lex.criStopsAtSemicolon = true → ∀ b ∈ j0 :: js, b ≠ 59) :
    LeafRdS env m (j0 :: js) .unset .warning := by
  refine ⟨⟨j0, js, rfl, hj0s⟩, ?_⟩
  intro l sk rest
  have hconv : env.ops.conv (IStream.scanFloat [] []).1 = .invalid := rfl
  have hrr : ∃ e0, (e0 = Sev.null ∨ e0 = Sev.warning) ∧ readReal env.ops env.lex (some attrDelims) (G l (j0 :: (js ++ 41 :: rest)) sk) .null =
      .ok (none, (checkRemainingInput env.lex (some attrDelims) (G l (j0 :: (js ++ 41 :: rest)) sk) e0).1,
               (checkRemainingInput env.lex (some attrDelims) (G l (j0 :: (js ++ 41 :: rest)) sk) e0).2) := by
    refine ⟨Sev.null.warnIf (env.lex.realReportsFail && (env.lex.realFailUnlessBlank || !([] : List Byte).isEmpty)),
      by cases (env.lex.realReportsFail && (env.lex.realFailUnlessBlank || !([] : List Byte).isEmpty))
         · exact Or.inl rfl
         · exact Or.inr rfl, ?_⟩
    simp only [readReal, ws_good0 _ _ _ _ hj0s, IStream.good, Bool.not_false, Bool.and_self, Bool.not_true, Bool.false_eq_true,
      if_false, realCollect_junk j0 _ hnn, List.length_nil, List.reverse_nil, List.nil_append, hconv]
    have : (env.lex.realBuf != 0 && decide (0 ≥ env.lex.realBuf)) = false := by
      cases h : env.lex.realBuf with
      | zero => simp
      | succ n => simp
    simp only [this, Bool.false_eq_true, if_false]
    rfl
  obtain ⟨e0, he0, hrr⟩ := hrr
  have hsn : scalarNodeRead env .real (G l (j0 :: (js ++ 41 :: rest)) sk) =
      .ok (.warning, .unset, G ((j0 :: js).reverse ++ l) (41 :: rest) sk) := by
    unfold scalarNodeRead
    simp only [hrr, liftOutcome, bind, Except.bind, pure, Except.pure]
    rw [cri_junk env.lex j0 js hj0s hj047 hj hsemi l rest 41 false sk e0 (Or.inr rfl)]
    rcases he0 with rfl | rfl <;> simp [realValue, valueToAtom] <;> rfl
  refine ⟨_, sk, Or.inl rfl, ?_, ws_good0 _ 41 rest sk (by decide)⟩
  unfold selContentRead
  rcases hm with hm | hm <;> simp only [hm] <;>
    (first
      | (rw [show (if (ElemTy.real == ElemTy.number) = true then ElemTy.real else ElemTy.real) = ElemTy.real from rfl]
         simpa using hsn)
      | (rw [show (if (ElemTy.number == ElemTy.number) = true then ElemTy.real else ElemTy.number) = ElemTy.real from rfl]
         simpa using hsn))

end StepModel.P21.RLemmas

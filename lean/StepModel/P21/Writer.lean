import StepModel.P21.Reader
/-!
# `P21.Writer` — `STEPfile::WriteData` and what it calls

* `SDAI_Application_instance::STEPwrite( ostream&, currSch, writeComments = 0 )` → `writeInst` (simple part),
  `STEPcomplex::STEPwrite` / `WriteExtMapEntities` → `writeInst` (several parts)
* `STEPattribute::STEPwrite` → `writeAttr`
* `STEPaggregate::STEPwrite` with the scratch string `s` it hands to every node, and the node writers
  `IntNode/RealNode/StringNode/BinaryNode/EnumNode/EntityNode/SelectNode/GenericAggrNode::STEPwrite( std::string&, … )`
  → `writeAggr` / `nodeWrite`.  `StringNode` forwards to `SDAI_String::STEPwrite( std::string & s )`, which *appends*
  (`s += c_str()`); every other node assigns.  `RWCfg.stringNodeAppends` says which of the two the source does now.
* `SDAI_Select::STEPwrite` + generated `STEPwrite_content` → `writeSelect`
-/
namespace StepModel.P21

open StepModel

def enumTable : ElemTy → List (List Byte)
  | .boolean => EnumKind.boolean.table
  | .logical => EnumKind.logical.table
  | .enum items => items
  | _ => []

/-- a non-null scalar in exchange form (`STEPattribute::STEPwrite` switch, generated `STEPwrite_content`) -/
def writeAtomCore {F} (ops : FloatOps F) (ty : ElemTy) : Atom F → List Byte
  | .unset => []
  | .int v => showInt v
  | .real v => writeReal ops v
  | .str t => t
  | .bin t => writeBinary t
  | .enum i => [46] ++ ((enumTable ty).getD i bUNSET) ++ [46]
  | .ref id => 35 :: showInt id
  | .undef t => t

def memberTy (d : Dict) (ty : ElemTy) (member : String) : ElemTy :=
  match ty with
  | .select n =>
    match d.select? n with
    | some sd => (match sd.members.find? (·.name == member) with | some m => m.ty | none => .generic)
    | none => .generic
  | _ => .generic

/-- `SDAI_Select::STEPwrite( out, currSch )` for a select that `exists()` -/
def writeSelect {F} (ops : FloatOps F) (d : Dict) (ty : ElemTy) (member : String) (a : Atom F) : List Byte :=
  let mt := memberTy d ty member
  match mt with
  | .entity _ => writeAtomCore ops mt a
  | _ => stringToBytes member ++ [40] ++ writeAtomCore ops mt a ++ [41]

/-- `STEPattribute::STEPwrite` of a scalar attribute -/
def writeElemAttr {F} (ops : FloatOps F) (d : Dict) (ty : ElemTy) : Elem F → List Byte
  | .atom .unset => [36]
  | .atom a => writeAtomCore ops ty a
  | .sel m a => writeSelect ops d ty m a

/-- what one node's `STEPwrite( std::string & s, currSch )` leaves in the scratch string (and returns) -/
def nodeWrite {F} (ops : FloatOps F) (cfg : RWCfg) (d : Dict) (ty : ElemTy) (scratch : List Byte) : Elem F → List Byte
  | .sel m a => writeSelect ops d ty m a
  | .atom a =>
    match ty with
    | .string =>
      let t := match a with | .str t => t | _ => []
      if cfg.stringNodeAppends then scratch ++ t else t
    | .binary | .entity _ | .select _ | .generic =>
      (match a with | .unset => [36] | _ => writeAtomCore ops ty a)
    | _ => writeAtomCore ops ty a

/-- the node loop of `STEPaggregate::STEPwrite`: (scratch string, text written so far) -/
def writeNodes {F} (ops : FloatOps F) (cfg : RWCfg) (d : Dict) (ty : ElemTy) :
    List Byte → List (Elem F) → List Byte
  | _, [] => []
  | sc, [e] => nodeWrite ops cfg d ty sc e
  | sc, e :: es =>
    let t := nodeWrite ops cfg d ty sc e
    t ++ [44] ++ writeNodes ops cfg d ty t es

def writeAggr {F} (ops : FloatOps F) (cfg : RWCfg) (d : Dict) (ty : ElemTy) (es : List (Elem F)) : List Byte :=
  [40] ++ writeNodes ops cfg d ty [] es ++ [41]

/-- `STEPattribute::STEPwrite` -/
def writeAttr {F} (ops : FloatOps F) (cfg : RWCfg) (d : Dict) (a : AttrD) : MVal F → List Byte
  | .derived => [42]
  | .aggrNull => [36]
  | .aggr es => (match a.ty with | .aggr ety => writeAggr ops cfg d ety es | .one _ => [36])
  | .one e => (match a.ty with | .one ety => writeElemAttr ops d ety e | .aggr _ => [36])

/-- attribute list of `SDAI_Application_instance::STEPwrite`: a `,` before every written attribute whose index is
    not 0; redefining attributes are skipped -/
def writeAttrsSimple {F} (ops : FloatOps F) (cfg : RWCfg) (d : Dict) : Nat → List AttrD → List (MVal F) → List Byte
  | _, [], _ => []
  | i, a :: as, vs =>
    if a.redefining then writeAttrsSimple ops cfg d (i + 1) as vs
    else
      match vs with
      | [] => []
      | v :: vs' => (if i > 0 then [44] else []) ++ writeAttr ops cfg d a v ++ writeAttrsSimple ops cfg d (i + 1) as vs'

/-- attribute list of `STEPcomplex::WriteExtMapEntities`: a `,` after every attribute but the last -/
def writeAttrsPart {F} (ops : FloatOps F) (cfg : RWCfg) (d : Dict) : List AttrD → List (MVal F) → List Byte
  | [a], [v] => writeAttr ops cfg d a v
  | a :: as, v :: vs => writeAttr ops cfg d a v ++ [44] ++ writeAttrsPart ops cfg d as vs
  | _, _ => []

def writeInst {F} (ops : FloatOps F) (cfg : RWCfg) (d : Dict) (i : MInst F) : List Byte :=
  if i.complex then
    [35] ++ showInt i.id ++ stringToBytes "=(\n" ++
      i.parts.flatMap (fun p =>
        let as := match d.entity? p.name with | some e => e.ownAttrs.filter (!·.redefining) | none => []
        stringToBytes p.name ++ [40] ++ writeAttrsPart ops cfg d as p.vals ++ stringToBytes ")\n") ++
      stringToBytes ");\n"
  else
    match i.parts with
    | p :: _ =>
      let as := match d.entity? p.name with | some e => e.attrs | none => []
      [35] ++ showInt i.id ++ [61] ++ stringToBytes p.name ++ [40] ++ writeAttrsSimple ops cfg d 0 as p.vals ++
        stringToBytes ");\n"
    | [] => []

/-- `STEPfile::WriteData` -/
def writeData {F} (ops : FloatOps F) (cfg : RWCfg) (d : Dict) (m : Mgr F) : List Byte :=
  stringToBytes "DATA;\n" ++ m.insts.flatMap (writeInst ops cfg d) ++ stringToBytes "ENDSEC;\n"

end StepModel.P21

import StepModel.P21.ReaderLemmas8
/-! Records that pass 1 does not create (unknown or abstract keyword) among records it does: both passes over a mixed list
(for the confinement clause of C03). -/
namespace StepModel.P21.RLemmas
open StepModel StepModel.IStream StepModel.P21 StepModel.P21.Lemmas StepModel.P21.Grammar

variable {F : Type}

/-- pass 1 on a record whose keyword names no entity of the dictionary, or an abstract one: nothing is created, the
    record is skipped to its `;` -/
theorem createInstance_unknown (cfg : RWCfg) (hcfg : cfg.skipInstanceSkipsComments = true) (d : Dict) (m : Mgr F)
    (r : Rec F) (hlex : r.Lex) (hscan : ∀ q ∈ r.ps, ParamScan q) (hnone : m.find? r.id = none)
    (hunk : d.entity? r.name = none ∨ ∃ e, d.entity? r.name = some e ∧ e.abstract = true)
    (l rest : List Byte) :
    ∃ l', createInstance cfg d m (G l (r.text rest) false) = .ok (none, G l' rest false) := by
  obtain ⟨dne, ddig, dhi, h1, h2, h3, h4, hn0, hns, pne⟩ := hlex
  obtain ⟨hn0s, hn047, hn038, hn040, hn033, hn035, hn0d, hn0k, hn092⟩ := alpha_facts hn0
  obtain ⟨c0, u, hcu⟩ : ∃ c0 u, r.ds = c0 :: u := by
    cases hd : r.ds with
    | nil => exact absurd hd dne
    | cons c u => exact ⟨c, u, rfl⟩
  have hcd : isDigit c0 = true := by rw [hcu] at ddig; simp at ddig; exact ddig.1
  have hc047 : c0 ≠ 47 := by intro h; rw [h] at hcd; exact absurd hcd (by decide)
  obtain ⟨x, xr, hXe, hxd⟩ : ∃ x xr, r.t1 rest = x :: xr ∧ isDigit x = false :=
    seps_then r.s1 h1 61 _ (fun c => isDigit c = false) (fun c h => space_not_digit h) (by decide) (by decide)
  have e0 : readTokenSeparator (G l (r.text rest) false) = G l (r.text rest) false := by
    unfold Rec.text; rw [hcu]; exact readTokenSeparator_none l c0 _ false (digit_not_space hcd) hc047 (by intro h; rw [h] at hcd; exact absurd hcd (by decide))
  have e1 : (G l (r.text rest) false).extractInt32 = (some r.id, G (r.ds.reverse ++ l) (r.t1 rest) false) := by
    unfold Rec.text; rw [hXe]; exact extractInt32_digits r.ds dne ddig dhi l x xr false hxd
  have e2 : readTokenSeparator (G (r.ds.reverse ++ l) (r.t1 rest) false) = G (r.s1.reverse ++ (r.ds.reverse ++ l)) (61 :: r.t2 rest) false :=
    readTokenSeparator_seps r.s1 h1 (r.ds.reverse ++ l) 61 _ false (by decide) (by decide)
  have e3 : readTokenSeparator (G (61 :: (r.s1.reverse ++ (r.ds.reverse ++ l))) (r.t2 rest) false) =
      G (r.s2.reverse ++ 61 :: (r.s1.reverse ++ (r.ds.reverse ++ l))) (r.n0 :: (r.ns ++ r.t3 rest)) false :=
    readTokenSeparator_seps r.s2 h2 _ r.n0 _ false hn0s hn047 hn092
  unfold createInstance
  rw [e0]
  simp only [e1, Option.getD_some, hnone, Option.isSome_none, Bool.false_eq_true, if_false]
  rw [e2, getInto_good 0 _ 61 _ false]
  simp only [bne_self_eq_false, Bool.false_eq_true, if_false]
  rw [e3, peekC_good]
  have e38 : (r.n0 == 38) = false := by simp [hn038]
  have e40 : (r.n0 == 40) = false := by simp [hn040]
  have e33 : (r.n0 == 33) = false := by simp [hn033]
  simp only [e38, e40, e33, Bool.false_eq_true, if_false, bind, Except.bind, pure, Except.pure]
  obtain ⟨y, yr, hYe, hyk⟩ : ∃ y yr, r.t3 rest = y :: yr ∧ kwc y = false :=
    seps_then r.s3 h3 40 _ (fun c => kwc c = false) (fun c h => space_not_kwc h) (by decide) (by decide)
  have hkw : (r.n0 :: r.ns).all kwc = true := by simp only [List.all_cons, hn0k, Bool.true_and]; exact hns
  have ekw : readStdKeyword (G (r.s2.reverse ++ 61 :: (r.s1.reverse ++ (r.ds.reverse ++ l))) (r.n0 :: (r.ns ++ r.t3 rest)) false) =
      (r.n0 :: r.ns, G ((r.n0 :: r.ns).reverse ++ (r.s2.reverse ++ 61 :: (r.s1.reverse ++ (r.ds.reverse ++ l)))) (r.t3 rest) false) := by
    rw [hYe]
    exact readStdKeyword_spec r.n0 r.ns hkw hn0s y hyk _ yr false
  rw [ekw]
  simp only
  have hT : Passes (r.s3 ++ 40 :: (renderParams r.ps ++ r.s4)) :=
    Passes.append (Passes.seps h3) (Passes.append (a := [40]) (Passes.plain 40 (by decide))
      (Passes.append (Passes.params r.ps pne hscan) (Passes.seps h4)))
  have eT : r.t3 rest = (r.s3 ++ 40 :: (renderParams r.ps ++ r.s4)) ++ 59 :: rest := by simp [Rec.t3, Rec.t4]
  rw [eT, skipInstance_passes cfg hcfg _ hT]
  simp only
  rw [show bytesToString (upperBytes (r.n0 :: r.ns)) = r.name from rfl]
  rcases hunk with hn | ⟨e, he, habs⟩
  · rw [hn]; exact ⟨_, rfl⟩
  · rw [he]; simp only [habs, if_true]; exact ⟨_, rfl⟩

/-- pass 2 on a record pass 1 did not create: `ReadInstance` finds no node for the id and skips the record to its `;` -/
theorem readInstance_notfound (ops : FloatOps F) (lex : LexCfg) (cfg : RWCfg) (d : Dict) (strict : Bool)
    (hskip : cfg.skipInstanceSkipsComments = true) (st : P2 F)
    (r : Rec F) (hlex : r.Lex) (hscan : ∀ q ∈ r.ps, ParamScan q) (l rest : List Byte) (hs : st.s = G l (r.text rest) false)
    (hfind : st.mgr.find? r.id = none) :
    ∃ l', readInstance ops lex cfg d strict st = .ok { s := G l' rest false } := by
  obtain ⟨dne, ddig, dhi, h1, h2, h3, h4, hn0, hns, pne⟩ := hlex
  obtain ⟨hn0s, hn047, hn038, hn040, hn033, hn035, hn0d, hn0k, hn092⟩ := alpha_facts hn0
  obtain ⟨c, u, hcu⟩ : ∃ c u, r.ds = c :: u := by
    cases hd : r.ds with
    | nil => exact absurd hd dne
    | cons c u => exact ⟨c, u, rfl⟩
  have hcd : isDigit c = true := by rw [hcu] at ddig; simp at ddig; exact ddig.1
  have hc47 : c ≠ 47 := by intro h; rw [h] at hcd; exact absurd hcd (by decide)
  obtain ⟨x, xr, hXe, hxd⟩ : ∃ x xr, r.t1 rest = x :: xr ∧ isDigit x = false :=
    seps_then r.s1 h1 61 _ (fun c => isDigit c = false) (fun c h => space_not_digit h) (by decide) (by decide)
  have e0 : readComment (G l (r.text rest) false) = G l (r.text rest) false := by
    unfold Rec.text; rw [hcu]; exact readComment_none l c _ false (digit_not_space hcd) hc47
  have e1 : (G l (r.text rest) false).extractInt32 = (some r.id, G (r.ds.reverse ++ l) (r.t1 rest) false) := by
    unfold Rec.text; rw [hXe]; exact extractInt32_digits r.ds dne ddig dhi l x xr false hxd
  have hkw : (r.n0 :: r.ns).all kwc = true := by simp only [List.all_cons, hn0k, Bool.true_and]; exact hns
  have hT : Passes (r.s1 ++ (61 :: (r.s2 ++ ((r.n0 :: r.ns) ++ (r.s3 ++ 40 :: (renderParams r.ps ++ r.s4)))))) :=
    Passes.append (Passes.seps h1) (Passes.append (a := [61]) (Passes.plain 61 (by decide)) (Passes.append (Passes.seps h2)
      (Passes.append (Passes.all_plain _ (all_imp (fun c => kwc_plain) _ hkw))
        (Passes.append (Passes.seps h3) (Passes.append (a := [40]) (Passes.plain 40 (by decide))
          (Passes.append (Passes.params r.ps pne hscan) (Passes.seps h4)))))))
  have eT : r.t1 rest = (r.s1 ++ (61 :: (r.s2 ++ ((r.n0 :: r.ns) ++ (r.s3 ++ 40 :: (renderParams r.ps ++ r.s4)))))) ++ 59 :: rest := by
    simp [Rec.t1, Rec.t2, Rec.t3, Rec.t4]
  unfold readInstance
  rw [hs, e0]
  simp only [e1, Option.getD_some, hfind, bind, Except.bind, pure, Except.pure]
  rw [eT, skipInstance_passes cfg hskip _ hT]
  exact ⟨_, rfl⟩

/-! ## both passes over a mixed list -/

/-- the steps pass 1 creates an instance for (flag `true`) -/
def kept (xs : List (Step F × Bool)) : List (Step F) := (xs.filter (·.2)).map (·.1)
/-- the number of records pass 1 creates nothing for -/
def nskip (xs : List (Step F × Bool)) : Nat := (xs.filter (fun x => !x.2)).length
def recsOfX (xs : List (Step F × Bool)) : List (Rec F × List Byte) := xs.map (fun x => x.1.rg)

/-- a record that is skipped in both passes: its keyword names no entity, or an abstract one -/
def RecSkip (d : Dict) (x : Step F) : Prop :=
  x.r.Lex ∧ Seps x.g ∧ (∀ q ∈ x.r.ps, ParamScan q) ∧
  (d.entity? x.r.name = none ∨ ∃ e, d.entity? x.r.name = some e ∧ e.abstract = true)

theorem kept_cons_true (x : Step F) (xs : List (Step F × Bool)) : kept ((x, true) :: xs) = x :: kept xs := by simp [kept]
theorem kept_cons_false (x : Step F) (xs : List (Step F × Bool)) : kept ((x, false) :: xs) = kept xs := by simp [kept]
theorem nskip_cons_true (x : Step F) (xs : List (Step F × Bool)) : nskip ((x, true) :: xs) = nskip xs := by simp [nskip]
theorem nskip_cons_false (x : Step F) (xs : List (Step F × Bool)) : nskip ((x, false) :: xs) = nskip xs + 1 := by simp [nskip]

theorem readData1Loop_mixed (cfg : RWCfg) (hcfg : cfg.skipInstanceSkipsComments = true) (d : Dict) (sp tail : List Byte)
    (hsp : sp.all isSpace = true) :
    ∀ (xs : List (Step F × Bool)) (st : P1 F) (g0 l : List Byte) (fuel : Nat),
      Seps g0 → st.s = G l (g0 ++ renderRecs (recsOfX xs) (endsec sp tail)) false → xs.length + 2 ≤ fuel →
      (∀ x ∈ xs, if x.2 then Rec1OK d x.1.rg else RecSkip d x.1) → (xs.map (·.1.r.id)).Nodup →
      (∀ i ∈ st.mgr.insts, ∀ x ∈ xs, i.id ≠ x.1.r.id) →
      ∃ l', readData1Loop cfg d fuel st false =
        .ok { mgr := { insts := st.mgr.insts ++ (kept xs).map (fun x => mkInst d x.rg) }, count := st.count + (kept xs).length,
              notCreated := st.notCreated + nskip xs, s := G l' tail false } := by
  intro xs
  induction xs with
  | nil =>
    intro st g0 l fuel hg0 hs hf _ _ _
    obtain ⟨l', h⟩ := readData1Loop_end cfg d st g0 l sp tail hg0 hsp hs fuel (by simpa using hf)
    exact ⟨l', by simpa [kept, nskip] using h⟩
  | cons xb xs ih =>
    intro st g0 l fuel hg0 hs hf hok hnd hfresh
    obtain ⟨x, b⟩ := xb
    have hnd' : (xs.map (·.1.r.id)).Nodup := (List.nodup_cons.mp hnd).2
    have hrid : ∀ y ∈ xs, x.r.id ≠ y.1.r.id := by
      intro y hy heq
      exact (List.nodup_cons.mp hnd).1 (by show x.r.id ∈ _; rw [heq]; exact List.mem_map_of_mem (f := fun y : Step F × Bool => y.1.r.id) hy)
    have hnone : st.mgr.find? x.r.id = none := find?_none st.mgr x.r.id (fun i hi => hfresh i hi (x, b) (by simp))
    match fuel, hf with
    | n + 1, hf =>
      obtain ⟨c, k, hKe, hc⟩ := renderRecs_head (recsOfX xs) sp tail
      have hcs : isSpace c = false ∧ c ≠ 47 ∧ c ≠ 92 := by rcases hc with rfl | rfl <;> exact ⟨by decide, by decide, by decide⟩
      cases b with
      | true =>
        obtain ⟨hlex, hg, hscan, e, hent, habs⟩ : Rec1OK d x.rg := by simpa using hok (x, true) (by simp)
        obtain ⟨l1, hci⟩ := createInstance_rec cfg hcfg d st.mgr x.r hlex hscan hnone e hent habs (35 :: (g0.reverse ++ l)) x.g hg c k hcs.1 hcs.2.1 hcs.2.2
        rw [← hKe] at hci
        have hmk : ({ id := x.r.id, parts := [{ name := x.r.name, vals := defaults e.attrs }] } : MInst F) = mkInst d x.rg := by
          have hent' : d.entity? x.r.name = some e := hent
          simp [mkInst, Step.rg, hent']
        rw [hmk] at hci
        unfold readData1Loop
        rw [hs]
        simp only [G_good, Bool.not_false, Bool.and_self, if_true, bind, Except.bind, recsOfX, List.map_cons, Step.rg, renderRecs]
        simp only [readTokenSeparator_seps g0 hg0 l 35 _ false (by decide) (by decide), shiftInto_ns,
          bne_self_eq_false, Bool.false_eq_true, if_false, pure, Except.pure]
        have hci' := hci
        simp only [recsOfX, Step.rg] at hci'
        rw [hci']
        simp only
        rcases foundEndSec_gap [] (Seps.blanks [] (by simp)) (recsOfX xs) sp tail hsp l1 false with ⟨hnil, l2, hfe⟩ | ⟨l2, t, ht, hfe⟩
        · simp only [List.nil_append, recsOfX, Step.rg] at hfe
          rw [hfe]
          have hxs : xs = [] := by simpa [recsOfX] using hnil
          subst hxs
          refine ⟨l2, ?_⟩
          obtain ⟨m, rfl⟩ : ∃ m, n = m + 1 := ⟨n - 1, by simp only [List.length_cons] at hf; omega⟩
          unfold readData1Loop
          simp [kept, nskip, Step.rg]
          rfl
        · simp only [List.nil_append, recsOfX, Step.rg] at hfe
          rw [hfe]
          simp only
          obtain ⟨l3, hih⟩ := ih (⟨⟨st.mgr.insts ++ [mkInst d x.rg]⟩, st.count + 1, st.notCreated,
              G l2 (t ++ renderRecs (recsOfX xs) (endsec sp tail)) false⟩ : P1 F) t l2 n ht rfl
            (by simp only [List.length_cons] at hf; omega) (fun y hy => hok y (by simp [hy])) hnd'
            (by
              intro i hi y hy
              simp only [List.mem_append, List.mem_singleton] at hi
              rcases hi with hi | rfl
              · exact hfresh i hi y (by simp [hy])
              · exact hrid y hy)
          refine ⟨l3, ?_⟩
          have hih' := hih
          simp only [recsOfX, Step.rg] at hih'
          rw [hih']
          simp [kept_cons_true, nskip_cons_true, Nat.add_assoc, Nat.add_comm 1, Step.rg]
      | false =>
        obtain ⟨hlex, hg, hscan, hunk⟩ : RecSkip d x := by simpa using hok (x, false) (by simp)
        obtain ⟨l1, hci⟩ := createInstance_unknown cfg hcfg d st.mgr x.r hlex hscan hnone hunk (35 :: (g0.reverse ++ l))
          (x.g ++ renderRecs (recsOfX xs) (endsec sp tail))
        unfold readData1Loop
        rw [hs]
        simp only [G_good, Bool.not_false, Bool.and_self, if_true, bind, Except.bind, recsOfX, List.map_cons, Step.rg, renderRecs]
        simp only [readTokenSeparator_seps g0 hg0 l 35 _ false (by decide) (by decide), shiftInto_ns,
          bne_self_eq_false, Bool.false_eq_true, if_false, pure, Except.pure]
        have hci' := hci
        simp only [recsOfX, Step.rg] at hci'
        rw [hci']
        simp only
        rcases foundEndSec_gap x.g hg (recsOfX xs) sp tail hsp l1 false with ⟨hnil, l2, hfe⟩ | ⟨l2, t, ht, hfe⟩
        · simp only [recsOfX, Step.rg] at hfe
          rw [hfe]
          have hxs : xs = [] := by simpa [recsOfX] using hnil
          subst hxs
          refine ⟨l2, ?_⟩
          obtain ⟨m, rfl⟩ : ∃ m, n = m + 1 := ⟨n - 1, by simp only [List.length_cons] at hf; omega⟩
          unfold readData1Loop
          simp [kept, nskip]
          rfl
        · simp only [recsOfX, Step.rg] at hfe
          rw [hfe]
          simp only
          obtain ⟨l3, hih⟩ := ih (⟨st.mgr, st.count, st.notCreated + 1,
              G l2 (t ++ renderRecs (recsOfX xs) (endsec sp tail)) false⟩ : P1 F) t l2 n ht rfl
            (by simp only [List.length_cons] at hf; omega) (fun y hy => hok y (by simp [hy])) hnd'
            (fun i hi y hy => hfresh i hi y (by simp [hy]))
          refine ⟨l3, ?_⟩
          have hih' := hih
          simp only [recsOfX, Step.rg] at hih'
          rw [hih']
          simp [kept_cons_false, nskip_cons_false, Nat.add_assoc, Nat.add_comm 1]

structure P2Mixed (st st' : P2 F) (insts : List (MInst F)) (xs : List (Step F × Bool)) (tail : List Byte) : Prop where
  mgr : st'.mgr.insts = insts
  err : st'.fileErr = errAfter st.fileErr (kept xs)
  total : st'.total = st.total + (kept xs).length
  valid : st'.valid = st.valid + (kept xs).length
  invalid : st'.invalid = st.invalid + nskip xs
  s : ∃ l' sk', st'.s = G l' tail sk'
  rep : st'.reported = ((kept xs).map (·.sev)).reverse ++ st.reported

theorem readData2Loop_mixed (ops : FloatOps F) (lex : LexCfg) (cfg : RWCfg) (hskip : cfg.skipInstanceSkipsComments = true)
    (d : Dict) (strict : Bool) (lk : Lookup) (sp tail : List Byte) (hsp : sp.all isSpace = true) :
    ∀ (xs : List (Step F × Bool)) (st : P2 F) (pre : List (MInst F)) (g0 l : List Byte) (fuel : Nat),
      Seps g0 → st.s = G l (g0 ++ renderRecs (recsOfX xs) (endsec sp tail)) false → xs.length + 2 ≤ fuel →
      st.mgr.insts = pre ++ (kept xs).map (fun x => mkInst d x.rg) → (∀ i ∈ pre, ∀ x ∈ xs, i.id ≠ x.1.r.id) →
      (xs.map (·.1.r.id)).Nodup → Mgr.lookup d st.mgr = lk →
      (∀ x ∈ xs, if x.2 then StepOK ops lex cfg d strict lk x.1 else RecSkip d x.1) →
      ∃ st', readData2Loop ops lex cfg d strict fuel st false = .ok st' ∧
        P2Mixed st st' (pre ++ (kept xs).map (·.out)) xs tail := by
  intro xs
  induction xs with
  | nil =>
    intro st pre g0 l fuel hg0 hs hf hm _ _ _ _
    obtain ⟨l', h⟩ := readData2Loop_end ops lex cfg d strict st g0 l sp tail false hg0 hsp hs fuel (by simpa using hf)
    exact ⟨_, h, ⟨by simpa [kept] using hm, rfl, rfl, rfl, rfl, ⟨l', false, rfl⟩, by simp [kept]⟩⟩
  | cons xb xs ih =>
    intro st pre g0 l fuel hg0 hs hf hm hfresh hnd hlk hok
    obtain ⟨x, b⟩ := xb
    have hnd' : (xs.map (·.1.r.id)).Nodup := (List.nodup_cons.mp hnd).2
    have hrid : ∀ y ∈ xs, x.r.id ≠ y.1.r.id := by
      intro y hy heq
      exact (List.nodup_cons.mp hnd).1 (by show x.r.id ∈ _; rw [heq]; exact List.mem_map_of_mem (f := fun y : Step F × Bool => y.1.r.id) hy)
    have hkid : ∀ i ∈ (kept xs).map (fun x => mkInst d x.rg), i.id ≠ x.r.id := by
      intro i hi
      obtain ⟨y, hy, rfl⟩ := List.mem_map.mp hi
      have hy' : (y, true) ∈ xs := by
        simp only [kept, List.mem_map, List.mem_filter] at hy
        obtain ⟨⟨y', b'⟩, ⟨hmem, hb⟩, rfl⟩ := hy
        simp only at hb; subst hb; exact hmem
      exact fun h => hrid (y, true) hy' h.symm
    match fuel, hf with
    | n + 1, hf =>
      cases b with
      | true =>
        obtain ⟨hg, hid, hkey, hstep⟩ : StepOK ops lex cfg d strict lk x := by simpa using hok (x, true) (by simp)
        rw [kept_cons_true] at hm
        simp only [List.map_cons] at hm
        have hmgr : st.mgr = { insts := pre ++ mkInst d x.rg :: (kept xs).map (fun x => mkInst d x.rg) } :=
          Mgr.eq_of_insts _ _ hm
        have hpre : ∀ i ∈ pre, i.id ≠ (mkInst d x.rg).id := fun i hi => hfresh i hi (x, true) (by simp)
        obtain ⟨l1, hri⟩ := hstep
          { st with s := G (35 :: (g0.reverse ++ l)) (x.r.text (x.g ++ renderRecs (recsOfX xs) (endsec sp tail))) false }
          _ _ (by show st.mgr.find? _ = _; rw [hmgr]; exact find?_mid pre _ (mkInst d x.rg) hpre) hlk rfl
        have hupd : st.mgr.update x.out = { insts := pre ++ x.out :: (kept xs).map (fun x => mkInst d x.rg) } := by
          rw [hmgr]; exact update_mid pre _ (mkInst d x.rg) x.out hid hpre hkid
        unfold readData2Loop
        rw [hs]
        simp only [G_good, Bool.not_false, Bool.and_self, if_true, bind, Except.bind, recsOfX, List.map_cons, Step.rg, renderRecs]
        simp only [readTokenSeparator_seps g0 hg0 l 35 _ false (by decide) (by decide), shiftInto_good 0 _ 35 _ false (by decide),
          bne_self_eq_false, Bool.false_eq_true, if_false, pure, Except.pure]
        have hri' := hri
        simp only [recsOfX, Step.rg] at hri'
        rw [hri']
        simp only
        have hap : applyOutcome st
            { s := G l1 (x.g ++ renderRecs (xs.map (fun x => (x.1.r, x.1.g))) (endsec sp tail)) false, inst := some x.out,
              reported := some x.sev, left := some .null } =
            { st with mgr := st.mgr.update x.out, fileErr := appendEntityError st.fileErr x.sev, reported := x.sev :: st.reported,
                      s := G l1 (x.g ++ renderRecs (xs.map (fun x => (x.1.r, x.1.g))) (endsec sp tail)) false, total := st.total + 1,
                      valid := st.valid + 1 } := rfl
        rw [hap, hupd]
        rcases foundEndSec_gap x.g hg (recsOfX xs) sp tail hsp l1 false with ⟨hnil, l2, hfe⟩ | ⟨l2, t, ht, hfe⟩
        · simp only [recsOfX, Step.rg] at hfe
          simp only [hfe]
          have hxs : xs = [] := by simpa [recsOfX] using hnil
          subst hxs
          obtain ⟨m, rfl⟩ : ∃ m, n = m + 1 := ⟨n - 1, by simp only [List.length_cons] at hf; omega⟩
          unfold readData2Loop
          simp only [G_good, Bool.not_true, Bool.and_false, Bool.false_eq_true, if_false, pure, Except.pure]
          exact ⟨_, rfl, ⟨by simp [kept], by simp [kept, errAfter], by simp [kept], by simp [kept], by simp [nskip],
            ⟨l2, false, rfl⟩, by simp [kept]⟩⟩
        · simp only [recsOfX, Step.rg] at hfe
          simp only [hfe]
          obtain ⟨st', hrun, hdone⟩ := ih
            ({ st with mgr := { insts := pre ++ x.out :: (kept xs).map (fun x => mkInst d x.rg) },
                       fileErr := appendEntityError st.fileErr x.sev, reported := x.sev :: st.reported,
                       s := G l2 (t ++ renderRecs (recsOfX xs) (endsec sp tail)) false, total := st.total + 1,
                       valid := st.valid + 1 } : P2 F)
            (pre ++ [x.out]) t l2 n ht rfl (by simp only [List.length_cons] at hf; omega) (by simp)
            (by
              intro i hi y hy
              simp only [List.mem_append, List.mem_singleton] at hi
              rcases hi with hi | rfl
              · exact hfresh i hi y (by simp [hy])
              · rw [hid]; exact hrid y hy)
            hnd'
            (by
              rw [← hlk, hmgr]
              apply lookup_congr
              simp only [List.map_append, List.map_cons, hkey])
            (fun y hy => hok y (by simp [hy]))
          have hrun' := hrun
          simp only [recsOfX, Step.rg] at hrun'
          refine ⟨st', hrun', ⟨?_, ?_, ?_, ?_, ?_, hdone.s, ?_⟩⟩
          · rw [hdone.mgr, kept_cons_true]; simp
          · rw [hdone.err, kept_cons_true]; simp [errAfter]
          · rw [hdone.total, kept_cons_true]; simp only [List.length_cons]; omega
          · rw [hdone.valid, kept_cons_true]; simp only [List.length_cons]; omega
          · rw [hdone.invalid, nskip_cons_true]
          · rw [hdone.rep, kept_cons_true]; simp
      | false =>
        obtain ⟨hlex, hg, hscan, _⟩ : RecSkip d x := by simpa using hok (x, false) (by simp)
        rw [kept_cons_false] at hm
        have hnf : st.mgr.find? x.r.id = none := by
          apply find?_none
          intro i hi
          rw [hm] at hi
          rcases List.mem_append.mp hi with hi | hi
          · exact hfresh i hi (x, false) (by simp)
          · exact hkid i hi
        obtain ⟨l1, hri⟩ := readInstance_notfound ops lex cfg d strict hskip
          { st with s := G (35 :: (g0.reverse ++ l)) (x.r.text (x.g ++ renderRecs (recsOfX xs) (endsec sp tail))) false }
          x.r hlex hscan _ _ rfl hnf
        unfold readData2Loop
        rw [hs]
        simp only [G_good, Bool.not_false, Bool.and_self, if_true, bind, Except.bind, recsOfX, List.map_cons, Step.rg, renderRecs]
        simp only [readTokenSeparator_seps g0 hg0 l 35 _ false (by decide) (by decide), shiftInto_good 0 _ 35 _ false (by decide),
          bne_self_eq_false, Bool.false_eq_true, if_false, pure, Except.pure]
        have hri' := hri
        simp only [recsOfX, Step.rg] at hri'
        rw [hri']
        simp only
        have hap : applyOutcome st
            ({ s := G l1 (x.g ++ renderRecs (xs.map (fun x => (x.1.r, x.1.g))) (endsec sp tail)) false } : IOut F) =
            { st with s := G l1 (x.g ++ renderRecs (xs.map (fun x => (x.1.r, x.1.g))) (endsec sp tail)) false,
                      invalid := st.invalid + 1 } := rfl
        rw [hap]
        rcases foundEndSec_gap x.g hg (recsOfX xs) sp tail hsp l1 false with ⟨hnil, l2, hfe⟩ | ⟨l2, t, ht, hfe⟩
        · simp only [recsOfX, Step.rg] at hfe
          simp only [hfe]
          have hxs : xs = [] := by simpa [recsOfX] using hnil
          subst hxs
          obtain ⟨m, rfl⟩ : ∃ m, n = m + 1 := ⟨n - 1, by simp only [List.length_cons] at hf; omega⟩
          unfold readData2Loop
          simp only [G_good, Bool.not_true, Bool.and_false, Bool.false_eq_true, if_false, pure, Except.pure]
          exact ⟨_, rfl, ⟨by simpa [kept] using hm, by simp [kept, errAfter], by simp [kept], by simp [kept], by simp [nskip],
            ⟨l2, false, rfl⟩, by simp [kept]⟩⟩
        · simp only [recsOfX, Step.rg] at hfe
          simp only [hfe]
          obtain ⟨st', hrun, hdone⟩ := ih
            ({ st with s := G l2 (t ++ renderRecs (recsOfX xs) (endsec sp tail)) false, invalid := st.invalid + 1 } : P2 F)
            pre t l2 n ht rfl (by simp only [List.length_cons] at hf; omega) hm
            (fun i hi y hy => hfresh i hi y (by simp [hy])) hnd' hlk (fun y hy => hok y (by simp [hy]))
          have hrun' := hrun
          simp only [recsOfX, Step.rg] at hrun'
          refine ⟨st', hrun', ⟨?_, ?_, ?_, ?_, ?_, hdone.s, ?_⟩⟩
          · rw [hdone.mgr, kept_cons_false]
          · rw [hdone.err, kept_cons_false]
          · rw [hdone.total, kept_cons_false]
          · rw [hdone.valid, kept_cons_false]
          · rw [hdone.invalid, nskip_cons_false]; show st.invalid + 1 + nskip xs = st.invalid + (nskip xs + 1); omega
          · rw [hdone.rep, kept_cons_false]

theorem finish_counts2 (p1 : P1 F) (p2 : P2 F) (tail : List Byte) (htail : TailOK tail) (hs : ∃ l' sk', p2.s = G l' tail sk')
    (hv : p2.valid = p1.count) :
    (finish p1 p2).sev = (if p2.invalid > 0 then p2.fileErr.greater .warning else p2.fileErr) ∧ (finish p1 p2).mgr = p2.mgr ∧
    (finish p1 p2).created = p1.count ∧ (finish p1 p2).notCreated = p1.notCreated ∧ (finish p1 p2).valid = p2.valid ∧
    (finish p1 p2).invalid = p2.invalid ∧ (finish p1 p2).reported = p2.reported := by
  obtain ⟨l', sk', hs⟩ := hs
  obtain ⟨t1, t2, t3⟩ := htail l' sk'
  unfold finish
  rw [hs]
  simp only [t1, if_true, hv, bne_self_eq_false, t2, t3, Bool.not_true, finalVerdict]
  simp

theorem recsOfX_length (xs : List (Step F × Bool)) : (recsOfX xs).length = xs.length := by simp [recsOfX]

/-- both passes over records some of which pass 1 cannot create -/
theorem readDataSection_mixed (ops : FloatOps F) (lex : LexCfg) (cfg : RWCfg) (hcfg : cfg.skipInstanceSkipsComments = true)
    (d : Dict) (strict : Bool) (sp tail : List Byte) (hsp : sp.all isSpace = true) (htail : TailOK tail)
    (xs : List (Step F × Bool)) (g0 : List Byte) (hg0 : Seps g0)
    (hnd : (xs.map (·.1.r.id)).Nodup)
    (h1 : ∀ x ∈ xs, if x.2 then Rec1OK d x.1.rg else RecSkip d x.1)
    (h2 : ∀ x ∈ xs, if x.2 then StepOK ops lex cfg d strict
            (Mgr.lookup d ({ insts := (kept xs).map (fun x => mkInst d x.rg) } : Mgr F)) x.1 else RecSkip d x.1) :
    ∃ res, readDataSection ops lex cfg d strict false (g0 ++ renderRecs (recsOfX xs) (endsec sp tail)) = .ok res ∧
      res.mgr.insts = (kept xs).map (·.out) ∧
      res.sev = (if nskip xs > 0 then (errAfter (if nskip xs > 0 then .warning else .null) (kept xs)).greater .warning
                 else errAfter (if nskip xs > 0 then .warning else .null) (kept xs)) ∧
      res.created = (kept xs).length ∧ res.notCreated = nskip xs ∧ res.valid = (kept xs).length ∧ res.invalid = nskip xs ∧
      res.reported = ((kept xs).map (·.sev)).reverse := by
  -- pass 1
  have hp1 : ∃ l', readData1 (F := F) cfg d { right := g0 ++ renderRecs (recsOfX xs) (endsec sp tail), skipws := false } =
      .ok { mgr := { insts := (kept xs).map (fun x => mkInst d x.rg) }, count := (kept xs).length, notCreated := nskip xs,
            s := G l' tail false } := by
    unfold readData1
    rcases foundEndSec_gap g0 hg0 (recsOfX xs) sp tail hsp [] false with ⟨hnil, l2, hfe⟩ | ⟨l2, t, ht, hfe⟩
    · have hfe' : foundEndSec { right := g0 ++ renderRecs (recsOfX xs) (endsec sp tail), skipws := false } = (true, G l2 tail false) := hfe
      rw [hfe']
      have hxs : xs = [] := by simpa [recsOfX] using hnil
      subst hxs
      refine ⟨l2, ?_⟩
      simp only
      unfold readData1Loop
      simp [kept, nskip]
      rfl
    · have hfe' : foundEndSec { right := g0 ++ renderRecs (recsOfX xs) (endsec sp tail), skipws := false } =
          (false, G l2 (t ++ renderRecs (recsOfX xs) (endsec sp tail)) false) := hfe
      rw [hfe']
      simp only
      obtain ⟨l3, h⟩ := readData1Loop_mixed cfg hcfg d sp tail hsp xs
        (⟨{}, 0, 0, G l2 (t ++ renderRecs (recsOfX xs) (endsec sp tail)) false⟩ : P1 F) t l2
        ((t ++ renderRecs (recsOfX xs) (endsec sp tail)).length + 3) ht rfl
        (by have := renderRecs_length (recsOfX xs) (endsec sp tail); rw [recsOfX_length] at this; simp only [List.length_append]; omega)
        h1 hnd (by intro i hi; simp at hi)
      refine ⟨l3, ?_⟩
      simpa using h
  obtain ⟨l1, hp1⟩ := hp1
  rw [readDataSection_eq]
  simp only [bind, Except.bind, hp1, gt_iff_lt, pure, Except.pure]
  have key : ∃ st', readData2Loop ops lex cfg d strict
      ((foundEndSec { right := g0 ++ renderRecs (recsOfX xs) (endsec sp tail), skipws := false }).2.right.length + 3)
      { mgr := { insts := (kept xs).map (fun x => mkInst d x.rg) }, fileErr := (if 0 < nskip xs then .warning else .null),
        total := 0, valid := 0, invalid := 0, incomplete := 0,
        warnings := 0, s := (foundEndSec { right := g0 ++ renderRecs (recsOfX xs) (endsec sp tail), skipws := false }).2 }
      (foundEndSec { right := g0 ++ renderRecs (recsOfX xs) (endsec sp tail), skipws := false }).1 = .ok st' ∧
      st'.mgr.insts = (kept xs).map (·.out) ∧ st'.fileErr = errAfter (if 0 < nskip xs then .warning else .null) (kept xs) ∧
      st'.valid = (kept xs).length ∧ st'.invalid = nskip xs ∧
      (∃ l' sk', st'.s = G l' tail sk') ∧ st'.reported = ((kept xs).map (·.sev)).reverse := by
    rcases foundEndSec_gap g0 hg0 (recsOfX xs) sp tail hsp [] false with ⟨hnil, l2, hfe⟩ | ⟨l2, t, ht, hfe⟩
    · have hfe' : foundEndSec { right := g0 ++ renderRecs (recsOfX xs) (endsec sp tail), skipws := false } = (true, G l2 tail false) := hfe
      rw [hfe']
      have hxs : xs = [] := by simpa [recsOfX] using hnil
      subst hxs
      refine ⟨({ mgr := { insts := [] }, fileErr := .null, total := 0, valid := 0, invalid := 0, incomplete := 0,
                 warnings := 0, s := G l2 tail false } : P2 F), ?_, ?_⟩
      · simp only
        unfold readData2Loop
        simp [kept, nskip]
        rfl
      · exact ⟨rfl, rfl, rfl, rfl, ⟨l2, false, rfl⟩, rfl⟩
    · have hfe' : foundEndSec { right := g0 ++ renderRecs (recsOfX xs) (endsec sp tail), skipws := false } =
          (false, G l2 (t ++ renderRecs (recsOfX xs) (endsec sp tail)) false) := hfe
      rw [hfe']
      obtain ⟨st', hrun, hdone⟩ := readData2Loop_mixed ops lex cfg hcfg d strict
        (Mgr.lookup d ({ insts := (kept xs).map (fun x => mkInst d x.rg) } : Mgr F)) sp tail hsp xs
        ({ mgr := { insts := (kept xs).map (fun x => mkInst d x.rg) }, fileErr := (if 0 < nskip xs then .warning else .null),
           total := 0, valid := 0, invalid := 0, incomplete := 0,
           warnings := 0, s := G l2 (t ++ renderRecs (recsOfX xs) (endsec sp tail)) false } : P2 F) [] t l2
        ((t ++ renderRecs (recsOfX xs) (endsec sp tail)).length + 3) ht rfl
        (by have := renderRecs_length (recsOfX xs) (endsec sp tail); rw [recsOfX_length] at this; simp only [List.length_append]; omega)
        (by simp) (by intro i hi; simp at hi) hnd rfl h2
      refine ⟨st', hrun, ?_, hdone.err, ?_, ?_, hdone.s, ?_⟩
      · simpa using hdone.mgr
      · simpa using hdone.valid
      · simpa using hdone.invalid
      · simpa using hdone.rep
  obtain ⟨st', hrun, hm, herr, hv, hinv, hs, hrep⟩ := key
  rw [hrun]
  simp only
  obtain ⟨f1, f2, f3, f4, f5, f6, f7⟩ := finish_counts2
    ({ mgr := { insts := (kept xs).map (fun x => mkInst d x.rg) }, count := (kept xs).length, notCreated := nskip xs,
       s := G l1 tail false } : P1 F) st' tail htail hs hv
  refine ⟨_, rfl, ?_, ?_, f3, f4, ?_, ?_, ?_⟩
  · rw [f2, hm]
  · rw [f1, herr, hinv]
  · rw [f5, hv]
  · rw [f6, hinv]
  · rw [f7, hrep]

end StepModel.P21.RLemmas

import StepModel.P21.AggrLemmas
/-! `ReadTokenSeparator` on **arbitrary** input (C09, final proof round): whatever stands in the stream, when the function
returns a stream without pending flags that is not at its end, the next character is neither a blank, nor `/`, nor `\`
(`readTokenSeparator_head`).  This discharges the hypothesis `hsA` of the aggregate element theorems for every stream, not only
for the layouts `Seps` of blanks and comments.  What the function *skipped* is not claimed to be conforming — it drops a `/` that
starts no comment and an incomplete print control directive without a report (finding `agg:stray-slash-or-backslash-dropped`). -/
namespace StepModel.P21.AggrLemmas
open StepModel StepModel.IStream StepModel.P21 StepModel.P21.Lemmas StepModel.P21.Grammar StepModel.P21.RLemmas

theorem cmtBody_len : ∀ (r l l' r' : List Byte), cmtBody l r = some (l', r') → r'.length ≤ r.length
  | [], l, l', r', h => by simp [cmtBody] at h
  | [c], l, l', r', h => by
    unfold cmtBody at h
    split at h
    · rename_i heq; cases heq
    · rename_i heq; cases heq; simp [cmtBody] at h
    · rename_i heq; cases heq
  | c :: d :: r, l, l', r', h => by
    by_cases hcd : c = 42 ∧ d = 47
    · obtain ⟨rfl, rfl⟩ := hcd
      simp only [cmtBody, Option.some.injEq, Prod.mk.injEq] at h
      rw [← h.2]; simp; omega
    · have hstep : cmtBody l (c :: d :: r) = cmtBody (c :: l) (d :: r) :=
        cmtBody_step l c (d :: r) (by simpa using hcd)
      rw [hstep] at h
      have := cmtBody_len (d :: r) (c :: l) l' r' h
      simp at this ⊢; omega

theorem dropSpaces_len (l r : List Byte) : (dropSpaces l r).2.length ≤ r.length := by
  obtain ⟨sp, hl, hsp, hr⟩ := dropSpaces_left l r
  conv => rhs; rw [hr]
  simp

/-- `in >> ws` on a stream without pending flags: still none pending unless the input ended, nothing but blanks moved -/
theorem ws_G (l r : List Byte) (sk : Bool) :
    (G l r sk).ws = { left := (dropSpaces l r).1, right := (dropSpaces l r).2, eof := (dropSpaces l r).2.isEmpty, fail := false,
                      bad := false, skipws := sk } := by
  simp [IStream.ws, IStream.sentry, IStream.good]

/-- a comment attempt at `/`: at least the slash is consumed -/
theorem readComment_len (l r : List Byte) (sk : Bool) : (readComment (G l (47 :: r) sk)).right.length ≤ r.length := by
  unfold readComment
  rw [show (G l (47 :: r) sk).ws = G l (47 :: r) sk from ws_good0 l 47 r sk (by decide)]
  simp only
  rw [shiftInto_good 0 l 47 r sk (by decide)]
  simp only [beq_self_eq_true, if_true]
  cases r with
  | nil =>
    simp [getInto, IStream.get, IStream.sentry, IStream.good, IStream.putback]
  | cons c2 r2 =>
    rw [show getInto 47 (G (47 :: l) (c2 :: r2) sk) = (c2, G (c2 :: 47 :: l) r2 sk) from getInto_good 47 _ c2 r2 sk]
    simp only
    by_cases h42 : c2 = 42
    · subst h42
      simp only [beq_self_eq_true, if_true]
      rw [ws_G]
      simp only [IStream.good]
      cases hd : (dropSpaces (42 :: 47 :: l) r2).2 with
      | nil => simp
      | cons x y =>
        simp only [List.isEmpty_cons, Bool.not_false, Bool.and_self, if_true]
        have hlen := dropSpaces_len (42 :: 47 :: l) r2
        rw [hd] at hlen
        cases hb : cmtBody (dropSpaces (42 :: 47 :: l) r2).1 (x :: y) with
        | none => simp
        | some p =>
          obtain ⟨l', r'⟩ := p
          have := cmtBody_len _ _ _ _ hb
          simp at this hlen ⊢
          omega
    · have : (c2 == 42) = false := by simp [h42]
      simp only [this, Bool.false_eq_true, if_false]
      rw [show (G (c2 :: 47 :: l) r2 sk).putback c2 = G (47 :: l) (c2 :: r2) sk from putback_good c2 (47 :: l) r2 sk]
      exact Nat.le_refl _

/-- a directive attempt at `\`: at least the backslash is consumed -/
theorem readPcd_len (l r : List Byte) (sk : Bool) : (readPcd (G l (92 :: r) sk)).right.length ≤ r.length := by
  unfold readPcd
  rw [show getInto 0 (G l (92 :: r) sk) = (92, G (92 :: l) r sk) from getInto_good 0 l 92 r sk]
  simp only [beq_self_eq_true, if_true]
  cases r with
  | nil => simp [getInto, IStream.get, IStream.sentry, IStream.good]
  | cons c2 r2 =>
    rw [show getInto 92 (G (92 :: l) (c2 :: r2) sk) = (c2, G (c2 :: 92 :: l) r2 sk) from getInto_good 92 _ c2 r2 sk]
    simp only
    split
    · cases r2 with
      | nil => simp [getInto, IStream.get, IStream.sentry, IStream.good]
      | cons c3 r3 =>
        rw [show getInto c2 (G (c2 :: 92 :: l) (c3 :: r3) sk) = (c3, G (c3 :: c2 :: 92 :: l) r3 sk) from getInto_good c2 _ c3 r3 sk]
        simp only
        split
        · split
          · cases r3 with
            | nil => simp [getInto, IStream.get, IStream.sentry, IStream.good]
            | cons c4 r4 =>
              rw [show getInto c3 (G (c3 :: c2 :: 92 :: l) (c4 :: r4) sk) = (c4, G (c4 :: c3 :: c2 :: 92 :: l) r4 sk) from
                getInto_good c3 _ c4 r4 sk]
              simp; omega
          · simp; omega
        · simp; omega
    · simp

/-- the loop of `ReadTokenSeparator` on an arbitrary stream (fuel not exhausted: every continuing round consumes a character):
    when it ends with no flag pending and input left, the next character is not a blank, not `/`, not `\` -/
theorem rtsAux_head : ∀ (fuel : Nat) (s : IStream), s.right.length < fuel →
    (readTokenSeparatorAux fuel s).good = true → ∀ c t, (readTokenSeparatorAux fuel s).right = c :: t →
      isSpace c = false ∧ c ≠ 47 ∧ c ≠ 92
  | 0, s, hf, _, _, _, _ => by omega
  | n + 1, s, hf, hg, c, t, hr => by
    obtain ⟨l, r, e, f, b, sk⟩ := s
    unfold readTokenSeparatorAux at hg hr
    by_cases hfl : (IStream.failed { left := l, right := r, eof := e, fail := f, bad := b, skipws := sk }) = true
    · simp only [hfl, if_true] at hg
      simp [IStream.failed, IStream.good] at hfl hg
      rcases hfl with h | h <;> simp [h] at hg
    · simp only [hfl, Bool.false_eq_true, if_false] at hg hr
      simp only [IStream.failed, Bool.or_eq_true, not_or, Bool.not_eq_true] at hfl
      obtain ⟨rfl, rfl⟩ := hfl
      cases e with
      | true =>
        exfalso
        simp [IStream.ws, IStream.sentry, IStream.good, IStream.peekC, IStream.peek] at hg
      | false =>
        have hws := ws_G l r sk
        simp only [G] at hws
        obtain ⟨sp, body, h1, h2, h3, h4⟩ := dropSpaces_split l r
        rw [h3] at hws
        simp only at hws
        rw [hws] at hg hr
        rcases h4 with rfl | ⟨x, y, rfl, hx⟩
        · exfalso
          simp [IStream.good, IStream.peekC, IStream.peek, IStream.sentry] at hg
        · simp only [List.isEmpty_cons] at hg hr
          rw [peekC_good] at hg hr
          simp only at hg hr
          have hlen : y.length < n := by
            have : r.length = sp.length + (y.length + 1) := by rw [h1]; simp
            simp only at hf
            omega
          by_cases h47 : x = 47
          · subst h47
            simp only [beq_self_eq_true, if_true] at hg hr
            have hl := readComment_len (sp.reverse ++ l) y sk
            simp only [G] at hl
            exact rtsAux_head n _ (by omega) hg c t hr
          · have e47 : (x == 47) = false := by simp [h47]
            simp only [e47, Bool.false_eq_true, if_false] at hg hr
            by_cases h92 : x = 92
            · subst h92
              simp only [beq_self_eq_true, if_true] at hg hr
              have hl := readPcd_len (sp.reverse ++ l) y sk
              simp only [G] at hl
              exact rtsAux_head n _ (by omega) hg c t hr
            · have e92 : (x == 92) = false := by simp [h92]
              simp only [e92, Bool.false_eq_true, if_false] at hg hr
              simp only [List.cons.injEq] at hr
              obtain ⟨rfl, _⟩ := hr
              exact ⟨hx, h47, h92⟩

/-- **`ReadTokenSeparator` on an arbitrary stream**: when it leaves a stream with no flag pending and input left, that stream
    stands in front of a character that is not a blank, not `/` and not `\` — the shape the element theorems ask for (`hsA`) -/
theorem readTokenSeparator_head (s : IStream) (hg : (readTokenSeparator s).good = true) (hne : (readTokenSeparator s).right ≠ []) :
    ∃ l c t sk, readTokenSeparator s = G l (c :: t) sk ∧ isSpace c = false ∧ c ≠ 47 ∧ c ≠ 92 := by
  cases hr : (readTokenSeparator s).right with
  | nil => exact absurd hr hne
  | cons c t =>
    have hflags : (readTokenSeparator s).eof = false ∧ (readTokenSeparator s).fail = false ∧ (readTokenSeparator s).bad = false := by
      simp only [IStream.good, Bool.and_eq_true, Bool.not_eq_true'] at hg
      exact ⟨hg.1.1, hg.1.2, hg.2⟩
    have hcond : isSpace c = false ∧ c ≠ 47 ∧ c ≠ 92 := by
      unfold readTokenSeparator at hg hr
      split at hg
      · rename_i he
        simp [IStream.good, he] at hg
      · rename_i he
        simp only [he, Bool.false_eq_true, if_false] at hr
        exact rtsAux_head _ s (by omega) hg c t hr
    refine ⟨(readTokenSeparator s).left, c, t, (readTokenSeparator s).skipws, ?_, hcond⟩
    generalize readTokenSeparator s = R at hr hflags
    obtain ⟨l, r, e, f, b, sk⟩ := R
    simp only at hr hflags
    obtain ⟨rfl, rfl, rfl⟩ := hflags
    subst hr
    rfl

end StepModel.P21.AggrLemmas

import StepModel.P21.ReaderLemmas9
/-! `PushPastImbedAggr` over balanced text (nested parentheses, string literals), and `SCLundefined::STEPread` on an
aggregate standing as an element of an aggregate. -/
namespace StepModel.P21.RLemmas
open StepModel StepModel.IStream StepModel.P21 StepModel.P21.Lemmas StepModel.P21.Grammar

variable {F : Type}

/-- `GetLiteralStr` on a literal of the string grammar followed by something that is no apostrophe -/
theorem getLiteralStr_tok (b : List Byte) (hb : StringBody b) (l : List Byte) (sk : Bool) (c : Byte) (u : List Byte) (hc : c ≠ 39)
    (e : Sev := .null) :
    getLiteralStr (G l (39 :: (b ++ 39 :: c :: u)) sk) e =
      (39 :: (b ++ [39]), G (39 :: (b.reverse ++ 39 :: l)) (c :: u) sk, e) := by
  obtain ⟨e1, e2⟩ := litLoop_body b hb [39] (39 :: c :: u) rfl
  have hll : litLoop [39] true (b ++ 39 :: c :: u) = (39 :: (b.reverse ++ [39]), c :: u, false, false) := by
    rw [e1, litLoop_quote, e2]
    simp only [Bool.false_eq_true, if_false, Bool.not_true]
    have : (c == 39) = false := by simpa using hc
    simp [litLoop, this]
  simp only [getLiteralStr, ws_good0 _ _ _ _ (show isSpace 39 = false from by decide),
    IStream.good, Bool.not_false, Bool.and_self, Bool.not_true, beq_self_eq_true, if_true, hll, Bool.false_eq_true, if_false]
  simp

/-- text between a pair of parentheses: characters other than parentheses, apostrophes, `;`, `/` and NUL, string
    literals of the grammar, nested pairs -/
inductive Bal : List Byte → Prop where
  | nil : Bal []
  | plain (c : Byte) (t : List Byte) (h40 : c ≠ 40) (h41 : c ≠ 41) (hp : plainc c = true) (ht : Bal t) : Bal (c :: t)
  | str (b t : List Byte) (hb : StringBody b) (ht : Bal t) (hnq : t.head? ≠ some 39) : Bal (39 :: (b ++ 39 :: t))
  | nest (inner t : List Byte) (hi : Bal inner) (ht : Bal t) : Bal (40 :: (inner ++ 41 :: t))

/-- the body loop of `PushPastImbedAggr` on the rest of a balanced text: current character `x` (already taken), the
    stream behind it -/
def BodyOK (stop : Bool) (k : Nat) (body : List Byte) : Prop :=
  ∀ (f : Nat) (acc l rest : List Byte) (sk : Bool) (x : Byte) (xs : List Byte) (e : Sev),
    body ++ 41 :: rest = x :: xs → body.length + 1 ≤ f →
    pushPastAggr.body stop k f acc x (G (x :: l) xs sk) e = .ok (acc ++ body ++ [41], G (41 :: (body.reverse ++ l)) rest sk, e)

def PushOK (stop : Bool) (k : Nat) (body : List Byte) : Prop :=
  ∀ (l sp rest : List Byte) (sk : Bool) (e : Sev), sp.all isSpace = true →
    pushPastAggr stop k (G l (sp ++ 40 :: (body ++ 41 :: rest)) sk) e =
      .ok (40 :: (body ++ [41]), G (41 :: (body.reverse ++ 40 :: (sp.reverse ++ l))) rest sk, e)

theorem push_of_body (stop : Bool) (k : Nat) (body : List Byte) (h : BodyOK stop k body) : PushOK stop (k + 1) body := by
  intro l sp rest sk e hsp
  obtain ⟨x, xs, hx⟩ : ∃ x xs, body ++ 41 :: rest = x :: xs := by
    cases body with
    | nil => exact ⟨41, rest, rfl⟩
    | cons c t => exact ⟨c, t ++ 41 :: rest, rfl⟩
  unfold pushPastAggr
  rw [show (G l (sp ++ 40 :: (body ++ 41 :: rest)) sk).ws = G (sp.reverse ++ l) (40 :: (body ++ 41 :: rest)) sk
    from ws_good l sp 40 _ sk hsp (by decide)]
  simp only [getInto_good, beq_self_eq_true, IStream.failed, Bool.or_self, Bool.not_false, Bool.and_self, if_true, hx]
  have := h (xs.length + 3) [40] (40 :: (sp.reverse ++ l)) rest sk x xs e hx (by
    have : (body ++ 41 :: rest).length = (x :: xs).length := by rw [hx]
    simp only [List.length_append, List.length_cons] at this; omega)
  simpa using this

theorem bal_both (stop : Bool) : ∀ k : Nat,
    (∀ body, Bal body → body.length ≤ k → BodyOK stop k body) ∧ (∀ body, Bal body → body.length ≤ k → PushOK stop (k + 1) body) := by
  intro k
  induction k with
  | zero =>
    have hb : ∀ body, Bal body → body.length ≤ 0 → BodyOK stop 0 body := by
      intro body _ hlen
      have : body = [] := by cases body <;> simp_all
      subst this
      intro f acc l rest sk x xs e hx hf
      simp only [List.nil_append, List.cons.injEq] at hx
      obtain ⟨rfl, rfl⟩ := hx
      match f, hf with
      | n + 1, _ =>
        unfold pushPastAggr.body
        simp [pure, Except.pure, G_good]
    exact ⟨hb, fun body hbal hlen => push_of_body stop 0 body (hb body hbal hlen)⟩
  | succ k ih =>
    have hb : ∀ body, Bal body → body.length ≤ k + 1 → BodyOK stop (k + 1) body := by
      intro body hbal
      induction hbal with
      | nil =>
        intro _ f acc l rest sk x xs e hx hf
        simp only [List.nil_append, List.cons.injEq] at hx
        obtain ⟨rfl, rfl⟩ := hx
        match f, hf with
        | n + 1, _ =>
          unfold pushPastAggr.body
          simp [pure, Except.pure, G_good]
      | plain c t h40 h41 hp ht iht =>
        have h39 : c ≠ 39 := plainc_ne39 hp
        intro hlen f acc l rest sk x xs e hx hf
        simp only [List.cons_append, List.cons.injEq] at hx
        obtain ⟨rfl, rfl⟩ := hx
        obtain ⟨y, ys, hy⟩ : ∃ y ys, t ++ 41 :: rest = y :: ys := by
          cases t with
          | nil => exact ⟨41, rest, rfl⟩
          | cons a b => exact ⟨a, b ++ 41 :: rest, rfl⟩
        match f, hf with
        | n + 1, hf =>
          have e41 : (c != 41) = true := by simpa using h41
          have e40 : (c == 40) = false := by simpa using h40
          have e39 : (c == 39) = false := by simpa using h39
          have e59 : (c == 59) = false := by
            have : c ≠ 59 := by simp only [plainc, Bool.and_eq_true, bne_iff_ne, ne_eq] at hp; exact hp.1.1.1
            simpa using this
          unfold pushPastAggr.body
          simp only [G_good, e41, Bool.and_self, if_true, e40, e39, e59, Bool.and_false, Bool.false_eq_true, if_false, hy, getInto_good]
          have := iht (by simp only [List.length_cons] at hlen; omega) n (acc ++ [c]) (c :: l) rest sk y ys e hy
            (by simp only [List.length_cons] at hf; omega)
          rw [this]
          simp
      | str b t hsb ht hnq iht =>
        intro hlen f acc l rest sk x xs e hx hf
        simp only [List.cons_append, List.cons.injEq] at hx
        obtain ⟨rfl, rfl⟩ := hx
        obtain ⟨y, ys, hy, hy39⟩ : ∃ y ys, t ++ 41 :: rest = y :: ys ∧ y ≠ 39 := by
          cases t with
          | nil => exact ⟨41, rest, rfl, by decide⟩
          | cons a b' => exact ⟨a, b' ++ 41 :: rest, rfl, by intro h; apply hnq; simp [h]⟩
        match f, hf with
        | n + 1, hf =>
          have e41 : ((39 : Byte) != 41) = true := by decide
          have e40 : ((39 : Byte) == 40) = false := by decide
          unfold pushPastAggr.body
          simp only [G_good, e41, Bool.and_self, if_true, e40, Bool.false_eq_true, if_false, beq_self_eq_true, putback_good]
          have e1 : b ++ 39 :: t ++ 41 :: rest = b ++ 39 :: y :: ys := by rw [← hy]; simp
          rw [e1, getLiteralStr_tok b hsb l sk y ys hy39 e]
          simp only [getInto_good]
          have := iht (by simp only [List.length_cons, List.length_append] at hlen; omega) n (acc ++ (39 :: (b ++ [39])))
            (39 :: (b.reverse ++ 39 :: l)) rest sk y ys e hy
            (by simp only [List.length_cons, List.length_append] at hf; omega)
          rw [this]
          simp
      | nest inner t hi ht _ iht =>
        intro hlen f acc l rest sk x xs e hx hf
        simp only [List.cons_append, List.cons.injEq] at hx
        obtain ⟨rfl, rfl⟩ := hx
        obtain ⟨y, ys, hy⟩ : ∃ y ys, t ++ 41 :: rest = y :: ys := by
          cases t with
          | nil => exact ⟨41, rest, rfl⟩
          | cons a b => exact ⟨a, b ++ 41 :: rest, rfl⟩
        match f, hf with
        | n + 1, hf =>
          have e41 : ((40 : Byte) != 41) = true := by decide
          have hpush := ih.2 inner hi (by simp only [List.length_cons, List.length_append] at hlen; omega) l [] (t ++ 41 :: rest) sk e (by simp)
          simp only [List.nil_append, List.reverse_nil] at hpush
          unfold pushPastAggr.body
          simp only [G_good, e41, Bool.and_self, if_true, beq_self_eq_true, putback_good, bind, Except.bind]
          have e1 : inner ++ 41 :: t ++ 41 :: rest = inner ++ 41 :: (t ++ 41 :: rest) := by simp
          rw [e1, hpush]
          simp only [hy, getInto_good]
          have := iht (by simp only [List.length_cons, List.length_append] at hlen; omega) n (acc ++ (40 :: (inner ++ [41])))
            (41 :: (inner.reverse ++ 40 :: l)) rest sk y ys e hy
            (by simp only [List.length_cons, List.length_append] at hf; omega)
          rw [this]
          simp
    exact ⟨hb, fun body hbal hlen => push_of_body stop (k + 1) body (hb body hbal hlen)⟩

/-- `PushPastImbedAggr` on `( balanced )` with enough fuel -/
theorem pushPastAggr_bal (stop : Bool) (body : List Byte) (hb : Bal body) (fuel : Nat) (hf : body.length + 1 ≤ fuel)
    (l sp rest : List Byte) (sk : Bool) (hsp : sp.all isSpace = true) (e : Sev) :
    pushPastAggr stop fuel (G l (sp ++ 40 :: (body ++ 41 :: rest)) sk) e =
      .ok (40 :: (body ++ [41]), G (41 :: (body.reverse ++ 40 :: (sp.reverse ++ l))) rest sk, e) := by
  match fuel, hf with
  | k + 1, hf => exact (bal_both stop k).2 body hb (by omega) l sp rest sk e hsp

theorem Passes.appS {a b : List Byte} (ha : Passes a) (hb : PassesS b) : PassesS (a ++ b) := by
  intro fuel c l x rest res hx h
  have hb' := hb fuel c (a.reverse ++ l) x rest res hx (by simpa [List.reverse_append] using h)
  have e : fuel + (a ++ b).length = fuel + b.length + a.length := by simp; omega
  rw [e, List.append_assoc]
  cases b with
  | nil => simpa using ha _ c l x rest res (by simpa using hb')
  | cons y ys => exact ha _ c l y (ys ++ x :: rest) res hb'

theorem PassesS.appSS {a : List Byte} {y : Byte} {ys : List Byte} (ha : PassesS a) (hb : PassesS (y :: ys)) (hy : y ≠ 39) :
    PassesS (a ++ y :: ys) := by
  intro fuel c l x rest res hx h
  have hb' := hb fuel c (a.reverse ++ l) x rest res hx (by simpa [List.reverse_append] using h)
  have e : fuel + (a ++ y :: ys).length = fuel + (y :: ys).length + a.length := by simp; omega
  rw [e, List.append_assoc]
  exact ha _ c l y (ys ++ x :: rest) res hy hb'

/-- `SkipInstance` gets over balanced text (when no apostrophe follows) -/
theorem Bal.passesS {body : List Byte} (h : Bal body) : PassesS body := by
  induction h with
  | nil => exact Passes.nil.toS
  | plain c t h40 h41 hp ht iht => exact Passes.appS (a := [c]) (Passes.plain c hp) iht
  | str b t hb ht hnq iht =>
    cases t with
    | nil => simpa using PassesS.string b hb
    | cons y ys =>
      have hy : y ≠ 39 := by intro e; apply hnq; simp [e]
      have := PassesS.appSS (PassesS.string b hb) iht hy
      simpa using this
  | nest inner t hi ht ihi iht =>
    have h41t : PassesS (41 :: t) := Passes.appS (a := [41]) (Passes.plain 41 (by decide)) iht
    have : 40 :: (inner ++ 41 :: t) = [40] ++ (inner ++ 41 :: t) := by simp
    rw [this]
    exact Passes.appS (Passes.plain 40 (by decide)) (PassesS.appSS ihi h41t (by decide))

/-- … and over the whole `( balanced )` -/
theorem Bal.passes_paren {body : List Byte} (h : Bal body) : Passes (40 :: (body ++ [41])) := by
  have : 40 :: (body ++ [41]) = [40] ++ (body ++ 41 :: []) := by simp
  rw [this]
  exact Passes.append (Passes.plain 40 (by decide))
    (PassesS.append_cons h.passesS (Passes.plain 41 (by decide)) (by decide))

/-- `SCLundefined::STEPread` on an aggregate `( balanced )` followed by a delimiter: the raw text, no message -/
theorem undefRead_aggr (lex : LexCfg) (stop : Bool) (body : List Byte) (hb : Bal body) (l : List Byte) (sk : Bool) (d : Byte) (rest : List Byte)
    (hd : d = 44 ∨ d = 41) :
    undefRead lex stop (G l (40 :: (body ++ 41 :: d :: rest)) sk) =
      .ok (40 :: (body ++ [41]), G (41 :: (body.reverse ++ 40 :: l)) (d :: rest) sk, .null) := by
  have hpush := pushPastAggr_bal stop body hb ((body ++ 41 :: d :: rest).length + 3) (by simp; omega) l [] (d :: rest) sk (by simp) .null
  simp only [List.nil_append, List.reverse_nil] at hpush
  have hdc : (d == 44 || d == 41) = true := by rcases hd with rfl | rfl <;> decide
  have hd40 : (d == 40) = false := by rcases hd with rfl | rfl <;> decide
  have hd39 : (d == 39) = false := by rcases hd with rfl | rfl <;> decide
  unfold undefRead
  rw [show (G l (40 :: (body ++ 41 :: d :: rest)) sk).ws = _ from ws_good0 l 40 _ sk (by decide)]
  simp only [bind, Except.bind, pure, Except.pure]
  rw [shiftInto_good 0 l 40 _ sk (by decide)]
  have e36 : ((40 : Byte) == 36) = false := by decide
  simp only [e36, Bool.false_eq_true, if_false, putback_good]
  have hfuel : (G l (40 :: (body ++ 41 :: d :: rest)) sk).right.length + 3 = ((body ++ 41 :: d :: rest).length + 2) + 1 + 1 := by
    simp
  rw [hfuel]
  unfold undefLoop
  simp only [getInto_good, G_good, Bool.not_true, Bool.false_eq_true, if_false, beq_self_eq_true, if_true, putback_good,
    bind, Except.bind]
  rw [show (G (40 :: l) (body ++ 41 :: d :: rest) sk).right.length + 3 = (body ++ 41 :: d :: rest).length + 3 from rfl, hpush]
  simp only [G_good, Bool.not_true, Bool.false_eq_true, if_false]
  unfold undefLoop
  simp only [getInto_good, G_good, Bool.not_true, Bool.false_eq_true, if_false, hd40, hd39, hdc, if_true, putback_good,
    pure, Except.pure, List.nil_append]

/-- elements of an aggregate of aggregates: `( balanced )` is kept as raw text -/
theorem ElemRd.generic (env : Env F) (hcfg : env.lex.criSkipsComments = true) (hagg : env.cfg.aggrSkipsComments = true)
    (body : List Byte) (hb : Bal body) (before : List Byte) (hbf : Seps before) :
    ElemRd env .generic { tok := 40 :: (body ++ [41]), before := before, after := [], v := .atom (.undef (40 :: (body ++ [41]))) } := by
  refine ⟨hbf, ⟨40, body ++ [41], rfl, by decide, by decide, by decide, by decide⟩, ?_⟩
  intro l sk d rest hd
  refine ⟨sk, Or.inl rfl, ?_⟩
  have hu := undefRead_aggr env.lex env.cfg.rawValueStaysInRecord body hb l sk d rest hd
  show elemRead env .generic (G l (40 :: (body ++ [41]) ++ ([] ++ d :: rest)) sk) = _
  have e1 : 40 :: (body ++ [41]) ++ ([] ++ d :: rest) = 40 :: (body ++ 41 :: d :: rest) := by simp
  rw [e1, elemRead_at_tok env hagg _ l 40 _ sk (by decide) (by decide) (by decide) (by decide)]
  unfold elemReadCore
  simp only [hu, bind, Except.bind, pure, Except.pure]
  have hcri := cri_seps env.lex hcfg [] (Seps.blanks [] (by simp)) (41 :: (body.reverse ++ 40 :: l)) rest d false sk .null hd
  simp only [List.nil_append, List.reverse_nil] at hcri
  rw [hcri]
  simp

end StepModel.P21.RLemmas

import StepModel.P21.ReaderLemmas19
/-! Both passes over abstract records some of which pass 1 does not create and pass 2 skips (unknown keyword, missing `=`,
… - whatever gives the two record-level skip facts). -/
namespace StepModel.P21.RLemmas
open StepModel StepModel.IStream StepModel.P21 StepModel.P21.Lemmas StepModel.P21.Grammar

variable {F : Type}

def keptI (xs : List (Item F × Bool)) : List (Item F) := (xs.filter (·.2)).map (·.1)
def nskipI (xs : List (Item F × Bool)) : Nat := (xs.filter (fun x => !x.2)).length

theorem keptI_cons_true (x : Item F) (xs : List (Item F × Bool)) : keptI ((x, true) :: xs) = x :: keptI xs := by simp [keptI]
theorem keptI_cons_false (x : Item F) (xs : List (Item F × Bool)) : keptI ((x, false) :: xs) = keptI xs := by simp [keptI]
theorem nskipI_cons_true (x : Item F) (xs : List (Item F × Bool)) : nskipI ((x, true) :: xs) = nskipI xs := by simp [nskipI]
theorem nskipI_cons_false (x : Item F) (xs : List (Item F × Bool)) : nskipI ((x, false) :: xs) = nskipI xs + 1 := by simp [nskipI]

/-- pass 1 on a record it does not create: in any manager that does not hold its id, nothing is created and the stream
    is left right behind the record's `;` -/
def ItemSkip1 (cfg : RWCfg) (d : Dict) (x : Item F) : Prop :=
  Seps x.g ∧ ∀ (m : Mgr F), m.find? x.id = none → ∀ (l rest : List Byte),
    ∃ l', createInstance cfg d m (G l (x.body ++ rest) false) = .ok (none, G l' rest false)

/-- pass 2 on such a record: no instance with its id is in the manager, the record is skipped to its `;` -/
def ItemSkip2 (ops : FloatOps F) (lex : LexCfg) (cfg : RWCfg) (d : Dict) (strict : Bool) (x : Item F) : Prop :=
  Seps x.g ∧ ∀ (st : P2 F) (l rest : List Byte), st.mgr.find? x.id = none → st.s = G l (x.body ++ rest) false →
    ∃ l', readInstance ops lex cfg d strict st = .ok { s := G l' rest false }

theorem readData1Loop_itemsX (cfg : RWCfg) (d : Dict) (sp tail : List Byte) (hsp : sp.all isSpace = true) :
    ∀ (xs : List (Item F × Bool)) (st : P1 F) (g0 l : List Byte) (fuel : Nat),
      Seps g0 → st.s = G l (g0 ++ renderItems (xs.map (·.1)) (endsec sp tail)) false → xs.length + 2 ≤ fuel →
      (∀ x ∈ xs, if x.2 then Item1OK cfg d x.1 else ItemSkip1 cfg d x.1) → (xs.map (·.1.id)).Nodup →
      (∀ i ∈ st.mgr.insts, ∀ x ∈ xs, i.id ≠ x.1.id) →
      ∃ l', readData1Loop cfg d fuel st false =
        .ok { mgr := { insts := st.mgr.insts ++ (keptI xs).map (·.mkI) }, count := st.count + (keptI xs).length,
              notCreated := st.notCreated + nskipI xs, s := G l' tail false } := by
  intro xs
  induction xs with
  | nil =>
    intro st g0 l fuel hg0 hs hf _ _ _
    obtain ⟨l', h⟩ := readData1Loop_end cfg d st g0 l sp tail hg0 hsp hs fuel (by simpa using hf)
    exact ⟨l', by simpa [keptI, nskipI] using h⟩
  | cons xb xs ih =>
    intro st g0 l fuel hg0 hs hf hok hnd hfresh
    obtain ⟨x, b⟩ := xb
    have hnd' : (xs.map (·.1.id)).Nodup := (List.nodup_cons.mp hnd).2
    have hrid : ∀ y ∈ xs, x.id ≠ y.1.id := by
      intro y hy heq
      exact (List.nodup_cons.mp hnd).1 (by show x.id ∈ _; rw [heq]; exact List.mem_map_of_mem (f := fun y : Item F × Bool => y.1.id) hy)
    have hnone : st.mgr.find? x.id = none := find?_none st.mgr x.id (fun i hi => hfresh i hi (x, b) (by simp))
    match fuel, hf with
    | n + 1, hf =>
      obtain ⟨c, k, hKe, hc⟩ := renderItems_head (xs.map (·.1)) sp tail
      have hcs : isSpace c = false ∧ c ≠ 47 ∧ c ≠ 92 := by rcases hc with rfl | rfl <;> exact ⟨by decide, by decide, by decide⟩
      cases b with
      | true =>
        obtain ⟨hg, hmkid, hci0⟩ : Item1OK cfg d x := by simpa using hok (x, true) (by simp)
        obtain ⟨l1, hci⟩ := hci0 st.mgr hnone (35 :: (g0.reverse ++ l)) c k hcs.1 hcs.2.1 hcs.2.2
        rw [← hKe] at hci
        unfold readData1Loop
        rw [hs]
        simp only [G_good, Bool.not_false, Bool.and_self, if_true, bind, Except.bind, List.map_cons, renderItems]
        simp only [readTokenSeparator_seps g0 hg0 l 35 _ false (by decide) (by decide), shiftInto_ns,
          bne_self_eq_false, Bool.false_eq_true, if_false, pure, Except.pure, hci]
        rcases foundEndSec_gapI [] (Seps.blanks [] (by simp)) (xs.map (·.1)) sp tail hsp l1 false with ⟨hnil, l2, hfe⟩ | ⟨l2, t, ht, hfe⟩
        · simp only [List.nil_append] at hfe
          rw [hfe]
          have hxs : xs = [] := List.map_eq_nil_iff.mp hnil
          subst hxs
          refine ⟨l2, ?_⟩
          obtain ⟨m, rfl⟩ : ∃ m, n = m + 1 := ⟨n - 1, by simp only [List.length_cons] at hf; omega⟩
          unfold readData1Loop
          simp [keptI, nskipI]
          rfl
        · simp only [List.nil_append] at hfe
          rw [hfe]
          simp only
          obtain ⟨l3, hih⟩ := ih (⟨⟨st.mgr.insts ++ [x.mkI]⟩, st.count + 1, st.notCreated,
              G l2 (t ++ renderItems (xs.map (·.1)) (endsec sp tail)) false⟩ : P1 F) t l2 n ht rfl
            (by simp only [List.length_cons] at hf; omega) (fun y hy => hok y (by simp [hy])) hnd'
            (by
              intro i hi y hy
              simp only [List.mem_append, List.mem_singleton] at hi
              rcases hi with hi | rfl
              · exact hfresh i hi y (by simp [hy])
              · rw [hmkid]; exact hrid y hy)
          refine ⟨l3, ?_⟩
          rw [hih]
          simp [keptI_cons_true, nskipI_cons_true, Nat.add_assoc, Nat.add_comm 1]
      | false =>
        obtain ⟨hg, hsk⟩ : ItemSkip1 cfg d x := by simpa using hok (x, false) (by simp)
        obtain ⟨l1, hci⟩ := hsk st.mgr hnone (35 :: (g0.reverse ++ l)) (x.g ++ renderItems (xs.map (·.1)) (endsec sp tail))
        unfold readData1Loop
        rw [hs]
        simp only [G_good, Bool.not_false, Bool.and_self, if_true, bind, Except.bind, List.map_cons, renderItems]
        simp only [readTokenSeparator_seps g0 hg0 l 35 _ false (by decide) (by decide), shiftInto_ns,
          bne_self_eq_false, Bool.false_eq_true, if_false, pure, Except.pure, hci]
        rcases foundEndSec_gapI x.g hg (xs.map (·.1)) sp tail hsp l1 false with ⟨hnil, l2, hfe⟩ | ⟨l2, t, ht, hfe⟩
        · rw [hfe]
          have hxs : xs = [] := List.map_eq_nil_iff.mp hnil
          subst hxs
          refine ⟨l2, ?_⟩
          obtain ⟨m, rfl⟩ : ∃ m, n = m + 1 := ⟨n - 1, by simp only [List.length_cons] at hf; omega⟩
          unfold readData1Loop
          simp [keptI, nskipI]
          rfl
        · rw [hfe]
          simp only
          obtain ⟨l3, hih⟩ := ih (⟨st.mgr, st.count, st.notCreated + 1,
              G l2 (t ++ renderItems (xs.map (·.1)) (endsec sp tail)) false⟩ : P1 F) t l2 n ht rfl
            (by simp only [List.length_cons] at hf; omega) (fun y hy => hok y (by simp [hy])) hnd'
            (fun i hi y hy => hfresh i hi y (by simp [hy]))
          refine ⟨l3, ?_⟩
          rw [hih]
          simp [keptI_cons_false, nskipI_cons_false, Nat.add_assoc, Nat.add_comm 1]

structure P2ItemsX (st st' : P2 F) (insts : List (MInst F)) (xs : List (Item F × Bool)) (tail : List Byte) : Prop where
  mgr : st'.mgr.insts = insts
  err : st'.fileErr = errAfterI st.fileErr (keptI xs)
  total : st'.total = st.total + (keptI xs).length
  valid : st'.valid = st.valid + (keptI xs).length
  invalid : st'.invalid = st.invalid + nskipI xs
  s : ∃ l' sk', st'.s = G l' tail sk'
  rep : st'.reported = ((keptI xs).map (·.sev)).reverse ++ st.reported

theorem mem_keptI (xs : List (Item F × Bool)) (y : Item F) (hy : y ∈ keptI xs) : (y, true) ∈ xs := by
  simp only [keptI, List.mem_map, List.mem_filter] at hy
  obtain ⟨⟨y', b'⟩, ⟨hmem, hb⟩, rfl⟩ := hy
  simp only at hb; subst hb; exact hmem

theorem readData2Loop_itemsX (ops : FloatOps F) (lex : LexCfg) (cfg : RWCfg) (d : Dict) (strict : Bool) (lk : Lookup)
    (sp tail : List Byte) (hsp : sp.all isSpace = true) :
    ∀ (xs : List (Item F × Bool)) (st : P2 F) (pre : List (MInst F)) (g0 l : List Byte) (fuel : Nat),
      Seps g0 → st.s = G l (g0 ++ renderItems (xs.map (·.1)) (endsec sp tail)) false → xs.length + 2 ≤ fuel →
      st.mgr.insts = pre ++ (keptI xs).map (·.mkI) → (∀ i ∈ pre, ∀ x ∈ xs, i.id ≠ x.1.id) →
      (xs.map (·.1.id)).Nodup → Mgr.lookup d st.mgr = lk →
      (∀ x ∈ xs, if x.2 then Item2OKF ops lex cfg d strict lk x.1 else ItemSkip2 ops lex cfg d strict x.1) →
      ∃ st', readData2Loop ops lex cfg d strict fuel st false = .ok st' ∧
        P2ItemsX st st' (pre ++ (keptI xs).map (·.out)) xs tail := by
  intro xs
  induction xs with
  | nil =>
    intro st pre g0 l fuel hg0 hs hf hm _ _ _ _
    obtain ⟨l', h⟩ := readData2Loop_end ops lex cfg d strict st g0 l sp tail false hg0 hsp hs fuel (by simpa using hf)
    exact ⟨_, h, ⟨by simpa [keptI] using hm, rfl, rfl, rfl, rfl, ⟨l', false, rfl⟩, by simp [keptI]⟩⟩
  | cons xb xs ih =>
    intro st pre g0 l fuel hg0 hs hf hm hfresh hnd hlk hok
    obtain ⟨x, b⟩ := xb
    have hnd' : (xs.map (·.1.id)).Nodup := (List.nodup_cons.mp hnd).2
    have hrid : ∀ y ∈ xs, x.id ≠ y.1.id := by
      intro y hy heq
      exact (List.nodup_cons.mp hnd).1 (by show x.id ∈ _; rw [heq]; exact List.mem_map_of_mem (f := fun y : Item F × Bool => y.1.id) hy)
    have hkid : ∀ i ∈ (keptI xs).map (·.mkI), i.id ≠ x.id := by
      intro i hi
      obtain ⟨y, hy, rfl⟩ := List.mem_map.mp hi
      have hy' : (y, true) ∈ xs := mem_keptI xs y hy
      obtain ⟨_, hymk, _⟩ : Item2OKF ops lex cfg d strict lk y := by simpa using hok (y, true) (by simp [hy'])
      rw [hymk]
      exact fun h => hrid (y, true) hy' h.symm
    match fuel, hf with
    | n + 1, hf =>
      cases b with
      | true =>
        obtain ⟨hg, hmkid, hid0, hkey, hstep⟩ : Item2OKF ops lex cfg d strict lk x := by simpa using hok (x, true) (by simp)
        have hid : x.out.id = x.mkI.id := by rw [hid0, hmkid]
        rw [keptI_cons_true] at hm
        simp only [List.map_cons] at hm
        have hmgr : st.mgr = { insts := pre ++ x.mkI :: (keptI xs).map (·.mkI) } := Mgr.eq_of_insts _ _ hm
        have hpre : ∀ i ∈ pre, i.id ≠ (x.mkI).id := fun i hi => by rw [hmkid]; exact hfresh i hi (x, true) (by simp)
        have hpost : ∀ i ∈ (keptI xs).map (·.mkI), i.id ≠ (x.mkI).id := fun i hi => by rw [hmkid]; exact hkid i hi
        obtain ⟨l1, hri⟩ := hstep
          { st with s := G (35 :: (g0.reverse ++ l)) (x.body ++ (x.g ++ renderItems (xs.map (·.1)) (endsec sp tail))) false }
          _ _ (by show st.mgr.find? _ = _; rw [hmgr, ← hmkid]; exact find?_mid pre _ (x.mkI) hpre) hlk rfl
        have hupd : st.mgr.update x.out = { insts := pre ++ x.out :: (keptI xs).map (·.mkI) } := by
          rw [hmgr]; exact update_mid pre _ (x.mkI) x.out hid hpre hpost
        unfold readData2Loop
        rw [hs]
        simp only [G_good, Bool.not_false, Bool.and_self, if_true, bind, Except.bind, List.map_cons, renderItems]
        simp only [readTokenSeparator_seps g0 hg0 l 35 _ false (by decide) (by decide), shiftInto_good 0 _ 35 _ false (by decide),
          bne_self_eq_false, Bool.false_eq_true, if_false, pure, Except.pure]
        rw [hri]
        simp only
        have hap : applyOutcome st
            { s := G l1 (x.g ++ renderItems (xs.map (·.1)) (endsec sp tail)) false, inst := some x.out,
              reported := some x.sev, left := some .null } =
            { st with mgr := st.mgr.update x.out, fileErr := appendEntityError st.fileErr x.sev, reported := x.sev :: st.reported,
                      s := G l1 (x.g ++ renderItems (xs.map (·.1)) (endsec sp tail)) false, total := st.total + 1,
                      valid := st.valid + 1 } := rfl
        rw [hap, hupd]
        rcases foundEndSec_gapI x.g hg (xs.map (·.1)) sp tail hsp l1 false with ⟨hnil, l2, hfe⟩ | ⟨l2, t, ht, hfe⟩
        · simp only [hfe]
          have hxs : xs = [] := List.map_eq_nil_iff.mp hnil
          subst hxs
          obtain ⟨m, rfl⟩ : ∃ m, n = m + 1 := ⟨n - 1, by simp only [List.length_cons] at hf; omega⟩
          unfold readData2Loop
          simp only [G_good, Bool.not_true, Bool.and_false, Bool.false_eq_true, if_false, pure, Except.pure]
          exact ⟨_, rfl, ⟨by simp [keptI], by simp [keptI, errAfterI], by simp [keptI], by simp [keptI], by simp [nskipI],
            ⟨l2, false, rfl⟩, by simp [keptI]⟩⟩
        · simp only [hfe]
          obtain ⟨st', hrun, hdone⟩ := ih
            ({ st with mgr := { insts := pre ++ x.out :: (keptI xs).map (·.mkI) },
                       fileErr := appendEntityError st.fileErr x.sev, reported := x.sev :: st.reported,
                       s := G l2 (t ++ renderItems (xs.map (·.1)) (endsec sp tail)) false, total := st.total + 1,
                       valid := st.valid + 1 } : P2 F)
            (pre ++ [x.out]) t l2 n ht rfl (by simp only [List.length_cons] at hf; omega) (by simp)
            (by
              intro i hi y hy
              simp only [List.mem_append, List.mem_singleton] at hi
              rcases hi with hi | rfl
              · exact hfresh i hi y (by simp [hy])
              · rw [hid0]; exact hrid y hy)
            hnd'
            (by
              rw [← hlk, hmgr]
              apply lookup_congr
              simp only [List.map_append, List.map_cons, hkey])
            (fun y hy => hok y (by simp [hy]))
          refine ⟨st', hrun, ⟨?_, ?_, ?_, ?_, ?_, hdone.s, ?_⟩⟩
          · rw [hdone.mgr, keptI_cons_true]; simp
          · rw [hdone.err, keptI_cons_true]; simp [errAfterI]
          · rw [hdone.total, keptI_cons_true]; simp only [List.length_cons]; omega
          · rw [hdone.valid, keptI_cons_true]; simp only [List.length_cons]; omega
          · rw [hdone.invalid, nskipI_cons_true]
          · rw [hdone.rep, keptI_cons_true]; simp
      | false =>
        obtain ⟨hg, hsk⟩ : ItemSkip2 ops lex cfg d strict x := by simpa using hok (x, false) (by simp)
        rw [keptI_cons_false] at hm
        have hnf : st.mgr.find? x.id = none := by
          apply find?_none
          intro i hi
          rw [hm] at hi
          rcases List.mem_append.mp hi with hi | hi
          · exact hfresh i hi (x, false) (by simp)
          · exact hkid i hi
        obtain ⟨l1, hri⟩ := hsk
          { st with s := G (35 :: (g0.reverse ++ l)) (x.body ++ (x.g ++ renderItems (xs.map (·.1)) (endsec sp tail))) false }
          _ _ hnf rfl
        unfold readData2Loop
        rw [hs]
        simp only [G_good, Bool.not_false, Bool.and_self, if_true, bind, Except.bind, List.map_cons, renderItems]
        simp only [readTokenSeparator_seps g0 hg0 l 35 _ false (by decide) (by decide), shiftInto_good 0 _ 35 _ false (by decide),
          bne_self_eq_false, Bool.false_eq_true, if_false, pure, Except.pure]
        rw [hri]
        simp only
        have hap : applyOutcome st
            ({ s := G l1 (x.g ++ renderItems (xs.map (·.1)) (endsec sp tail)) false } : IOut F) =
            { st with s := G l1 (x.g ++ renderItems (xs.map (·.1)) (endsec sp tail)) false,
                      invalid := st.invalid + 1 } := rfl
        rw [hap]
        rcases foundEndSec_gapI x.g hg (xs.map (·.1)) sp tail hsp l1 false with ⟨hnil, l2, hfe⟩ | ⟨l2, t, ht, hfe⟩
        · simp only [hfe]
          have hxs : xs = [] := List.map_eq_nil_iff.mp hnil
          subst hxs
          obtain ⟨m, rfl⟩ : ∃ m, n = m + 1 := ⟨n - 1, by simp only [List.length_cons] at hf; omega⟩
          unfold readData2Loop
          simp only [G_good, Bool.not_true, Bool.and_false, Bool.false_eq_true, if_false, pure, Except.pure]
          exact ⟨_, rfl, ⟨by simpa [keptI] using hm, by simp [keptI, errAfterI], by simp [keptI], by simp [keptI], by simp [nskipI],
            ⟨l2, false, rfl⟩, by simp [keptI]⟩⟩
        · simp only [hfe]
          obtain ⟨st', hrun, hdone⟩ := ih
            ({ st with s := G l2 (t ++ renderItems (xs.map (·.1)) (endsec sp tail)) false, invalid := st.invalid + 1 } : P2 F)
            pre t l2 n ht rfl (by simp only [List.length_cons] at hf; omega) hm
            (fun i hi y hy => hfresh i hi y (by simp [hy])) hnd' hlk (fun y hy => hok y (by simp [hy]))
          refine ⟨st', hrun, ⟨?_, ?_, ?_, ?_, ?_, hdone.s, ?_⟩⟩
          · rw [hdone.mgr, keptI_cons_false]
          · rw [hdone.err, keptI_cons_false]
          · rw [hdone.total, keptI_cons_false]
          · rw [hdone.valid, keptI_cons_false]
          · rw [hdone.invalid, nskipI_cons_false]; show st.invalid + 1 + nskipI xs = st.invalid + (nskipI xs + 1); omega
          · rw [hdone.rep, keptI_cons_false]

/-- both passes over records some of which pass 1 cannot create -/
theorem readDataSection_itemsX (ops : FloatOps F) (lex : LexCfg) (cfg : RWCfg)
    (d : Dict) (strict : Bool) (sp tail : List Byte) (hsp : sp.all isSpace = true) (htail : TailOK tail)
    (xs : List (Item F × Bool)) (g0 : List Byte) (hg0 : Seps g0)
    (hnd : (xs.map (·.1.id)).Nodup)
    (h1 : ∀ x ∈ xs, if x.2 then Item1OK cfg d x.1 else ItemSkip1 cfg d x.1)
    (h2 : ∀ x ∈ xs, if x.2 then Item2OKF ops lex cfg d strict
            (Mgr.lookup d ({ insts := (keptI xs).map (·.mkI) } : Mgr F)) x.1 else ItemSkip2 ops lex cfg d strict x.1) :
    ∃ res, readDataSection ops lex cfg d strict false (g0 ++ renderItems (xs.map (·.1)) (endsec sp tail)) = .ok res ∧
      res.mgr.insts = (keptI xs).map (·.out) ∧
      res.sev = (if nskipI xs > 0 then (errAfterI (if nskipI xs > 0 then .warning else .null) (keptI xs)).greater .warning
                 else errAfterI (if nskipI xs > 0 then .warning else .null) (keptI xs)) ∧
      res.created = (keptI xs).length ∧ res.notCreated = nskipI xs ∧ res.valid = (keptI xs).length ∧ res.invalid = nskipI xs ∧
      res.reported = ((keptI xs).map (·.sev)).reverse := by
  -- pass 1
  have hp1 : ∃ l', readData1 (F := F) cfg d { right := g0 ++ renderItems (xs.map (·.1)) (endsec sp tail), skipws := false } =
      .ok { mgr := { insts := (keptI xs).map (·.mkI) }, count := (keptI xs).length, notCreated := nskipI xs,
            s := G l' tail false } := by
    unfold readData1
    rcases foundEndSec_gapI g0 hg0 (xs.map (·.1)) sp tail hsp [] false with ⟨hnil, l2, hfe⟩ | ⟨l2, t, ht, hfe⟩
    · have hfe' : foundEndSec { right := g0 ++ renderItems (xs.map (·.1)) (endsec sp tail), skipws := false } = (true, G l2 tail false) := hfe
      rw [hfe']
      have hxs : xs = [] := List.map_eq_nil_iff.mp hnil
      subst hxs
      refine ⟨l2, ?_⟩
      simp only
      unfold readData1Loop
      simp [keptI, nskipI]
      rfl
    · have hfe' : foundEndSec { right := g0 ++ renderItems (xs.map (·.1)) (endsec sp tail), skipws := false } =
          (false, G l2 (t ++ renderItems (xs.map (·.1)) (endsec sp tail)) false) := hfe
      rw [hfe']
      simp only
      obtain ⟨l3, h⟩ := readData1Loop_itemsX cfg d sp tail hsp xs
        (⟨{}, 0, 0, G l2 (t ++ renderItems (xs.map (·.1)) (endsec sp tail)) false⟩ : P1 F) t l2
        ((t ++ renderItems (xs.map (·.1)) (endsec sp tail)).length + 3) ht rfl
        (by have := renderItems_length (xs.map (·.1)) (endsec sp tail); rw [List.length_map] at this; simp only [List.length_append]; omega)
        h1 hnd (by intro i hi; simp at hi)
      refine ⟨l3, ?_⟩
      simpa using h
  obtain ⟨l1, hp1⟩ := hp1
  rw [readDataSection_eq]
  simp only [bind, Except.bind, hp1, gt_iff_lt, pure, Except.pure]
  have key : ∃ st', readData2Loop ops lex cfg d strict
      ((foundEndSec { right := g0 ++ renderItems (xs.map (·.1)) (endsec sp tail), skipws := false }).2.right.length + 3)
      { mgr := { insts := (keptI xs).map (·.mkI) }, fileErr := (if 0 < nskipI xs then .warning else .null),
        total := 0, valid := 0, invalid := 0, incomplete := 0,
        warnings := 0, s := (foundEndSec { right := g0 ++ renderItems (xs.map (·.1)) (endsec sp tail), skipws := false }).2 }
      (foundEndSec { right := g0 ++ renderItems (xs.map (·.1)) (endsec sp tail), skipws := false }).1 = .ok st' ∧
      st'.mgr.insts = (keptI xs).map (·.out) ∧ st'.fileErr = errAfterI (if 0 < nskipI xs then .warning else .null) (keptI xs) ∧
      st'.valid = (keptI xs).length ∧ st'.invalid = nskipI xs ∧
      (∃ l' sk', st'.s = G l' tail sk') ∧ st'.reported = ((keptI xs).map (·.sev)).reverse := by
    rcases foundEndSec_gapI g0 hg0 (xs.map (·.1)) sp tail hsp [] false with ⟨hnil, l2, hfe⟩ | ⟨l2, t, ht, hfe⟩
    · have hfe' : foundEndSec { right := g0 ++ renderItems (xs.map (·.1)) (endsec sp tail), skipws := false } = (true, G l2 tail false) := hfe
      rw [hfe']
      have hxs : xs = [] := List.map_eq_nil_iff.mp hnil
      subst hxs
      refine ⟨({ mgr := { insts := [] }, fileErr := .null, total := 0, valid := 0, invalid := 0, incomplete := 0,
                 warnings := 0, s := G l2 tail false } : P2 F), ?_, ?_⟩
      · simp only
        unfold readData2Loop
        simp [keptI, nskipI]
        rfl
      · exact ⟨rfl, rfl, rfl, rfl, ⟨l2, false, rfl⟩, rfl⟩
    · have hfe' : foundEndSec { right := g0 ++ renderItems (xs.map (·.1)) (endsec sp tail), skipws := false } =
          (false, G l2 (t ++ renderItems (xs.map (·.1)) (endsec sp tail)) false) := hfe
      rw [hfe']
      obtain ⟨st', hrun, hdone⟩ := readData2Loop_itemsX ops lex cfg d strict
        (Mgr.lookup d ({ insts := (keptI xs).map (·.mkI) } : Mgr F)) sp tail hsp xs
        ({ mgr := { insts := (keptI xs).map (·.mkI) }, fileErr := (if 0 < nskipI xs then .warning else .null),
           total := 0, valid := 0, invalid := 0, incomplete := 0,
           warnings := 0, s := G l2 (t ++ renderItems (xs.map (·.1)) (endsec sp tail)) false } : P2 F) [] t l2
        ((t ++ renderItems (xs.map (·.1)) (endsec sp tail)).length + 3) ht rfl
        (by have := renderItems_length (xs.map (·.1)) (endsec sp tail); rw [List.length_map] at this; simp only [List.length_append]; omega)
        (by simp) (by intro i hi; simp at hi) hnd rfl h2
      refine ⟨st', hrun, ?_, hdone.err, ?_, ?_, hdone.s, ?_⟩
      · simpa using hdone.mgr
      · simpa using hdone.valid
      · simpa using hdone.invalid
      · simpa using hdone.rep
  obtain ⟨st', hrun, hm, herr, hv, hinv, hs, hrep⟩ := key
  rw [hrun]
  simp only
  obtain ⟨f1, f2, f3, f4, f5, f6, f7⟩ := finish_counts2
    ({ mgr := { insts := (keptI xs).map (·.mkI) }, count := (keptI xs).length, notCreated := nskipI xs,
       s := G l1 tail false } : P1 F) st' tail htail hs hv
  refine ⟨_, rfl, ?_, ?_, f3, f4, ?_, ?_, ?_⟩
  · rw [f2, hm]
  · rw [f1, herr, hinv]
  · rw [f5, hv]
  · rw [f6, hinv]
  · rw [f7, hrep]


end StepModel.P21.RLemmas

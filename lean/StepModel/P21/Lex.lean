import StepModel.IStream
import StepModel.FloatOps
/-!
# `P21.Lex` — the Part 21 literal scanners of stepcode, over the `IStream` model

Models (source → definition):
* `src/clutils/Str.cc`            `CheckRemainingInput` → `checkRemainingInput`, `GetLiteralStr` → `getLiteralStr`
* `src/clstepcore/read_func.cc`   `ReadInteger` → `readInteger`, `ReadReal` → `readReal`, `ReadNumber` → `readNumber`,
                                  `WriteReal` → `writeReal`
* `src/cldai/sdaiString.cc`       `SDAI_String::STEPread` → `stringRead` (value = the literal *including* quotes), `STEPwrite`
* `src/cldai/sdaiBinary.cc`       `SDAI_Binary::ReadBinary` → `readBinary`, `STEPwrite` → `writeBinary`
* `src/cldai/sdaiEnum.cc`         `SDAI_Enum::ReadEnum`, `SDAI_LOGICAL::ReadEnum` → `readEnum`, `STEPread` → `enumRead`, `STEPwrite`
* `src/clstepcore/sdaiApplication_instance.cc`  `ReadEntityRef` → `readEntityRef` (instance manager abstracted to a lookup)
* `src/clstepcore/STEPattribute.cc`  `STEPattribute::STEPread` → `attrRead`, `STEPwrite` → `attrWrite`, `is_null`, `set_null`

Only the severity of an `ErrorDescriptor` is modelled (`Sev`), not message text.  Where the C++ would read an
uninitialised `char` (a `get(c)` that cannot fail because the stream was just found `good()` and non-empty) the
model uses byte 0 and the correspondence check covers the composition.

`LexCfg` carries the behaviours that differ between the unrepaired and the repaired tree; the extractor
(`tools/extract.d/p21lex.py`) regenerates the instance `Generated.lexCfg` from the source on every run.
-/
namespace StepModel.P21

open StepModel IStream

/-- `enum Severity` restricted to the values the literal readers produce (numeric order: smaller = worse) -/
inductive Sev where
  | bug | inputError | warning | incomplete | usermsg | null
deriving Repr, DecidableEq, Inhabited

def Sev.toInt : Sev → Int
  | .bug => -2 | .inputError => -1 | .warning => 0 | .incomplete => 1 | .usermsg => 2 | .null => 3

def Sev.name : Sev → String
  | .bug => "BUG" | .inputError => "INPUT_ERROR" | .warning => "WARNING" | .incomplete => "INCOMPLETE"
  | .usermsg => "USERMSG" | .null => "NULL"

/-- `ErrorDescriptor::GreaterSeverity` -/
def Sev.greater (cur s : Sev) : Sev := if s.toInt < cur.toInt then s else cur

/-- `if( b ) err->GreaterSeverity( SEVERITY_WARNING )` -/
def Sev.warnIf (err : Sev) (b : Bool) : Sev := if b then err.greater .warning else err

/-- the sentinel test of the repaired readers: `if( sentinel ) err->GreaterSeverity( SEVERITY_WARNING )` (kept apart from
    `warnIf` so that proofs can tell the two tests apart) -/
def Sev.sentinelIf (err : Sev) (b : Bool) : Sev := err.warnIf b

/-- what differs between source versions (regenerated into `Generated.lexCfg`) -/
structure LexCfg where
  /-- `ReadInteger` reports an error when `in >> i` fails on non-blank input -/
  intReportsFail : Bool
  /-- `ReadReal` reports an error when the collected characters do not convert -/
  realReportsFail : Bool
  /-- `ReadNumber` reports an error when `in >> d` fails on non-blank input -/
  numberReportsFail : Bool
  /-- `SDAI_LOGICAL::ReadEnum` rejects the item name `UNSET` -/
  logicalRejectsUnset : Bool
  /-- `SDAI_Binary::ReadBinary` reports an error for delimiters without a digit -/
  binaryRejectsEmpty : Bool
  /-- `STEPattribute::STEPread` keeps the severity `CheckRemainingInput` found after `$` for an OPTIONAL attribute -/
  dollarKeepsError : Bool
  /-- `STEPattribute::asStr` renders reals with `WriteReal` (otherwise `ostream << double`, precision 15 = `%.15g`) -/
  asStrUsesWriteReal : Bool
  /-- `CheckRemainingInput` skips Part 21 comments (and the blanks around them) between a value and its delimiter -/
  criSkipsComments : Bool
  /-- `char buf[N]` in `ReadReal`; 0 = a growing `std::string`, no overflow -/
  realBuf : Nat
  /-- `REAL_NUM_PRECISION` -/
  realPrecision : Nat
  /-- `CheckRemainingInput` takes a NUL byte for a delimiter: a bare `strchr(",)", c)` also matches the terminating NUL of
      the list (the default is the unrepaired behaviour; fixes/C09-7 tests `c != '\0'` first) -/
  nulIsDelim : Bool := true
  /-- `ReadReal` reports a failed conversion unless the input was blank (`!blank`); otherwise only when characters were
      collected (`!buf.empty()`), so that something that does not start a real in place of the value goes unreported
      by `ReadReal` itself (fixes/C09-8) -/
  realFailUnlessBlank : Bool := false
  /-- `ReadEntityRef` reports a character that is neither `#`/`@` nor a delimiter where the reference should be
      (fixes/C09-8); otherwise that is left to `CheckRemainingInput` alone -/
  refReportsNonRef : Bool := false
  /-- `ReadInteger` reports the token that denotes `S_INT_NULL` = LONG_MAX, the in-band "unset", instead of storing it
      silently (fixes/C09-9) -/
  intNullReported : Bool := false
  /-- `ReadReal` reports a token that converts to `S_REAL_NULL` = (double)FLT_MIN (fixes/C09-9) -/
  realNullReported : Bool := false
  /-- `ReadNumber` reports a token that converts to `S_NUMBER_NULL` = (double)FLT_MIN (fixes/C09-9) -/
  numberNullReported : Bool := false
  /-- the recovery loop of `CheckRemainingInput` ends at the first `;` — the end of the record — puts it back and reports
      INPUT_ERROR (fixes/C05-15, C05-19); otherwise it runs on to the next delimiter or the end of the input -/
  criStopsAtSemicolon : Bool := false
deriving Repr, DecidableEq

/-- `c` is one of the characters of the delimiter list -/
def isDelim (ds : List Byte) (c : Byte) : Bool := ds.contains c

/-- the delimiter test of `CheckRemainingInput`: `strchr(delimiterList, c) != NULL` — the terminating NUL of the list
    matches byte 0 — or, repaired, `c != '\0' && strchr(delimiterList, c) != NULL` -/
def delimAt (cfg : LexCfg) (ds : List Byte) (c : Byte) : Bool := (cfg.nulIsDelim && c == 0) || isDelim ds c

/-- the delimiter list `",)"` every `STEPattribute::STEPread` call passes -/
def attrDelims : List Byte := [44, 41]

/-! ## CheckRemainingInput -/

/-- the recovery loop `for( in.get(c); in && !strchr(dl,c); in.get(c) )` on a good stream:
    returns (last value of `c`, consumed side, rest, ran into the end) -/
def skipTo (cfg : LexCfg) (ds : List Byte) : Byte → List Byte → List Byte → Byte × List Byte × List Byte × Bool
  | c, l, [] => (c, l, [], true)
  | _, l, x :: r => if delimAt cfg ds x then (x, x :: l, r, false) else skipTo cfg ds x (x :: l) r

/-- the repaired recovery loop (fixes/C05-15 as corrected by C05-19): as `skipTo`, but the first `;` — quoted or not — ends the
    skip: it is put back, `endOfRecord` is set.  Returns (last `c`, consumed side, rest, ran into the end, `endOfRecord`). -/
def skipToRec (cfg : LexCfg) (ds : List Byte) : Byte → List Byte → List Byte → Byte × List Byte × List Byte × Bool × Bool
  | c, l, [] => (c, l, [], true, false)
  | _, l, x :: r =>
    if delimAt cfg ds x then (x, x :: l, r, false, false)
    else if x == 59 then (x, l, x :: r, false, true)
    else skipToRec cfg ds x (x :: l) r

/-- the recovery loop as the configuration has it: (last `c`, consumed side, rest, ran into the end, `endOfRecord`) -/
def skipGarbage (cfg : LexCfg) (ds : List Byte) (c : Byte) (l r : List Byte) : Byte × List Byte × List Byte × Bool × Bool :=
  if cfg.criStopsAtSemicolon then skipToRec cfg ds c l r
  else ((skipTo cfg ds c l r).1, (skipTo cfg ds c l r).2.1, (skipTo cfg ds c l r).2.2.1, (skipTo cfg ds c l r).2.2.2, false)

/-- body of a comment after `/*` (`prev` = previous character, 0 at the start): consumes through the closing `*/`;
    `none` = unterminated, everything was consumed -/
def commentBody : Byte → List Byte → List Byte → Option (List Byte × List Byte)
  | _, _, [] => none
  | prev, l, c :: r => if prev == 42 && c == 47 then some (c :: l, r) else commentBody c (c :: l) r

/-- `SkipTokenSeparators` (Str.cc) on a flag-free stream, list level: blanks, then as long as `/*` follows a comment and
    the blanks after it.  Returns (consumed side, rest, eofbit, failbit).  A `/` that does not open a comment is put back.
    The first argument is fuel (the length of the input + 1 suffices). -/
def skipSeps : Nat → List Byte → List Byte → List Byte × List Byte × Bool × Bool
  | 0, l, r => (l, r, false, false)
  | n + 1, l, r =>
    let lr := dropSpaces l r
    match lr.2 with
    | [] => (lr.1, [], true, false)
    | 47 :: 42 :: r3 =>
      match commentBody 0 (42 :: 47 :: lr.1) r3 with
      | none => (r3.reverse ++ (42 :: 47 :: lr.1), [], true, true)
      | some lr' => skipSeps n lr'.1 lr'.2
    | _ => (lr.1, lr.2, false, false)

/-- what `CheckRemainingInput` skips after `in.clear()`: `in >> ws`, or blanks and comments -/
def sepSkip (cfg : LexCfg) (s : IStream) : IStream :=
  if cfg.criSkipsComments then
    let q := skipSeps (s.right.length + 1) s.left s.right
    { s with left := q.1, right := q.2.1, eof := q.2.2.1, fail := q.2.2.2 }
  else s.ws

def checkRemainingInput (cfg : LexCfg) (delims : Option (List Byte)) (s : IStream) (err : Sev) : IStream × Sev :=
  if s.eof then (s, err)
  else if s.bad then (s, err.greater .inputError)
  else
    let s1 := sepSkip cfg s.clear
    if s1.eof then (s1, err)
    else
      match delims with
      | some ds =>
        let (c, s2) := s1.peekC
        if delimAt cfg ds c then (s2, err)
        else
          let (c', l, r, hitEnd, endOfRecord) := skipGarbage cfg ds c s2.left s2.right
          let s3 : IStream := { s2 with left := l, right := r, eof := hitEnd, fail := hitEnd }
          if !endOfRecord && delimAt cfg ds c' then (s3.putback c', err.greater .warning)
          else (s3, err.greater .inputError)
      | none => if s1.good then (s1, err.greater .warning) else (s1, err)

/-! ## INTEGER -/

/-- `ReadInteger`: returns the value when one was assigned -/
def readInteger (cfg : LexCfg) (delims : Option (List Byte)) (s : IStream) (err : Sev) : Option Int × IStream × Sev :=
  let s1 := s.ws
  let blank := s1.eof
  let (o, s2) := s1.extractLong
  let val : Option Int := if !s2.failed then o else none
  let err1 := err.warnIf (s2.failed && cfg.intReportsFail && !blank)
  let (s3, err2) := checkRemainingInput cfg delims s2 err1
  (val, s3, err2)

/-! ## REAL / NUMBER -/

/-- one `while( isdigit( c ) ) { in.get( buf[i++] ); c = in.peek(); }` loop, on the unread bytes:
    (collected digits in order, rest) -/
def realDigits : List Byte → List Byte × List Byte := takeDigits

/-- optional exponent part `[eE] sign? digits*`: (collected, rest, lower-case letter used, no digit after the letter) -/
def expPart (r : List Byte) : List Byte × List Byte × Bool × Bool :=
  match r with
  | c :: t =>
    if c == 101 || c == 69 then
      let sg := optSign t
      let ed := realDigits sg.2
      (c :: (sg.1 ++ ed.1), ed.2, c == 101, ed.1.isEmpty)
    else ([], r, false, false)
  | [] => ([], [], false, false)

/-- The character-collecting part of `ReadReal` on the unread bytes (the stream is good and non-empty or at its
    end; `peek` at the end yields a non-digit and sets `eofbit`).  Returns the collected text `buf`, the rest, and
    the format severity `e` (WARNING for: no initial digit, no decimal point, lower-case `e`, no exponent digit). -/
def realCollect (r : List Byte) : List Byte × List Byte × Sev :=
  let sg := optSign r
  let ip := realDigits sg.2
  let dot := optDot ip.2
  let fp := realDigits dot.2
  let ex := expPart fp.2
  let e1 : Sev := if ip.1.isEmpty then .warning else .null
  let e2 : Sev := if dot.1.isEmpty then .warning else e1
  let e3 : Sev := if ex.2.2.1 then .warning else e2
  let e4 : Sev := if ex.2.2.2 then .warning else e3
  (sg.1 ++ ip.1 ++ dot.1 ++ fp.1 ++ ex.1, ex.2.1, e4)

/-- outcome of a scanner that writes into a fixed buffer -/
inductive Outcome (α : Type) where
  | ok (a : α)
  | overflow            -- wrote past `char buf[N]`
deriving Repr

/-- `ReadReal`: value when assigned; on a failed conversion the variable is set to the null value (= unset) -/
def readReal {F} (ops : FloatOps F) (cfg : LexCfg) (delims : Option (List Byte)) (s : IStream) (err : Sev) :
    Outcome (Option F × IStream × Sev) :=
  let s1 := s.ws
  if !s1.good then
    -- every peek/get fails (or sets failbit): nothing collected, `in2 >> d` fails on the empty text
    let s2 : IStream := { s1 with fail := true }
    let err1 := err.warnIf (cfg.realReportsFail && cfg.realFailUnlessBlank && !s1.eof)    -- `!blank`
    let (s3, err2) := checkRemainingInput cfg delims s2 err1
    .ok (none, s3, err2)
  else
    let (buf, rest, e) := realCollect s1.right
    if cfg.realBuf != 0 && buf.length ≥ cfg.realBuf then .overflow
    else
      -- every character taken from the stream went into `buf`; the last `peek` sets `eofbit` at the end
      let s2 : IStream := { s1 with left := buf.reverse ++ s1.left, right := rest, eof := rest.isEmpty }
      -- `in2 >> d` on a fresh stream over `buf`
      let text := (IStream.scanFloat [] buf).1
      match ops.conv text with
      | .ok v =>
        let (s3, err2) := checkRemainingInput cfg delims s2 (err.greater e)
        .ok (some v, s3, err2)
      | _ =>
        let err1 := err.warnIf (cfg.realReportsFail && (cfg.realFailUnlessBlank || !buf.isEmpty))
        let (s3, err2) := checkRemainingInput cfg delims s2 err1
        .ok (none, s3, err2)

/-- `ReadNumber` -/
def readNumber {F} (ops : FloatOps F) (cfg : LexCfg) (delims : Option (List Byte)) (s : IStream) (err : Sev) :
    Option F × IStream × Sev :=
  let s1 := s.ws
  let blank := s1.eof
  let (ot, s2) := s1.extractFloatText
  let (val, s3) : Option F × IStream :=
    match ot with
    | none => (none, s2)
    | some text =>
      match ops.conv text with
      | .ok v => (some v, s2)
      | _ => (none, s2.setFail true)
  let err1 := err.warnIf (s3.failed && cfg.numberReportsFail && !blank)
  let (s4, err2) := checkRemainingInput cfg delims s3 err1
  (val, s4, err2)

/-- `WriteReal`: `%.15G`, then a `.` is inserted before the exponent letter or at the end when none was printed -/
def writeReal {F} (ops : FloatOps F) (v : F) : List Byte :=
  let t := ops.fmtG15 v
  if t.contains 46 then t
  else if t.contains 69 || t.contains 101 then
    let i := match t.findIdx? (· == 69) with
      | some i => i
      | none => (t.findIdx? (· == 101)).getD t.length
    t.take i ++ [46, 69] ++ t.drop (i + 1)
  else t ++ [46]

/-! ## STRING -/

/-- `StrEndsWith( s, "\\S\\" )` -/
def endsWithSEsc (srev : List Byte) : Bool :=
  match srev with
  | 92 :: 83 :: 92 :: _ => true
  | _ => false

/-- the main loop of `GetLiteralStr` after the opening quote, on the unread bytes of a good stream.
    `srev` is the collected text (reversed), `esc` is `allDelimsEscaped`.  Returns (text reversed, rest, esc, hit end). -/
def litLoop : List Byte → Bool → List Byte → List Byte × List Byte × Bool × Bool
  | srev, esc, [] => (srev, [], esc, true)
  | srev, esc, c :: r =>
    if c == 39 then
      let esc' := if endsWithSEsc srev then esc else !esc
      litLoop (c :: srev) esc' r
    else if !esc then (srev, c :: r, esc, false)
    else litLoop (c :: srev) esc r

/-- `GetLiteralStr`: (text, stream, severity) -/
def getLiteralStr (s : IStream) (err : Sev) : List Byte × IStream × Sev :=
  let s1 := s.ws
  if !s1.good then (([] : List Byte), s1, err)
  else
    match s1.right with
    | c :: r =>
      if c == 39 then
        let (srev, rest, esc, hitEnd) := litLoop [39] true r
        let s2 : IStream := { s1 with left := srev ++ s1.left, right := rest, eof := hitEnd }
        (srev.reverse, s2, if esc then err.greater .inputError else err)
      else (([] : List Byte), s1, err)
    | [] => (([] : List Byte), s1, err)

/-- `SDAI_String::STEPread`: content (empty = null string), stream, severity.  `skipws` is switched off and only
    restored when nothing was read. -/
def stringRead (s : IStream) (err : Sev) : List Byte × IStream × Sev :=
  let flags := s.skipws
  let (t, s1, err1) := getLiteralStr (s.setSkipws false) err
  if t.isEmpty then (t, s1.setSkipws flags, err1.greater .incomplete)
  else (t, s1, err1)

/-! ## BINARY -/

/-- `while( in.good() && isxdigit( c ) ) { str += c; in.get( c ); }` on a good stream:
    (collected reversed, current c, consumed side, rest, ran into the end) -/
def wordLoop (p : Byte → Bool) : List Byte → Byte → List Byte → List Byte → List Byte × Byte × List Byte × List Byte × Bool
  | str, c, l, [] => if p c then (c :: str, c, l, [], true) else (str, c, l, [], false)
  | str, c, l, x :: r => if p c then wordLoop p (c :: str) x (x :: l) r else (str, c, l, x :: r, false)

/-- `in.get( c )` into a variable that keeps its value on failure -/
def getInto (c : Byte) (s : IStream) : Byte × IStream :=
  match s.get with
  | (some x, s') => (x, s')
  | (none, s') => (c, s')

/-- run `wordLoop` on a stream (no-op unless the stream is good) -/
def runWord (p : Byte → Bool) (str : List Byte) (c : Byte) (s : IStream) : List Byte × Byte × IStream :=
  if s.good then
    let (str', c', l, r, hitEnd) := wordLoop p str c s.left s.right
    (str', c', { s with left := l, right := r, eof := hitEnd, fail := hitEnd })
  else (str, c, s)

/-- a word of `p`-characters starting at the current character `c1` (already taken from the stream), then the put-back
    of the character that ended it unless it is the closing delimiter `q`.  Returns (word, last value of `c`, stream). -/
def scanWord (p : Byte → Bool) (q : Byte) (c1 : Byte) (s3 : IStream) : List Byte × Byte × IStream :=
  let (strRev, c3, s5) := runWord p [] c1 s3
  let s6 := if s5.good && c3 != q then s5.putback c3 else s5
  (strRev.reverse, c3, s6)

/-- `SDAI_Binary::ReadBinary( in, err, AssignVal = 1, needDelims )`: content (empty = null) -/
def readBinary (cfg : LexCfg) (needDelims : Bool) (s : IStream) (err : Sev) : List Byte × IStream × Sev :=
  let s1 := s.ws
  if !s1.good then (([] : List Byte), s1, err.greater .incomplete)
  else
    let (c0, s2) := getInto 0 s1
    if c0 == 34 || isXDigit c0 then
      let (c1, s3, vd0) : Byte × IStream × Bool := if c0 == 34 then let p := getInto c0 s2; (p.1, p.2, false) else (c0, s2, true)
      let (str, c2, s5) := scanWord isXDigit 34 c1 s3
      let vd : Bool := if c2 == 34 then !vd0 else if needDelims then false else vd0
      let err1 := err.warnIf (!vd)
      let err2 := err1.warnIf (cfg.binaryRejectsEmpty && str.isEmpty)
      (str, s5, err2)
    else (([] : List Byte), s2, err.greater .warning)

def writeBinary (content : List Byte) : List Byte :=
  if content.isEmpty then [36] else [34] ++ content ++ [34]

/-! ## ENUMERATION / BOOLEAN / LOGICAL -/

/-- which class reads the token -/
inductive EnumKind where
  | enum (items : List (List Byte))     -- generated `SDAI_Enum` subclass: `element_at(i)`, upper case
  | boolean
  | logical
deriving Repr, DecidableEq

def bF : List Byte := [70]
def bT : List Byte := [84]
def bU : List Byte := [85]
def bUNSET : List Byte := [85, 78, 83, 69, 84]

/-- the names the search loop compares against, in index order (`element_at(0..bound-1)`) -/
def EnumKind.table : EnumKind → List (List Byte)
  | .enum items => items
  | .boolean => [bF, bT]
  | .logical => [bF, bT, bUNSET, bU]    -- enum Logical { LFalse, LTrue, LUnset, LUnknown }, loop bound no_elements()+1

/-- index that means "unset" when stored in `v` -/
def EnumKind.isUnsetIdx (k : EnumKind) (i : Nat) : Bool :=
  match k with
  | .logical => i == 2
  | _ => false

def findName (tbl : List (List Byte)) (w : List Byte) : Option Nat :=
  let i := tbl.findIdx (· == w)
  if i < tbl.length then some i else none

/-- characters of an enumeration word as `ReadEnum` collects them (`isalnum(c) || c == '_'`) -/
def pw (c : Byte) : Bool := isAlnum c || c == 95

/-- the word part of `ReadEnum` with current character `c1` (already taken from the stream): "look for UPPER" (one
    character that may be a letter or `_`), the loop over letters, digits and `_`, then the put-back of the character that
    ended the word unless it is the closing `.`.  Returns (word, last value of `c`, stream). -/
def enumWord (c1 : Byte) (s3 : IStream) : List Byte × Byte × IStream :=
  let (str1, c2, s4) : List Byte × Byte × IStream :=
    if s3.good && (isAlpha c1 || c1 == 95) then let p := getInto c1 s3; ([c1], p.1, p.2) else ([], c1, s3)
  let (strRev, c3, s5) := runWord pw str1 c2 s4
  let s6 := if s5.good && c3 != 46 then s5.putback c3 else s5
  (strRev.reverse, c3, s6)

/-- the table search and the delimiter verdict of `ReadEnum` for a non-empty word -/
def enumFinish (cfg : LexCfg) (k : EnumKind) (needDelims vd0 : Bool) (str : List Byte) (c3 : Byte) (err : Sev) : Option Nat × Sev :=
  let found := findName k.table (str.map toUpper)
  let found := match found with
    | some i => if cfg.logicalRejectsUnset && k.isUnsetIdx i then none else some i
    | none => none
  let err1 := err.warnIf found.isNone
  let vd : Bool := if c3 == 46 then !vd0 else if needDelims then false else vd0
  (found, err1.warnIf (!vd))

/-- `ReadEnum( in, err, AssignVal = 1, needDelims )`: index assigned to `v` (none = stays unset) -/
def readEnum (cfg : LexCfg) (k : EnumKind) (needDelims : Bool) (s : IStream) (err : Sev) : Option Nat × IStream × Sev :=
  let s1 := s.ws
  if !s1.good then (none, s1, err.greater .incomplete)
  else
    let (c0, s2) := getInto 0 s1
    if c0 == 46 || isAlpha c0 then
      let (c1, s3, vd0) : Byte × IStream × Bool := if c0 == 46 then let p := getInto c0 s2; (p.1, p.2, false) else (c0, s2, true)
      let (str, c3, s6) := enumWord c1 s3
      if !str.isEmpty then
        let (found, err2) := enumFinish cfg k needDelims vd0 str c3 err
        (found, s6, err2)
      else if c3 == 46 || !vd0 then (none, s6, err.greater .warning)
      else (none, s6, err.greater .incomplete)
    else if c0 == 44 || c0 == 41 then (none, s2.putback c0, err.greater .incomplete)
    else (none, s2.putback c0, err.greater .warning)

/-- `SDAI_Enum::STEPread( in, err, optional )` -/
def enumRead (cfg : LexCfg) (k : EnumKind) (optional : Bool) (s : IStream) (err : Sev) : Option Nat × IStream × Sev :=
  let (v, s1, e) := readEnum cfg k true s err
  (v, s1, if e == .incomplete && optional then .null else e)

/-! ## entity reference -/

/-- result of the look-up `instances->FindFileId(id)` + `EntityValidLevel` -/
inductive RefLookup where
  | found            -- an instance of a conforming type
  | wrongType        -- an instance whose type does not conform: `EntityValidLevel` reports WARNING
  | missing
deriving Repr, DecidableEq

/-- `ReadEntityRef` after the `#` / `@` has been read: the id, the look-up, the type test -/
def refTail (cfg : LexCfg) (lookup : Int → RefLookup) (delims : Option (List Byte)) (s2 : IStream) (err0 : Sev) :
    Option Int × IStream × Sev :=
  let (oi, s3) := s2.extractInt32
  if s3.failed then
    let (s4, e) := checkRemainingInput cfg delims s3 (err0.greater .warning)
    (none, s4, e)
  else
    let (s4, e) := checkRemainingInput cfg delims s3 err0
    let id := oi.getD (-1)
    match lookup id with
    | .found => (some id, s4, e)
    | .wrongType => (none, s4, e.greater .warning)
    | .missing => (none, s4, e.greater .warning)

/-- `c == '\0' || !tokenList || !strchr( tokenList, c )` in the `default:` branch of `ReadEntityRef` -/
def refNotDelim (delims : Option (List Byte)) (c : Byte) : Bool :=
  match delims with
  | some ds => c == 0 || !isDelim ds c
  | none => true

/-- `ReadEntityRef` followed by the `EntityValidLevel` test in `STEPattribute::STEPread`; value = file id -/
def readEntityRef (cfg : LexCfg) (lookup : Int → RefLookup) (delims : Option (List Byte)) (s : IStream) (err : Sev) :
    Option Int × IStream × Sev :=
  let s1 := s.ws
  let (oc, s2) := s1.getChar
  let c := oc.getD 0     -- uninitialised `char c` when nothing could be read; any value but '#'/'@' behaves alike
  if (c == 35 || c == 64) && oc.isSome then
    refTail cfg lookup delims s2 (if c == 64 then err.greater .warning else err)
  else
    let err1 := err.warnIf (cfg.refReportsNonRef && oc.isSome && refNotDelim delims c)
    let (s3, e) := checkRemainingInput cfg delims (s2.putback c) err1
    (none, s3, e)

/-! ## STEPattribute::STEPread / STEPwrite -/

/-- attribute kinds of C09 -/
inductive Kind where
  | integer | real | number | string | binary | boolean | logical | enumeration (items : List (List Byte)) | ref
deriving Repr, DecidableEq

/-- attribute values; `unset` is what `is_null()` reports -/
inductive Value (F : Type) where
  | unset
  | int (v : Int)
  | real (v : F)
  | str (content : List Byte)
  | bin (content : List Byte)
  | enum (idx : Nat)
  | ref (id : Int)
deriving Repr

structure ReadResult (F : Type) where
  sev : Sev
  val : Value F
  s : IStream

/-! ### the in-band null sentinels (`if( !in.fail() && i == S_INT_NULL )` … of the repaired readers, fixes/C09-9)

`readInteger`, `readReal`, `readNumber` above are the readers up to that test; `readIntegerS`, `readRealS`, `readNumberS` add
it: a successfully extracted value that *is* the sentinel is not stored but reported (SEVERITY_WARNING, raised before
`CheckRemainingInput`; `GreaterSeverity` is a minimum, so raising it afterwards gives the same severity). -/

/-- the extracted integer is `S_INT_NULL` and the reader reports that -/
def intSentinel (cfg : LexCfg) (v : Option Int) : Bool := cfg.intNullReported && v == some IStream.longMax

/-- the converted double is `S_REAL_NULL` / `S_NUMBER_NULL` -/
def realSentinel {F} (ops : FloatOps F) (v : Option F) : Bool :=
  match v with
  | some x => ops.isRealNull x
  | none => false

def readIntegerS (cfg : LexCfg) (delims : Option (List Byte)) (s : IStream) (err : Sev) : Option Int × IStream × Sev :=
  let (v, s1, e) := readInteger cfg delims s err
  if intSentinel cfg v then (none, s1, e.greater .warning) else (v, s1, e)

def readRealS {F} (ops : FloatOps F) (cfg : LexCfg) (delims : Option (List Byte)) (s : IStream) (err : Sev) :
    Outcome (Option F × IStream × Sev) :=
  match readReal ops cfg delims s err with
  | .overflow => .overflow
  | .ok (v, s1, e) => if cfg.realNullReported && realSentinel ops v then .ok (none, s1, e.greater .warning) else .ok (v, s1, e)

def readNumberS {F} (ops : FloatOps F) (cfg : LexCfg) (delims : Option (List Byte)) (s : IStream) (err : Sev) :
    Option F × IStream × Sev :=
  let (v, s1, e) := readNumber ops cfg delims s err
  if cfg.numberNullReported && realSentinel ops v then (none, s1, e.greater .warning) else (v, s1, e)

/-- `is_null()` applied to what the readers stored -/
def intValue {F} (o : Option Int) : Value F :=
  match o with
  | some v => if v == IStream.longMax then .unset else .int v      -- S_INT_NULL = LONG_MAX is the in-band null
  | none => .unset

def realValue {F} (ops : FloatOps F) (o : Option F) : Value F :=
  match o with
  | some v => if ops.isRealNull v then .unset else .real v           -- S_REAL_NULL = FLT_MIN is the in-band null
  | none => .unset

def enumValue {F} (k : EnumKind) (o : Option Nat) : Value F :=
  match o with
  | some i => if k.isUnsetIdx i then .unset else .enum i
  | none => .unset

def Kind.enumKind : Kind → EnumKind
  | .boolean => .boolean
  | .logical => .logical
  | .enumeration items => .enum items
  | _ => .boolean

/-- `STEPattribute::STEPread` for a non-derived, non-redefined attribute of a simple kind, strict mode.
    (`nullable` = the attribute is OPTIONAL.)  Lenient mode only differs for `$`/missing required values (C15). -/
def attrRead {F} (ops : FloatOps F) (cfg : LexCfg) (lookup : Int → RefLookup) (k : Kind) (nullable : Bool)
    (s : IStream) : Outcome (ReadResult F) :=
  let s1 := s.ws
  let (c, s2) := s1.peekC
  if c == 36 || c == 44 || c == 41 then
    let (s3, e) : IStream × Sev :=
      if c == 36 then checkRemainingInput cfg (some attrDelims) s2.ignore1 .null else (s2, .null)
    -- `_error.severity( … )` *sets* the severity, discarding what CheckRemainingInput found
    .ok ⟨if nullable then (if cfg.dollarKeepsError then e else .null) else .incomplete, .unset, s3⟩
  else
    let d := some attrDelims
    match k with
    | .integer =>
      -- `readIntegerS`; the value needs no correction: `intValue` reads the sentinel as unset anyway
      let (v, s3, e) := readInteger cfg d s2 .null
      .ok ⟨e.sentinelIf (intSentinel cfg v), intValue v, s3⟩
    | .real =>
      match readReal ops cfg d s2 .null with
      | .overflow => .overflow
      | .ok (v, s3, e) => .ok ⟨e.sentinelIf (cfg.realNullReported && realSentinel ops v), realValue ops v, s3⟩
    | .number =>
      let (v, s3, e) := readNumber ops cfg d s2 .null
      .ok ⟨e.sentinelIf (cfg.numberNullReported && realSentinel ops v), realValue ops v, s3⟩
    | .string =>
      let (t, s3, e) := stringRead s2 .null
      let (s4, e2) := checkRemainingInput cfg d s3 e
      .ok ⟨e2, if t.isEmpty then .unset else .str t, s4⟩
    | .binary =>
      let (t, s3, e) := readBinary cfg true s2 .null
      let (s4, e2) := checkRemainingInput cfg d s3 e
      .ok ⟨e2, if t.isEmpty then .unset else .bin t, s4⟩
    | .ref =>
      let (v, s3, e) := readEntityRef cfg lookup d s2 .null
      .ok ⟨e, match v with | some id => .ref id | none => .unset, s3⟩
    | _ =>
      let (v, s3, e) := enumRead cfg k.enumKind nullable s2 .null
      let (s4, e2) := checkRemainingInput cfg d s3 e
      .ok ⟨e2, enumValue k.enumKind v, s4⟩

/-- decimal text of an integer (`out << long`) -/
def showInt (v : Int) : List Byte :=
  let ds := (Nat.toDigits 10 v.natAbs).map Char.toNat
  if v < 0 then 45 :: ds else ds

/-- `STEPattribute::STEPwrite` -/
def attrWrite {F} (ops : FloatOps F) (k : Kind) (v : Value F) : List Byte :=
  match v with
  | .unset => [36]
  | .int i => showInt i
  | .real x => writeReal ops x
  | .str t => t
  | .bin t => writeBinary t
  | .enum i => [46] ++ (k.enumKind.table.getD i bUNSET) ++ [46]
  | .ref id => 35 :: showInt id

/-- `ostream << double` with `precision(15)`: `%.15g`, i.e. `%.15G` with lower-case letters -/
def fmtg15 {F} (ops : FloatOps F) (v : F) : List Byte :=
  (ops.fmtPlain15 v).map (fun b => if isUpper b then b + 32 else b)

/-- `STEPattribute::asStr` -/
def attrAsStr {F} (ops : FloatOps F) (cfg : LexCfg) (k : Kind) (v : Value F) : List Byte :=
  match v with
  | .unset => []
  | .int i => showInt i
  | .real x => if cfg.asStrUsesWriteReal then writeReal ops x else fmtg15 ops x
  | .str t => t
  | .bin t => writeBinary t
  | .enum i => k.enumKind.table.getD i bUNSET
  | .ref id => 35 :: showInt id

end StepModel.P21

import StepModel.P21.ReaderLemmas15
/-! A record without its `=` (`#1 A(5);`): pass 1 creates nothing, pass 2 finds no instance and skips it - record level. -/
namespace StepModel.P21.RLemmas
open StepModel StepModel.IStream StepModel.P21 StepModel.P21.Lemmas StepModel.P21.Grammar

variable {F : Type}

/-- the record's text with the `=` (and the layout in front of it) left out: `id seps NAME seps ( parameters ) seps ;` -/
def Rec.textNoEq (r : Rec F) (rest : List Byte) : List Byte := r.ds ++ r.t2 rest

/-- behind the keyword's first letter, and behind the id, stands something `SkipInstance` gets over -/
theorem Rec.passes_noeq (r : Rec F) (hlex : r.Lex) (hscan : ∀ q ∈ r.ps, ParamScan q) (rest : List Byte) :
    (∃ body, Passes body ∧ r.ns ++ r.t3 rest = body ++ 59 :: rest) ∧
    (∃ body, Passes body ∧ r.t2 rest = body ++ 59 :: rest) := by
  obtain ⟨dne, ddig, dhi, h1, h2, h3, h4, hn0, hns, pne⟩ := hlex
  obtain ⟨_, _, _, _, _, _, _, hn0k, _⟩ := alpha_facts hn0
  have hkw : (r.n0 :: r.ns).all kwc = true := by simp only [List.all_cons, hn0k, Bool.true_and]; exact hns
  have htail : Passes (r.s3 ++ 40 :: (renderParams r.ps ++ r.s4)) :=
    Passes.append (Passes.seps h3) (Passes.append (a := [40]) (Passes.plain 40 (by decide))
      (Passes.append (Passes.params r.ps pne hscan) (Passes.seps h4)))
  refine ⟨⟨r.ns ++ (r.s3 ++ 40 :: (renderParams r.ps ++ r.s4)), ?_, ?_⟩,
    ⟨r.s2 ++ ((r.n0 :: r.ns) ++ (r.s3 ++ 40 :: (renderParams r.ps ++ r.s4))), ?_, ?_⟩⟩
  · exact Passes.append (Passes.all_plain _ (all_imp (fun c => kwc_plain) _ hns)) htail
  · simp [Rec.t3, Rec.t4]
  · exact Passes.append (Passes.seps h2) (Passes.append (Passes.all_plain _ (all_imp (fun c => kwc_plain) _ hkw)) htail)
  · simp [Rec.t2, Rec.t3, Rec.t4]

/-- **missing `=`, pass 1**: `#id NAME(…);` - the character where the `=` must stand is a letter - creates nothing and is
    skipped to its `;` (`ReadData1` counts it as not created) -/
theorem createInstance_noeq (cfg : RWCfg) (hcfg : cfg.skipInstanceSkipsComments = true) (d : Dict) (m : Mgr F)
    (r : Rec F) (hlex : r.Lex) (hscan : ∀ q ∈ r.ps, ParamScan q) (hnone : m.find? r.id = none)
    (l rest : List Byte) :
    ∃ l', createInstance cfg d m (G l (r.textNoEq rest) false) = .ok (none, G l' rest false) := by
  obtain ⟨⟨body, hT, eT⟩, _⟩ := Rec.passes_noeq r hlex hscan rest
  obtain ⟨dne, ddig, dhi, h1, h2, h3, h4, hn0, hns, pne⟩ := hlex
  obtain ⟨hn0s, hn047, _, _, _, _, hn0d, _, hn092⟩ := alpha_facts hn0
  obtain ⟨c0, u, hcu⟩ : ∃ c0 u, r.ds = c0 :: u := by
    cases hd : r.ds with
    | nil => exact absurd hd dne
    | cons c u => exact ⟨c, u, rfl⟩
  have hcd : isDigit c0 = true := by rw [hcu] at ddig; simp at ddig; exact ddig.1
  have hc047 : c0 ≠ 47 := by intro h; rw [h] at hcd; exact absurd hcd (by decide)
  obtain ⟨x, xr, hXe, hxd⟩ : ∃ x xr, r.t2 rest = x :: xr ∧ isDigit x = false :=
    seps_then r.s2 h2 r.n0 _ (fun c => isDigit c = false) (fun c h => space_not_digit h) (by decide) hn0d
  have e0 : readTokenSeparator (G l (r.textNoEq rest) false) = G l (r.textNoEq rest) false := by
    unfold Rec.textNoEq; rw [hcu]; exact readTokenSeparator_none l c0 _ false (digit_not_space hcd) hc047 (by intro h; rw [h] at hcd; exact absurd hcd (by decide))
  have e1 : (G l (r.textNoEq rest) false).extractInt32 = (some r.id, G (r.ds.reverse ++ l) (r.t2 rest) false) := by
    unfold Rec.textNoEq; rw [hXe]; exact extractInt32_digits r.ds dne ddig dhi l x xr false hxd
  have e2 : readTokenSeparator (G (r.ds.reverse ++ l) (r.t2 rest) false) =
      G (r.s2.reverse ++ (r.ds.reverse ++ l)) (r.n0 :: (r.ns ++ r.t3 rest)) false :=
    readTokenSeparator_seps r.s2 h2 _ r.n0 _ false hn0s hn047 hn092
  have hne61 : (r.n0 != 61) = true := by
    have : r.n0 ≠ 61 := by intro h; rw [h] at hn0; exact absurd hn0 (by decide)
    simpa using this
  unfold createInstance
  rw [e0]
  simp only [e1, Option.getD_some, hnone, Option.isSome_none, Bool.false_eq_true, if_false, bind, Except.bind, pure, Except.pure]
  rw [e2, getInto_good]
  simp only [hne61, if_true]
  rw [eT, skipInstance_passes cfg hcfg _ hT]
  exact ⟨_, rfl⟩

/-- **missing `=`, pass 2**: pass 1 having created nothing for the record, `ReadInstance` finds no instance with its id and
    skips the record to its `;`; nothing is stored or reported (`ReadData2` counts it invalid) -/
theorem readInstance_noeq (ops : FloatOps F) (lex : LexCfg) (cfg : RWCfg) (d : Dict) (strict : Bool)
    (hskip : cfg.skipInstanceSkipsComments = true) (st : P2 F)
    (r : Rec F) (hlex : r.Lex) (hscan : ∀ q ∈ r.ps, ParamScan q) (l rest : List Byte) (hs : st.s = G l (r.textNoEq rest) false)
    (hnone : st.mgr.find? r.id = none) :
    ∃ l', readInstance ops lex cfg d strict st = .ok { s := G l' rest false } := by
  obtain ⟨_, ⟨body, hT, eT⟩⟩ := Rec.passes_noeq r hlex hscan rest
  obtain ⟨dne, ddig, dhi, h1, h2, h3, h4, hn0, hns, pne⟩ := hlex
  obtain ⟨hn0s, hn047, _, _, _, _, hn0d, _, hn092⟩ := alpha_facts hn0
  obtain ⟨c, u, hcu⟩ : ∃ c u, r.ds = c :: u := by
    cases hd : r.ds with
    | nil => exact absurd hd dne
    | cons c u => exact ⟨c, u, rfl⟩
  have hcd : isDigit c = true := by rw [hcu] at ddig; simp at ddig; exact ddig.1
  have hc47 : c ≠ 47 := by intro h; rw [h] at hcd; exact absurd hcd (by decide)
  obtain ⟨x, xr, hXe, hxd⟩ : ∃ x xr, r.t2 rest = x :: xr ∧ isDigit x = false :=
    seps_then r.s2 h2 r.n0 _ (fun c => isDigit c = false) (fun c h => space_not_digit h) (by decide) hn0d
  have e0 : readComment (G l (r.textNoEq rest) false) = G l (r.textNoEq rest) false := by
    unfold Rec.textNoEq; rw [hcu]; exact readComment_none l c _ false (digit_not_space hcd) hc47
  have e1 : (G l (r.textNoEq rest) false).extractInt32 = (some r.id, G (r.ds.reverse ++ l) (r.t2 rest) false) := by
    unfold Rec.textNoEq; rw [hXe]; exact extractInt32_digits r.ds dne ddig dhi l x xr false hxd
  unfold readInstance
  rw [hs, e0]
  simp only [e1, Option.getD_some, hnone, bind, Except.bind, pure, Except.pure]
  rw [eT, skipInstance_passes cfg hskip _ hT]
  exact ⟨_, rfl⟩

end StepModel.P21.RLemmas

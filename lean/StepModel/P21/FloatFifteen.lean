import StepModel.P21.FloatNearest
/-! DBL_DIG for the float model (C09, final proof round): a decimal of at most 15 significant digits survives the trip
decimal → double → `%.15G` → double.  Ingredients: the conversions depend on the *value* of the rational only
(`roundDiv_congr`, `ofRatio_congr`, `ofDecimal_congr`), `ofDecimal_nearest`, `sigDigits_spec`, and `10^15 < 2^52 · 10/ 4.5…`,
i.e. the spacing of 15-digit decimals exceeds the spacing of the doubles. -/
namespace StepModel.P21.Lemmas
open StepModel

/-- `Dbl.roundDiv` depends on the quotient only -/
theorem roundDiv_congr (a b a' b' : Nat) (hb : 0 < b) (hb' : 0 < b') (h : a * b' = a' * b) :
    Dbl.roundDiv a b = Dbl.roundDiv a' b' := by
  -- same integer part
  have hq : a / b = a' / b' := by
    apply Nat.le_antisymm
    · apply (Nat.le_div_iff_mul_le hb').2
      -- (a / b) * b' ≤ a'  ⇐  (a/b) * b' * b ≤ a' * b = a * b'
      have h1 : a / b * b ≤ a := Nat.div_mul_le_self a b
      have h2 : a / b * b * b' ≤ a * b' := Nat.mul_le_mul_right b' h1
      rw [h] at h2
      have h3 : a / b * b' * b ≤ a' * b := by
        calc a / b * b' * b = a / b * b * b' := by ac_rfl
          _ ≤ a' * b := h2
      exact Nat.le_of_mul_le_mul_right h3 hb
    · apply (Nat.le_div_iff_mul_le hb).2
      have h1 : a' / b' * b' ≤ a' := Nat.div_mul_le_self a' b'
      have h2 : a' / b' * b' * b ≤ a' * b := Nat.mul_le_mul_right b h1
      rw [← h] at h2
      have h3 : a' / b' * b * b' ≤ a * b' := by
        calc a' / b' * b * b' = a' / b' * b' * b := by ac_rfl
          _ ≤ a * b' := h2
      exact Nat.le_of_mul_le_mul_right h3 hb'
  -- remainders are proportional
  have hr : (a % b) * b' = (a' % b') * b := by
    have e1 := Nat.div_add_mod a b
    have e2 := Nat.div_add_mod a' b'
    have f1 : a * b' = b * (a / b) * b' + (a % b) * b' := by rw [← Nat.add_mul, e1]
    have f2 : a' * b = b' * (a' / b') * b + (a' % b') * b := by rw [← Nat.add_mul, e2]
    have f3 : b * (a / b) * b' = b' * (a' / b') * b := by rw [hq]; ac_rfl
    omega
  have c1 : (2 * (a % b) < b) ↔ (2 * (a' % b') < b') := by
    constructor
    · intro hlt
      have : 2 * (a % b) * b' < b * b' := Nat.mul_lt_mul_of_pos_right hlt hb'
      have e : 2 * (a % b) * b' = 2 * (a' % b') * b := by rw [Nat.mul_assoc, hr, Nat.mul_assoc]
      rw [e] at this
      have : 2 * (a' % b') * b < b' * b := by rw [Nat.mul_comm b' b]; exact this
      exact Nat.lt_of_mul_lt_mul_right this
    · intro hlt
      have : 2 * (a' % b') * b < b' * b := Nat.mul_lt_mul_of_pos_right hlt hb
      have e : 2 * (a' % b') * b = 2 * (a % b) * b' := by rw [Nat.mul_assoc, ← hr, Nat.mul_assoc]
      rw [e] at this
      have : 2 * (a % b) * b' < b * b' := by rw [Nat.mul_comm b b']; exact this
      exact Nat.lt_of_mul_lt_mul_right this
  have c2 : (2 * (a % b) > b) ↔ (2 * (a' % b') > b') := by
    constructor
    · intro hlt
      have : b * b' < 2 * (a % b) * b' := Nat.mul_lt_mul_of_pos_right hlt hb'
      have e : 2 * (a % b) * b' = 2 * (a' % b') * b := by rw [Nat.mul_assoc, hr, Nat.mul_assoc]
      rw [e] at this
      have : b' * b < 2 * (a' % b') * b := by rw [Nat.mul_comm b' b]; exact this
      exact Nat.lt_of_mul_lt_mul_right this
    · intro hlt
      have : b' * b < 2 * (a' % b') * b := Nat.mul_lt_mul_of_pos_right hlt hb
      have e : 2 * (a' % b') * b = 2 * (a % b) * b' := by rw [Nat.mul_assoc, ← hr, Nat.mul_assoc]
      rw [e] at this
      have : b * b' < 2 * (a % b) * b' := by rw [Nat.mul_comm b b']; exact this
      exact Nat.lt_of_mul_lt_mul_right this
  unfold Dbl.roundDiv
  simp only [hq]
  by_cases h1 : 2 * (a % b) < b
  · have h1' := c1.1 h1
    simp [h1, h1']
  · have h1' : ¬ 2 * (a' % b') < b' := fun hh => h1 (c1.2 hh)
    by_cases h2 : 2 * (a % b) > b
    · have h2' := c2.1 h2
      simp [h1, h1', h2, h2']
    · have h2' : ¬ 2 * (a' % b') > b' := fun hh => h2 (c2.2 hh)
      simp [h1, h1', h2, h2']

/-- `Dbl.ofRatio` depends on the rational only -/
theorem ofRatio_congr (N Dd N' Dd' : Nat) (hN : 0 < N) (hD : 0 < Dd) (hN' : 0 < N') (hD' : 0 < Dd') (D : Rat)
    (h1 : D * (Dd : Rat) = (N : Rat)) (h2 : D * (Dd' : Rat) = (N' : Rat)) : Dbl.ofRatio N Dd = Dbl.ofRatio N' Dd' := by
  rw [ofRatio_eq N Dd (by omega), ofRatio_eq N' Dd' (by omega), ofRatioAt_eq, ofRatioAt_eq]
  obtain ⟨a1, a2⟩ := binExp_rat N Dd hN hD D h1
  obtain ⟨b1, b2⟩ := binExp_rat N' Dd' hN' hD' D h2
  have hk : binExp N Dd = binExp N' Dd' := by
    have c1 : binExp N Dd < binExp N' Dd' + 1 := zp_lt_imp 2 (by decide) _ _ (by grind)
    have c2 : binExp N' Dd' < binExp N Dd + 1 := zp_lt_imp 2 (by decide) _ _ (by grind)
    omega
  rw [← hk]
  generalize ulpExp (binExp N Dd) = E
  obtain ⟨s1, s1p⟩ := scaledc_rat 2 (by decide) N Dd hD E D h1
  obtain ⟨s2, s2p⟩ := scaledc_rat 2 (by decide) N' Dd' hD' E D h2
  have hr : Dbl.roundDiv (scaledc 2 N Dd E).1 (scaledc 2 N Dd E).2 = Dbl.roundDiv (scaledc 2 N' Dd' E).1 (scaledc 2 N' Dd' E).2 := by
    apply roundDiv_congr _ _ _ _ (by exact_mod_cast s1p) (by exact_mod_cast s2p)
    have : ((scaledc 2 N Dd E).1 : Rat) * ((scaledc 2 N' Dd' E).2 : Rat) = ((scaledc 2 N' Dd' E).1 : Rat) * ((scaledc 2 N Dd E).2 : Rat) := by
      rw [s1, s2]; grind
    exact_mod_cast this
  rw [hr]

/-- `Dbl.ofDecimal` depends on sign and value only, as long as neither presentation trips the magnitude guards -/
theorem ofDecimal_congr (neg : Bool) (M M' : Nat) (E E' : Int) (hM : 0 < M) (hM' : 0 < M')
    (hval : (M : Rat) * zp 10 E = (M' : Rat) * zp 10 E')
    (g1 : ¬ E > 310) (g1' : ¬ E' > 310)
    (g2 : ¬ ((Nat.toDigits 10 M).length : Int) + E < -330) (g2' : ¬ ((Nat.toDigits 10 M').length : Int) + E' < -330) :
    Dbl.ofDecimal ⟨neg, M, E⟩ = Dbl.ofDecimal ⟨neg, M', E'⟩ := by
  have hM0 : (M == 0) = false := by simp; omega
  have hM0' : (M' == 0) = false := by simp; omega
  unfold Dbl.ofDecimal
  simp only [hM0, hM0', Bool.false_eq_true, if_false, g1, g1', g2, g2']
  -- present both as numerator / denominator of the same rational
  have pres : ∀ (M : Nat) (E : Int), 0 < M →
      ∃ N Dd : Nat, 0 < N ∧ 0 < Dd ∧ (M : Rat) * zp 10 E * (Dd : Rat) = (N : Rat) ∧
        (if E ≥ 0 then Dbl.ofRatio (M * 10 ^ E.toNat) 1 else Dbl.ofRatio M (10 ^ (-E).toNat)) = Dbl.ofRatio N Dd := by
    intro M E hM
    by_cases hE : E ≥ 0
    · refine ⟨M * 10 ^ E.toNat, 1, Nat.mul_pos hM (Nat.pow_pos (by decide)), by decide, ?_, by simp [hE]⟩
      rw [zp_toNat 10 _ hE]; push_cast; grind
    · refine ⟨M, 10 ^ (-E).toNat, hM, Nat.pow_pos (by decide), ?_, by simp [hE]⟩
      have := zp_neg_toNat 10 (by decide) _ hE
      calc (M : Rat) * zp 10 E * ((10 ^ (-E).toNat : Nat) : Rat) = (M : Rat) * (zp 10 E * ((10 ^ (-E).toNat : Nat) : Rat)) := by grind
        _ = (M : Rat) := by rw [this]; simp
  obtain ⟨N, Dd, n1, n2, n3, n4⟩ := pres M E hM
  obtain ⟨N', Dd', m1, m2, m3, m4⟩ := pres M' E' hM'
  rw [n4, m4, ofRatio_congr N Dd N' Dd' n1 n2 m1 m2 _ n3 (by rw [hval]; exact m3)]

theorem zp10_15 : zp 10 15 = (1000000000000000 : Rat) := by
  have := zp_nat 10 15; simp at this; exact this
theorem zp10_14 : zp 10 14 = (100000000000000 : Rat) := by
  have := zp_nat 10 14; simp at this; exact this
theorem zp10_1 : zp 10 1 = (10 : Rat) := by
  have := zp_nat 10 1; simp at this; exact this

/-- a decimal `M · 10^E` with `M < 10^15` that is at least `10^x` is an integer multiple of `10^(x−14)` -/
theorem multiple_of_unit (M : Nat) (E x : Int) (hM15 : M < 10 ^ 15) (hge : zp 10 x ≤ (M : Rat) * zp 10 E) :
    ∃ A : Nat, (M : Rat) * zp 10 E = (A : Rat) * zp 10 (x - 14) := by
  have hzE := zp_pos 10 (by decide) E
  have hlt : (M : Rat) < 1000000000000000 := by exact_mod_cast hM15
  have h1 := Rat.mul_lt_mul_of_pos_left hlt hzE
  have h2 : zp 10 x < zp 10 (15 + E) := by rw [zp_add 10 (by decide), zp10_15]; grind
  have hE : x < 15 + E := zp_lt_imp 10 (by decide) _ _ h2
  refine ⟨M * 10 ^ (E - (x - 14)).toNat, ?_⟩
  have e : E = (E - (x - 14)) + (x - 14) := by omega
  conv => lhs; rw [e, zp_add 10 (by decide), zp_toNat 10 _ (show E - (x - 14) ≥ 0 by omega)]
  push_cast; grind

/-- a decimal of at most 15 digits below `10^x` is at least `10^(x−15)` below it -/
theorem below_decade (M : Nat) (E x : Int) (hM15 : M < 10 ^ 15) (hlt : (M : Rat) * zp 10 E < zp 10 x) :
    (M : Rat) * zp 10 E + zp 10 (x - 15) ≤ zp 10 x := by
  have hw := zp_pos 10 (by decide) (x - 15)
  have hx : zp 10 x = 1000000000000000 * zp 10 (x - 15) := by
    have : x = 15 + (x - 15) := by omega
    conv => lhs; rw [this]
    rw [zp_add 10 (by decide), zp10_15]
  by_cases hE : E ≥ x - 15
  · -- a multiple of 10^(x-15)
    have e : E = (E - (x - 15)) + (x - 15) := by omega
    have hd : (M : Rat) * zp 10 E = ((M * 10 ^ (E - (x - 15)).toNat : Nat) : Rat) * zp 10 (x - 15) := by
      conv => lhs; rw [e, zp_add 10 (by decide), zp_toNat 10 _ (show E - (x - 15) ≥ 0 by omega)]
      push_cast; grind
    rw [hd, hx] at hlt
    rw [hd, hx]
    generalize M * 10 ^ (E - (x - 15)).toNat = A at *
    have hA : (A : Rat) < 1000000000000000 := by
      by_cases hh : (A : Rat) < 1000000000000000
      · exact hh
      · exfalso
        have hh' : (1000000000000000 : Rat) ≤ (A : Rat) := Rat.not_lt.mp hh
        have := Rat.mul_le_mul_of_nonneg_left hh' (Rat.le_of_lt hw)
        grind
    have hA' : A + 1 ≤ 1000000000000000 := by
      have : A < 1000000000000000 := by exact_mod_cast hA
      omega
    have hA'' : (A : Rat) + 1 ≤ 1000000000000000 := by exact_mod_cast hA'
    have := Rat.mul_le_mul_of_nonneg_left hA'' (Rat.le_of_lt hw)
    grind
  · -- far below
    have ht := zp_pos 10 (by decide) (x - 16)
    have hmono := zp_mono 10 (by decide) E (x - 16) (by omega)
    have hw10 : zp 10 (x - 15) = 10 * zp 10 (x - 16) := by
      have : x - 15 = 1 + (x - 16) := by omega
      rw [this, zp_add 10 (by decide), zp10_1]
    have hMle : (M : Rat) + 1 ≤ 1000000000000000 := by
      have : M + 1 ≤ 1000000000000000 := by omega
      exact_mod_cast this
    have hM0 : (0 : Rat) ≤ (M : Rat) := by exact_mod_cast Nat.zero_le M
    have p1 := Rat.mul_le_mul_of_nonneg_left hmono hM0
    have p2 := Rat.mul_le_mul_of_nonneg_left hMle (Rat.le_of_lt ht)
    rw [hx, hw10]
    grind

/-- the encoding determines significand, exponent and sign (normal doubles) -/
theorem dec_pos (bits m T : Nat) (hT2 : T < 2047) (a3 : m < 2 ^ 53) (hm : 2 ^ 52 ≤ m)
    (a5 : bits = T * 2 ^ 52 + (m - 2 ^ 52)) :
    bits / 2 ^ 52 % 2048 = T ∧ bits % 2 ^ 52 = m - 2 ^ 52 ∧ bits / 2 ^ 63 % 2 = 0 :=
  ⟨by omega, by omega, by omega⟩
theorem dec_neg (bits m T : Nat) (hT2 : T < 2047) (a3 : m < 2 ^ 53) (hm : 2 ^ 52 ≤ m)
    (a5 : bits = T * 2 ^ 52 + (m - 2 ^ 52) + 2 ^ 63) :
    bits / 2 ^ 52 % 2048 = T ∧ bits % 2 ^ 52 = m - 2 ^ 52 ∧ bits / 2 ^ 63 % 2 = 1 :=
  ⟨by omega, by omega, by omega⟩
theorem enc_decode (bits m T : Nat) (neg : Bool) (hT2 : T < 2047) (a3 : m < 2 ^ 53) (hm : 2 ^ 52 ≤ m)
    (a5 : bits = T * 2 ^ 52 + (m - 2 ^ 52) + (if neg = true then Dbl.signBit else 0)) :
    bits / 2 ^ 52 % 2048 = T ∧ bits % 2 ^ 52 = m - 2 ^ 52 ∧ (bits / 2 ^ 63 % 2 == 1) = neg := by
  cases neg
  · simp only [Bool.false_eq_true, if_false] at a5
    rw [Nat.add_zero] at a5
    obtain ⟨x, y, z⟩ := dec_pos bits m T hT2 a3 hm a5
    exact ⟨x, y, by rw [z]; rfl⟩
  · simp only [if_true] at a5
    unfold Dbl.signBit at a5
    obtain ⟨x, y, z⟩ := dec_neg bits m T hT2 a3 hm a5
    exact ⟨x, y, by rw [z]; rfl⟩

/-- a subnormal or zero encoding has biased exponent 0 -/
theorem enc_small (bits m : Nat) (neg : Bool) (hm : m < 2 ^ 52)
    (a5 : bits = m + (if neg = true then Dbl.signBit else 0)) : bits / 2 ^ 52 % 2048 = 0 := by
  cases neg
  · simp only [Bool.false_eq_true, if_false] at a5
    rw [Nat.add_zero] at a5
    omega
  · simp only [if_true] at a5
    unfold Dbl.signBit at a5
    omega

/-- two integer multiples of a positive unit less than one unit apart are equal -/
theorem int_close (A B : Nat) (u : Rat) (hu : 0 < u) (h1 : (A : Rat) * u < (B : Rat) * u + u) (h2 : (B : Rat) * u < (A : Rat) * u + u) :
    A = B := by
  have c1 : (A : Rat) < (B : Rat) + 1 := by
    by_cases hh : (A : Rat) < (B : Rat) + 1
    · exact hh
    · exfalso
      have hh' : (B : Rat) + 1 ≤ (A : Rat) := Rat.not_lt.mp hh
      have := Rat.mul_le_mul_of_nonneg_left hh' (Rat.le_of_lt hu)
      grind
  have c2 : (B : Rat) < (A : Rat) + 1 := by
    by_cases hh : (B : Rat) < (A : Rat) + 1
    · exact hh
    · exfalso
      have hh' : (A : Rat) + 1 ≤ (B : Rat) := Rat.not_lt.mp hh
      have := Rat.mul_le_mul_of_nonneg_left hh' (Rat.le_of_lt hu)
      grind
  have d1 : A < B + 1 := by exact_mod_cast c1
  have d2 : B < A + 1 := by exact_mod_cast c2
  omega

/-- **DBL_DIG for the float model**: the (normal) double the model's `strtod` returns for a decimal of at most 15 significant
    digits is printed by `%.15G` as a decimal of the same value — whatever its layout and however many trailing zeros are
    dropped, reading it gives the same double again (`SigDigitsReadBack 15`) -/
theorem fifteen_digits_survive (neg : Bool) (M : Nat) (E : Int) (hM : 0 < M) (hM15 : M < 10 ^ 15) (bits : Nat)
    (hlt : bits < 2 ^ 64) (h : Dbl.ofDecimal ⟨neg, M, E⟩ = some bits)
    (hnorm : 1 ≤ bits / Dbl.pow2 52 % 2048) (hfin : (bits / Dbl.pow2 52 % 2048 == 2047) = false) :
    SigDigitsReadBack 15 bits := by
  have hnz : (bits / Dbl.pow2 52 % 2048 == 0 && bits % Dbl.pow2 52 == 0) = false := by
    have : ¬ bits / Dbl.pow2 52 % 2048 = 0 := by omega
    simp [this]
  obtain ⟨hm0, hm53, he1, he2, hsub, henc⟩ := mant_exp_facts bits hlt hfin hnz
  -- normal: the significand has its leading bit
  have hm52 : 2 ^ 52 ≤ mantOf bits := by
    unfold mantOf
    have : ¬ (bits / Dbl.pow2 52 % 2048 == 0) = true := by simp; omega
    rw [if_neg this]; unfold Dbl.pow2; omega
  -- the original presentation passes the guards
  have hM0 : (M == 0) = false := by simp; omega
  have g1 : ¬ E > 310 := by
    intro hc
    unfold Dbl.ofDecimal at h
    simp only [hM0, Bool.false_eq_true, if_false, hc, if_true] at h
    cases h
  have g2 : ¬ ((Nat.toDigits 10 M).length : Int) + E < -330 := by
    intro hc
    unfold Dbl.ofDecimal at h
    simp only [hM0, Bool.false_eq_true, if_false, g1, hc, if_true] at h
    have hb : bits = 0 + (if neg = true then Dbl.signBit else 0) := by rw [Nat.zero_add]; exact (Option.some.inj h).symm
    have := enc_small bits 0 neg (by decide) hb
    have hnorm' : 1 ≤ bits / 2 ^ 52 % 2048 := hnorm
    omega
  -- nearest double: (m, e) are the significand and exponent of `bits`, the sign is the decimal's
  rcases ofDecimal_nearest ⟨neg, M, E⟩ hM bits h with ⟨hb, _⟩ | ⟨m, e, a1, a2, a3, a4, a5, a6, a7⟩
  · exfalso
    simp only at hb
    have hb' : bits = 0 + (if neg = true then Dbl.signBit else 0) := by rw [Nat.zero_add]; exact hb
    have := enc_small bits 0 neg (by decide) hb'
    have hnorm' : 1 ≤ bits / 2 ^ 52 % 2048 := hnorm
    omega
  simp only at a5 a6 a7
  have hmge : ¬ m < 2 ^ 52 := by
    intro hc
    rw [if_pos hc] at a5
    have hnorm' : 1 ≤ bits / 2 ^ 52 % 2048 := hnorm
    have := enc_small bits m neg hc a5
    omega
  rw [if_neg hmge] at a5
  have hdec := enc_decode bits m (e + 1075).toNat neg (by omega) a3 (by omega) a5
  have hid : mantOf bits = m ∧ expOf bits = e ∧ (bits / Dbl.signBit % 2 == 1) = neg := by
    obtain ⟨d1, d2, d3⟩ := hdec
    have hbe0 : ¬ (bits / Dbl.pow2 52 % 2048 == 0) = true := by
      have : bits / Dbl.pow2 52 % 2048 = (e + 1075).toNat := d1
      simp [this]; omega
    unfold mantOf expOf
    rw [if_neg hbe0, if_neg hbe0]
    refine ⟨?_, ?_, d3⟩
    · show bits % 2 ^ 52 + 2 ^ 52 = m
      omega
    · show ((bits / 2 ^ 52 % 2048 : Nat) : Int) - 1075 = e
      rw [d1]; omega
  obtain ⟨hid1, hid2, hid3⟩ := hid
  intro M' k hq
  rw [hid1, hid2] at hq ⊢
  rw [hid3]
  rw [hid1] at hm0 hm53 hm52
  rw [hid2] at he1 he2
  have hz := zp_pos 2 (by decide) e
  unfold finSig at hq ⊢
  have hnpos : 0 < (if e ≥ 0 then m * Dbl.pow2 e.toNat else m) := by
    split
    · exact Nat.mul_pos hm0 (Nat.pow_pos (by decide))
    · exact hm0
  have hdpos : 0 < (if e ≥ 0 then 1 else Dbl.pow2 (-e).toNat) := by
    split
    · decide
    · exact Nat.pow_pos (by decide)
  have hv : (m : Rat) * zp 2 e * (((if e ≥ 0 then 1 else Dbl.pow2 (-e).toNat) : Nat) : Rat) =
      (((if e ≥ 0 then m * Dbl.pow2 e.toNat else m) : Nat) : Rat) := by
    by_cases h0 : e ≥ 0
    · simp only [h0, if_true]
      rw [zp_toNat 2 e h0]; unfold Dbl.pow2; push_cast; grind
    · simp only [h0, if_false]
      have := zp_neg_toNat 2 (by decide) e h0
      unfold Dbl.pow2
      calc (m : Rat) * zp 2 e * ((2 ^ (-e).toNat : Nat) : Rat) = (m : Rat) * (zp 2 e * ((2 ^ (-e).toNat : Nat) : Rat)) := by grind
        _ = (m : Rat) := by rw [this]; simp
  generalize (if e ≥ 0 then m * Dbl.pow2 e.toNat else m) = n at *
  generalize (if e ≥ 0 then 1 else Dbl.pow2 (-e).toNat) = d at *
  obtain ⟨x, x1, x2, s1, s2, s3⟩ := sigDigits_spec 15 n d (by decide) hnpos hdpos _ hv
  have hlen := sigDigits_digits 15 n d (by decide) hnpos hdpos
  generalize Dbl.sigDigits 15 n d = r at *
  obtain ⟨q, x'⟩ := r
  simp only at hq s1 s2 s3 hlen ⊢
  have e14 : ((15 : Nat) : Int) - 1 = 14 := by omega
  rw [e14] at s1 s2 ⊢
  -- the value range
  have hmR : (m : Rat) + 1 ≤ 9007199254740992 := by
    have : m + 1 ≤ 9007199254740992 := by omega
    exact_mod_cast this
  have hm1 : (1 : Rat) ≤ (m : Rat) := by exact_mod_cast hm0
  have hmP : (4503599627370496 : Rat) ≤ (m : Rat) := by
    have : 4503599627370496 ≤ m := by omega
    exact_mod_cast this
  have hvlt : (m : Rat) * zp 2 e < zp 2 1024 := by
    have a := zp2_971_1024 e he2
    have b := Rat.mul_le_mul_of_nonneg_left hmR (Rat.le_of_lt hz)
    grind
  have hvge : zp 10 (-324) ≤ (m : Rat) * zp 2 e := by
    have a := zp10_neg324_le
    have b := zp_mono 2 (by decide) (-1074) e he1
    have c := Rat.mul_le_mul_of_nonneg_left hm1 (Rat.le_of_lt hz)
    grind
  have hx309 : x < 309 := zp_lt_imp 10 (by decide) _ _ (by have := zp2_1024_lt; grind)
  have hx324 : -324 < x + 1 := zp_lt_imp 10 (by decide) _ _ (by grind)
  -- the digits
  have hq0 : 0 < q := by
    by_cases h : q = 0
    · rw [h] at hlen; exact absurd hlen (by decide)
    · omega
  obtain ⟨qb1, qb2, _⟩ := digits_bounds q hq0
  rw [hlen] at qb1 qb2
  have hMpos : 0 < M' := by
    by_cases h : M' = 0
    · rw [h] at hq; simp at hq; omega
    · omega
  have hk15 : k < 15 := by
    by_cases h : k < 15
    · exact h
    · exfalso
      have h1 : 10 ^ 15 ≤ 10 ^ k := Nat.pow_le_pow_right (by decide) (by omega)
      have h2 : 10 ^ k ≤ M' * 10 ^ k := Nat.le_mul_of_pos_left _ hMpos
      omega
  obtain ⟨mb1, mb2, mb3⟩ := digits_bounds M' hMpos
  have hnd : 15 ≤ (Nat.toDigits 10 M').length + k := by
    by_cases h : 15 ≤ (Nat.toDigits 10 M').length + k
    · exact h
    · exfalso
      have h1 : 10 ^ ((Nat.toDigits 10 M').length + k) ≤ 10 ^ 14 := Nat.pow_le_pow_right (by decide) (by omega)
      have h2 : M' * 10 ^ k < 10 ^ (Nat.toDigits 10 M').length * 10 ^ k := Nat.mul_lt_mul_of_pos_right mb2 (Nat.pow_pos (by decide))
      rw [← Nat.pow_add] at h2
      have : (15 : Nat) - 1 = 14 := rfl
      rw [this] at qb1
      omega
  have hD : (M' : Rat) * zp 10 (x' - 14 + (k : Int)) = (q : Rat) * zp 10 (x' - 14) := by
    rw [zp_add 10 (by decide), zp_nat 10 k, hq]; push_cast; grind
  -- the printed decimal is the original one
  have hu := zp_pos 10 (by decide) (x - 14)
  have hx14 : zp 10 x = 100000000000000 * zp 10 (x - 14) := by
    have : x = 14 + (x - 14) := by omega
    conv => lhs; rw [this]
    rw [zp_add 10 (by decide), zp10_14]
  have hx15 : zp 10 (x + 1) = 1000000000000000 * zp 10 (x - 14) := by
    have : x + 1 = 15 + (x - 14) := by omega
    rw [this, zp_add 10 (by decide), zp10_15]
  have hw10 : zp 10 (x - 14) = 10 * zp 10 (x - 15) := by
    have : x - 14 = 1 + (x - 15) := by omega
    rw [this, zp_add 10 (by decide), zp10_1]
  have hw := zp_pos 10 (by decide) (x - 15)
  have hPz := Rat.mul_le_mul_of_nonneg_left hmP (Rat.le_of_lt hz)
  have hge : zp 10 x ≤ (M : Rat) * zp 10 E := by
    by_cases hh : zp 10 x ≤ (M : Rat) * zp 10 E
    · exact hh
    · exfalso
      have hh' : (M : Rat) * zp 10 E < zp 10 x := Rat.not_le.mp hh
      have hb := below_decade M E x hM15 hh'
      grind
  obtain ⟨A, hA⟩ := multiple_of_unit M E x hM15 hge
  obtain ⟨B, hB⟩ : ∃ B : Nat, (q : Rat) * zp 10 (x' - 14) = (B : Rat) * zp 10 (x - 14) := by
    rcases s3 with rfl | rfl
    · exact ⟨q, rfl⟩
    · refine ⟨q * 10, ?_⟩
      have : x + 1 - 14 = 1 + (x - 14) := by omega
      rw [this, zp_add 10 (by decide), zp10_1]; push_cast; grind
  have hAB : A = B := by
    apply int_close A B _ hu
    · rw [← hA, ← hB]; grind
    · rw [← hA, ← hB]; grind
  have hval : (M' : Rat) * zp 10 (x' - 14 + (k : Int)) = (M : Rat) * zp 10 E := by
    rw [hD, hB, hA, hAB]
  rw [← h]
  apply ofDecimal_congr neg M' M _ _ hMpos hM hval _ g1 _ g2
  · omega
  · omega

end StepModel.P21.Lemmas

import StepModel.P21.Reader
import StepModel.P21.LexLemmas
/-! Helper lemmas for `Props/C01.lean`: `ReadComment` / `ReadTokenSeparator` on every layout of blanks and comments. -/
namespace StepModel.P21.RLemmas
open StepModel StepModel.IStream StepModel.P21 StepModel.P21.Lemmas

/-- a good stream with nothing pending -/
abbrev G (l r : List Byte) (sk : Bool) : IStream :=
  { left := l, right := r, eof := false, fail := false, bad := false, skipws := sk }

/-- `*/` does not occur in the text -/
def NoClose : List Byte → Prop
  | [] => True
  | [_] => True
  | a :: b :: t => ¬(a = 42 ∧ b = 47) ∧ NoClose (b :: t)

instance NoClose.dec : (l : List Byte) → Decidable (NoClose l)
  | [] => isTrue trivial
  | [_] => isTrue trivial
  | a :: b :: t => by
    unfold NoClose
    exact @instDecidableAnd _ _ _ (NoClose.dec (b :: t))

theorem NoClose.tail {a : Byte} {t : List Byte} (h : NoClose (a :: t)) : NoClose t := by
  cases t with
  | nil => trivial
  | cons b t => exact h.2

theorem cmtBody_step (l : List Byte) (c : Byte) (r : List Byte) (h : ¬(c = 42 ∧ r.head? = some 47)) :
    cmtBody l (c :: r) = cmtBody (c :: l) r := by
  unfold cmtBody
  split
  · rename_i heq
    simp only [List.cons.injEq] at heq
    obtain ⟨rfl, rfl⟩ := heq
    exact absurd ⟨rfl, rfl⟩ h
  · rename_i heq
    simp only [List.cons.injEq] at heq
    obtain ⟨rfl, rfl⟩ := heq
    exact cmtBody.eq_def _ _
  · rename_i heq; cases heq

/-- the body scan of `ReadComment` ends exactly at the first `*/` -/
theorem cmtBody_spec (body : List Byte) (hb : NoClose body) (l rest : List Byte) :
    cmtBody l (body ++ 42 :: 47 :: rest) = some (47 :: 42 :: (body.reverse ++ l), rest) := by
  induction body generalizing l with
  | nil => simp [cmtBody]
  | cons a t ih =>
    have ht := hb.tail
    have hstep : ¬(a = 42 ∧ (t ++ 42 :: 47 :: rest).head? = some 47) := by
      cases t with
      | nil => simp
      | cons b t' =>
        intro ⟨h1, h2⟩
        simp at h2
        exact hb.1 ⟨h1, h2⟩
    simp only [List.cons_append]
    rw [cmtBody_step _ _ _ hstep, ih ht]
    simp

theorem cmtBody_blanks (sp : List Byte) (hsp : sp.all isSpace = true) (l r : List Byte) :
    cmtBody l (sp ++ r) = cmtBody (sp.reverse ++ l) r := by
  induction sp generalizing l with
  | nil => rfl
  | cons a t ih =>
    simp only [List.all_cons, Bool.and_eq_true] at hsp
    have ha : ¬(a = 42 ∧ (t ++ r).head? = some 47) := by
      intro ⟨h, _⟩; subst h; exact absurd hsp.1 (by decide)
    simp only [List.cons_append]
    rw [cmtBody_step _ _ _ ha, ih hsp.2]
    simp

theorem shiftInto_good (x : Byte) (l : List Byte) (c : Byte) (t : List Byte) (sk : Bool) (hc : isSpace c = false) :
    shiftInto x (G l (c :: t) sk) = (c, G (c :: l) t sk) := by
  cases sk <;>
    simp [shiftInto, IStream.getChar, IStream.sentry, IStream.good, dropSpaces_nonspace _ _ _ hc]

/-- `ReadComment` on blanks followed by a complete comment: everything up to and including `*/` is consumed and the
    stream stays good -/
theorem readComment_comment (l sp body rest : List Byte) (sk : Bool) (hsp : sp.all isSpace = true) (hb : NoClose body) :
    readComment (G l (sp ++ 47 :: 42 :: (body ++ 42 :: 47 :: rest)) sk) =
      G (47 :: 42 :: (body.reverse ++ 42 :: 47 :: (sp.reverse ++ l))) rest sk := by
  unfold readComment
  rw [show (G l (sp ++ 47 :: 42 :: (body ++ 42 :: 47 :: rest)) sk).ws = G (sp.reverse ++ l) (47 :: 42 :: (body ++ 42 :: 47 :: rest)) sk
    from ws_good l sp 47 _ sk hsp (by decide)]
  dsimp only
  rw [shiftInto_good 0 _ 47 _ sk (by decide)]
  dsimp only
  simp only [beq_self_eq_true, if_true]
  rw [show getInto 47 (G (47 :: (sp.reverse ++ l)) (42 :: (body ++ 42 :: 47 :: rest)) sk) =
      (42, G (42 :: 47 :: (sp.reverse ++ l)) (body ++ 42 :: 47 :: rest) sk) from getInto_good 47 _ 42 _ sk]
  dsimp only
  simp only [beq_self_eq_true, if_true]
  -- the `in >> ws` after `/*`
  obtain ⟨sp2, rest2, h1, h2, _, h4⟩ := dropSpaces_split ([] : List Byte) (body ++ 42 :: 47 :: rest)
  rcases h4 with rfl | ⟨c, t, rfl, hc⟩
  · -- impossible: the text contains `*`
    exfalso
    have : (42 : Byte) ∈ sp2 := by
      have : (42 : Byte) ∈ body ++ 42 :: 47 :: rest := by simp
      rw [h1] at this; simpa using this
    have := List.all_eq_true.mp h2 42 this
    exact absurd this (by decide)
  · rw [h1]
    rw [show (G (42 :: 47 :: (sp.reverse ++ l)) (sp2 ++ c :: t) sk).ws = G (sp2.reverse ++ 42 :: 47 :: (sp.reverse ++ l)) (c :: t) sk
      from ws_good _ sp2 c t sk h2 hc]
    have hgood : (G (sp2.reverse ++ 42 :: 47 :: (sp.reverse ++ l)) (c :: t) sk).good = true := rfl
    simp only [hgood, if_true, beq_self_eq_true]
    have hcb : cmtBody (sp2.reverse ++ 42 :: 47 :: (sp.reverse ++ l)) (c :: t) =
        some (47 :: 42 :: (body.reverse ++ 42 :: 47 :: (sp.reverse ++ l)), rest) := by
      rw [← cmtBody_blanks sp2 h2, ← h1]
      exact cmtBody_spec body hb _ rest
    show (match cmtBody (sp2.reverse ++ 42 :: 47 :: (sp.reverse ++ l)) (c :: t) with
      | some (l', r') => ({ G (sp2.reverse ++ 42 :: 47 :: (sp.reverse ++ l)) (c :: t) sk with left := l', right := r' } : IStream)
      | none => _) = _
    rw [hcb]

/-- token separators of Part 21: blanks and comments, in any number and order -/
inductive Seps : List Byte → Prop where
  | blanks (sp : List Byte) (hsp : sp.all isSpace = true) : Seps sp
  | comment (sp body t : List Byte) (hsp : sp.all isSpace = true) (hb : NoClose body) (ht : Seps t) :
      Seps (sp ++ 47 :: 42 :: (body ++ 42 :: 47 :: t))

theorem rtsAux_seps (seps : List Byte) (hs : Seps seps) :
    ∀ (fuel : Nat) (l : List Byte) (c : Byte) (rest : List Byte) (sk : Bool),
      seps.length + 1 ≤ fuel → isSpace c = false → c ≠ 47 → c ≠ 92 →
      readTokenSeparatorAux fuel (G l (seps ++ c :: rest) sk) = G (seps.reverse ++ l) (c :: rest) sk := by
  induction hs with
  | blanks sp hsp =>
    intro fuel l c rest sk hf hc h47 h92
    cases fuel with
    | zero => omega
    | succ n =>
      unfold readTokenSeparatorAux
      have hfail : (G l (sp ++ c :: rest) sk).failed = false := rfl
      simp only [hfail, Bool.false_eq_true, if_false]
      rw [show (G l (sp ++ c :: rest) sk).ws = G (sp.reverse ++ l) (c :: rest) sk from ws_good l sp c rest sk hsp hc]
      rw [show (G (sp.reverse ++ l) (c :: rest) sk).peekC = (c, G (sp.reverse ++ l) (c :: rest) sk) from peekC_good _ c rest sk]
      dsimp only
      have : (c == 47) = false := by simpa using h47
      have h92' : (c == 92) = false := by simpa using h92
      simp [this, h92']
  | comment sp body t hsp hb ht ih =>
    intro fuel l c rest sk hf hc h47 h92
    cases fuel with
    | zero => omega
    | succ n =>
      unfold readTokenSeparatorAux
      have hfail : (G l ((sp ++ 47 :: 42 :: (body ++ 42 :: 47 :: t)) ++ c :: rest) sk).failed = false := rfl
      simp only [hfail, Bool.false_eq_true, if_false]
      have e1 : (sp ++ 47 :: 42 :: (body ++ 42 :: 47 :: t)) ++ c :: rest = sp ++ 47 :: 42 :: (body ++ 42 :: 47 :: (t ++ c :: rest)) := by simp
      rw [e1]
      rw [show (G l (sp ++ 47 :: 42 :: (body ++ 42 :: 47 :: (t ++ c :: rest))) sk).ws =
          G (sp.reverse ++ l) (47 :: 42 :: (body ++ 42 :: 47 :: (t ++ c :: rest))) sk from ws_good l sp 47 _ sk hsp (by decide)]
      rw [show (G (sp.reverse ++ l) (47 :: 42 :: (body ++ 42 :: 47 :: (t ++ c :: rest))) sk).peekC =
          (47, G (sp.reverse ++ l) (47 :: 42 :: (body ++ 42 :: 47 :: (t ++ c :: rest))) sk) from peekC_good _ 47 _ sk]
      dsimp only
      simp only [beq_self_eq_true, if_true]
      have hrc := readComment_comment (sp.reverse ++ l) [] body (t ++ c :: rest) sk (by simp) hb
      simp only [List.nil_append, List.reverse_nil] at hrc
      rw [hrc]
      have hlen : t.length + 1 ≤ n := by
        simp only [List.length_append, List.length_cons] at hf
        omega
      rw [ih n _ c rest sk hlen hc h47 h92]
      simp

/-- **`ReadTokenSeparator` skips every layout**: any sequence of blanks and complete comments in front of a token is
    consumed, the stream is positioned at the token and stays good (all layouts, all positions in the file) -/
theorem readTokenSeparator_seps (seps : List Byte) (hs : Seps seps) (l : List Byte) (c : Byte) (rest : List Byte) (sk : Bool)
    (hc : isSpace c = false) (h47 : c ≠ 47) (h92 : c ≠ 92 := by decide) :
    readTokenSeparator (G l (seps ++ c :: rest) sk) = G (seps.reverse ++ l) (c :: rest) sk := by
  unfold readTokenSeparator
  have : (G l (seps ++ c :: rest) sk).eof = false := rfl
  simp only [this, Bool.false_eq_true, if_false]
  apply rtsAux_seps seps hs
  · simp only [List.length_append, List.length_cons]; omega
  · exact hc
  · exact h47
  · exact h92

/-! ### `CheckRemainingInput` (repaired: skips comments) over every layout -/

theorem NoClose.cons0 {body : List Byte} (h : NoClose body) (p : Byte) (hp : p ≠ 42) : NoClose (p :: body) := by
  cases body with
  | nil => trivial
  | cons a t => exact ⟨fun ⟨h1, _⟩ => hp h1, h⟩

/-- `commentBody` of `P21.Lex` (the scan of the repaired `SkipTokenSeparators`) ends at the first `*/` -/
theorem commentBody_spec (body : List Byte) (p : Byte) (hb : NoClose (p :: body)) (l rest : List Byte) :
    commentBody p l (body ++ 42 :: 47 :: rest) = some (47 :: 42 :: (body.reverse ++ l), rest) := by
  induction body generalizing p l with
  | nil =>
    have h1 : (p == 42 && (42 : Byte) == 47) = false := by simp
    simp [commentBody, h1]
  | cons a t ih =>
    have hpa : (p == 42 && a == 47) = false := by
      have := hb.1
      cases h1 : p == 42 <;> cases h2 : a == 47 <;> simp_all
    simp only [List.cons_append, commentBody, hpa, Bool.false_eq_true, if_false]
    rw [ih a hb.2]
    simp

theorem skipSeps_seps (seps : List Byte) (hs : Seps seps) :
    ∀ (n : Nat) (l : List Byte) (d : Byte) (rest : List Byte), seps.length + 1 ≤ n → isSpace d = false → d ≠ 47 →
      skipSeps n l (seps ++ d :: rest) = (seps.reverse ++ l, d :: rest, false, false) := by
  induction hs with
  | blanks sp hsp =>
    intro n l d rest hn hd h47
    cases n with
    | zero => omega
    | succ n =>
      have hds : dropSpaces l (sp ++ d :: rest) = (sp.reverse ++ l, d :: rest) := by
        rw [dropSpaces_append _ _ _ hsp, dropSpaces_nonspace _ _ _ hd]
      simp only [skipSeps, hds]
      split
      · rename_i heq; cases heq
      · rename_i heq; simp at heq; exact absurd heq.1 h47
      · rfl
  | comment sp body t hsp hb ht ih =>
    intro n l d rest hn hd h47
    cases n with
    | zero => omega
    | succ n =>
      have e1 : (sp ++ 47 :: 42 :: (body ++ 42 :: 47 :: t)) ++ d :: rest = sp ++ 47 :: 42 :: (body ++ 42 :: 47 :: (t ++ d :: rest)) := by simp
      have hds : dropSpaces l (sp ++ 47 :: 42 :: (body ++ 42 :: 47 :: (t ++ d :: rest))) =
          (sp.reverse ++ l, 47 :: 42 :: (body ++ 42 :: 47 :: (t ++ d :: rest))) := by
        rw [dropSpaces_append _ _ _ hsp, dropSpaces_nonspace _ _ _ (by decide)]
      rw [e1]
      simp only [skipSeps, hds]
      rw [commentBody_spec body 0 (hb.cons0 0 (by decide)) _ _]
      have hlen : t.length + 1 ≤ n := by
        simp only [List.length_append, List.length_cons] at hn
        omega
      simp only
      rw [ih n _ d rest hlen hd h47]
      simp

/-- the repaired `CheckRemainingInput` after a value: every layout of blanks and comments up to the delimiter is
    skipped, nothing is reported, the stream rests at the delimiter with its flags clear -/
theorem cri_seps (cfg : LexCfg) (hcfg : cfg.criSkipsComments = true) (seps : List Byte) (hs : Seps seps)
    (l rest : List Byte) (d : Byte) (f sk : Bool) (e : Sev) (hd : d = 44 ∨ d = 41) :
    checkRemainingInput cfg (some attrDelims)
        { left := l, right := seps ++ d :: rest, eof := false, fail := f, bad := false, skipws := sk } e
      = (G (seps.reverse ++ l) (d :: rest) sk, e) := by
  have hdn : isSpace d = false := by rcases hd with rfl | rfl <;> decide
  have hd47 : d ≠ 47 := by rcases hd with rfl | rfl <;> decide
  have hdd : isDelim attrDelims d = true := by rcases hd with rfl | rfl <;> decide
  have hsk := skipSeps_seps seps hs ((seps ++ d :: rest).length + 1) l d rest
    (by simp only [List.length_append, List.length_cons]; omega) hdn hd47
  simp only [checkRemainingInput, IStream.clear, Bool.false_eq_true, if_false, sepSkip, hcfg, if_true, hsk]
  rw [show IStream.peekC { left := seps.reverse ++ l, right := d :: rest, eof := false, fail := false, bad := false, skipws := sk } =
    (d, G (seps.reverse ++ l) (d :: rest) sk) from peekC_good _ d rest sk]
  simp [hdd]

end StepModel.P21.RLemmas

import StepModel.P21.FloatFifteen
/-! How many decimal digits survive, per significand (C09, proof-only stretch): `fifteen_digits_survive` generalised to any
precision `p` and any finite non-zero double — subnormals included — whose significand `m` is at least `10^p`:
a decimal of at most `p` significant digits that is converted to that double is printed by `%.<p>G` with the same value and
reads back to the same double.  For a normal double `m ≥ 2^52 > 10^15` gives DBL_DIG = 15; for a subnormal with `b`
significant bits (`2^(b−1) ≤ m`) every `p` with `10^p ≤ 2^(b−1)` digits survive. -/
namespace StepModel.P21.Lemmas
open StepModel

theorem tenpow_cast_pos (p : Nat) : (0 : Rat) < ((10 ^ p : Nat) : Rat) := natCast_pow_pos 10 p (by decide)

theorem one_le_tenpow (p : Nat) : (1 : Rat) ≤ ((10 ^ p : Nat) : Rat) := by
  have : 1 ≤ 10 ^ p := Nat.pow_pos (by decide)
  exact_mod_cast this

/-- a decimal `M · 10^E` with `M < 10^p` that is at least `10^x` is an integer multiple of `10^(x−(p−1))` -/
theorem multiple_of_unit_p (p M : Nat) (E x : Int) (hMp : M < 10 ^ p) (hge : zp 10 x ≤ (M : Rat) * zp 10 E) :
    ∃ A : Nat, (M : Rat) * zp 10 E = (A : Rat) * zp 10 (x - ((p : Int) - 1)) := by
  have hzE := zp_pos 10 (by decide) E
  have hlt : (M : Rat) < ((10 ^ p : Nat) : Rat) := by exact_mod_cast hMp
  have h1 := Rat.mul_lt_mul_of_pos_left hlt hzE
  have h2 : zp 10 x < zp 10 ((p : Int) + E) := by rw [zp_add 10 (by decide), zp_nat 10 p]; grind
  have hE : x < (p : Int) + E := zp_lt_imp 10 (by decide) _ _ h2
  refine ⟨M * 10 ^ (E - (x - ((p : Int) - 1))).toNat, ?_⟩
  have e : E = (E - (x - ((p : Int) - 1))) + (x - ((p : Int) - 1)) := by omega
  conv => lhs; rw [e, zp_add 10 (by decide), zp_toNat 10 _ (show E - (x - ((p : Int) - 1)) ≥ 0 by omega)]
  push_cast; grind

/-- a decimal of at most `p` digits below `10^x` is at least `10^(x−p)` below it -/
theorem below_decade_p (p M : Nat) (E x : Int) (hMp : M < 10 ^ p) (hlt : (M : Rat) * zp 10 E < zp 10 x) :
    (M : Rat) * zp 10 E + zp 10 (x - (p : Int)) ≤ zp 10 x := by
  have hw := zp_pos 10 (by decide) (x - (p : Int))
  have hT := tenpow_cast_pos p
  have h1T := one_le_tenpow p
  have hx : zp 10 x = ((10 ^ p : Nat) : Rat) * zp 10 (x - (p : Int)) := by
    have : x = (p : Int) + (x - (p : Int)) := by omega
    conv => lhs; rw [this]
    rw [zp_add 10 (by decide), zp_nat 10 p]
  by_cases hE : E ≥ x - (p : Int)
  · have e : E = (E - (x - (p : Int))) + (x - (p : Int)) := by omega
    have hd : (M : Rat) * zp 10 E = ((M * 10 ^ (E - (x - (p : Int))).toNat : Nat) : Rat) * zp 10 (x - (p : Int)) := by
      conv => lhs; rw [e, zp_add 10 (by decide), zp_toNat 10 _ (show E - (x - (p : Int)) ≥ 0 by omega)]
      push_cast; grind
    rw [hd, hx] at hlt
    rw [hd, hx]
    generalize M * 10 ^ (E - (x - (p : Int))).toNat = A at *
    have hA : (A : Rat) < ((10 ^ p : Nat) : Rat) := by
      by_cases hh : (A : Rat) < ((10 ^ p : Nat) : Rat)
      · exact hh
      · exfalso
        have hh' : ((10 ^ p : Nat) : Rat) ≤ (A : Rat) := Rat.not_lt.mp hh
        have := Rat.mul_le_mul_of_nonneg_left hh' (Rat.le_of_lt hw)
        grind
    have hA' : A + 1 ≤ 10 ^ p := by
      have : A < 10 ^ p := by exact_mod_cast hA
      omega
    have hA'' : (A : Rat) + 1 ≤ ((10 ^ p : Nat) : Rat) := by exact_mod_cast hA'
    have := Rat.mul_le_mul_of_nonneg_left hA'' (Rat.le_of_lt hw)
    grind
  · have ht := zp_pos 10 (by decide) (x - (p : Int) - 1)
    have hmono := zp_mono 10 (by decide) E (x - (p : Int) - 1) (by omega)
    have hw10 : zp 10 (x - (p : Int)) = 10 * zp 10 (x - (p : Int) - 1) := by
      have : x - (p : Int) = 1 + (x - (p : Int) - 1) := by omega
      conv => lhs; rw [this]
      rw [zp_add 10 (by decide), zp10_1]
    have hMle : (M : Rat) + 1 ≤ ((10 ^ p : Nat) : Rat) := by
      have : M + 1 ≤ 10 ^ p := by omega
      exact_mod_cast this
    have hM0 : (0 : Rat) ≤ (M : Rat) := by exact_mod_cast Nat.zero_le M
    have p1 := Rat.mul_le_mul_of_nonneg_left hmono hM0
    have p2 := Rat.mul_le_mul_of_nonneg_left hMle (Rat.le_of_lt ht)
    have p3 := Rat.mul_le_mul_of_nonneg_left h1T (Rat.le_of_lt ht)
    rw [hx, hw10]
    grind

theorem dec_sub_pos (bits m : Nat) (hm : m < 2 ^ 52) (a5 : bits = m) :
    bits / 2 ^ 52 % 2048 = 0 ∧ bits % 2 ^ 52 = m ∧ bits / 2 ^ 63 % 2 = 0 := ⟨by omega, by omega, by omega⟩
theorem dec_sub_neg (bits m : Nat) (hm : m < 2 ^ 52) (a5 : bits = m + 2 ^ 63) :
    bits / 2 ^ 52 % 2048 = 0 ∧ bits % 2 ^ 52 = m ∧ bits / 2 ^ 63 % 2 = 1 := ⟨by omega, by omega, by omega⟩
theorem enc_decode_sub (bits m : Nat) (neg : Bool) (hm : m < 2 ^ 52)
    (a5 : bits = m + (if neg = true then Dbl.signBit else 0)) :
    bits / 2 ^ 52 % 2048 = 0 ∧ bits % 2 ^ 52 = m ∧ (bits / 2 ^ 63 % 2 == 1) = neg := by
  cases neg
  · simp only [Bool.false_eq_true, if_false] at a5
    rw [Nat.add_zero] at a5
    obtain ⟨x, y, z⟩ := dec_sub_pos bits m hm a5
    exact ⟨x, y, by rw [z]; rfl⟩
  · simp only [if_true] at a5
    unfold Dbl.signBit at a5
    obtain ⟨x, y, z⟩ := dec_sub_neg bits m hm a5
    exact ⟨x, y, by rw [z]; rfl⟩

/-- what `Dbl.ofDecimal` returns, read as significand, exponent and sign of the bit pattern (finite, non-zero) -/
theorem nearest_ident (neg : Bool) (M : Nat) (E : Int) (hM : 0 < M) (bits : Nat)
    (h : Dbl.ofDecimal ⟨neg, M, E⟩ = some bits)
    (hnz : (bits / Dbl.pow2 52 % 2048 == 0 && bits % Dbl.pow2 52 == 0) = false) :
    (bits / Dbl.signBit % 2 == 1) = neg ∧
    2 * ((M : Rat) * zp 10 E) ≤ (2 * (mantOf bits : Rat) + 1) * zp 2 (expOf bits) ∧
    (2 * (mantOf bits : Rat) - 1) * zp 2 (expOf bits) ≤ 2 * ((M : Rat) * zp 10 E) := by
  rcases ofDecimal_nearest ⟨neg, M, E⟩ hM bits h with ⟨hb, _⟩ | ⟨m, e, a1, a2, a3, a4, a5, a6, a7⟩
  · exfalso
    simp only at hb
    have hb' : bits = 0 + (if neg = true then Dbl.signBit else 0) := by rw [Nat.zero_add]; exact hb
    obtain ⟨x, y, _⟩ := enc_decode_sub bits 0 neg (by decide) hb'
    have x' : bits / Dbl.pow2 52 % 2048 = 0 := x
    have y' : bits % Dbl.pow2 52 = 0 := y
    simp [x', y'] at hnz
  · simp only at a5 a6 a7
    by_cases hsub : m < 2 ^ 52
    · rw [if_pos hsub] at a5
      obtain ⟨x, y, z⟩ := enc_decode_sub bits m neg hsub a5
      have hbe : (bits / Dbl.pow2 52 % 2048 == 0) = true := by
        have : bits / Dbl.pow2 52 % 2048 = 0 := x
        simp [this]
      have hmo : mantOf bits = m := by unfold mantOf; rw [if_pos hbe]; exact y
      have heo : expOf bits = e := by unfold expOf; rw [if_pos hbe]; exact (a4 hsub).symm
      rw [hmo, heo]
      exact ⟨z, a6, a7⟩
    · rw [if_neg hsub] at a5
      obtain ⟨x, y, z⟩ := enc_decode bits m (e + 1075).toNat neg (by omega) a3 (by omega) a5
      have hbe : ¬ (bits / Dbl.pow2 52 % 2048 == 0) = true := by
        have : bits / Dbl.pow2 52 % 2048 = (e + 1075).toNat := x
        simp [this]; omega
      have hmo : mantOf bits = m := by
        unfold mantOf; rw [if_neg hbe]
        show bits % 2 ^ 52 + 2 ^ 52 = m
        omega
      have heo : expOf bits = e := by
        unfold expOf; rw [if_neg hbe]
        show ((bits / 2 ^ 52 % 2048 : Nat) : Int) - 1075 = e
        rw [x]; omega
      rw [hmo, heo]
      exact ⟨z, a6, a7⟩

/-- **how many digits survive**: a decimal of at most `p` significant digits (`M < 10^p`) converted to a finite non-zero double
    whose significand is at least `10^p` — every normal double for `p ≤ 15`, a subnormal with enough significant bits for smaller
    `p` — is printed by `%.<p>G` as a decimal of the same value; reading that back gives the same double (`SigDigitsReadBack p`) -/
theorem digits_survive_value (p : Nat) (hp : 1 ≤ p) (neg : Bool) (M : Nat) (E : Int) (hM : 0 < M) (hMp : M < 10 ^ p) (bits : Nat)
    (hlt : bits < 2 ^ 64) (h : Dbl.ofDecimal ⟨neg, M, E⟩ = some bits)
    (hfin : (bits / Dbl.pow2 52 % 2048 == 2047) = false)
    (hnz : (bits / Dbl.pow2 52 % 2048 == 0 && bits % Dbl.pow2 52 == 0) = false)
    (hmp : 10 ^ p ≤ mantOf bits) :
    ∀ M' k : Nat, (finSig p (mantOf bits) (expOf bits)).1 = M' * 10 ^ k →
      (M' : Rat) * zp 10 ((finSig p (mantOf bits) (expOf bits)).2 - ((p : Int) - 1) + (k : Int)) = (M : Rat) * zp 10 E ∧
      Dbl.ofDecimal ⟨bits / Dbl.signBit % 2 == 1, M', (finSig p (mantOf bits) (expOf bits)).2 - ((p : Int) - 1) + (k : Int)⟩ = some bits := by
  obtain ⟨hm0, hm53, he1, he2, hsub, henc⟩ := mant_exp_facts bits hlt hfin hnz
  obtain ⟨hsg, a6, a7⟩ := nearest_ident neg M E hM bits h hnz
  -- the original presentation passes the guards
  have hM0 : (M == 0) = false := by simp; omega
  have g1 : ¬ E > 310 := by
    intro hc
    unfold Dbl.ofDecimal at h
    simp only [hM0, Bool.false_eq_true, if_false, hc, if_true] at h
    cases h
  have g2 : ¬ ((Nat.toDigits 10 M).length : Int) + E < -330 := by
    intro hc
    unfold Dbl.ofDecimal at h
    simp only [hM0, Bool.false_eq_true, if_false, g1, hc, if_true] at h
    have hb : bits = 0 + (if neg = true then Dbl.signBit else 0) := by rw [Nat.zero_add]; exact (Option.some.inj h).symm
    obtain ⟨x, y, _⟩ := enc_decode_sub bits 0 neg (by decide) hb
    have x' : bits / Dbl.pow2 52 % 2048 = 0 := x
    have y' : bits % Dbl.pow2 52 = 0 := y
    simp [x', y'] at hnz
  intro M' k hq
  rw [hsg]
  generalize mantOf bits = m at *
  generalize expOf bits = e at *
  have hz := zp_pos 2 (by decide) e
  unfold finSig at hq ⊢
  have hnpos : 0 < (if e ≥ 0 then m * Dbl.pow2 e.toNat else m) := by
    split
    · exact Nat.mul_pos hm0 (Nat.pow_pos (by decide))
    · exact hm0
  have hdpos : 0 < (if e ≥ 0 then 1 else Dbl.pow2 (-e).toNat) := by
    split
    · decide
    · exact Nat.pow_pos (by decide)
  have hv : (m : Rat) * zp 2 e * (((if e ≥ 0 then 1 else Dbl.pow2 (-e).toNat) : Nat) : Rat) =
      (((if e ≥ 0 then m * Dbl.pow2 e.toNat else m) : Nat) : Rat) := by
    by_cases h0 : e ≥ 0
    · simp only [h0, if_true]
      rw [zp_toNat 2 e h0]; unfold Dbl.pow2; push_cast; grind
    · simp only [h0, if_false]
      have := zp_neg_toNat 2 (by decide) e h0
      unfold Dbl.pow2
      calc (m : Rat) * zp 2 e * ((2 ^ (-e).toNat : Nat) : Rat) = (m : Rat) * (zp 2 e * ((2 ^ (-e).toNat : Nat) : Rat)) := by grind
        _ = (m : Rat) := by rw [this]; simp
  generalize (if e ≥ 0 then m * Dbl.pow2 e.toNat else m) = n at *
  generalize (if e ≥ 0 then 1 else Dbl.pow2 (-e).toNat) = d at *
  obtain ⟨x, x1, x2, s1, s2, s3⟩ := sigDigits_spec p n d hp hnpos hdpos _ hv
  have hlen := sigDigits_digits p n d hp hnpos hdpos
  generalize Dbl.sigDigits p n d = r at *
  obtain ⟨q, x'⟩ := r
  simp only at hq s1 s2 s3 hlen ⊢
  -- the value range
  have hmR : (m : Rat) + 1 ≤ 9007199254740992 := by
    have : m + 1 ≤ 9007199254740992 := by omega
    exact_mod_cast this
  have hm1 : (1 : Rat) ≤ (m : Rat) := by exact_mod_cast hm0
  have hvlt : (m : Rat) * zp 2 e < zp 2 1024 := by
    have a := zp2_971_1024 e he2
    have b := Rat.mul_le_mul_of_nonneg_left hmR (Rat.le_of_lt hz)
    grind
  have hvge : zp 10 (-324) ≤ (m : Rat) * zp 2 e := by
    have a := zp10_neg324_le
    have b := zp_mono 2 (by decide) (-1074) e he1
    have c := Rat.mul_le_mul_of_nonneg_left hm1 (Rat.le_of_lt hz)
    grind
  have hx309 : x < 309 := zp_lt_imp 10 (by decide) _ _ (by have := zp2_1024_lt; grind)
  have hx324 : -324 < x + 1 := zp_lt_imp 10 (by decide) _ _ (by grind)
  -- the digits
  have hq0 : 0 < q := by
    by_cases hq00 : q = 0
    · exfalso
      rw [hq00] at hlen s2
      have h1 : (Nat.toDigits 10 0).length = 1 := by decide
      rw [h1] at hlen
      have hux : zp 10 (x - ((p : Int) - 1)) = zp 10 x := by
        rw [show x - ((p : Int) - 1) = x by omega]
      rw [hux] at s2
      have hup := zp_pos 10 (by decide) x
      have hz0 : ((0 : Nat) : Rat) = 0 := by simp
      rw [hz0] at s2
      grind
    · omega
  obtain ⟨qb1, qb2, _⟩ := digits_bounds q hq0
  rw [hlen] at qb1 qb2
  have hMpos : 0 < M' := by
    by_cases hh : M' = 0
    · rw [hh] at hq; simp at hq; omega
    · omega
  have hkp : k < p := by
    by_cases hh : k < p
    · exact hh
    · exfalso
      have h1 : 10 ^ p ≤ 10 ^ k := Nat.pow_le_pow_right (by decide) (by omega)
      have h2 : 10 ^ k ≤ M' * 10 ^ k := Nat.le_mul_of_pos_left _ hMpos
      omega
  obtain ⟨mb1, mb2, mb3⟩ := digits_bounds M' hMpos
  have hnd : p ≤ (Nat.toDigits 10 M').length + k := by
    by_cases hh : p ≤ (Nat.toDigits 10 M').length + k
    · exact hh
    · exfalso
      have h1 : 10 ^ ((Nat.toDigits 10 M').length + k) ≤ 10 ^ (p - 1) := Nat.pow_le_pow_right (by decide) (by omega)
      have h2 : M' * 10 ^ k < 10 ^ (Nat.toDigits 10 M').length * 10 ^ k := Nat.mul_lt_mul_of_pos_right mb2 (Nat.pow_pos (by decide))
      rw [← Nat.pow_add] at h2
      omega
  have hD : (M' : Rat) * zp 10 (x' - ((p : Int) - 1) + (k : Int)) = (q : Rat) * zp 10 (x' - ((p : Int) - 1)) := by
    rw [zp_add 10 (by decide), zp_nat 10 k, hq]; push_cast; grind
  -- the printed decimal is the original one
  have hu := zp_pos 10 (by decide) (x - ((p : Int) - 1))
  have hT := tenpow_cast_pos p
  have h1T := one_le_tenpow p
  have hmT : ((10 ^ p : Nat) : Rat) ≤ (m : Rat) := by exact_mod_cast hmp
  have hxp1 : zp 10 (x + 1) = ((10 ^ p : Nat) : Rat) * zp 10 (x - ((p : Int) - 1)) := by
    have : x + 1 = (p : Int) + (x - ((p : Int) - 1)) := by omega
    rw [this, zp_add 10 (by decide), zp_nat 10 p]
  have hxw : zp 10 x = ((10 ^ p : Nat) : Rat) * zp 10 (x - (p : Int)) := by
    have : x = (p : Int) + (x - (p : Int)) := by omega
    conv => lhs; rw [this]
    rw [zp_add 10 (by decide), zp_nat 10 p]
  have hw := zp_pos 10 (by decide) (x - (p : Int))
  have hTz := Rat.mul_le_mul_of_nonneg_left hmT (Rat.le_of_lt hz)
  -- the last place of the double is below the decimal unit
  have hzu : zp 2 e < zp 10 (x - ((p : Int) - 1)) := by
    by_cases hh : zp 2 e < zp 10 (x - ((p : Int) - 1))
    · exact hh
    · exfalso
      have hh' : zp 10 (x - ((p : Int) - 1)) ≤ zp 2 e := Rat.not_lt.mp hh
      have := Rat.mul_le_mul_of_nonneg_left hh' (Rat.le_of_lt hT)
      grind
  have hge : zp 10 x ≤ (M : Rat) * zp 10 E := by
    by_cases hh : zp 10 x ≤ (M : Rat) * zp 10 E
    · exact hh
    · exfalso
      have hh' : (M : Rat) * zp 10 E < zp 10 x := Rat.not_le.mp hh
      have hb := below_decade_p p M E x hMp hh'
      have hzw : (0 : Rat) ≤ zp 2 e - zp 10 (x - (p : Int)) := by grind
      have pf := Rat.mul_le_mul_of_nonneg_left h1T hzw
      grind
  obtain ⟨A, hA⟩ := multiple_of_unit_p p M E x hMp hge
  obtain ⟨B, hB⟩ : ∃ B : Nat, (q : Rat) * zp 10 (x' - ((p : Int) - 1)) = (B : Rat) * zp 10 (x - ((p : Int) - 1)) := by
    rcases s3 with rfl | rfl
    · exact ⟨q, rfl⟩
    · refine ⟨q * 10, ?_⟩
      have : x + 1 - ((p : Int) - 1) = 1 + (x - ((p : Int) - 1)) := by omega
      rw [this, zp_add 10 (by decide), zp10_1]; push_cast; grind
  have hAB : A = B := by
    apply int_close A B _ hu
    · rw [← hA, ← hB]; grind
    · rw [← hA, ← hB]; grind
  have hval : (M' : Rat) * zp 10 (x' - ((p : Int) - 1) + (k : Int)) = (M : Rat) * zp 10 E := by
    rw [hD, hB, hA, hAB]
  refine ⟨hval, ?_⟩
  rw [← h]
  apply ofDecimal_congr neg M' M _ _ hMpos hM hval _ g1 _ g2
  · omega
  · omega

/-- … in particular the double survives (`SigDigitsReadBack p`) -/
theorem digits_survive (p : Nat) (hp : 1 ≤ p) (neg : Bool) (M : Nat) (E : Int) (hM : 0 < M) (hMp : M < 10 ^ p) (bits : Nat)
    (hlt : bits < 2 ^ 64) (h : Dbl.ofDecimal ⟨neg, M, E⟩ = some bits)
    (hfin : (bits / Dbl.pow2 52 % 2048 == 2047) = false)
    (hnz : (bits / Dbl.pow2 52 % 2048 == 0 && bits % Dbl.pow2 52 == 0) = false)
    (hmp : 10 ^ p ≤ mantOf bits) : SigDigitsReadBack p bits :=
  fun M' k hq => (digits_survive_value p hp neg M E hM hMp bits hlt h hfin hnz hmp M' k hq).2

/-- the text `%.<p>G` prints for a finite non-zero double, parsed: sign, and the `p` significant digits with some trailing zeros
    removed -/
theorem dbl_fmtG_parse (p : Nat) (hp : 1 ≤ p) (bits : Nat)
    (hfin : (bits / Dbl.pow2 52 % 2048 == 2047) = false)
    (hnz : (bits / Dbl.pow2 52 % 2048 == 0 && bits % Dbl.pow2 52 == 0) = false) :
    ∃ M' k : Nat, parseFloatText (Dbl.fmtG p bits) =
        some ⟨bits / Dbl.signBit % 2 == 1, M', (finSig p (mantOf bits) (expOf bits)).2 - ((p : Int) - 1) + (k : Int)⟩ ∧
      (finSig p (mantOf bits) (expOf bits)).1 = M' * 10 ^ k := by
  have hsg : ∀ (q : Prop) [Decidable q], ((if q then [45] else []) : List Byte) = [] ∨ ((if q then [45] else []) : List Byte) = [45] := by
    intro q _; by_cases h : q <;> simp [h]
  have hsgb : ∀ (q : Bool), (((if q = true then [45] else []) : List Byte) == [45]) = q := by
    intro q; cases q <;> simp
  have hlen : (Nat.toDigits 10 (finSig p (mantOf bits) (expOf bits)).1).length = p := by
    have hm : 0 < mantOf bits := by
      unfold mantOf
      have hp52 : 0 < Dbl.pow2 52 := Nat.pow_pos (by decide)
      split
      · rename_i hbe
        simp only [hbe, Bool.true_and] at hnz
        have : bits % Dbl.pow2 52 ≠ 0 := by simpa using hnz
        omega
      · omega
    unfold finSig
    apply sigDigits_digits p _ _ hp
    · split
      · exact Nat.mul_pos hm (Nat.pow_pos (by decide))
      · exact hm
    · split
      · decide
      · exact Nat.pow_pos (by decide)
  obtain ⟨M', k, h1, h2⟩ := fmtFinite_parse p hp (if (bits / Dbl.signBit % 2 == 1) = true then [45] else []) (hsg _)
    (mantOf bits) (expOf bits) hlen
  refine ⟨M', k, ?_, h2⟩
  unfold Dbl.fmtG
  simp only [hfin, Bool.false_eq_true, if_false, hnz]
  simp only [mantOf, expOf] at h1 ⊢
  rw [h1, hsgb]

end StepModel.P21.Lemmas

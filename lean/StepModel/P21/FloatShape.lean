import StepModel.P21.LexLemmas
/-! Law L2 for the executable float model: `Dbl.fmtG15` of every finite double has the shape `G15Shape` — optional `-`,
digits, optionally `.` and digits, optionally `E`, sign, digits — so that `WriteReal` over `dblOps` always writes a token of
the grammar `real` (decimal point, upper-case `E`).  No hypothesis on the value. (C09) -/
namespace StepModel.P21.Lemmas
open StepModel StepModel.IStream StepModel.P21 StepModel.P21.Grammar

theorem digits_dropWhile_rev (ds : List Byte) (h : ds.all isDigit = true) : (Dbl.dropTrailingZeros ds).all isDigit = true := by
  unfold Dbl.dropTrailingZeros
  rw [List.all_eq_true] at h ⊢
  intro x hx
  have hx' : x ∈ ds.reverse.dropWhile (· == 48) := by simpa using hx
  have := List.dropWhile_sublist (· == 48) |>.subset hx'
  exact h x (by simpa using this)

theorem digits_take (ds : List Byte) (n : Nat) (h : ds.all isDigit = true) : (ds.take n).all isDigit = true := by
  rw [List.all_eq_true] at h ⊢
  intro x hx; exact h x (List.mem_of_mem_take hx)

theorem digits_drop (ds : List Byte) (n : Nat) (h : ds.all isDigit = true) : (ds.drop n).all isDigit = true := by
  rw [List.all_eq_true] at h ⊢
  intro x hx; exact h x (List.mem_of_mem_drop hx)

theorem take_succ_ne_nil (ds : List Byte) (n : Nat) (h : ds ≠ []) : ds.take (n + 1) ≠ [] := by
  cases ds with
  | nil => exact absurd rfl h
  | cons a t => simp

/-- the `%G` layout of a non-empty digit string has the shape of law L2 -/
theorem fmtDigits_shape (p : Nat) (sg ds : List Byte) (x : Int) (hsg : sg = [] ∨ sg = [45]) (hne : ds ≠ []) (hds : ds.all isDigit = true) :
    G15Shape (Dbl.fmtDigits p sg ds x) := by
  unfold Dbl.fmtDigits
  split
  · -- scientific style
    obtain ⟨_, e2, e1⟩ := toDigits_spec x.natAbs
    have hexd : ∀ exd : List Byte, exd ≠ [] → exd.all isDigit = true →
        (if exd.length < 2 then 48 :: exd else exd) ≠ [] ∧ (if exd.length < 2 then 48 :: exd else exd).all isDigit = true := by
      intro exd h1 h2
      split
      · exact ⟨by simp, by simp [h2, isDigit]⟩
      · exact ⟨h1, h2⟩
    obtain ⟨hx1, hx2⟩ := hexd _ e1 e2
    have hsign : IsSign [if x < 0 then (45 : Byte) else 43] := by
      split <;> simp [IsSign]
    refine ⟨sg, ds.take 1, (if (Dbl.dropTrailingZeros (ds.drop 1)).isEmpty then [] else 46 :: Dbl.dropTrailingZeros (ds.drop 1)),
      some ([if x < 0 then 45 else 43], _), ?_, hsg, take_succ_ne_nil ds 0 hne, digits_take ds 1 hds, ?_, ⟨hsign, hx1, hx2⟩⟩
    · simp [exText, List.append_assoc]
    · split
      · exact Or.inl rfl
      · exact Or.inr ⟨_, rfl, digits_dropWhile_rev _ (digits_drop ds 1 hds)⟩
  · split
    · -- fixed style, x ≥ 0
      refine ⟨sg, ds.take (x.toNat + 1),
        (if (Dbl.dropTrailingZeros (ds.drop (x.toNat + 1))).isEmpty then [] else 46 :: Dbl.dropTrailingZeros (ds.drop (x.toNat + 1))),
        none, ?_, hsg, take_succ_ne_nil ds _ hne, digits_take ds _ hds, ?_, trivial⟩
      · simp [exText, List.append_assoc]
      · split
        · exact Or.inl rfl
        · exact Or.inr ⟨_, rfl, digits_dropWhile_rev _ (digits_drop ds _ hds)⟩
    · -- fixed style, x < 0
      refine ⟨sg, [48], 46 :: Dbl.dropTrailingZeros (List.replicate ((-x).toNat - 1) 48 ++ ds), none, ?_, hsg, by simp, by decide,
        Or.inr ⟨_, rfl, digits_dropWhile_rev _ ?_⟩, trivial⟩
      · simp [exText, List.append_assoc]
      · rw [List.all_append]
        simp [hds, isDigit]

/-- law L2 for the float model at every precision: `%.<p>G` of every finite double (biased exponent ≠ 2047: not INF/NAN) has
    the shape `G15Shape` -/
theorem dbl_fmtG_shape (p : Nat) (bits : Nat) (hfin : (bits / Dbl.pow2 52 % 2048 == 2047) = false) : G15Shape (Dbl.fmtG p bits) := by
  have hsg : ∀ (q : Prop) [Decidable q], ((if q then [45] else []) : List Byte) = [] ∨ ((if q then [45] else []) : List Byte) = [45] := by
    intro q _; by_cases h : q <;> simp [h]
  unfold Dbl.fmtG
  simp only [hfin, Bool.false_eq_true, if_false]
  split
  · exact ⟨(if bits / Dbl.signBit % 2 = 1 then [45] else []), [48], [], none, by simp [exText], hsg _, by simp, by decide, Or.inl rfl, trivial⟩
  · unfold Dbl.fmtFinite
    simp only []
    obtain ⟨_, e2, e1⟩ := toDigits_spec (Dbl.sigDigits p _ _).1
    exact fmtDigits_shape p _ _ _ (hsg _) e1 e2

/-- law L2 for `dblOps` -/
theorem dbl_fmtG15_shape (bits : Nat) (hfin : (bits / Dbl.pow2 52 % 2048 == 2047) = false) : G15Shape (Dbl.fmtG15 bits) :=
  dbl_fmtG_shape 15 bits hfin

/-- … and for the text the repaired `WriteReal` chooses (`dblOpsRT`) -/
theorem dbl_fmtShortest_shape (bits : Nat) (hfin : (bits / Dbl.pow2 52 % 2048 == 2047) = false) : G15Shape (Dbl.fmtShortest bits) := by
  unfold Dbl.fmtShortest
  split
  · exact dbl_fmtG_shape 15 bits hfin
  · split
    · exact dbl_fmtG_shape 16 bits hfin
    · exact dbl_fmtG_shape 17 bits hfin

/-- the repaired `WriteReal` writes a text that converts back to the value — by construction when 15 or 16 digits do, and
    under the one numeric fact that 17 significant digits determine every double (`h17`, a hypothesis: validated against the
    platform for every double the check writes) otherwise -/
theorem dbl_fmtShortest_stable (bits : Nat) (h17 : Dbl.readsBack (Dbl.fmtG 17 bits) bits = true) :
    ∃ dec, parseFloatText (Dbl.fmtShortest bits) = some dec ∧ Dbl.ofDecimal dec = some bits := by
  have key : ∀ t, Dbl.readsBack t bits = true → ∃ dec, parseFloatText t = some dec ∧ Dbl.ofDecimal dec = some bits := by
    intro t ht
    unfold Dbl.readsBack at ht
    cases hp : parseFloatText t with
    | none => rw [hp] at ht; cases ht
    | some d => rw [hp] at ht; exact ⟨d, rfl, by simpa using ht⟩
  unfold Dbl.fmtShortest
  split
  · rename_i h; exact key _ h
  · split
    · rename_i h; exact key _ h
    · exact key _ h17

end StepModel.P21.Lemmas

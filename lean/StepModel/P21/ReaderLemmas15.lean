import StepModel.P21.ReaderLemmas9
/-! A record whose id the manager already holds (duplicate id): pass 1 creates nothing, pass 2 skips it - record level. -/
namespace StepModel.P21.RLemmas
open StepModel StepModel.IStream StepModel.P21 StepModel.P21.Lemmas StepModel.P21.Grammar

variable {F : Type}

/-- the text of a record behind its id is something `SkipInstance` gets over -/
theorem Rec.passes_t1 (r : Rec F) (hlex : r.Lex) (hscan : ∀ q ∈ r.ps, ParamScan q) (rest : List Byte) :
    ∃ body, Passes body ∧ r.t1 rest = body ++ 59 :: rest := by
  obtain ⟨dne, ddig, dhi, h1, h2, h3, h4, hn0, hns, pne⟩ := hlex
  obtain ⟨_, _, _, _, _, _, _, hn0k, _⟩ := alpha_facts hn0
  have hkw : (r.n0 :: r.ns).all kwc = true := by simp only [List.all_cons, hn0k, Bool.true_and]; exact hns
  refine ⟨r.s1 ++ (61 :: (r.s2 ++ ((r.n0 :: r.ns) ++ (r.s3 ++ 40 :: (renderParams r.ps ++ r.s4))))), ?_, ?_⟩
  · exact Passes.append (Passes.seps h1) (Passes.append (a := [61]) (Passes.plain 61 (by decide)) (Passes.append (Passes.seps h2)
      (Passes.append (Passes.all_plain _ (all_imp (fun c => kwc_plain) _ hkw))
        (Passes.append (Passes.seps h3) (Passes.append (a := [40]) (Passes.plain 40 (by decide))
          (Passes.append (Passes.params r.ps pne hscan) (Passes.seps h4)))))))
  · simp [Rec.t1, Rec.t2, Rec.t3, Rec.t4]

/-- **duplicate id, pass 1**: a record whose id the manager already holds - whatever its keyword and parameters - creates
    nothing and is skipped to its `;` (`ReadData1` counts it as not created) -/
theorem createInstance_dup (cfg : RWCfg) (hcfg : cfg.skipInstanceSkipsComments = true) (d : Dict) (m : Mgr F)
    (r : Rec F) (hlex : r.Lex) (hscan : ∀ q ∈ r.ps, ParamScan q) (i0 : MInst F) (hdup : m.find? r.id = some i0)
    (l rest : List Byte) :
    ∃ l', createInstance cfg d m (G l (r.text rest) false) = .ok (none, G l' rest false) := by
  obtain ⟨body, hT, eT⟩ := Rec.passes_t1 r hlex hscan rest
  obtain ⟨dne, ddig, dhi, h1, h2, h3, h4, hn0, hns, pne⟩ := hlex
  obtain ⟨c0, u, hcu⟩ : ∃ c0 u, r.ds = c0 :: u := by
    cases hd : r.ds with
    | nil => exact absurd hd dne
    | cons c u => exact ⟨c, u, rfl⟩
  have hcd : isDigit c0 = true := by rw [hcu] at ddig; simp at ddig; exact ddig.1
  have hc047 : c0 ≠ 47 := by intro h; rw [h] at hcd; exact absurd hcd (by decide)
  obtain ⟨x, xr, hXe, hxd⟩ : ∃ x xr, r.t1 rest = x :: xr ∧ isDigit x = false :=
    seps_then r.s1 h1 61 _ (fun c => isDigit c = false) (fun c h => space_not_digit h) (by decide) (by decide)
  have e0 : readTokenSeparator (G l (r.text rest) false) = G l (r.text rest) false := by
    unfold Rec.text; rw [hcu]; exact readTokenSeparator_none l c0 _ false (digit_not_space hcd) hc047 (by intro h; rw [h] at hcd; exact absurd hcd (by decide))
  have e1 : (G l (r.text rest) false).extractInt32 = (some r.id, G (r.ds.reverse ++ l) (r.t1 rest) false) := by
    unfold Rec.text; rw [hXe]; exact extractInt32_digits r.ds dne ddig dhi l x xr false hxd
  unfold createInstance
  rw [e0]
  simp only [e1, Option.getD_some, hdup, Option.isSome_some, if_true, bind, Except.bind, pure, Except.pure]
  rw [eT, skipInstance_passes cfg hcfg _ hT]
  exact ⟨_, rfl⟩

/-- **duplicate id, pass 2**: when `ReadInstance` comes to a record whose id belongs to an instance that has been read
    already (its state is no longer `new` - the first record with that id stands earlier in the file), the record is skipped
    to its `;`, nothing is stored or reported (`ReadData2` counts it invalid) -/
theorem readInstance_dup (ops : FloatOps F) (lex : LexCfg) (cfg : RWCfg) (d : Dict) (strict : Bool)
    (hskip : cfg.skipInstanceSkipsComments = true) (st : P2 F)
    (r : Rec F) (hlex : r.Lex) (hscan : ∀ q ∈ r.ps, ParamScan q) (l rest : List Byte) (hs : st.s = G l (r.text rest) false)
    (i0 : MInst F) (hfind : st.mgr.find? r.id = some i0) (hread : i0.state ≠ .new) :
    ∃ l', readInstance ops lex cfg d strict st = .ok { s := G l' rest false } := by
  obtain ⟨body, hT, eT⟩ := Rec.passes_t1 r hlex hscan rest
  obtain ⟨dne, ddig, dhi, h1, h2, h3, h4, hn0, hns, pne⟩ := hlex
  obtain ⟨c, u, hcu⟩ : ∃ c u, r.ds = c :: u := by
    cases hd : r.ds with
    | nil => exact absurd hd dne
    | cons c u => exact ⟨c, u, rfl⟩
  have hcd : isDigit c = true := by rw [hcu] at ddig; simp at ddig; exact ddig.1
  have hc47 : c ≠ 47 := by intro h; rw [h] at hcd; exact absurd hcd (by decide)
  obtain ⟨x, xr, hXe, hxd⟩ : ∃ x xr, r.t1 rest = x :: xr ∧ isDigit x = false :=
    seps_then r.s1 h1 61 _ (fun c => isDigit c = false) (fun c h => space_not_digit h) (by decide) (by decide)
  have e0 : readComment (G l (r.text rest) false) = G l (r.text rest) false := by
    unfold Rec.text; rw [hcu]; exact readComment_none l c _ false (digit_not_space hcd) hc47
  have e1 : (G l (r.text rest) false).extractInt32 = (some r.id, G (r.ds.reverse ++ l) (r.t1 rest) false) := by
    unfold Rec.text; rw [hXe]; exact extractInt32_digits r.ds dne ddig dhi l x xr false hxd
  have hst : (i0.state != .new) = true := by simpa using hread
  unfold readInstance
  rw [hs, e0]
  simp only [e1, Option.getD_some, hfind, hst, if_true, bind, Except.bind, pure, Except.pure]
  rw [eT, skipInstance_passes cfg hskip _ hT]
  exact ⟨_, rfl⟩

end StepModel.P21.RLemmas

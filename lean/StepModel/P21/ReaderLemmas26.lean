import StepModel.P21.ReaderLemmas24
/-! The loops of both passes over a *prefix* of abstract records (continuation form): whatever follows - as long as it
starts with a `#` - the loop arrives there with the expected state.  With these, a stretch of the data section that the
two passes divide into records differently (an unterminated record swallowing its successor in pass 1) can stand anywhere. -/
namespace StepModel.P21.RLemmas
open StepModel StepModel.IStream StepModel.P21 StepModel.P21.Lemmas StepModel.P21.Grammar

variable {F : Type}

theorem renderItems_head35 (xs : List (Item F)) (k : List Byte) : ∃ k', renderItems xs (35 :: k) = 35 :: k' := by
  cases xs with
  | nil => exact ⟨k, rfl⟩
  | cons x xs => exact ⟨_, rfl⟩

/-- `FoundEndSecKywd` in front of a record: the layout is stepped over as far as it is white space -/
theorem foundEndSec_gap35 (g : List Byte) (hg : Seps g) (k : List Byte) (l : List Byte) (sk : Bool) :
    ∃ l' t, Seps t ∧ foundEndSec (G l (g ++ 35 :: k) sk) = (false, G l' (t ++ 35 :: k) sk) := by
  obtain ⟨sp0, t, hgt, hsp0, ht, htc⟩ := hg.split
  rcases htc with rfl | ⟨u, rfl⟩
  · refine ⟨sp0.reverse ++ l, [], Seps.blanks [] (by simp), ?_⟩
    rw [hgt]
    simpa using foundEndSec_no l sp0 35 k sk hsp0 (by decide) (by decide)
  · refine ⟨sp0.reverse ++ l, 47 :: u, ht, ?_⟩
    rw [hgt]
    simpa using foundEndSec_no l sp0 47 (u ++ 35 :: k) sk hsp0 (by decide) (by decide)

/-- pass 1 over a prefix of records: the loop arrives at what follows (a `#`) with the instances of the kept records
    appended and the skipped ones counted -/
theorem readData1Loop_prefixX (cfg : RWCfg) (d : Dict) (k : List Byte) :
    ∀ (xs : List (Item F × Bool)) (st : P1 F) (g0 l : List Byte) (n : Nat),
      Seps g0 → st.s = G l (g0 ++ renderItems (xs.map (·.1)) (35 :: k)) false →
      (∀ x ∈ xs, if x.2 then Item1OK cfg d x.1 else ItemSkip1 cfg d x.1) → (xs.map (·.1.id)).Nodup →
      (∀ i ∈ st.mgr.insts, ∀ x ∈ xs, i.id ≠ x.1.id) →
      ∃ l' t, Seps t ∧ ∀ res,
        readData1Loop cfg d n { mgr := { insts := st.mgr.insts ++ (keptI xs).map (·.mkI) }, count := st.count + (keptI xs).length,
                                notCreated := st.notCreated + nskipI xs, s := G l' (t ++ 35 :: k) false } false = .ok res →
        readData1Loop cfg d (n + xs.length) st false = .ok res := by
  intro xs
  induction xs with
  | nil =>
    intro st g0 l n hg0 hs _ _ _
    refine ⟨l, g0, hg0, ?_⟩
    intro res hres
    obtain ⟨⟨insts⟩, cnt, nc, s⟩ := st
    simp only [renderItems, List.map_nil] at hs
    subst hs
    simpa [keptI, nskipI] using hres
  | cons xb xs ih =>
    intro st g0 l n hg0 hs hok hnd hfresh
    obtain ⟨x, b⟩ := xb
    have hnd' : (xs.map (·.1.id)).Nodup := (List.nodup_cons.mp hnd).2
    have hrid : ∀ y ∈ xs, x.id ≠ y.1.id := by
      intro y hy heq
      exact (List.nodup_cons.mp hnd).1 (by show x.id ∈ _; rw [heq]; exact List.mem_map_of_mem (f := fun y : Item F × Bool => y.1.id) hy)
    have hnone : st.mgr.find? x.id = none := find?_none st.mgr x.id (fun i hi => hfresh i hi (x, b) (by simp))
    obtain ⟨k', hKe⟩ := renderItems_head35 (xs.map (·.1)) k
    have efuel : n + ((x, b) :: xs).length = (n + xs.length) + 1 := by simp only [List.length_cons]; omega
    cases b with
    | true =>
      obtain ⟨hg, hmkid, hci0⟩ : Item1OK cfg d x := by simpa using hok (x, true) (by simp)
      obtain ⟨l1, hci⟩ := hci0 st.mgr hnone (35 :: (g0.reverse ++ l)) 35 k' (by decide) (by decide) (by decide)
      rw [← hKe] at hci
      obtain ⟨l2, t, ht, hfe⟩ : ∃ l2 t, Seps t ∧ foundEndSec (G l1 (renderItems (xs.map (·.1)) (35 :: k)) false) =
          (false, G l2 (t ++ renderItems (xs.map (·.1)) (35 :: k)) false) := by
        rw [hKe]
        obtain ⟨l2, t, ht, h⟩ := foundEndSec_gap35 [] (Seps.blanks [] (by simp)) k' l1 false
        exact ⟨l2, t, ht, by simpa using h⟩
      obtain ⟨l3, t3, ht3, hcont⟩ := ih (⟨⟨st.mgr.insts ++ [x.mkI]⟩, st.count + 1, st.notCreated,
          G l2 (t ++ renderItems (xs.map (·.1)) (35 :: k)) false⟩ : P1 F) t l2 n ht rfl
        (fun y hy => hok y (by simp [hy])) hnd'
        (by
          intro i hi y hy
          simp only [List.mem_append, List.mem_singleton] at hi
          rcases hi with hi | rfl
          · exact hfresh i hi y (by simp [hy])
          · rw [hmkid]; exact hrid y hy)
      refine ⟨l3, t3, ht3, fun res hres => ?_⟩
      have hres' := hcont res (by
        simpa [keptI_cons_true, nskipI_cons_true, Nat.add_assoc, Nat.add_comm 1] using hres)
      rw [efuel]
      unfold readData1Loop
      rw [hs]
      simp only [G_good, Bool.not_false, Bool.and_self, if_true, bind, Except.bind, List.map_cons, renderItems]
      simp only [readTokenSeparator_seps g0 hg0 l 35 _ false (by decide) (by decide), shiftInto_ns,
        bne_self_eq_false, Bool.false_eq_true, if_false, pure, Except.pure, hci]
      rw [hfe]
      exact hres'
    | false =>
      obtain ⟨hg, hsk⟩ : ItemSkip1 cfg d x := by simpa using hok (x, false) (by simp)
      obtain ⟨l1, hci⟩ := hsk st.mgr hnone (35 :: (g0.reverse ++ l)) (x.g ++ renderItems (xs.map (·.1)) (35 :: k))
      obtain ⟨l2, t, ht, hfe⟩ : ∃ l2 t, Seps t ∧ foundEndSec (G l1 (x.g ++ renderItems (xs.map (·.1)) (35 :: k)) false) =
          (false, G l2 (t ++ renderItems (xs.map (·.1)) (35 :: k)) false) := by
        rw [hKe]
        exact foundEndSec_gap35 x.g hg k' l1 false
      obtain ⟨l3, t3, ht3, hcont⟩ := ih (⟨st.mgr, st.count, st.notCreated + 1,
          G l2 (t ++ renderItems (xs.map (·.1)) (35 :: k)) false⟩ : P1 F) t l2 n ht rfl
        (fun y hy => hok y (by simp [hy])) hnd'
        (fun i hi y hy => hfresh i hi y (by simp [hy]))
      refine ⟨l3, t3, ht3, fun res hres => ?_⟩
      have hres' := hcont res (by
        simpa [keptI_cons_false, nskipI_cons_false, Nat.add_assoc, Nat.add_comm 1] using hres)
      rw [efuel]
      unfold readData1Loop
      rw [hs]
      simp only [G_good, Bool.not_false, Bool.and_self, if_true, bind, Except.bind, List.map_cons, renderItems]
      simp only [readTokenSeparator_seps g0 hg0 l 35 _ false (by decide) (by decide), shiftInto_ns,
        bne_self_eq_false, Bool.false_eq_true, if_false, pure, Except.pure, hci]
      rw [hfe]
      exact hres'

/-- pass 2 on a record that is followed by another record: `Item2OKF` asked only for texts in which the layout behind the
    record is followed by a `#` (an unterminated record satisfies this, not `Item2OKF`) -/
def Item2OKH (ops : FloatOps F) (lex : LexCfg) (cfg : RWCfg) (d : Dict) (strict : Bool) (lk : Lookup) (x : Item F) : Prop :=
  Seps x.g ∧ x.mkI.id = x.id ∧ x.out.id = x.id ∧ keyOf x.out = keyOf x.mkI ∧
  ∀ (st : P2 F) (l : List Byte) (k : List Byte),
    st.mgr.find? x.id = some x.mkI → Mgr.lookup d st.mgr = lk → st.s = G l (x.body ++ (x.g ++ 35 :: k)) false →
    ∃ l', readInstance ops lex cfg d strict st =
      .ok { s := G l' (x.g ++ 35 :: k) false, inst := some x.out, reported := some x.sev, left := some .null }

theorem Item2OKF.toH {ops : FloatOps F} {lex : LexCfg} {cfg : RWCfg} {d : Dict} {strict : Bool} {lk : Lookup} {x : Item F}
    (h : Item2OKF ops lex cfg d strict lk x) : Item2OKH ops lex cfg d strict lk x := by
  obtain ⟨hg, h1, h2, h3, hstep⟩ := h
  exact ⟨hg, h1, h2, h3, fun st l k hf hl hs => hstep st l _ hf hl hs⟩

/-- what pass 2 has done after a prefix of records -/
structure P2PreX (st st' : P2 F) (insts : List (MInst F)) (xs : List (Item F × Bool)) (k : List Byte) : Prop where
  mgr : st'.mgr.insts = insts
  err : st'.fileErr = errAfterI st.fileErr (keptI xs)
  total : st'.total = st.total + (keptI xs).length
  valid : st'.valid = st.valid + (keptI xs).length
  invalid : st'.invalid = st.invalid + nskipI xs
  s : ∃ l' t, Seps t ∧ st'.s = G l' (t ++ 35 :: k) false
  rep : st'.reported = ((keptI xs).map (·.sev)).reverse ++ st.reported

/-- pass 2 over a prefix of records (the manager holds, behind the prefix's instances, those of the records that follow):
    the loop arrives at what follows (a `#`) with every kept record read to its outcome and the skipped ones counted -/
theorem readData2Loop_prefixX (ops : FloatOps F) (lex : LexCfg) (cfg : RWCfg) (d : Dict) (strict : Bool) (lk : Lookup)
    (k : List Byte) :
    ∀ (xs : List (Item F × Bool)) (st : P2 F) (pre post : List (MInst F)) (g0 l : List Byte) (n : Nat),
      Seps g0 → st.s = G l (g0 ++ renderItems (xs.map (·.1)) (35 :: k)) false →
      st.mgr.insts = pre ++ ((keptI xs).map (·.mkI) ++ post) → (∀ i ∈ pre, ∀ x ∈ xs, i.id ≠ x.1.id) →
      (∀ i ∈ post, ∀ x ∈ xs, i.id ≠ x.1.id) →
      (xs.map (·.1.id)).Nodup → Mgr.lookup d st.mgr = lk →
      (∀ x ∈ xs, if x.2 then Item2OKH ops lex cfg d strict lk x.1 else ItemSkip2 ops lex cfg d strict x.1) →
      ∃ st1, P2PreX st st1 (pre ++ ((keptI xs).map (·.out) ++ post)) xs k ∧ Mgr.lookup d st1.mgr = lk ∧ ∀ res,
        readData2Loop ops lex cfg d strict n st1 false = .ok res →
        readData2Loop ops lex cfg d strict (n + xs.length) st false = .ok res := by
  intro xs
  induction xs with
  | nil =>
    intro st pre post g0 l n hg0 hs hm _ _ _ hlk _
    refine ⟨st, ⟨by simpa [keptI] using hm, rfl, rfl, rfl, rfl, ⟨l, g0, hg0, by simpa [renderItems] using hs⟩, by simp [keptI]⟩, hlk, ?_⟩
    intro res hres
    simpa using hres
  | cons xb xs ih =>
    intro st pre post g0 l n hg0 hs hm hfresh hpostf hnd hlk hok
    obtain ⟨x, b⟩ := xb
    have hnd' : (xs.map (·.1.id)).Nodup := (List.nodup_cons.mp hnd).2
    have hrid : ∀ y ∈ xs, x.id ≠ y.1.id := by
      intro y hy heq
      exact (List.nodup_cons.mp hnd).1 (by show x.id ∈ _; rw [heq]; exact List.mem_map_of_mem (f := fun y : Item F × Bool => y.1.id) hy)
    have hkid : ∀ i ∈ (keptI xs).map (·.mkI) ++ post, i.id ≠ x.id := by
      intro i hi
      rcases List.mem_append.mp hi with hi | hi
      · obtain ⟨y, hy, rfl⟩ := List.mem_map.mp hi
        have hy' : (y, true) ∈ xs := mem_keptI xs y hy
        obtain ⟨_, hymk, _⟩ : Item2OKH ops lex cfg d strict lk y := by simpa using hok (y, true) (by simp [hy'])
        rw [hymk]
        exact fun h => hrid (y, true) hy' h.symm
      · exact hpostf i hi (x, b) (by simp)
    obtain ⟨k', hKe⟩ := renderItems_head35 (xs.map (·.1)) k
    have efuel : n + ((x, b) :: xs).length = (n + xs.length) + 1 := by simp only [List.length_cons]; omega
    cases b with
    | true =>
      obtain ⟨hg, hmkid, hid0, hkey, hstep⟩ : Item2OKH ops lex cfg d strict lk x := by simpa using hok (x, true) (by simp)
      have hid : x.out.id = x.mkI.id := by rw [hid0, hmkid]
      rw [keptI_cons_true] at hm
      simp only [List.map_cons, List.cons_append] at hm
      have hmgr : st.mgr = { insts := pre ++ x.mkI :: ((keptI xs).map (·.mkI) ++ post) } := Mgr.eq_of_insts _ _ hm
      have hpre : ∀ i ∈ pre, i.id ≠ (x.mkI).id := fun i hi => by rw [hmkid]; exact hfresh i hi (x, true) (by simp)
      have hpost : ∀ i ∈ (keptI xs).map (·.mkI) ++ post, i.id ≠ (x.mkI).id := fun i hi => by rw [hmkid]; exact hkid i hi
      obtain ⟨l1, hri⟩ := hstep
        { st with s := G (35 :: (g0.reverse ++ l)) (x.body ++ (x.g ++ renderItems (xs.map (·.1)) (35 :: k))) false }
        _ k' (by show st.mgr.find? _ = _; rw [hmgr, ← hmkid]; exact find?_mid pre _ (x.mkI) hpre) hlk (by rw [hKe])
      rw [← hKe] at hri
      have hupd : st.mgr.update x.out = { insts := pre ++ x.out :: ((keptI xs).map (·.mkI) ++ post) } := by
        rw [hmgr]; exact update_mid pre _ (x.mkI) x.out hid hpre hpost
      obtain ⟨l2, t, ht, hfe⟩ : ∃ l2 t, Seps t ∧ foundEndSec (G l1 (x.g ++ renderItems (xs.map (·.1)) (35 :: k)) false) =
          (false, G l2 (t ++ renderItems (xs.map (·.1)) (35 :: k)) false) := by
        rw [hKe]
        exact foundEndSec_gap35 x.g hg k' l1 false
      obtain ⟨st1, hdone, hlk1, hcont⟩ := ih
        ({ st with mgr := { insts := pre ++ x.out :: ((keptI xs).map (·.mkI) ++ post) },
                   fileErr := appendEntityError st.fileErr x.sev, reported := x.sev :: st.reported,
                   s := G l2 (t ++ renderItems (xs.map (·.1)) (35 :: k)) false, total := st.total + 1,
                   valid := st.valid + 1 } : P2 F)
        (pre ++ [x.out]) post t l2 n ht rfl (by simp)
        (by
          intro i hi y hy
          simp only [List.mem_append, List.mem_singleton] at hi
          rcases hi with hi | rfl
          · exact hfresh i hi y (by simp [hy])
          · rw [hid0]; exact hrid y hy)
        (fun i hi y hy => hpostf i hi y (by simp [hy]))
        hnd'
        (by
          rw [← hlk, hmgr]
          apply lookup_congr
          simp only [List.map_append, List.map_cons, hkey])
        (fun y hy => hok y (by simp [hy]))
      refine ⟨st1, ⟨?_, ?_, ?_, ?_, ?_, hdone.s, ?_⟩, hlk1, fun res hres => ?_⟩
      · rw [hdone.mgr, keptI_cons_true]; simp
      · rw [hdone.err, keptI_cons_true]; simp [errAfterI]
      · rw [hdone.total, keptI_cons_true]; simp only [List.length_cons]; omega
      · rw [hdone.valid, keptI_cons_true]; simp only [List.length_cons]; omega
      · rw [hdone.invalid, nskipI_cons_true]
      · rw [hdone.rep, keptI_cons_true]; simp
      · have hres' := hcont res hres
        rw [efuel]
        unfold readData2Loop
        rw [hs]
        simp only [G_good, Bool.not_false, Bool.and_self, if_true, bind, Except.bind, List.map_cons, renderItems]
        simp only [readTokenSeparator_seps g0 hg0 l 35 _ false (by decide) (by decide), shiftInto_good 0 _ 35 _ false (by decide),
          bne_self_eq_false, Bool.false_eq_true, if_false, pure, Except.pure]
        rw [hri]
        simp only
        have hap : applyOutcome st
            { s := G l1 (x.g ++ renderItems (xs.map (·.1)) (35 :: k)) false, inst := some x.out,
              reported := some x.sev, left := some .null } =
            { st with mgr := st.mgr.update x.out, fileErr := appendEntityError st.fileErr x.sev, reported := x.sev :: st.reported,
                      s := G l1 (x.g ++ renderItems (xs.map (·.1)) (35 :: k)) false, total := st.total + 1,
                      valid := st.valid + 1 } := rfl
        rw [hap, hupd]
        simp only [hfe]
        exact hres'
    | false =>
      obtain ⟨hg, hsk⟩ : ItemSkip2 ops lex cfg d strict x := by simpa using hok (x, false) (by simp)
      rw [keptI_cons_false] at hm
      have hnf : st.mgr.find? x.id = none := by
        apply find?_none
        intro i hi
        rw [hm] at hi
        rcases List.mem_append.mp hi with hi | hi
        · exact hfresh i hi (x, false) (by simp)
        · exact hkid i hi
      obtain ⟨l1, hri⟩ := hsk
        { st with s := G (35 :: (g0.reverse ++ l)) (x.body ++ (x.g ++ renderItems (xs.map (·.1)) (35 :: k))) false }
        _ _ hnf rfl
      obtain ⟨l2, t, ht, hfe⟩ : ∃ l2 t, Seps t ∧ foundEndSec (G l1 (x.g ++ renderItems (xs.map (·.1)) (35 :: k)) false) =
          (false, G l2 (t ++ renderItems (xs.map (·.1)) (35 :: k)) false) := by
        rw [hKe]
        exact foundEndSec_gap35 x.g hg k' l1 false
      obtain ⟨st1, hdone, hlk1, hcont⟩ := ih
        ({ st with s := G l2 (t ++ renderItems (xs.map (·.1)) (35 :: k)) false, invalid := st.invalid + 1 } : P2 F)
        pre post t l2 n ht rfl hm
        (fun i hi y hy => hfresh i hi y (by simp [hy])) (fun i hi y hy => hpostf i hi y (by simp [hy])) hnd' hlk
        (fun y hy => hok y (by simp [hy]))
      refine ⟨st1, ⟨?_, ?_, ?_, ?_, ?_, hdone.s, ?_⟩, hlk1, fun res hres => ?_⟩
      · rw [hdone.mgr, keptI_cons_false]
      · rw [hdone.err, keptI_cons_false]
      · rw [hdone.total, keptI_cons_false]
      · rw [hdone.valid, keptI_cons_false]
      · rw [hdone.invalid, nskipI_cons_false]; show st.invalid + 1 + nskipI xs = st.invalid + (nskipI xs + 1); omega
      · rw [hdone.rep, keptI_cons_false]
      · have hres' := hcont res hres
        rw [efuel]
        unfold readData2Loop
        rw [hs]
        simp only [G_good, Bool.not_false, Bool.and_self, if_true, bind, Except.bind, List.map_cons, renderItems]
        simp only [readTokenSeparator_seps g0 hg0 l 35 _ false (by decide) (by decide), shiftInto_good 0 _ 35 _ false (by decide),
          bne_self_eq_false, Bool.false_eq_true, if_false, pure, Except.pure]
        rw [hri]
        simp only
        have hap : applyOutcome st
            ({ s := G l1 (x.g ++ renderItems (xs.map (·.1)) (35 :: k)) false } : IOut F) =
            { st with s := G l1 (x.g ++ renderItems (xs.map (·.1)) (35 :: k)) false,
                      invalid := st.invalid + 1 } := rfl
        rw [hap]
        simp only [hfe]
        exact hres'

end StepModel.P21.RLemmas

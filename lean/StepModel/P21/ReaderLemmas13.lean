import StepModel.P21.ReaderLemmas12
/-! Which reader flags which violation, third part: texts that *start like* the expected kind (an integer token with
something behind it for an INTEGER attribute), and violations inside aggregates (an element that reports). -/
namespace StepModel.P21.RLemmas
open StepModel StepModel.IStream StepModel.P21 StepModel.P21.Lemmas StepModel.P21.Grammar

variable {F : Type}

/-- `ReadInteger` on a token of the grammar (fits `long`) with something behind it that is no digit, no blank, no `/` and
    holds no delimiter (nor `;` where the recovery loop ends at one): the value is assigned, the rest is skipped as
    "invalid value", WARNING -/
theorem readInteger_tok_junk (lex : LexCfg) (tok : List Byte) (htok : isInteger tok = true)
    (hlo : longMin ≤ denoteInteger tok) (hhi : denoteInteger tok ≤ longMax)
    (j0 : Byte) (js : List Byte) (hj0s : isSpace j0 = false) (hj047 : j0 ≠ 47) (hj0d : isDigit j0 = false)
    (hj : ∀ b ∈ j0 :: js, delimAt lex attrDelims b = false)
    (hsemi : lex.criStopsAtSemicolon = true → ∀ b ∈ j0 :: js, b ≠ 59)
    (l : List Byte) (sk : Bool) (d : Byte) (rest : List Byte) (hd : d = 44 ∨ d = 41) :
    readInteger lex (some attrDelims) (G l (tok ++ (j0 :: (js ++ d :: rest))) sk) .null =
      (some (denoteInteger tok), G ((j0 :: js).reverse ++ (tok.reverse ++ l)) (d :: rest) sk, .warning) := by
  have hscan := scanInt_token longMin longMax l tok (j0 :: (js ++ d :: rest)) htok (Or.inr ⟨j0, _, rfl, hj0d⟩)
  obtain ⟨c, u, rfl, hcs, _, _, _⟩ := isInteger_head tok htok
  simp only [List.cons_append] at hscan ⊢
  simp only [readInteger]
  rw [show (G l (c :: (u ++ (j0 :: (js ++ d :: rest)))) sk).ws = G l (c :: (u ++ (j0 :: (js ++ d :: rest)))) sk from ws_good0 l c _ sk hcs]
  rw [extractLong_G l c _ sk hcs, hscan]
  have h1 : ¬ denoteInteger (c :: u) < longMin := by omega
  have h2 : ¬ denoteInteger (c :: u) > longMax := by omega
  have hcri := cri_junk lex j0 js hj0s hj047 hj hsemi ((c :: u).reverse ++ l) rest d false sk Sev.null hd
  simp only [List.reverse_cons, List.append_assoc, List.singleton_append] at hcri
  simp [h1, h2, IStream.failed, Sev.warnIf, hcri]
  rfl

/-- an INTEGER token followed directly by something else (`1.5`, `5X`, `12'a'`) for an INTEGER attribute: the integer is
    stored, the rest reported: WARNING, the stream at the delimiter -/
theorem attr_integer_then_junk (env : Env F) (strict : Bool) (a : AttrD) (hty : a.ty = .one .integer) (hder : a.derived = false)
    (tok : List Byte) (htok : isInteger tok = true) (hlo : longMin ≤ denoteInteger tok) (hhi : denoteInteger tok < longMax)
    (j0 : Byte) (js : List Byte) (hj0s : isSpace j0 = false) (hj047 : j0 ≠ 47) (hj0d : isDigit j0 = false)
    (hj : ∀ b ∈ j0 :: js, delimAt env.lex attrDelims b = false)
    (hsemi : env.lex.criStopsAtSemicolon = true → ∀ b ∈ j0 :: js, b ≠ 59)
    (l : List Byte) (sk : Bool) (d : Byte) (rest : List Byte) (hd : d = 44 ∨ d = 41) :
    attrSTEPread env strict a (G l (tok ++ (j0 :: (js ++ d :: rest))) sk) =
      .ok (.warning, .one (.atom (.int (denoteInteger tok))), G ((j0 :: js).reverse ++ (tok.reverse ++ l)) (d :: rest) sk) := by
  have hri := readInteger_tok_junk env.lex tok htok hlo (by omega) j0 js hj0s hj047 hj0d hj hsemi l sk d rest hd
  obtain ⟨c, u, hcu, hcs, h36, h44, h41⟩ := isInteger_head tok htok
  unfold attrSTEPread
  rw [hcu] at hri ⊢
  simp only [List.cons_append] at hri ⊢
  rw [show (G l (c :: (u ++ (j0 :: (js ++ d :: rest)))) sk).ws = G l (c :: (u ++ (j0 :: (js ++ d :: rest)))) sk from ws_good0 l c _ sk hcs]
  simp only [bind, Except.bind, pure, Except.pure]
  rw [show (G l (c :: (u ++ (j0 :: (js ++ d :: rest)))) sk).peekC = (c, G l (c :: (u ++ (j0 :: (js ++ d :: rest)))) sk) from peekC_good l c _ sk]
  have e36 : (c == 36) = false := by simpa using h36
  have e44 : (c == 44) = false := by simpa using h44
  have e41 : (c == 41) = false := by simpa using h41
  simp only [hder, Bool.false_eq_true, if_false, e36, e44, e41, Bool.or_self, hty]
  rw [scalarNodeReadAttr_integer]
  rw [readIntegerS_of _ _ _ _ (by rw [hri]; exact intSentinel_some _ _ (by rw [← hcu]; omega)), hri]
  have h3 : (denoteInteger (c :: u) == longMax) = false := by rw [← hcu]; simp; omega
  simp [intValue, h3, valueToAtom]

/-! ## aggregates with elements that report -/

/-- one round of the element loop reads the element with severity `sev` to `e.v` wherever it stands and rests at the
    delimiter (`ElemRd` is the case `sev = NULL`) -/
def ElemRdS (env : Env F) (ety : ElemTy) (e : ElemG F) (sev : Sev) : Prop :=
  Seps e.before ∧ (∃ c u, e.tok = c :: u ∧ isSpace c = false ∧ c ≠ 47 ∧ c ≠ 41 ∧ c ≠ 92) ∧
  ∀ (l : List Byte) (sk : Bool) (d : Byte) (rest : List Byte), (d = 44 ∨ d = 41) →
    ∃ sk', (sk' = sk ∨ sk' = false) ∧
      elemRead env ety (G l (e.tok ++ (e.after ++ d :: rest)) sk) =
        .ok (sev, e.v, G (e.after.reverse ++ (e.tok.reverse ++ l)) (d :: rest) sk')

theorem ElemRd.toS {env : Env F} {ety : ElemTy} {e : ElemG F} (h : ElemRd env ety e) : ElemRdS env ety e .null := h

/-- how `STEPaggregate::ReadValue` accumulates what its elements report: only severities worse than INCOMPLETE -/
def eaccum (err : Sev) (sevs : List Sev) : Sev :=
  sevs.foldl (fun e sv => if sv.toInt < Sev.incomplete.toInt then e.greater sv else e) err

theorem ElemRdS.read {env : Env F} {ety : ElemTy} {e : ElemG F} {sev : Sev} (h : ElemRdS env ety e sev)
    (hagg : env.cfg.aggrSkipsComments = true) (l : List Byte) (sk : Bool) (d : Byte) (rest : List Byte) (hd : d = 44 ∨ d = 41) :
    ∃ sk', (sk' = sk ∨ sk' = false) ∧
      elemRead env ety (G l (e.before ++ (e.tok ++ (e.after ++ d :: rest))) sk) =
        .ok (sev, e.v, G (e.after.reverse ++ (e.tok.reverse ++ (e.before.reverse ++ l))) (d :: rest) sk') := by
  obtain ⟨hb, ⟨c, u, hcu, hcs, h47, _, h92⟩, hrd⟩ := h
  obtain ⟨sk', hsk, hr⟩ := hrd (e.before.reverse ++ l) sk d rest hd
  refine ⟨sk', hsk, ?_⟩
  rw [← hr, hcu]
  exact elemRead_before env hagg ety e.before hb l c _ sk hcs h47 h92

/-- the element loop over elements each read with a known severity -/
theorem aggrLoop_elems_sev (env : Env F) (ety : ElemTy) (hagg : env.cfg.aggrSkipsComments = true)
    (qs : List (ElemG F × Sev)) (hne : qs ≠ []) (hok : ∀ q ∈ qs, ElemRdS env ety q.1 q.2) :
    ∀ (fuel : Nat) (err : Sev) (acc : List (Elem F)) (c : Byte) (l : List Byte) (sk : Bool) (rest : List Byte),
      qs.length + 1 ≤ fuel → c ≠ 41 →
      ∃ sk', (sk' = sk ∨ sk' = false) ∧
        aggrLoop env ety fuel err acc c (G l (renderElemsG (qs.map (·.1)) ++ rest) sk) =
          .ok (eaccum err (qs.map (·.2)), some (acc ++ qs.map (·.1.v)), G ((renderElemsG (qs.map (·.1))).reverse ++ l) rest sk') := by
  induction qs with
  | nil => exact absurd rfl hne
  | cons q fs ih =>
    intro fuel err acc c l sk rest hf hc
    obtain ⟨e, sev⟩ := q
    have hrd := (show ElemRdS env ety e sev from hok (e, sev) (by simp)).read hagg
    have hc' : (c != 41) = true := by simpa using hc
    cases fuel with
    | zero => omega
    | succ n =>
      cases fs with
      | nil =>
        cases n with
        | zero => simp at hf
        | succ m =>
          obtain ⟨sk1, hsk1, her⟩ := hrd l sk 41 rest (Or.inr rfl)
          refine ⟨sk1, hsk1, ?_⟩
          unfold aggrLoop
          simp only [G_good, hc', Bool.and_self, if_true, bind, Except.bind, pure, Except.pure, renderElemsG, List.map_cons, List.map_nil]
          have e1 : e.before ++ (e.tok ++ (e.after ++ [41])) ++ rest = e.before ++ (e.tok ++ (e.after ++ 41 :: rest)) := by simp
          rw [e1, her]
          simp only
          rw [show (G (e.after.reverse ++ (e.tok.reverse ++ (e.before.reverse ++ l))) (41 :: rest) sk1).ws =
            G (e.after.reverse ++ (e.tok.reverse ++ (e.before.reverse ++ l))) (41 :: rest) sk1 from ws_good0 _ 41 rest sk1 (by decide)]
          rw [show getInto c (G (e.after.reverse ++ (e.tok.reverse ++ (e.before.reverse ++ l))) (41 :: rest) sk1) =
            (41, G (41 :: (e.after.reverse ++ (e.tok.reverse ++ (e.before.reverse ++ l)))) rest sk1) from getInto_good c _ 41 rest sk1]
          simp only [bne_self_eq_false, Bool.and_false, Bool.false_and, Bool.false_eq_true, if_false]
          rw [aggrLoop_doneG]
          simp [eaccum]
      | cons f gs =>
        have hlen : (f :: gs).length + 1 ≤ n := by simp only [List.length_cons] at hf ⊢; omega
        obtain ⟨sk1, hsk1, her⟩ := hrd l sk 44 (renderElemsG ((f :: gs).map (·.1)) ++ rest) (Or.inl rfl)
        obtain ⟨sk2, hsk2, hrec⟩ := ih (by simp) (fun x hx => hok x (by simp [hx])) n
          (if sev.toInt < Sev.incomplete.toInt then err.greater sev else err) (acc ++ [e.v]) 44
          (44 :: (e.after.reverse ++ (e.tok.reverse ++ (e.before.reverse ++ l)))) sk1 rest hlen (by decide)
        refine ⟨sk2, skflag_trans hsk1 hsk2, ?_⟩
        unfold aggrLoop
        simp only [G_good, hc', Bool.and_self, if_true, bind, Except.bind, pure, Except.pure, renderElemsG, List.map_cons] at hrec her ⊢
        have e1 : e.before ++ (e.tok ++ (e.after ++ 44 :: renderElemsG (f.1 :: gs.map (·.1)))) ++ rest =
            e.before ++ (e.tok ++ (e.after ++ 44 :: (renderElemsG (f.1 :: gs.map (·.1)) ++ rest))) := by simp
        rw [e1, her]
        simp only
        rw [show (G (e.after.reverse ++ (e.tok.reverse ++ (e.before.reverse ++ l))) (44 :: (renderElemsG (f.1 :: gs.map (·.1)) ++ rest)) sk1).ws =
          G (e.after.reverse ++ (e.tok.reverse ++ (e.before.reverse ++ l))) (44 :: (renderElemsG (f.1 :: gs.map (·.1)) ++ rest)) sk1
          from ws_good0 _ 44 _ sk1 (by decide)]
        rw [show getInto c (G (e.after.reverse ++ (e.tok.reverse ++ (e.before.reverse ++ l))) (44 :: (renderElemsG (f.1 :: gs.map (·.1)) ++ rest)) sk1) =
          (44, G (44 :: (e.after.reverse ++ (e.tok.reverse ++ (e.before.reverse ++ l)))) (renderElemsG (f.1 :: gs.map (·.1)) ++ rest) sk1)
          from getInto_good c _ 44 _ sk1]
        have h44 : ((44 : Byte) != 44) = false := by decide
        simp only [h44, Bool.false_and, Bool.false_eq_true, if_false]
        rw [hrec]
        simp [eaccum]

/-- `STEPaggregate::ReadValue` on `( e₁ , … , eₙ )`, n ≥ 1, each element read with a known severity -/
theorem aggrRead_elems_sev (env : Env F) (ety : ElemTy) (hagg : env.cfg.aggrSkipsComments = true)
    (qs : List (ElemG F × Sev)) (hne : qs ≠ []) (hok : ∀ q ∈ qs, ElemRdS env ety q.1 q.2) (l : List Byte) (sk : Bool) (rest : List Byte) :
    ∃ sk', (sk' = sk ∨ sk' = false) ∧
      aggrRead env ety (G l (40 :: (renderElemsG (qs.map (·.1)) ++ rest)) sk) =
        .ok (eaccum .null (qs.map (·.2)), some (qs.map (·.1.v)), G ((40 :: renderElemsG (qs.map (·.1))).reverse ++ l) rest sk') := by
  cases qs with
  | nil => exact absurd rfl hne
  | cons q fs =>
    obtain ⟨e, sev⟩ := q
    obtain ⟨hb, ⟨c0, u0, hcu, hcs, h47, h41, h92⟩, hrd⟩ : ElemRdS env ety e sev := hok (e, sev) (by simp)
    let e' : ElemG F := { e with before := [] }
    have hok' : ∀ x ∈ (e', sev) :: fs, ElemRdS env ety x.1 x.2 := by
      intro x hx
      rcases List.mem_cons.mp hx with rfl | hx
      · exact ⟨Seps.blanks [] (by simp), ⟨c0, u0, hcu, hcs, h47, h41, h92⟩, hrd⟩
      · exact hok x (by simp [hx])
    have hhead : ∃ u1, renderElemsG (e' :: fs.map (·.1)) ++ rest = c0 :: u1 := by
      cases hfs : fs.map (·.1) with
      | nil => exact ⟨u0 ++ (e.after ++ 41 :: rest), by simp [renderElemsG, e', hcu]⟩
      | cons f gs => exact ⟨u0 ++ (e.after ++ 44 :: (renderElemsG (f :: gs) ++ rest)), by simp [renderElemsG, e', hcu]⟩
    obtain ⟨u1, h1⟩ := hhead
    have hlen := renderElemsG_length (e' :: fs.map (·.1)) (by
      intro x hx
      rcases List.mem_cons.mp hx with rfl | hx
      · simp [e', hcu]
      · obtain ⟨y, hy, rfl⟩ := List.mem_map.mp hx
        obtain ⟨_, ⟨c, u, h, _⟩, _⟩ := hok y (by simp [hy])
        rw [h]; simp)
    obtain ⟨sk', hsk', hloop⟩ := aggrLoop_elems_sev env ety hagg ((e', sev) :: fs) (by simp) hok'
      ((renderElemsG (e' :: fs.map (·.1)) ++ rest).length + 2) .null [] c0 (e.before.reverse ++ 40 :: l) sk rest
      (by simp only [List.length_append, List.length_cons, List.length_map] at hlen ⊢; omega) h41
    refine ⟨sk', hsk', ?_⟩
    unfold aggrRead
    simp only [List.map_cons]
    rw [show (G l (40 :: (renderElemsG (e :: fs.map (·.1)) ++ rest)) sk).ws = G l (40 :: (renderElemsG (e :: fs.map (·.1)) ++ rest)) sk
      from ws_good0 l 40 _ sk (by decide)]
    simp only [bind, Except.bind, pure, Except.pure]
    rw [show (G l (40 :: (renderElemsG (e :: fs.map (·.1)) ++ rest)) sk).peekC = (40, G l (40 :: (renderElemsG (e :: fs.map (·.1)) ++ rest)) sk)
      from peekC_good l 40 _ sk]
    have x1 : ((40 : Byte) == 36) = false := by decide
    have x2 : ((40 : Byte) != 40) = false := by decide
    simp only [x1, Bool.or_false, x2, Bool.false_eq_true, if_false]
    rw [show getInto 40 (G l (40 :: (renderElemsG (e :: fs.map (·.1)) ++ rest)) sk) = (40, G (40 :: l) (renderElemsG (e :: fs.map (·.1)) ++ rest) sk)
      from getInto_good 40 l 40 _ sk]
    simp only [hagg, if_true]
    have e1 : renderElemsG (e :: fs.map (·.1)) ++ rest = e.before ++ c0 :: u1 := by
      rw [renderElemsG_cons, List.append_assoc, h1]
    rw [e1, readTokenSeparator_seps e.before hb (40 :: l) c0 u1 sk hcs h47 h92]
    rw [show (G (e.before.reverse ++ 40 :: l) (c0 :: u1) sk).peekC = (c0, G (e.before.reverse ++ 40 :: l) (c0 :: u1) sk)
      from peekC_good _ c0 u1 sk]
    have x3 : (c0 == 41) = false := by simpa using h41
    simp only [x3, Bool.false_eq_true, if_false]
    rw [← h1]
    have hl : (G (e.before.reverse ++ 40 :: l) (renderElemsG (e' :: fs.map (·.1)) ++ rest) sk).right.length + 2 =
        (renderElemsG (e' :: fs.map (·.1)) ++ rest).length + 2 := rfl
    simp only [List.map_cons] at hloop
    rw [hl, hloop]
    simp [renderElemsG_cons e (fs.map (·.1)), e']

/-- **an aggregate attribute with elements that report**: every element is read to its value with its severity; the
    attribute's severity is the accumulated one (when none of them is INPUT_ERROR or worse `CheckRemainingInput` follows
    and the stream rests at the delimiter) -/
theorem attr_aggr_sev (env : Env F) (strict : Bool) (a : AttrD) (ety : ElemTy) (hty : a.ty = .aggr ety) (hder : a.derived = false)
    (hcfg : env.lex.criSkipsComments = true) (hagg : env.cfg.aggrSkipsComments = true)
    (qs : List (ElemG F × Sev)) (hne : qs ≠ []) (hok : ∀ q ∈ qs, ElemRdS env ety q.1 q.2)
    (hsev : ¬ (eaccum .null (qs.map (·.2))).toInt < Sev.warning.toInt)
    (l : List Byte) (sk : Bool) (seps : List Byte) (hs : Seps seps) (d : Byte) (rest : List Byte) (hd : d = 44 ∨ d = 41) :
    ∃ sk', (sk' = sk ∨ sk' = false) ∧
      attrSTEPread env strict a (G l (40 :: renderElemsG (qs.map (·.1)) ++ (seps ++ d :: rest)) sk) =
        .ok (eaccum .null (qs.map (·.2)), .aggr (qs.map (·.1.v)),
             G (seps.reverse ++ ((40 :: renderElemsG (qs.map (·.1))).reverse ++ l)) (d :: rest) sk') := by
  obtain ⟨sk', hsk', hread⟩ := aggrRead_elems_sev env ety hagg qs hne hok l sk (seps ++ d :: rest)
  refine ⟨sk', hsk', ?_⟩
  unfold attrSTEPread
  simp only [List.cons_append]
  rw [show (G l (40 :: (renderElemsG (qs.map (·.1)) ++ (seps ++ d :: rest))) sk).ws = _ from ws_good0 l 40 _ sk (by decide)]
  simp only [bind, Except.bind, pure, Except.pure]
  rw [show (G l (40 :: (renderElemsG (qs.map (·.1)) ++ (seps ++ d :: rest))) sk).peekC = (40, _) from peekC_good l 40 _ sk]
  have e36 : ((40 : Byte) == 36) = false := by decide
  have e44 : ((40 : Byte) == 44) = false := by decide
  have e41 : ((40 : Byte) == 41) = false := by decide
  simp only [hder, Bool.false_eq_true, if_false, e36, e44, e41, Bool.or_self, hty]
  rw [hread]
  simp only [hsev, if_false]
  rw [cri_seps env.lex hcfg seps hs _ rest d false sk' _ hd]

/-! ### elements that report -/

/-- `ReadInteger` on something that starts like no integer: nothing extracted, the text skipped, WARNING -/
theorem readInteger_junk (lex : LexCfg) (j0 : Byte) (js : List Byte) (hj0s : isSpace j0 = false) (hj047 : j0 ≠ 47)
    (hj0d : isDigit j0 = false) (hj043 : j0 ≠ 43) (hj045 : j0 ≠ 45)
    (hj : ∀ b ∈ j0 :: js, delimAt lex attrDelims b = false)
    (hsemi : lex.criStopsAtSemicolon = true → ∀ b ∈ j0 :: js, b ≠ 59)
    (l : List Byte) (sk : Bool) (d : Byte) (rest : List Byte) (hd : d = 44 ∨ d = 41) :
    readInteger lex (some attrDelims) (G l (j0 :: (js ++ d :: rest)) sk) .null =
      (none, G ((j0 :: js).reverse ++ l) (d :: rest) sk, .warning) := by
  simp only [readInteger]
  rw [show (G l (j0 :: (js ++ d :: rest)) sk).ws = G l (j0 :: (js ++ d :: rest)) sk from ws_good0 l j0 _ sk hj0s]
  have hscan : scanInt longMin longMax l (j0 :: (js ++ d :: rest)) = (⟨0, true⟩, l, j0 :: (js ++ d :: rest)) := by
    have hts : takeSign l (j0 :: (js ++ d :: rest)) = (false, l, j0 :: (js ++ d :: rest)) := by
      unfold takeSign
      split
      · rename_i heq; simp at heq; exact absurd heq.1 hj045
      · rename_i heq; simp at heq; exact absurd heq.1 hj043
      · rfl
    simp [scanInt, hts, spanDigits, hj0d]
  rw [extractLong_G l j0 _ sk hj0s, hscan]
  have hcri := cri_junk lex j0 js hj0s hj047 hj hsemi l rest d true sk
  simp only [IStream.failed, Bool.or_true, Bool.true_or, Bool.not_true, Bool.false_eq_true, if_false, List.isEmpty_cons]
  cases hrep : lex.intReportsFail <;>
    simp only [Sev.warnIf, Bool.false_and, Bool.and_false, Bool.true_and, Bool.and_true, Bool.not_false, if_true, if_false,
      Bool.false_eq_true, Bool.and_self] <;>
    rw [hcri _ hd] <;> rfl

/-- **a wrong-kind element of an aggregate of INTEGER** (a string, an enumeration item, a reference, a keyword: anything
    that starts like no integer and holds no `,` `)` `;`): the element is unset, WARNING, the loop goes on behind it -/
theorem ElemRdS.integer_junk (env : Env F) (hcfg : env.lex.criSkipsComments = true) (hagg : env.cfg.aggrSkipsComments = true)
    (j0 : Byte) (js : List Byte) (hj0s : isSpace j0 = false) (hj047 : j0 ≠ 47) (hj092 : j0 ≠ 92)
    (hj0d : isDigit j0 = false) (hj043 : j0 ≠ 43) (hj045 : j0 ≠ 45)
    (hj : ∀ b ∈ j0 :: js, delimAt env.lex attrDelims b = false)
    (hsemi : env.lex.criStopsAtSemicolon = true → ∀ b ∈ j0 :: js, b ≠ 59)
    (before : List Byte) (hb : Seps before) :
    ElemRdS env .integer { tok := j0 :: js, before := before, after := [], v := .atom .unset } .warning := by
  obtain ⟨h44, h41⟩ := junk_head_facts env.lex j0 js hj
  refine ⟨hb, ⟨j0, js, rfl, hj0s, hj047, h41, hj092⟩, ?_⟩
  intro l sk d rest hd
  refine ⟨sk, Or.inl rfl, ?_⟩
  show elemRead env .integer (G l (j0 :: js ++ ([] ++ d :: rest)) sk) = _
  simp only [List.nil_append, List.cons_append]
  rw [elemRead_at_tok env hagg _ l j0 _ sk hj0s hj047 h44 h41 hj092, elemReadCore_scalar env .integer (Or.inl rfl)]
  simp only [bind, Except.bind, pure, Except.pure]
  rw [scalarNodeRead_integer, readInteger_junk env.lex j0 js hj0s hj047 hj0d hj043 hj045 hj hsemi l sk d rest hd]
  have hcri := cri_seps env.lex hcfg [] (Seps.blanks [] (by simp)) ((j0 :: js).reverse ++ l) rest d false sk .warning hd
  simp only [List.nil_append, List.reverse_nil] at hcri
  have hcri' : checkRemainingInput env.lex (some attrDelims) (G ((j0 :: js).reverse ++ l) (d :: rest) sk) Sev.warning =
      (G ((j0 :: js).reverse ++ l) (d :: rest) sk, Sev.warning) := hcri
  simp only [hcri']
  simp [intValue, valueToAtom]

/-- **an undeclared item in an aggregate of ENUMERATION / BOOLEAN / LOGICAL**: `.WORD.` where `WORD` is no item of the type:
    the element is unset, WARNING -/
theorem ElemRdS.enum_undeclared (env : Env F) (hcfg : env.lex.criSkipsComments = true) (hagg : env.cfg.aggrSkipsComments = true)
    (ty : ElemTy) (het : EnumTy ty) (name : List Byte) (hne : name ≠ []) (hname : name.all pw = true)
    (hfind : findName (enumKindOf ty).table (name.map toUpper) = none)
    (before after : List Byte) (hb : Seps before) (ha : Seps after) :
    ElemRdS env ty { tok := 46 :: (name ++ [46]), before := before, after := after, v := .atom .unset } .warning := by
  refine ⟨hb, ⟨46, name ++ [46], rfl, by decide, by decide, by decide, by decide⟩, ?_⟩
  intro l sk d rest hd
  refine ⟨sk, Or.inl rfl, ?_⟩
  have hshape : 46 :: (name ++ [46]) ++ (after ++ d :: rest) = 46 :: (name ++ 46 :: (after ++ d :: rest)) := by simp
  have hsc : ScalarElem ty := by
    rcases het with rfl | rfl | ⟨items, rfl⟩
    · exact Or.inr (Or.inr (Or.inr (Or.inr (Or.inl rfl))))
    · exact Or.inr (Or.inr (Or.inr (Or.inr (Or.inr (Or.inl rfl)))))
    · exact Or.inr (Or.inr (Or.inr (Or.inr (Or.inr (Or.inr (Or.inl ⟨items, rfl⟩))))))
  have hsn : scalarNodeRead env ty (G l (46 :: (name ++ 46 :: (after ++ d :: rest))) sk) =
      .ok (.warning, .unset, G (46 :: (name.reverse ++ 46 :: l)) (after ++ d :: rest) sk) := by
    have hr := enumRead_undeclared env.lex (enumKindOf ty) false name hne hname hfind l sk (after ++ d :: rest)
    rcases het with rfl | rfl | ⟨items, rfl⟩ <;>
      (unfold scalarNodeRead; simp only [enumKindOf] at hr; simp [hr, enumValue, valueToAtom, pure, Except.pure])
  show elemRead env ty (G l (46 :: (name ++ [46]) ++ (after ++ d :: rest)) sk) = _
  rw [hshape, elemRead_at_tok env hagg _ l 46 _ sk (by decide) (by decide) (by decide) (by decide), elemReadCore_scalar env ty hsc]
  simp only [bind, Except.bind, pure, Except.pure, hsn]
  rw [cri_seps env.lex hcfg after ha _ rest d false sk .warning hd]
  simp

/-- `ReadEntityRef` on `#digits` naming no instance of the file, or one of a non-conforming type: nothing stored, WARNING -/
theorem readEntityRef_bad (lex : LexCfg) (hcfg : lex.criSkipsComments = true) (lookup : Int → RefLookup)
    (ds : List Byte) (hne : ds ≠ []) (hds : ds.all isDigit = true) (hhi : ((digitsVal ds 0 : Nat) : Int) ≤ intMax)
    (hbad : lookup ((digitsVal ds 0 : Nat) : Int) ≠ .found)
    (l : List Byte) (sk : Bool) (seps : List Byte) (hs : Seps seps) (d : Byte) (rest : List Byte) (hd : d = 44 ∨ d = 41) :
    readEntityRef lex lookup (some attrDelims) (G l (35 :: (ds ++ (seps ++ d :: rest))) sk) .null =
      (none, G (seps.reverse ++ (ds.reverse ++ 35 :: l)) (d :: rest) sk, .warning) := by
  obtain ⟨x, xr, hx, hxd⟩ := seps_head_not_digit seps hs d rest hd
  simp only [readEntityRef, refTail]
  rw [show (G l (35 :: (ds ++ (seps ++ d :: rest))) sk).ws = G l (35 :: (ds ++ (seps ++ d :: rest))) sk from ws_good0 l 35 _ sk (by decide)]
  rw [getChar_G l 35 _ sk (by decide)]
  simp only [Option.getD_some, beq_self_eq_true, Bool.true_or, Option.isSome_some, Bool.and_self, if_true]
  rw [hx, extractInt32_digits ds hne hds hhi (35 :: l) x xr sk hxd, ← hx]
  have hcri := cri_seps lex hcfg seps hs (ds.reverse ++ 35 :: l) rest d false sk Sev.null hd
  cases hlk : lookup ((digitsVal ds 0 : Nat) : Int) with
  | found => exact absurd hlk hbad
  | wrongType => simp [IStream.failed, hcri, hlk]; rfl
  | missing => simp [IStream.failed, hcri, hlk]; rfl

/-- **a dangling or wrong-type reference in an aggregate of entities**: `#id` where the file has no instance `id` or one whose
    type does not conform: the element is unset, WARNING -/
theorem ElemRdS.ref_bad (env : Env F) (hcfg : env.lex.criSkipsComments = true) (hagg : env.cfg.aggrSkipsComments = true)
    (tg : String) (ds : List Byte) (hne : ds ≠ []) (hds : ds.all isDigit = true) (hhi : ((digitsVal ds 0 : Nat) : Int) ≤ intMax)
    (hbad : refLookup env.lookup tg ((digitsVal ds 0 : Nat) : Int) ≠ .found)
    (before after : List Byte) (hb : Seps before) (ha : Seps after) :
    ElemRdS env (.entity tg) { tok := 35 :: ds, before := before, after := after, v := .atom .unset } .warning := by
  refine ⟨hb, ⟨35, ds, rfl, by decide, by decide, by decide, by decide⟩, ?_⟩
  intro l sk d rest hd
  refine ⟨sk, Or.inl rfl, ?_⟩
  have hr := readEntityRef_bad env.lex hcfg (refLookup env.lookup tg) ds hne hds hhi hbad l sk after ha d rest hd
  show elemRead env (.entity tg) (G l (35 :: ds ++ (after ++ d :: rest)) sk) = _
  simp only [List.cons_append]
  rw [elemRead_at_tok env hagg _ l 35 _ sk (by decide) (by decide) (by decide) (by decide),
    elemReadCore_scalar env (.entity tg) (Or.inr (Or.inr (Or.inr (Or.inr (Or.inr (Or.inr (Or.inr ⟨tg, rfl⟩)))))))]
  have hsn : scalarNodeRead env (.entity tg) (G l (35 :: (ds ++ (after ++ d :: rest))) sk) =
      .ok (.warning, .unset, G (after.reverse ++ (ds.reverse ++ 35 :: l)) (d :: rest) sk) := by
    unfold scalarNodeRead
    simp only [hr, pure, Except.pure]
  simp only [bind, Except.bind, pure, Except.pure, hsn]
  have hcri := cri_seps env.lex hcfg [] (Seps.blanks [] (by simp)) (after.reverse ++ (ds.reverse ++ 35 :: l)) rest d false sk .warning hd
  simp only [List.nil_append, List.reverse_nil] at hcri
  rw [hcri]
  simp

/-! ## a typed select value whose keyword names no member of the select -/

/-- `SDAI_Select::STEPread` case B on `KEYWORD blanks (` where the keyword names none of the select's non-entity members:
    nothing is read, WARNING, the stream rests right behind the `(` -/
theorem selectRead_foreign (env : Env F) (sd : SelectD) (n0 : Byte) (ns : List Byte)
    (hn0 : isAlpha n0 = true) (hns : ns.all selc = true)
    (hfind : sd.members.find? (fun x => x.name == bytesToString (upperBytes (n0 :: ns)) && !x.ty.isEntity) = none)
    (sA : List Byte) (hsA : sA.all isSpace = true) (l : List Byte) (sk : Bool) (r : List Byte) :
    selectRead env sd (G l (n0 :: (ns ++ (sA ++ 40 :: r))) sk) =
      .ok (.warning, .atom .unset, G (40 :: (sA.reverse ++ (ns.reverse ++ n0 :: l))) r sk) := by
  obtain ⟨hn0s, _, _, hn040, _, _, _, _, _⟩ := alpha_facts hn0
  have hsel0 : selc n0 = true := by simp [selc, hn0s, hn040]
  unfold selectRead
  rw [show (G l (n0 :: (ns ++ (sA ++ 40 :: r))) sk).ws = _ from ws_good0 l n0 _ sk hn0s]
  simp only [bind, Except.bind, pure, Except.pure]
  rw [shiftInto_good 0 l n0 _ sk hn0s]
  simp only [hn0, if_true]
  rw [selNameLoop_word ns hns sA hsA _ sk _ [] n0 (n0 :: l) hsel0 (by simp only [G, List.length_append, List.length_cons]; omega)]
  simp only [List.nil_append, hfind, G_good, Bool.not_true, Bool.false_eq_true, if_false]

/-- **a typed select value with a foreign keyword** (`FOO(1.5` in front of the value's own `)`, or of a `,`): for a select
    attribute, the pseudo-parameter `KEYWORD blanks ( value` - keyword naming no non-entity member, `value` any text without
    `,` `)` `;` that starts with neither a blank nor `/` - is read with WARNING to the unset value and the stream rests at
    the delimiter behind `value`; that delimiter is normally the value's own `)`, which the instance reader then takes for
    the end of the parameter list (see `C03_foreign_select_keyword_flawed`) -/
theorem attr_select_foreign (env : Env F) (strict : Bool) (a : AttrD) (n : String) (hty : a.ty = .one (.select n))
    (hder : a.derived = false) (sd : SelectD) (hsd : env.dict.select? n = some sd)
    (n0 : Byte) (ns : List Byte) (hn0 : isAlpha n0 = true) (hns : ns.all selc = true)
    (hfind : sd.members.find? (fun x => x.name == bytesToString (upperBytes (n0 :: ns)) && !x.ty.isEntity) = none)
    (sA : List Byte) (hsA : sA.all isSpace = true)
    (j0 : Byte) (js : List Byte) (hj0s : isSpace j0 = false) (hj047 : j0 ≠ 47)
    (hj : ∀ b ∈ j0 :: js, delimAt env.lex attrDelims b = false)
    (hsemi : env.lex.criStopsAtSemicolon = true → ∀ b ∈ j0 :: js, b ≠ 59)
    (l : List Byte) (sk : Bool) (d : Byte) (rest : List Byte) (hd : d = 44 ∨ d = 41) :
    attrSTEPread env strict a (G l (n0 :: (ns ++ (sA ++ 40 :: (j0 :: (js ++ d :: rest))))) sk) =
      .ok (.warning, .one (.atom .unset),
           G ((j0 :: js).reverse ++ (40 :: (sA.reverse ++ (ns.reverse ++ n0 :: l)))) (d :: rest) sk) := by
  obtain ⟨hn0s, _, _, _, _, _, _, _, _⟩ := alpha_facts hn0
  have hn036 : (n0 == 36) = false := by
    have : n0 ≠ 36 := by intro h; rw [h] at hn0; exact absurd hn0 (by decide)
    simpa using this
  have hn044 : (n0 == 44) = false := by
    have : n0 ≠ 44 := by intro h; rw [h] at hn0; exact absurd hn0 (by decide)
    simpa using this
  have hn041 : (n0 == 41) = false := by
    have : n0 ≠ 41 := by intro h; rw [h] at hn0; exact absurd hn0 (by decide)
    simpa using this
  have hsr := selectRead_foreign env sd n0 ns hn0 hns hfind sA hsA l sk (j0 :: (js ++ d :: rest))
  unfold attrSTEPread
  rw [show (G l (n0 :: (ns ++ (sA ++ 40 :: (j0 :: (js ++ d :: rest))))) sk).ws = _ from ws_good0 l n0 _ sk hn0s]
  simp only [bind, Except.bind, pure, Except.pure]
  rw [peekC_good]
  simp only [hder, Bool.false_eq_true, if_false, hn036, hn044, hn041, Bool.or_self, hty, hsd, hsr]
  rw [show checkRemainingInput env.lex (some attrDelims) (G (40 :: (sA.reverse ++ (ns.reverse ++ n0 :: l))) (j0 :: (js ++ d :: rest)) sk) Sev.warning =
    (G ((j0 :: js).reverse ++ (40 :: (sA.reverse ++ (ns.reverse ++ n0 :: l)))) (d :: rest) sk, Sev.warning.greater .warning) from
    cri_junk env.lex j0 js hj0s hj047 hj hsemi _ rest d false sk .warning hd]
  rfl

/-! ## a REAL token with something behind it -/

/-- `ReadReal` on a token of the grammar `real` whose denotation converts, with something behind it that is no digit, no
    `E`/`e`, no blank, no `/` and holds no delimiter (nor `;`): the value is assigned, the rest reported: WARNING -/
theorem readReal_tok_junk (ops : FloatOps F) (lex : LexCfg)
    (tok : List Byte) (dec : Decimal) (v : F) (htok : isReal tok = true) (hden : denoteReal tok = some dec)
    (hv : ops.ofDecimal dec = some v) (hbuf : lex.realBuf = 0 ∨ tok.length < lex.realBuf)
    (j0 : Byte) (js : List Byte) (hj0s : isSpace j0 = false) (hj047 : j0 ≠ 47) (hj0d : isDigit j0 = false)
    (hj0e : j0 ≠ 101) (hj0E : j0 ≠ 69)
    (hj : ∀ b ∈ j0 :: js, delimAt lex attrDelims b = false)
    (hsemi : lex.criStopsAtSemicolon = true → ∀ b ∈ j0 :: js, b ≠ 59)
    (l : List Byte) (sk : Bool) (d : Byte) (rest : List Byte) (hd : d = 44 ∨ d = 41) :
    readReal ops lex (some attrDelims) (G l (tok ++ (j0 :: (js ++ d :: rest))) sk) .null =
      .ok (some v, G ((j0 :: js).reverse ++ (tok.reverse ++ l)) (d :: rest) sk, .warning) := by
  obtain ⟨sg, ip, fp, ex, rfl, hsg, hip1, hip, hfp, hex⟩ := isReal_shape tok htok
  obtain ⟨c, u, hcu, hcs⟩ : ∃ c u, realText sg ip fp 69 ex = c :: u ∧ isSpace c = false := by
    obtain ⟨i0, iu, rfl⟩ : ∃ i0 iu, ip = i0 :: iu := by
      cases ip with
      | nil => exact absurd rfl hip1
      | cons i0 iu => exact ⟨i0, iu, rfl⟩
    have hi0 : isDigit i0 = true := by simp at hip; exact hip.1
    rcases hsg with rfl | rfl | rfl
    · exact ⟨i0, iu ++ 46 :: (fp ++ exText 69 ex), by simp [realText], digit_not_space hi0⟩
    · exact ⟨43, i0 :: (iu ++ 46 :: (fp ++ exText 69 ex)), by simp [realText], by decide⟩
    · exact ⟨45, i0 :: (iu ++ 46 :: (fp ++ exText 69 ex)), by simp [realText], by decide⟩
  have hcont : RealCont (j0 :: (js ++ d :: rest)) := Or.inr ⟨j0, _, rfl, hj0d, hj0e, hj0E⟩
  have hcol := realCollect_realText sg ip fp ex (j0 :: (js ++ d :: rest)) hsg hip1 hip hfp hex hcont
  have hparse := parse_scanFloat_realText sg ip fp 69 ex hsg hip1 hip hfp (Or.inl rfl) hex
  have hden' := parse_realText sg ip fp 69 ex hsg hip1 hip hfp (Or.inl rfl) hex
  have hdec : dec = ⟨sg == [45], digitsVal (ip ++ fp) 0, exVal ex - (fp.length : Int)⟩ := by
    unfold denoteReal at hden; rw [hden'] at hden; simpa using hden.symm
  have hconv : ops.conv (scanFloat [] (realText sg ip fp 69 ex)).1 = .ok v := by
    unfold FloatOps.conv; rw [hparse]; simp only; rw [← hdec, hv]
  have hov : (lex.realBuf != 0 && decide ((realText sg ip fp 69 ex).length ≥ lex.realBuf)) = false := by
    rcases hbuf with h0 | hlt
    · simp [h0]
    · simp; intro _; omega
  have hcri := cri_junk lex j0 js hj0s hj047 hj hsemi ((realText sg ip fp 69 ex).reverse ++ l) rest d false sk Sev.null hd
  rw [hcu] at hcol hconv hov hcri ⊢
  simp only [List.cons_append, readReal, ws_good0 _ _ _ _ hcs, IStream.good, Bool.not_false, Bool.and_self, Bool.not_true,
    Bool.false_eq_true, if_false]
  simp only [List.cons_append] at hcol
  simp only [hcol, hov, Bool.false_eq_true, if_false, hconv, List.isEmpty_cons, List.append_nil]
  simp only [show Sev.null.greater Sev.null = Sev.null from rfl, hcri]
  rfl

/-- a REAL token followed directly by something else (`1.5X`, `2.0'a'`) for a REAL attribute: the real is stored (unless it
    is the in-band null), the rest reported: WARNING, the stream at the delimiter -/
theorem attr_real_then_junk (env : Env F) (strict : Bool) (a : AttrD) (hty : a.ty = .one .real) (hder : a.derived = false)
    (tok : List Byte) (dec : Decimal) (v : F) (htok : isReal tok = true) (hden : denoteReal tok = some dec)
    (hv : env.ops.ofDecimal dec = some v) (hnn : env.ops.isRealNull v = false)
    (hbuf : env.lex.realBuf = 0 ∨ tok.length < env.lex.realBuf)
    (j0 : Byte) (js : List Byte) (hj0s : isSpace j0 = false) (hj047 : j0 ≠ 47) (hj0d : isDigit j0 = false)
    (hj0e : j0 ≠ 101) (hj0E : j0 ≠ 69)
    (hj : ∀ b ∈ j0 :: js, delimAt env.lex attrDelims b = false)
    (hsemi : env.lex.criStopsAtSemicolon = true → ∀ b ∈ j0 :: js, b ≠ 59)
    (l : List Byte) (sk : Bool) (d : Byte) (rest : List Byte) (hd : d = 44 ∨ d = 41) :
    attrSTEPread env strict a (G l (tok ++ (j0 :: (js ++ d :: rest))) sk) =
      .ok (.warning, .one (.atom (.real v)), G ((j0 :: js).reverse ++ (tok.reverse ++ l)) (d :: rest) sk) := by
  have hr := readReal_tok_junk env.ops env.lex tok dec v htok hden hv hbuf j0 js hj0s hj047 hj0d hj0e hj0E hj hsemi l sk d rest hd
  obtain ⟨c, u, hcu, hcs, hc36, hc44, hc41, _, _⟩ := number_head tok (Or.inl htok)
  have hrS := readRealS_of env.ops env.lex _ _ _ _ _ _ hr (show realSentinel env.ops (some v) = false from hnn)
  unfold attrSTEPread
  rw [hcu] at hrS ⊢
  simp only [List.cons_append] at hrS ⊢
  rw [show (G l (c :: (u ++ (j0 :: (js ++ d :: rest)))) sk).ws = G l (c :: (u ++ (j0 :: (js ++ d :: rest)))) sk from ws_good0 l c _ sk hcs]
  simp only [bind, Except.bind, pure, Except.pure]
  rw [show (G l (c :: (u ++ (j0 :: (js ++ d :: rest)))) sk).peekC = (c, G l (c :: (u ++ (j0 :: (js ++ d :: rest)))) sk) from peekC_good l c _ sk]
  have e36 : (c == 36) = false := by simpa using hc36
  have e44 : (c == 44) = false := by simpa using hc44
  have e41 : (c == 41) = false := by simpa using hc41
  simp only [hder, Bool.false_eq_true, if_false, e36, e44, e41, Bool.or_self, hty]
  unfold attrSTEPread.scalarNodeReadAttr
  simp only [hrS, liftOutcome, bind, Except.bind, pure, Except.pure]
  simp [realValue, hnn, valueToAtom]

/-! ## a violation inside a typed select value -/

/-- the value between the parentheses of a typed select is read with severity `sev` to `a`; after `in >> ws` the stream
    rests at the `)` (`LeafRd` is the case NULL with blanks behind the value) -/
def LeafRdS (env : Env F) (m : SelMember) (tok : List Byte) (a : Atom F) (sev : Sev) : Prop :=
  (∃ c u, tok = c :: u ∧ isSpace c = false) ∧
  ∀ (l : List Byte) (sk : Bool) (rest : List Byte),
    ∃ S sk', (sk' = sk ∨ sk' = false) ∧
      selContentRead env m (G l (tok ++ 41 :: rest) sk) = .ok (sev, a, S) ∧
      S.ws = G (tok.reverse ++ l) (41 :: rest) sk'

/-- `SDAI_Select::STEPread` case B with a value that reports: the severity is what the select returns -/
theorem selectRead_typed_sev (env : Env F) (sd : SelectD) (m : SelMember) (n0 : Byte) (ns : List Byte)
    (hn0 : isAlpha n0 = true) (hns : ns.all selc = true)
    (hfind : sd.members.find? (fun x => x.name == bytesToString (upperBytes (n0 :: ns)) && !x.ty.isEntity) = some m)
    (tok : List Byte) (a : Atom F) (sev : Sev) (hleaf : LeafRdS env m tok a sev) (sA sB : List Byte) (hsA : sA.all isSpace = true)
    (hsB : sB.all isSpace = true) (l : List Byte) (sk : Bool) (rest : List Byte) :
    ∃ sk', (sk' = sk ∨ sk' = false) ∧
      selectRead env sd (G l (n0 :: (ns ++ (sA ++ 40 :: (sB ++ (tok ++ 41 :: rest))))) sk) =
        .ok (sev, .sel m.name a,
             G (41 :: (tok.reverse ++ (sB.reverse ++ 40 :: (sA.reverse ++ (ns.reverse ++ n0 :: l))))) rest sk') := by
  obtain ⟨hn0s, _, _, hn040, _, _, _, _, _⟩ := alpha_facts hn0
  obtain ⟨⟨c, u, hcu, hcs⟩, hrd⟩ := hleaf
  obtain ⟨S, sk', hsk', hcr, hws⟩ := hrd (sB.reverse ++ 40 :: (sA.reverse ++ (ns.reverse ++ n0 :: l))) sk rest
  refine ⟨sk', hsk', ?_⟩
  have hsel0 : selc n0 = true := by simp [selc, hn0s, hn040]
  unfold selectRead
  rw [show (G l (n0 :: (ns ++ (sA ++ 40 :: (sB ++ (tok ++ 41 :: rest))))) sk).ws = _ from ws_good0 l n0 _ sk hn0s]
  simp only [bind, Except.bind, pure, Except.pure]
  rw [shiftInto_good 0 l n0 _ sk hn0s]
  simp only [hn0, if_true]
  rw [selNameLoop_word ns hns sA hsA _ sk _ [] n0 (n0 :: l) hsel0 (by simp only [G, List.length_append, List.length_cons]; omega)]
  simp only [List.nil_append, hfind]
  rw [hcu, show (G (40 :: (sA.reverse ++ (ns.reverse ++ n0 :: l))) (sB ++ (c :: u ++ 41 :: rest)) sk).ws =
    G (sB.reverse ++ 40 :: (sA.reverse ++ (ns.reverse ++ n0 :: l))) (c :: u ++ 41 :: rest) sk from ws_good _ sB c _ sk hsB hcs]
  rw [← hcu, hcr]
  simp only [hws]
  rw [shiftInto_good n0 _ 41 rest sk' (by decide)]
  simp

/-- **a typed select value whose value reports** (`LEN_T('abc')`, `CNT_T(x)`): the attribute's severity is the value's (at
    WARNING or INCOMPLETE `CheckRemainingInput` finds only layout behind the `)`), the stream rests at the delimiter -/
theorem attr_select_typed_sev (env : Env F) (strict : Bool) (a : AttrD) (n : String) (hty : a.ty = .one (.select n))
    (hder : a.derived = false) (hcfg : env.lex.criSkipsComments = true) (sd : SelectD) (hsd : env.dict.select? n = some sd)
    (m : SelMember) (n0 : Byte) (ns : List Byte) (hn0 : isAlpha n0 = true) (hns : ns.all selc = true)
    (hfind : sd.members.find? (fun x => x.name == bytesToString (upperBytes (n0 :: ns)) && !x.ty.isEntity) = some m)
    (tok : List Byte) (av : Atom F) (sev : Sev) (hleaf : LeafRdS env m tok av sev) (sA sB : List Byte)
    (hsA : sA.all isSpace = true) (hsB : sB.all isSpace = true)
    (l : List Byte) (sk : Bool) (seps : List Byte) (hs : Seps seps) (d : Byte) (rest : List Byte) (hd : d = 44 ∨ d = 41) :
    ∃ sk', (sk' = sk ∨ sk' = false) ∧
      attrSTEPread env strict a (G l (n0 :: (ns ++ (sA ++ 40 :: (sB ++ (tok ++ 41 :: (seps ++ d :: rest)))))) sk) =
        .ok (sev, .one (.sel m.name av),
             G (seps.reverse ++ (41 :: (tok.reverse ++ (sB.reverse ++ 40 :: (sA.reverse ++ (ns.reverse ++ n0 :: l)))))) (d :: rest) sk') := by
  obtain ⟨hn0s, _, _, _, _, _, _, _, _⟩ := alpha_facts hn0
  have hn036 : (n0 == 36) = false := by
    have : n0 ≠ 36 := by intro h; rw [h] at hn0; exact absurd hn0 (by decide)
    simpa using this
  have hn044 : (n0 == 44) = false := by
    have : n0 ≠ 44 := by intro h; rw [h] at hn0; exact absurd hn0 (by decide)
    simpa using this
  have hn041 : (n0 == 41) = false := by
    have : n0 ≠ 41 := by intro h; rw [h] at hn0; exact absurd hn0 (by decide)
    simpa using this
  obtain ⟨sk', hsk', hsr⟩ := selectRead_typed_sev env sd m n0 ns hn0 hns hfind tok av sev hleaf sA sB hsA hsB l sk (seps ++ d :: rest)
  refine ⟨sk', hsk', ?_⟩
  unfold attrSTEPread
  rw [show (G l (n0 :: (ns ++ (sA ++ 40 :: (sB ++ (tok ++ 41 :: (seps ++ d :: rest)))))) sk).ws = _ from ws_good0 l n0 _ sk hn0s]
  simp only [bind, Except.bind, pure, Except.pure]
  rw [peekC_good]
  simp only [hder, Bool.false_eq_true, if_false, hn036, hn044, hn041, Bool.or_self, hty, hsd, hsr]
  rw [cri_seps env.lex hcfg seps hs _ rest d false sk' sev hd]

/-- the value of an INTEGER member that starts like no integer (`CNT_T('a')`, `CNT_T(.T.)`; no `,` `)` `;` inside): nothing
    stored, WARNING -/
theorem LeafRdS.integer_junk (env : Env F) (m : SelMember) (hm : m.ty = .integer)
    (j0 : Byte) (js : List Byte) (hj0s : isSpace j0 = false) (hj047 : j0 ≠ 47)
    (hj0d : isDigit j0 = false) (hj043 : j0 ≠ 43) (hj045 : j0 ≠ 45)
    (hj : ∀ b ∈ j0 :: js, delimAt env.lex attrDelims b = false)
    (hsemi : env.lex.criStopsAtSemicolon = true → ∀ b ∈ j0 :: js, b ≠ 59) :
    LeafRdS env m (j0 :: js) .unset .warning := by
  refine ⟨⟨j0, js, rfl, hj0s⟩, ?_⟩
  intro l sk rest
  have hr := readInteger_junk env.lex j0 js hj0s hj047 hj0d hj043 hj045 hj hsemi l sk 41 rest (Or.inr rfl)
  refine ⟨_, sk, Or.inl rfl, ?_, ws_good0 _ 41 rest sk (by decide)⟩
  unfold selContentRead
  simp only [hm]
  rw [show (if (ElemTy.integer == ElemTy.number) = true then ElemTy.real else ElemTy.integer) = ElemTy.integer from rfl,
    scalarNodeRead_integer]
  simp only [List.cons_append] at hr ⊢
  rw [hr]
  simp [intValue, valueToAtom]

end StepModel.P21.RLemmas

import StepModel.P21.ReaderLemmas3
/-! `SkipInstance` (pass 1) gets over the tokens of every covered parameter kind. -/
namespace StepModel.P21.RLemmas
open StepModel StepModel.IStream StepModel.P21 StepModel.P21.Lemmas StepModel.P21.Grammar

variable {F : Type}

theorem all_imp {p q : Byte → Bool} (h : ∀ c, p c = true → q c = true) (l : List Byte) (hl : l.all p = true) : l.all q = true := by
  rw [List.all_eq_true] at hl ⊢
  exact fun c hc => h c (hl c hc)

theorem digit_plain {c : Byte} (h : isDigit c = true) : plainc c = true := by
  simp [isDigit, plainc] at *; bomega

theorem pw_plain {c : Byte} (h : pw c = true) : plainc c = true := by
  simp [pw, isAlnum, isAlpha, isUpper, isLower, isDigit, plainc] at *; bomega

theorem xdigit_plain {c : Byte} (h : isXDigit c = true) : plainc c = true := by
  simp [isXDigit, isDigit, plainc] at *; bomega

theorem sign_plain {sg : List Byte} (h : IsSign sg) : sg.all plainc = true := by
  rcases h with rfl | rfl | rfl <;> decide

theorem isInteger_plain (t : List Byte) (h : isInteger t = true) : t.all plainc = true := by
  obtain ⟨sg, hsg, ht, _⟩ := splitSign_append t
  unfold isInteger at h
  simp only [Bool.and_eq_true, allDigits] at h
  rw [ht, List.all_append, sign_plain hsg, all_imp (fun c => digit_plain) _ h.2]
  rfl

theorem isReal_plain (t : List Byte) (h : isReal t = true) : t.all plainc = true := by
  obtain ⟨sg, ip, fp, ex, rfl, hsg, _, hip, hfp, hex⟩ := isReal_shape t h
  have h1 := sign_plain hsg
  have h2 := all_imp (fun c => digit_plain) _ hip
  have h3 := all_imp (fun c => digit_plain) _ hfp
  have h4 : (exText 69 ex).all plainc = true := by
    cases ex with
    | none => rfl
    | some p =>
      obtain ⟨esg, ed⟩ := p
      obtain ⟨hes, _, hed⟩ := hex
      have := sign_plain hes
      have := all_imp (fun c => digit_plain) _ hed
      simp_all [exText, plainc]
  simp_all [realText, plainc]

theorem ElemOK.passes (e : ElemP) (h : ElemOK e) (d : Byte) (hd : plainc d = true) :
    Passes (e.before ++ (e.tok ++ (e.after ++ [d]))) := by
  obtain ⟨hi, _, _, hb, ha⟩ := h
  exact Passes.append (Passes.seps hb) (Passes.append (Passes.all_plain _ (isInteger_plain _ hi))
    (Passes.append (Passes.seps ha) (Passes.plain d hd)))

theorem Passes.elems (es : List ElemP) (hne : es ≠ []) (h : ∀ e ∈ es, ElemOK e) : Passes (renderElems es) := by
  induction es with
  | nil => exact absurd rfl hne
  | cons p qs ih =>
    cases qs with
    | nil => exact ElemOK.passes p (h p (by simp)) 41 (by decide)
    | cons q qs' =>
      have e : renderElems (p :: q :: qs') = (p.before ++ (p.tok ++ (p.after ++ [44]))) ++ renderElems (q :: qs') := by
        simp [renderElems]
      rw [e]
      exact Passes.append (ElemOK.passes p (h p (by simp)) 44 (by decide))
        (ih (by simp) (fun x hx => h x (by simp [hx])))

theorem Passes.aggrText (es : List ElemP) (inner : List Byte) (hok : ∀ e ∈ es, ElemOK e) (hin : Seps inner) :
    Passes (aggrText es inner) := by
  cases es with
  | nil =>
    exact Passes.append (a := [40]) (Passes.plain 40 (by decide)) (Passes.append (Passes.seps hin) (Passes.plain 41 (by decide)))
  | cons e es' =>
    exact Passes.append (a := [40]) (Passes.plain 40 (by decide)) (Passes.elems (e :: es') (by simp) hok)

end StepModel.P21.RLemmas

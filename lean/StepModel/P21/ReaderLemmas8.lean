import StepModel.P21.ReaderLemmas7
/-! Typed SELECT values: `SDAI_Select::STEPread` on `KEYWORD ( value )` (case B) and on an entity reference `#id`,
standing anywhere in a file, as attribute and as aggregate element. -/
namespace StepModel.P21.RLemmas
open StepModel StepModel.IStream StepModel.P21 StepModel.P21.Lemmas StepModel.P21.Grammar

variable {F : Type}

/-- characters of a type keyword in front of its `(`: no blank, no `(` -/
def selc (c : Byte) : Bool := !isSpace c && c != 40

/-- `in >> c` over blanks, either state of `skipws`: with `skipws` on the blanks are skipped, with it off the first blank
    is read -/
theorem shiftInto_sk (c : Byte) (l sp : List Byte) (x : Byte) (t : List Byte) (hsp : sp.all isSpace = true) (hx : isSpace x = false) :
    shiftInto c (G l (sp ++ x :: t) true) = (x, G (x :: (sp.reverse ++ l)) t true) := by
  simp [shiftInto, IStream.getChar, IStream.sentry, IStream.good, dropSpaces_append _ _ _ hsp, dropSpaces_nonspace _ _ _ hx]

/-- the type-name loop after the keyword: blanks (the end-of-type flag is set by the first) up to the `(` -/
theorem selNameLoop_eot (sp : List Byte) (hsp : sp.all isSpace = true) (r : List Byte) :
    ∀ (fuel : Nat) (tmp : List Byte) (eot : Bool) (b : Byte) (l : List Byte), isSpace b = true → sp.length + 2 ≤ fuel →
      selNameLoop fuel tmp eot b (G (b :: l) (sp ++ 40 :: r) false) = .ok (tmp, G (40 :: (sp.reverse ++ b :: l)) r false) := by
  induction sp with
  | nil =>
    intro fuel tmp eot b l hb hf
    have hb40 : (b != 40) = true := by
      have : b ≠ 40 := by intro h; rw [h] at hb; exact absurd hb (by decide)
      simpa using this
    match fuel, hf with
    | n + 2, _ =>
      unfold selNameLoop
      simp only [hb40, G_good, Bool.and_self, if_true, hb, Bool.or_true, List.nil_append]
      rw [shiftInto_ns]
      unfold selNameLoop
      simp [pure, Except.pure]
  | cons y t ih =>
    intro fuel tmp eot b l hb hf
    have hy : isSpace y = true := by simp at hsp; exact hsp.1
    have ht : t.all isSpace = true := by simp at hsp ⊢; exact hsp.2
    have hb40 : (b != 40) = true := by
      have : b ≠ 40 := by intro h; rw [h] at hb; exact absurd hb (by decide)
      simpa using this
    match fuel, hf with
    | n + 1, hf =>
      unfold selNameLoop
      simp only [hb40, G_good, Bool.and_self, if_true, hb, Bool.or_true, List.cons_append]
      rw [shiftInto_ns]
      simp only
      rw [ih ht n tmp true y (b :: l) hy (by simp only [List.length_cons] at hf; omega)]
      simp

/-- the last character of the keyword, blanks, `(` -/
theorem selNameLoop_last (sp : List Byte) (hsp : sp.all isSpace = true) (r : List Byte) (sk : Bool) (fuel : Nat)
    (tmp : List Byte) (c : Byte) (l : List Byte) (hc : selc c = true) (hf : sp.length + 3 ≤ fuel) :
    selNameLoop fuel tmp false c (G l (sp ++ 40 :: r) sk) = .ok (tmp ++ [c], G (40 :: (sp.reverse ++ l)) r sk) := by
  simp only [selc, Bool.and_eq_true, Bool.not_eq_true', bne_iff_ne, ne_eq] at hc
  have hc40 : (c != 40) = true := by simpa using hc.2
  match fuel, hf with
  | n + 2, hf =>
    cases sk with
    | true =>
      unfold selNameLoop
      simp only [hc40, G_good, Bool.and_self, if_true, Bool.false_or, hc.1, Bool.false_eq_true, if_false]
      rw [shiftInto_sk c l sp 40 r hsp (by decide)]
      unfold selNameLoop
      simp [pure, Except.pure]
    | false =>
      cases sp with
      | nil =>
        unfold selNameLoop
        simp only [hc40, G_good, Bool.and_self, if_true, Bool.false_or, hc.1, Bool.false_eq_true, if_false, List.nil_append]
        rw [shiftInto_ns]
        unfold selNameLoop
        simp [pure, Except.pure]
      | cons y t =>
        have hy : isSpace y = true := by simp at hsp; exact hsp.1
        have ht : t.all isSpace = true := by simp at hsp ⊢; exact hsp.2
        unfold selNameLoop
        simp only [hc40, G_good, Bool.and_self, if_true, Bool.false_or, hc.1, Bool.false_eq_true, if_false, List.cons_append]
        rw [shiftInto_ns]
        simp only
        rw [selNameLoop_eot t ht r (n + 1) (tmp ++ [c]) false y l hy (by simp only [List.length_cons] at hf; omega)]
        simp

/-- the type-name loop over a keyword, blanks, `(`: the keyword is collected, the `(` is consumed -/
theorem selNameLoop_word (ns : List Byte) (hns : ns.all selc = true) (sp : List Byte) (hsp : sp.all isSpace = true)
    (r : List Byte) (sk : Bool) :
    ∀ (fuel : Nat) (tmp : List Byte) (c : Byte) (l : List Byte), selc c = true → ns.length + sp.length + 3 ≤ fuel →
      selNameLoop fuel tmp false c (G l (ns ++ (sp ++ 40 :: r)) sk) =
        .ok (tmp ++ c :: ns, G (40 :: (sp.reverse ++ (ns.reverse ++ l))) r sk) := by
  induction ns with
  | nil =>
    intro fuel tmp c l hc hf
    have := selNameLoop_last sp hsp r sk fuel tmp c l hc (by simpa using hf)
    simpa using this
  | cons x t ih =>
    intro fuel tmp c l hc hf
    have hx : selc x = true := by simp at hns; exact hns.1
    have ht : t.all selc = true := by simp at hns ⊢; exact hns.2
    simp only [selc, Bool.and_eq_true, Bool.not_eq_true', bne_iff_ne, ne_eq] at hc
    have hc40 : (c != 40) = true := by simpa using hc.2
    have hxs : isSpace x = false := by simp only [selc, Bool.and_eq_true, Bool.not_eq_true'] at hx; exact hx.1
    match fuel, hf with
    | n + 1, hf =>
      unfold selNameLoop
      simp only [hc40, G_good, Bool.and_self, if_true, Bool.false_or, hc.1, Bool.false_eq_true, if_false, List.cons_append]
      rw [shiftInto_good c l x _ sk hxs]
      simp only
      rw [ih ht n (tmp ++ [c]) x (x :: l) hx (by simp only [List.length_cons] at hf; omega)]
      simp

/-- what the generated `STEPread_content` does with the value between the parentheses of a typed select: it is read
    without a message, blanks after it are left or skipped, and after `in >> ws` the stream rests at the `)` -/
def LeafRd (env : Env F) (m : SelMember) (tok : List Byte) (a : Atom F) : Prop :=
  (∃ c u, tok = c :: u ∧ isSpace c = false) ∧
  ∀ (l : List Byte) (sk : Bool) (sp rest : List Byte), sp.all isSpace = true →
    ∃ S sk', (sk' = sk ∨ sk' = false) ∧
      selContentRead env m (G l (tok ++ (sp ++ 41 :: rest)) sk) = .ok (.null, a, S) ∧
      S.ws = G (sp.reverse ++ (tok.reverse ++ l)) (41 :: rest) sk'

/-- `SDAI_Select::STEPread` case B: `KEYWORD ( blanks value blanks )` -/
theorem selectRead_typed (env : Env F) (sd : SelectD) (m : SelMember) (n0 : Byte) (ns : List Byte)
    (hn0 : isAlpha n0 = true) (hns : ns.all selc = true)
    (hfind : sd.members.find? (fun x => x.name == bytesToString (upperBytes (n0 :: ns)) && !x.ty.isEntity) = some m)
    (tok : List Byte) (a : Atom F) (hleaf : LeafRd env m tok a) (sA sB sC : List Byte) (hsA : sA.all isSpace = true)
    (hsB : sB.all isSpace = true) (hsC : sC.all isSpace = true) (l : List Byte) (sk : Bool) (rest : List Byte) :
    ∃ sk', (sk' = sk ∨ sk' = false) ∧
      selectRead env sd (G l (n0 :: (ns ++ (sA ++ 40 :: (sB ++ (tok ++ (sC ++ 41 :: rest)))))) sk) =
        .ok (.null, .sel m.name a,
             G (41 :: (sC.reverse ++ (tok.reverse ++ (sB.reverse ++ 40 :: (sA.reverse ++ (ns.reverse ++ n0 :: l)))))) rest sk') := by
  obtain ⟨hn0s, _, _, hn040, _, _, _, _, _⟩ := alpha_facts hn0
  obtain ⟨⟨c, u, hcu, hcs⟩, hrd⟩ := hleaf
  obtain ⟨S, sk', hsk', hcr, hws⟩ := hrd (sB.reverse ++ 40 :: (sA.reverse ++ (ns.reverse ++ n0 :: l))) sk sC rest hsC
  refine ⟨sk', hsk', ?_⟩
  have hsel0 : selc n0 = true := by simp [selc, hn0s, hn040]
  unfold selectRead
  rw [show (G l (n0 :: (ns ++ (sA ++ 40 :: (sB ++ (tok ++ (sC ++ 41 :: rest)))))) sk).ws = _ from ws_good0 l n0 _ sk hn0s]
  simp only [bind, Except.bind, pure, Except.pure]
  rw [shiftInto_good 0 l n0 _ sk hn0s]
  simp only [hn0, if_true]
  rw [selNameLoop_word ns hns sA hsA _ sk _ [] n0 (n0 :: l) hsel0 (by simp only [G, List.length_append, List.length_cons]; omega)]
  simp only [List.nil_append, hfind]
  rw [hcu, show (G (40 :: (sA.reverse ++ (ns.reverse ++ n0 :: l))) (sB ++ (c :: u ++ (sC ++ 41 :: rest))) sk).ws =
    G (sB.reverse ++ 40 :: (sA.reverse ++ (ns.reverse ++ n0 :: l))) (c :: u ++ (sC ++ 41 :: rest)) sk from ws_good _ sB c _ sk hsB hcs]
  rw [← hcu, hcr]
  simp only [hws]
  rw [shiftInto_good n0 _ 41 rest sk' (by decide)]
  simp

/-! ## the leaves -/

theorem blanks_seps {sp : List Byte} (h : sp.all isSpace = true) : Seps sp := Seps.blanks sp h

theorem LeafRd.integer (env : Env F) (hcfg : env.lex.criSkipsComments = true) (m : SelMember) (hm : m.ty = .integer)
    (tok : List Byte) (htok : isInteger tok = true) (hlo : longMin ≤ denoteInteger tok) (hhi : denoteInteger tok < longMax) :
    LeafRd env m tok (.int (denoteInteger tok)) := by
  obtain ⟨c, u, hcu, hcs, _⟩ := isInteger_head47 tok htok
  refine ⟨⟨c, u, hcu, hcs⟩, ?_⟩
  intro l sk sp rest hsp
  have hr := readInteger_tok env.lex hcfg tok htok hlo (by omega) l sk sp (blanks_seps hsp) 41 rest (Or.inr rfl)
  have h3 : (denoteInteger tok == longMax) = false := by simp; omega
  refine ⟨_, sk, Or.inl rfl, ?_, ws_good0 _ 41 rest sk (by decide)⟩
  unfold selContentRead
  simp only [hm]
  rw [show (if (ElemTy.integer == ElemTy.number) = true then ElemTy.real else ElemTy.integer) = ElemTy.integer from rfl,
    scalarNodeRead_integer, hr]
  simp [intValue, h3, valueToAtom]

theorem LeafRd.real (env : Env F) (hcfg : env.lex.criSkipsComments = true) (m : SelMember) (hm : m.ty = .real ∨ m.ty = .number)
    (tok : List Byte) (dec : Decimal) (v : F) (htok : isReal tok = true) (hden : denoteReal tok = some dec)
    (hv : env.ops.ofDecimal dec = some v) (hnn : env.ops.isRealNull v = false)
    (hbuf : env.lex.realBuf = 0 ∨ tok.length < env.lex.realBuf) :
    LeafRd env m tok (.real v) := by
  obtain ⟨c, u, hcu, hcs, _⟩ := isReal_head tok htok
  refine ⟨⟨c, u, hcu, hcs⟩, ?_⟩
  intro l sk sp rest hsp
  have hr := readReal_tok env.ops env.lex hcfg tok dec v htok hden hv hbuf l sk sp (blanks_seps hsp) 41 rest (Or.inr rfl)
  refine ⟨_, sk, Or.inl rfl, ?_, ws_good0 _ 41 rest sk (by decide)⟩
  have hsn : scalarNodeRead env .real (G l (tok ++ (sp ++ 41 :: rest)) sk) =
      .ok (.null, .real v, G (sp.reverse ++ (tok.reverse ++ l)) (41 :: rest) sk) := by
    unfold scalarNodeRead
    simp only [hr, liftOutcome, bind, Except.bind, pure, Except.pure]
    simp [realValue, hnn, valueToAtom]
  unfold selContentRead
  rcases hm with hm | hm <;> simp only [hm] <;>
    first
    | (rw [show (if (ElemTy.real == ElemTy.number) = true then ElemTy.real else ElemTy.real) = ElemTy.real from rfl]; exact hsn)
    | (rw [show (if (ElemTy.number == ElemTy.number) = true then ElemTy.real else ElemTy.number) = ElemTy.real from rfl]; exact hsn)

theorem LeafRd.string (env : Env F) (m : SelMember) (hm : m.ty = .string) (b : List Byte) (hsb : StringBody b) :
    LeafRd env m (39 :: (b ++ [39])) (.str (39 :: (b ++ [39]))) := by
  refine ⟨⟨39, b ++ [39], rfl, by decide⟩, ?_⟩
  intro l sk sp rest hsp
  obtain ⟨c, u, hcu, hc39⟩ : ∃ c u, sp ++ 41 :: rest = c :: u ∧ c ≠ 39 :=
    seps_then sp (blanks_seps hsp) 41 rest (fun c => c ≠ 39) (fun c hc h => by rw [h] at hc; exact absurd hc (by decide)) (by decide) (by decide)
  have hshape : 39 :: (b ++ [39]) ++ (sp ++ 41 :: rest) = 39 :: (b ++ 39 :: c :: u) := by rw [← hcu]; simp
  refine ⟨G (39 :: (b.reverse ++ 39 :: l)) (sp ++ 41 :: rest) false, false, Or.inr rfl, ?_, ?_⟩
  · unfold selContentRead
    simp only [hm]
    rw [show (if (ElemTy.string == ElemTy.number) = true then ElemTy.real else ElemTy.string) = ElemTy.string from rfl,
      hshape, scalarNodeRead_string, stringRead_tok b hsb l sk c u hc39, ← hcu]
    simp
  · have := ws_good (39 :: (b.reverse ++ 39 :: l)) sp 41 rest false hsp (by decide)
    simpa using this

theorem LeafRd.enum (env : Env F) (m : SelMember) (het : EnumTy m.ty) (name : List Byte) (i : Nat) (hne : name ≠ [])
    (hname : name.all pw = true) (hfind : findName (enumKindOf m.ty).table (name.map toUpper) = some i)
    (hset : (enumKindOf m.ty).isUnsetIdx i = false) :
    LeafRd env m (46 :: (name ++ [46])) (.enum i) := by
  refine ⟨⟨46, name ++ [46], rfl, by decide⟩, ?_⟩
  intro l sk sp rest hsp
  have hshape : 46 :: (name ++ [46]) ++ (sp ++ 41 :: rest) = 46 :: (name ++ 46 :: (sp ++ 41 :: rest)) := by simp
  refine ⟨G (46 :: (name.reverse ++ 46 :: l)) (sp ++ 41 :: rest) sk, sk, Or.inl rfl, ?_, ?_⟩
  · have hr := enumRead_tok env.lex (enumKindOf m.ty) false name i hne hname hfind hset l sk (sp ++ 41 :: rest)
    unfold selContentRead
    rw [hshape]
    rcases het with h | h | ⟨items, h⟩ <;> rw [h] at hr hset ⊢ <;>
      (simp only [enumKindOf] at hr hset; unfold scalarNodeRead;
       simp [hr, enumValue, hset, valueToAtom, pure, Except.pure])
  · have := ws_good (46 :: (name.reverse ++ 46 :: l)) sp 41 rest sk hsp (by decide)
    simpa using this

theorem LeafRd.binary (env : Env F) (m : SelMember) (hm : m.ty = .binary) (hex : List Byte) (hne : hex ≠ [])
    (hhex : hex.all isXDigit = true) :
    LeafRd env m (34 :: (hex ++ [34])) (.bin hex) := by
  refine ⟨⟨34, hex ++ [34], rfl, by decide⟩, ?_⟩
  intro l sk sp rest hsp
  have hshape : 34 :: (hex ++ [34]) ++ (sp ++ 41 :: rest) = 34 :: (hex ++ 34 :: (sp ++ 41 :: rest)) := by simp
  refine ⟨G (34 :: (hex.reverse ++ 34 :: l)) (sp ++ 41 :: rest) sk, sk, Or.inl rfl, ?_, ?_⟩
  · unfold selContentRead
    simp only [hm]
    rw [show (if (ElemTy.binary == ElemTy.number) = true then ElemTy.real else ElemTy.binary) = ElemTy.binary from rfl,
      hshape, scalarNodeRead_binary, readBinary_tok env.lex hex hne hhex l sk _]
    have : hex.isEmpty = false := by cases hex <;> simp_all
    simp [this]
  · have := ws_good (34 :: (hex.reverse ++ 34 :: l)) sp 41 rest sk hsp (by decide)
    simpa using this

/-! ## select-valued attributes and aggregate elements -/

/-- the text of a typed select value: `KEYWORD` blanks `(` blanks value blanks `)` -/
def selText (n0 : Byte) (ns sA sB tok sC : List Byte) : List Byte := n0 :: (ns ++ (sA ++ 40 :: (sB ++ (tok ++ (sC ++ [41])))))

theorem selText_append (n0 : Byte) (ns sA sB tok sC R : List Byte) :
    selText n0 ns sA sB tok sC ++ R = n0 :: (ns ++ (sA ++ 40 :: (sB ++ (tok ++ (sC ++ 41 :: R))))) := by
  simp [selText]

/-- a select-valued attribute given `KEYWORD(value)` -/
theorem attr_select_typed (env : Env F) (strict : Bool) (a : AttrD) (n : String) (hty : a.ty = .one (.select n))
    (hder : a.derived = false) (hcfg : env.lex.criSkipsComments = true) (sd : SelectD) (hsd : env.dict.select? n = some sd)
    (m : SelMember) (n0 : Byte) (ns : List Byte) (hn0 : isAlpha n0 = true) (hns : ns.all selc = true)
    (hfind : sd.members.find? (fun x => x.name == bytesToString (upperBytes (n0 :: ns)) && !x.ty.isEntity) = some m)
    (tok : List Byte) (av : Atom F) (hleaf : LeafRd env m tok av) (sA sB sC : List Byte) (hsA : sA.all isSpace = true)
    (hsB : sB.all isSpace = true) (hsC : sC.all isSpace = true)
    (l : List Byte) (sk : Bool) (seps : List Byte) (hs : Seps seps) (d : Byte) (rest : List Byte) (hd : d = 44 ∨ d = 41) :
    ∃ sk', (sk' = sk ∨ sk' = false) ∧
      attrSTEPread env strict a (G l (selText n0 ns sA sB tok sC ++ (seps ++ d :: rest)) sk) =
        .ok (.null, .one (.sel m.name av), G (seps.reverse ++ ((selText n0 ns sA sB tok sC).reverse ++ l)) (d :: rest) sk') := by
  obtain ⟨hn0s, _, _, _, _, _, _, _, _⟩ := alpha_facts hn0
  have hn036 : (n0 == 36) = false := by
    have : n0 ≠ 36 := by intro h; rw [h] at hn0; exact absurd hn0 (by decide)
    simpa using this
  have hn044 : (n0 == 44) = false := by
    have : n0 ≠ 44 := by intro h; rw [h] at hn0; exact absurd hn0 (by decide)
    simpa using this
  have hn041 : (n0 == 41) = false := by
    have : n0 ≠ 41 := by intro h; rw [h] at hn0; exact absurd hn0 (by decide)
    simpa using this
  obtain ⟨sk', hsk', hsr⟩ := selectRead_typed env sd m n0 ns hn0 hns hfind tok av hleaf sA sB sC hsA hsB hsC l sk (seps ++ d :: rest)
  refine ⟨sk', hsk', ?_⟩
  rw [selText_append]
  unfold attrSTEPread
  rw [show (G l (n0 :: (ns ++ (sA ++ 40 :: (sB ++ (tok ++ (sC ++ 41 :: (seps ++ d :: rest))))))) sk).ws = _ from ws_good0 l n0 _ sk hn0s]
  simp only [bind, Except.bind, pure, Except.pure]
  rw [peekC_good]
  simp only [hder, Bool.false_eq_true, if_false, hn036, hn044, hn041, Bool.or_self, hty, hsd, hsr]
  rw [cri_seps env.lex hcfg seps hs _ rest d false sk' .null hd]
  simp [selText]

/-- `SDAI_Select::STEPread` on an entity reference: the first entity member the instance answers to is chosen -/
theorem selectRead_ref (env : Env F) (hcfg : env.lex.criSkipsComments = true) (sd : SelectD) (m : SelMember)
    (ds : List Byte) (hne : ds ≠ []) (hds : ds.all isDigit = true) (hhi : ((digitsVal ds 0 : Nat) : Int) ≤ intMax)
    (hasg : assignEntity env sd ((digitsVal ds 0 : Nat) : Int) = some m)
    (l : List Byte) (sk : Bool) (seps : List Byte) (hs : Seps seps) (d : Byte) (rest : List Byte) (hd : d = 44 ∨ d = 41) :
    selectRead env sd (G l (35 :: (ds ++ (seps ++ d :: rest))) sk) =
      .ok (.null, .sel m.name (.ref ((digitsVal ds 0 : Nat) : Int)), G (seps.reverse ++ (ds.reverse ++ 35 :: l)) (d :: rest) sk) := by
  have hex : ∃ names, env.lookup ((digitsVal ds 0 : Nat) : Int) = some names := by
    unfold assignEntity at hasg
    cases h : env.lookup ((digitsVal ds 0 : Nat) : Int) with
    | none => rw [h] at hasg; cases hasg
    | some names => exact ⟨names, rfl⟩
  obtain ⟨names, hnames⟩ := hex
  have hr := readEntityRef_tok env.lex hcfg (existsLookup env.lookup)
    ds hne hds hhi (by simp only [existsLookup, hnames]) l sk seps hs d rest hd
  unfold selectRead
  rw [show (G l (35 :: (ds ++ (seps ++ d :: rest))) sk).ws = _ from ws_good0 l 35 _ sk (by decide)]
  simp only [bind, Except.bind, pure, Except.pure]
  rw [shiftInto_good 0 l 35 _ sk (by decide)]
  have e1 : isAlpha (35 : Byte) = false := by decide
  have e2 : ((35 : Byte) == 36) = false := by decide
  have e3 : ((35 : Byte) == 44) = false := by decide
  have e4 : ((35 : Byte) == 0) = false := by decide
  simp only [e1, e2, e3, e4, Bool.false_eq_true, if_false, Bool.or_self, beq_self_eq_true, if_true]
  rw [putback_good 35 l _ sk, hr]
  simp only [hasg]

/-- a select-valued attribute given an entity reference -/
theorem attr_select_ref (env : Env F) (strict : Bool) (a : AttrD) (n : String) (hty : a.ty = .one (.select n))
    (hder : a.derived = false) (hcfg : env.lex.criSkipsComments = true) (sd : SelectD) (hsd : env.dict.select? n = some sd)
    (m : SelMember) (ds : List Byte) (hne : ds ≠ []) (hds : ds.all isDigit = true) (hhi : ((digitsVal ds 0 : Nat) : Int) ≤ intMax)
    (hasg : assignEntity env sd ((digitsVal ds 0 : Nat) : Int) = some m)
    (l : List Byte) (sk : Bool) (seps : List Byte) (hs : Seps seps) (d : Byte) (rest : List Byte) (hd : d = 44 ∨ d = 41) :
    attrSTEPread env strict a (G l (35 :: ds ++ (seps ++ d :: rest)) sk) =
      .ok (.null, .one (.sel m.name (.ref ((digitsVal ds 0 : Nat) : Int))),
           G (seps.reverse ++ ((35 :: ds).reverse ++ l)) (d :: rest) sk) := by
  have hsr := selectRead_ref env hcfg sd m ds hne hds hhi hasg l sk seps hs d rest hd
  unfold attrSTEPread
  simp only [List.cons_append]
  rw [show (G l (35 :: (ds ++ (seps ++ d :: rest))) sk).ws = _ from ws_good0 l 35 _ sk (by decide)]
  simp only [bind, Except.bind, pure, Except.pure]
  rw [peekC_good]
  have e36 : ((35 : Byte) == 36) = false := by decide
  have e44 : ((35 : Byte) == 44) = false := by decide
  have e41 : ((35 : Byte) == 41) = false := by decide
  simp only [hder, Bool.false_eq_true, if_false, e36, e44, e41, Bool.or_self, hty, hsd, hsr]
  have hcri := cri_seps env.lex hcfg [] (Seps.blanks [] (by simp)) (seps.reverse ++ (ds.reverse ++ 35 :: l)) rest d false sk .null hd
  simp only [List.nil_append, List.reverse_nil] at hcri
  rw [hcri]
  simp

theorem elemReadCore_select (env : Env F) (n : String) (sd : SelectD) (hsd : env.dict.select? n = some sd) (s : IStream) :
    elemReadCore env (.select n) s = (do
      let (r, v, s1) ← selectRead env sd s
      let (s2, e) := checkRemainingInput env.lex (some attrDelims) s1 r
      let (s3, e2) := checkRemainingInput env.lex (some attrDelims) s2 e
      pure (e2, v, s3)) := by
  unfold elemReadCore
  simp only [hsd]

/-- elements of an aggregate of selects: `KEYWORD(value)` -/
theorem ElemRd.selTyped (env : Env F) (hcfg : env.lex.criSkipsComments = true) (hagg : env.cfg.aggrSkipsComments = true)
    (n : String) (sd : SelectD) (hsd : env.dict.select? n = some sd)
    (m : SelMember) (n0 : Byte) (ns : List Byte) (hn0 : isAlpha n0 = true) (hns : ns.all selc = true)
    (hfind : sd.members.find? (fun x => x.name == bytesToString (upperBytes (n0 :: ns)) && !x.ty.isEntity) = some m)
    (tok : List Byte) (av : Atom F) (hleaf : LeafRd env m tok av) (sA sB sC : List Byte) (hsA : sA.all isSpace = true)
    (hsB : sB.all isSpace = true) (hsC : sC.all isSpace = true) (before after : List Byte) (hb : Seps before) (ha : Seps after) :
    ElemRd env (.select n) { tok := selText n0 ns sA sB tok sC, before := before, after := after, v := .sel m.name av } := by
  obtain ⟨hn0s, hn047, _, _, _, _, _, _, hn092⟩ := alpha_facts hn0
  have hn044 : n0 ≠ 44 := by intro h; rw [h] at hn0; exact absurd hn0 (by decide)
  have hn041 : n0 ≠ 41 := by intro h; rw [h] at hn0; exact absurd hn0 (by decide)
  refine ⟨hb, ⟨n0, _, rfl, hn0s, hn047, hn041, hn092⟩, ?_⟩
  intro l sk d rest hd
  obtain ⟨sk', hsk', hsr⟩ := selectRead_typed env sd m n0 ns hn0 hns hfind tok av hleaf sA sB sC hsA hsB hsC l sk (after ++ d :: rest)
  refine ⟨sk', hsk', ?_⟩
  show elemRead env (.select n) (G l (selText n0 ns sA sB tok sC ++ (after ++ d :: rest)) sk) = _
  rw [selText_append, elemRead_at_tok env hagg _ l n0 _ sk hn0s hn047 hn044 hn041 hn092, elemReadCore_select env n sd hsd]
  simp only [bind, Except.bind, pure, Except.pure, hsr]
  rw [cri_seps env.lex hcfg after ha _ rest d false sk' .null hd]
  have hcri := cri_seps env.lex hcfg [] (Seps.blanks [] (by simp))
    (after.reverse ++ (41 :: (sC.reverse ++ (tok.reverse ++ (sB.reverse ++ 40 :: (sA.reverse ++ (ns.reverse ++ n0 :: l))))))) rest d false sk' .null hd
  simp only [List.nil_append, List.reverse_nil] at hcri
  simp only [hcri]
  simp [selText]

/-- elements of an aggregate of selects: an entity reference -/
theorem ElemRd.selRef (env : Env F) (hcfg : env.lex.criSkipsComments = true) (hagg : env.cfg.aggrSkipsComments = true)
    (n : String) (sd : SelectD) (hsd : env.dict.select? n = some sd) (m : SelMember)
    (ds : List Byte) (hne : ds ≠ []) (hds : ds.all isDigit = true) (hhi : ((digitsVal ds 0 : Nat) : Int) ≤ intMax)
    (hasg : assignEntity env sd ((digitsVal ds 0 : Nat) : Int) = some m)
    (before after : List Byte) (hb : Seps before) (ha : Seps after) :
    ElemRd env (.select n) { tok := 35 :: ds, before := before, after := after,
                             v := .sel m.name (.ref ((digitsVal ds 0 : Nat) : Int)) } := by
  refine ⟨hb, ⟨35, ds, rfl, by decide, by decide, by decide, by decide⟩, ?_⟩
  intro l sk d rest hd
  refine ⟨sk, Or.inl rfl, ?_⟩
  have hsr := selectRead_ref env hcfg sd m ds hne hds hhi hasg l sk after ha d rest hd
  show elemRead env (.select n) (G l (35 :: ds ++ (after ++ d :: rest)) sk) = _
  simp only [List.cons_append]
  rw [elemRead_at_tok env hagg _ l 35 _ sk (by decide) (by decide) (by decide) (by decide), elemReadCore_select env n sd hsd]
  simp only [bind, Except.bind, pure, Except.pure, hsr]
  have hcri := cri_seps env.lex hcfg [] (Seps.blanks [] (by simp)) (after.reverse ++ (ds.reverse ++ 35 :: l)) rest d false sk .null hd
  simp only [List.nil_append, List.reverse_nil] at hcri
  simp only [hcri]
  simp

/-- NUMBER elements (repaired `RealAggregate`: read with `ReadNumber`, integer spellings included) -/
theorem ElemRd.number (env : Env F) (hcfg : env.lex.criSkipsComments = true) (hagg : env.cfg.aggrSkipsComments = true)
    (hnum : env.cfg.numberElemReadsNumber = true)
    (tok : List Byte) (dec : Decimal) (v : F) (htok : isReal tok = true ∨ isInteger tok = true) (hden : denoteReal tok = some dec)
    (hv : env.ops.ofDecimal dec = some v) (hnn : env.ops.isRealNull v = false)
    (before after : List Byte) (hb : Seps before) (ha : Seps after) :
    ElemRd env .number { tok := tok, before := before, after := after, v := .atom (.real v) } := by
  obtain ⟨c, u, hcu, hcs, _, h44, h41, h47, h92⟩ := number_head tok htok
  refine ⟨hb, ⟨c, u, hcu, hcs, h47, h41, h92⟩, ?_⟩
  intro l sk d rest hd
  refine ⟨sk, Or.inl rfl, ?_⟩
  have hr := readNumber_tok env.ops env.lex hcfg tok dec v htok hden hv l sk after ha d rest hd
  show elemRead env .number (G l (tok ++ (after ++ d :: rest)) sk) = _
  rw [hcu] at hr ⊢
  simp only [List.cons_append] at hr ⊢
  rw [elemRead_at_tok env hagg _ l c _ sk hcs h47 h44 h41 h92]
  unfold elemReadCore
  simp only [hnum, if_true, hr, bind, Except.bind, pure, Except.pure]
  have hcri := cri_seps env.lex hcfg [] (Seps.blanks [] (by simp)) (after.reverse ++ ((c :: u).reverse ++ l)) rest d false sk .null hd
  simp only [List.nil_append, List.reverse_nil] at hcri
  rw [hcri]
  simp [realValue, hnn, valueToAtom]

/-! ## `SkipInstance` over a typed select value -/

theorem selc_plain_of (ns : List Byte) (h : ns.all (fun c => selc c && plainc c) = true) : ns.all plainc = true := by
  rw [List.all_eq_true] at h ⊢
  intro c hc
  have := h c hc
  simp only [Bool.and_eq_true] at this
  exact this.2

end StepModel.P21.RLemmas

import StepModel.P21.ReaderLemmas6
/-! Aggregates of any element kind: `STEPaggregate::ReadValue` over a list of elements each of which its element reader
takes to a value (`ElemRd`), any layout around every element; then the element kinds one by one. -/
namespace StepModel.P21.RLemmas
open StepModel StepModel.IStream StepModel.P21 StepModel.P21.Lemmas StepModel.P21.Grammar

variable {F : Type}

/-- an aggregate element: token, layout before and after, the value it stands for -/
structure ElemG (F : Type) where
  tok : List Byte
  before : List Byte
  after : List Byte
  v : Elem F

/-- one round of the element loop reads the element to its value wherever it stands, in front of the layout `after` and
    a delimiter, without error, and rests at the delimiter; `skipws` stays as it was or is switched off -/
def ElemRd (env : Env F) (ety : ElemTy) (e : ElemG F) : Prop :=
  Seps e.before ∧ (∃ c u, e.tok = c :: u ∧ isSpace c = false ∧ c ≠ 47 ∧ c ≠ 41 ∧ c ≠ 92) ∧
  ∀ (l : List Byte) (sk : Bool) (d : Byte) (rest : List Byte), (d = 44 ∨ d = 41) →
    ∃ sk', (sk' = sk ∨ sk' = false) ∧
      elemRead env ety (G l (e.tok ++ (e.after ++ d :: rest)) sk) =
        .ok (.null, e.v, G (e.after.reverse ++ (e.tok.reverse ++ l)) (d :: rest) sk')

/-- the element reader starts with the token separator: reading in front of the layout is reading after it -/
theorem elemRead_before (env : Env F) (hagg : env.cfg.aggrSkipsComments = true) (ety : ElemTy) (before : List Byte)
    (hb : Seps before) (l : List Byte) (c : Byte) (t : List Byte) (sk : Bool) (hc : isSpace c = false) (h47 : c ≠ 47) (h92 : c ≠ 92) :
    elemRead env ety (G l (before ++ c :: t) sk) = elemRead env ety (G (before.reverse ++ l) (c :: t) sk) := by
  unfold elemRead
  simp only [hagg, if_true]
  rw [readTokenSeparator_seps before hb l c t sk hc h47 h92, readTokenSeparator_none _ c t sk hc h47 h92]

/-- the same with the layout in front -/
theorem ElemRd.read {env : Env F} {ety : ElemTy} {e : ElemG F} (h : ElemRd env ety e) (hagg : env.cfg.aggrSkipsComments = true)
    (l : List Byte) (sk : Bool) (d : Byte) (rest : List Byte) (hd : d = 44 ∨ d = 41) :
    ∃ sk', (sk' = sk ∨ sk' = false) ∧
      elemRead env ety (G l (e.before ++ (e.tok ++ (e.after ++ d :: rest))) sk) =
        .ok (.null, e.v, G (e.after.reverse ++ (e.tok.reverse ++ (e.before.reverse ++ l))) (d :: rest) sk') := by
  obtain ⟨hb, ⟨c, u, hcu, hcs, h47, _, h92⟩, hrd⟩ := h
  obtain ⟨sk', hsk, hr⟩ := hrd (e.before.reverse ++ l) sk d rest hd
  refine ⟨sk', hsk, ?_⟩
  rw [← hr, hcu]
  exact elemRead_before env hagg ety e.before hb l c _ sk hcs h47 h92

def renderElemsG : List (ElemG F) → List Byte
  | [] => []
  | [e] => e.before ++ (e.tok ++ (e.after ++ [41]))
  | e :: f :: es => e.before ++ (e.tok ++ (e.after ++ 44 :: renderElemsG (f :: es)))

theorem aggrLoop_doneG (env : Env F) (ety : ElemTy) (n : Nat) (err : Sev) (acc : List (Elem F)) (s : IStream) :
    aggrLoop env ety (n + 1) err acc 41 s = .ok (err, some acc, s) := by
  unfold aggrLoop
  simp [pure, Except.pure]

theorem aggrLoop_elems (env : Env F) (ety : ElemTy) (hagg : env.cfg.aggrSkipsComments = true) (es : List (ElemG F)) (hne : es ≠ [])
    (hok : ∀ e ∈ es, ElemRd env ety e) :
    ∀ (fuel : Nat) (acc : List (Elem F)) (c : Byte) (l : List Byte) (sk : Bool) (rest : List Byte),
      es.length + 1 ≤ fuel → c ≠ 41 →
      ∃ sk', (sk' = sk ∨ sk' = false) ∧
        aggrLoop env ety fuel .null acc c (G l (renderElemsG es ++ rest) sk) =
          .ok (.null, some (acc ++ es.map (·.v)), G ((renderElemsG es).reverse ++ l) rest sk') := by
  induction es with
  | nil => exact absurd rfl hne
  | cons e fs ih =>
    intro fuel acc c l sk rest hf hc
    have hrd := (hok e (by simp)).read hagg
    have hc' : (c != 41) = true := by simpa using hc
    cases fuel with
    | zero => omega
    | succ n =>
      cases fs with
      | nil =>
        cases n with
        | zero => simp at hf
        | succ m =>
          obtain ⟨sk1, hsk1, her⟩ := hrd l sk 41 rest (Or.inr rfl)
          refine ⟨sk1, hsk1, ?_⟩
          unfold aggrLoop
          simp only [G_good, hc', Bool.and_self, if_true, bind, Except.bind, pure, Except.pure, renderElemsG]
          have e1 : e.before ++ (e.tok ++ (e.after ++ [41])) ++ rest = e.before ++ (e.tok ++ (e.after ++ 41 :: rest)) := by simp
          rw [e1, her]
          simp only
          rw [show (G (e.after.reverse ++ (e.tok.reverse ++ (e.before.reverse ++ l))) (41 :: rest) sk1).ws =
            G (e.after.reverse ++ (e.tok.reverse ++ (e.before.reverse ++ l))) (41 :: rest) sk1 from ws_good0 _ 41 rest sk1 (by decide)]
          rw [show getInto c (G (e.after.reverse ++ (e.tok.reverse ++ (e.before.reverse ++ l))) (41 :: rest) sk1) =
            (41, G (41 :: (e.after.reverse ++ (e.tok.reverse ++ (e.before.reverse ++ l)))) rest sk1) from getInto_good c _ 41 rest sk1]
          have hx : (Sev.null.toInt < Sev.incomplete.toInt) = False := by decide
          simp only [hx, if_false, bne_self_eq_false, Bool.and_false, Bool.false_and, Bool.false_eq_true]
          rw [aggrLoop_doneG]
          simp
      | cons f gs =>
        have hlen : (f :: gs).length + 1 ≤ n := by simp only [List.length_cons] at hf ⊢; omega
        obtain ⟨sk1, hsk1, her⟩ := hrd l sk 44 (renderElemsG (f :: gs) ++ rest) (Or.inl rfl)
        obtain ⟨sk2, hsk2, hrec⟩ := ih (by simp) (fun x hx => hok x (by simp [hx])) n (acc ++ [e.v]) 44
          (44 :: (e.after.reverse ++ (e.tok.reverse ++ (e.before.reverse ++ l)))) sk1 rest hlen (by decide)
        refine ⟨sk2, skflag_trans hsk1 hsk2, ?_⟩
        unfold aggrLoop
        simp only [G_good, hc', Bool.and_self, if_true, bind, Except.bind, pure, Except.pure, renderElemsG]
        have e1 : e.before ++ (e.tok ++ (e.after ++ 44 :: renderElemsG (f :: gs))) ++ rest =
            e.before ++ (e.tok ++ (e.after ++ 44 :: (renderElemsG (f :: gs) ++ rest))) := by simp
        rw [e1, her]
        simp only
        rw [show (G (e.after.reverse ++ (e.tok.reverse ++ (e.before.reverse ++ l))) (44 :: (renderElemsG (f :: gs) ++ rest)) sk1).ws =
          G (e.after.reverse ++ (e.tok.reverse ++ (e.before.reverse ++ l))) (44 :: (renderElemsG (f :: gs) ++ rest)) sk1
          from ws_good0 _ 44 _ sk1 (by decide)]
        rw [show getInto c (G (e.after.reverse ++ (e.tok.reverse ++ (e.before.reverse ++ l))) (44 :: (renderElemsG (f :: gs) ++ rest)) sk1) =
          (44, G (44 :: (e.after.reverse ++ (e.tok.reverse ++ (e.before.reverse ++ l)))) (renderElemsG (f :: gs) ++ rest) sk1)
          from getInto_good c _ 44 _ sk1]
        have hx : (Sev.null.toInt < Sev.incomplete.toInt) = False := by decide
        have h44 : ((44 : Byte) != 44) = false := by decide
        simp only [hx, if_false, h44, Bool.false_and, Bool.false_eq_true]
        rw [hrec]
        simp

theorem renderElemsG_cons (e : ElemG F) (fs : List (ElemG F)) :
    renderElemsG (e :: fs) = e.before ++ renderElemsG ({ e with before := [] } :: fs) := by
  cases fs <;> simp [renderElemsG]

theorem renderElemsG_length (es : List (ElemG F)) (hok : ∀ e ∈ es, e.tok ≠ []) : es.length ≤ (renderElemsG es).length := by
  induction es with
  | nil => simp
  | cons e fs ih =>
    have htok : 1 ≤ e.tok.length := by
      have := hok e (by simp)
      cases h : e.tok with
      | nil => exact absurd h this
      | cons c u => simp
    have := ih (fun x hx => hok x (by simp [hx]))
    cases fs with
    | nil => simp only [renderElemsG, List.length_append, List.length_cons, List.length_nil]; omega
    | cons f gs => simp only [renderElemsG, List.length_append, List.length_cons] at this ⊢; omega

/-- `STEPaggregate::ReadValue` on `( e₁ , … , eₙ )`, n ≥ 1, any layout around every element -/
theorem aggrRead_elems (env : Env F) (ety : ElemTy) (hagg : env.cfg.aggrSkipsComments = true)
    (es : List (ElemG F)) (hne : es ≠ []) (hok : ∀ e ∈ es, ElemRd env ety e) (l : List Byte) (sk : Bool) (rest : List Byte) :
    ∃ sk', (sk' = sk ∨ sk' = false) ∧
      aggrRead env ety (G l (40 :: (renderElemsG es ++ rest)) sk) =
        .ok (.null, some (es.map (·.v)), G ((40 :: renderElemsG es).reverse ++ l) rest sk') := by
  cases es with
  | nil => exact absurd rfl hne
  | cons e fs =>
    obtain ⟨hb, ⟨c0, u0, hcu, hcs, h47, h41, h92⟩, hrd⟩ := hok e (by simp)
    let e' : ElemG F := { e with before := [] }
    have hok' : ∀ x ∈ e' :: fs, ElemRd env ety x := by
      intro x hx
      rcases List.mem_cons.mp hx with rfl | hx
      · exact ⟨Seps.blanks [] (by simp), ⟨c0, u0, hcu, hcs, h47, h41, h92⟩, hrd⟩
      · exact hok x (by simp [hx])
    have hhead : ∃ u1, renderElemsG (e' :: fs) ++ rest = c0 :: u1 := by
      cases fs with
      | nil => exact ⟨u0 ++ (e.after ++ 41 :: rest), by simp [renderElemsG, e', hcu]⟩
      | cons f gs => exact ⟨u0 ++ (e.after ++ 44 :: (renderElemsG (f :: gs) ++ rest)), by simp [renderElemsG, e', hcu]⟩
    obtain ⟨u1, h1⟩ := hhead
    have hlen := renderElemsG_length (e' :: fs) (by
      intro x hx
      obtain ⟨_, ⟨c, u, h, _⟩, _⟩ := hok' x hx
      rw [h]; simp)
    obtain ⟨sk', hsk', hloop⟩ := aggrLoop_elems env ety hagg (e' :: fs) (by simp) hok'
      ((renderElemsG (e' :: fs) ++ rest).length + 2) [] c0 (e.before.reverse ++ 40 :: l) sk rest
      (by simp only [List.length_append] at hlen ⊢; omega) h41
    refine ⟨sk', hsk', ?_⟩
    unfold aggrRead
    rw [show (G l (40 :: (renderElemsG (e :: fs) ++ rest)) sk).ws = G l (40 :: (renderElemsG (e :: fs) ++ rest)) sk
      from ws_good0 l 40 _ sk (by decide)]
    simp only [bind, Except.bind, pure, Except.pure]
    rw [show (G l (40 :: (renderElemsG (e :: fs) ++ rest)) sk).peekC = (40, G l (40 :: (renderElemsG (e :: fs) ++ rest)) sk)
      from peekC_good l 40 _ sk]
    have x1 : ((40 : Byte) == 36) = false := by decide
    have x2 : ((40 : Byte) != 40) = false := by decide
    simp only [x1, Bool.or_false, x2, Bool.false_eq_true, if_false]
    rw [show getInto 40 (G l (40 :: (renderElemsG (e :: fs) ++ rest)) sk) = (40, G (40 :: l) (renderElemsG (e :: fs) ++ rest) sk)
      from getInto_good 40 l 40 _ sk]
    simp only [hagg, if_true]
    have e1 : renderElemsG (e :: fs) ++ rest = e.before ++ c0 :: u1 := by
      rw [renderElemsG_cons, List.append_assoc, h1]
    rw [e1, readTokenSeparator_seps e.before hb (40 :: l) c0 u1 sk hcs h47 h92]
    rw [show (G (e.before.reverse ++ 40 :: l) (c0 :: u1) sk).peekC = (c0, G (e.before.reverse ++ 40 :: l) (c0 :: u1) sk)
      from peekC_good _ c0 u1 sk]
    have x3 : (c0 == 41) = false := by simpa using h41
    simp only [x3, Bool.false_eq_true, if_false]
    rw [← h1]
    have hl : (G (e.before.reverse ++ 40 :: l) (renderElemsG (e' :: fs) ++ rest) sk).right.length + 2 =
        (renderElemsG (e' :: fs) ++ rest).length + 2 := rfl
    rw [hl, hloop]
    simp [renderElemsG_cons e fs, e']

/-- `STEPaggregate::ReadValue` on the empty aggregate `( seps )`, any element type -/
theorem aggrRead_emptyG (env : Env F) (ety : ElemTy) (hagg : env.cfg.aggrSkipsComments = true)
    (seps : List Byte) (hs : Seps seps) (l : List Byte) (sk : Bool) (rest : List Byte) :
    aggrRead env ety (G l (40 :: (seps ++ 41 :: rest)) sk) =
      .ok (.null, some [], G (41 :: (seps.reverse ++ 40 :: l)) rest sk) := by
  unfold aggrRead
  rw [show (G l (40 :: (seps ++ 41 :: rest)) sk).ws = G l (40 :: (seps ++ 41 :: rest)) sk from ws_good0 l 40 _ sk (by decide)]
  simp only [bind, Except.bind, pure, Except.pure]
  rw [show (G l (40 :: (seps ++ 41 :: rest)) sk).peekC = (40, G l (40 :: (seps ++ 41 :: rest)) sk) from peekC_good l 40 _ sk]
  have x1 : ((40 : Byte) == 36) = false := by decide
  have x2 : ((40 : Byte) != 40) = false := by decide
  have heof : (G l (40 :: (seps ++ 41 :: rest)) sk).eof = false := rfl
  simp only [x1, Bool.or_false, x2, Bool.false_eq_true, if_false, heof]
  rw [show getInto 40 (G l (40 :: (seps ++ 41 :: rest)) sk) = (40, G (40 :: l) (seps ++ 41 :: rest) sk) from getInto_good 40 l 40 _ sk]
  simp only [hagg, if_true]
  rw [readTokenSeparator_seps seps hs (40 :: l) 41 rest sk (by decide) (by decide)]
  rw [show (G (seps.reverse ++ 40 :: l) (41 :: rest) sk).peekC = (41, G (seps.reverse ++ 40 :: l) (41 :: rest) sk) from peekC_good _ 41 rest sk]
  simp only [beq_self_eq_true, if_true]
  rw [show getInto 41 (G (seps.reverse ++ 40 :: l) (41 :: rest) sk) = (41, G (41 :: (seps.reverse ++ 40 :: l)) rest sk)
    from getInto_good 41 _ 41 rest sk]
  simp only
  rw [show (G (41 :: (seps.reverse ++ 40 :: l)) rest sk).right.length + 2 = (rest.length + 1) + 1 from rfl, aggrLoop_doneG]

/-- the text of an aggregate: `( e₁ , … , eₙ )` or `( seps )` -/
def aggrTextG (es : List (ElemG F)) (inner : List Byte) : List Byte :=
  match es with
  | [] => 40 :: (inner ++ [41])
  | _ => 40 :: renderElemsG es

/-- an aggregate attribute of any element type: every element read to its value, any layout inside and after -/
theorem attr_aggr (env : Env F) (strict : Bool) (a : AttrD) (ety : ElemTy) (hty : a.ty = .aggr ety) (hder : a.derived = false)
    (hcfg : env.lex.criSkipsComments = true) (hagg : env.cfg.aggrSkipsComments = true)
    (es : List (ElemG F)) (inner : List Byte) (hok : ∀ e ∈ es, ElemRd env ety e) (hin : Seps inner)
    (l : List Byte) (sk : Bool) (seps : List Byte) (hs : Seps seps) (d : Byte) (rest : List Byte) (hd : d = 44 ∨ d = 41) :
    ∃ sk', (sk' = sk ∨ sk' = false) ∧
      attrSTEPread env strict a (G l (aggrTextG es inner ++ (seps ++ d :: rest)) sk) =
        .ok (.null, .aggr (es.map (·.v)), G (seps.reverse ++ ((aggrTextG es inner).reverse ++ l)) (d :: rest) sk') := by
  have hread : ∃ sk', (sk' = sk ∨ sk' = false) ∧ aggrRead env ety (G l (aggrTextG es inner ++ (seps ++ d :: rest)) sk) =
      .ok (.null, some (es.map (·.v)), G ((aggrTextG es inner).reverse ++ l) (seps ++ d :: rest) sk') := by
    cases es with
    | nil =>
      have := aggrRead_emptyG env ety hagg inner hin l sk (seps ++ d :: rest)
      refine ⟨sk, Or.inl rfl, ?_⟩
      simp only [aggrTextG, List.cons_append, List.append_assoc, List.singleton_append, List.nil_append] at this ⊢
      rw [this]
      simp
    | cons e fs =>
      obtain ⟨sk', hsk', this⟩ := aggrRead_elems env ety hagg (e :: fs) (by simp) hok l sk (seps ++ d :: rest)
      refine ⟨sk', hsk', ?_⟩
      simp only [aggrTextG, List.cons_append] at this ⊢
      rw [this]
  obtain ⟨sk', hsk', hread⟩ := hread
  refine ⟨sk', hsk', ?_⟩
  have hhead : ∃ u, aggrTextG es inner ++ (seps ++ d :: rest) = 40 :: u := by
    cases es <;> exact ⟨_, rfl⟩
  obtain ⟨u, hu⟩ := hhead
  unfold attrSTEPread
  rw [hu, show (G l (40 :: u) sk).ws = G l (40 :: u) sk from ws_good0 l 40 u sk (by decide)]
  simp only [bind, Except.bind, pure, Except.pure]
  rw [show (G l (40 :: u) sk).peekC = (40, G l (40 :: u) sk) from peekC_good l 40 u sk]
  have e36 : ((40 : Byte) == 36) = false := by decide
  have e44 : ((40 : Byte) == 44) = false := by decide
  have e41 : ((40 : Byte) == 41) = false := by decide
  simp only [hder, Bool.false_eq_true, if_false, e36, e44, e41, Bool.or_self, hty]
  rw [← hu, hread]
  have hx : (Sev.null.toInt < Sev.warning.toInt) = False := by decide
  simp only [hx, if_false]
  rw [cri_seps env.lex hcfg seps hs _ rest d false sk' .null hd]

/-! ## the element kinds -/

/-- the common prefix of a round of the element loop at a token: nothing to skip, no "missing element" verdict -/
theorem elemRead_at_tok (env : Env F) (hagg : env.cfg.aggrSkipsComments = true) (ety : ElemTy) (l : List Byte) (c : Byte)
    (t : List Byte) (sk : Bool) (hcs : isSpace c = false) (h47 : c ≠ 47) (h44 : c ≠ 44) (h41 : c ≠ 41) (h92 : c ≠ 92 := by decide) :
    elemRead env ety (G l (c :: t) sk) = elemReadCore env ety (G l (c :: t) sk) := by
  unfold elemRead
  simp only [hagg, if_true, bind, Except.bind, pure, Except.pure]
  rw [readTokenSeparator_none l c t sk hcs h47 h92, elemMissing_tok env.cfg l c t sk h44 h41]
  simp only [Bool.false_eq_true, if_false]
  cases elemReadCore env ety (G l (c :: t) sk) <;> rfl

/-- element types whose nodes are read by their scalar reader followed by `CheckRemainingInput` -/
def ScalarElem (ty : ElemTy) : Prop :=
  ty = .integer ∨ ty = .real ∨ ty = .string ∨ ty = .binary ∨ ty = .boolean ∨ ty = .logical ∨ (∃ it, ty = .enum it) ∨ (∃ tg, ty = .entity tg)

theorem elemReadCore_scalar (env : Env F) (ty : ElemTy) (hty : ScalarElem ty) (s : IStream) :
    elemReadCore env ty s = (do
      let (e, a, s1) ← scalarNodeRead env ty s
      let (s2, e2) := checkRemainingInput env.lex (some attrDelims) s1 e
      pure (e2, .atom a, s2)) := by
  rcases hty with rfl | rfl | rfl | rfl | rfl | rfl | ⟨it, rfl⟩ | ⟨tg, rfl⟩ <;> rfl

/-- INTEGER elements -/
theorem ElemRd.integer (env : Env F) (hcfg : env.lex.criSkipsComments = true) (hagg : env.cfg.aggrSkipsComments = true)
    (tok : List Byte) (htok : isInteger tok = true) (hlo : longMin ≤ denoteInteger tok) (hhi : denoteInteger tok < longMax)
    (before after : List Byte) (hb : Seps before) (ha : Seps after) :
    ElemRd env .integer { tok := tok, before := before, after := after, v := .atom (.int (denoteInteger tok)) } := by
  obtain ⟨c, u, hcu, hcs, h47, h41, h92⟩ := isInteger_head47 tok htok
  refine ⟨hb, ⟨c, u, hcu, hcs, h47, h41, h92⟩, ?_⟩
  intro l sk d rest hd
  have := elemRead_int env hcfg hagg { tok := tok, before := [], after := after } ⟨htok, hlo, hhi, Seps.blanks [] (by simp), ha⟩ l sk d rest hd
  exact ⟨sk, Or.inl rfl, by simpa [elemVal] using this⟩

/-- STRING elements (`skipws` is switched off) -/
theorem ElemRd.string (env : Env F) (hcfg : env.lex.criSkipsComments = true) (hagg : env.cfg.aggrSkipsComments = true)
    (b : List Byte) (hsb : StringBody b) (before after : List Byte) (hb : Seps before) (ha : Seps after) :
    ElemRd env .string { tok := 39 :: (b ++ [39]), before := before, after := after, v := .atom (.str (39 :: (b ++ [39]))) } := by
  refine ⟨hb, ⟨39, b ++ [39], rfl, by decide, by decide, by decide, by decide⟩, ?_⟩
  intro l sk d rest hd
  refine ⟨false, Or.inr rfl, ?_⟩
  obtain ⟨c, u, hcu, hc39⟩ := seps_head_not_apos after ha d rest hd
  have hshape : 39 :: (b ++ [39]) ++ (after ++ d :: rest) = 39 :: (b ++ 39 :: c :: u) := by rw [← hcu]; simp
  show elemRead env .string (G l (39 :: (b ++ [39]) ++ (after ++ d :: rest)) sk) = _
  rw [hshape, elemRead_at_tok env hagg _ l 39 _ sk (by decide) (by decide) (by decide) (by decide),
    elemReadCore_scalar env .string (Or.inr (Or.inr (Or.inl rfl)))]
  simp only [bind, Except.bind, pure, Except.pure]
  rw [scalarNodeRead_string, stringRead_tok b hsb l sk c u hc39]
  simp only
  have hcri := cri_seps env.lex hcfg after ha (39 :: (b.reverse ++ 39 :: l)) rest d false false .null hd
  rw [← hcu, hcri]
  simp

/-- ENUMERATION / BOOLEAN / LOGICAL elements -/
theorem ElemRd.enum (env : Env F) (hcfg : env.lex.criSkipsComments = true) (hagg : env.cfg.aggrSkipsComments = true)
    (ty : ElemTy) (het : EnumTy ty) (name : List Byte) (i : Nat) (hne : name ≠ []) (hname : name.all pw = true)
    (hfind : findName (enumKindOf ty).table (name.map toUpper) = some i) (hset : (enumKindOf ty).isUnsetIdx i = false)
    (before after : List Byte) (hb : Seps before) (ha : Seps after) :
    ElemRd env ty { tok := 46 :: (name ++ [46]), before := before, after := after, v := .atom (.enum i) } := by
  refine ⟨hb, ⟨46, name ++ [46], rfl, by decide, by decide, by decide, by decide⟩, ?_⟩
  intro l sk d rest hd
  refine ⟨sk, Or.inl rfl, ?_⟩
  have hshape : 46 :: (name ++ [46]) ++ (after ++ d :: rest) = 46 :: (name ++ 46 :: (after ++ d :: rest)) := by simp
  have hsc : ScalarElem ty := by
    rcases het with rfl | rfl | ⟨items, rfl⟩
    · exact Or.inr (Or.inr (Or.inr (Or.inr (Or.inl rfl))))
    · exact Or.inr (Or.inr (Or.inr (Or.inr (Or.inr (Or.inl rfl)))))
    · exact Or.inr (Or.inr (Or.inr (Or.inr (Or.inr (Or.inr (Or.inl ⟨items, rfl⟩))))))
  have hsn : scalarNodeRead env ty (G l (46 :: (name ++ 46 :: (after ++ d :: rest))) sk) =
      .ok (.null, .enum i, G (46 :: (name.reverse ++ 46 :: l)) (after ++ d :: rest) sk) := by
    have hr := enumRead_tok env.lex (enumKindOf ty) false name i hne hname hfind hset l sk (after ++ d :: rest)
    rcases het with rfl | rfl | ⟨items, rfl⟩ <;>
      (unfold scalarNodeRead; simp only [enumKindOf] at hr hset; simp [hr, enumValue, hset, valueToAtom, pure, Except.pure])
  show elemRead env ty (G l (46 :: (name ++ [46]) ++ (after ++ d :: rest)) sk) = _
  rw [hshape, elemRead_at_tok env hagg _ l 46 _ sk (by decide) (by decide) (by decide) (by decide), elemReadCore_scalar env ty hsc]
  simp only [bind, Except.bind, pure, Except.pure, hsn]
  rw [cri_seps env.lex hcfg after ha _ rest d false sk .null hd]
  simp

/-- BINARY elements -/
theorem ElemRd.binary (env : Env F) (hcfg : env.lex.criSkipsComments = true) (hagg : env.cfg.aggrSkipsComments = true)
    (hex : List Byte) (hne : hex ≠ []) (hhex : hex.all isXDigit = true)
    (before after : List Byte) (hb : Seps before) (ha : Seps after) :
    ElemRd env .binary { tok := 34 :: (hex ++ [34]), before := before, after := after, v := .atom (.bin hex) } := by
  refine ⟨hb, ⟨34, hex ++ [34], rfl, by decide, by decide, by decide, by decide⟩, ?_⟩
  intro l sk d rest hd
  refine ⟨sk, Or.inl rfl, ?_⟩
  have hshape : 34 :: (hex ++ [34]) ++ (after ++ d :: rest) = 34 :: (hex ++ 34 :: (after ++ d :: rest)) := by simp
  show elemRead env .binary (G l (34 :: (hex ++ [34]) ++ (after ++ d :: rest)) sk) = _
  rw [hshape, elemRead_at_tok env hagg _ l 34 _ sk (by decide) (by decide) (by decide) (by decide),
    elemReadCore_scalar env .binary (Or.inr (Or.inr (Or.inr (Or.inl rfl))))]
  simp only [bind, Except.bind, pure, Except.pure]
  rw [scalarNodeRead_binary, readBinary_tok env.lex hex hne hhex l sk _]
  simp only
  rw [cri_seps env.lex hcfg after ha _ rest d false sk .null hd]
  have : hex.isEmpty = false := by cases hex <;> simp_all
  simp [this]

/-- REAL elements -/
theorem ElemRd.real (env : Env F) (hcfg : env.lex.criSkipsComments = true) (hagg : env.cfg.aggrSkipsComments = true)
    (tok : List Byte) (dec : Decimal) (v : F) (htok : isReal tok = true) (hden : denoteReal tok = some dec)
    (hv : env.ops.ofDecimal dec = some v) (hnn : env.ops.isRealNull v = false)
    (hbuf : env.lex.realBuf = 0 ∨ tok.length < env.lex.realBuf)
    (before after : List Byte) (hb : Seps before) (ha : Seps after) :
    ElemRd env .real { tok := tok, before := before, after := after, v := .atom (.real v) } := by
  obtain ⟨c, u, hcu, hcs, _, h44, h41, h47, h92⟩ := number_head tok (Or.inl htok)
  refine ⟨hb, ⟨c, u, hcu, hcs, h47, h41, h92⟩, ?_⟩
  intro l sk d rest hd
  refine ⟨sk, Or.inl rfl, ?_⟩
  have hr := readReal_tok env.ops env.lex hcfg tok dec v htok hden hv hbuf l sk after ha d rest hd
  show elemRead env .real (G l (tok ++ (after ++ d :: rest)) sk) = _
  rw [hcu] at hr ⊢
  simp only [List.cons_append] at hr ⊢
  rw [elemRead_at_tok env hagg _ l c _ sk hcs h47 h44 h41 h92, elemReadCore_scalar env .real (Or.inr (Or.inl rfl))]
  have hsn : scalarNodeRead env .real (G l (c :: (u ++ (after ++ d :: rest))) sk) =
      .ok (.null, .real v, G (after.reverse ++ ((c :: u).reverse ++ l)) (d :: rest) sk) := by
    unfold scalarNodeRead
    simp only [hr, liftOutcome, bind, Except.bind, pure, Except.pure]
    simp [realValue, hnn, valueToAtom]
  simp only [bind, Except.bind, pure, Except.pure, hsn]
  have hcri := cri_seps env.lex hcfg [] (Seps.blanks [] (by simp)) (after.reverse ++ ((c :: u).reverse ++ l)) rest d false sk .null hd
  simp only [List.nil_append, List.reverse_nil] at hcri
  rw [hcri]

/-- `ReadEntityRef` on `#digits` standing anywhere, the id within `int`, the instance found and of a conforming type -/
theorem readEntityRef_tok (lex : LexCfg) (hcfg : lex.criSkipsComments = true) (lookup : Int → RefLookup)
    (ds : List Byte) (hne : ds ≠ []) (hds : ds.all isDigit = true) (hhi : ((digitsVal ds 0 : Nat) : Int) ≤ intMax)
    (hfound : lookup ((digitsVal ds 0 : Nat) : Int) = .found)
    (l : List Byte) (sk : Bool) (seps : List Byte) (hs : Seps seps) (d : Byte) (rest : List Byte) (hd : d = 44 ∨ d = 41) :
    readEntityRef lex lookup (some attrDelims) (G l (35 :: (ds ++ (seps ++ d :: rest))) sk) .null =
      (some ((digitsVal ds 0 : Nat) : Int), G (seps.reverse ++ (ds.reverse ++ 35 :: l)) (d :: rest) sk, .null) := by
  obtain ⟨x, xr, hx, hxd⟩ := seps_head_not_digit seps hs d rest hd
  simp only [readEntityRef, refTail]
  rw [show (G l (35 :: (ds ++ (seps ++ d :: rest))) sk).ws = G l (35 :: (ds ++ (seps ++ d :: rest))) sk from ws_good0 l 35 _ sk (by decide)]
  rw [getChar_G l 35 _ sk (by decide)]
  simp only [Option.getD_some, beq_self_eq_true, Bool.true_or, Option.isSome_some, Bool.and_self, if_true]
  rw [hx, extractInt32_digits ds hne hds hhi (35 :: l) x xr sk hxd, ← hx]
  have hcri := cri_seps lex hcfg seps hs (ds.reverse ++ 35 :: l) rest d false sk Sev.null hd
  simp [IStream.failed, hcri, hfound]

/-- entity-reference elements (forward or backward) -/
theorem ElemRd.ref (env : Env F) (hcfg : env.lex.criSkipsComments = true) (hagg : env.cfg.aggrSkipsComments = true)
    (tg : String) (ds : List Byte) (hne : ds ≠ []) (hds : ds.all isDigit = true) (hhi : ((digitsVal ds 0 : Nat) : Int) ≤ intMax)
    (hfound : refLookup env.lookup tg ((digitsVal ds 0 : Nat) : Int) = .found)
    (before after : List Byte) (hb : Seps before) (ha : Seps after) :
    ElemRd env (.entity tg) { tok := 35 :: ds, before := before, after := after,
                              v := .atom (.ref ((digitsVal ds 0 : Nat) : Int)) } := by
  refine ⟨hb, ⟨35, ds, rfl, by decide, by decide, by decide, by decide⟩, ?_⟩
  intro l sk d rest hd
  refine ⟨sk, Or.inl rfl, ?_⟩
  have hr := readEntityRef_tok env.lex hcfg (refLookup env.lookup tg) ds hne hds hhi hfound l sk after ha d rest hd
  show elemRead env (.entity tg) (G l (35 :: ds ++ (after ++ d :: rest)) sk) = _
  simp only [List.cons_append]
  rw [elemRead_at_tok env hagg _ l 35 _ sk (by decide) (by decide) (by decide) (by decide),
    elemReadCore_scalar env (.entity tg) (Or.inr (Or.inr (Or.inr (Or.inr (Or.inr (Or.inr (Or.inr ⟨tg, rfl⟩)))))))]
  have hsn : scalarNodeRead env (.entity tg) (G l (35 :: (ds ++ (after ++ d :: rest))) sk) =
      .ok (.null, .ref ((digitsVal ds 0 : Nat) : Int), G (after.reverse ++ (ds.reverse ++ 35 :: l)) (d :: rest) sk) := by
    unfold scalarNodeRead
    simp only [hr, pure, Except.pure]
  simp only [bind, Except.bind, pure, Except.pure, hsn]
  have hcri := cri_seps env.lex hcfg [] (Seps.blanks [] (by simp)) (after.reverse ++ (ds.reverse ++ 35 :: l)) rest d false sk .null hd
  simp only [List.nil_append, List.reverse_nil] at hcri
  rw [hcri]
  simp

/-! ## `SkipInstance` (pass 1) over aggregates of any covered element kind -/

/-- what pass 1 needs of an element -/
def ElemScan (e : ElemG F) : Prop := PassesS e.tok ∧ Seps e.before ∧ Seps e.after

theorem Passes.elemG (e : ElemG F) (h : ElemScan e) (d : Byte) (hd : plainc d = true) :
    Passes (e.before ++ (e.tok ++ (e.after ++ [d]))) := by
  obtain ⟨hS, hb, ha⟩ := h
  have hA : Passes (e.after ++ [d]) := Passes.append (Passes.seps ha) (Passes.plain d hd)
  obtain ⟨y, ys, hy, hy39⟩ : ∃ y ys, e.after ++ [d] = y :: ys ∧ y ≠ 39 :=
    seps_then e.after ha d [] (fun c => c ≠ 39) (fun c hc h => by rw [h] at hc; exact absurd hc (by decide)) (by decide) (plainc_ne39 hd)
  rw [hy] at hA ⊢
  exact Passes.append (Passes.seps hb) (PassesS.append_cons hS hA hy39)

theorem Passes.elemsG (es : List (ElemG F)) (hne : es ≠ []) (h : ∀ e ∈ es, ElemScan e) : Passes (renderElemsG es) := by
  induction es with
  | nil => exact absurd rfl hne
  | cons p qs ih =>
    cases qs with
    | nil => exact Passes.elemG p (h p (by simp)) 41 (by decide)
    | cons q qs' =>
      have e : renderElemsG (p :: q :: qs') = (p.before ++ (p.tok ++ (p.after ++ [44]))) ++ renderElemsG (q :: qs') := by
        simp [renderElemsG]
      rw [e]
      exact Passes.append (Passes.elemG p (h p (by simp)) 44 (by decide))
        (ih (by simp) (fun x hx => h x (by simp [hx])))

theorem Passes.aggrTextG (es : List (ElemG F)) (inner : List Byte) (hok : ∀ e ∈ es, ElemScan e) (hin : Seps inner) :
    Passes (aggrTextG es inner) := by
  cases es with
  | nil =>
    exact Passes.append (a := [40]) (Passes.plain 40 (by decide)) (Passes.append (Passes.seps hin) (Passes.plain 41 (by decide)))
  | cons e es' =>
    exact Passes.append (a := [40]) (Passes.plain 40 (by decide)) (Passes.elemsG (e :: es') (by simp) hok)

end StepModel.P21.RLemmas

import StepModel.P21.ReaderLemmas21
/-! Internally mapped records with any text between the parentheses (`BRec`: the parameter list is a byte string that
`SkipInstance` gets over): pass 1 and pass 2 at record level - the record-level lemmas of ReaderLemmas3/5 with
`renderParams ps` abstracted.  Instance: records without parameters `#id = NAME ( ) ;`. -/
namespace StepModel.P21.RLemmas
open StepModel StepModel.IStream StepModel.P21 StepModel.P21.Lemmas StepModel.P21.Grammar

variable {F : Type}

/-- `#` has been consumed: `id seps = seps NAME seps ( body seps ;` - `body` is everything behind the `(` up to and
    including the closing `)` -/
structure BRec where
  ds : List Byte
  s1 : List Byte
  s2 : List Byte
  n0 : Byte
  ns : List Byte
  s3 : List Byte
  body : List Byte
  s4 : List Byte

def BRec.id (r : BRec) : Int := ((digitsVal r.ds 0 : Nat) : Int)
def BRec.name (r : BRec) : String := bytesToString (upperBytes (r.n0 :: r.ns))
def BRec.t4 (r : BRec) (rest : List Byte) : List Byte := r.s4 ++ 59 :: rest
def BRec.t3 (r : BRec) (rest : List Byte) : List Byte := r.s3 ++ 40 :: (r.body ++ r.t4 rest)
def BRec.t2 (r : BRec) (rest : List Byte) : List Byte := r.s2 ++ r.n0 :: (r.ns ++ r.t3 rest)
def BRec.t1 (r : BRec) (rest : List Byte) : List Byte := r.s1 ++ 61 :: r.t2 rest
def BRec.text (r : BRec) (rest : List Byte) : List Byte := r.ds ++ r.t1 rest

structure BRec.Lex (r : BRec) : Prop where
  dne : r.ds ≠ []
  ddig : r.ds.all isDigit = true
  dhi : r.id ≤ intMax
  h1 : Seps r.s1
  h2 : Seps r.s2
  h3 : Seps r.s3
  h4 : Seps r.s4
  hn0 : isAlpha r.n0 = true
  hns : r.ns.all kwc = true

/-- pass 1 on such a record: the instance is created with every attribute unset -/
theorem createInstance_brec (cfg : RWCfg) (hcfg : cfg.skipInstanceSkipsComments = true) (d : Dict) (m : Mgr F)
    (r : BRec) (hlex : r.Lex) (hbody : Passes r.body) (hnone : m.find? r.id = none)
    (e : EntityD) (hent : d.entity? r.name = some e) (habs : e.abstract = false)
    (l g : List Byte) (hg : Seps g) (c : Byte) (k : List Byte) (hc : isSpace c = false) (hc47 : c ≠ 47) (hc92 : c ≠ 92) :
    ∃ l', createInstance cfg d m (G l (r.text (g ++ c :: k)) false) =
      .ok (some { id := r.id, parts := [{ name := r.name, vals := defaults e.attrs }] }, G l' (c :: k) false) := by
  obtain ⟨dne, ddig, dhi, h1, h2, h3, h4, hn0, hns⟩ := hlex
  obtain ⟨hn0s, hn047, hn038, hn040, hn033, hn035, hn0d, hn0k, hn092⟩ := alpha_facts hn0
  generalize hrest : g ++ c :: k = rest
  obtain ⟨c0, u, hcu⟩ : ∃ c0 u, r.ds = c0 :: u := by
    cases hd : r.ds with
    | nil => exact absurd hd dne
    | cons c u => exact ⟨c, u, rfl⟩
  have hcd : isDigit c0 = true := by rw [hcu] at ddig; simp at ddig; exact ddig.1
  have hc047 : c0 ≠ 47 := by intro h; rw [h] at hcd; exact absurd hcd (by decide)
  obtain ⟨x, xr, hXe, hxd⟩ : ∃ x xr, r.t1 rest = x :: xr ∧ isDigit x = false :=
    seps_then r.s1 h1 61 _ (fun c => isDigit c = false) (fun c h => space_not_digit h) (by decide) (by decide)
  have e0 : readTokenSeparator (G l (r.text rest) false) = G l (r.text rest) false := by
    unfold BRec.text; rw [hcu]; exact readTokenSeparator_none l c0 _ false (digit_not_space hcd) hc047 (by intro h; rw [h] at hcd; exact absurd hcd (by decide))
  have e1 : (G l (r.text rest) false).extractInt32 = (some r.id, G (r.ds.reverse ++ l) (r.t1 rest) false) := by
    unfold BRec.text; rw [hXe]; exact extractInt32_digits r.ds dne ddig dhi l x xr false hxd
  have e2 : readTokenSeparator (G (r.ds.reverse ++ l) (r.t1 rest) false) = G (r.s1.reverse ++ (r.ds.reverse ++ l)) (61 :: r.t2 rest) false :=
    readTokenSeparator_seps r.s1 h1 (r.ds.reverse ++ l) 61 _ false (by decide) (by decide)
  have e3 : readTokenSeparator (G (61 :: (r.s1.reverse ++ (r.ds.reverse ++ l))) (r.t2 rest) false) =
      G (r.s2.reverse ++ 61 :: (r.s1.reverse ++ (r.ds.reverse ++ l))) (r.n0 :: (r.ns ++ r.t3 rest)) false :=
    readTokenSeparator_seps r.s2 h2 _ r.n0 _ false hn0s hn047 hn092
  unfold createInstance
  rw [e0]
  simp only [e1, Option.getD_some, hnone, Option.isSome_none, Bool.false_eq_true, if_false]
  rw [e2, getInto_good 0 _ 61 _ false]
  simp only [bne_self_eq_false, Bool.false_eq_true, if_false]
  rw [e3, peekC_good]
  have e38 : (r.n0 == 38) = false := by simp [hn038]
  have e40 : (r.n0 == 40) = false := by simp [hn040]
  have e33 : (r.n0 == 33) = false := by simp [hn033]
  simp only [e38, e40, e33, Bool.false_eq_true, if_false, bind, Except.bind, pure, Except.pure]
  obtain ⟨y, yr, hYe, hyk⟩ : ∃ y yr, r.t3 rest = y :: yr ∧ kwc y = false :=
    seps_then r.s3 h3 40 _ (fun c => kwc c = false) (fun c h => space_not_kwc h) (by decide) (by decide)
  have hkw : (r.n0 :: r.ns).all kwc = true := by simp only [List.all_cons, hn0k, Bool.true_and]; exact hns
  have ekw : readStdKeyword (G (r.s2.reverse ++ 61 :: (r.s1.reverse ++ (r.ds.reverse ++ l))) (r.n0 :: (r.ns ++ r.t3 rest)) false) =
      (r.n0 :: r.ns, G ((r.n0 :: r.ns).reverse ++ (r.s2.reverse ++ 61 :: (r.s1.reverse ++ (r.ds.reverse ++ l)))) (r.t3 rest) false) := by
    rw [hYe]
    exact readStdKeyword_spec r.n0 r.ns hkw hn0s y hyk _ yr false
  rw [ekw]
  simp only
  have hT : Passes (r.s3 ++ 40 :: (r.body ++ r.s4)) :=
    Passes.append (Passes.seps h3) (Passes.append (a := [40]) (Passes.plain 40 (by decide))
      (Passes.append hbody (Passes.seps h4)))
  have eT : r.t3 rest = (r.s3 ++ 40 :: (r.body ++ r.s4)) ++ 59 :: rest := by simp [BRec.t3, BRec.t4]
  rw [eT, skipInstance_passes cfg hcfg _ hT]
  simp only
  rw [show bytesToString (upperBytes (r.n0 :: r.ns)) = r.name from rfl, hent]
  simp only [habs, Bool.false_eq_true, if_false]
  rw [← hrest, readTokenSeparator_seps g hg _ c k false hc hc47 hc92]
  exact ⟨_, rfl⟩


/-- pass 2 on such a record whose text between the parentheses `STEPread` reads to the position behind it -/
theorem readInstance_brec (ops : FloatOps F) (lex : LexCfg) (cfg : RWCfg) (d : Dict) (strict : Bool) (st : P2 F)
    (r : BRec) (hlex : r.Lex) (l rest : List Byte) (sk : Bool) (hs : st.s = G l (r.text rest) sk)
    (inst : MInst F) (hfind : st.mgr.find? r.id = some inst) (hnew : inst.state = .new) (hcx : inst.complex = false)
    (p : MPart F) (hparts : inst.parts = [p]) (e : EntityD) (hent : d.entity? p.name = some e)
    (sev0 : Sev) (vals : List (MVal F)) (asev0 : Sev)
    (hrd : ∀ L, ∃ sk1, instSTEPread { ops := ops, lex := lex, cfg := cfg, dict := d, lookup := Mgr.lookup d st.mgr } strict
        e.attrs (G L (40 :: (r.body ++ r.t4 rest)) sk) =
          .ok ⟨sev0, vals, G ((40 :: r.body).reverse ++ L) (r.t4 rest) sk1, asev0⟩)
    (hno : (cfg.errorResyncsFromStart && decide (sev0.toInt ≤ Sev.warning.toInt)) = false) :
    ∃ l' sk1, readInstance ops lex cfg d strict st =
      .ok { s := G l' rest sk1, inst := some { inst with parts := [{ p with vals := vals }], state := stateOf sev0 },
            reported := some sev0, left := some .null } := by
  obtain ⟨dne, ddig, dhi, h1, h2, h3, h4, hn0, hns⟩ := hlex
  obtain ⟨hn0s, hn047, hn038, hn040, hn033, hn035, hn0d, hn0k, hn092⟩ := alpha_facts hn0
  obtain ⟨c, u, hcu⟩ : ∃ c u, r.ds = c :: u := by
    cases hd : r.ds with
    | nil => exact absurd hd dne
    | cons c u => exact ⟨c, u, rfl⟩
  have hcd : isDigit c = true := by rw [hcu] at ddig; simp at ddig; exact ddig.1
  have hc47 : c ≠ 47 := by intro h; rw [h] at hcd; exact absurd hcd (by decide)
  obtain ⟨x, xr, hXe, hxd⟩ : ∃ x xr, r.t1 rest = x :: xr ∧ isDigit x = false :=
    seps_then r.s1 h1 61 _ (fun c => isDigit c = false) (fun c h => space_not_digit h) (by decide) (by decide)
  have e0 : readComment (G l (r.text rest) sk) = G l (r.text rest) sk := by
    unfold BRec.text; rw [hcu]; exact readComment_none l c _ sk (digit_not_space hcd) hc47
  have e1 : (G l (r.text rest) sk).extractInt32 = (some r.id, G (r.ds.reverse ++ l) (r.t1 rest) sk) := by
    unfold BRec.text; rw [hXe]; exact extractInt32_digits r.ds dne ddig dhi l x xr sk hxd
  have e2 : readTokenSeparator (G (r.ds.reverse ++ l) (r.t1 rest) sk) = G (r.s1.reverse ++ (r.ds.reverse ++ l)) (61 :: r.t2 rest) sk :=
    readTokenSeparator_seps r.s1 h1 (r.ds.reverse ++ l) 61 _ sk (by decide) (by decide)
  have e3 : readTokenSeparator (G (61 :: (r.s1.reverse ++ (r.ds.reverse ++ l))) (r.t2 rest) sk) =
      G (r.s2.reverse ++ 61 :: (r.s1.reverse ++ (r.ds.reverse ++ l))) (r.n0 :: (r.ns ++ r.t3 rest)) sk :=
    readTokenSeparator_seps r.s2 h2 _ r.n0 _ sk hn0s hn047 hn092
  unfold readInstance
  rw [hs, e0]
  simp only [e1, Option.getD_some, hfind, hnew, bne_self_eq_false, Bool.false_eq_true, if_false]
  rw [e2, getInto_good 0 _ 61 _ sk]
  simp only [bne_self_eq_false, Bool.false_eq_true, if_false]
  rw [e3, markStart_G]
  simp only
  rw [peekC_good]
  have e38 : (r.n0 == 38) = false := by simp [hn038]
  have e40 : (r.n0 == 40) = false := by simp [hn040]
  have e33 : (r.n0 == 33) = false := by simp [hn033]
  simp only [e38, e40, Bool.false_eq_true, if_false, bind, Except.bind, pure, Except.pure]
  rw [readTokenSeparator_none _ r.n0 _ sk hn0s hn047 hn092, peekC_good]
  simp only [e33, Bool.false_eq_true, if_false]
  obtain ⟨y, yr, hYe, hyk⟩ : ∃ y yr, r.t3 rest = y :: yr ∧ kwc y = false :=
    seps_then r.s3 h3 40 _ (fun c => kwc c = false) (fun c h => space_not_kwc h) (by decide) (by decide)
  have hkw : (r.n0 :: r.ns).all kwc = true := by simp only [List.all_cons, hn0k, Bool.true_and]; exact hns
  have ekw : readStdKeyword (G (r.s2.reverse ++ 61 :: (r.s1.reverse ++ (r.ds.reverse ++ l))) (r.n0 :: (r.ns ++ r.t3 rest)) sk) =
      (r.n0 :: r.ns, G ((r.n0 :: r.ns).reverse ++ (r.s2.reverse ++ 61 :: (r.s1.reverse ++ (r.ds.reverse ++ l)))) (r.t3 rest) sk) := by
    rw [hYe]
    exact readStdKeyword_spec r.n0 r.ns hkw hn0s y hyk _ yr sk
  rw [ekw]
  simp only
  have e4 : readTokenSeparator (G ((r.n0 :: r.ns).reverse ++ (r.s2.reverse ++ 61 :: (r.s1.reverse ++ (r.ds.reverse ++ l)))) (r.t3 rest) sk) =
      G (r.s3.reverse ++ ((r.n0 :: r.ns).reverse ++ (r.s2.reverse ++ 61 :: (r.s1.reverse ++ (r.ds.reverse ++ l)))))
        (40 :: (r.body ++ r.t4 rest)) sk :=
    readTokenSeparator_seps r.s3 h3 _ 40 _ sk (by decide) (by decide)
  rw [e4]
  obtain ⟨sk1, hrd'⟩ := hrd (r.s3.reverse ++ ((r.n0 :: r.ns).reverse ++ (r.s2.reverse ++ 61 :: (r.s1.reverse ++ (r.ds.reverse ++ l)))))
  simp only [hcx, Bool.false_eq_true, if_false, hparts, hent]
  rw [hrd']
  simp only
  have e5 : ∀ L, readTokenSeparator (G L (r.t4 rest) sk1) = G (r.s4.reverse ++ L) (59 :: rest) sk1 :=
    fun L => readTokenSeparator_seps r.s4 h4 L 59 rest sk1 (by decide) (by decide)
  rw [e5, peekC_good]
  have e69 : ((59 : Byte) != 69) = true := by decide
  have hno' : (cfg.errorResyncsFromStart && decide (sev0.toInt ≤ Sev.warning.toInt)) = false := hno
  cases hm : cfg.missingSemicolonReported <;>
    simp only [Bool.false_eq_true, if_false, if_true, beq_self_eq_true, e69, hno',
      shiftInto_good _ _ 59 rest sk1 (by decide)] <;>
    exact ⟨_, _, rfl⟩



end StepModel.P21.RLemmas
